/-
C13 — two-qubit measures agree with each other; the convex-roof ansatz bounds from above.

Property theorems (algebra, all sizes). The scalar layer over ℝ (ranges, monotonicity, zero sets, guard totality of the
closed forms as functions of the concurrence) depends on the regenerated guard flags and lives in
`NumqiProofs/DecisionC13.lean`.
-/
import NumqiProofs.EntangleSpin
import Mathlib.Analysis.SpecialFunctions.Log.NegMulLog
import Mathlib.Analysis.Convex.Jensen
import Mathlib.Algebra.Order.Chebyshev
import Mathlib.Tactic
import Mathlib.LinearAlgebra.Matrix.Determinant.Basic
import Mathlib.LinearAlgebra.Matrix.Adjugate
import Mathlib.LinearAlgebra.Matrix.Trace
import Mathlib.LinearAlgebra.Matrix.Kronecker
import Mathlib.LinearAlgebra.UnitaryGroup
import Mathlib.Data.Complex.Basic
import Mathlib.LinearAlgebra.Matrix.Notation

namespace Numqi.C13
open Numqi Numqi.Ent Matrix
open scoped Kronecker

variable {R : Type} [CommRing R] [StarRing R]

/-! ## every parameter value is a pure-state decomposition -/

/-- the same on the model's flat arrays: `Σ_α ψ_α[k] conj ψ_α[k'] = Σ_j S[k,j] conj S[k',j]` for the ensemble
`ψ_α = ensembleVec …` that the models contract, whenever the Stiefel matrix is an isometry. -/
theorem ensembleVec_decomposition (num rank : Nat) (S X : Nat → R)
    (hX : ∀ j < rank, ∀ l < rank, sumRange num (fun al => X (al * rank + j) * conj (X (al * rank + l))) = if j = l then 1 else 0)
    (k k' : Nat) :
    sumRange num (fun al => ensembleVec rank S X al k * conj (ensembleVec rank S X al k'))
      = sumRange rank fun j => S (k * rank + j) * conj (S (k' * rank + j)) := by
  simp only [ensembleVec, conj_eq_star, sumRange_eq_sum, star_sum, star_mul'] at hX ⊢
  simp only [Finset.sum_mul_sum]
  rw [Finset.sum_comm]
  refine Finset.sum_congr rfl fun j hj => ?_
  rw [Finset.sum_comm]
  have : ∀ l ∈ Finset.range rank, (∑ al ∈ Finset.range num, S (k * rank + j) * X (al * rank + j) * (star (S (k' * rank + l)) * star (X (al * rank + l))))
      = S (k * rank + j) * star (S (k' * rank + l)) * (if j = l then 1 else 0) := by
    intro l hl
    rw [← hX j (Finset.mem_range.1 hj) l (Finset.mem_range.1 hl), Finset.mul_sum]
    refine Finset.sum_congr rfl fun al _ => by ring
  rw [Finset.sum_congr rfl this]
  simp [Finset.sum_ite_eq, hj]

/-- **the contraction the EOF / concurrence / linear-entropy models evaluate is the reduced state of each ensemble
member**: for `dimA ≤ dimB`, `contract_expr(X, conj X)[α,a,a'] = Σ_b ψ_α[a,b] conj ψ_α[a',b]`; otherwise the reduced state on B. -/
theorem ensembleRdm_eq (dimA dimB rank : Nat) (S X : Nat → R) (al p q : Nat) :
    ensembleRdm dimA dimB rank S X al p q =
      if dimA ≤ dimB then
        sumRange dimB fun b => ensembleVec rank S X al (flat [dimA, dimB] [p, b]) * conj (ensembleVec rank S X al (flat [dimA, dimB] [q, b]))
      else
        sumRange dimA fun a => ensembleVec rank S X al (flat [dimA, dimB] [a, p]) * conj (ensembleVec rank S X al (flat [dimA, dimB] [a, q])) := by
  have hf : ∀ a b j, flat [dimA, dimB, rank] [a, b, j] = flat [dimA, dimB] [a, b] * rank + j := by
    intro a b j; simp [flat, prodL]; ring
  unfold ensembleRdm
  split_ifs with h
  · simp only [ensembleVec, conj_eq_star, sumRange_eq_sum, star_sum, star_mul', hf, Finset.sum_mul_sum]
    refine Finset.sum_congr rfl fun b _ => Finset.sum_congr rfl fun j _ => Finset.sum_congr rfl fun l _ => by ring
  · simp only [ensembleVec, conj_eq_star, sumRange_eq_sum, star_sum, star_mul', hf, Finset.sum_mul_sum]
    refine Finset.sum_congr rfl fun b _ => Finset.sum_congr rfl fun j _ => Finset.sum_congr rfl fun l _ => by ring

omit [StarRing R] in
/-- **the GME model's contraction is the overlap of each ensemble member with a product vector** -/
theorem gmeOverlap_eq (dims : List Nat) (rank : Nat) (S X : Nat → R) (psi : Nat → Nat → R) (al : Nat) :
    gmeOverlap dims rank S X psi al = sumRange (prodL dims) fun k => ensembleVec rank S X al k *
      ((List.range dims.length).foldl (fun acc x => acc * psi x (al * dims.getD x 1 + (unflat dims k).getD x 0)) 1) := by
  simp only [gmeOverlap, ensembleVec, sumRange_eq_sum, Finset.sum_mul]

/-! ## pure states -/

/-- **pure-state concurrence of two qubits is `2|det ψ|`**: for a normalised `2×2` amplitude matrix the radicand of
`get_concurrence_pure` equals `(2|det ψ|)² = 4 · det ψ · conj(det ψ)`. -/
theorem concPureRadicand_two_qubit (ψ : Nat → Nat → R)
    (hn : ψ 0 0 * star (ψ 0 0) + ψ 0 1 * star (ψ 0 1) + ψ 1 0 * star (ψ 1 0) + ψ 1 1 * star (ψ 1 1) = 1) :
    concPureRadicand 2 2 ψ = 4 * ((ψ 0 0 * ψ 1 1 - ψ 0 1 * ψ 1 0) * star (ψ 0 0 * ψ 1 1 - ψ 0 1 * ψ 1 0)) := by
  simp only [concPureRadicand, sumRange, conj_eq_star, lt_irrefl, if_false, List.range_succ, List.range_zero, List.nil_append,
    List.map_cons, List.map_nil, List.sum_cons, List.sum_nil, List.cons_append, add_zero, star_add, star_mul', star_star, star_sub]
  linear_combination (-2 * (1 + (ψ 0 0 * star (ψ 0 0) + ψ 0 1 * star (ψ 0 1) + ψ 1 0 * star (ψ 1 0) + ψ 1 1 * star (ψ 1 1)))) * hn

/-! ## the spin flip and local unitaries -/

/-- **`z0 = (tmp0[:,None]*tmp0) * rho[::-1,::-1].conj()` is `(σy⊗σy) ρ* (σy⊗σy)`** -/
theorem spinFlip_eq (ρ : Matrix (Fin 4) (Fin 4) ℂ) :
    (Matrix.of fun i j : Fin 4 => spinFlip (fun r c => if h : r < 4 ∧ c < 4 then ρ ⟨r, h.1⟩ ⟨c, h.2⟩ else 0) i j)
      = sigmaYY * ρ.map star * sigmaYY := by
  ext i j
  fin_cases i <;> fin_cases j <;>
    simp [spinFlip, flipSign, conj_eq_star, sigmaYY, Matrix.mul_apply, Fin.sum_univ_four, Matrix.vecMul, dotProduct]


/-- the model's spin flip as a map on 4×4 complex matrices -/
def modelFlip (ρ : Matrix (Fin 4) (Fin 4) ℂ) : Matrix (Fin 4) (Fin 4) ℂ :=
  Matrix.of fun i j : Fin 4 => spinFlip (fun r c => if h : r < 4 ∧ c < 4 then ρ ⟨r, h.1⟩ ⟨c, h.2⟩ else 0) i j

/-- the flat index `2a+b` of the model -/
abbrev e4 : Fin 2 × Fin 2 ≃ Fin 4 := finProdFinEquiv

/-- `U ⊗ V` on the flat index `2a+b` of the model -/
def kron4 (U V : Matrix (Fin 2) (Fin 2) ℂ) : Matrix (Fin 4) (Fin 4) ℂ :=
  (U ⊗ₖ V).submatrix e4.symm e4.symm

/-- **local-unitary covariance of the model's spin flip**: `spinFlip (W ρ Wᴴ) = W (spinFlip ρ) Wᴴ` for `W = U⊗V`, `U,V ∈ U(2)`, on the
constant `spinFlip` that `get_concurrence_2qubit`'s model executes; hence `ρρ̃ ↦ W(ρρ̃)Wᴴ` is a similarity. -/
theorem spinFlip_model_local_unitary (U V : Matrix (Fin 2) (Fin 2) ℂ) (hU : U * Uᴴ = 1) (hV : V * Vᴴ = 1)
    (ρ : Matrix (Fin 4) (Fin 4) ℂ) :
    modelFlip (kron4 U V * ρ * (kron4 U V)ᴴ) = kron4 U V * modelFlip ρ * (kron4 U V)ᴴ := by
  have hY : sigmaYY = (sigmaY ⊗ₖ sigmaY).submatrix e4.symm e4.symm := by
    ext i j
    have := sigmaYY_eq_kron (e4.symm i) (e4.symm j)
    simpa [Matrix.kroneckerMap_apply] using this
  have key := kron_spinFlip_local_unitary U V hU hV (ρ.submatrix e4 e4)
  have hsub := congrArg (fun M => M.submatrix e4.symm e4.symm) key
  simp only [modelFlip] at *
  rw [spinFlip_eq, spinFlip_eq, hY]
  simp only [kron4]
  have hρ : ρ = (ρ.submatrix e4 e4).submatrix e4.symm e4.symm := by
    ext i j; simp
  conv_lhs => rw [hρ]
  conv_rhs => rw [hρ]
  simp only [Matrix.submatrix_mul_equiv, ← Matrix.submatrix_map] at hsub ⊢
  exact hsub


/-! ## pure states: the mixed-state formulas reduce to the pure-state ones -/

/-- `ρ = ψψᴴ` on flat indices -/
def pureRho (ψ : Nat → R) : Nat → Nat → R := fun r c => ψ r * conj (ψ c)

/-- the spin-flipped vector `ψ̃ = (σy⊗σy) ψ*` -/
def flipVec (ψ : Nat → R) : Nat → R := fun i => flipSign i * conj (ψ (3 - i))

/-- `det ψ` of the 2×2 amplitude matrix `ψ[2a+b]` -/
def det2 (ψ : Nat → R) : R := ψ 0 * ψ 3 - ψ 1 * ψ 2

/-- **spin flip of a pure state is the pure state of the flipped vector** -/
theorem spinFlip_pure (ψ : Nat → R) (i j : Fin 4) : spinFlip (pureRho ψ) i j = pureRho (flipVec ψ) i j := by
  fin_cases i <;> fin_cases j <;> simp [spinFlip, pureRho, flipVec, flipSign, conj_eq_star, star_mul']

/-- `⟨ψ|ψ̃⟩ = -2·conj(det ψ)` -/
theorem overlap_flipVec (ψ : Nat → R) : sumRange 4 (fun k => conj (ψ k) * flipVec ψ k) = -2 * star (det2 ψ) := by
  simp [sumRange, List.range_succ, flipVec, flipSign, det2, conj_eq_star, star_mul']
  ring

private theorem matMul_rankOne (u v x y : Nat → R) (i j : Nat) :
    matMul 4 (fun r c => u r * conj (v c)) (fun r c => x r * conj (y c)) i j
      = sumRange 4 (fun k => conj (v k) * x k) * (u i * conj (y j)) := by
  simp [matMul, sumRange, List.range_succ]; ring

omit [StarRing R] in
private theorem matMul4_congr {A A' B B' : Nat → Nat → R} (hA : ∀ i k : Fin 4, A i k = A' i k) (hB : ∀ k j : Fin 4, B k j = B' k j)
    (i j : Fin 4) : matMul 4 A B i j = matMul 4 A' B' i j := by
  simp only [matMul, sumRange, List.range_succ, List.range_zero, List.nil_append, List.cons_append, List.map_cons, List.map_nil,
    List.sum_cons, List.sum_nil]
  have a0 := hA i 0; have a1 := hA i 1; have a2 := hA i 2; have a3 := hA i 3
  have b0 := hB 0 j; have b1 := hB 1 j; have b2 := hB 2 j; have b3 := hB 3 j
  simp only [Fin.val_zero, Fin.val_one, Fin.val_two, show ((3 : Fin 4) : Nat) = 3 from rfl] at a0 a1 a2 a3 b0 b1 b2 b3
  rw [a0, a1, a2, a3, b0, b1, b2, b3]

/-- **`R = ρ ρ̃` of a pure state is rank one**: `R = ⟨ψ|ψ̃⟩ · ψ ψ̃ᴴ` -/
theorem pure_R_rankOne (ψ : Nat → R) (i j : Fin 4) :
    matMul 4 (pureRho ψ) (spinFlip (pureRho ψ)) i j = (-2 * star (det2 ψ)) * (ψ i * conj (flipVec ψ j)) := by
  rw [matMul4_congr (A' := pureRho ψ) (B' := pureRho (flipVec ψ)) (fun _ _ => rfl) (spinFlip_pure ψ)]
  unfold pureRho
  rw [matMul_rankOne, overlap_flipVec]

/-- its trace is `4·det ψ·conj(det ψ) = (2|det ψ|)²` … -/
theorem pure_R_trace (ψ : Nat → R) :
    sumRange 4 (fun i => (-2 * star (det2 ψ)) * (ψ i * conj (flipVec ψ i))) = 4 * (det2 ψ * star (det2 ψ)) := by
  simp [sumRange, List.range_succ, flipVec, flipSign, det2, conj_eq_star, star_mul']
  ring

/-- … and `R² = (tr R)·R`: the only possibly non-zero eigenvalue of `R` is `(2|det ψ|)²` -/
theorem pure_R_sq (ψ : Nat → R) (i j : Nat) :
    matMul 4 (fun r c => (-2 * star (det2 ψ)) * (ψ r * conj (flipVec ψ c))) (fun r c => (-2 * star (det2 ψ)) * (ψ r * conj (flipVec ψ c))) i j
      = (4 * (det2 ψ * star (det2 ψ))) * ((-2 * star (det2 ψ)) * (ψ i * conj (flipVec ψ j))) := by
  simp [matMul, sumRange, List.range_succ, flipVec, flipSign, det2, conj_eq_star, star_mul']
  ring

/-- **the matrix handed to `eigvalsh` for a pure state** (`sqrt_rho = ρ` because `ρ² = ρ` for a unit vector; the identity
holds for every `ψ`): `ρ ρ̃ ρ = (2|det ψ|)² · ρ`. -/
theorem concurrenceArg_pure (ψ : Nat → R) (i j : Fin 4) :
    concurrenceArg (pureRho ψ) (pureRho ψ) i j = (4 * (det2 ψ * star (det2 ψ))) * pureRho ψ i j := by
  unfold concurrenceArg
  have h1 : ∀ i k : Fin 4, matMul 4 (pureRho ψ) (spinFlip (pureRho ψ)) i k
      = (fun r c => (-2 * star (det2 ψ) * ψ r) * conj (flipVec ψ c)) i k := by
    intro i k; rw [pure_R_rankOne]; ring
  rw [matMul4_congr (A' := fun r c => (-2 * star (det2 ψ) * ψ r) * conj (flipVec ψ c)) (B' := pureRho ψ) h1 (fun _ _ => rfl)]
  unfold pureRho
  rw [matMul_rankOne]
  have : sumRange 4 (fun k => conj (flipVec ψ k) * ψ k) = -2 * det2 ψ := by
    simp [sumRange, List.range_succ, flipVec, flipSign, det2, conj_eq_star]
    ring
  rw [this]; ring

/-- a unit vector's projector is idempotent, so it is its own positive square root (the `eigh` contract for pure states) -/
theorem pureRho_idem (ψ : Nat → R) (hn : sumRange 4 (fun k => conj (ψ k) * ψ k) = 1) (i j : Nat) :
    matMul 4 (pureRho ψ) (pureRho ψ) i j = pureRho ψ i j := by
  unfold pureRho
  rw [matMul_rankOne, hn, one_mul]

/-- eigen-structure of `t·ψψᴴ`: `ψ` is an eigenvector with eigenvalue `t‖ψ‖²`, everything orthogonal to `ψ` is in the kernel -/
theorem rankOne_eigen (t : R) (ψ v : Nat → R) (r : Nat) :
    sumRange 4 (fun c => (t * pureRho ψ r c) * v c) = (t * sumRange 4 (fun c => conj (ψ c) * v c)) * ψ r := by
  simp [sumRange, List.range_succ, pureRho]; ring

/-- the reduced state `T = ψᴴψ` of a two-qubit pure state (as in `get_concurrence_pure` / `get_eof_pure`) has trace `‖ψ‖²` and
determinant `det ψ·conj(det ψ)`: its eigenvalues (Schmidt weights) are the roots of `x² − ‖ψ‖² x + |det ψ|²` -/
theorem schmidt_trace_det (ψ : Nat → R) :
    let T : Nat → Nat → R := fun i j => sumRange 2 fun a => conj (ψ (2 * a + i)) * ψ (2 * a + j)
    T 0 0 + T 1 1 = sumRange 4 (fun k => conj (ψ k) * ψ k) ∧ T 0 0 * T 1 1 - T 0 1 * T 1 0 = det2 ψ * star (det2 ψ) := by
  constructor
  · simp [sumRange, List.range_succ]; ring
  · simp [sumRange, List.range_succ, det2, conj_eq_star, star_mul']; ring


omit [StarRing R] in
/-- **product states**: for `ψ = a ⊗ b` (`ψ[2i+j] = a_i b_j`) the amplitude determinant vanishes … -/
private theorem det2_product (a b : Nat → R) : det2 (fun k => a (k / 2) * b (k % 2)) = 0 := by
  simp [det2]; ring

/-- … hence the matrix handed to `eigvalsh` by `get_concurrence_2qubit` for the pure product state `aaᴴ ⊗ bbᴴ` is the zero matrix
(`R = ρρ̃` has `tr R = 0`, `R² = 0`): its spectrum is `(0,0,0,0)`, the read-out (`woottersReadout_zero`) is concurrence 0, and
`eof_zero`, `gme_eq_zero_iff` give EOF = GME = 0 — "finite and zero" on pure product states, modulo the `eigvalsh` contract. -/
theorem concurrenceArg_product (a b : Nat → R) (i j : Fin 4) :
    concurrenceArg (pureRho fun k => a (k / 2) * b (k % 2)) (pureRho fun k => a (k / 2) * b (k % 2)) i j = 0 := by
  rw [concurrenceArg_pure, det2_product]; simp

/-! ## Bell-diagonal states -/

/-- a Bell-diagonal state with self-conjugate (real) weights is its own spin flip -/
theorem bellDiag_spinFlip (p : Nat → R) (hp : ∀ i, star (p i) = p i) (i j : Fin 4) :
    spinFlip (bellDiag2 p) i j = bellDiag2 p i j := by
  fin_cases i <;> fin_cases j <;> simp [spinFlip, flipSign, bellDiag2, conj_eq_star, hp]

omit [StarRing R] in
/-- Bell-diagonal matrices multiply weight-wise: `B(a)·B(b) = 2·B(ab)` -/
theorem bellDiag2_matMul (a b : Nat → R) (i j : Fin 4) :
    matMul 4 (bellDiag2 a) (bellDiag2 b) i j = 2 * bellDiag2 (fun k => a k * b k) i j := by
  fin_cases i <;> fin_cases j <;> simp [matMul, sumRange, List.range_succ, bellDiag2] <;> ring

/-- **the argument of `eigvalsh` for a Bell-diagonal state**: with `sqrt_rho = ½·B(s)`, `ρ = ½·B(p)` (`B = bellDiag2`)
one gets `½·B(s·p·s)`; division-free: `B(s)·spinFlip(B(p))·B(s) = 4·B(s p s)`. For `s_i = √p_i` this is `B(p²)`. -/
theorem concurrenceArg_bellDiag (s p : Nat → R) (hp : ∀ i, star (p i) = p i) (i j : Fin 4) :
    concurrenceArg (bellDiag2 s) (bellDiag2 p) i j = 4 * bellDiag2 (fun k => s k * p k * s k) i j := by
  unfold concurrenceArg
  have h1 : ∀ i k : Fin 4, matMul 4 (bellDiag2 s) (spinFlip (bellDiag2 p)) i k = 2 * bellDiag2 (fun k => s k * p k) i k := by
    intro i k
    rw [matMul4_congr (A' := bellDiag2 s) (B' := bellDiag2 p) (fun _ _ => rfl) (bellDiag_spinFlip p hp), bellDiag2_matMul]
  rw [matMul4_congr (A' := fun i k => 2 * bellDiag2 (fun k => s k * p k) i k) (B' := bellDiag2 s) h1 (fun _ _ => rfl)]
  have h2 := bellDiag2_matMul (fun k => s k * p k) s i j
  simp only [matMul, sumRange, List.range_succ, List.range_zero, List.nil_append, List.cons_append, List.map_cons, List.map_nil,
    List.sum_cons, List.sum_nil] at h2 ⊢
  linear_combination 2 * h2

omit [StarRing R] in
/-- `B(q)` is diagonal in the Bell basis: `B(q)·bellVec_i = 2 q_{σ(i)}·bellVec_i` with `σ = (0,1,2,3)` for the state itself -/
theorem bellDiag2_mulVec_bellVec (q : Nat → R) (i r : Fin 4) :
    sumRange 4 (fun c => bellDiag2 q r c * bellVec i c) = 2 * q i * bellVec i r := by
  fin_cases i <;> fin_cases r <;> simp [sumRange, List.range_succ, bellDiag2, bellVec] <;> ring


/-! ## every loss is a convex combination of member values in range -/

private theorem gramNat_bounds (m n : Nat) (amp : Nat → Nat → ℂ) :
    let T : Nat → Nat → ℂ := fun p q => sumRange n fun b => amp p b * conj (amp q b)
    let tr := sumRange m fun a => T a a
    let pur := sumRange m fun a => sumRange m fun b => T a b * conj (T a b)
    tr.im = 0 ∧ pur.im = 0 ∧ 0 ≤ tr.re ∧ pur.re ≤ tr.re ^ 2 ∧ tr.re ^ 2 ≤ m * pur.re := by
  intro T tr pur
  let A : Matrix (Fin m) (Fin n) ℂ := Matrix.of fun p b => amp p b
  have hT : ∀ p q : Fin m, T p q = (A * Aᴴ) p q := by
    intro p q
    simp only [T, sumRange_eq_sum_fin, conj_eq_star]
    rw [Matrix.mul_apply]
    rfl
  have htr : tr = ((∑ i : Fin m, ∑ b : Fin n, ‖A i b‖ ^ 2 : ℝ) : ℂ) := by
    simp only [tr, T, sumRange_eq_sum_fin, conj_eq_star, A]
    push_cast
    refine Finset.sum_congr rfl fun i _ => Finset.sum_congr rfl fun b _ => ?_
    rw [Complex.star_def, Complex.mul_conj']
    rfl
  have hpur : pur = ((∑ i : Fin m, ∑ j : Fin m, ‖(A * Aᴴ) i j‖ ^ 2 : ℝ) : ℂ) := by
    simp only [pur, sumRange_eq_sum_fin, conj_eq_star]
    push_cast
    refine Finset.sum_congr rfl fun i _ => Finset.sum_congr rfl fun j _ => ?_
    rw [hT, Complex.star_def, Complex.mul_conj']
  have h1 := gram_purity_le A
  have h2 := gram_purity_ge A
  rw [Fintype.card_fin] at h2
  rw [htr, hpur]
  simp only [Complex.ofReal_im, Complex.ofReal_re, true_and]
  exact ⟨Finset.sum_nonneg fun _ _ => Finset.sum_nonneg fun _ _ => by positivity, h1, h2⟩

/-- **trace and purity of the reduced states that the models contract** (`prob = einsum(rdm,[0,1,1])`, `purity = contract_expr1(rdm, conj rdm)`,
on the constants `ensembleRdm`, `ensemblePurity`): both are real, `0 ≤ p`, and `p²/m ≤ purity ≤ p²` with `m = min(dimA,dimB)` — exactly the
hypotheses of `concMember_range` / `linentMember_range`, for every ensemble member `α`, every `S`, `X` and all sizes. -/
theorem ensembleRdm_purity_bounds (dimA dimB rank : Nat) (S X : Nat → ℂ) (al : Nat) :
    let m := if dimA ≤ dimB then dimA else dimB
    let p := sumRange m fun a => ensembleRdm dimA dimB rank S X al a a
    let pur := ensemblePurity m (fun al a b => ensembleRdm dimA dimB rank S X al a b) al
    p.im = 0 ∧ pur.im = 0 ∧ 0 ≤ p.re ∧ pur.re ≤ p.re ^ 2 ∧ p.re ^ 2 ≤ m * pur.re := by
  by_cases h : dimA ≤ dimB
  · simp only [h, if_true, ensemblePurity, ensembleRdm_eq, if_true]
    exact gramNat_bounds dimA dimB fun p b => ensembleVec rank S X al (flat [dimA, dimB] [p, b])
  · simp only [h, if_false, ensemblePurity, ensembleRdm_eq, if_false]
    exact gramNat_bounds dimB dimA fun p a => ensembleVec rank S X al (flat [dimA, dimB] [a, p])

/-- **the GME model's overlap with a unit product vector is at most the member's weight** (on the constant `gmeOverlap`):
`|out_α|² ≤ Σ_k |ψ_α[k]|² = p_α`, so each member of the GME loss `p_α − |out_α|²` lies in `[0, p_α]`. -/
theorem gmeOverlap_sq_le (dims : List Nat) (rank : Nat) (S X : Nat → ℂ) (psi : Nat → Nat → ℂ) (al : Nat)
    (hφ : ∑ k : Fin (prodL dims), ‖(List.range dims.length).foldl
      (fun acc x => acc * psi x (al * dims.getD x 1 + (unflat dims k).getD x 0)) 1‖ ^ 2 = 1) :
    ‖gmeOverlap dims rank S X psi al‖ ^ 2 ≤ ∑ k : Fin (prodL dims), ‖ensembleVec rank S X al k‖ ^ 2 := by
  rw [gmeOverlap_eq, sumRange_eq_sum_fin]
  exact overlap_sq_le _ _ hφ


/-! ## options: canonical-polyadic rank > 1, `_sqrt_rho` from the `eigh` output -/

omit [StarRing R] in
/-- **GME model with `CPrank > 1`**: the contraction is the overlap of each ensemble member with the canonical-polyadic vector
`Φ_α = Σ_c coeff[α,c] ⊗_x psi_x[α,c]` (`cpVec`) -/
theorem gmeOverlapCP_eq (dims : List Nat) (rank cp : Nat) (S X coeff : Nat → R) (psi : Nat → Nat → R) (al : Nat) :
    gmeOverlapCP dims rank cp S X coeff psi al
      = sumRange (prodL dims) fun k => ensembleVec rank S X al k * cpVec dims cp coeff psi al k := by
  simp only [gmeOverlapCP, ensembleVec, cpVec, sumRange_eq_sum, Finset.sum_mul, Finset.mul_sum]
  refine Finset.sum_congr rfl fun k _ => ?_
  rw [Finset.sum_comm]
  refine Finset.sum_congr rfl fun j _ => Finset.sum_congr rfl fun c _ => by ring

/-- **the normalisation contraction `contract_psi_psi` is the squared norm of the canonical-polyadic vector**, for every dimension list, every
number of parties and every `CPrank` (the product over parties is exchanged with the sum over multi-indices: `sum_prod_unflat`).  The driver
executes `cpNormSq` / `cpVec` for >= 2 parties (ops `cpnorm`, `gmeovcp`); additionally probed (`model-gme:cp-normalisation`: the vectors
returned by `get_state()` have unit norm to 1e-9). -/
theorem cpNormSq_eq_norm (dims : List Nat) (cp : Nat) (coeff : Nat → ℂ) (psi : Nat → Nat → ℂ) (al : Nat) (hc : ∀ t, star (coeff t) = coeff t) :
    cpNormSq dims cp coeff psi (fun x t => star (psi x t)) al
      = sumRange (prodL dims) fun k => cpVec dims cp coeff psi al k * star (cpVec dims cp coeff psi al k) := by
  simp only [cpNormSq, cpVec, sumRange_eq_sum, foldl_range_mul, star_sum, star_mul', hc, star_prod]
  have hr : ∀ k ∈ Finset.range (prodL dims),
      (∑ c ∈ Finset.range cp, coeff (al * cp + c) * ∏ x ∈ Finset.range dims.length, psi x ((al * cp + c) * dims.getD x 1 + (unflat dims k).getD x 0))
        * (∑ c' ∈ Finset.range cp, coeff (al * cp + c') * ∏ x ∈ Finset.range dims.length, star (psi x ((al * cp + c') * dims.getD x 1 + (unflat dims k).getD x 0)))
      = ∑ c ∈ Finset.range cp, ∑ c' ∈ Finset.range cp, coeff (al * cp + c) * coeff (al * cp + c') *
          ∏ x ∈ Finset.range dims.length, (psi x ((al * cp + c) * dims.getD x 1 + (unflat dims k).getD x 0)
            * star (psi x ((al * cp + c') * dims.getD x 1 + (unflat dims k).getD x 0))) := by
    intro k _
    rw [Finset.sum_mul_sum]
    refine Finset.sum_congr rfl fun c _ => Finset.sum_congr rfl fun c' _ => ?_
    rw [Finset.prod_mul_distrib]; ring
  rw [Finset.sum_congr rfl hr]
  conv_rhs => rw [Finset.sum_comm]
  refine Finset.sum_congr rfl fun c _ => ?_
  rw [Finset.sum_comm]
  refine Finset.sum_congr rfl fun c' _ => ?_
  rw [← Finset.mul_sum]
  congr 1
  exact (sum_prod_unflat dims (fun x i => psi x ((al * cp + c) * dims.getD x 1 + i) * star (psi x ((al * cp + c') * dims.getD x 1 + i)))).symm

/-- the executed two-party instance (`dims = [dA, dB]`, the smallest the driver accepts) -/
theorem cpNormSq_eq_norm_two_party (dA dB cp : Nat) (coeff : Nat → ℂ) (psi : Nat → Nat → ℂ) (al : Nat) (hc : ∀ t, star (coeff t) = coeff t) :
    cpNormSq [dA, dB] cp coeff psi (fun x t => star (psi x t)) al
      = sumRange (dA * dB) fun k => cpVec [dA, dB] cp coeff psi al k * star (cpVec [dA, dB] cp coeff psi al k) := by
  rw [cpNormSq_eq_norm [dA, dB] cp coeff psi al hc]; simp [prodL]

/-- **`_sqrt_rho` is a square root of the truncated spectral sum**: if `S[k,j] = v[k,j]·s_j` with real scales `s_j·s_j = λ_j`
(`sqrtRhoScale`, theorem `sqrtRhoScale_sq` in `DecisionC13.lean`) then `Σ_j S[k,j] conj S[k',j] = Σ_j λ_j v[k,j] conj v[k',j]` — the hypothesis
`ρ = S Sᴴ` of `ensembleVec_decomposition`, given the `eigh` contract `ρ = Σ_j λ_j v_j v_jᴴ` over the kept eigenpairs -/
theorem sqrtRho_gram (rank : Nat) (v : Nat → Nat → R) (s lam : Nat → R) (hs : ∀ j, star (s j) = s j) (hsq : ∀ j, s j * s j = lam j) (k k' : Nat) :
    sumRange rank (fun j => (v k j * s j) * conj (v k' j * s j)) = sumRange rank fun j => lam j * (v k j * conj (v k' j)) := by
  simp only [sumRange_eq_sum, conj_eq_star, star_mul', hs]
  refine Finset.sum_congr rfl fun j _ => ?_
  rw [← hsq j]; ring

/-! ## the hypotheses are satisfiable, the statements are not vacuous -/

/-- an isometry exists for every size (the identity) -/
example : (1 : Matrix (Fin 3) (Fin 3) ℂ)ᴴ * 1 = 1 := by simp

/-- … and the decomposition theorem then applies to any `S` -/
example (S : Matrix (Fin 4) (Fin 3) ℂ) : (S * (1 : Matrix (Fin 3) (Fin 3) ℂ)ᵀ) * (S * (1 : Matrix (Fin 3) (Fin 3) ℂ)ᵀ)ᴴ = S * Sᴴ :=
  ensemble_decomposition S 1 (by simp)

/-- a product state is normalised and has concurrence 0, the Bell-type amplitude `diag(3/5, 4/5)` has radicand `(24/25)²` -/
example : concPureRadicand 2 2 (fun a b => if a = 0 ∧ b = 0 then (1 : ℂ) else 0) = 0 := by
  rw [concPureRadicand_two_qubit _ (by simp)]; simp

example : concPureRadicand 2 2 (fun a b => if a = b then (if a = 0 then (3 / 5 : ℂ) else 4 / 5) else 0) = (24 / 25) ^ 2 := by
  rw [concPureRadicand_two_qubit _ (by simp; norm_num)]; simp; norm_num

/-- `σ_y` itself is unitary, so the invariance identity applies to it -/
example : sigmaY * sigmaY.map star * sigmaY = star sigmaY.det • sigmaY :=
  sigmaY_conj_unitary sigmaY (by rw [sigmaY_conjTranspose, sigmaY_mul_self])

/-- the spin flip of the model on a concrete matrix: only the anti-diagonal reflection with signs -/
example : (List.range 4).map (fun i => (List.range 4).map fun j => spinFlip (fun r c => (⟨4 * r + c, r⟩ : GInt)) i j)
    = [[⟨15, -3⟩, ⟨-14, 3⟩, ⟨-13, 3⟩, ⟨12, -3⟩], [⟨-11, 2⟩, ⟨10, -2⟩, ⟨9, -2⟩, ⟨-8, 2⟩], [⟨-7, 1⟩, ⟨6, -1⟩, ⟨5, -1⟩, ⟨-4, 1⟩],
       [⟨3, 0⟩, ⟨-2, 0⟩, ⟨-1, 0⟩, ⟨0, 0⟩]] := by decide

end Numqi.C13
