/-
C04 — hand-written backward passes return the true gradient.

Every hand-written rule is the adjoint of a map that is linear in the state and linear/affine in the gate entries, so
"equals the derivative" is an exact algebraic identity.  The statements hold over every commutative star-ring `R`
(hence ℂ), for every number of qubits, every gate size, every duplicate-free target tuple (any order), every control
set and every gate list.  Convention (torch's): a real loss `L` changes by `dL = Re ⟪grad_z, dz⟫`,
`⟪u, v⟫ = Σ conj(u)·v`; all identities below hold even before taking real parts, except the Knill–Laflamme rule whose
forward value is sesquilinear in the same variable (there `z + star z = 2·Re z` is used).

The gate application model (`applyGate`, `applyControlled`) is the one of property C03.
-/
import NumqiProofs.Backward
import NumqiProofs.BackwardDual
import NumqiProofs.BackwardCarrier
import Mathlib.Data.Complex.Basic

namespace Numqi.C04
open Numqi Numqi.Backward Function Matrix Finset

attribute [local instance] starConj

variable {R : Type} [CommRing R] [StarRing R] {n k n' : Nat}

/-! ## one gate (`apply_gate_grad`, `state.py:95-125`) -/

/-- **The gate rule is the adjoint of `(δU, δψ) ↦ E(δU)ψ + E(U)δψ`**: for every cotangent `g` and every direction,
`⟪g, E(δU)ψ + E(U)δψ⟫ = ⟪op_grad, δU⟫ + ⟪q0_grad', δψ⟫`, where `(·, q0_grad', op_grad) = applyGateGrad U t (conj ψ_out) g`
is computed from the conjugated **output** state as the code does; `U` unitary is what makes the un-applied
`q0_conj` equal to `conj ψ` (hypothesis forced by the proof, see `unapply_needs_unitarity`). -/
theorem applyGate_vjp {t : Fin k → Fin n} (ht : Injective t) (U : MatK k R) (hU : Uᴴ * U = 1)
    (ψ g δψ : Vec n R) (δU : Mat k R) :
    let out := applyGateGrad U t (conjVec (applyGate U t ψ)) g
    out.1 = conjVec ψ ∧
    vdot g (fun x => applyGate δU t ψ x + applyGate U t δψ x)
      = (∑ a, ∑ b, star (out.2.2 a b) * δU a b) + vdot out.2.1 δψ := by
  intro out
  have h1 : out.1 = conjVec ψ := unapply_gate ht U hU ψ
  refine ⟨h1, ?_⟩
  have h2 : out.2.2 = opGrad t g (conjVec ψ) := by
    show opGrad t g out.1 = _; rw [h1]
  rw [vdot_add_right, vdot_applyGate_op, vdot_applyGate ht U, h2]
  rfl

/-- the two halves separately, without any unitarity assumption, when the rule is fed the true `conj ψ_in`
(this is what the exact correspondence run exercises on arbitrary integer matrices) -/
theorem applyGate_vjp_parts {t : Fin k → Fin n} (ht : Injective t) (U : MatK k R) (ψ g δψ : Vec n R) (δU : Mat k R) :
    vdot g (applyGate δU t ψ) = (∑ a, ∑ b, star (opGrad t g (conjVec ψ) a b) * δU a b) ∧
    vdot g (applyGate U t δψ) = vdot (applyGate (daggerMat U) t g) δψ :=
  ⟨vdot_applyGate_op t δU g ψ, vdot_applyGate ht U g δψ⟩

/-- **`unapply` is correct iff the gate is an isometry on the register**: if `E(Uᵀ) conj(E(U)ψ) = conj ψ` for every `ψ` (one
target qubit set, `t = id`) then `U†U = 1`.  So the sweep silently assumes unitary gates. -/
theorem unapply_needs_unitarity (U : MatK k R)
    (h : ∀ ψ : Vec k R, applyGate (transposeMat U) id (conjVec (applyGate U id ψ)) = conjVec ψ) : Uᴴ * U = 1 := by
  have hid : Injective (id : Fin k → Fin k) := injective_id
  have key : ∀ ψ : Vec k R, (Uᴴ * U).mulVec ψ = ψ := by
    intro ψ
    have h1 := h ψ
    have h2 := applyGate_transpose_conj (id : Fin k → Fin k) U (applyGate U id ψ)
    have h3 : conjVec (applyGate (daggerMat U) id (applyGate U id ψ)) = conjVec ψ := h2.symm.trans h1
    have h4 : applyGate (daggerMat U) id (applyGate U id ψ) = ψ := by
      have := congrArg conjVec h3; rwa [conjVec_conjVec, conjVec_conjVec] at this
    have e1 := C03.applyGate_eq_embed hid U ψ
    have e2 := C03.applyGate_eq_embed hid (daggerMat U) (applyGate U id ψ)
    have e3 := C03.embed_mul hid Uᴴ U
    rw [e2, e1, Matrix.mulVec_mulVec] at h4
    have hemb : ∀ W : MatK k R, (Matrix.of (embed W (id : Fin k → Fin k)) : MatK k R) = W := by
      intro W; ext x y
      simp only [Matrix.of_apply, embed]
      have hs : ∀ z : Bits k, z.sel (id : Fin k → Fin k) = z := fun z => rfl
      rw [hs, hs, if_pos]
      rw [Bits.agreeOff_iff]; intro i hi; exact absurd rfl (hi i)
    rw [show (daggerMat U : MatK k R) = Uᴴ from rfl, ← e3, hemb] at h4
    exact h4
  ext x y
  have := congrFun (key (fun z => if z = y then 1 else 0)) x
  simpa [Matrix.mulVec, dotProduct, Matrix.one_apply] using this

/-! ## one controlled gate (`apply_control_n_gate_grad`, `state.py:168-208`) -/

/-- **The controlled rule is the adjoint of the controlled gate** (affine in `U`: only the control-on block depends on it). -/
theorem applyControlled_vjp {isCtrl : Fin n → Bool} {rest : Fin n' → Fin n} {tNew : Fin k → Fin n'}
    (hrest : Injective rest) (htn : Injective tNew) (hfree : ∀ i, isCtrl i = false ↔ ∃ m, rest m = i)
    (U : MatK k R) (hU : Uᴴ * U = 1) (ψ g δψ : Vec n R) (δU : Mat k R) :
    let out := applyControlledGrad U isCtrl rest tNew (conjVec (applyControlled U isCtrl rest tNew ψ)) g
    out.1 = conjVec ψ ∧
    vdot g (fun x => (if ctrlOn isCtrl x then applyGate δU tNew (slice rest ψ) (x.sel rest) else 0)
                      + applyControlled U isCtrl rest tNew δψ x)
      = (∑ a, ∑ b, star (out.2.2 a b) * δU a b) + vdot out.2.1 δψ := by
  intro out
  have h1 : out.1 = conjVec ψ := unapply_controlled hrest htn hfree U hU ψ
  refine ⟨h1, ?_⟩
  have h2 : out.2.2 = opGrad tNew (slice rest g) (slice rest (conjVec ψ)) := by
    show opGrad tNew (slice rest g) (slice rest out.1) = _; rw [h1]
  rw [vdot_add_right, vdot_applyControlled_op tNew hrest hfree, vdot_applyControlled hrest htn hfree U, h2]
  rfl

omit [StarRing R] in
/-- the map whose adjoint is taken really is the change of the controlled gate: exact expansion, no remainder in `U` -/
theorem applyControlled_affine (isCtrl : Fin n → Bool) (rest : Fin n' → Fin n) (tNew : Fin k → Fin n')
    (U δU : Mat k R) (ψ : Vec n R) (x : Bits n) :
    applyControlled (fun a b => U a b + δU a b) isCtrl rest tNew ψ x
      = applyControlled U isCtrl rest tNew ψ x
        + (if ctrlOn isCtrl x then applyGate δU tNew (slice rest ψ) (x.sel rest) else 0) := by
  simp only [applyControlled]
  split
  · rw [applyGate_add_left]; rfl
  · simp

omit [StarRing R] in
/-- exact second-order expansion of a gate: the first-order part is what the derivative `dforward` uses -/
theorem applyGate_expansion (t : Fin k → Fin n) (U δU : Mat k R) (ψ δψ : Vec n R) (x : Bits n) :
    applyGate (fun a b => U a b + δU a b) t (fun y => ψ y + δψ y) x
      = applyGate U t ψ x + (applyGate δU t ψ x + applyGate U t δψ x) + applyGate δU t δψ x := by
  rw [applyGate_add_left, applyGate_add_right, applyGate_add_right]; ring

/-! ## the reverse sweep (`_CircuitFunction.backward`, `_torch_utils.py:44-78`) -/

/-- **The sweep returns the vector–Jacobian product of the whole circuit**, by induction over the gate list:
for every gate list whose entries are well-formed and unitary at `Θ`, every cotangent `g_out` and every direction `(δΘ, δψ)`:
the un-applied state is `conj ψ₀`, and
`Σ_slots ⟪grad[slot], δΘ[slot]⟫ + ⟪q0_grad, δψ⟫ = ⟪g_out, d forward(Θ,ψ₀)[δΘ,δψ]⟫`.
Gates sharing a slot (shared parameters) contribute the **sum** of their operator gradients (`+=`); gates with a constant
array contribute nothing; `G0` is the initial content of the gradient buffers (zeros in the code). -/
theorem reverseSweep_vjp (K S : ℕ) (Θ δΘ : Params R) (gates : List (PGate n R))
    (hwf : ∀ g ∈ gates, g.WF) (hun : ∀ g ∈ gates, g.IsUnitary Θ) (hr : ∀ g ∈ gates, g.InRange K S)
    (ψ0 δψ gout : Vec n R) (G0 : Params R) :
    let out := backward Θ gates (conjVec (forward Θ gates ψ0), gout, G0)
    out.1 = conjVec ψ0 ∧
    pairing K S out.2.2 δΘ + vdot out.2.1 δψ = pairing K S G0 δΘ + vdot gout (dforward Θ δΘ gates ψ0 δψ) :=
  sweep_vjp K S Θ δΘ gates hwf hun hr ψ0 δψ gout G0

/-! ## `kind='custom'` gates (`GroverOracle`, `FractionalGroverOracle`; `query/_gradient_model.py:47-105`)

`PGate.custom src diag` multiplies the entries selected by `diag` by the scalar of its source (`-1` for `GroverOracle`, row
`ind_torch` of the stacked tensor `fractional_grover_oracle` for a trainable `FractionalGroverOracle`).  The sweep theorems
above and below quantify over gate lists that contain such gates; the three statements here single out what the repaired
defect `circuit-grad:custom-gate` (numqi 3270353) violated: the slot of a trainable custom gate must receive `op_grad`. -/

/-- **The custom-gate rule is the adjoint of `(δa, δψ) ↦ diag(δa)ψ + diag(a)δψ`**, computed from the conjugated output state as
the code does; `|a|² = 1` is what makes the un-applied `q0_conj` equal to `conj ψ`. -/
theorem customGate_vjp (a : R) (ha : star a * a = 1) (d : Bits n → Bool) (ψ g δψ : Vec n R) (δa : R) :
    let out := customGrad a d (conjVec (customApply a d ψ)) g
    out.1 = conjVec ψ ∧
    vdot g (fun x => (if d x then ψ x * δa else 0) + customApply a d δψ x)
      = star (scalarOf out.2.2) * δa + vdot out.2.1 δψ := by
  intro out
  have h1 : out.1 = conjVec ψ := unapply_custom a ha d ψ
  refine ⟨h1, ?_⟩
  have h2 : scalarOf out.2.2 = sumBits n fun x => if d x then conjVec ψ x * g x else 0 := by
    show (sumBits n fun x => if d x then out.1 x * g x else 0) = _; rw [h1]
  rw [vdot_add_right, h2, vdot_custom_op, ← vdot_customApply]
  rfl

/-- **The slot of a trainable custom gate accumulates `op_grad`** (and nothing else changes): one step of the backward loop on
`PGate.custom (.param s) diag` adds `Σ_diag q0_conj'·q0_grad` to entry `(0, s)` of the gradient buffers — the statement an
`ind_gate_to_info` entry without `ind_torch` cannot satisfy (`custom_as_constant_drops_gradient`). -/
theorem custom_slot_accumulates (Θ G : Params R) (s : ℕ) (d : Bits n → Bool) (qc g : Vec n R) :
    let out := (PGate.custom (Src.param s) d).back Θ (qc, g, G)
    scalarOf (out.2.2 0 s) = scalarOf (G 0 s) + scalarOf (customGrad (scalarOf (Θ 0 s)) d qc g).2.2 ∧
    ∀ k s', ¬ (k = 0 ∧ s' = s) → out.2.2 k s' = G k s' := by
  intro out
  refine ⟨?_, fun k s' h => addAt_other G 0 s _ k s' h⟩
  show scalarOf (addAt G 0 s _ 0 s) = _
  simp only [addAt, scalarOf, dite_true, if_true]
  rfl

/-- the same gate read as a constant (no `ind_torch`: the pre-fix info table) has the same forward value and state cotangent
but leaves every gradient buffer untouched — so by `custom_single_gate_gradient` its slot gradient is wrong whenever the true
derivative is non-zero. -/
theorem custom_as_constant_drops_gradient (Θ G : Params R) (s : ℕ) (d : Bits n → Bool) (qc g ψ : Vec n R) :
    (PGate.custom (Src.fixed (Θ 0 s)) d).apply Θ ψ = (PGate.custom (Src.param s) d).apply Θ ψ ∧
    ((PGate.custom (Src.fixed (Θ 0 s)) d).back Θ (qc, g, G)).2.1 = ((PGate.custom (Src.param s) d).back Θ (qc, g, G)).2.1 ∧
    ((PGate.custom (Src.fixed (Θ 0 s)) d).back Θ (qc, g, G)).2.2 = G := ⟨rfl, rfl, rfl⟩

/-- **one trainable custom gate**: starting from zero buffers, the scalar the sweep stores in the gate's slot, paired with `δa`,
is the cotangent paired with the derivative of the output in the direction `δa`. -/
theorem custom_single_gate_gradient (Θ : Params R) (s : ℕ) (d : Bits n → Bool)
    (hun : star (scalarOf (Θ 0 s)) * scalarOf (Θ 0 s) = 1) (ψ gout : Vec n R) (δa : R) :
    let out := backward Θ [PGate.custom (Src.param s) d] (conjVec (forward Θ [PGate.custom (Src.param s) d] ψ), gout,
      fun _ _ _ _ => 0)
    star (scalarOf (out.2.2 0 s)) * δa = vdot gout (fun x => if d x then ψ x * δa else 0) := by
  intro out
  have h := customGate_vjp (scalarOf (Θ 0 s)) hun d ψ gout (fun _ => 0) δa
  obtain ⟨_, h2⟩ := h
  have hz : customApply (scalarOf (Θ 0 s)) d (fun _ : Bits n => (0 : R)) = fun _ => 0 := by
    funext x; simp [customApply]
  have h0 : ∀ v : Vec n R, vdot v (fun _ : Bits n => (0 : R)) = 0 := fun v => vdot_zero_right v
  simp only [hz, add_zero, h0] at h2
  rw [h2]
  have hacc := (custom_slot_accumulates Θ (fun _ _ _ _ => (0 : R)) s d
    (conjVec (forward Θ [PGate.custom (Src.param s) d] ψ)) gout).1
  have : scalarOf (out.2.2 0 s) = scalarOf (customGrad (scalarOf (Θ 0 s)) d (conjVec (customApply (scalarOf (Θ 0 s)) d ψ)) gout).2.2 := by
    have e : out = (PGate.custom (Src.param s) d).back Θ
        (conjVec (forward Θ [PGate.custom (Src.param s) d] ψ), gout, fun _ _ _ _ => 0) := rfl
    rw [e, hacc]
    simp only [scalarOf, zero_add]
    rfl
  rw [this]

/-! ## `inner_product_grad` (`state.py:260-269`) and the row stacking of `CircuitTorchWrapper.forward` -/

/-- **`inner_product_grad` is the adjoint of `c = vdot(q0, q1)`**: `c` is antilinear in `q0` and linear in `q1`, so with torch's
convention (`dL = Re⟪grad, dz⟫`) the `q0` half appears conjugated:
`conj(c_grad)·(⟪δq0, q1⟫ + ⟪q0, δq1⟫) = conj ⟪q0_grad, δq0⟫ + ⟪q1_grad, δq1⟫`; the real parts of both sides are `dL`. -/
theorem innerProductGrad_vjp (q0 q1 δq0 δq1 : Vec n R) (c : R) :
    star c * (vdot δq0 q1 + vdot q0 δq1)
      = star (vdot (innerProductGrad q0 q1 c).1 δq0) + vdot (innerProductGrad q0 q1 c).2 δq1 := by
  simp only [innerProductGrad, vdot_eq, conj, star_sum, mul_add, mul_sum]
  rw [← sum_add_distrib, ← sum_add_distrib]
  refine sum_congr rfl fun x _ => ?_
  simp only [star_mul', star_star]
  ring

/-- the stacked tensor row that `_setup` assigns to a gate (`slotOf`) is, in the concatenation built by
`CircuitTorchWrapper.forward` (`stackTags`), the row of that gate's own parameters -/
theorem forward_stacking_matches_setup (gs : List GateDesc) (i : ℕ) (hi : i < gs.length) (nm : String) (r : ℕ)
    (h : slotOf gs i = some (nm, r)) :
    (stackTags gs nm)[r]? = some (if gs[i].placeholder then (true, i) else (false, gs[i].objId)) :=
  stack_row_of_slot gs i hi nm r h

/-! ## the derivative is the genuine one: ε-coefficient over the dual numbers `R[ε]/(ε²)` -/

/-- **`dforward` is the derivative of the whole circuit map**: run the *same* forward pass over the dual numbers at the
perturbed point `(Θ + ε·δΘ, ψ + ε·δψ)` (constant gate arrays unperturbed); its ε⁰-coefficient is the forward value and its
ε-coefficient is `dforward` — for every gate list, with shared slots entering as often as they are used. -/
theorem dforward_is_dual_derivative (Θ δΘ : Params R) (gates : List (PGate n R)) (ψ δψ : Vec n R) (x : Bits n) :
    (forward (dualParams Θ δΘ) (gates.map PGate.lift) (fun y => dualOf (ψ y) (δψ y)) x).fst = forward Θ gates ψ x ∧
    (forward (dualParams Θ δΘ) (gates.map PGate.lift) (fun y => dualOf (ψ y) (δψ y)) x).snd
      = dforward Θ δΘ gates ψ δψ x := by
  have h := forward_dual Θ δΘ gates (fun y => dualOf (ψ y) (δψ y)) x
  simpa only [fst_dualOf, snd_dualOf] using h

/-- **The reverse sweep returns the gradient of the circuit map** — no product rule assumed: for every cotangent `g_out` and
every perturbation family `(δΘ, δψ)`,
`Σ_slots ⟪grad[slot], δΘ[slot]⟫ + ⟪q0_grad, δψ⟫ = ⟪g_out, D F[δΘ,δψ]⟫`, where `D F[δ]` is *defined* as the ε-coefficient of
`F(Θ + ε δΘ, ψ + ε δψ)` computed in `R[ε]/(ε²)`. -/
theorem reverseSweep_gradient (K S : ℕ) (Θ δΘ : Params R) (gates : List (PGate n R))
    (hwf : ∀ g ∈ gates, g.WF) (hun : ∀ g ∈ gates, g.IsUnitary Θ) (hr : ∀ g ∈ gates, g.InRange K S)
    (ψ0 δψ gout : Vec n R) (G0 : Params R) :
    let out := backward Θ gates (conjVec (forward Θ gates ψ0), gout, G0)
    pairing K S out.2.2 δΘ + vdot out.2.1 δψ
      = pairing K S G0 δΘ
        + vdot gout (fun x => (forward (dualParams Θ δΘ) (gates.map PGate.lift) (fun y => dualOf (ψ0 y) (δψ y)) x).snd) := by
  intro out
  have h := (sweep_vjp K S Θ δΘ gates hwf hun hr ψ0 δψ gout G0).2
  have e : (fun x => (forward (dualParams Θ δΘ) (gates.map PGate.lift) (fun y => dualOf (ψ0 y) (δψ y)) x).snd)
      = dforward Θ δΘ gates ψ0 δψ := funext fun x => (dforward_is_dual_derivative Θ δΘ gates ψ0 δψ x).2
  rw [e]; exact h

/-! ## what the driver executes is what the theorems are about (array-level folds = modelled folds) -/

section driver
variable {α : Type} [Add α] [Mul α] [Zero α] [Conj α]

/-- the driver's forward loop (`forwardA`: tabulate after every gate) computes `forward` -/
theorem driver_forward_eq (Θ : Params α) (gates : List (PGate n α)) (a : Array α) :
    lookup (n := n) (forwardA Θ gates a) = forward Θ gates (lookup a) := forwardA_eq Θ gates a

/-- **the driver's reverse sweep (`backwardA`: states and gradient buffers as flat arrays) computes `backward`**, the subject of
`reverseSweep_vjp` / `reverseSweep_gradient`.  Guard: the slot of every parametrised gate is a key of the gradient table
(the driver rejects the op otherwise, `PGate.coveredB`), so no gradient can be dropped silently. -/
theorem driver_backward_eq (Θ : Params α) (gates : List (PGate n α)) (init : StA α) (hc : ∀ g ∈ gates, g.Covered init.2.2) :
    absSt (n := n) (backwardA Θ gates init) = backward Θ gates (absSt init) := (backwardA_eq Θ gates init hc).1

omit [Add α] [Mul α] [Zero α] [Conj α] in
theorem driver_guard_iff (tab : ParamTable α) (g : PGate n α) : g.coveredB tab = true ↔ g.Covered tab := coveredB_iff tab g

/-- the driver's tabulated Sylvester loop computes `sylvBackward` (subject of `sqrtm_repeat_vjp`) on the `m × m` block -/
theorem driver_sylvester_eq [Div α] [DecidableEq α] (m : ℕ) (V : ℕ → ℕ → α) (r : ℕ) (s : ℕ → α) (G : Array α) (i j : ℕ)
    (hi : i < m) (hj : j < m) : ofTab m (sylvBackwardA m V r s G) i j = sylvBackward m V r s (ofTab m G) i j :=
  sylvBackwardA_eq m V r s G i j hi hj

end driver

/-- the model's slot of a gate (`Src.param (repSlot …)`) identifies exactly the gates that `_setup` sends to the same
`(name, row)` of the stacked tensors -/
theorem repSlot_canonical (gs : List GateDesc) (i j : ℕ) (hi : i < gs.length) (p q : String × ℕ)
    (h1 : slotOf gs i = some p) (h2 : slotOf gs j = some q) : repSlot gs i = repSlot gs j ↔ p = q :=
  repSlot_eq_iff gs i j hi p q h1 h2

/-! ## Knill–Laflamme inner product (`qec/_internal.py:150-189`) -/

/-- **The Knill–Laflamme backward is the adjoint of the (sesquilinear) forward map**: with
`y[i,j] = ⟪q_i, O q_j⟫` and `dy[i,j] = ⟪dq_i, O q_j⟫ + ⟪q_i, O dq_j⟫`,
`Re Σ_ij conj(G_ij)·dy_ij = Re Σ_i ⟪grad_i, dq_i⟫` (stated as `z + star z` on both sides), where `grad` is what the code
accumulates: `conj(G) @ (O q) + Gᵀ @ (O† q)`, `O†` being applied as the reversed list of `op.T.conj()`. -/
theorem kl_vjp (L : ℕ) (ops : List (Op n R)) (hwf : ∀ g ∈ ops, g.WF) (hm : ∀ g ∈ ops, NoMeasure g)
    (q dq : ℕ → Vec n R) (G : ℕ → ℕ → R) :
    let S := ∑ i ∈ range L, ∑ j ∈ range L,
      star (G i j) * (vdot (dq i) (applySeq ops (q j)) + vdot (q i) (applySeq ops (dq j)))
    let T := ∑ i ∈ range L, vdot (klBackward L ops (dagRev ops) q G i) (dq i)
    T + star T = S + star S := by
  intro S T
  have hO : ∀ v, applySeq ops v = (circuitMatrix ops).mulVec v := applySeq_eq ops hwf
  have hOd : ∀ v, applySeq (dagRev ops) v = (circuitMatrix ops)ᴴ.mulVec v := fun v => by
    rw [applySeq_eq _ (dagRev_wf ops hwf), circuitMatrix_dagRev ops hwf hm]
  have := kl_adjoint L (circuitMatrix ops) q dq G
  simp only at this
  have hS : S = ∑ i ∈ range L, ∑ j ∈ range L, star (G i j) *
      (vdot (dq i) ((circuitMatrix ops).mulVec (q j)) + vdot (q i) ((circuitMatrix ops).mulVec (dq j))) := by
    simp only [S, hO]
  have hT : T = ∑ i ∈ range L, vdot (fun x =>
      (∑ j ∈ range L, star (G i j) * (circuitMatrix ops).mulVec (q j) x)
        + (∑ j ∈ range L, G j i * (circuitMatrix ops)ᴴ.mulVec (q j) x)) (dq i) := by
    have hkl : ∀ i, klBackward L ops (dagRev ops) q G i = fun x =>
        (∑ j ∈ range L, star (G i j) * (circuitMatrix ops).mulVec (q j) x)
          + (∑ j ∈ range L, G j i * (circuitMatrix ops)ᴴ.mulVec (q j) x) := by
      intro i; funext x
      unfold klBackward
      rw [sumRange_eq_sum, sumRange_eq_sum]
      simp only [hO, hOd]; rfl
    simp only [T, hkl]
  rw [hS, hT]; exact this

/-- **the Knill–Laflamme differential is derived, not postulated**: run the same `klForward` over the dual numbers at `q + ε·dq`
(operators ε-free); its ε-coefficient is `⟪dq_i, O q_j⟫ + ⟪q_i, O dq_j⟫`, its ε⁰-coefficient the forward value. -/
theorem kl_differential_dual (L : ℕ) (ops : List (Op n R)) (q dq : ℕ → Vec n R) (i j : ℕ) :
    (klForward L (ops.map Op.liftD) (fun i x => dualOf (q i x) (dq i x)) i j).fst = klForward L ops q i j ∧
    (klForward L (ops.map Op.liftD) (fun i x => dualOf (q i x) (dq i x)) i j).snd
      = vdot (dq i) (applySeq ops (q j)) + vdot (q i) (applySeq ops (dq j)) :=
  klForward_dual L ops q dq i j

/-- **the Knill–Laflamme backward returns the gradient of `klForward`**: `Re Σ_ij conj(G_ij)·D y_ij[dq] = Re Σ_i ⟪grad_i, dq_i⟫`
with `D y[dq]` *defined* as the ε-coefficient of `klForward` over `R[ε]/(ε²)`. -/
theorem kl_gradient (L : ℕ) (ops : List (Op n R)) (hwf : ∀ g ∈ ops, g.WF) (hm : ∀ g ∈ ops, NoMeasure g)
    (q dq : ℕ → Vec n R) (G : ℕ → ℕ → R) :
    let S := ∑ i ∈ range L, ∑ j ∈ range L,
      star (G i j) * (klForward L (ops.map Op.liftD) (fun i x => dualOf (q i x) (dq i x)) i j).snd
    let T := ∑ i ∈ range L, vdot (klBackward L ops (dagRev ops) q G i) (dq i)
    T + star T = S + star S := by
  intro S T
  have h := kl_vjp L ops hwf hm q dq G
  simp only at h
  have e : S = ∑ i ∈ range L, ∑ j ∈ range L,
      star (G i j) * (vdot (dq i) (applySeq ops (q j)) + vdot (q i) (applySeq ops (dq j))) := by
    simp only [S]
    refine sum_congr rfl fun i _ => sum_congr rfl fun j _ => ?_
    rw [(kl_differential_dual L ops q dq i j).2]
  rw [e]; exact h

/-- the forward value the backward pass differentiates: `klForward` is `⟪q_i, O q_j⟫` -/
theorem klForward_eq (L : ℕ) (ops : List (Op n R)) (hwf : ∀ g ∈ ops, g.WF) (q : ℕ → Vec n R) (i j : ℕ) :
    klForward L ops q i j = vdot (q i) ((circuitMatrix ops).mulVec (q j)) := by
  rw [klForward, applySeq_eq ops hwf]

/-! ## PSD square root: Sylvester rule (`_torch_op.py:28-58`) -/

section sylvester
variable {F : Type} [Field F] [StarRing F] [DecidableEq F] {m : ℕ}

/-- **the code's formula solves the Sylvester equation** `S X + X S = G` for `S = V diag(s) V†` (the computed square root),
`V` unitary, provided `s_a + s_b ≠ 0` for all pairs (with two zero roots the code divides by zero: inf/NaN, outside the
differentiable domain). -/
theorem sylvester_solves (V G : ℕ → ℕ → F) (s : ℕ → F)
    (hV1 : (toMat m V)ᴴ * toMat m V = 1) (hV2 : toMat m V * (toMat m V)ᴴ = 1)
    (hs : ∀ a b, a < m → b < m → s a + s b ≠ 0) :
    (toMat m V * Matrix.diagonal (fun a : Fin m => s a.val) * (toMat m V)ᴴ) * toMat m (sylvStep m V s G)
      + toMat m (sylvStep m V s G) * (toMat m V * Matrix.diagonal (fun a : Fin m => s a.val) * (toMat m V)ᴴ)
      = toMat m G :=
  sylvStep_solves V G s hV1 hV2 hs

/-- **the solution is the gradient of the square root**: for Hermitian `S` (real roots), `A = S·S`, `δA = δS·S + S·δS`:
`⟪G, δS⟫ = ⟪X, δA⟫` with `X` the output of one pass of the backward rule. -/
theorem sylvester_vjp (V G : ℕ → ℕ → F) (s : ℕ → F)
    (hV1 : (toMat m V)ᴴ * toMat m V = 1) (hV2 : toMat m V * (toMat m V)ᴴ = 1)
    (hs : ∀ a b, a < m → b < m → s a + s b ≠ 0) (hreal : ∀ a, star (s a) = s a) (δS : Matrix (Fin m) (Fin m) F) :
    let S := toMat m V * Matrix.diagonal (fun a : Fin m => s a.val) * (toMat m V)ᴴ
    let X := toMat m (sylvStep m V s G)
    Matrix.trace ((toMat m G)ᴴ * δS) = Matrix.trace (Xᴴ * (δS * S + S * δS)) := by
  intro S X
  have hS : Sᴴ = S := by
    simp only [S, Matrix.conjTranspose_mul, Matrix.conjTranspose_conjTranspose, Matrix.diagonal_conjTranspose,
      Matrix.mul_assoc]
    congr 2
    ext a b
    by_cases h : a = b
    · subst h; simp [Matrix.diagonal, hreal]
    · simp [Matrix.diagonal, h]
  exact sylvester_adjoint S X (toMat m G) δS hS (sylvStep_solves V G s hV1 hV2 hs)

/-- **repeated square roots (`repeat` passes, induction on `repeat`)**: the output of `_torch_psd_sqrtm_backward_repeat` is the VJP
of `repeat` successive squarings `S ↦ S² ↦ S⁴ ↦ …` (`dchain` is the chain of differentials `δ ↦ δ·S + S·δ`), provided no pass
divides by zero (`SylvGuard`) and the roots are real; `sqrtm_chain_is_squaring` identifies the operators of the chain. -/
theorem sqrtm_repeat_vjp (V : ℕ → ℕ → F) (hV1 : (toMat m V)ᴴ * toMat m V = 1) (hV2 : toMat m V * (toMat m V)ᴴ = 1)
    (r : ℕ) (s : ℕ → F) (hreal : ∀ a, star (s a) = s a) (hg : SylvGuard m r s) (G : ℕ → ℕ → F)
    (δ : Matrix (Fin m) (Fin m) F) :
    Matrix.trace ((toMat m G)ᴴ * δ) = Matrix.trace ((toMat m (sylvBackward m V r s G))ᴴ * dchain m V r s δ) :=
  sylvBackward_adjoint V hV1 hV2 r s hreal hg G δ

/-- **singular inputs, the `tmp1[ind_zero…] = 0` branch**: when some roots are zero (guard: two *different* roots never sum to
zero, i.e. at most one zero root for non-negative roots) the rule solves `S X + X S = G − V·K·V†`, `K` the zero-root diagonal of
`V†GV` (one zero root `z`: `V K V† = P G P`, `P` the kernel projector).  With two zero roots the code computes `0/0` (inf/NaN). -/
theorem sylvester_singular_solves (V G : ℕ → ℕ → F) (s : ℕ → F)
    (hV1 : (toMat m V)ᴴ * toMat m V = 1) (hV2 : toMat m V * (toMat m V)ᴴ = 1)
    (hoff : ∀ a b, a < m → b < m → a ≠ b → s a + s b ≠ 0) (hdiag : ∀ a, a < m → s a ≠ 0 → s a + s a ≠ 0) :
    specMat m V s * toMat m (sylvStep m V s G) + toMat m (sylvStep m V s G) * specMat m V s
      = toMat m G - toMat m V * kernelDiag m V G s * (toMat m V)ᴴ :=
  sylvStep_singular V G s hV1 hV2 hoff hdiag

/-- **on a rank-deficient input the returned gradient is the VJP restricted to the range**: exact for every perturbation `δS`
without kernel–kernel component (`(V†·δS·V)_zz = 0` on the zero roots) — the directions in which `√·` is differentiable there. -/
theorem sylvester_singular_vjp (V G : ℕ → ℕ → F) (s : ℕ → F)
    (hV1 : (toMat m V)ᴴ * toMat m V = 1) (hV2 : toMat m V * (toMat m V)ᴴ = 1)
    (hoff : ∀ a b, a < m → b < m → a ≠ b → s a + s b ≠ 0) (hdiag : ∀ a, a < m → s a ≠ 0 → s a + s a ≠ 0)
    (hreal : ∀ a, star (s a) = s a) (δS : Matrix (Fin m) (Fin m) F)
    (hδ : ∀ a : Fin m, s a.val = 0 → ((toMat m V)ᴴ * δS * toMat m V) a a = 0) :
    Matrix.trace ((toMat m G)ᴴ * δS)
      = Matrix.trace ((toMat m (sylvStep m V s G))ᴴ * (δS * specMat m V s + specMat m V s * δS)) :=
  sylvester_singular_adjoint V G s hV1 hV2 hoff hdiag hreal δS hδ

omit [DecidableEq F] in
/-- **the differential of the square root is unique**: under the guard `δS ↦ δS·S + S·δS` is injective, so the `δS` paired with
`G` in `sylvester_vjp` is *the* derivative of `A ↦ S` in the direction `δA` (implicit differentiation of `S·S = A`). -/
theorem sqrtm_differential_unique (V : ℕ → ℕ → F) (s : ℕ → F)
    (hV1 : (toMat m V)ᴴ * toMat m V = 1) (hV2 : toMat m V * (toMat m V)ᴴ = 1)
    (hs : ∀ a b, a < m → b < m → s a + s b ≠ 0) (δ δ' : Matrix (Fin m) (Fin m) F)
    (h : δ * specMat m V s + specMat m V s * δ = δ' * specMat m V s + specMat m V s * δ') : δ = δ' := by
  have := sylvester_unique_aux V s hV1 hV2 hs (δ - δ') (by
    rw [Matrix.sub_mul, Matrix.mul_sub]; rw [sub_add_sub_comm, h, sub_self])
  exact sub_eq_zero.1 this

omit [DecidableEq F] in
theorem sqrtm_chain_is_squaring (V : ℕ → ℕ → F) (hV1 : (toMat m V)ᴴ * toMat m V = 1) (s : ℕ → F) :
    specMat m V s * specMat m V s = specMat m V (fun a => s a * s a) := specMat_sq V hV1 s

omit [StarRing F] in
/-- repeated square roots: one more pass first solves with the stored roots, then continues with their squares -/
theorem sylvBackward_succ (V : ℕ → ℕ → F) (r : ℕ) (s : ℕ → F) (G : ℕ → ℕ → F) [Conj F] :
    sylvBackward m V (r + 1) s G = sylvBackward m V r (fun a => s a * s a) (sylvStep m V s G) := rfl

end sylvester

/-! ## the forward map of the PSD square root (`_torch_psd_sqrtm_forward_repeat`), eigenvalue level -/

section sqrtmforward
open Channel
variable {m : ℕ}

/-- **forward map**: given the `eigh` contract (`V` unitary, real eigenvalues `ev`) the returned matrix is `V·diag(sqrt_EVL)·V†`
with the saved roots `sqrt_EVL = storedRoots r ev`; one more square root squares back to the previous one, and with no root at all
(`r = 0`) it is `V·diag(max(0,ev))·V†` — equal to the input `A = V·diag(ev)·V†` for PSD `A`.  So the saved `(sqrt_EVL, EVC)` are
exactly the `(s, V)` of `sylvester_vjp` / `sqrtm_repeat_vjp`, and `δA = δS·S + S·δS` is the differential of *this* chain
(`squaring_dual`). -/
theorem sqrtm_forward_chain (V : ℕ → ℕ → ℂ) (hV1 : (toMat m V)ᴴ * toMat m V = 1) (ev : ℕ → ℝ) (r : ℕ) :
    toMat m (psdSqrtmForward m V r (fun a => (ev a : ℂ))) = specMat m V (storedRoots r (fun a => (ev a : ℂ))) ∧
    toMat m (psdSqrtmForward m V (r + 1) (fun a => (ev a : ℂ))) * toMat m (psdSqrtmForward m V (r + 1) (fun a => (ev a : ℂ)))
      = toMat m (psdSqrtmForward m V r (fun a => (ev a : ℂ))) ∧
    ((∀ a, 0 ≤ ev a) → toMat m (psdSqrtmForward m V 0 (fun a => (ev a : ℂ))) = specMat m V (fun a => (ev a : ℂ))) ∧
    (∀ a, star (storedRoots r (fun a => (ev a : ℂ)) a) = storedRoots r (fun a => (ev a : ℂ)) a) := by
  refine ⟨toMat_psdForward V r _, ?_, ?_, fun a => storedRoots_star r ev a⟩
  · rw [toMat_psdForward, toMat_psdForward, specMat_sq V hV1]
    congr 1
    funext a; exact storedRoots_sq r ev a
  · intro hev
    rw [toMat_psdForward]
    congr 1
    funext a; exact storedRoots_zero ev hev a

/-- `δA = δS·S + S·δS` is the ε-coefficient of `(S + ε·δS)²` over the dual numbers (and `S·S` the ε⁰-coefficient) -/
theorem squaring_dual {R : Type} [CommRing R] (S δS : Matrix (Fin m) (Fin m) R) :
    (∀ a b, (((Matrix.of fun a b => dualOf (S a b) (δS a b)) * (Matrix.of fun a b => dualOf (S a b) (δS a b))
        : Matrix (Fin m) (Fin m) (DualNumber R)) a b).fst = (S * S) a b) ∧
    (∀ a b, (((Matrix.of fun a b => dualOf (S a b) (δS a b)) * (Matrix.of fun a b => dualOf (S a b) (δS a b))
        : Matrix (Fin m) (Fin m) (DualNumber R)) a b).snd = (δS * S + S * δS) a b) :=
  sq_dual S δS

end sqrtmforward

/-! ## flat-parameter bridge (`optimize/_internal.py:8-40`) -/

/-- **`set_model_flat_parameter ∘ get_model_flat_parameter = id`**: cutting the concatenation at the cumulative sizes
returns every parameter, in sorted-name order (the order of the gradient vector, too: same function). -/
theorem flatBridge_roundtrip {β : Type} (ps : List (String × List β)) :
    unflatten ((sortByName ps).map fun p => (p.1, p.2.length)) (flatten ps) = sortByName ps :=
  unflatten_flatMap (sortByName ps)

/-- the sorted order is a permutation of the parameters and is ascending in the names -/
theorem flatBridge_order {β : Type} (ps : List (String × List β)) :
    (sortByName ps).Perm ps ∧ (sortByName ps).Pairwise fun a b => ¬ b.1 < a.1 :=
  ⟨sortByName_perm ps, sortByName_sorted ps⟩

/-! ## gradient hand-off to the optimiser (`hf_model_wrapper`, `minimize`) -/

/-- **`get ∘ set = id` on flat vectors**: after `set_model_flat_parameter(model, θ)` the flat parameter vector is `θ` again — in
particular the vector `scipy` optimises over and the vector of `get_model_flat_grad` / `hf_model_wrapper` index the same
coordinates (distinct parameter names; `θ` of the right length). -/
theorem handoff_get_set {β : Type} (ps : ParamList β) (θ : List β)
    (hdist : (trainable ps).Pairwise fun a b => a.1 < b.1)
    (hlen : θ.length = ((trainable ps).map fun p => p.2.length).sum) :
    (sortByName (setFlat ps θ)).flatMap (·.2) = θ := by
  have hn : (setFlat ps θ).Pairwise fun a b => a.1 < b.1 := by
    have h1 := unflatten_names ((trainable ps).map fun p => (p.1, p.2.length)) θ
    have h2 : ((setFlat ps θ).map (·.1)).Pairwise (· < ·) := by
      rw [setFlat, h1, List.map_map]
      exact (List.pairwise_map.2 hdist)
    exact List.pairwise_map.1 h2
  rw [sortByName_of_sorted _ hn, setFlat]
  apply flatMap_unflatten
  rw [hlen, List.map_map]; rfl

/-- **`set ∘ get = id`**: writing back the flat vector that was read changes nothing. -/
theorem handoff_set_get {β : Type} (ps : ParamList β) : setFlat ps (getFlat ps) = trainable ps :=
  unflatten_flatMap (trainable ps)

/-- parameters with `requires_grad=False` are skipped consistently: they never enter the flat vectors … -/
theorem handoff_trainable_only {β : Type} (ps : ParamList β) (q : String × List β) (hq : q ∈ trainable ps) :
    ∃ p ∈ ps, p.2.1 = true ∧ q = (p.1, p.2.2) := by
  have := (sortByName_perm _).mem_iff.1 hq
  rw [List.mem_map] at this
  obtain ⟨p, hp, rfl⟩ := this
  rw [List.mem_filter] at hp
  exact ⟨p, hp.1, hp.2, rfl⟩

/-- … and `set_model_flat_parameter` leaves them untouched. -/
theorem handoff_frozen_untouched {β : Type} (ps : ParamList β) (θ : List β) (p : String × Bool × List β) (hp : p ∈ ps)
    (hf : p.2.1 = false) : p ∈ afterSet ps θ := by
  unfold afterSet
  rw [List.mem_map]
  exact ⟨p, hp, by simp [hf]⟩

/-! ## `CircuitTorchWrapper._setup`: the index maps (`_torch_utils.py:101-156`) -/

/-- **`ind_gate_to_ind_torch` addresses distinct rows**: two different gates read the same row of the same stacked gate tensor
only if both are trainable, non-placeholder gates that are the same object (a shared parameter) — so the `+=` of the sweep
sums exactly the contributions of one shared parameter. -/
theorem setup_rows_injective (gs : List GateDesc) (i j : ℕ) (hi : i < gs.length) (hj : j < gs.length) (p : String × ℕ)
    (h1 : slotOf gs i = some p) (h2 : slotOf gs j = some p) :
    i = j ∨ (gs[i].placeholder = false ∧ gs[j].placeholder = false ∧ gs[i].objId = gs[j].objId) :=
  slotOf_injective gs i j hi hj p h1 h2

/-- conversely, a re-used trainable gate object (same name, same object) reads the same row every time -/
theorem setup_rows_shared (gs : List GateDesc) (i j : ℕ) (hi : i < gs.length) (hj : j < gs.length)
    (hn : gs[i].name = gs[j].name) (ho : gs[i].objId = gs[j].objId)
    (hpi : gs[i].placeholder = false) (hpj : gs[j].placeholder = false)
    (hti : gs[i].trainable = true) (htj : gs[j].trainable = true) : slotOf gs i = slotOf gs j := by
  unfold slotOf
  rw [List.getElem?_eq_getElem hi, List.getElem?_eq_getElem hj]
  simp [hpi, hpj, hti, htj, hn, ho]

/-! ## the executed carriers are instances of the classes the theorems quantify over -/

/-- `GInt = ℤ[i]` (the carrier of the exact tie) is a commutative star-ring whose `star` is the executed `conj`
(instances in `NumqiProofs/BackwardCarrier.lean`, built from the operations of `NumqiModel/Scalar.lean`, nothing redefined) -/
theorem carrier_gint_star (a : GInt) : star a = (⟨a.re, -a.im⟩ : GInt) := rfl

/-- `QI = ℚ[i]` is a field whose division is the one `Driver/C04.lean` executes in `sylv` / `sylvf` (`x / 0 = 0`); the driver
additionally refuses (`nan`) any input for which a pass would divide by a zero sum of two different roots (`sylvDividesAll`) -/
theorem carrier_qi_division (a b : QI) :
    a / b = (⟨(a.re * b.re + a.im * b.im) / QI.normSq b, (a.im * b.re - a.re * b.im) / QI.normSq b⟩ : QI) := rfl

/-- the ring-generic sweep theorem at the executed carrier (instantiation check) -/
example (K S : ℕ) (Θ δΘ : Params GInt) (gates : List (PGate 3 GInt))
    (hwf : ∀ g ∈ gates, g.WF) (hun : ∀ g ∈ gates, g.IsUnitary Θ) (hr : ∀ g ∈ gates, g.InRange K S)
    (ψ0 δψ gout : Vec 3 GInt) (G0 : Params GInt) :=
  reverseSweep_vjp K S Θ δΘ gates hwf hun hr ψ0 δψ gout G0

/-- the field-generic Sylvester theorem at the executed carrier -/
example (V G : ℕ → ℕ → QI) (s : ℕ → QI) (hV1 : (toMat 3 V)ᴴ * toMat 3 V = 1) (hV2 : toMat 3 V * (toMat 3 V)ᴴ = 1)
    (hs : ∀ a b, a < 3 → b < 3 → s a + s b ≠ 0) := sylvester_solves V G s hV1 hV2 hs

/-! ## non-vacuity -/

/-- the hypotheses of the gate theorems are satisfiable: the swap matrix on one qubit is unitary over ℤ -/
example : ∃ U : MatK 1 ℤ, Uᴴ * U = 1 ∧ U ≠ 1 := by
  refine ⟨Matrix.of fun a b => if a 0 = b 0 then 0 else 1, ?_, ?_⟩
  · ext x y
    simp only [Matrix.mul_apply, Matrix.conjTranspose_apply, Matrix.of_apply, Matrix.one_apply, star_trivial]
    rw [Finset.sum_eq_single (fun _ => !(x 0))]
    · have hx : ∀ z : Bits 1, (z = x) ↔ z 0 = x 0 := fun z =>
        ⟨fun h => by rw [h], fun h => funext fun i => by rw [Fin.eq_zero i]; exact h⟩
      by_cases hxy : x = y
      · subst hxy; cases h : x 0 <;> simp [h]
      · have : ¬ x 0 = y 0 := fun e => hxy (((hx y).2 e.symm).symm)
        cases h : x 0 <;> cases h' : y 0 <;> simp_all
    · intro z _ hz
      have : z 0 = x 0 := by
        by_contra hne
        apply hz; funext i; rw [Fin.eq_zero i]
        cases h : z 0 <;> cases h' : x 0 <;> simp_all
      simp [this]
    · intro h; exact absurd (Finset.mem_univ _) h
  · intro h
    have := congrFun (congrFun h (fun _ => false)) (fun _ => false)
    simp at this

end Numqi.C04
