/-
C14 — finite-group tables are groups; partition and tableau counts are exact.

Property theorems only (helpers: `NumqiProofs/FinGroupLemmas.lean`, `FinGroupPerm.lean`, …).
All statements are about the constants of `NumqiModel/FinGroup.lean` / `NumqiModel/Young.lean`
that `Driver/C14.lean` executes.
-/
import NumqiProofs.FinGroupPerm
import NumqiProofs.FinGroupDihedral
import NumqiProofs.FinGroupAlt
import NumqiProofs.YoungPartition
import NumqiProofs.YoungTabFinal
import Mathlib.Data.Set.Card
import NumqiModel.Young
import Mathlib.Data.Nat.Totient
import Mathlib.Data.Nat.Factorial.Basic
import Mathlib.Data.Int.GCD
import Mathlib.Data.Matrix.Mul
import Mathlib.Algebra.Group.MinimalAxioms
import Mathlib.LinearAlgebra.Matrix.Trace
import Mathlib.Data.Matrix.Block
import Mathlib.LinearAlgebra.Matrix.Kronecker
import Mathlib.Data.Complex.Basic

namespace Numqi.C14
open Numqi Numqi.FinGroup Numqi.Young
open scoped Nat

/-! ## 1. the symmetric group: `itertools.permutations`, composition, look-up -/

/-- **`itertools.permutations(range n)` is complete and duplicate-free**: the model lists exactly the
rearrangements of `0..n-1`, each once. -/
theorem perms_complete_nodup (n : Nat) :
    (perms n).Nodup ∧ ∀ p : List Nat, p ∈ perms n ↔ p.Perm (List.range n) :=
  ⟨nodup_perms n, fun _ => mem_perms⟩

private theorem length_permsAux (k : Nat) : ∀ l : List Nat, l.length = k → (permsAux k l).length = k ! := by
  induction k with
  | zero => intro l _; simp [permsAux]
  | succ k ih =>
    intro l hl
    simp only [permsAux, List.length_flatMap, List.length_map]
    have : (l.map fun a => (permsAux k (l.erase a)).length) = l.map fun _ => k ! := by
      apply List.map_congr_left
      intro a ha
      exact ih _ (by rw [List.length_erase_of_mem ha]; omega)
    rw [this, List.map_const', List.sum_replicate, hl, Nat.factorial_succ, smul_eq_mul]

/-- there are `n!` of them -/
theorem perms_length (n : Nat) : (perms n).length = n ! := length_permsAux n _ List.length_range

/-- **what the table entry is**: `symTable n [i][j]` is the index of `perm_i ∘ perm_j` (`k ↦ perm_i[perm_j[k]]`). -/
theorem symTable_entry (n i j : Nat) (hi : i < (perms n).length) (hj : j < (perms n).length) :
    entry (symTable n) i j = (perms n).idxOf (compose (perms n)[i] (perms n)[j]) :=
  entry_tableOf _ _ hi hj

/-- **`get_symmetric_group_cayley_table(n)` is a group table of order `n!`, for every `n`.** -/
theorem symTable_isGroupTable (n : Nat) : IsGroupTable (symTable n) n ! := by
  rw [← perms_length n]
  refine tableOf_isGroupTable (perms n) compose (nodup_perms n) ?_ ?_ (List.range n) ?_ ?_ ?_
  · intro a ha b hb
    exact mem_perms.2 (compose_perm (mem_perms.1 ha) (mem_perms.1 hb))
  · intro a _ b hb c hc
    exact compose_assoc (perm_length (mem_perms.1 hb)) (fun x hx => perm_lt (mem_perms.1 hc) hx)
  · exact mem_perms.2 (List.Perm.refl _)
  · intro a ha
    exact ⟨compose_range_left (fun x hx => perm_lt (mem_perms.1 ha) hx),
      compose_range_right (perm_length (mem_perms.1 ha))⟩
  · intro a ha
    have hp := mem_perms.1 ha
    exact ⟨invPerm n a, mem_perms.2 (invPerm_perm hp), compose_invPerm_right hp, compose_invPerm_left hp⟩

/-! ## 2. cyclic group -/

/-- **`get_cyclic_group_cayley_table(n)` is a group table of order `n`** (`n ≥ 1`; the code asserts `n ≥ 2`). -/
theorem cycTable_isGroupTable (n : Nat) (hn : 1 ≤ n) : IsGroupTable (cycTable n) n := by
  have hent : ∀ i j, i < n → j < n → entry (cycTable n) i j = (i + j) % n := by
    intro i j hi hj
    simp [entry, cycTable, List.getD_eq_getElem?_getD, hi, hj]
  have hlt : ∀ a, a % n < n := fun a => Nat.mod_lt _ (by omega)
  refine ⟨by simp [cycTable], ?_, ?_, ?_, 0, by omega, ?_, ?_⟩
  · intro i hi
    simp [cycTable, List.getD_eq_getElem?_getD, hi]
  · intro i j hi hj; rw [hent i j hi hj]; exact hlt _
  · intro i j k hi hj hk
    rw [hent i j hi hj, hent j k hj hk, hent _ k (hlt _) hk, hent i _ hi (hlt _)]
    rw [Nat.mod_add_mod, Nat.add_mod_mod, Nat.add_assoc]
  · intro i hi
    rw [hent 0 i (by omega) hi, hent i 0 hi (by omega)]
    simp [Nat.mod_eq_of_lt hi]
  · intro i hi
    refine ⟨(n - i) % n, hlt _, ?_, ?_⟩
    · rw [hent i _ hi (hlt _)]
      rw [Nat.add_mod_mod, Nat.add_sub_cancel' (by omega), Nat.mod_self]
    · rw [hent _ i (hlt _) hi]
      rw [Nat.mod_add_mod, Nat.sub_add_cancel (by omega), Nat.mod_self]

/-! ## 3. multiplicative group of units mod `n` -/

theorem mem_units {n x : Nat} : x ∈ units n ↔ 1 ≤ x ∧ x < n ∧ Nat.Coprime n x := by
  simp only [units, List.mem_filter, List.mem_range'_1, beq_iff_eq, Nat.Coprime]
  constructor
  · rintro ⟨⟨h1, h2⟩, h3⟩; exact ⟨h1, by omega, h3⟩
  · rintro ⟨h1, h2, h3⟩; exact ⟨⟨h1, by omega⟩, h3⟩

private theorem coprime_mod {n a : Nat} (h : Nat.Coprime n a) : Nat.Coprime n (a % n) := by
  unfold Nat.Coprime at *
  rw [Nat.gcd_comm, ← Nat.gcd_rec, h]

private theorem mulmod_mem_units {n x y : Nat} (hn : 2 ≤ n) (hx : x ∈ units n) (hy : y ∈ units n) :
    (x * y) % n ∈ units n := by
  rw [mem_units] at *
  have hc : Nat.Coprime n ((x * y) % n) := coprime_mod (hx.2.2.mul_right hy.2.2)
  refine ⟨?_, Nat.mod_lt _ (by omega), hc⟩
  by_contra h0
  have h0 : (x * y) % n = 0 := by omega
  rw [h0] at hc
  simp [Nat.Coprime] at hc
  omega

/-- the element list has `φ(n)` entries -/
theorem units_length (n : Nat) (hn : 2 ≤ n) : (units n).length = Nat.totient n := by
  rw [Nat.totient_eq_card_coprime]
  have hnd : (units n).Nodup := (List.nodup_range' (s := 1) (n := n - 1)).filter _
  rw [← List.toFinset_card_of_nodup hnd]
  congr 1
  ext x
  simp only [List.mem_toFinset, mem_units, Finset.mem_filter, Finset.mem_range]
  constructor
  · rintro ⟨_, h2, h3⟩; exact ⟨h2, h3⟩
  · rintro ⟨h2, h3⟩
    refine ⟨?_, h2, h3⟩
    by_contra h0
    have h0 : x = 0 := by omega
    subst h0
    simp [Nat.Coprime] at h3
    omega

/-- **`get_multiplicative_group_cayley_table(n)` is a group table of order `φ(n)`** (`n ≥ 2`; the code asserts `n ≥ 3`). -/
theorem mulTable_isGroupTable (n : Nat) (hn : 2 ≤ n) : IsGroupTable (mulTable n) (Nat.totient n) := by
  rw [← units_length n hn]
  have hnd : (units n).Nodup := (List.nodup_range' (s := 1) (n := n - 1)).filter _
  have h1 : 1 ∈ units n := mem_units.2 ⟨le_refl _, by omega, Nat.coprime_one_right n⟩
  refine tableOf_isGroupTable (units n) (fun x y => (x * y) % n) hnd ?_ ?_ 1 h1 ?_ ?_
  · intro a ha b hb; exact mulmod_mem_units hn ha hb
  · intro a _ b _ c _
    show (a * b % n * c) % n = (a * (b * c % n)) % n
    rw [Nat.mod_mul_mod, Nat.mul_mod_mod, Nat.mul_assoc]
  · intro a ha
    have := (mem_units.1 ha).2.1
    simp [Nat.mod_eq_of_lt this]
  · intro a ha
    have ha' := mem_units.1 ha
    obtain ⟨m, hm, hm1⟩ := Nat.exists_mul_mod_eq_one_of_coprime ha'.2.2.symm (by omega : 1 < n)
    have hmc : Nat.Coprime n m := by
      have : Nat.Coprime n (a * m) := by
        unfold Nat.Coprime
        rw [Nat.gcd_rec, hm1]
        simp
      exact Nat.Coprime.coprime_mul_left_right this
    have hm0 : 1 ≤ m := by
      by_contra h0
      have h0 : m = 0 := by omega
      subst h0; simp at hm1
    refine ⟨m, mem_units.2 ⟨hm0, hm, hmc⟩, hm1, ?_⟩
    show (m * a) % n = 1
    rw [Nat.mul_comm]; exact hm1

/-! ## 3b. dihedral group -/

/-- the `2n` rows (`n` rotations from the circulant, `n` reflections from the reversed columns) are pairwise different -/
theorem dihRows_nodup (n : Nat) (hn : 2 < n) : (dihRows n).Nodup := FinGroup.dihRows_nodup n hn

/-- **`get_dihedral_group_cayley_table(n)` is a group table of order `2n`, for every `n > 2`**
(rotation∘rotation, rotation∘reflection, … computed mod `n`; `NumqiProofs/FinGroupDihedral.lean`). -/
theorem dihTable_isGroupTable (n : Nat) (hn : 2 < n) : IsGroupTable (dihTable n) (2 * n) :=
  dihTable_isGroupTable' n hn

/-- the dihedral table of the triangle is not abelian: `r·s ≠ s·r` -/
example : entry (dihTable 3) 1 3 ≠ entry (dihTable 3) 3 1 := by decide

/-! ## 4. Klein four-group and quaternion group (literal tables) -/

theorem kleinTable_isGroupTable : IsGroupTable kleinTable 4 :=
  isGroupTable_of_B (by decide)

set_option maxRecDepth 100000 in
theorem quatTable_isGroupTable : IsGroupTable quatTable 8 :=
  isGroupTable_of_B (by decide +kernel)

/-- the quaternion group is not abelian, the Klein group is: the two tables are really different objects -/
example : entry quatTable 1 2 ≠ entry quatTable 2 1 ∧ entry kleinTable 1 2 = entry kleinTable 2 1 := by decide

/-! ## 5. alternating group

The code selects the even permutations by the parity of `Σ (cycle length − 1)` over the cycles that
`permutation_to_cycle_notation` finds (`cycleEven`, `cycles`, `cycleFrom` in the model).  `NumqiProofs/FinGroupAlt.lean`
proves, for every `n`, that the walk of `cycleFrom` closes, that the cycles found are pairwise disjoint and cover
`0..n-1`, that the permutation is the product of the cyclic shifts on them, and hence that this parity is Mathlib's
`Equiv.Perm.sign`. -/

/-- **the filter of the code is the sign**: a tuple is kept iff it is a rearrangement of `0..n-1` whose permutation
`i ↦ p[i]` of `Fin n` has sign `+1`. -/
theorem altPerms_eq_sign {n : Nat} {p : List Nat} :
    p ∈ altPerms n ↔ ∃ hp : p.Perm (List.range n), Equiv.Perm.sign (permOf hp) = 1 := by
  simp only [altPerms, List.mem_filter, mem_perms]
  constructor
  · rintro ⟨hp, he⟩; exact ⟨hp, (cycleEven_iff_sign' hp).1 he⟩
  · rintro ⟨hp, hs⟩; exact ⟨hp, (cycleEven_iff_sign' hp).2 hs⟩

theorem mem_altPerms {n : Nat} {p : List Nat} : p ∈ altPerms n ↔ p.Perm (List.range n) ∧ cycleEven p = true := by
  simp [altPerms, List.mem_filter, mem_perms]

/-- **index 2**: exactly `n!/2` tuples are kept (`n ≥ 2`) -/
theorem altPerms_length (n : Nat) (hn : 2 ≤ n) : (altPerms n).length = n ! / 2 := by
  have := two_mul_length_altPerms hn
  rw [perms_length] at this
  omega

/-- **`get_symmetric_group_cayley_table(n, alternating=True)` is a group table of order `n!/2`, for every `n ≥ 2`.** -/
theorem altTable_isGroupTable (n : Nat) (hn : 2 ≤ n) : IsGroupTable (altTable n) (n ! / 2) := by
  rw [← altPerms_length n hn]
  refine tableOf_isGroupTable (altPerms n) compose ((nodup_perms n).filter _) ?_ ?_ (List.range n) ?_ ?_ ?_
  · intro a ha b hb
    obtain ⟨ha1, ha2⟩ := mem_altPerms.1 ha
    obtain ⟨hb1, hb2⟩ := mem_altPerms.1 hb
    exact mem_altPerms.2 ⟨compose_perm ha1 hb1, cycleEven_compose ha1 hb1 ha2 hb2⟩
  · intro a _ b hb c hc
    exact compose_assoc (perm_length (mem_altPerms.1 hb).1) (fun x hx => perm_lt (mem_altPerms.1 hc).1 hx)
  · exact mem_altPerms.2 ⟨List.Perm.refl _, cycleEven_range n⟩
  · intro a ha
    exact ⟨compose_range_left (fun x hx => perm_lt (mem_altPerms.1 ha).1 hx),
      compose_range_right (perm_length (mem_altPerms.1 ha).1)⟩
  · intro a ha
    obtain ⟨hp, he⟩ := mem_altPerms.1 ha
    exact ⟨invPerm n a, mem_altPerms.2 ⟨invPerm_perm hp, cycleEven_invPerm hp he⟩,
      compose_invPerm_right hp, compose_invPerm_left hp⟩

/-- the filter is not trivial: `(0 1)` is rejected, the 3-cycle is kept, `A_4` has 12 elements -/
example : cycleEven [1, 0, 2] = false ∧ cycleEven [1, 2, 0] = true ∧ (altPerms 4).length = 12 := by decide

/-! ## 6. left regular form: a faithful homomorphism into permutation matrices

for **any** group table (so for all of the above), over any semiring `R` (ℤ for the code's `int64`). -/

section leftRegular
variable {R : Type*} [Semiring R] {T : Table} {N : Nat}

/-- `cayley_table_to_left_regular_form(T)[g]` as a matrix over `R` -/
def leftReg (R : Type*) [Semiring R] (T : Table) (N : Nat) (g : Fin N) : Matrix (Fin N) (Fin N) R :=
  fun r c => ((leftRegEntry T g.val r.val c.val : Nat) : R)

/-- the product of the group, on `Fin N` -/
def mulFin (h : IsGroupTable T N) (g k : Fin N) : Fin N := ⟨entry T g.val k.val, h.closed _ _ g.isLt k.isLt⟩

theorem leftReg_apply (g r c : Fin N) :
    leftReg R T N g r c = if r.val = entry T g.val c.val then 1 else 0 := by
  simp [leftReg, leftRegEntry]

/-- **`L(g)·L(k) = L(g·k)`** -/
theorem leftRegular_mul (h : IsGroupTable T N) (g k : Fin N) :
    leftReg R T N (mulFin h g k) = leftReg R T N g * leftReg R T N k := by
  ext r c
  rw [Matrix.mul_apply, Finset.sum_eq_single (mulFin h k c)]
  · simp only [leftReg_apply, mulFin]
    rw [h.assoc _ _ _ g.isLt k.isLt c.isLt]
    simp
  · intro x _ hx
    rw [leftReg_apply (g := k)]
    have : ¬ x.val = entry T k.val c.val := fun e => hx (Fin.ext e)
    simp [this]
  · intro hne; exact absurd (Finset.mem_univ _) hne

/-- **the identity element is mapped to the identity matrix** -/
theorem leftRegular_one (e : Fin N) (he : ∀ i, i < N → entry T e.val i = i) : leftReg R T N e = 1 := by
  ext r c
  rw [leftReg_apply, he c.val c.isLt, Matrix.one_apply]
  simp [Fin.ext_iff]

/-- **faithful**: different elements have different matrices (needs `0 ≠ 1` in `R`) -/
theorem leftRegular_injective [Nontrivial R] (h : IsGroupTable T N) : Function.Injective (leftReg R T N) := by
  intro g k hgk
  obtain ⟨e, he, hid, _⟩ := h.ident
  have := congrFun (congrFun hgk g) ⟨e, he⟩
  rw [leftReg_apply, leftReg_apply] at this
  simp only [(hid g.val g.isLt).2, (hid k.val k.isLt).2, if_true] at this
  by_contra hne
  have : ¬ g.val = k.val := fun e => hne (Fin.ext e)
  simp_all

/-- **a group table is a group**: there is a `Group` structure on `Fin N` whose product is the table look-up
(so `IsGroupTable` is not a weaker, table-specific notion) -/
theorem exists_group_of_isGroupTable (h : IsGroupTable T N) :
    ∃ G : Group (Fin N), ∀ g k : Fin N, (G.mul g k).val = entry T g.val k.val := by
  obtain ⟨e, he, hid, hinv⟩ := h.ident
  choose! inv hinv_lt hinv_r hinv_l using hinv
  let one : Fin N := ⟨e, he⟩
  let invF : Fin N → Fin N := fun g => ⟨inv g.val, hinv_lt g.val g.isLt⟩
  refine ⟨@Group.ofLeftAxioms (Fin N) ⟨mulFin h⟩ ⟨invF⟩ ⟨one⟩ ?_ ?_ ?_, fun g k => rfl⟩
  · intro a b c
    exact Fin.ext (h.assoc _ _ _ a.isLt b.isLt c.isLt)
  · intro a
    exact Fin.ext (hid a.val a.isLt).1
  · intro a
    exact Fin.ext (hinv_l a.val a.isLt)

/-- left cancellation in a group table -/
theorem isGroupTable_left_cancel (h : IsGroupTable T N) {g c c' : Nat} (hg : g < N) (hc : c < N) (hc' : c' < N)
    (heq : entry T g c = entry T g c') : c = c' := by
  obtain ⟨e, he, hid, hinv⟩ := h.ident
  obtain ⟨j, hj, _, hjg⟩ := hinv g hg
  have h1 := h.assoc j g c hj hg hc
  have h2 := h.assoc j g c' hj hg hc'
  rw [hjg, (hid c hc).1] at h1
  rw [hjg, (hid c' hc').1] at h2
  rw [h1, h2, heq]

/-- **permutation matrices**: `L(g)ᵀ·L(g) = 1` (every row and column has exactly one `1`) -/
theorem leftRegular_transpose_mul_self (h : IsGroupTable T N) (g : Fin N) :
    (leftReg R T N g).transpose * leftReg R T N g = 1 := by
  ext c c'
  rw [Matrix.mul_apply, Finset.sum_eq_single (mulFin h g c')]
  · simp only [Matrix.transpose_apply, leftReg_apply, mulFin, Matrix.one_apply]
    by_cases hcc : c = c'
    · subst hcc; simp
    · have : ¬ entry T g.val c'.val = entry T g.val c.val := fun e =>
        hcc (Fin.ext (isGroupTable_left_cancel h g.isLt c'.isLt c.isLt e).symm)
      simp [this, hcc]
  · intro x _ hx
    rw [leftReg_apply (c := c')]
    have : ¬ x.val = entry T g.val c'.val := fun e => hx (Fin.ext e)
    simp [this]
  · intro hne; exact absurd (Finset.mem_univ _) hne

end leftRegular

/-- the hypotheses are satisfiable: e.g. the quaternion group over ℤ, where `L` separates `i·j = k` from `j·i = -k` -/
example : leftReg ℤ quatTable 8 (mulFin quatTable_isGroupTable 1 2) = leftReg ℤ quatTable 8 1 * leftReg ℤ quatTable 8 2 :=
  leftRegular_mul quatTable_isGroupTable 1 2

/-! ## 6b. partitions: the recurrence of `get_sym_group_num_irrep` and the Young-diagram array, all `N` -/

/-- **the rows of `z0[(n,m)]` are exactly the partitions of `n` into at most `m` parts**
(non-increasing rows of length `m`, zero padded, sum `n`), **each once**. -/
theorem young_exact (m n : Nat) :
    (young m n).Nodup ∧ ∀ row, row ∈ young m n ↔ IsPartRow m n row :=
  ⟨nodup_young m n, mem_young m n⟩

/-- **the table of `_get_sym_group_num_irrep_hf0` counts them**: `z0[n,m] = #{partitions of n into ≤ m parts}`
(`= #{partitions of n with parts ≤ m}` by conjugation), for every `m ≥ 1` and every `n`
(column `m = 0` of the code's table is a literal `1` that the recurrence never reads). -/
theorem numIrrepTable_eq (m n : Nat) (hm : 1 ≤ m) : z0 m n = (young m n).length :=
  (length_young m n hm).symm

/-- **`get_sym_group_num_irrep(N)` is the number of partitions of `N`** (Mathlib's `Nat.Partition`), every `N ≥ 1`. -/
theorem numIrrep_eq_card_partition (N : Nat) (hN : 1 ≤ N) : numIrrep N = Fintype.card (Nat.Partition N) :=
  Young.numIrrep_eq_card_partition N hN

/-- **`get_sym_group_young_diagram(N)` lists exactly the partitions of `N`, each once**, and there are
`get_sym_group_num_irrep(N)` of them. -/
theorem youngDiagrams_exact (N : Nat) (hN : 1 ≤ N) :
    (youngDiagram N).Nodup ∧ (∀ row, row ∈ youngDiagram N ↔ IsPartRow N N row) ∧
      (youngDiagram N).length = numIrrep N :=
  ⟨(youngDiagram_exact N hN).1, (youngDiagram_exact N hN).2, length_youngDiagram N hN⟩

/-- the shapes handed to the tableau code are exactly the partitions of `N` as non-increasing positive lists -/
theorem shapes_exact (N : Nat) (hN : 1 ≤ N) (shape : List Nat) :
    shape ∈ shapes N ↔ shape.Pairwise (· ≥ ·) ∧ (∀ x ∈ shape, 0 < x) ∧ shape.sum = N :=
  mem_shapes N hN shape

/-- not vacuous: `p(10) = 42`, and the array for `N = 4` is the five partitions of 4 -/
example : numIrrep 10 = 42 ∧ youngDiagram 4 = [[4,0,0,0],[3,1,0,0],[2,2,0,0],[2,1,1,0],[1,1,1,1]] := by
  constructor
  · rw [← length_youngDiagram 10 (by norm_num)]; decide +kernel
  · decide

/-! ## 7. standard Young tableaux: finite table for all partitions of `N ≤ 8`

`tableauxOK λ` (model file) says: the enumeration `allTableaux λ` (model of the recursion in
`_get_all_young_tableaux_hf0`) has exactly `hookLength λ` elements (model of `get_hook_length`), which is also
the number given by the corner-removal recurrence, every element is a standard filling of `λ`, and the
elements are strictly increasing in lexicographic order (hence pairwise distinct).  The hook-length
formula itself is not in Mathlib; the finite table below is the quantifier the property states. -/

theorem lexLt_irrefl : ∀ a : List Nat, lexLt a a = false
  | [] => rfl
  | x :: xs => by simp [lexLt, lexLt_irrefl xs]

theorem lexLt_trans : ∀ a b c : List Nat, lexLt a b = true → lexLt b c = true → lexLt a c = true
  | [], [], _, h, _ => by simp [lexLt] at h
  | [], _ :: _, [], _, h => by simp [lexLt] at h
  | [], _ :: _, _ :: _, _, _ => by simp [lexLt]
  | _ :: _, [], _, h, _ => by simp [lexLt] at h
  | _ :: _, _ :: _, [], _, h => by simp [lexLt] at h
  | x :: xs, y :: ys, z :: zs, h1, h2 => by
    simp only [lexLt, Bool.or_eq_true, decide_eq_true_eq, Bool.and_eq_true, beq_iff_eq] at *
    rcases h1 with h1 | ⟨rfl, h1⟩
    · rcases h2 with h2 | ⟨rfl, _⟩
      · left; omega
      · left; exact h1
    · rcases h2 with h2 | ⟨rfl, h2⟩
      · left; exact h2
      · right; exact ⟨rfl, lexLt_trans xs ys zs h1 h2⟩

theorem nodup_of_strictLex : ∀ l : List (List Nat), strictLex l = true → l.Nodup
  | [], _ => List.nodup_nil
  | [_], _ => List.nodup_singleton _
  | a :: b :: rest, h => by
    simp only [strictLex, Bool.and_eq_true] at h
    have ih := nodup_of_strictLex (b :: rest) h.2
    have hall : ∀ l : List (List Nat), ∀ b, strictLex (b :: l) = true → ∀ c ∈ l, lexLt b c = true := by
      intro l
      induction l with
      | nil => intro b _ c hc; simp at hc
      | cons d l ihl =>
        intro b hb c hc
        simp only [strictLex, Bool.and_eq_true] at hb
        rcases List.mem_cons.1 hc with rfl | hc
        · exact hb.1
        · exact lexLt_trans _ _ _ hb.1 (ihl d hb.2 c hc)
    refine List.nodup_cons.2 ⟨?_, ih⟩
    intro hmem
    rcases List.mem_cons.1 hmem with rfl | hmem
    · rw [lexLt_irrefl] at h; simp at h
    · have := lexLt_trans _ _ _ h.1 (hall rest b h.2 a hmem)
      rw [lexLt_irrefl] at this; simp at this

/-- what `tableauxOK` gives, in plain terms -/
theorem tableauxOK_spec {shape : List Nat} (h : tableauxOK shape = true) :
    (allTableaux shape).length = hookLength shape ∧
    (allTableaux shape).length = sytCount shape.sum shape ∧
    (∀ t ∈ allTableaux shape, isStandard shape t = true) ∧
    (allTableaux shape).Nodup := by
  simp only [tableauxOK, Bool.and_eq_true, beq_iff_eq, List.all_eq_true] at h
  obtain ⟨⟨⟨h1, h2⟩, h3⟩, h4⟩ := h
  exact ⟨h1, h2, h3, (nodup_of_strictLex _ h4).of_map _⟩

private theorem tabOK_le6 : ((List.range' 1 6).all fun N => (shapes N).all tableauxOK) = true := by decide +kernel
private theorem tabOK_7 : ((shapes 7).all tableauxOK) = true := by decide +kernel
private theorem tabOK_8 : ((shapes 8).all tableauxOK) = true := by decide +kernel

/-- **for every partition `λ` of `N ≤ 8`** (`shapes N` = the rows of `get_sym_group_young_diagram(N)`):
`get_all_young_tableaux(λ)` returns exactly `get_hook_length(λ)` arrays, all standard fillings of `λ`,
pairwise distinct. -/
theorem tableaux_exact_le8 (N : Nat) (h1 : 1 ≤ N) (h8 : N ≤ 8) (shape : List Nat) (hs : shape ∈ shapes N) :
    (allTableaux shape).length = hookLength shape ∧
    (allTableaux shape).length = sytCount shape.sum shape ∧
    (∀ t ∈ allTableaux shape, isStandard shape t = true) ∧
    (allTableaux shape).Nodup := by
  apply tableauxOK_spec
  have h6 := tabOK_le6
  simp only [List.all_eq_true, List.mem_range'_1] at h6
  by_cases hN : N ≤ 6
  · exact h6 N ⟨h1, by omega⟩ shape hs
  · have : N = 7 ∨ N = 8 := by omega
    rcases this with rfl | rfl
    · exact (List.all_eq_true.1 tabOK_7) shape hs
    · exact (List.all_eq_true.1 tabOK_8) shape hs

/-! ## 7b. standard Young tableaux: every shape

`IsSYT λ t` (`NumqiProofs/YoungTabFinal.lean`): the rows of `t` have the lengths of `λ`, the entries are `0..N-1` each once,
rows increase left to right and columns top to bottom.  The theorems below are about `allTableaux` — the model of
`get_all_young_tableaux` / `_get_all_young_tableaux_hf0` with all four branches of the code (single row, single column,
hook with the `itertools.combinations` fast path and with bounds, general shape with the upper bounds from the transposed
diagram and the lower bounds handed down) — and hold for **every** shape accepted by `check_young_diagram`.  The proof
(`NumqiProofs/YoungComb.lean`, `YoungTableaux.lean`, `YoungTabCore.lean`, `YoungTabFinal.lean`) follows the code's own recursion
(first row, then the remaining rows on the remaining numbers). -/

theorem checkShape_of_valid : ∀ {shape : List Nat}, ValidShape shape → checkShape shape = true
  | [], h => absurd rfl h.1
  | [a], h => by simpa [checkShape] using h.2.1 a (by simp)
  | a :: b :: rest, h => by
    have ih := checkShape_of_valid h.tail
    simp only [checkShape, Bool.and_eq_true, decide_eq_true_eq]
    exact ⟨(List.pairwise_cons.1 h.2.2).1 b (by simp), ih⟩

theorem checkShape_of_mem_shapes (N : Nat) (hN : 1 ≤ N) (shape : List Nat) (hs : shape ∈ shapes N) : checkShape shape = true := by
  obtain ⟨h1, h2, h3⟩ := (mem_shapes N hN shape).1 hs
  refine checkShape_of_valid ⟨?_, h2, h1⟩
  rintro rfl; simp at h3; omega

/-- **soundness**: every array returned for `λ` is a standard filling of `λ` (in the form of the Boolean checker used
for the finite tables, and as the `Prop`-level predicate on the unpadded rows) -/
theorem tableaux_sound (shape : List Nat) (hc : checkShape shape = true) :
    ∀ t ∈ allTableaux shape, isStandard shape t = true ∧ IsSYT shape (cells shape t) := by
  have hv := validShape_of_check hc
  intro t ht
  rw [allTableaux_eq_pad hv, List.mem_map] at ht
  obtain ⟨t', ht', rfl⟩ := ht
  have hs := ((coreTableaux_spec hv).2 t').1 ht'
  exact ⟨isStandard_of_isSYT hs, by rw [cells_pad t' shape _ hs.rows]; exact hs⟩

/-- **distinctness**: no tableau is returned twice -/
theorem tableaux_nodup (shape : List Nat) (hc : checkShape shape = true) : (allTableaux shape).Nodup := by
  have hv := validShape_of_check hc
  rw [allTableaux_eq_pad hv]
  refine List.Nodup.map_on ?_ (coreTableaux_spec hv).1
  intro a ha b hb hab
  have h1 := (((coreTableaux_spec hv).2 a).1 ha).rows
  have h2 := (((coreTableaux_spec hv).2 b).1 hb).rows
  rw [← cells_pad a shape (shape.headD 0) h1, ← cells_pad b shape (shape.headD 0) h2, hab]

/-- **completeness**: every standard tableau of the shape is returned (as the zero-padded array the code builds) -/
theorem tableaux_complete (shape : List Nat) (hc : checkShape shape = true) (t : List (List Nat)) (ht : IsSYT shape t) :
    t.map (padTo (shape.headD 0)) ∈ allTableaux shape := by
  have hv := validShape_of_check hc
  rw [allTableaux_eq_pad hv]
  exact List.mem_map.2 ⟨t, ((coreTableaux_spec hv).2 t).2 ht, rfl⟩

/-- **the count**: `len(get_all_young_tableaux(λ)) = |SYT(λ)|`, for every shape -/
theorem tableaux_count (shape : List Nat) (hc : checkShape shape = true) :
    (allTableaux shape).length = Set.ncard {t | IsSYT shape t} := by
  have hv := validShape_of_check hc
  obtain ⟨hnd, hmem⟩ := coreTableaux_spec hv
  rw [allTableaux_eq_pad hv, List.length_map, ← List.toFinset_card_of_nodup hnd, ← Set.ncard_coe_finset]
  congr 1
  ext t
  simp [hmem]

/-- the named gap: the hook-length formula (not in Mathlib).  `get_hook_length(λ) = |SYT(λ)|` for every shape. -/
def hookLength_formula.Statement : Prop :=
  ∀ shape : List Nat, checkShape shape = true → hookLength shape = Set.ncard {t | IsSYT shape t}

/-- proved fragment: the hook-length value is the number of standard tableaux for every partition of `N ≤ 8`
(general count + the finite table of `tableaux_exact_le8`) -/
theorem hookLength_formula_le8 (N : Nat) (h1 : 1 ≤ N) (h8 : N ≤ 8) (shape : List Nat) (hs : shape ∈ shapes N) :
    hookLength shape = Set.ncard {t | IsSYT shape t} := by
  rw [← tableaux_count shape (checkShape_of_mem_shapes N h1 shape hs)]
  exact (tableaux_exact_le8 N h1 h8 shape hs).1.symm

/-- `get_hook_length` (prime-power bookkeeping `num // den`) is `N! / ∏ hooks` — for every partition of `N ≤ 10` (kernel evaluation) -/
theorem hookLength_eq_factorial_div_le10 :
    ∀ N, N ∈ List.range' 1 10 → ∀ shape ∈ shapes N, hookLength shape = shape.sum ! / (hooks shape).foldl (· * ·) 1 := by
  decide +kernel

/-- not vacuous: the three standard tableaux of (2,1) … as `IsSYT`, e.g. rows `[0,2],[1]` -/
example : IsSYT [2, 1] [[0, 2], [1]] :=
  ⟨rfl, by decide, by intro row hrow; simp at hrow; rcases hrow with rfl | rfl <;> simp [SInc],
    ⟨by intro j h1 h2; simp at h2; subst h2; simp, trivial⟩⟩

/-- not vacuous: there are 22 partitions of 8, and the shape (4,3,1) has 70 standard tableaux -/
example : (shapes 8).length = 22 ∧ [4, 3, 1] ∈ shapes 8 ∧ (allTableaux [4, 3, 1]).length = 70 := by decide +kernel

end Numqi.C14
