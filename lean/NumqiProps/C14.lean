/-
C14 — finite-group tables are groups; partition and tableau counts are exact.

Property theorems only (helpers: `NumqiProofs/FinGroupLemmas.lean`, `FinGroupPerm.lean`, …).
All statements are about the constants of `NumqiModel/FinGroup.lean` / `NumqiModel/Young.lean`
that `Driver/C14.lean` executes.
-/
import NumqiProofs.FinGroupPerm
import NumqiModel.Young
import Mathlib.Data.Nat.Totient
import Mathlib.Data.Nat.Factorial.Basic
import Mathlib.Data.Int.GCD
import Mathlib.Data.Matrix.Mul

namespace Numqi.C14
open Numqi Numqi.FinGroup Numqi.Young
open scoped Nat

/-! ## 1. the symmetric group: `itertools.permutations`, composition, look-up -/

/-- **`itertools.permutations(range n)` is complete and duplicate-free**: the model lists exactly the
rearrangements of `0..n-1`, each once. -/
theorem perms_complete_nodup (n : Nat) :
    (perms n).Nodup ∧ ∀ p : List Nat, p ∈ perms n ↔ p.Perm (List.range n) :=
  ⟨nodup_perms n, fun _ => mem_perms⟩

private theorem length_permsAux (k : Nat) : ∀ l : List Nat, l.length = k → (permsAux k l).length = k ! := by
  induction k with
  | zero => intro l _; simp [permsAux]
  | succ k ih =>
    intro l hl
    simp only [permsAux, List.length_flatMap, List.length_map]
    have : (l.map fun a => (permsAux k (l.erase a)).length) = l.map fun _ => k ! := by
      apply List.map_congr_left
      intro a ha
      exact ih _ (by rw [List.length_erase_of_mem ha]; omega)
    rw [this, List.map_const', List.sum_replicate, hl, Nat.factorial_succ, smul_eq_mul]

/-- there are `n!` of them -/
theorem perms_length (n : Nat) : (perms n).length = n ! := length_permsAux n _ List.length_range

/-- **what the table entry is**: `symTable n [i][j]` is the index of `perm_i ∘ perm_j` (`k ↦ perm_i[perm_j[k]]`). -/
theorem symTable_entry (n i j : Nat) (hi : i < (perms n).length) (hj : j < (perms n).length) :
    entry (symTable n) i j = (perms n).idxOf (compose (perms n)[i] (perms n)[j]) :=
  entry_tableOf _ _ hi hj

/-- **`get_symmetric_group_cayley_table(n)` is a group table of order `n!`, for every `n`.** -/
theorem symTable_isGroupTable (n : Nat) : IsGroupTable (symTable n) n ! := by
  rw [← perms_length n]
  refine tableOf_isGroupTable (perms n) compose (nodup_perms n) ?_ ?_ (List.range n) ?_ ?_ ?_
  · intro a ha b hb
    exact mem_perms.2 (compose_perm (mem_perms.1 ha) (mem_perms.1 hb))
  · intro a _ b hb c hc
    exact compose_assoc (perm_length (mem_perms.1 hb)) (fun x hx => perm_lt (mem_perms.1 hc) hx)
  · exact mem_perms.2 (List.Perm.refl _)
  · intro a ha
    exact ⟨compose_range_left (fun x hx => perm_lt (mem_perms.1 ha) hx),
      compose_range_right (perm_length (mem_perms.1 ha))⟩
  · intro a ha
    have hp := mem_perms.1 ha
    exact ⟨invPerm n a, mem_perms.2 (invPerm_perm hp), compose_invPerm_right hp, compose_invPerm_left hp⟩

/-! ## 2. cyclic group -/

/-- **`get_cyclic_group_cayley_table(n)` is a group table of order `n`** (`n ≥ 1`; the code asserts `n ≥ 2`). -/
theorem cycTable_isGroupTable (n : Nat) (hn : 1 ≤ n) : IsGroupTable (cycTable n) n := by
  have hent : ∀ i j, i < n → j < n → entry (cycTable n) i j = (i + j) % n := by
    intro i j hi hj
    simp [entry, cycTable, List.getD_eq_getElem?_getD, hi, hj]
  have hlt : ∀ a, a % n < n := fun a => Nat.mod_lt _ (by omega)
  refine ⟨by simp [cycTable], ?_, ?_, ?_, 0, by omega, ?_, ?_⟩
  · intro i hi
    simp [cycTable, List.getD_eq_getElem?_getD, hi]
  · intro i j hi hj; rw [hent i j hi hj]; exact hlt _
  · intro i j k hi hj hk
    rw [hent i j hi hj, hent j k hj hk, hent _ k (hlt _) hk, hent i _ hi (hlt _)]
    simp [Nat.add_mod, Nat.add_assoc]
  · intro i hi
    rw [hent 0 i (by omega) hi, hent i 0 hi (by omega)]
    simp [Nat.mod_eq_of_lt hi]
  · intro i hi
    refine ⟨(n - i) % n, hlt _, ?_, ?_⟩
    · rw [hent i _ hi (hlt _)]
      rw [Nat.add_mod_mod, Nat.add_sub_cancel' (by omega), Nat.mod_self]
    · rw [hent _ i (hlt _) hi]
      rw [Nat.mod_add_mod, Nat.sub_add_cancel (by omega), Nat.mod_self]

/-! ## 3. multiplicative group of units mod `n` -/

theorem mem_units {n x : Nat} : x ∈ units n ↔ 1 ≤ x ∧ x < n ∧ Nat.Coprime n x := by
  simp only [units, List.mem_filter, List.mem_range'_1, beq_iff_eq, Nat.Coprime]
  constructor
  · rintro ⟨⟨h1, h2⟩, h3⟩; exact ⟨h1, by omega, h3⟩
  · rintro ⟨h1, h2, h3⟩; exact ⟨⟨h1, by omega⟩, h3⟩

private theorem coprime_mod {n a : Nat} (h : Nat.Coprime n a) : Nat.Coprime n (a % n) := by
  unfold Nat.Coprime at *
  rw [Nat.gcd_comm, ← Nat.gcd_rec, h]

private theorem mulmod_mem_units {n x y : Nat} (hn : 2 ≤ n) (hx : x ∈ units n) (hy : y ∈ units n) :
    (x * y) % n ∈ units n := by
  rw [mem_units] at *
  have hc : Nat.Coprime n ((x * y) % n) := coprime_mod (hx.2.2.mul_right hy.2.2)
  refine ⟨?_, Nat.mod_lt _ (by omega), hc⟩
  by_contra h0
  have h0 : (x * y) % n = 0 := by omega
  rw [h0] at hc
  simp [Nat.Coprime] at hc
  omega

/-- the element list has `φ(n)` entries -/
theorem units_length (n : Nat) (hn : 2 ≤ n) : (units n).length = Nat.totient n := by
  rw [Nat.totient_eq_card_coprime]
  have hnd : (units n).Nodup := (List.nodup_range' (s := 1) (n := n - 1)).filter _
  rw [← List.toFinset_card_of_nodup hnd]
  congr 1
  ext x
  simp only [List.mem_toFinset, mem_units, Finset.mem_filter, Finset.mem_range]
  constructor
  · rintro ⟨_, h2, h3⟩; exact ⟨h2, h3⟩
  · rintro ⟨h2, h3⟩
    refine ⟨?_, h2, h3⟩
    by_contra h0
    have h0 : x = 0 := by omega
    subst h0
    simp [Nat.Coprime] at h3
    omega

/-- **`get_multiplicative_group_cayley_table(n)` is a group table of order `φ(n)`** (`n ≥ 2`; the code asserts `n ≥ 3`). -/
theorem mulTable_isGroupTable (n : Nat) (hn : 2 ≤ n) : IsGroupTable (mulTable n) (Nat.totient n) := by
  rw [← units_length n hn]
  have hnd : (units n).Nodup := (List.nodup_range' (s := 1) (n := n - 1)).filter _
  have h1 : 1 ∈ units n := mem_units.2 ⟨le_refl _, by omega, Nat.coprime_one_right n⟩
  refine tableOf_isGroupTable (units n) (fun x y => (x * y) % n) hnd ?_ ?_ 1 h1 ?_ ?_
  · intro a ha b hb; exact mulmod_mem_units hn ha hb
  · intro a _ b _ c _
    show (a * b % n * c) % n = (a * (b * c % n)) % n
    rw [Nat.mod_mul_mod, Nat.mul_mod_mod, Nat.mul_assoc]
  · intro a ha
    have := (mem_units.1 ha).2.1
    simp [Nat.mod_eq_of_lt this]
  · intro a ha
    have ha' := mem_units.1 ha
    obtain ⟨m, hm, hm1⟩ := Nat.exists_mul_mod_eq_one_of_coprime ha'.2.2.symm (by omega : 1 < n)
    have hmc : Nat.Coprime n m := by
      have : Nat.Coprime n (a * m) := by
        have h := coprime_mod (n := n) (a := 1) (Nat.coprime_one_right n)
        unfold Nat.Coprime at *
        rw [Nat.gcd_comm, Nat.gcd_rec, hm1, Nat.gcd_comm]
        simp
      exact Nat.Coprime.coprime_mul_left_right this
    have hm0 : 1 ≤ m := by
      by_contra h0
      have h0 : m = 0 := by omega
      subst h0; simp at hm1
    refine ⟨m, mem_units.2 ⟨hm0, hm, hmc⟩, hm1, ?_⟩
    show (m * a) % n = 1
    rw [Nat.mul_comm]; exact hm1

/-! ## 4. Klein four-group and quaternion group (literal tables) -/

theorem kleinTable_isGroupTable : IsGroupTable kleinTable 4 :=
  isGroupTable_of_B (by decide)

set_option maxRecDepth 100000 in
theorem quatTable_isGroupTable : IsGroupTable quatTable 8 :=
  isGroupTable_of_B (by decide +kernel)

/-- the quaternion group is not abelian, the Klein group is: the two tables are really different objects -/
example : entry quatTable 1 2 ≠ entry quatTable 2 1 ∧ entry kleinTable 1 2 = entry kleinTable 2 1 := by decide

end Numqi.C14
