/-
C08 — Pauli encodings are faithful: conversions bijective, algebra exact.

Property theorems only (helper lemmas live in `NumqiProofs/PauliLemmas.lean`).
All statements are for every number of qubits `n` and every commutative ring `R` with a
square root `I` of `-1` (instantiate `R = ℂ`, `I = Complex.I`).
-/
import NumqiProofs.PauliLemmas
import Mathlib.Data.Complex.Basic

namespace Numqi.C08
open Numqi Numqi.Pauli

variable {n : Nat} {R : Type*} [CommRing R]

/-- the operator `i^(2 s0 + s1) X^x Z^z` as a matrix over the computational basis `Bits n`:
`⟨b'| P |b⟩ = I^(k + 2 z·b)` if `b' = b ⊕ x`, else `0`. -/
def mat (I : R) (p : Pauli n) : Matrix (Bits n) (Bits n) R :=
  fun b' b => match p.matExp b' b with
    | some k => I ^ k
    | none => 0

theorem mat_apply {I : R} (hI : I * I = -1) (p : Pauli n) (b' b : Bits n) :
    mat I p b' b = if b' = Bits.xor b p.x then I ^ (p.phaseExp + 2 * Bits.dotN p.z b) else 0 := by
  unfold mat matExp
  by_cases h : b' = Bits.xor b p.x
  · have : Bits.beq b' (Bits.xor b p.x) = true := (Bits.beq_iff _ _).2 h
    rw [if_pos this, if_pos h]
    exact ipow_mod hI _
  · have : Bits.beq b' (Bits.xor b p.x) = false := by
      rw [Bool.eq_false_iff]; exact fun e => h ((Bits.beq_iff _ _).1 e)
    simp [this, h]

/-- **Product on the binary form = matrix product, phase included.** -/
theorem mat_mul {I : R} (hI : I * I = -1) (p q : Pauli n) :
    mat I (p.mul q) = mat I p * mat I q := by
  ext b' b
  rw [Matrix.mul_apply, Finset.sum_eq_single (Bits.xor b q.x)]
  · rw [mat_apply hI, mat_apply hI, mat_apply hI]
    have hx : Bits.xor b (p.mul q).x = Bits.xor (Bits.xor b q.x) p.x := by
      funext i; simp only [Pauli.mul, Bits.xor]
      cases b i <;> cases p.x i <;> cases q.x i <;> rfl
    rw [hx]
    by_cases h : b' = Bits.xor (Bits.xor b q.x) p.x
    · simp only [h, if_true, ← pow_add]
      apply ipow_congr hI
      have h1 := Bits.dotN_xor_right p.z b q.x
      have h2 := Bits.dotN_xor_left p.z q.z b
      have hz : (p.mul q).z = Bits.xor p.z q.z := rfl
      rw [hz]
      simp only [Pauli.phaseExp, Pauli.mul, toNat_mod2_beq]
      generalize Bits.dotN p.z (Bits.xor b q.x) = E at *
      generalize Bits.dotN (Bits.xor p.z q.z) b = D at *
      generalize Bits.dotN p.z b = B at *
      generalize Bits.dotN q.z b = C at *
      generalize Bits.dotN p.z q.x = A at *
      cases p.s0 <;> cases p.s1 <;> cases q.s0 <;> cases q.s1 <;> simp <;> omega
    · simp [h]
  · intro c _ hc
    rw [mat_apply hI q, if_neg hc, mul_zero]
  · intro h; exact absurd (Finset.mem_univ _) h

/-- the identity operator -/
def one (n : Nat) : Pauli n := ⟨false, false, fun _ => false, fun _ => false⟩

theorem mat_one {I : R} (hI : I * I = -1) : mat I (one n) = 1 := by
  ext b' b
  rw [mat_apply hI, Matrix.one_apply]
  simp [one, Bits.xor_false, Pauli.phaseExp, Bits.dotN_zero_left]

/-- `inverse()` is a left inverse on the binary form … -/
theorem inv_mul (p : Pauli n) : Pauli.beq (p.inv.mul p) (one n) = true := by
  have hx : Bits.beq (Bits.xor p.x p.x) (fun _ => false) = true := (Bits.beq_iff _ _).2 (Bits.xor_self _)
  have hz : Bits.beq (Bits.xor p.z p.z) (fun _ => false) = true := (Bits.beq_iff _ _).2 (Bits.xor_self _)
  simp only [Pauli.beq, Pauli.mul, Pauli.inv, one, hx, hz, Bool.and_true, toNat_mod2_beq]
  rw [Bits.dotN_comm p.z p.x]
  generalize Bits.dotN p.x p.z = A
  cases p.s0 <;> cases p.s1 <;> simp <;> omega

/-- … hence the matrix inverse: `mat (p⁻¹) · mat p = 1`. -/
theorem mat_inv_mul {I : R} (hI : I * I = -1) (p : Pauli n) : mat I p.inv * mat I p = 1 := by
  rw [← mat_mul hI, ← mat_one hI]
  have h := inv_mul p
  simp only [Pauli.beq, Bool.and_eq_true, beq_iff_eq, Bits.beq_iff] at h
  obtain ⟨⟨⟨h0, h1⟩, hx⟩, hz⟩ := h
  ext b' b
  rw [mat_apply hI, mat_apply hI, hx, hz]
  simp only [Pauli.phaseExp, h0, h1]

theorem mat_mul_inv {I : R} (hI : I * I = -1) (p : Pauli n) : mat I p * mat I p.inv = 1 := by
  have h := mat_inv_mul hI p
  exact mul_eq_one_comm.mp h

/-- **Faithfulness**: distinct binary forms are distinct matrices (needs `1 ≠ -1` in `R`). -/
theorem mat_injective {I : R} (hI : I * I = -1) (h2 : (1 : R) ≠ -1) (p q : Pauli n)
    (h : mat I p = mat I q) : Pauli.beq p q = true := by
  have hne : ∀ k : Nat, I ^ k ≠ 0 := fun k hk => by
    have h4 : I ^ (4 * k) = 1 := by rw [← ipow_mod hI]; simp
    have : (I ^ k) ^ 4 = 1 := by rw [← pow_mul, mul_comm]; exact h4
    rw [hk] at this; simp at this; exact h2 (by rw [← this]; simp)
  -- x parts agree: look at column 0
  have hx : p.x = q.x := by
    have := congrFun (congrFun h (Bits.xor (fun _ => false) p.x)) (fun _ => false)
    rw [mat_apply hI, mat_apply hI, if_pos rfl] at this
    by_cases e : Bits.xor (fun _ => false) p.x = Bits.xor (fun _ => false) q.x
    · funext i; have := congrFun e i; simpa [Bits.xor] using this
    · rw [if_neg e] at this; exact absurd this (hne _)
  -- phases agree: entry (x, 0)
  have hph : p.phaseExp % 4 = q.phaseExp % 4 := by
    have := congrFun (congrFun h (Bits.xor (fun _ => false) p.x)) (fun _ => false)
    rw [mat_apply hI, mat_apply hI, if_pos rfl, ← hx, if_pos rfl] at this
    have := ipow_inj hI h2 this
    simpa [Bits.dotN_eq_sum] using this
  -- z parts agree: entry (e_j ⊕ x, e_j)
  have hz : p.z = q.z := by
    funext j
    let e : Bits n := fun i => decide (i = j)
    have := congrFun (congrFun h (Bits.xor e p.x)) e
    rw [mat_apply hI, mat_apply hI, if_pos rfl, ← hx, if_pos rfl] at this
    have := ipow_inj hI h2 this
    have hd : ∀ z : Bits n, Bits.dotN z e = (z j).toNat := by
      intro z; rw [Bits.dotN_eq_sum, Finset.sum_eq_single j]
      · simp [e]
      · intro i _ hi; simp [e, hi]
      · intro hj; exact absurd (Finset.mem_univ _) hj
    rw [hd, hd] at this
    revert this; cases p.z j <;> cases q.z j <;> simp <;> omega
  have h01 : p.s0 = q.s0 ∧ p.s1 = q.s1 := by
    revert hph; simp only [Pauli.phaseExp]
    cases p.s0 <;> cases p.s1 <;> cases q.s0 <;> cases q.s1 <;> simp
  simp [Pauli.beq, h01.1, h01.2, hx, hz, Bits.beq_iff]

/-- **Commutation test is exact**: `commutate_with` answers whether the matrices commute. -/
theorem commutes_iff {I : R} (hI : I * I = -1) (h2 : (1 : R) ≠ -1) (p q : Pauli n) :
    p.commutes q = true ↔ mat I p * mat I q = mat I q * mat I p := by
  rw [← mat_mul hI, ← mat_mul hI]
  have hxz : (p.mul q).x = (q.mul p).x ∧ (p.mul q).z = (q.mul p).z := by
    constructor <;> funext i <;> simp only [Pauli.mul, Bits.xor] <;> exact Bool.xor_comm _ _
  constructor
  · intro hc
    ext b' b
    rw [mat_apply hI, mat_apply hI, hxz.1, hxz.2]
    by_cases hb : b' = Bits.xor b (q.mul p).x
    · simp only [hb, if_true]
      apply ipow_congr hI
      simp only [Pauli.commutes, beq_iff_eq] at hc
      simp only [Pauli.phaseExp, Pauli.mul, toNat_mod2_beq]
      rw [Bits.dotN_comm p.x q.z] at hc
      generalize Bits.dotN p.z q.x = A at *
      generalize Bits.dotN q.z p.x = B at *
      generalize Bits.dotN (Bits.xor q.z p.z) b = C at *
      cases p.s0 <;> cases p.s1 <;> cases q.s0 <;> cases q.s1 <;> simp <;> omega
    · simp [hb]
  · intro hm
    have := mat_injective hI h2 _ _ hm
    simp only [Pauli.beq, Bool.and_eq_true, beq_iff_eq] at this
    obtain ⟨⟨⟨h0, _⟩, _⟩, _⟩ := this
    simp only [Pauli.commutes, beq_iff_eq]
    simp only [Pauli.mul] at h0
    rw [Bits.dotN_comm p.x q.z]
    generalize Bits.dotN p.z q.x = A at *
    generalize Bits.dotN q.z p.x = B at *
    revert h0
    cases p.s0 <;> cases p.s1 <;> cases q.s0 <;> cases q.s1 <;> simp <;> omega

/-! ### conversions -/

theorem symOfBits_lt (x z : Bool) : symOfBits x z < 4 := by cases x <;> cases z <;> decide

theorem symX_symOfBits (x z : Bool) : symX (symOfBits x z) = x := by cases x <;> cases z <;> rfl
theorem symZ_symOfBits (x z : Bool) : symZ (symOfBits x z) = z := by cases x <;> cases z <;> rfl

theorem symOfBits_symXZ {s : Nat} (h : s < 4) : symOfBits (symX s) (symZ s) = s := by
  interval_cases s <;> rfl

/-- **string → binary → string is the identity** (`pauli_str_to_F2 ∘ pauli_F2_to_str`). -/
theorem ofStr_toStr (p : Pauli n) : Pauli.beq (ofStr n p.toStr.1 p.toStr.2) p = true := by
  have hx : (fun i : Fin n => symX ((p.toStr.1).getD i.val 0)) = p.x := by
    funext i; simp [Pauli.toStr, symX_symOfBits]
  have hz : (fun i : Fin n => symZ ((p.toStr.1).getD i.val 0)) = p.z := by
    funext i; simp [Pauli.toStr, symZ_symOfBits]
  unfold Pauli.ofStr
  simp only [hx, hz, Pauli.beq, (Bits.beq_iff _ _).2 rfl, Bool.and_true]
  simp only [Pauli.toStr, Pauli.phaseExp]
  generalize Bits.dotN p.x p.z = A
  cases p.s0 <;> cases p.s1 <;> simp <;> omega

/-- **binary → string → binary is the identity** on well-formed strings. -/
theorem toStr_ofStr (syms : List Nat) (e : Nat) (hlen : syms.length = n)
    (hs : ∀ s ∈ syms, s < 4) (he : e < 4) : (ofStr n syms e).toStr = (syms, e) := by
  unfold Pauli.toStr Pauli.ofStr
  refine Prod.ext ?_ ?_
  · apply List.ext_getElem
    · simp [hlen]
    · intro i h1 h2
      have hi : i < syms.length := h2
      have := hs syms[i] (List.getElem_mem hi)
      simp [List.getD_eq_getElem?_getD, List.getElem?_eq_getElem hi, symOfBits_symXZ this]
  · simp only [Pauli.phaseExp]
    generalize Bits.dotN _ _ = A
    have h4 := Nat.mod_lt (A + e) (by norm_num : 4 > 0)
    generalize hT : (A + e) % 4 = T at *
    interval_cases T <;> simp <;> omega

theorem symsToIndex_append (l : List Nat) (s : Nat) :
    symsToIndex (l ++ [s]) = symsToIndex l * 4 + s := by
  simp [symsToIndex, List.foldl_append]

/-- **index → string → index** for every index below `4^k`. -/
theorem symsToIndex_indexToSyms (k idx : Nat) (h : idx < 4 ^ k) :
    symsToIndex (indexToSyms k idx) = idx := by
  induction k generalizing idx with
  | zero => simp [indexToSyms, symsToIndex] at *; omega
  | succ k ih =>
    rw [indexToSyms, symsToIndex_append, ih (idx / 4) (by rw [pow_succ] at h; omega)]
    omega

theorem indexToSyms_length (k idx : Nat) : (indexToSyms k idx).length = k := by
  induction k generalizing idx with
  | zero => rfl
  | succ k ih => simp [indexToSyms, ih]

theorem indexToSyms_lt (k idx : Nat) : ∀ s ∈ indexToSyms k idx, s < 4 := by
  induction k generalizing idx with
  | zero => simp [indexToSyms]
  | succ k ih =>
    intro s hs; simp only [indexToSyms, List.mem_append, List.mem_singleton] at hs
    rcases hs with hs | hs
    · exact ih _ _ hs
    · omega

/-- the index of a string of `k` symbols is below `4^k` -/
theorem symsToIndex_lt (l : List Nat) (hs : ∀ s ∈ l, s < 4) : symsToIndex l < 4 ^ l.length := by
  induction l using List.reverseRecOn with
  | nil => simp [symsToIndex]
  | append_singleton l s ih =>
    rw [symsToIndex_append, List.length_append, List.length_singleton, pow_succ]
    have := ih (fun t ht => hs t (List.mem_append_left _ ht))
    have := hs s (by simp)
    omega

/-- **string → index → string** on well-formed strings. -/
theorem indexToSyms_symsToIndex (l : List Nat) (hs : ∀ s ∈ l, s < 4) :
    indexToSyms l.length (symsToIndex l) = l := by
  induction l using List.reverseRecOn with
  | nil => rfl
  | append_singleton l s ih =>
    have h1 := ih (fun t ht => hs t (List.mem_append_left _ ht))
    have h2 := hs s (by simp)
    rw [symsToIndex_append, List.length_append, List.length_singleton, indexToSyms]
    have : (symsToIndex l * 4 + s) / 4 = symsToIndex l := by omega
    have : (symsToIndex l * 4 + s) % 4 = s := by omega
    simp [*]

/-- **index → binary → index** (`pauli_F2_to_index ∘ pauli_index_to_F2`). -/
theorem toIndex_ofIndex (idx : Nat) (h : idx < 4 ^ n) : (ofIndex n idx).toIndex = idx := by
  unfold Pauli.toIndex Pauli.ofIndex
  rw [toStr_ofStr _ _ (indexToSyms_length n idx) (indexToSyms_lt n idx) (by norm_num)]
  exact symsToIndex_indexToSyms n idx h

/-- the index of every operator is in range -/
theorem toIndex_lt (p : Pauli n) : p.toIndex < 4 ^ n := by
  have := symsToIndex_lt p.toStr.1 (by
    intro s hs; simp only [Pauli.toStr, List.mem_map] at hs
    obtain ⟨i, _, rfl⟩ := hs; exact symOfBits_lt _ _)
  simpa [Pauli.toIndex, Pauli.toStr] using this

/-! ### dense matrix: Kronecker-factor form = functional form -/

private theorem foldl_none (l : List (Fin n)) (f : Fin n → Option Nat) :
    l.foldl (fun acc i => match acc, f i with
      | some a, some c => some ((a + c) % 4)
      | _, _ => none) none = none := by
  induction l with
  | nil => rfl
  | cons i l ih => simpa [List.foldl_cons] using ih

private theorem foldl_some (l : List (Fin n)) (ok : Fin n → Bool) (c : Fin n → Nat) (a : Nat) (ha : a < 4) :
    l.foldl (fun acc i => match acc, (if ok i then some (c i) else none) with
      | some a, some c => some ((a + c) % 4)
      | _, _ => none) (some a)
    = if l.all ok then some ((a + (l.map c).sum) % 4) else none := by
  induction l generalizing a with
  | nil => simp; omega
  | cons i l ih =>
    rw [List.foldl_cons]
    by_cases h : ok i
    · simp only [h, if_true, List.all_cons, Bool.true_and, List.map_cons, List.sum_cons]
      rw [ih _ (Nat.mod_lt _ (by norm_num))]
      congr 2
      omega
    · simp only [h, List.all_cons, Bool.false_and]
      exact foldl_none l _

/-- **`full_matrix` (sign × Kronecker product of the one-qubit factors) is the operator
`i^(2 s0+s1) X^x Z^z`**, entry by entry, for every `n`. -/
theorem fullMatrixExp_eq_matExp (p : Pauli n) (b' b : Bits n) :
    p.fullMatrixExp b' b = p.matExp b' b := by
  unfold Pauli.fullMatrixExp Pauli.matExp Pauli.localExp
  have := foldl_some (List.finRange n) (fun i => b' i == (b i ^^ p.x i))
    (fun i => (p.x i && p.z i).toNat + 2 * (p.z i && b i).toNat) p.toStr.2
    (by simp only [Pauli.toStr]; exact Nat.mod_lt _ (by norm_num))
  refine Eq.trans this ?_
  have hall : ((List.finRange n).all fun i => b' i == (b i ^^ p.x i)) = Bits.beq b' (Bits.xor b p.x) := rfl
  rw [hall]
  by_cases h : Bits.beq b' (Bits.xor b p.x) = true
  · simp only [h, if_true]
    congr 1
    have hs : ((List.finRange n).map fun i => (p.x i && p.z i).toNat + 2 * (p.z i && b i).toNat).sum
        = Bits.dotN p.x p.z + 2 * Bits.dotN p.z b := by
      rw [← Fin.sum_univ_def, Finset.sum_add_distrib, ← Finset.mul_sum, Bits.dotN_eq_sum, Bits.dotN_eq_sum]
    rw [hs]
    simp only [Pauli.toStr]
    omega
  · simp [h]

/-! ### adjoint and Hermiticity (needs a star structure: `R = ℂ`, `I = Complex.I`) -/

theorem xor_xor_cancel (b x : Bits n) : Bits.xor (Bits.xor b x) x = b := by
  funext i; simp [Bits.xor]

/-- **`inverse()` is the adjoint**: Pauli operators are unitary. -/
theorem mat_conjTranspose [StarRing R] {I : R} (hI : I * I = -1) (hs : star I = -I) (p : Pauli n) :
    (mat I p).conjTranspose = mat I p.inv := by
  ext b' b
  rw [Matrix.conjTranspose_apply, mat_apply hI, mat_apply hI]
  have hx : p.inv.x = p.x := rfl
  have hz : p.inv.z = p.z := rfl
  rw [hx, hz]
  by_cases h : b' = Bits.xor b p.x
  · have h' : b = Bits.xor b' p.x := by rw [h, xor_xor_cancel]
    rw [if_pos h', if_pos h, star_pow, hs]
    have h3 : (-I) = I ^ 3 := by
      have : I ^ 3 = (I * I) * I := by ring
      rw [this, hI]; ring
    rw [h3, ← pow_mul]
    apply ipow_congr hI
    have hd := Bits.dotN_xor_right p.z b p.x
    rw [← h] at hd
    rw [Bits.dotN_comm p.z p.x] at hd
    simp only [Pauli.phaseExp, Pauli.inv, toNat_mod2_beq]
    generalize Bits.dotN p.z b' = E at *
    generalize Bits.dotN p.z b = B at *
    generalize Bits.dotN p.x p.z = A at *
    cases p.s0 <;> cases p.s1 <;> simp <;> omega
  · have h' : ¬ b = Bits.xor b' p.x := fun e => h (by rw [e, xor_xor_cancel])
    simp [h, h']

/-- **Hermiticity flag** used by `rand_pauli(is_hermitian=…)`: the matrix is Hermitian exactly
when `s1 = x·z mod 2`. -/
theorem hermitian_iff [StarRing R] {I : R} (hI : I * I = -1) (hs : star I = -I) (h2 : (1 : R) ≠ -1)
    (p : Pauli n) : (mat I p).conjTranspose = mat I p ↔ p.hermitianFlag = true := by
  rw [mat_conjTranspose hI hs]
  constructor
  · intro h
    have := mat_injective hI h2 _ _ h
    simp only [Pauli.beq, Bool.and_eq_true, beq_iff_eq] at this
    obtain ⟨⟨⟨h0, _⟩, _⟩, _⟩ := this
    simp only [Pauli.inv] at h0
    simp only [Pauli.hermitianFlag, beq_iff_eq]
    revert h0
    generalize Bits.dotN p.x p.z = A
    cases p.s0 <;> cases p.s1 <;> simp <;> omega
  · intro h
    have : p.inv = p := by
      simp only [Pauli.hermitianFlag, beq_iff_eq] at h
      have h0 : p.inv.s0 = p.s0 := by
        simp only [Pauli.inv]
        revert h
        generalize Bits.dotN p.x p.z = A
        cases p.s0 <;> cases p.s1 <;> simp <;> omega
      cases p; simp only [Pauli.inv] at h0 ⊢; simp [h0]
    rw [this]

/-! ### the hypotheses are satisfiable, the statements are not vacuous -/

/-- the ring hypotheses hold for `R = ℂ`, `I = Complex.I` -/
example : Complex.I * Complex.I = -1 ∧ star Complex.I = -Complex.I ∧ (1 : ℂ) ≠ -1 := by
  refine ⟨Complex.I_mul_I, Complex.conj_I, ?_⟩
  intro h; have := congrArg Complex.re h; norm_num at this

/-- so e.g. the homomorphism law holds for complex matrices -/
example (p q : Pauli 3) : mat Complex.I (p.mul q) = mat Complex.I p * mat Complex.I q :=
  mat_mul Complex.I_mul_I p q

/-- a concrete non-commuting pair: X and Z on one qubit -/
example :
    let X : Pauli 1 := ⟨false, false, fun _ => true, fun _ => false⟩
    let Z : Pauli 1 := ⟨false, false, fun _ => false, fun _ => true⟩
    X.commutes Z = false ∧ (X.mul Z).toF2List = [false, false, true, true]
      ∧ (Z.mul X).toF2List = [true, false, true, true] := by decide

/-- a concrete round trip through the string form with a non-trivial phase: `-i·YZ` -/
example : (ofStr 2 [2, 3] 3).toStr = ([2, 3], 3) := by decide

end Numqi.C08
