/-
Bridges between the C05 constants and the C06 constants (ent2's `NumqiModel/Boundary.lean`, `NumqiProofs/BoundaryLemmas.lean`,
imported read-only):
* `symExt_isSymExt`, `sep_subset_kext` — the candidate extension of a separable state (`C05.symExt`, theorem `sep_symext`) is a symmetric
  extension in the sense of C06 (`Boundary.IsSymExt`, last copy kept): SEP ⊆ k-extendible for every `k`;
* `ptB_models_agree` — the two models of the two-party partial transpose (`Ent.ptB`: numpy reshape/transpose on flat indices, executed by
  the C05 driver; `Boundary.ptB`: on pairs, executed by the C06 driver) agree on their common domain.
Listed in `THEOREM_FILES` of `harness/c05.py`.
-/
import NumqiProps.C05
import NumqiProofs.BoundaryLemmas

namespace Numqi.C05
open Numqi Numqi.Ent
open scoped ComplexOrder
open Matrix

variable {K : Type} [Fintype K] {dA dB : ℕ}

/-- the separable state `Σ_k p_k a_k a_kᴴ ⊗ b_k b_kᴴ` as a matrix over pairs (the index type of C06) -/
def sepState (p : K → ℝ) (a : K → Fin dA → ℂ) (b : K → Fin dB → ℂ) : Matrix (Fin dA × Fin dB) (Fin dA × Fin dB) ℂ :=
  Matrix.of fun x y => ∑ k, (p k : ℂ) * (a k x.1 * b k x.2) * star (a k y.1 * b k y.2)

/-- **SEP ⊆ k-extendible, with the explicit extension**: for normalised `b_k` and `p ≥ 0`, `C05.symExt (k+1) p a b` is a symmetric
extension (C06's `IsSymExt k`) of `sepState p a b`, for every `k` and all local dimensions. -/
theorem symExt_isSymExt (k : ℕ) (p : K → ℝ) (hp : ∀ i, 0 ≤ p i) (a : K → Fin dA → ℂ) (b : K → Fin dB → ℂ)
    (hb : ∀ i, ∑ v, b i v * star (b i v) = 1) :
    Boundary.IsSymExt k (sepState p a b) (symExt (k + 1) p a b) := by
  obtain ⟨hpsd, hperm, _, _⟩ := sep_symext k p hp a b hb
  refine ⟨hpsd, hperm, fun x y => ?_⟩
  simp only [sepState, symExt, Matrix.of_apply, Fin.prod_univ_castSucc, Fin.snoc_castSucc, Fin.snoc_last]
  rw [Finset.sum_comm]
  refine Finset.sum_congr rfl fun i _ => ?_
  have h1 : ∀ r : Fin k → Fin dB,
      (p i : ℂ) * (a i x.1 * ((∏ t, b i (r t)) * b i x.2)) * star (a i y.1 * ((∏ t, b i (r t)) * b i y.2))
        = ((p i : ℂ) * (a i x.1 * b i x.2) * star (a i y.1 * b i y.2)) * ∏ t, (b i (r t) * star (b i (r t))) := by
    intro r
    rw [Finset.prod_mul_distrib]
    simp only [star_mul', star_prod]
    ring
  rw [Finset.sum_congr rfl fun r _ => h1 r, ← Finset.mul_sum]
  have h2 : (∑ r : Fin k → Fin dB, ∏ t, (b i (r t) * star (b i (r t)))) = ∏ _t : Fin k, ∑ v, b i v * star (b i v) := by
    have := Finset.prod_univ_sum (fun _ : Fin k => (Finset.univ : Finset (Fin dB))) fun _ v => b i v * star (b i v)
    rw [this, Fintype.piFinset_univ]
  rw [h2, Finset.prod_congr rfl fun _ _ => hb i]
  simp

/-- **every separable state is `k`-extendible** (membership form, for use with C06's `KEXT` / `beta_mono`) -/
theorem sep_subset_kext (k : ℕ) (p : K → ℝ) (hp : ∀ i, 0 ≤ p i) (a : K → Fin dA → ℂ) (b : K → Fin dB → ℂ)
    (hb : ∀ i, ∑ v, b i v * star (b i v) = 1) : ∃ σ, Boundary.IsSymExt k (sepState p a b) σ :=
  ⟨_, symExt_isSymExt k p hp a b hb⟩

/-- **the two partial-transpose models agree**: for `F` the flat read-out of a pair-indexed matrix `M`, the numpy-style `Ent.ptB`
(C05 driver, theorem `ptB_entry`) read at the flat positions of two pairs is C06's `Boundary.ptB M` at those pairs. -/
theorem ptB_models_agree {α : Type} (M : Fin dA × Fin dB → Fin dA × Fin dB → α) (F : Nat → Nat → α)
    (hF : ∀ x y, F (Boundary.flatOfPair x) (Boundary.flatOfPair y) = M x y) (x y : Fin dA × Fin dB) :
    Ent.ptB dA dB F (Boundary.flatOfPair x) (Boundary.flatOfPair y) = Boundary.ptB M x y := by
  have hf : ∀ z : Fin dA × Fin dB, Boundary.flatOfPair z = flat [dA, dB] [z.1.val, z.2.val] := by
    intro z; simp [Boundary.flatOfPair, flat, prodL]
  have h := ptB_entry dA dB F x.1.2 y.2.2 y.1.2 x.2.2
  rw [hf x, hf y, h]
  have e1 : flat [dA, dB] [x.1.val, y.2.val] = Boundary.flatOfPair (x.1, y.2) := (hf (x.1, y.2)).symm
  have e2 : flat [dA, dB] [y.1.val, x.2.val] = Boundary.flatOfPair (y.1, x.2) := (hf (y.1, x.2)).symm
  rw [e1, e2, hF]
  rfl

/-- non-vacuity: one product term of two qubits is 1-extendible -/
example : ∃ σ, Boundary.IsSymExt 1 (sepState (fun _ : Unit => 1) (fun _ (i : Fin 2) => if i = 0 then 1 else 0)
    (fun _ (i : Fin 2) => if i = 0 then 1 else 0)) σ :=
  sep_subset_kext 1 _ (fun _ => zero_le_one) _ _ (fun _ => by simp)

end Numqi.C05
