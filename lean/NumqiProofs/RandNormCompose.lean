/-
C10 helper (validity, round 6): the composed generators of `NumqiModel/RandNorm.lean` at `K = ℂ`.
-/
import NumqiProofs.RandNormLemmas
import Mathlib.LinearAlgebra.Matrix.Kronecker
import Mathlib.LinearAlgebra.Matrix.Rank
import Mathlib.Analysis.Matrix.Order
import Mathlib.Tactic

namespace Numqi.RandNorm
open Matrix
open scoped ComplexOrder Kronecker

/-! ### flat index `x = a*n + b` -/

theorem sum_flat (m n : Nat) (f : Nat → Nat → ℂ) :
    ∑ x : Fin (m * n), f (x.val / n) (x.val % n) = ∑ a : Fin m, ∑ b : Fin n, f a.val b.val := by
  rw [← Fintype.sum_prod_type']
  refine Fintype.sum_equiv finProdFinEquiv.symm _ _ fun x => ?_
  simp [finProdFinEquiv, Fin.divNat, Fin.modNat]

/-- the flat matrix of a Kronecker product -/
theorem toMat_kron (dA dB : Nat) (A B : Nat → Nat → ℂ) :
    toMat (dA * dB) (dA * dB) (kron dB A B) =
      (toMat dA dA A ⊗ₖ toMat dB dB B).submatrix finProdFinEquiv.symm finProdFinEquiv.symm := by
  ext x y
  simp [toMat, kron, finProdFinEquiv, Fin.divNat, Fin.modNat, Matrix.kroneckerMap_apply]

theorem trace_submatrix_equiv {m n : Type} [Fintype m] [Fintype n] (e : m ≃ n) (M : Matrix n n ℂ) :
    (M.submatrix e e).trace = M.trace := by
  simp only [Matrix.trace, Matrix.diag, Matrix.submatrix_apply]
  exact Fintype.sum_equiv e _ _ fun _ => rfl

/-! ### pure states -/

theorem toMat_pureDm (n : Nat) (v : Nat → ℂ) :
    toMat n n (pureDm v) = vecMulVec (fun i : Fin n => v i.val) (star fun i : Fin n => v i.val) := by
  ext i j
  simp [toMat, pureDm, vecMulVec_apply, conj_eq_star]

theorem trace_pureDm (n : Nat) (v : Nat → ℂ) : (toMat n n (pureDm v)).trace = normSq n v := by
  simp [Matrix.trace, toMat, pureDm, normSq, sumR_eq]

/-! ### bipartite state of Schmidt rank `k` -/

/-- the `dA × dB` coefficient matrix of `bipartiteOut` -/
theorem bipartite_factor (dA dB k : Nat) (Q0 Q1 : Nat → Nat → ℂ) (c : Nat → ℂ) :
    (Matrix.of fun (a : Fin dA) (b : Fin dB) => bipartiteOut dB k Q0 Q1 c (a.val * dB + b.val)) =
      toMat dA k Q0 * Matrix.diagonal (fun s : Fin k => normalize k c s.val) * (toMat dB k Q1)ᵀ := by
  ext a b
  have hb : 0 < dB := Nat.lt_of_le_of_lt (Nat.zero_le _) b.isLt
  have h1 : (a.val * dB + b.val) / dB = a.val := by
    rw [Nat.add_comm, Nat.add_mul_div_right _ _ hb, Nat.div_eq_of_lt b.isLt, Nat.zero_add]
  have h2 : (a.val * dB + b.val) % dB = b.val := by
    rw [Nat.add_comm, Nat.add_mul_mod_self_right, Nat.mod_eq_of_lt b.isLt]
  simp [bipartiteOut, sumR_eq, toMat, Matrix.mul_apply, Matrix.diagonal_apply, h1, Nat.mod_eq_of_lt b.isLt]

theorem normSq_flat (dA dB : Nat) (ψ : Nat → ℂ) :
    normSq (dA * dB) ψ =
      ((Matrix.of fun (a : Fin dA) (b : Fin dB) => ψ (a.val * dB + b.val)) *
        (Matrix.of fun (a : Fin dA) (b : Fin dB) => ψ (a.val * dB + b.val))ᴴ).trace := by
  simp only [normSq, sumR_eq, conj_eq_star, Matrix.trace, Matrix.diag, Matrix.mul_apply, Matrix.conjTranspose_apply, Matrix.of_apply]
  have := sum_flat dA dB fun a b => ψ (a * dB + b) * star (ψ (a * dB + b))
  rw [← this]
  refine Finset.sum_congr rfl fun x _ => ?_
  rw [Nat.div_add_mod']

theorem normSq_bipartite (dA dB k : Nat) (Q0 Q1 : Nat → Nat → ℂ) (c : Nat → ℂ)
    (h0 : (toMat dA k Q0)ᴴ * toMat dA k Q0 = 1) (h1 : (toMat dB k Q1)ᴴ * toMat dB k Q1 = 1) (hc : normSq k c ≠ 0) :
    normSq (dA * dB) (bipartiteOut dB k Q0 Q1 c) = 1 := by
  rw [normSq_flat, bipartite_factor]
  set A := toMat dA k Q0
  set B := toMat dB k Q1
  set D := Matrix.diagonal (fun s : Fin k => normalize k c s.val)
  have hB : Bᵀ * (Bᵀ)ᴴ = 1 := by
    have : Bᵀ * (Bᵀ)ᴴ = (Bᴴ * B)ᵀ := by
      ext i j
      simp [Matrix.mul_apply, mul_comm]
    rw [this, h1, Matrix.transpose_one]
  calc (A * D * Bᵀ * (A * D * Bᵀ)ᴴ).trace = (A * (D * (Bᵀ * (Bᵀ)ᴴ) * Dᴴ) * Aᴴ).trace := by
        simp only [Matrix.conjTranspose_mul, Matrix.mul_assoc]
    _ = (A * (D * Dᴴ) * Aᴴ).trace := by rw [hB, Matrix.mul_one]
    _ = (Aᴴ * A * (D * Dᴴ)).trace := by rw [Matrix.trace_mul_comm, ← Matrix.mul_assoc]
    _ = (D * Dᴴ).trace := by rw [h0, Matrix.one_mul]
    _ = 1 := by
        have := normSq_normalize k c hc
        simp only [normSq, sumR_eq, conj_eq_star] at this
        simpa [D, Matrix.trace, Matrix.diagonal_conjTranspose, Matrix.diagonal_mul_diagonal] using this

/-! ### separable mixtures -/

theorem toMat_sepMix (k dA dB : Nat) (p : Nat → ℂ) (A B : Nat → Nat → Nat → ℂ) :
    toMat (dA * dB) (dA * dB) (sepMix k dB p A B) =
      ∑ i : Fin k, probNorm k p i.val • toMat (dA * dB) (dA * dB) (kron dB (A i.val) (B i.val)) := by
  ext x y
  simp [toMat, sepMix, sumR_eq, Matrix.sum_apply]

theorem probNorm_real (k : Nat) (p : Nat → ℝ) (i : Nat) :
    probNorm k (fun i => (p i : ℂ)) i = ((p i / ∑ j : Fin k, p j.val : ℝ) : ℂ) := by
  simp [probNorm, sumR_eq]

theorem sum_probNorm (k : Nat) (p : Nat → ℝ) (hs : ∑ j : Fin k, p j.val ≠ 0) :
    ∑ i : Fin k, probNorm k (fun i => (p i : ℂ)) i.val = 1 := by
  simp only [probNorm_real]
  rw [← Complex.ofReal_sum, ← Finset.sum_div, div_self hs]; simp

theorem posSemidef_kron (dA dB : Nat) (A B : Nat → Nat → ℂ) (hA : (toMat dA dA A).PosSemidef) (hB : (toMat dB dB B).PosSemidef) :
    (toMat (dA * dB) (dA * dB) (kron dB A B)).PosSemidef := by
  rw [toMat_kron]
  exact (hA.kronecker hB).submatrix _

theorem trace_kron (dA dB : Nat) (A B : Nat → Nat → ℂ) :
    (toMat (dA * dB) (dA * dB) (kron dB A B)).trace = (toMat dA dA A).trace * (toMat dB dB B).trace := by
  rw [toMat_kron, trace_submatrix_equiv, Matrix.trace_kronecker]

theorem sepMix_posSemidef (k dA dB : Nat) (p : Nat → ℝ) (A B : Nat → Nat → Nat → ℂ) (hp : ∀ i, i < k → 0 ≤ p i)
    (hA : ∀ i, i < k → (toMat dA dA (A i)).PosSemidef) (hB : ∀ i, i < k → (toMat dB dB (B i)).PosSemidef) :
    (toMat (dA * dB) (dA * dB) (sepMix k dB (fun i => (p i : ℂ)) A B)).PosSemidef := by
  rw [toMat_sepMix]
  refine Matrix.posSemidef_sum _ fun i _ => ?_
  rw [probNorm_real]
  refine (posSemidef_kron dA dB _ _ (hA i.val i.isLt) (hB i.val i.isLt)).smul ?_
  have h0 : 0 ≤ ∑ j : Fin k, p j.val := Finset.sum_nonneg fun j _ => hp j.val j.isLt
  exact_mod_cast div_nonneg (hp i.val i.isLt) h0

theorem sepMix_trace (k dA dB : Nat) (p : Nat → ℝ) (A B : Nat → Nat → Nat → ℂ) (hs : ∑ j : Fin k, p j.val ≠ 0)
    (hA : ∀ i, i < k → (toMat dA dA (A i)).trace = 1) (hB : ∀ i, i < k → (toMat dB dB (B i)).trace = 1) :
    (toMat (dA * dB) (dA * dB) (sepMix k dB (fun i => (p i : ℂ)) A B)).trace = 1 := by
  rw [toMat_sepMix, Matrix.trace_sum]
  have : ∀ i : Fin k, (probNorm k (fun i => (p i : ℂ)) i.val • toMat (dA * dB) (dA * dB) (kron dB (A i.val) (B i.val))).trace
      = probNorm k (fun i => (p i : ℂ)) i.val := by
    intro i
    rw [Matrix.trace_smul, trace_kron, hA i.val i.isLt, hB i.val i.isLt]; simp
  rw [Finset.sum_congr rfl fun i _ => this i]
  exact sum_probNorm k p hs

/-- the partial transpose (second factor) of a separable mixture is the mixture of the transposed second factors -/
theorem sepMix_partialTranspose (k dB : Nat) (hdB : 0 < dB) (p : Nat → ℂ) (A B : Nat → Nat → Nat → ℂ) (x y : Nat) :
    sepMix k dB p A B (x / dB * dB + y % dB) (y / dB * dB + x % dB) = sepMix k dB p A (fun i a b => B i b a) x y := by
  have h1 : ∀ u v : Nat, (u / dB * dB + v % dB) / dB = u / dB := by
    intro u v
    rw [Nat.add_comm, Nat.add_mul_div_right _ _ hdB, Nat.div_eq_of_lt (Nat.mod_lt _ hdB), Nat.zero_add]
  have h2 : ∀ u v : Nat, (u / dB * dB + v % dB) % dB = v % dB := by
    intro u v
    rw [Nat.add_comm, Nat.add_mul_mod_self_right, Nat.mod_mod]
  simp only [sepMix, kron, h1, h2]

theorem sepMixPure_eq (k dB : Nat) (p : Nat → ℂ) (u v : Nat → Nat → ℂ) (x y : Nat) :
    sepMixPure k dB p u v x y = sepMix k dB p (fun i => pureDm (u i)) (fun i => pureDm (v i)) x y := by
  simp only [sepMixPure, sepMix, kron, kronVec, pureDm, conj_eq_star, star_mul']
  congr 1; funext i; ring

/-! ### orthonormal bases as projector resolutions -/

/-- `P a` (`a < D`) are Hermitian, mutually orthogonal idempotents of trace one that sum to the identity: the rank-one projectors of an
orthonormal basis of `ℂ^D` -/
structure IsRes (D : Nat) (P : Nat → Nat → Nat → ℂ) : Prop where
  herm : ∀ a c j, conj (P a c j) = P a j c
  mul : ∀ a b c j, a < D → b < D → sumR D (fun m => P a c m * P b m j) = if a = b then P a c j else 0
  sum : ∀ c j, c < D → j < D → sumR D (fun a => P a c j) = if c = j then 1 else 0
  tr : ∀ a, a < D → sumR D (fun c => P a c c) = 1

theorem sum_ite_eq_val {D : Nat} (a : Nat) (ha : a < D) (f : Nat → ℂ) :
    ∑ m : Fin D, (if a = m.val then f m.val else 0) = f a := by
  rw [Finset.sum_eq_single (⟨a, ha⟩ : Fin D)]
  · simp
  · intro b _ hb
    have : a ≠ b.val := fun e => hb (Fin.ext e.symm)
    simp [this]
  · intro h; exact absurd (Finset.mem_univ _) h

theorem isRes_compBasis (D : Nat) : IsRes D (compBasis (K := ℂ)) where
  herm a c j := by
    simp only [compBasis, conj_eq_star]
    by_cases h1 : a = c <;> by_cases h2 : a = j <;> simp [h1, h2]
  mul a b c j ha hb := by
    rw [sumR_eq]
    have : ∀ m : Fin D, compBasis (K := ℂ) a c m.val * compBasis b m.val j
        = if a = m.val then (if a = c ∧ b = a ∧ b = j then 1 else 0) else 0 := by
      intro m
      simp only [compBasis]
      by_cases h1 : a = m.val
      · subst h1; by_cases h2 : m.val = c <;> by_cases h3 : b = m.val <;> by_cases h4 : b = j <;> simp [h2, h3, h4]
      · simp [h1]
    rw [Finset.sum_congr rfl fun m _ => this m, sum_ite_eq_val a ha (fun _ => if a = c ∧ b = a ∧ b = j then (1 : ℂ) else 0)]
    simp only [compBasis]
    by_cases h1 : a = b
    · subst h1; simp
    · have : ¬ (a = c ∧ b = a ∧ b = j) := fun h => h1 h.2.1.symm
      simp [h1, this]
  sum c j hc hj := by
    rw [sumR_eq]
    have : ∀ a : Fin D, compBasis (K := ℂ) a.val c j = if c = a.val then (if c = j then 1 else 0) else 0 := by
      intro a
      simp only [compBasis]
      by_cases h1 : c = a.val
      · subst h1; simp
      · have : ¬ (a.val = c ∧ a.val = j) := fun h => h1 h.1.symm
        simp [h1, this]
    rw [Finset.sum_congr rfl fun a _ => this a, sum_ite_eq_val c hc (fun _ => if c = j then (1 : ℂ) else 0)]
  tr a ha := by
    rw [sumR_eq]
    have : ∀ c : Fin D, compBasis (K := ℂ) a c.val c.val = if a = c.val then 1 else 0 := by
      intro c; simp [compBasis]
    rw [Finset.sum_congr rfl fun c _ => this c, sum_ite_eq_val a ha (fun _ => (1 : ℂ))]

/-- the rows of a unitary matrix -/
theorem isRes_onbProj (D : Nat) (U : Nat → Nat → ℂ) (h1 : toMat D D U * (toMat D D U)ᴴ = 1) (h2 : (toMat D D U)ᴴ * toMat D D U = 1) :
    IsRes D (onbProj U) where
  herm a c j := by simp only [onbProj, conj_eq_star, star_mul', star_star]; ring
  mul a b c j ha hb := by
    have hrow : ∑ m : Fin D, U b m.val * star (U a m.val) = if a = b then 1 else 0 := by
      have := congrFun (congrFun h1 ⟨b, hb⟩) ⟨a, ha⟩
      simp only [Matrix.mul_apply, toMat, Matrix.of_apply, Matrix.conjTranspose_apply, Matrix.one_apply, Fin.mk.injEq] at this
      rw [this]; by_cases h : a = b <;> simp [h, eq_comm]
    rw [sumR_eq]
    have : ∀ m : Fin D, onbProj U a c m.val * onbProj U b m.val j = U a c * star (U b j) * (U b m.val * star (U a m.val)) := by
      intro m; simp only [onbProj, conj_eq_star]; ring
    rw [Finset.sum_congr rfl fun m _ => this m, ← Finset.mul_sum, hrow]
    by_cases h : a = b
    · subst h; simp [onbProj, conj_eq_star]
    · simp [h]
  sum c j hc hj := by
    have := congrFun (congrFun h2 ⟨j, hj⟩) ⟨c, hc⟩
    simp only [Matrix.mul_apply, toMat, Matrix.of_apply, Matrix.conjTranspose_apply, Matrix.one_apply, Fin.mk.injEq] at this
    rw [sumR_eq]
    simp only [onbProj, conj_eq_star]
    rw [Finset.sum_congr rfl fun a _ => mul_comm _ _, this]
    by_cases h : c = j <;> simp [h, eq_comm]
  tr a ha := by
    have := congrFun (congrFun h1 ⟨a, ha⟩) ⟨a, ha⟩
    simp only [Matrix.mul_apply, toMat, Matrix.of_apply, Matrix.conjTranspose_apply, Matrix.one_apply, if_true] at this
    rw [sumR_eq]
    simpa [onbProj, conj_eq_star] using this

theorem div_mod_lt {D1 d a : Nat} (h : a < D1 * d) : a / d < D1 ∧ a % d < d := by
  have hd : 0 < d := by
    rcases Nat.eq_zero_or_pos d with e | e
    · subst e; simp at h
    · exact e
  exact ⟨(Nat.div_lt_iff_lt_mul hd).2 h, Nat.mod_lt _ hd⟩

theorem eq_iff_div_mod (d a b : Nat) : a = b ↔ a / d = b / d ∧ a % d = b % d := by
  constructor
  · rintro rfl; exact ⟨rfl, rfl⟩
  · rintro ⟨h1, h2⟩
    rw [← Nat.div_add_mod a d, ← Nat.div_add_mod b d, h1, h2]

theorem isRes_kron3 (D1 d : Nat) (P Q : Nat → Nat → Nat → ℂ) (hP : IsRes D1 P) (hQ : IsRes d Q) : IsRes (D1 * d) (kron3 d P Q) where
  herm a c j := by
    simp only [kron3, conj_eq_star, star_mul']
    have := hP.herm (a / d) (c / d) (j / d); have := hQ.herm (a % d) (c % d) (j % d)
    simp only [conj_eq_star] at *
    rw [‹star (P _ _ _) = _›, ‹star (Q _ _ _) = _›]
  mul a b c j ha hb := by
    obtain ⟨ha1, ha2⟩ := div_mod_lt ha
    obtain ⟨hb1, hb2⟩ := div_mod_lt hb
    rw [sumR_eq]
    have h := sum_flat D1 d fun m1 m2 => (P (a / d) (c / d) m1 * P (b / d) m1 (j / d)) * (Q (a % d) (c % d) m2 * Q (b % d) m2 (j % d))
    have e : ∀ m : Fin (D1 * d), kron3 d P Q a c m.val * kron3 d P Q b m.val j
        = (P (a / d) (c / d) (m.val / d) * P (b / d) (m.val / d) (j / d)) * (Q (a % d) (c % d) (m.val % d) * Q (b % d) (m.val % d) (j % d)) := by
      intro m; simp only [kron3]; ring
    rw [Finset.sum_congr rfl fun m _ => e m, h]
    simp only [← Finset.mul_sum, ← Finset.sum_mul]
    have p1 := hP.mul (a / d) (b / d) (c / d) (j / d) ha1 hb1
    have q1 := hQ.mul (a % d) (b % d) (c % d) (j % d) ha2 hb2
    rw [sumR_eq] at p1 q1
    rw [p1, q1]
    by_cases h1 : a / d = b / d <;> by_cases h2 : a % d = b % d
    · have : a = b := (eq_iff_div_mod d a b).2 ⟨h1, h2⟩
      simp [h1, h2, this, kron3]
    · have : a ≠ b := fun e => h2 ((eq_iff_div_mod d a b).1 e).2
      simp [h1, h2, this]
    · have : a ≠ b := fun e => h1 ((eq_iff_div_mod d a b).1 e).1
      simp [h1, h2, this]
    · have : a ≠ b := fun e => h1 ((eq_iff_div_mod d a b).1 e).1
      simp [h1, h2, this]
  sum c j hc hj := by
    obtain ⟨hc1, hc2⟩ := div_mod_lt hc
    obtain ⟨hj1, hj2⟩ := div_mod_lt hj
    rw [sumR_eq]
    have h := sum_flat D1 d fun a1 a2 => P a1 (c / d) (j / d) * Q a2 (c % d) (j % d)
    simp only [kron3]
    rw [h]
    simp only [← Finset.mul_sum, ← Finset.sum_mul]
    have p1 := hP.sum (c / d) (j / d) hc1 hj1
    have q1 := hQ.sum (c % d) (j % d) hc2 hj2
    rw [sumR_eq] at p1 q1
    rw [q1, p1]
    by_cases h1 : c / d = j / d <;> by_cases h2 : c % d = j % d
    · have : c = j := (eq_iff_div_mod d c j).2 ⟨h1, h2⟩
      simp [h1, h2, this]
    · have : c ≠ j := fun e => h2 ((eq_iff_div_mod d c j).1 e).2
      simp [h1, h2, this]
    · have : c ≠ j := fun e => h1 ((eq_iff_div_mod d c j).1 e).1
      simp [h1, h2, this]
    · have : c ≠ j := fun e => h1 ((eq_iff_div_mod d c j).1 e).1
      simp [h1, h2, this]
  tr a ha := by
    obtain ⟨ha1, ha2⟩ := div_mod_lt ha
    rw [sumR_eq]
    have h := sum_flat D1 d fun c1 c2 => P (a / d) c1 c1 * Q (a % d) c2 c2
    simp only [kron3]
    rw [h]
    simp only [← Finset.mul_sum, ← Finset.sum_mul]
    have p1 := hP.tr (a / d) ha1
    have q1 := hQ.tr (a % d) ha2
    rw [sumR_eq] at p1 q1
    rw [q1, p1]; simp

theorem isRes_foldl (d : Nat) : ∀ (l : List (Nat → Nat → Nat → ℂ)) (D0 : Nat) (P0 : Nat → Nat → Nat → ℂ),
    IsRes D0 P0 → (∀ Q ∈ l, IsRes d Q) → IsRes (D0 * d ^ l.length) (l.foldl (kron3 d) P0) := by
  intro l
  induction l with
  | nil => intro D0 P0 h _; simpa using h
  | cons Q l ih =>
    intro D0 P0 h hl
    have := ih (D0 * d) (kron3 d P0 Q) (isRes_kron3 D0 d P0 Q h (hl Q (List.mem_cons_self ..)))
      (fun Q' hQ' => hl Q' (List.mem_cons_of_mem _ hQ'))
    simpa [List.foldl_cons, pow_succ, Nat.mul_assoc, Nat.mul_comm d] using this

theorem isRes_onbBasis (d : Nat) (U : Nat → Nat → Nat → ℂ)
    (hU : ∀ o, toMat d d (U o) * (toMat d d (U o))ᴴ = 1 ∧ (toMat d d (U o))ᴴ * toMat d d (U o) = 1) (o : Nat) : IsRes d (onbBasis U o) := by
  unfold onbBasis
  split
  · exact isRes_compBasis d
  · exact isRes_onbProj d _ (hU _).1 (hU _).2

/-! ### Hermitian symmetrisation, Gell-Mann placement -/

theorem hermSym_conj (Z : Nat → Nat → ℂ) (i j : Nat) : conj (hermSym Z i j) = hermSym Z j i := by
  simp only [hermSym, conj_eq_star, star_add, star_star]; ring

open Numqi.Gellmann (Scalars synthesis sumFin)

/-- the scalars of `gellmann.py` as complex numbers: `1/2`, `i`, and real square roots -/
structure RealScalars (S : Scalars ℂ) : Prop where
  half : S.half = 1 / 2
  I : S.I = Complex.I
  cD : ∀ k, star (S.cD k) = S.cD k
  cI : star S.cI = S.cI

theorem sumFin_eq' {d : Nat} (f : Fin d → ℂ) : sumFin f = ∑ i, f i := by
  unfold sumFin; rw [Fin.sum_univ_def]

theorem re_sub (S : Scalars ℂ) (hS : RealScalars S) (x y : ℂ) (hx : star x = x) (hy : star y = y) :
    Gellmann.re S (x - S.I * y) = x ∧ Gellmann.re S (x + S.I * y) = x := by
  simp only [Gellmann.re, conj_eq_star, hS.half, hS.I, star_sub, star_add, star_mul', hx, hy, Complex.star_def, Complex.conj_I]
  constructor <;> ring

theorem im_sub (S : Scalars ℂ) (hS : RealScalars S) (x y : ℂ) (hx : star x = x) (hy : star y = y) :
    imPart S (x - S.I * y) = -y ∧ imPart S (x + S.I * y) = y := by
  simp only [imPart, conj_eq_star, hS.half, hS.I, star_sub, star_add, star_mul', hx, hy, Complex.star_def, Complex.conj_I]
  constructor
  · ring_nf; rw [Complex.I_sq]; ring
  · ring_nf; rw [Complex.I_sq]; ring

/-- the diagonal entries of `synthesis` are real for real coefficients -/
theorem synthesis_diag_real (S : Scalars ℂ) (hS : RealScalars S) (d : Nat) (v : Nat → ℂ) (hv : ∀ p, star (v p) = v p) (r : Fin d) :
    star (synthesis S d v r r) = synthesis S d v r r := by
  simp only [synthesis, lt_irrefl, if_false, sumFin_eq', star_sum]
  refine Finset.sum_congr rfl fun k _ => ?_
  rw [star_mul']
  congr 1
  · split
    · rw [star_mul', hS.cD, hv]
    · rw [star_mul', hS.cI, hv]
  · rw [star_add]
    congr 1
    · split <;> simp
    · split <;> simp

theorem synthesis_real_sym (S : Scalars ℂ) (hS : RealScalars S) (d : Nat) (v : Nat → ℂ) (hv : ∀ p, star (v p) = v p) (r c : Fin d) :
    Gellmann.re S (synthesis S d v r c) = Gellmann.re S (synthesis S d v c r) ∧
      star (Gellmann.re S (synthesis S d v r c)) = Gellmann.re S (synthesis S d v r c) := by
  have key : ∀ a b : Fin d, a < b → Gellmann.re S (synthesis S d v a b) = v ((Gellmann.pairs d).idxOf (a, b)) ∧
      Gellmann.re S (synthesis S d v b a) = v ((Gellmann.pairs d).idxOf (a, b)) := by
    intro a b hab
    have hba : ¬ b < a := not_lt.2 hab.le
    simp only [synthesis, hab, hba, if_true, if_false]
    exact ⟨(re_sub S hS _ _ (hv _) (hv _)).1, (re_sub S hS _ _ (hv _) (hv _)).2⟩
  rcases lt_trichotomy r c with h | h | h
  · obtain ⟨k1, k2⟩ := key r c h; rw [k1, k2]; exact ⟨rfl, hv _⟩
  · subst h
    refine ⟨rfl, ?_⟩
    have := synthesis_diag_real S hS d v hv r
    simp only [Gellmann.re, conj_eq_star, star_mul', star_add, star_star, hS.half]
    rw [add_comm]; simp
  · obtain ⟨k1, k2⟩ := key c r h; rw [k1, k2]; exact ⟨rfl, hv _⟩

theorem synthesis_imag_antisym (S : Scalars ℂ) (hS : RealScalars S) (d : Nat) (v : Nat → ℂ) (hv : ∀ p, star (v p) = v p) (r c : Fin d) :
    imPart S (synthesis S d v r c) = - imPart S (synthesis S d v c r) ∧
      star (imPart S (synthesis S d v r c)) = imPart S (synthesis S d v r c) := by
  have key : ∀ a b : Fin d, a < b →
      imPart S (synthesis S d v a b) = - v (d * (d - 1) / 2 + (Gellmann.pairs d).idxOf (a, b)) ∧
      imPart S (synthesis S d v b a) = v (d * (d - 1) / 2 + (Gellmann.pairs d).idxOf (a, b)) := by
    intro a b hab
    have hba : ¬ b < a := not_lt.2 hab.le
    simp only [synthesis, hab, hba, if_true, if_false]
    exact ⟨(im_sub S hS _ _ (hv _) (hv _)).1, (im_sub S hS _ _ (hv _) (hv _)).2⟩
  rcases lt_trichotomy r c with h | h | h
  · obtain ⟨k1, k2⟩ := key r c h; rw [k1, k2]; exact ⟨rfl, by rw [star_neg, hv]⟩
  · subst h
    have hd := synthesis_diag_real S hS d v hv r
    have : imPart S (synthesis S d v r r) = 0 := by
      simp only [imPart, conj_eq_star, hd, sub_self, zero_mul]
    rw [this]; simp
  · obtain ⟨k1, k2⟩ := key c r h; rw [k1, k2]; exact ⟨by ring, hv _⟩

theorem synthesis_hermitian (S : Scalars ℂ) (hS : RealScalars S) (d : Nat) (v : Nat → ℂ) (hv : ∀ p, star (v p) = v p) (r c : Fin d) :
    star (synthesis S d v r c) = synthesis S d v c r := by
  rcases lt_trichotomy r c with h | h | h
  · have hcr : ¬ c < r := not_lt.2 h.le
    simp only [synthesis, h, hcr, if_true, if_false, star_sub, star_mul', hv, hS.I, Complex.star_def, Complex.conj_I]
    ring
  · subst h; exact synthesis_diag_real S hS d v hv r
  · have hrc : ¬ r < c := not_lt.2 h.le
    simp only [synthesis, h, hrc, if_true, if_false, star_add, star_mul', hv, hS.I, Complex.star_def, Complex.conj_I]
    ring

theorem qcmsCoeff_real (d : Nat) (t : Nat → ℂ) (ht : ∀ p, star (t p) = t p) :
    (∀ p, star (qcmsSymCoeff d t p) = qcmsSymCoeff d t p) ∧ (∀ p, star (qcmsAntiCoeff d t p) = qcmsAntiCoeff d t p) ∧
      (∀ p, star (qcmsHermCoeff d t p) = qcmsHermCoeff d t p) := by
  refine ⟨fun p => ?_, fun p => ?_, fun p => ?_⟩
  · simp only [qcmsSymCoeff]; split_ifs <;> simp [ht]
  · simp only [qcmsAntiCoeff]; split_ifs <;> simp [ht]
  · simp only [qcmsHermCoeff]; split_ifs <;> simp [ht]

/-! ### rank of a density matrix, positivity of the Choi operator, eigenvalue range -/


theorem densityMatrix_rank_le (n k : Nat) (G : Nat → Nat → ℂ) : (toMat n n (densityMatrix n k G)).rank ≤ k := by
  rw [toMat_densityMatrix, ← Matrix.smul_mul]
  refine (Matrix.rank_mul_le_left _ _).trans ?_
  simpa using Matrix.rank_le_card_width (((toMat n k G * (toMat n k G)ᴴ).trace)⁻¹ • toMat n k G)

/-- `1 ⊗ T` on the flat index `i*dout + a` -/
def liftT (dout : Nat) (T : Nat → Nat → ℂ) (z y : Nat) : ℂ := if z % dout = y % dout then T (z / dout) (y / dout) else 0

theorem sum_lift (din dout t : Nat) (hd : 0 < dout) (F : Nat → Nat → ℂ) :
    ∑ z : Fin (din * dout), (if z.val % dout = t % dout then F (z.val / dout) z.val else 0) =
      ∑ i : Fin din, F i.val (i.val * dout + t % dout) := by
  have h := sum_flat din dout fun a b => if b = t % dout then F a (a * dout + b) else 0
  have e : ∀ z : Fin (din * dout), (if z.val % dout = t % dout then F (z.val / dout) z.val else 0)
      = (fun a b => if b = t % dout then F a (a * dout + b) else 0) (z.val / dout) (z.val % dout) := by
    intro z
    simp only [Nat.div_add_mod']
  rw [Finset.sum_congr rfl fun z _ => e z, h]
  refine Finset.sum_congr rfl fun i _ => ?_
  have ht : t % dout < dout := Nat.mod_lt _ hd
  rw [Finset.sum_eq_single (⟨t % dout, ht⟩ : Fin dout)]
  · simp
  · intro b _ hb
    have : b.val ≠ t % dout := fun e => hb (Fin.ext e)
    simp [this]
  · intro h; exact absurd (Finset.mem_univ _) h

theorem toMat_choiOut (din dout r : Nat) (G T : Nat → Nat → ℂ) :
    toMat (din * dout) (din * dout) (choiOut din dout r G T) =
      (toMat (din * dout) (din * dout) (liftT dout T))ᴴ * toMat (din * dout) (din * dout) (gram r G) *
        toMat (din * dout) (din * dout) (liftT dout T) := by
  ext x y
  have hd : 0 < dout := by
    rcases Nat.eq_zero_or_pos dout with e | e
    · subst e; exact absurd x.isLt (by simp)
    · exact e
  simp only [toMat, choiOut, sumR_eq, Matrix.mul_apply, Matrix.of_apply, Matrix.conjTranspose_apply, liftT, conj_eq_star]
  -- inner sum over z
  have inner : ∀ w : Fin (din * dout),
      ∑ z : Fin (din * dout), star (if z.val % dout = x.val % dout then T (z.val / dout) (x.val / dout) else 0) * gram r G z.val w.val
        = ∑ i : Fin din, star (T i.val (x.val / dout)) * gram r G (i.val * dout + x.val % dout) w.val := by
    intro w
    rw [← sum_lift din dout x.val hd fun i z => star (T i (x.val / dout)) * gram r G z w.val]
    refine Finset.sum_congr rfl fun z _ => ?_
    split <;> simp
  simp only [inner]
  have outer : ∑ w : Fin (din * dout), (∑ i : Fin din, star (T i.val (x.val / dout)) * gram r G (i.val * dout + x.val % dout) w.val) *
        (if w.val % dout = y.val % dout then T (w.val / dout) (y.val / dout) else 0)
      = ∑ j : Fin din, (∑ i : Fin din, star (T i.val (x.val / dout)) * gram r G (i.val * dout + x.val % dout) (j.val * dout + y.val % dout)) *
          T j.val (y.val / dout) := by
    rw [← sum_lift din dout y.val hd fun j w => (∑ i : Fin din, star (T i.val (x.val / dout)) * gram r G (i.val * dout + x.val % dout) w) * T j (y.val / dout)]
    refine Finset.sum_congr rfl fun w _ => ?_
    split <;> simp
  rw [outer, Finset.sum_comm]
  refine Finset.sum_congr rfl fun j _ => ?_
  rw [Finset.sum_mul]

theorem choiOut_posSemidef (din dout r : Nat) (G T : Nat → Nat → ℂ) :
    (toMat (din * dout) (din * dout) (choiOut din dout r G T)).PosSemidef := by
  rw [toMat_choiOut, toMat_gram]
  exact (Matrix.posSemidef_self_mul_conjTranspose _).conjTranspose_mul_mul_same _



/-- `a ≤ λ ≤ b` and `V` unitary: the spectrum of `V diag(λ) Vᴴ` lies in `[a, b]` (as operator inequalities `a·1 ≤ H ≤ b·1`) -/
theorem hermEig_range (n : Nat) (V : Nat → Nat → ℂ) (lam : Nat → ℝ) (a b : ℝ) (hV : toMat n n V * (toMat n n V)ᴴ = 1)
    (hl : ∀ i, i < n → a ≤ lam i ∧ lam i ≤ b) :
    (toMat n n (hermEig n V fun i => (lam i : ℂ)) - (a : ℂ) • (1 : Matrix (Fin n) (Fin n) ℂ)).PosSemidef ∧
      ((b : ℂ) • (1 : Matrix (Fin n) (Fin n) ℂ) - toMat n n (hermEig n V fun i => (lam i : ℂ))).PosSemidef := by
  unfold hermEig
  rw [toMat_specMat]
  set W := toMat n n V
  have e1 : W * Matrix.diagonal (fun i : Fin n => ((lam i.val : ℝ) : ℂ)) * Wᴴ - (a : ℂ) • (1 : Matrix (Fin n) (Fin n) ℂ)
      = W * Matrix.diagonal (fun i : Fin n => ((lam i.val - a : ℝ) : ℂ)) * Wᴴ := by
    have : Matrix.diagonal (fun i : Fin n => ((lam i.val - a : ℝ) : ℂ))
        = Matrix.diagonal (fun i : Fin n => ((lam i.val : ℝ) : ℂ)) - (a : ℂ) • (1 : Matrix (Fin n) (Fin n) ℂ) := by
      ext i j; by_cases h : i = j <;> simp [h]
    rw [this, Matrix.mul_sub, Matrix.sub_mul, Matrix.mul_smul, Matrix.smul_mul, Matrix.mul_one, hV]
  have e2 : (b : ℂ) • (1 : Matrix (Fin n) (Fin n) ℂ) - W * Matrix.diagonal (fun i : Fin n => ((lam i.val : ℝ) : ℂ)) * Wᴴ
      = W * Matrix.diagonal (fun i : Fin n => ((b - lam i.val : ℝ) : ℂ)) * Wᴴ := by
    have : Matrix.diagonal (fun i : Fin n => ((b - lam i.val : ℝ) : ℂ))
        = (b : ℂ) • (1 : Matrix (Fin n) (Fin n) ℂ) - Matrix.diagonal (fun i : Fin n => ((lam i.val : ℝ) : ℂ)) := by
      ext i j; by_cases h : i = j <;> simp [h]
    rw [this, Matrix.mul_sub, Matrix.sub_mul, Matrix.mul_smul, Matrix.smul_mul, Matrix.mul_one, hV]
  rw [e1, e2]
  constructor
  · refine (Matrix.PosSemidef.diagonal ?_).mul_mul_conjTranspose_same W
    intro i
    show (0 : ℂ) ≤ ((lam i.val - a : ℝ) : ℂ)
    exact_mod_cast sub_nonneg.2 (hl i.val i.isLt).1
  · refine (Matrix.PosSemidef.diagonal ?_).mul_mul_conjTranspose_same W
    intro i
    show (0 : ℂ) ≤ ((b - lam i.val : ℝ) : ℂ)
    exact_mod_cast sub_nonneg.2 (hl i.val i.isLt).2


end Numqi.RandNorm
