/-
Helper lemmas for C18: discrete orthogonality of the cosines at the Chebyshev nodes `θ_k = π(k+½)/d`.
-/
import NumqiProofs.Catalogue
import Mathlib.Analysis.SpecialFunctions.Trigonometric.Basic

set_option linter.unusedSectionVars false

namespace Numqi.Catalogue
open Finset Real

/-- the nodes -/
noncomputable def chebNode (d k : ℕ) : ℝ := Real.pi * ((k : ℝ) + 1 / 2) / d

/-- `Σ_{k<d} cos(p θ_k) = 0` for `0 < p < 2d` (telescoping after multiplication by `2 sin(pπ/2d)`) -/
theorem sum_cos_node (d p : ℕ) (hp : 0 < p) (hp2 : p < 2 * d) :
    ∑ k ∈ Finset.range d, Real.cos ((p : ℝ) * chebNode d k) = 0 := by
  have hd : 0 < d := by omega
  have hdR : (0 : ℝ) < d := by exact_mod_cast hd
  have hpR : (0 : ℝ) < p := by exact_mod_cast hp
  set h : ℝ := (p : ℝ) * Real.pi / (2 * d) with hh
  have hpos : 0 < h := by positivity
  have hlt : h < Real.pi := by
    rw [hh, div_lt_iff₀ (by positivity)]
    have : (p : ℝ) < 2 * d := by exact_mod_cast hp2
    nlinarith [Real.pi_pos]
  have hs : Real.sin h ≠ 0 := (Real.sin_pos_of_pos_of_lt_pi hpos hlt).ne'
  have key : ∀ k : ℕ, 2 * Real.sin h * Real.cos ((p : ℝ) * chebNode d k)
      = Real.sin ((p : ℝ) * ((k + 1 : ℕ) : ℝ) * Real.pi / d) - Real.sin ((p : ℝ) * (k : ℝ) * Real.pi / d) := by
    intro k
    have e1 : (p : ℝ) * ((k + 1 : ℕ) : ℝ) * Real.pi / d = (p : ℝ) * chebNode d k + h := by
      rw [hh, chebNode]; push_cast; field_simp; ring
    have e2 : (p : ℝ) * (k : ℝ) * Real.pi / d = (p : ℝ) * chebNode d k - h := by
      rw [hh, chebNode]; field_simp; ring
    rw [e1, e2, Real.sin_add, Real.sin_sub]; ring
  have tel : ∑ k ∈ Finset.range d, (2 * Real.sin h * Real.cos ((p : ℝ) * chebNode d k)) = 0 := by
    simp only [key]
    rw [Finset.sum_range_sub (fun k => Real.sin ((p : ℝ) * ((k : ℕ) : ℝ) * Real.pi / d))]
    have : (p : ℝ) * (d : ℝ) * Real.pi / d = (p : ℝ) * Real.pi := by field_simp
    simp [this, Real.sin_nat_mul_pi]
  rw [← Finset.mul_sum] at tel
  rcases mul_eq_zero.mp tel with h0 | h0
  · exact absurd h0 (mul_ne_zero two_ne_zero hs)
  · exact h0

/-- **discrete orthogonality** of `cos(m θ_k)`, `m < d`, at the `d` Chebyshev nodes -/
theorem sum_cos_cos_node (d m n : ℕ) (hm : m < d) (hn : n < d) :
    ∑ k ∈ Finset.range d, Real.cos ((m : ℝ) * chebNode d k) * Real.cos ((n : ℝ) * chebNode d k)
      = if m = n then (if m = 0 then (d : ℝ) else d / 2) else 0 := by
  have prod : ∀ x y : ℝ, Real.cos x * Real.cos y = (Real.cos (x + y) + Real.cos (x - y)) / 2 := by
    intro x y; rw [Real.cos_add, Real.cos_sub]; ring
  simp only [prod, ← Finset.sum_div, Finset.sum_add_distrib]
  by_cases hmn : m = n
  · subst hmn
    rw [if_pos rfl]
    have e2 : ∀ k, (m : ℝ) * chebNode d k - (m : ℝ) * chebNode d k = 0 := fun k => sub_self _
    simp only [e2, Real.cos_zero, Finset.sum_const, Finset.card_range, nsmul_eq_mul, mul_one]
    by_cases h0 : m = 0
    · subst h0; simp
    · rw [if_neg h0]
      have e1 : ∀ k, (m : ℝ) * chebNode d k + (m : ℝ) * chebNode d k = ((2 * m : ℕ) : ℝ) * chebNode d k := by
        intro k; push_cast; ring
      simp only [e1]
      rw [sum_cos_node d (2 * m) (by omega) (by omega)]; ring
  · rw [if_neg hmn]
    have e1 : ∀ k, (m : ℝ) * chebNode d k + (n : ℝ) * chebNode d k = ((m + n : ℕ) : ℝ) * chebNode d k := by
      intro k; push_cast; ring
    simp only [e1]
    rw [sum_cos_node d (m + n) (by omega) (by omega)]
    rcases Nat.lt_or_gt_of_ne hmn with hlt | hgt
    · have e2 : ∀ k, Real.cos ((m : ℝ) * chebNode d k - (n : ℝ) * chebNode d k) = Real.cos (((n - m : ℕ) : ℝ) * chebNode d k) := by
        intro k; rw [← Real.cos_neg, Nat.cast_sub hlt.le]; congr 1; ring
      simp only [e2]
      rw [sum_cos_node d (n - m) (by omega) (by omega)]; simp
    · have e2 : ∀ k, Real.cos ((m : ℝ) * chebNode d k - (n : ℝ) * chebNode d k) = Real.cos (((m - n : ℕ) : ℝ) * chebNode d k) := by
        intro k; rw [Nat.cast_sub hgt.le]; congr 1; ring
      simp only [e2]
      rw [sum_cos_node d (m - n) (by omega) (by omega)]; simp

end Numqi.Catalogue
