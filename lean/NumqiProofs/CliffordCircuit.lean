/-
C07: the unitary form of the end-to-end theorem, the tie to C03's `toUnitary` of the exported circuit,
and soundness of tableau extraction (`clifford_array_to_F2`).
-/
import NumqiProofs.CliffordGates
namespace Numqi.Clifford
open Numqi Matrix
variable {R : Type} [CommRing R]

/-! ### the unitary form `U† P U`, and the tie to C03's `toUnitary` -/

/-- with a unitary `U` the intertwining relation is `U† P U = answer` -/
theorem conj_of_inter [StarRing R] {n : Nat} (U P Q : Matrix (Bits n) (Bits n) R) (hU : Uᴴ * U = 1)
    (h : P * U = U * Q) : Uᴴ * P * U = Q := by
  rw [Matrix.mul_assoc, h, ← Matrix.mul_assoc, hU, Matrix.one_mul]

/-- an entry of a C03 gate list realises a recorded gate: well formed, and its operator is the gate's operator -/
def OpRealises (I h : R) {n : Nat} (g : Gate) (op : Numqi.Op n R) : Prop :=
  op.WF ∧ Matrix.of op.matrix = gateMatrixN I h n g

/-- for a C03 gate list that realises the record gate by gate, `Circuit.to_unitary` is `circuitUnitary` -/
theorem toUnitary_eq_circuitUnitary (I h : R) {n : Nat} (gates : List Gate) (ops : List (Numqi.Op n R))
    (hr : List.Forall₂ (OpRealises I h) gates ops) :
    Matrix.of (toUnitary ops) = circuitUnitary I h n gates := by
  have hwf : ∀ op ∈ ops, op.WF := by
    intro op hop
    induction hr with
    | nil => cases hop
    | cons h1 _ ih =>
      rcases List.mem_cons.1 hop with e | e
      · subst e; exact h1.1
      · exact ih e
  rw [C03.toUnitary_eq ops hwf]
  induction hr with
  | nil => simp [circuitMatrix_nil, circuitUnitary]
  | cons h1 _ ih =>
    rw [circuitMatrix_cons, circuitUnitary_cons, h1.2, ih (fun op hop => hwf op (List.mem_cons_of_mem _ hop))]

/-! ### the exported universal circuit, resolved by C03's `RawOp.compile` -/

/-- `to_universal_circuit` (`clifford.py:180-190`) as a raw C03 gate list: one-qubit gates as `single_qubit_gate(G, q)`,
two-qubit gates as `controlled_single_qubit_gate(base, q0, q1)`; the arrays are the flat row-major matrices -/
def exportRaw (I h : R) (g : Gate) : RawOp R :=
  match g.idx with
  | [q] => .unitary (tabulateMat (k := 1) ((if g.key = .H then h else 1) • gateMat1 I g.key)) [(q : Int)]
  | [q0, q1] => .control (tabulateMat (k := 1) (gateMat1 I g.key.base)) [(q0 : Int)] [(q1 : Int)]
  | _ => .custom #[]

/-- whatever C03's index resolution returns for an exported gate realises the recorded gate -/
theorem compile_exportRaw (I h : R) (n : Nat) (g : Gate) (hlen : g.idx.length = g.key.arity)
    (hlt : ∀ q ∈ g.idx, q < n) (op : Numqi.Op n R) (hc : (exportRaw I h g).compile n = some op) :
    OpRealises I h g op := by
  refine ⟨C03.compile_wf n _ op hc, ?_⟩
  obtain ⟨key, idx⟩ := g
  simp only at hlen hlt
  have ha1 : key.arity ≥ 1 := by cases key <;> decide
  have ha2 : key.arity ≤ 2 := by cases key <;> decide
  cases n with
  | zero => simp [RawOp.compile] at hc
  | succ n =>
    rcases idx with _ | ⟨q0, _ | ⟨q1, _ | ⟨q2, rest⟩⟩⟩
    · simp at hlen; omega
    · have hq : q0 < n + 1 := hlt q0 (by simp)
      simp only [exportRaw] at hc
      simp only [gateMatrixN, dif_pos hq]
      generalize (if key = GateKey.H then h else 1) = c at hc ⊢
      simp only [RawOp.compile] at hc
      split at hc
      · cases hc
        simp only [Op.matrix]
        congr 2
        · exact lookupMat_tabulateMat (k := 1) _
        · funext j
          apply Fin.ext
          obtain ⟨jv, hjv⟩ := j
          have hj0 : jv = 0 := by have : jv < 1 := hjv; omega
          subst hj0
          have := mkTarget_val (n := n) (t := [(q0 : Int)]) (by intro x hx; simp at hx; subst hx; omega) ⟨0, hjv⟩
          simp only [List.getElem_cons_zero] at this
          exact_mod_cast this
      · cases hc
    · have hq0 : q0 < n + 1 := hlt q0 (by simp)
      have hq1 : q1 < n + 1 := hlt q1 (by simp)
      simp only [exportRaw, RawOp.compile] at hc
      split at hc
      · cases hc
      · rename_i n' hlen'
        split at hc
        · rename_i hcond
          simp only [Bool.and_eq_true, validIndex_iff] at hcond
          cases hc
          obtain ⟨_, _, _, h4⟩ := ctrl_data (n' := n') hlen' hcond.1.1.1 hcond.1.1.2
          simp only [Op.matrix, gateMatrixN, dif_pos (And.intro hq0 hq1)]
          congr 2
          · exact lookupMat_tabulateMat (k := 1) _
          · funext i
            rw [List.contains_cons, List.contains_nil, Bool.or_false, Bool.eq_iff_iff]
            simp only [beq_iff_eq, decide_eq_true_eq]
            exact Int.natCast_inj
          · funext j
            apply Fin.ext
            obtain ⟨jv, hjv⟩ := j
            have hj0 : jv = 0 := by have : jv < 1 := hjv; omega
            subst hj0
            have := h4 ⟨0, hjv⟩
            simp only [List.getElem_cons_zero] at this
            exact_mod_cast this
        · cases hc
    · simp at hlen; omega

/-- C03's index resolution of the whole exported circuit realises the record gate by gate -/
theorem compileCircuit_export (I h : R) (n : Nat) (gates : List Gate) (hwf : GatesWF gates)
    (hlt : ∀ g ∈ gates, ∀ q ∈ g.idx, q < n) (ops : List (Numqi.Op n R))
    (hc : compileCircuit n (gates.map (exportRaw I h)) = some ops) :
    List.Forall₂ (OpRealises I h) gates ops := by
  induction gates generalizing ops with
  | nil =>
    simp [compileCircuit] at hc
    subst hc; exact List.Forall₂.nil
  | cons g gates ih =>
    simp only [compileCircuit, List.map_cons, List.mapM_cons, Option.bind_eq_bind, Option.pure_def] at hc
    cases h1 : (exportRaw I h g).compile n with
    | none => simp [h1] at hc
    | some op =>
      cases h2 : (gates.map (exportRaw I h)).mapM (RawOp.compile n) with
      | none => simp [h1, h2] at hc
      | some ops' =>
        simp only [h1, h2, Option.bind_some, Option.some.injEq] at hc
        subst hc
        exact List.Forall₂.cons
          (compile_exportRaw I h n g (hwf g List.mem_cons_self).1 (hlt g List.mem_cons_self) op h1)
          (ih (fun g' hg' => hwf g' (List.mem_cons_of_mem _ hg')) (fun g' hg' => hlt g' (List.mem_cons_of_mem _ hg'))
            ops' h2)

/-- **End to end, against C03**: `U` is `Circuit.to_unitary` of the exported universal circuit as resolved by C03's
model (`compileCircuit`), for which C03 proves `toUnitary = product of the embedded gate operators`. -/
theorem circuit_conjugation_toUnitary {I : R} (hI : I * I = -1) (h : R) (gates : List Gate) (hwf : GatesWF gates)
    (t : Tab) (ht : symplecticOf gates = .ok t) :
    ∃ n, numQubit gates = .ok n ∧ t.n = n ∧
      ∀ ops : List (Numqi.Op n R), compileCircuit n (gates.map (exportRaw I h)) = some ops →
        ∀ p : PauliB, p.v < 4 ^ n →
          PM n I p * Matrix.of (toUnitary ops) = Matrix.of (toUnitary ops) * PM n I (applyOnPauli p t) := by
  obtain ⟨n, h1, h2, h3⟩ := circuit_conjugation_all hI h gates hwf t ht
  refine ⟨n, h1, h2, fun ops hc p hp => ?_⟩
  rw [toUnitary_eq_circuitUnitary I h gates ops
    (compileCircuit_export I h n gates hwf (fun g hg q hq => numQubit_spec h1 g hg q hq) ops hc)]
  exact h3 p hp

/-- the exported circuit is accepted by C03's index resolution (so the theorem above is not vacuous) -/
theorem compile_exportRaw_isSome (I h : R) (n : Nat) (g : Gate) (hlen : g.idx.length = g.key.arity)
    (hnd : g.idx.Nodup) (hlt : ∀ q ∈ g.idx, q < n) : ((exportRaw I h g).compile n).isSome = true := by
  obtain ⟨key, idx⟩ := g
  simp only at hlen hlt hnd
  have ha1 : key.arity ≥ 1 := by cases key <;> decide
  have ha2 : key.arity ≤ 2 := by cases key <;> decide
  rcases idx with _ | ⟨q0, _ | ⟨q1, _ | ⟨q2, rest⟩⟩⟩
  · simp at hlen; omega
  · have hq : q0 < n := hlt q0 (by simp)
    obtain ⟨n, rfl⟩ : ∃ m, n = m + 1 := ⟨n - 1, by omega⟩
    simp only [exportRaw]
    generalize (if key = GateKey.H then h else 1) = c
    simp only [RawOp.compile]
    have hsize : (tabulateMat (k := 1) (c • gateMat1 I key)).size = 2 ^ 1 * 2 ^ 1 := by simp [tabulateMat]
    have hval : validIndex (n + 1) [(q0 : Int)] = true := by
      rw [validIndex_iff]; refine ⟨?_, by simp⟩
      intro x hx; simp at hx; subst hx; omega
    rw [if_pos]
    · rfl
    · simp only [hval, Bool.true_and, Bool.and_eq_true, decide_eq_true_eq, beq_iff_eq]
      exact ⟨by simp, hsize⟩
  · have hq0 : q0 < n := hlt q0 (by simp)
    have hq1 : q1 < n := hlt q1 (by simp)
    have hne : q0 ≠ q1 := by intro e; subst e; simp at hnd
    obtain ⟨n, rfl⟩ : ∃ m, n = m + 1 := ⟨n - 1, by omega⟩
    simp only [exportRaw, RawOp.compile]
    have hmem : q1 ∈ freeQubits (n + 1) [(q0 : Int)] := by
      rw [freeQubits_mem]; refine ⟨hq1, ?_⟩
      rw [List.contains_cons, List.contains_nil, Bool.or_false]
      simp only [beq_eq_false_iff_ne, ne_eq]
      exact fun e => hne (Int.natCast_inj.1 e).symm
    have hpos : (freeQubits (n + 1) [(q0 : Int)]).length ≠ 0 := by
      intro e; rw [List.length_eq_zero_iff] at e; rw [e] at hmem; cases hmem
    obtain ⟨n', hn'⟩ : ∃ m, (freeQubits (n + 1) [(q0 : Int)]).length = m + 1 :=
      ⟨(freeQubits (n + 1) [(q0 : Int)]).length - 1, by omega⟩
    have hsize : (tabulateMat (k := 1) (gateMat1 I key.base)).size = 2 ^ 1 * 2 ^ 1 := by simp [tabulateMat]
    have hval : validIndex (n + 1) ([(q0 : Int)] ++ [(q1 : Int)]) = true := by
      rw [validIndex_iff]; refine ⟨?_, ?_⟩
      · intro x hx; simp at hx; rcases hx with hx | hx <;> subst hx <;> omega
      · simp only [List.cons_append, List.nil_append, List.nodup_cons, List.mem_singleton, List.not_mem_nil,
          not_false_eq_true, List.nodup_nil, and_true]
        exact fun e => hne (Int.natCast_inj.1 e)
    split
    · rename_i e; exact absurd e hpos
    · rw [if_pos]
      · rfl
      · simp only [hval, Bool.true_and, Bool.and_eq_true, decide_eq_true_eq, beq_iff_eq]
        exact ⟨by simp, hsize⟩
  · simp at hlen; omega

theorem compileCircuit_export_isSome (I h : R) (n : Nat) (gates : List Gate) (hwf : GatesWF gates)
    (hlt : ∀ g ∈ gates, ∀ q ∈ g.idx, q < n) :
    ∃ ops : List (Numqi.Op n R), compileCircuit n (gates.map (exportRaw I h)) = some ops := by
  induction gates with
  | nil => exact ⟨[], rfl⟩
  | cons g gates ih =>
    obtain ⟨ops, hops⟩ := ih (fun g' hg' => hwf g' (List.mem_cons_of_mem _ hg'))
      (fun g' hg' => hlt g' (List.mem_cons_of_mem _ hg'))
    obtain ⟨w1, w2⟩ := hwf g List.mem_cons_self
    have := compile_exportRaw_isSome I h n g w1 w2 (hlt g List.mem_cons_self)
    obtain ⟨op, hop⟩ := Option.isSome_iff_exists.1 this
    refine ⟨op :: ops, ?_⟩
    simp only [compileCircuit] at hops ⊢
    simp [List.mapM_cons, hop, hops]

/-! ### unitarity (star ring with `star I = -I`; `h` real with `2 h² = 1`) -/

theorem sum_bits1 (f : Bits 1 → R) : ∑ w, f w = f (fun _ => false) + f (fun _ => true) := by
  rw [← Equiv.sum_comp (Equiv.funUnique (Fin 1) Bool).symm]
  simp [Fintype.sum_bool, add_comm]
  rfl

theorem gateMat1_unitary [StarRing R] {I h : R} (hI : I * I = -1) (hs : star I = -I) (hh : star h = h)
    (h2 : 2 * (h * h) = 1) (key : GateKey) (hk : key.arity = 1) :
    ((if key = .H then h else 1) • gateMat1 I key) ∈ Matrix.unitaryGroup (Bits 1) R := by
  rw [Matrix.mem_unitaryGroup_iff]
  ext a b
  rw [Matrix.mul_apply, sum_bits1]
  simp only [Matrix.star_apply, Matrix.smul_apply, Matrix.one_apply, gateMat1, Bits.toNat, smul_eq_mul]
  have hab : (a = b) ↔ a 0 = b 0 := by
    constructor
    · intro e; rw [e]
    · intro e; funext j; rw [Fin.fin_one_eq_zero j]; exact e
  cases key <;> simp [GateKey.arity] at hk <;>
    rcases Bool.eq_false_or_eq_true (a 0) with ha | ha <;> rcases Bool.eq_false_or_eq_true (b 0) with hb | hb <;>
    simp [ha, hb, hab, Mat.get, GateKey.mat, gintTo, hs, hh, hI] <;>
    linear_combination h2

theorem gateMatrixN_unitary [StarRing R] {I h : R} (hI : I * I = -1) (hs : star I = -I) (hh : star h = h)
    (h2 : 2 * (h * h) = 1) (n : Nat) (g : Gate) (hlen : g.idx.length = g.key.arity) (hnd : g.idx.Nodup) :
    gateMatrixN I h n g ∈ Matrix.unitaryGroup (Bits n) R := by
  obtain ⟨key, idx⟩ := g
  simp only at hlen hnd
  have ha1 : key.arity ≥ 1 := by cases key <;> decide
  have ha2 : key.arity ≤ 2 := by cases key <;> decide
  rcases idx with _ | ⟨q0, _ | ⟨q1, _ | ⟨q2, rest⟩⟩⟩
  · simp at hlen; omega
  · have hk : key.arity = 1 := by simpa using hlen.symm
    simp only [gateMatrixN]
    split
    · exact C03.embed_unitary (fun a b _ => Subsingleton.elim a b) (gateMat1_unitary hI hs hh h2 key hk)
    · exact one_mem _
  · have hk : key.arity = 2 := by simpa using hlen.symm
    have hne : q0 ≠ q1 := by intro e; subst e; simp at hnd
    have hb : key.base.arity = 1 := by cases key <;> simp [GateKey.arity] at hk <;> rfl
    have hbH : key.base ≠ .H := by cases key <;> simp [GateKey.arity] at hk <;> simp [GateKey.base]
    simp only [gateMatrixN]
    split
    · have hu := gateMat1_unitary hI hs hh h2 key.base hb
      rw [if_neg hbH, one_smul] at hu
      refine C03.ctrlEmbed_unitary (fun a b _ => Subsingleton.elim a b) ?_ hu
      intro j; simp only [decide_eq_false_iff_not]; exact fun e => hne e.symm
    · exact one_mem _
  · simp at hlen; omega

/-- the unitary of the exported circuit is unitary -/
theorem circuitUnitary_unitary [StarRing R] {I h : R} (hI : I * I = -1) (hs : star I = -I) (hh : star h = h)
    (h2 : 2 * (h * h) = 1) (n : Nat) (gates : List Gate) (hwf : GatesWF gates) :
    circuitUnitary I h n gates ∈ Matrix.unitaryGroup (Bits n) R := by
  induction gates with
  | nil => simp [circuitUnitary]
  | cons g gates ih =>
    rw [circuitUnitary_cons]
    obtain ⟨w1, w2⟩ := hwf g List.mem_cons_self
    exact mul_mem (ih (fun g' hg' => hwf g' (List.mem_cons_of_mem _ hg'))) (gateMatrixN_unitary hI hs hh h2 n g w1 w2)

/-- **`circuit_conjugation`**: over a commutative star ring with `I² = −1`, `star I = −I` and a real `h` with `2h² = 1`
(`ℂ`, `I = Complex.I`, `h = 1/√2`): for every well-formed recorded gate list and every phased Pauli `P` on its `n` qubits,
the tableau simulator's answer is `U† P U` with `U` the unitary of the exported universal circuit, phase included. -/
theorem circuit_conjugation_star [StarRing R] {I h : R} (hI : I * I = -1) (hs : star I = -I) (hh : star h = h)
    (h2 : 2 * (h * h) = 1) (gates : List Gate) (hwf : GatesWF gates) (t : Tab) (ht : symplecticOf gates = .ok t) :
    ∃ n, numQubit gates = .ok n ∧ t.n = n ∧ ∀ p : PauliB, p.v < 4 ^ n →
      (circuitUnitary I h n gates)ᴴ * PM n I p * circuitUnitary I h n gates = PM n I (applyOnPauli p t) := by
  obtain ⟨n, h1, h3, h4⟩ := circuit_conjugation_all hI h gates hwf t ht
  refine ⟨n, h1, h3, fun p hp => ?_⟩
  have hU := circuitUnitary_unitary hI hs hh h2 n gates hwf
  rw [Matrix.mem_unitaryGroup_iff', Matrix.star_eq_conjTranspose] at hU
  exact conj_of_inter _ _ _ hU (h4 p hp)

/-! ### `clifford_array_to_F2`: a tableau built from the images of the generators reproduces the conjugation -/

theorem mapM_option_spec {α β : Type} (f : α → Option β) (d : β) (l : List α) (out : List β)
    (h : l.mapM f = some out) :
    out.length = l.length ∧ ∀ i (hi : i < l.length), f l[i] = some (out.getD i d) := by
  induction l generalizing out with
  | nil =>
    simp at h; subst h; exact ⟨rfl, fun i hi => by simp at hi⟩
  | cons a l ih =>
    simp only [List.mapM_cons, Option.bind_eq_bind, Option.pure_def] at h
    cases h1 : f a with
    | none => simp [h1] at h
    | some b =>
      cases h2 : l.mapM f with
      | none => simp [h1, h2] at h
      | some bs =>
        simp only [h1, h2, Option.bind_some, Option.some.injEq] at h
        subst h
        obtain ⟨e1, e2⟩ := ih bs h2
        refine ⟨by simp [e1], ?_⟩
        intro i hi
        cases i with
        | zero => simpa using h1
        | succ i =>
          have := e2 i (by simpa using hi)
          simpa using this

/-- what `clifford_array_to_F2` returns: the tableau stored from the images recognised by `from_full_matrix` -/
theorem arrayToF2_spec {k : Nat} {U : Mat} {T : Tab} (h : arrayToF2 k U = some T) :
    ∃ imgs : List PauliB, imgs.length = 2 * k ∧ T = tabOfImages k imgs ∧
      ∀ j, j < 2 * k → ofFullMatrix k ((Mat.mul (2 ^ k) U (Mat.dagger (2 ^ k) U)).get 0 0)
        (Mat.mul (2 ^ k) (Mat.mul (2 ^ k) U (pauliMat k (genPauli k (j % k) (decide (k ≤ j))))) (Mat.dagger (2 ^ k) U))
          = some (imgs.getD j ⟨false, false, 0⟩) := by
  unfold arrayToF2 at h
  simp only at h
  split at h
  · cases h
  · split at h
    · cases h
    · rename_i imgs hm
      cases h
      obtain ⟨e1, e2⟩ := mapM_option_spec _ ⟨false, false, 0⟩ _ imgs hm
      refine ⟨imgs, by simpa using e1, rfl, fun j hj => ?_⟩
      have := e2 j (by simpa using hj)
      simpa using this

/-- the image stored for generator `j` is recovered from the tableau, provided it is Hermitian (`s1 = x·z mod 2`, which
holds for `U X U†`, `U Z U†`) -/
theorem genImage_tabOfImages (k : Nat) (imgs : List PauliB) (j : Nat) (hj : j < 2 * k)
    (hherm : (imgs.getD j ⟨false, false, 0⟩).s1 =
      (cnt k (imgs.getD j ⟨false, false, 0⟩).v ((imgs.getD j ⟨false, false, 0⟩).v >>> k) % 2 == 1)) :
    genImage (tabOfImages k imgs) j = imgs.getD j ⟨false, false, 0⟩ := by
  set b := imgs.getD j ⟨false, false, 0⟩ with hb
  have hcol : (tabOfImages k imgs).cols.getD j 0 = b.v := by
    simp only [tabOfImages]; rw [getD_map_range' _ _ _ hj]
  have hd : (tabOfImages k imgs).d j = cnt k b.v (b.v >>> k) := by
    simp only [Tab.d, hcol]; rfl
  have hr : (tabOfImages k imgs).r.testBit j = ((b.s0.toNat + (cnt k b.v (b.v >>> k) % 4) / 2) % 2 == 1) := by
    simp only [tabOfImages]; rw [SpF2.testBit_ofFn]; simp [hj, hb]
  obtain ⟨s0, s1, v⟩ := b
  simp only at hherm hcol hd hr
  simp only [genImage, hd, hr, hcol, hherm, toNat_beq_one]
  congr 1
  generalize cnt k v (v >>> k) = D
  cases s0 <;> simp <;> omega

/-- **Tableau extraction is sound.**  Let `T` be the tableau stored from Hermitian images `W_j` (`j < 2n`), symplectic, and
let `U` satisfy `U · X_j = W_j · U`, `U · Z_j = W_{n+j} · U` (i.e. `W = U g U†`).  Then for every phased Pauli `P`:
`U · P = apply(P, T) · U`, i.e. `apply_clifford_on_pauli(P, clifford_array_to_F2(U))` is the F2 form of `U P U†`. -/
theorem tableau_of_images {n : Nat} {I : R} (hI : I * I = -1) (imgs : List PauliB)
    (hherm : ∀ j, j < 2 * n → (imgs.getD j ⟨false, false, 0⟩).s1 =
      (cnt n (imgs.getD j ⟨false, false, 0⟩).v ((imgs.getD j ⟨false, false, 0⟩).v >>> n) % 2 == 1))
    (hsp : (tabOfImages n imgs).colSp = true) (U : Matrix (Bits n) (Bits n) R)
    (himg : ∀ j, j < 2 * n → U * PM n I (gen j) = PM n I (imgs.getD j ⟨false, false, 0⟩) * U)
    (p : PauliB) (hp : p.v < 4 ^ n) :
    U * PM n I p = PM n I (applyOnPauli p (tabOfImages n imgs)) * U := by
  refine inter_of_gens_n' (n := n) hI (tabOfImages n imgs) rfl hsp U ?_ p hp
  intro j hj
  rw [apply_gen _ j hj, genImage_tabOfImages n imgs j hj (hherm j hj)]
  exact himg j hj

/-- with a unitary `U`: `U P U† = apply(P, T)` -/
theorem tableau_of_images_unitary [StarRing R] {n : Nat} {I : R} (hI : I * I = -1) (imgs : List PauliB)
    (hherm : ∀ j, j < 2 * n → (imgs.getD j ⟨false, false, 0⟩).s1 =
      (cnt n (imgs.getD j ⟨false, false, 0⟩).v ((imgs.getD j ⟨false, false, 0⟩).v >>> n) % 2 == 1))
    (hsp : (tabOfImages n imgs).colSp = true) (U : Matrix (Bits n) (Bits n) R) (hU : U * Uᴴ = 1)
    (himg : ∀ j, j < 2 * n → U * PM n I (gen j) * Uᴴ = PM n I (imgs.getD j ⟨false, false, 0⟩))
    (p : PauliB) (hp : p.v < 4 ^ n) :
    U * PM n I p * Uᴴ = PM n I (applyOnPauli p (tabOfImages n imgs)) := by
  have hU' : Uᴴ * U = 1 := mul_eq_one_comm.mp hU
  have := tableau_of_images hI imgs hherm hsp U (fun j hj => by
    rw [← himg j hj, Matrix.mul_assoc, hU', Matrix.mul_one]) p hp
  rw [this, Matrix.mul_assoc, hU, Matrix.mul_one]

end Numqi.Clifford
