/-
C19: the bound `int(np.ceil((distance-nxy)/weight_z))` computed in binary64 (model `fceilDiv`) is the exact
ceiling or one less, and what that means for `make_asymmetric_error_set` with a non-dyadic `weight_z`.
-/
import NumqiProofs.QecAsym
import Mathlib.Data.Rat.Floor
import Mathlib.Algebra.Order.Floor.Ring

namespace Numqi.Qec

theorem rat_floor_eq (r : ℚ) : r.floor = ⌊r⌋ := rfl

theorem ratCeil_eq (r : ℚ) : ratCeil r = ⌈r⌉ := by
  unfold ratCeil; rw [rat_floor_eq, Int.floor_neg, neg_neg]

/-- rounding to the nearest integer stays between any two integers that enclose the argument -/
theorem roundHalfEven_between (r : ℚ) (A B : ℤ) (hA : (A : ℚ) ≤ r) (hB : r ≤ (B : ℚ)) :
    A ≤ roundHalfEven r ∧ roundHalfEven r ≤ B := by
  have hf : A ≤ ⌊r⌋ := Int.le_floor.2 hA
  have hfl : (⌊r⌋ : ℚ) ≤ r := Int.floor_le r
  have hcases : roundHalfEven r = r.floor ∨ (roundHalfEven r = r.floor + 1 ∧ r - (r.floor : ℚ) ≠ 0) := by
    unfold roundHalfEven
    simp only
    by_cases h1 : r - (r.floor : ℚ) < 1 / 2
    · left; rw [if_pos h1]
    · rw [if_neg h1]
      have hne : r - (r.floor : ℚ) ≠ 0 := fun e => by rw [e] at h1; norm_num at h1
      by_cases h2 : 1 / 2 < r - (r.floor : ℚ)
      · right; rw [if_pos h2]; exact ⟨rfl, hne⟩
      · rw [if_neg h2]
        by_cases h3 : r.floor % 2 = 0
        · left; rw [if_pos h3]
        · right; rw [if_neg h3]; exact ⟨rfl, hne⟩
  rw [rat_floor_eq] at hcases
  have hup : r - ⌊r⌋ ≠ 0 → ⌊r⌋ + 1 ≤ B := by
    intro hne
    have : (⌊r⌋ : ℚ) < r := lt_of_le_of_ne hfl (fun e => hne (by rw [e]; ring))
    have : (⌊r⌋ : ℚ) < B := lt_of_lt_of_le this hB
    have : ⌊r⌋ < B := by exact_mod_cast this
    omega
  have hlo : ⌊r⌋ ≤ B := by
    have : (⌊r⌋ : ℚ) ≤ B := le_trans hfl hB
    exact_mod_cast this
  rcases hcases with h | ⟨h, hne⟩
  · rw [h]; exact ⟨hf, hlo⟩
  · rw [h]; exact ⟨by omega, hup hne⟩

theorem ratTwoPow_nonneg (k : Nat) : ratTwoPow (Int.ofNat k) = ((2 ^ k : ℕ) : ℚ) := by
  simp [ratTwoPow]

/-- **the binary64 quotient lies between the floor and the ceiling of the exact quotient**
(quotients below `2^53`, i.e. non-negative shift): consequently `ceil` of it is `⌈q⌉` or `⌈q⌉ - 1`. -/
theorem f64Round_between (q : ℚ) (hq : 0 < q) (ht : 0 ≤ f64Shift q) :
    (⌊q⌋ : ℚ) ≤ f64Round q ∧ f64Round q ≤ (⌈q⌉ : ℚ) := by
  unfold f64Round
  rw [if_neg (not_le.2 hq)]
  simp only
  obtain ⟨k, hk⟩ := Int.eq_ofNat_of_zero_le ht
  rw [hk]
  have hS : ratTwoPow (Int.ofNat k) = ((2 ^ k : ℕ) : ℚ) := ratTwoPow_nonneg k
  rw [show ratTwoPow ((k : ℕ) : ℤ) = ((2 ^ k : ℕ) : ℚ) from hS]
  have hSpos : (0 : ℚ) < ((2 ^ k : ℕ) : ℚ) := by positivity
  have hb := roundHalfEven_between (q * ((2 ^ k : ℕ) : ℚ)) (⌊q⌋ * (2 ^ k : ℕ)) (⌈q⌉ * (2 ^ k : ℕ))
    (by push_cast; exact mul_le_mul_of_nonneg_right (Int.floor_le q) (by positivity))
    (by push_cast; exact mul_le_mul_of_nonneg_right (Int.le_ceil q) (by positivity))
  constructor
  · rw [le_div_iff₀ hSpos]
    have : ((⌊q⌋ * ((2 ^ k : ℕ) : ℤ) : ℤ) : ℚ) ≤ (roundHalfEven (q * ((2 ^ k : ℕ) : ℚ)) : ℚ) := by exact_mod_cast hb.1
    push_cast at this ⊢
    exact this
  · rw [div_le_iff₀ hSpos]
    have : (roundHalfEven (q * ((2 ^ k : ℕ) : ℚ)) : ℚ) ≤ ((⌈q⌉ * ((2 ^ k : ℕ) : ℤ) : ℤ) : ℚ) := by exact_mod_cast hb.2
    push_cast at this ⊢
    exact this

/-- `int(np.ceil(a / w))` in binary64 is the exact `⌈a / w⌉` or one less (never more) -/
theorem fceilDiv_bounds (a wBits : Nat) (hw : 0 < ratOfFloatBits wBits) (ha : 0 < a)
    (ht : 0 ≤ f64Shift (((a : ℤ) : ℚ) / ratOfFloatBits wBits)) :
    (fceilDiv a wBits : ℤ) ≤ ⌈((a : ℤ) : ℚ) / ratOfFloatBits wBits⌉
    ∧ ⌈((a : ℤ) : ℚ) / ratOfFloatBits wBits⌉ - 1 ≤ (fceilDiv a wBits : ℤ) := by
  set q : ℚ := ((a : ℤ) : ℚ) / ratOfFloatBits wBits with hqd
  have hq : 0 < q := by
    apply div_pos _ hw
    exact_mod_cast ha
  obtain ⟨h1, h2⟩ := f64Round_between q hq ht
  unfold fceilDiv
  rw [ratCeil_eq, ← hqd]
  have hc1 : ⌈f64Round q⌉ ≤ ⌈q⌉ := Int.ceil_le.2 h2
  have hc2 : ⌊q⌋ ≤ ⌈f64Round q⌉ := by
    have : (⌊q⌋ : ℚ) ≤ (⌈f64Round q⌉ : ℚ) := le_trans h1 (Int.le_ceil _)
    exact_mod_cast this
  have hc3 : ⌈q⌉ ≤ ⌊q⌋ + 1 := Int.ceil_le_floor_add_one q
  have hpos : 0 ≤ ⌈f64Round q⌉ := le_trans (Int.floor_nonneg.2 hq.le) hc2
  rw [Int.toNat_of_nonneg hpos]
  exact ⟨hc1, by omega⟩

/-- **`make_asymmetric_error_set` with a binary64 `weight_z = w`** (any positive finite double, quotients
`(d - nxy)/w < 2^53`).  With `w` taken at its exact rational value:
* every generated string is a non-identity Pauli string with `n_x + n_y + w·n_z < d` (never an operator too many);
* every non-identity Pauli string that stays below the bound with one more `Z`, `n_x + n_y + w·(n_z + 1) < d`,
  is generated — the only strings that rounding of `(d - nxy)/w` can drop are those within one `Z` of the bound
  (it happens exactly when the quotient rounds down to an integer, e.g. `w = 0.3`, `d - nxy = 3`);
* no string is generated twice. -/
theorem asym_float_spec (n d wBits : Nat) (hw : 0 < ratOfFloatBits wBits)
    (ht : ∀ a : Nat, 0 < a → a ≤ d → 0 ≤ f64Shift (((a : ℤ) : ℚ) / ratOfFloatBits wBits)) :
    (∀ s ∈ (asymErrorSetF n d wBits).map (sparseToSyms n), s.length = n ∧ (∀ x ∈ s, x < 4)
        ∧ cnt 1 s + cnt 2 s + cnt 3 s ≠ 0
        ∧ ((cnt 1 s + cnt 2 s : ℕ) : ℚ) + ratOfFloatBits wBits * (cnt 3 s : ℕ) < d)
    ∧ (∀ s : List Nat, s.length = n → (∀ x ∈ s, x < 4) → cnt 1 s + cnt 2 s + cnt 3 s ≠ 0 →
        ((cnt 1 s + cnt 2 s : ℕ) : ℚ) + ratOfFloatBits wBits * ((cnt 3 s : ℕ) + 1) < d →
        s ∈ (asymErrorSetF n d wBits).map (sparseToSyms n))
    ∧ ((asymErrorSetF n d wBits).map (sparseToSyms n)).Nodup := by
  refine ⟨?_, ?_, asymB_nodup n d _⟩
  · intro s hs
    unfold asymErrorSetF at hs
    rw [mem_asymB_strings] at hs
    obtain ⟨hl, h4, hne, hd, hb⟩ := hs
    refine ⟨hl, h4, hne, ?_⟩
    have hapos : 0 < d - (cnt 1 s + cnt 2 s) := by omega
    obtain ⟨hub, _⟩ := fceilDiv_bounds (d - (cnt 1 s + cnt 2 s)) wBits hw hapos (ht _ hapos (by omega))
    have h1 : ((cnt 3 s : ℕ) : ℤ) < ⌈(((d - (cnt 1 s + cnt 2 s) : ℕ) : ℤ) : ℚ) / ratOfFloatBits wBits⌉ := by
      have : ((cnt 3 s : ℕ) : ℤ) < (fceilDiv (d - (cnt 1 s + cnt 2 s)) wBits : ℤ) := by exact_mod_cast hb
      omega
    rw [Int.lt_ceil, lt_div_iff₀ hw] at h1
    have hc : (((d - (cnt 1 s + cnt 2 s) : ℕ) : ℤ) : ℚ) = (d : ℚ) - ((cnt 1 s + cnt 2 s : ℕ) : ℚ) := by
      push_cast [Nat.cast_sub (le_of_lt hd)]; ring
    rw [hc] at h1
    push_cast at h1 ⊢
    linarith
  · intro s hl h4 hne hc
    unfold asymErrorSetF
    rw [mem_asymB_strings]
    have hwpos : 0 < ratOfFloatBits wBits * (((cnt 3 s : ℕ) : ℚ) + 1) := mul_pos hw (by positivity)
    have hd : cnt 1 s + cnt 2 s < d := by
      have : ((cnt 1 s + cnt 2 s : ℕ) : ℚ) < d := by linarith
      exact_mod_cast this
    refine ⟨hl, h4, hne, hd, ?_⟩
    have hapos : 0 < d - (cnt 1 s + cnt 2 s) := by omega
    obtain ⟨_, hlb⟩ := fceilDiv_bounds (d - (cnt 1 s + cnt 2 s)) wBits hw hapos (ht _ hapos (by omega))
    have hcast : (((d - (cnt 1 s + cnt 2 s) : ℕ) : ℤ) : ℚ) = (d : ℚ) - ((cnt 1 s + cnt 2 s : ℕ) : ℚ) := by
      push_cast [Nat.cast_sub (le_of_lt hd)]; ring
    have h1 : (((cnt 3 s : ℕ) + 1 : ℕ) : ℤ) < ⌈(((d - (cnt 1 s + cnt 2 s) : ℕ) : ℤ) : ℚ) / ratOfFloatBits wBits⌉ := by
      rw [Int.lt_ceil, lt_div_iff₀ hw, hcast]
      push_cast at hc ⊢
      linarith
    have : ((cnt 3 s : ℕ) : ℤ) < (fceilDiv (d - (cnt 1 s + cnt 2 s)) wBits : ℤ) := by
      rw [Nat.cast_add, Nat.cast_one] at h1; omega
    exact_mod_cast this

end Numqi.Qec
