/-
C07: the executed dense constants (`gateOpG`, `pauliEntG`) are the matrices of the all-n theorems under ℤ[i] → R.
-/
import NumqiProofs.CliffordGates
namespace Numqi.Clifford
open Numqi Matrix
variable {R : Type} [CommRing R]

/-! ### `ℤ[i] → R`: the carrier map under which the executed dense constants are the matrices of the theorems -/

theorem gintTo_zero (I : R) : gintTo I 0 = 0 := by
  show ((0 : Int) : R) + ((0 : Int) : R) * I = 0; simp
theorem gintTo_one (I : R) : gintTo I 1 = 1 := by
  show ((1 : Int) : R) + ((0 : Int) : R) * I = 1; simp
theorem gintTo_add (I : R) (a b : GInt) : gintTo I (a + b) = gintTo I a + gintTo I b := by
  show ((a.re + b.re : Int) : R) + ((a.im + b.im : Int) : R) * I = _
  simp only [gintTo]; push_cast; ring
theorem gintTo_mul {I : R} (hI : I * I = -1) (a b : GInt) : gintTo I (a * b) = gintTo I a * gintTo I b := by
  show ((a.re * b.re - a.im * b.im : Int) : R) + ((a.re * b.im + a.im * b.re : Int) : R) * I = _
  simp only [gintTo]; push_cast
  linear_combination (-(a.im : R) * (b.im : R)) * hI
theorem gintTo_iPow {I : R} (hI : I * I = -1) (k : Nat) : gintTo I (GInt.iPow k) = I ^ k := by
  rw [← ipow_mod hI k]
  have h4 : k % 4 < 4 := Nat.mod_lt _ (by norm_num)
  have h2 : I ^ 2 = -1 := by rw [pow_two, hI]
  have h3 : I ^ 3 = -I := by rw [pow_succ, h2]; ring
  unfold GInt.iPow
  generalize k % 4 = r at *
  interval_cases r <;> simp [gintTo, h2, h3]

theorem gateMat1_eq (I : R) (key : GateKey) (a b : Bits 1) : gateMat1 I key a b = gintTo I (gateMat1G key a b) := rfl

/-- **the executed operator `gateOpG` (driver op `opmat`, tied to `Circuit.to_unitary`) is, entry by entry under
`ℤ[i] → R`, the operator `gateMatrixN` of `gate_conjugation_placed` / `circuit_conjugation`** (with `H` unnormalised) -/
theorem gateMatrixN_eq_gateOpG (I : R) (n : Nat) (g : Gate) :
    gateMatrixN I 1 n g = Matrix.of (fun x y => gintTo I (gateOpG n g x y)) := by
  have hid : (1 : Matrix (Bits n) (Bits n) R) =
      Matrix.of (fun x y => gintTo I (if Bits.beq x y then (1 : GInt) else 0)) := by
    ext x y
    simp only [Matrix.one_apply, Matrix.of_apply, Bits.beq_iff]
    split <;> simp [gintTo_one, gintTo_zero]
  obtain ⟨key, idx⟩ := g
  rcases idx with _ | ⟨q0, _ | ⟨q1, _ | ⟨q2, rest⟩⟩⟩
  · simp only [gateMatrixN, gateOpG]; exact hid
  · simp only [gateMatrixN, gateOpG]
    split
    · ext x y
      simp only [Matrix.of_apply, Numqi.embed, ite_self, one_smul]
      split
      · rfl
      · exact (gintTo_zero I).symm
    · exact hid
  · simp only [gateMatrixN, gateOpG]
    split
    · ext x y
      simp only [Matrix.of_apply, Numqi.ctrlEmbed, Numqi.embed]
      split
      · split
        · rfl
        · exact (gintTo_zero I).symm
      · split
        · exact (gintTo_one I).symm
        · exact (gintTo_zero I).symm
    · exact hid
  · simp only [gateMatrixN, gateOpG]; exact hid

/-- **the executed Pauli matrix `pauliEntG` (driver op `paulimat`, tied to `PauliOperator.full_matrix`) is C08's `mat`** -/
theorem PM_eq_pauliEntG {I : R} (hI : I * I = -1) (n : Nat) (p : PauliB) :
    PM n I p = Matrix.of (fun x y => gintTo I (pauliEntG n p x y)) := by
  ext x y
  simp only [PM, C08.mat, Matrix.of_apply, pauliEntG]
  cases (toPauli n p).matExp x y with
  | none => exact (gintTo_zero I).symm
  | some k => exact (gintTo_iPow hI k).symm

end Numqi.Clifford
