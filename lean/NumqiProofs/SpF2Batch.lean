/-
Batched transvection / inner product (`x.ndim ≥ 2`): elementwise over the leading axes, preserves the symplectic group.
-/
import NumqiProofs.SpF2Index

namespace Numqi.SpF2

theorem tvs_lt {n m : Nat} (hs : List Nat) : ∀ {x : Nat}, x < 2 ^ m → (∀ h ∈ hs, h < 2 ^ m) → tvs n x hs < 2 ^ m := by
  induction hs with
  | nil => intro x hx _; exact hx
  | cons h hs ih =>
    intro x hx hh
    show tvs n (tv n x h) hs < 2 ^ m
    exact ih (tv_lt hx (hh h (List.mem_cons_self ..))) (fun g hg => hh g (List.mem_cons_of_mem _ hg))

theorem tvsBatch_length (n : Nat) (rows hs : List Nat) : (tvsBatch n rows hs).length = rows.length := by
  simp [tvsBatch]

theorem tvsBatch_getD (n : Nat) (rows hs : List Nat) (i : Nat) (hi : i < rows.length) :
    (tvsBatch n rows hs).getD i 0 = tvs n (rows.getD i 0) hs := by
  unfold tvsBatch
  simp [List.getD_eq_getElem?_getD, List.getElem?_map, List.getElem?_eq_getElem hi]

theorem tvsBatch_flatten (n : Nat) (Ms : List (List Nat)) (hs : List Nat) :
    tvsBatch n Ms.flatten hs = (Ms.map fun M => tvsBatch n M hs).flatten := by
  simp [tvsBatch, List.map_flatten]

theorem ipBatch_getD (n : Nat) (rows : List Nat) (w i : Nat) (hi : i < rows.length) :
    (ipBatch n rows w).getD i false = ip n (rows.getD i 0) w := by
  unfold ipBatch
  simp [List.getD_eq_getElem?_getD, List.getElem?_map, List.getElem?_eq_getElem hi]

theorem tvsBatch_isSp (n : Nat) (M hs : List Nat) (h : isSp n M = true) (hh : ∀ g ∈ hs, g < 4 ^ n) :
    isSp n (tvsBatch n M hs) = true := by
  obtain ⟨⟨hlen, hlt⟩, hsp⟩ := (isSp_iff n M).1 h
  have e4 : (4 : Nat) ^ n = 2 ^ (2 * n) := by rw [show (4 : Nat) = 2 ^ 2 from rfl, ← Nat.pow_mul]
  refine (isSp_iff n _).2 ⟨⟨by rw [tvsBatch_length, hlen], ?_⟩, ?_⟩
  · intro k hk
    rw [tvsBatch_getD n M hs k (by omega), e4]
    exact tvs_lt hs (by rw [← e4]; exact hlt k hk) (fun g hg => by rw [← e4]; exact hh g hg)
  · intro i j hi hj
    rw [tvsBatch_getD n M hs i (by omega), tvsBatch_getD n M hs j (by omega), ip_tvs]
    exact hsp i j hi hj

end Numqi.SpF2
