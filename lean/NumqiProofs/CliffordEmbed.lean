/-
C07: an embedded symplectic tableau is symplectic (every register size, every valid placement); hence the
tableau of every recorded circuit acts as its gates one after the other, without further hypotheses.
-/
import NumqiProofs.CliffordAlgebra
namespace Numqi.Clifford

/-- position list `[q…, q+n…]` entry `a` -/
def idx (n : Nat) (qs : List Nat) (a : Nat) : Nat :=
  if a < qs.length then qs.getD a 0 else qs.getD (a - qs.length) 0 + n

theorem index_getD (n : Nat) (qs : List Nat) (a : Nat) (ha : a < 2 * qs.length) :
    (qs ++ qs.map (· + n)).getD a 0 = idx n qs a := by
  unfold idx
  by_cases h : a < qs.length
  · simp [List.getD_eq_getElem?_getD, List.getElem?_append_left h, h]
  · have h2 : qs.length ≤ a := by omega
    have h3 : a - qs.length < qs.length := by omega
    simp [List.getD_eq_getElem?_getD, List.getElem?_append_right h2, h, h3]

theorem om_pow_right (n u j : Nat) : om n u (2 ^ j) = if j < n ∧ u.testBit (n + j) = true then 1 else 0 := by
  unfold om
  rw [cnt_comm, cnt_pow_left, Nat.testBit_shiftRight]

theorem om_pow_pow (n i j : Nat) : om n (2 ^ i) (2 ^ j) = if j < n ∧ i = n + j then 1 else 0 := by
  rw [om_pow_right, Nat.testBit_two_pow]
  simp

structure ValidQs (n : Nat) (qs : List Nat) : Prop where
  nodup : qs.Nodup
  lt : ∀ q ∈ qs, q < n

theorem getD_mem {qs : List Nat} {a : Nat} (ha : a < qs.length) : qs.getD a 0 ∈ qs := by
  rw [List.getD_eq_getElem?_getD, List.getElem?_eq_getElem ha]; exact List.getElem_mem ha

theorem getD_inj {qs : List Nat} (h : qs.Nodup) {a b : Nat} (ha : a < qs.length) (hb : b < qs.length)
    (he : qs.getD a 0 = qs.getD b 0) : a = b := by
  rw [List.getD_eq_getElem?_getD, List.getD_eq_getElem?_getD, List.getElem?_eq_getElem ha,
    List.getElem?_eq_getElem hb] at he
  exact (List.Nodup.getElem_inj_iff h).1 (by simpa using he)

section valid
variable {n : Nat} {qs : List Nat} (hv : ValidQs n qs)
include hv

theorem idx_low {a : Nat} (ha : a < qs.length) : idx n qs a = qs.getD a 0 ∧ idx n qs a < n := by
  unfold idx; rw [if_pos ha]; exact ⟨rfl, hv.lt _ (getD_mem ha)⟩

theorem idx_high {a : Nat} (h1 : qs.length ≤ a) (h2 : a < 2 * qs.length) :
    idx n qs a = qs.getD (a - qs.length) 0 + n ∧ qs.getD (a - qs.length) 0 < n := by
  unfold idx; rw [if_neg (by omega)]; exact ⟨rfl, hv.lt _ (getD_mem (by omega))⟩

/-- `om` of two placed unit vectors is the local `om` of the unit vectors -/
theorem om_unit_unit {a a' : Nat} (ha : a < 2 * qs.length) (ha' : a' < 2 * qs.length) :
    om n (2 ^ idx n qs a) (2 ^ idx n qs a') = if a' < qs.length ∧ a = a' + qs.length then 1 else 0 := by
  rw [om_pow_pow]
  by_cases h' : a' < qs.length
  · obtain ⟨e', l'⟩ := idx_low hv h'
    by_cases h : a < qs.length
    · obtain ⟨e, l⟩ := idx_low hv h
      have : ¬ (idx n qs a = n + idx n qs a') := by omega
      have h2 : ¬ a = a' + qs.length := by omega
      simp [this, h2]
    · obtain ⟨e, l⟩ := idx_high hv (by omega) ha
      by_cases hc : a = a' + qs.length
      · subst hc
        have : a' + qs.length - qs.length = a' := by omega
        rw [this] at e
        have : idx n qs (a' + qs.length) = n + idx n qs a' := by omega
        simp [this, l', h']
      · have : ¬ idx n qs a = n + idx n qs a' := by
          intro hh
          have : qs.getD (a - qs.length) 0 = qs.getD a' 0 := by omega
          have := getD_inj hv.nodup (by omega) h' this
          omega
        simp [this, hc]
  · obtain ⟨e', l'⟩ := idx_high hv (by omega) ha'
    have : ¬ idx n qs a' < n := by omega
    simp [this, h']

/-- a unit vector outside the placed positions is `om`-orthogonal to every placed unit vector -/
theorem om_out_unit {j a : Nat} (hj : ∀ b, b < 2 * qs.length → idx n qs b ≠ j) (ha : a < 2 * qs.length) :
    om n (2 ^ j) (2 ^ idx n qs a) = 0 ∧ om n (2 ^ idx n qs a) (2 ^ j) = 0 := by
  rw [om_pow_pow, om_pow_pow]
  constructor
  · by_cases h : a < qs.length
    · obtain ⟨e, l⟩ := idx_low hv h
      have := hj (a + qs.length) (by omega)
      obtain ⟨e2, _⟩ := idx_high hv (a := a + qs.length) (by omega) (by omega)
      have e3 : a + qs.length - qs.length = a := by omega
      rw [e3] at e2
      have : ¬ j = n + idx n qs a := by omega
      simp [this]
    · obtain ⟨e, l⟩ := idx_high hv (by omega) ha
      have : ¬ idx n qs a < n := by omega
      simp [this]
  · by_cases h : a < qs.length
    · obtain ⟨e, l⟩ := idx_low hv h
      have : ¬ idx n qs a = n + j := by omega
      simp [this]
    · obtain ⟨e, l⟩ := idx_high hv (by omega) ha
      have := hj (a - qs.length) (by omega)
      obtain ⟨e2, _⟩ := idx_low hv (a := a - qs.length) (by omega)
      have : ¬ idx n qs a = n + j := by omega
      simp [this]

end valid

/-- `Σ_{a<2k} w_a Σ_{a'<2k} w'_{a'} [a' < k ∧ a = a'+k] = z(w)·x(w')` on `k` qubits -/
theorem pair_sum (k w w' : Nat) :
    sumSel w (fun a => sumSel w' (fun a' => if a' < k ∧ a = a' + k then 1 else 0) (2 * k)) (2 * k) = om k w w' := by
  have inner : ∀ a, a < 2 * k → sumSel w' (fun a' => if a' < k ∧ a = a' + k then 1 else 0) (2 * k) =
      if k ≤ a ∧ w'.testBit (a - k) = true then 1 else 0 := by
    intro a ha
    by_cases hka : k ≤ a
    · have : (fun a' => if a' < k ∧ a = a' + k then 1 else 0) = (fun a' => if a' = a - k then 1 else 0) := by
        funext a'
        by_cases h : a' = a - k
        · have h1 : a' < k := by omega
          have h2 : a = a' + k := by omega
          simp [h, h1]; omega
        · have : ¬ (a' < k ∧ a = a' + k) := by omega
          simp [h, this]
      rw [this, sumSel_single]
      have : a - k < 2 * k := by omega
      simp [this, hka]
    · have : (fun a' => if a' < k ∧ a = a' + k then 1 else 0) = (fun _ => 0) := by
        funext a'
        have : ¬ (a' < k ∧ a = a' + k) := by omega
        simp [this]
      rw [this, sumSel_fzero]; simp [hka]
  rw [sumSel_congr inner, two_mul, sumSel_split]
  have h1 : sumSel w (fun a => if k ≤ a ∧ w'.testBit (a - k) = true then 1 else 0) k = 0 := by
    rw [sumSel_congr (g := fun _ => 0) (fun i hi => by simp; omega), sumSel_fzero]
  rw [h1, Nat.zero_add]
  unfold om
  rw [cnt_eq_sumSel]
  apply sumSel_congr
  intro j _
  simp
  cases w'.testBit j <;> rfl

/-- the placed vector -/
def place (n : Nat) (qs : List Nat) (w : Nat) : Nat :=
  matVec ((qs ++ qs.map (· + n)).map fun i => 2 ^ i) w (qs ++ qs.map (· + n)).length

theorem index_length (n : Nat) (qs : List Nat) : (qs ++ qs.map (· + n)).length = 2 * qs.length := by
  simp; omega

theorem unit_getD (n : Nat) (qs : List Nat) (a : Nat) (ha : a < 2 * qs.length) :
    ((qs ++ qs.map (· + n)).map fun i => 2 ^ i).getD a 0 = 2 ^ idx n qs a := by
  rw [← index_getD n qs a ha]
  have h : a < (qs ++ qs.map (· + n)).length := by rw [index_length]; exact ha
  rw [List.getD_eq_getElem?_getD, List.getD_eq_getElem?_getD, List.getElem?_map, List.getElem?_eq_getElem h]
  rfl

section valid2
variable {n : Nat} {qs : List Nat} (hv : ValidQs n qs)
include hv

/-- placing preserves `z(·)·x(·)` mod 2 -/
theorem om_place_place (w w' : Nat) : om n (place n qs w) (place n qs w') % 2 = om qs.length w w' % 2 := by
  unfold place
  rw [index_length, om_matVec_left_mod2, ← pair_sum]
  apply sumSel_congr_mod2
  intro a ha
  rw [unit_getD n qs a ha, om_matVec_right_mod2]
  apply sumSel_congr_mod2
  intro a' ha'
  rw [unit_getD n qs a' ha', om_unit_unit hv ha ha']

theorem om_out_place {j : Nat} (hj : ∀ b, b < 2 * qs.length → idx n qs b ≠ j) (w : Nat) :
    om n (2 ^ j) (place n qs w) % 2 = 0 ∧ om n (place n qs w) (2 ^ j) % 2 = 0 := by
  unfold place
  rw [index_length, om_matVec_right_mod2, om_matVec_left_mod2]
  constructor
  · rw [sumSel_congr (g := fun _ => 0) (fun a ha => by rw [unit_getD n qs a ha]; exact (om_out_unit hv hj ha).1),
      sumSel_fzero]
  · rw [sumSel_congr (g := fun _ => 0) (fun a ha => by rw [unit_getD n qs a ha]; exact (om_out_unit hv hj ha).2),
      sumSel_fzero]

end valid2

/-- `pos j` of `embed` -/
def pos (n : Nat) (qs : List Nat) (j : Nat) : Option Nat :=
  (List.range (qs ++ qs.map (· + n)).length).find? (fun b => (qs ++ qs.map (· + n)).getD b 0 == j)

theorem pos_some {n : Nat} {qs : List Nat} {j b : Nat} (h : pos n qs j = some b) :
    b < 2 * qs.length ∧ idx n qs b = j := by
  unfold pos at h
  have h1 := List.mem_of_find?_eq_some h
  have h2 := List.find?_some h
  rw [List.mem_range, index_length] at h1
  rw [index_getD n qs b h1] at h2
  exact ⟨h1, by simpa using h2⟩

theorem pos_none {n : Nat} {qs : List Nat} {j : Nat} (h : pos n qs j = none) :
    ∀ b, b < 2 * qs.length → idx n qs b ≠ j := by
  unfold pos at h
  rw [List.find?_eq_none] at h
  intro b hb
  have := h b (by rw [List.mem_range, index_length]; exact hb)
  rw [index_getD n qs b hb] at this
  simpa using this

theorem embed_getD (n : Nat) (loc : Tab) (qs : List Nat) {j : Nat} (hj : j < 2 * n) :
    (embed n loc qs).cols.getD j 0 =
      match pos n qs j with
      | some b => place n qs (loc.cols.getD b 0)
      | none => 2 ^ j := by
  simp only [embed]
  rw [getD_map_range' _ _ _ hj]
  rfl

/-- **an embedded symplectic tableau is symplectic**, for every register size and every valid placement -/
theorem embed_colSp {n : Nat} {qs : List Nat} (hv : ValidQs n qs) (loc : Tab) (hk : loc.n = qs.length)
    (hloc : loc.colSp = true) : (embed n loc qs).colSp = true := by
  rw [colSp_iff]
  have hl := (colSp_iff loc).1 hloc
  intro a b hab hb
  have hn : (embed n loc qs).n = n := rfl
  rw [hn] at hb ⊢
  have ha : a < 2 * n := by omega
  simp only [Tab.zx, hn]
  rw [embed_getD n loc qs ha, embed_getD n loc qs hb]
  change (om n _ _ + om n _ _) % 2 = _
  cases hpa : pos n qs a with
  | some α =>
    obtain ⟨hα, eα⟩ := pos_some hpa
    cases hpb : pos n qs b with
    | some β =>
      obtain ⟨hβ, eβ⟩ := pos_some hpb
      simp only
      have h1 := om_place_place hv (loc.cols.getD α 0) (loc.cols.getD β 0)
      have h2 := om_place_place hv (loc.cols.getD β 0) (loc.cols.getD α 0)
      have hne : α ≠ β := by intro h; subst h; omega
      have fa : (α < qs.length → idx n qs α = qs.getD α 0 ∧ idx n qs α < n) := fun h => idx_low hv h
      have fa' : (qs.length ≤ α → idx n qs α = qs.getD (α - qs.length) 0 + n ∧ qs.getD (α - qs.length) 0 < n) :=
        fun h => idx_high hv h hα
      have fb : (β < qs.length → idx n qs β = qs.getD β 0 ∧ idx n qs β < n) := fun h => idx_low hv h
      have fb' : (qs.length ≤ β → idx n qs β = qs.getD (β - qs.length) 0 + n ∧ qs.getD (β - qs.length) 0 < n) :=
        fun h => idx_high hv h hβ
      rcases Nat.lt_or_gt_of_ne hne with hlt | hgt
      · have h3 := hl α β hlt (by rw [hk]; exact hβ)
        simp only [Tab.zx, hk] at h3
        change (om qs.length _ _ + om qs.length _ _) % 2 = _ at h3
        by_cases hc : β = α + qs.length
        · have : b = a + n := by
            have := fa (by omega); have := fb' (by omega)
            have e : β - qs.length = α := by omega
            rw [e] at this; omega
          rw [if_pos hc] at h3; rw [if_pos this]; omega
        · have : ¬ b = a + n := by
            intro hh
            by_cases hαk : α < qs.length
            · by_cases hβk : β < qs.length
              · have := fa hαk; have := fb hβk; omega
              · have := fa hαk; have := fb' (by omega)
                have e : qs.getD (β - qs.length) 0 = qs.getD α 0 := by omega
                have := getD_inj hv.nodup (by omega) hαk e
                omega
            · have := fa' (by omega)
              by_cases hβk : β < qs.length
              · have := fb hβk; omega
              · have := fb' (by omega); omega
          rw [if_neg hc] at h3; rw [if_neg this]; omega
      · have h3 := hl β α hgt (by rw [hk]; exact hα)
        simp only [Tab.zx, hk] at h3
        change (om qs.length _ _ + om qs.length _ _) % 2 = _ at h3
        have hc : ¬ α = β + qs.length := by
          intro hc
          have := fb (by omega); have := fa' (by omega)
          have e : α - qs.length = β := by omega
          rw [e] at this; omega
        have : ¬ b = a + n := by
          intro hh
          by_cases hαk : α < qs.length
          · by_cases hβk : β < qs.length
            · have := fa hαk; have := fb hβk; omega
            · have := fa hαk; have := fb' (by omega)
              have e : qs.getD (β - qs.length) 0 = qs.getD α 0 := by omega
              have := getD_inj hv.nodup (by omega) hαk e
              omega
          · have := fa' (by omega)
            by_cases hβk : β < qs.length
            · have := fb hβk; omega
            · have := fb' (by omega); omega
        rw [if_neg hc] at h3; rw [if_neg this]; omega
    | none =>
      have hnb := pos_none hpb
      simp only
      obtain ⟨h1, h2⟩ := om_out_place hv hnb (loc.cols.getD α 0)
      have : ¬ b = a + n := by
        intro hh
        by_cases hαk : α < qs.length
        · have := idx_low hv hαk
          have := idx_high hv (a := α + qs.length) (by omega) (by omega)
          have e : α + qs.length - qs.length = α := by omega
          rw [e] at this
          exact hnb (α + qs.length) (by omega) (by omega)
        · have := idx_high hv (a := α) (by omega) hα; omega
      rw [if_neg this]; omega
  | none =>
    have hna := pos_none hpa
    cases hpb : pos n qs b with
    | some β =>
      obtain ⟨hβ, eβ⟩ := pos_some hpb
      simp only
      obtain ⟨h1, h2⟩ := om_out_place hv hna (loc.cols.getD β 0)
      have : ¬ b = a + n := by
        intro hh
        by_cases hβk : β < qs.length
        · have := idx_low hv hβk; omega
        · have := idx_high hv (a := β) (by omega) hβ
          have := idx_low hv (a := β - qs.length) (by omega)
          exact hna (β - qs.length) (by omega) (by omega)
      rw [if_neg this]; omega
    | none =>
      simp only
      rw [om_pow_pow, om_pow_pow]
      by_cases hc : b = a + n
      · have h1 : ¬ (b < n ∧ a = n + b) := by omega
        have h2 : a < n ∧ b = n + a := by omega
        rw [if_neg h1, if_pos h2, if_pos hc]
      · have h1 : ¬ (b < n ∧ a = n + b) := by omega
        have h2 : ¬ (a < n ∧ b = n + a) := by omega
        rw [if_neg h1, if_neg h2, if_neg hc]

/-! ### gate lists recorded by the object are well formed -/

theorem checkArgs_spec {key : GateKey} {args : List Int} {idx : List Nat} (h : checkArgs key args = some idx) :
    idx.length = key.arity ∧ idx.Nodup := by
  unfold checkArgs at h
  split at h
  · cases h
  rename_i hlen
  split at h
  · cases h
  rename_i hneg
  have hlen' : args.length = key.arity := by simpa using hlen
  match args, h with
  | [a, b], h =>
    simp only at h
    split at h
    · cases h
    · rename_i hab
      cases h
      have ha : 0 ≤ a := by
        by_contra hc; exact hneg (by simp; left; omega)
      have hb : 0 ≤ b := by
        by_contra hc; exact hneg (by simp; right; omega)
      refine ⟨by simpa using hlen', ?_⟩
      simp only [List.nodup_cons, List.mem_singleton, List.not_mem_nil, not_false_eq_true, List.nodup_nil, and_true]
      omega
  | [], h => cases h; exact ⟨by simpa using hlen', List.nodup_nil⟩
  | [a], h => cases h; exact ⟨by simpa using hlen', by simp⟩
  | a :: b :: c :: rest, h =>
    exfalso
    have : key.arity ≤ 2 := by cases key <;> decide
    simp at hlen'; omega

/-- well-formed gate record: as many indices as the gate has qubits, pairwise distinct -/
def GatesWF (gates : List Gate) : Prop := ∀ g ∈ gates, g.idx.length = g.key.arity ∧ g.idx.Nodup

theorem specStep_wf (gates : List Gate) (h : GatesWF gates) (op : Op) : GatesWF (specStep gates op).1 := by
  cases op with
  | append key args =>
    simp only [specStep]
    cases hc : checkArgs key args with
    | none => exact h
    | some idx =>
      intro g hg
      rcases List.mem_append.1 hg with hg | hg
      · exact h g hg
      · simp only [List.mem_singleton] at hg; subst hg; exact checkArgs_spec hc
  | gateI => exact h
  | query => simp only [specStep]; cases symplecticOf gates <;> exact h
  | applyPauli p len => simp only [specStep]; cases symplecticOf gates <;> exact h
  | exportCirc => exact h

theorem le_foldl_max (l : List Nat) (i : Nat) : i ≤ l.foldl max i ∧ ∀ q ∈ l, q ≤ l.foldl max i := by
  induction l generalizing i with
  | nil => simp
  | cons a l ih =>
    rw [List.foldl_cons]
    obtain ⟨h1, h2⟩ := ih (max i a)
    refine ⟨by omega, ?_⟩
    intro q hq
    rcases List.mem_cons.1 hq with hq | hq
    · subst hq; omega
    · exact h2 q hq

theorem numQubit_spec {gates : List Gate} {n : Nat} (h : numQubit gates = .ok n) :
    ∀ g ∈ gates, ∀ q ∈ g.idx, q < n := by
  unfold numQubit at h
  intro g hg q hq
  have hmem : q ∈ gates.flatMap (·.idx) := List.mem_flatMap.2 ⟨g, hg, hq⟩
  cases hl : gates.flatMap (·.idx) with
  | nil => rw [hl] at hmem; cases hmem
  | cons i rest =>
    rw [hl] at h hmem
    simp only [Except.ok.injEq] at h
    obtain ⟨h1, h2⟩ := le_foldl_max rest i
    rcases List.mem_cons.1 hmem with hq' | hq'
    · subst hq'; omega
    · have := h2 q hq'; omega

theorem dagTable_facts (key : GateKey) (loc : Tab) (h : basicDaggerF2 key = some loc)
    (hd : ∀ k : GateKey, ∃ t, basicDaggerF2 k = some t ∧ t.n = k.arity ∧ t.colSp = true) :
    loc.n = key.arity ∧ loc.colSp = true := by
  obtain ⟨t, h1, h2, h3⟩ := hd key
  rw [h] at h1; cases h1; exact ⟨h2, h3⟩

/-- **the tableau of a recorded circuit acts as its gates one after the other** (last gate first: `U† P U`,
`U = g_L ⋯ g_1`), for every well-formed gate record on any number of qubits -/
theorem symplecticOf_sequential' (gates : List Gate) (hwf : GatesWF gates)
    (hd : ∀ k : GateKey, ∃ t, basicDaggerF2 k = some t ∧ t.n = k.arity ∧ t.colSp = true)
    (t : Tab) (h : symplecticOf gates = .ok t) :
    ∃ n, numQubit gates = .ok n ∧ t.n = n ∧
      ∀ p, applyOnPauli p t = gates.reverse.foldl (gateAct n) (applyOnPauli p (Tab.id n)) := by
  obtain ⟨n, h1, h2, h3⟩ := symplecticOf_sequential gates t h
  refine ⟨n, h1, h2, h3 ?_⟩
  intro g hg loc hl
  obtain ⟨e1, e2⟩ := dagTable_facts g.key loc hl hd
  obtain ⟨w1, w2⟩ := hwf g hg
  exact embed_colSp ⟨w2, fun q hq => numQubit_spec h1 g hg q hq⟩ loc (by rw [e1, w1]) e2

end Numqi.Clifford
