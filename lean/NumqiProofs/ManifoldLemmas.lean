/- Helper lemmas for the manifold model (C01/C02): real-analysis facts about the vector maps, data matrices as Mathlib matrices. -/
import Mathlib.Tactic
import Mathlib.Analysis.SpecialFunctions.Log.Basic
import Mathlib.Analysis.SpecialFunctions.Trigonometric.Basic
import Mathlib.Analysis.SpecialFunctions.Sqrt
import Mathlib.Data.Complex.Basic
import Mathlib.Algebra.BigOperators.Fin
import NumqiModel.Manifold

namespace Numqi.Manifold
open Finset

noncomputable instance : Transc ℝ := ⟨Real.sqrt, Real.exp, Real.log, Real.sin, Real.cos, fun x => Real.log (1 + x)⟩
noncomputable instance : CxOps ℝ ℂ := ⟨Complex.ofReal, starRingEnd ℂ, Complex.I, Complex.re, Complex.im⟩

@[simp] theorem sqrt_eq (x : ℝ) : sqrt x = Real.sqrt x := rfl
@[simp] theorem exp_eq (x : ℝ) : exp x = Real.exp x := rfl
@[simp] theorem log_eq (x : ℝ) : log x = Real.log x := rfl
@[simp] theorem sin_eq (x : ℝ) : sin x = Real.sin x := rfl
@[simp] theorem cos_eq (x : ℝ) : cos x = Real.cos x := rfl
@[simp] theorem log1p_eq (x : ℝ) : log1p x = Real.log (1 + x) := rfl

theorem sumRange_eq {M : Type} [AddCommMonoid M] (n : Nat) (f : Nat → M) : sumRange n f = ∑ i ∈ range n, f i := by
  unfold sumRange
  induction n with
  | zero => simp
  | succ k ih => rw [List.range_succ, List.map_append, List.sum_append, ih, Finset.sum_range_succ]; simp

theorem prodRange_eq {M : Type} [CommMonoid M] (n : Nat) (f : Nat → M) : prodRange n f = ∏ i ∈ range n, f i := by
  unfold prodRange
  induction n with
  | zero => simp
  | succ k ih => rw [List.range_succ, List.foldl_append, ih, Finset.prod_range_succ]; simp

theorem softplus_pos' (x : ℝ) : 0 < softplus x := by
  unfold softplus
  split_ifs with h
  · have : 0 < Real.log (1 + Real.exp (-x)) := Real.log_pos (by linarith [Real.exp_pos (-x)])
    simp only [log1p_eq, exp_eq]; linarith
  · simp only [log1p_eq, exp_eq]; exact Real.log_pos (by linarith [Real.exp_pos x])

theorem sigmoid_mem (x : ℝ) : 0 < sigmoid x ∧ sigmoid x < 1 := by
  unfold sigmoid
  have h := Real.exp_pos (-x)
  simp only [exp_eq]
  constructor
  · positivity
  · rw [div_lt_one (by linarith)]; linarith

theorem openInterval_mem' (θ l u : ℝ) (h : l < u) : l < openInterval θ l u ∧ openInterval θ l u < u := by
  obtain ⟨h0, h1⟩ := sigmoid_mem θ
  unfold openInterval
  constructor <;> nlinarith

theorem normSq_eq (n : Nat) (θ : Nat → ℝ) : normSq n θ = ∑ i ∈ range n, θ i * θ i := sumRange_eq _ _

theorem normSq_nonneg (n : Nat) (θ : Nat → ℝ) : 0 ≤ normSq n θ := by
  rw [normSq_eq]; exact Finset.sum_nonneg (fun i _ => mul_self_nonneg _)

theorem normSq_div (n : Nat) (θ : Nat → ℝ) (c : ℝ) : normSq n (fun i => θ i / c) = normSq n θ / (c * c) := by
  simp only [normSq_eq, Finset.sum_div]
  exact Finset.sum_congr rfl (fun i _ => by rw [div_mul_div_comm])

theorem ball_normSq (n : Nat) (θ : Nat → ℝ) : normSq n (ballVec n θ) < 1 := by
  unfold ballVec
  rw [normSq_div]
  have h0 := normSq_nonneg n θ
  have hs : norm n θ * norm n θ = normSq n θ := by unfold norm; exact Real.mul_self_sqrt h0
  have hn : 0 ≤ norm n θ := by unfold norm; exact Real.sqrt_nonneg _
  rw [div_lt_one (by positivity)]
  nlinarith

theorem sphereQuotient_normSq (n : Nat) (θ : Nat → ℝ) (h : normSq n θ ≠ 0) : normSq n (sphereQuotientVec n θ) = 1 := by
  unfold sphereQuotientVec
  rw [normSq_div]
  have h0 := normSq_nonneg n θ
  have hs : norm n θ * norm n θ = normSq n θ := by unfold norm; exact Real.mul_self_sqrt h0
  rw [hs]; exact div_self h

theorem sphereCoord_normSq (n : Nat) (θ : Nat → ℝ) : normSq (n + 1) (sphereCoordVec n θ) = 1 := by
  rw [normSq_eq]
  -- Σ_{i<k} x_i² + (Π_{j<k} s_j)² = 1 for every k ≤ n, by induction
  have key : ∀ k, k ≤ n → ∑ i ∈ range k, sphereCoordVec n θ i * sphereCoordVec n θ i
      + (∏ j ∈ range k, Real.sin (θ j)) * (∏ j ∈ range k, Real.sin (θ j)) = 1 := by
    intro k
    induction k with
    | zero => intro _; simp
    | succ k ih =>
      intro hk
      have hk' : k < n := hk
      have := ih (le_of_lt hk')
      rw [Finset.sum_range_succ, Finset.prod_range_succ]
      have hx : sphereCoordVec n θ k = Real.cos (θ k) * ∏ j ∈ range k, Real.sin (θ j) := by
        unfold sphereCoordVec; rw [if_pos hk', prodRange_eq]; rfl
      rw [hx]
      have hcs := Real.cos_sq_add_sin_sq (θ k)
      nlinarith
  have hlast : sphereCoordVec n θ n = ∏ j ∈ range n, Real.sin (θ j) := by
    unfold sphereCoordVec; rw [if_neg (lt_irrefl n), prodRange_eq, one_mul]; rfl
  rw [Finset.sum_range_succ, hlast]
  exact key n le_rfl

theorem softmax_pos' (n : Nat) (θ : Nat → ℝ) (hn : 0 < n) (i : Nat) : 0 < softmaxVec n θ i := by
  unfold softmaxVec
  simp only [exp_eq, sumRange_eq]
  apply div_pos (Real.exp_pos _)
  exact Finset.sum_pos (fun j _ => Real.exp_pos _) ⟨0, Finset.mem_range.2 hn⟩

theorem softmax_sum' (n : Nat) (θ : Nat → ℝ) (hn : 0 < n) : ∑ i ∈ range n, softmaxVec n θ i = 1 := by
  unfold softmaxVec
  simp only [exp_eq, sumRange_eq]
  rw [← Finset.sum_div]
  apply div_self
  exact ne_of_gt (Finset.sum_pos (fun j _ => Real.exp_pos _) ⟨0, Finset.mem_range.2 hn⟩)

theorem probSphere_nonneg' (n : Nat) (θ : Nat → ℝ) (i : Nat) : 0 ≤ probSphereVec n θ i := mul_self_nonneg _

theorem probSphere_sum' (n : Nat) (θ : Nat → ℝ) (h : normSq n θ ≠ 0) : ∑ i ∈ range n, probSphereVec n θ i = 1 := by
  have := sphereQuotient_normSq n θ h
  rw [normSq_eq] at this
  exact this

/-- `|a + i b|² = a² + b²` summed over the pairs: the complex vector has the norm of the real one -/
theorem pairCx_normSq (h : Nat) (x : Nat → ℝ) :
    ∑ j ∈ range h, Complex.normSq (pairCx (K := ℂ) h x j) = normSq (h + h) x := by
  rw [normSq_eq, Finset.sum_range_add]
  rw [← Finset.sum_add_distrib]
  refine Finset.sum_congr rfl (fun j _ => ?_)
  simp only [pairCx, CxOps.ofReal, CxOps.I]
  rw [Complex.normSq_apply]
  simp

/-! ### matrices as data -/

theorem NMat.get_ofFn {K : Type} [Zero K] (m n : Nat) (f : Nat → Nat → K) {i j : Nat} (hi : i < m) (hj : j < n) :
    NMat.get (NMat.ofFn m n f) i j = f i j := by
  simp [NMat.get, NMat.ofFn, hi, hj]

theorem NMat.get_ofFn_fin {K : Type} [Zero K] (m n : Nat) (f : Nat → Nat → K) (i : Fin m) (j : Fin n) :
    NMat.get (NMat.ofFn m n f) i.val j.val = f i.val j.val := NMat.get_ofFn m n f i.isLt j.isLt

/-- an `m × n` data matrix as a Mathlib matrix -/
def toM {K : Type} [Zero K] (m n : Nat) (A : NMat K) : Matrix (Fin m) (Fin n) K := Matrix.of fun i j => A.get i.val j.val

theorem toM_ofFn {K : Type} [Zero K] (m n : Nat) (f : Nat → Nat → K) :
    toM m n (NMat.ofFn m n f) = Matrix.of fun i j => f i.val j.val := by
  ext i j; simp [toM, NMat.get_ofFn_fin]

theorem sumK_eq (n : Nat) (f : Nat → ℂ) : sumK n f = ∑ k : Fin n, f k.val := by
  unfold sumK
  rw [← Finset.sum_range (f := f)]
  exact sumRange_eq n f

theorem toM_matMul (l m n : Nat) (A B : NMat ℂ) : toM l n (matMul l m n A B) = toM l m A * toM m n B := by
  ext i j
  simp [toM, matMul, NMat.get_ofFn_fin, Matrix.mul_apply, sumK_eq]

theorem toM_conjT (m n : Nat) (A : NMat ℂ) : toM n m (conjT m n A) = (toM m n A).conjTranspose := by
  ext i j
  simp [toM, conjT, NMat.get_ofFn_fin, Matrix.conjTranspose_apply, CxOps.conj]

/-- weighted simplex: `Σ w_i (p_i / w_i) = Σ p_i` for non-zero weights -/
theorem weightedProb_sum (n : Nat) (p w : Nat → ℝ) (hw : ∀ i, i < n → w i ≠ 0) :
    ∑ i ∈ range n, w i * weightedProb p w i = ∑ i ∈ range n, p i := by
  refine Finset.sum_congr rfl (fun i hi => ?_)
  unfold weightedProb
  have := hw i (Finset.mem_range.1 hi)
  field_simp

theorem weightedProb_nonneg (p w : Nat → ℝ) (i : Nat) (hp : 0 ≤ p i) (hw : 0 < w i) : 0 ≤ weightedProb p w i := by
  unfold weightedProb; positivity

end Numqi.Manifold
