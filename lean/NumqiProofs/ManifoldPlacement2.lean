/- Round 6 (C02): injectivity of the parameter placements of the Stiefel / Cholesky / PSD factor maps. -/
import NumqiProofs.ManifoldPsd
import NumqiProofs.ManifoldCount

namespace Numqi.Manifold
open Matrix

variable {dim rank : Nat}

theorem ofReal_add_I_inj {a b a' b' : ℝ} (h : ((a : ℝ) : ℂ) + Complex.I * ((b : ℝ) : ℂ) = ((a' : ℝ) : ℂ) + Complex.I * ((b' : ℝ) : ℂ)) : a = a' ∧ b = b' := by
  have hre := congrArg Complex.re h
  have him := congrArg Complex.im h
  simp at hre him
  exact ⟨hre, him⟩

/-- **`θ ↦` the `dim × rank` pre-factor of `to_stiefel_polar` / `to_stiefel_qr` is injective** (pure reshape) -/
theorem stiefelMat_injective (isReal : Bool) (θ θ' : Nat → ℝ)
    (h : toM dim rank (stiefelMat (K := ℂ) dim rank isReal θ) = toM dim rank (stiefelMat (K := ℂ) dim rank isReal θ')) :
    ∀ p, p < (if isReal then dim * rank else 2 * dim * rank) → θ p = θ' p := by
  have entry : ∀ (r : Fin dim) (c : Fin rank), (stiefelMat (K := ℂ) dim rank isReal θ).get r.val c.val = (stiefelMat (K := ℂ) dim rank isReal θ').get r.val c.val := by
    intro r c; exact congrFun (congrFun h r) c
  have hidx : ∀ q, q < dim * rank → ∃ (r : Fin dim) (c : Fin rank), r.val * rank + c.val = q := by
    intro q hq
    have hr : 0 < rank := by
      rcases Nat.eq_zero_or_pos rank with h0 | h0
      · rw [h0] at hq; simp at hq
      · exact h0
    refine ⟨⟨q / rank, by rw [Nat.div_lt_iff_lt_mul hr]; exact hq⟩, ⟨q % rank, Nat.mod_lt _ hr⟩, ?_⟩
    simp only; rw [mul_comm]; exact Nat.div_add_mod q rank
  intro p hp
  cases isReal with
  | true =>
    simp only [if_true] at hp
    obtain ⟨r, c, hq⟩ := hidx p hp
    have := entry r c
    simp only [stiefelMat, NMat.get_ofFn_fin, if_true, CxOps.ofReal, hq] at this
    exact_mod_cast this
  | false =>
    simp only [Bool.false_eq_true, if_false] at hp
    by_cases h1 : p < dim * rank
    · obtain ⟨r, c, hq⟩ := hidx p h1
      have := entry r c
      simp only [stiefelMat, NMat.get_ofFn_fin, Bool.false_eq_true, if_false, CxOps.ofReal, CxOps.I, hq] at this
      exact (ofReal_add_I_inj this).1
    · obtain ⟨r, c, hq⟩ := hidx (p - dim * rank) (by rw [two_mul, add_mul] at hp; omega)
      have := entry r c
      simp only [stiefelMat, NMat.get_ofFn_fin, Bool.false_eq_true, if_false, CxOps.ofReal, CxOps.I] at this
      have h2 := (ofReal_add_I_inj this).2
      have e : dim * rank + r.val * rank + c.val = p := by omega
      rwa [e] at h2

theorem length_trilSq (rank : Nat) : (trilPairs rank rank).length = rank * (rank + 1) / 2 - rank := by
  have := N0_sub_rank (dim := rank) (rank := rank) le_rfl
  have e : 2 * rank - rank + 1 = rank + 1 := by omega
  rw [e] at this; exact this.symm

/-- **`θ ↦ matL` of `to_stiefel_choleskyL` is injective** (every parameter is one entry, or the real/imaginary part of one entry) -/
theorem cholLMat_placement_injective (isReal : Bool) (θ θ' : Nat → ℝ) (hrk : rank ≤ dim)
    (h : toM dim rank (cholLMat (K := ℂ) dim rank isReal θ) = toM dim rank (cholLMat (K := ℂ) dim rank isReal θ')) :
    ∀ p, p < (dim * rank - rank * (rank + 1) / 2) * (if isReal then 1 else 2) → θ p = θ' p := by
  set N1 := rank * (rank + 1) / 2 - rank with hN1
  have hlen : (trilPairs rank rank).length = N1 := length_trilSq rank
  have entry : ∀ (r : Fin dim) (c : Fin rank), (cholLMat (K := ℂ) dim rank isReal θ).get r.val c.val = (cholLMat (K := ℂ) dim rank isReal θ').get r.val c.val := by
    intro r c; exact congrFun (congrFun h r) c
  -- the two index families
  have top : ∀ q, q < N1 → ∃ (r : Fin dim) (c : Fin rank), r.val < rank ∧ c.val < r.val ∧ (trilPairs rank rank).idxOf (r.val, c.val) = q := by
    intro q hq
    have hq' : q < (trilPairs rank rank).length := by rw [hlen]; exact hq
    have hm := mem_trilPairs.1 (List.getElem_mem hq')
    refine ⟨⟨((trilPairs rank rank)[q]).1, lt_of_lt_of_le hm.1 hrk⟩, ⟨((trilPairs rank rank)[q]).2, hm.2.2⟩, hm.1, hm.2.1, ?_⟩
    exact nodup_trilPairs.idxOf_getElem q hq'
  have bot : ∀ q, q < (dim - rank) * rank → ∃ (r : Fin dim) (c : Fin rank), rank ≤ r.val ∧ (r.val - rank) * rank + c.val = q := by
    intro q hq
    have hr : 0 < rank := by
      rcases Nat.eq_zero_or_pos rank with h0 | h0
      · rw [h0] at hq; simp at hq
      · exact h0
    have h1 : q / rank < dim - rank := by rw [Nat.div_lt_iff_lt_mul hr]; exact hq
    refine ⟨⟨rank + q / rank, by omega⟩, ⟨q % rank, Nat.mod_lt _ hr⟩, by simp, ?_⟩
    simp only [Nat.add_sub_cancel_left]; rw [mul_comm]; exact Nat.div_add_mod q rank
  have hsplit : dim * rank - rank * (rank + 1) / 2 = N1 + (dim - rank) * rank := by
    have h2 := Count.two_tri rank
    unfold Count.tri at h2
    obtain ⟨e, rfl⟩ : ∃ e, dim = rank + e := ⟨dim - rank, by omega⟩
    have h3 : rank ≤ rank * (rank + 1) / 2 := by
      have : 2 * rank ≤ rank * (rank + 1) ∨ rank = 0 := by
        rcases Nat.eq_zero_or_pos rank with h0 | h0
        · exact Or.inr h0
        · exact Or.inl (by nlinarith)
      rcases this with h4 | h4
      · omega
      · simp [h4]
    have h5 : (rank + e) * rank = rank * rank + e * rank := by ring
    have h6 : rank * (rank + 1) = rank * rank + rank := by ring
    simp only [Nat.add_sub_cancel_left, hN1]
    omega
  intro p hp
  cases isReal with
  | true =>
    simp only [if_true, mul_one, hsplit] at hp
    by_cases h1 : p < N1
    · obtain ⟨r, c, hr, hc, hq⟩ := top p h1
      have := entry r c
      have hne : r.val ≠ c.val := by omega
      simp only [cholLMat, NMat.get_ofFn_fin, hr, if_true, hne, if_false, hc, hq, CxOps.ofReal] at this
      exact_mod_cast this
    · obtain ⟨r, c, hr, hq⟩ := bot (p - N1) (by omega)
      have := entry r c
      have hr' : ¬ r.val < rank := by omega
      simp only [cholLMat, NMat.get_ofFn_fin, hr', if_false, if_true, CxOps.ofReal, ← hN1, hq] at this
      have e : N1 + (p - N1) = p := by omega
      rw [e] at this
      exact_mod_cast this
  | false =>
    simp only [Bool.false_eq_true, if_false, hsplit] at hp
    by_cases h1 : p < N1
    · obtain ⟨r, c, hr, hc, hq⟩ := top p h1
      have := entry r c
      have hne : r.val ≠ c.val := by omega
      simp only [cholLMat, NMat.get_ofFn_fin, hr, if_true, hne, if_false, hc, hq, CxOps.ofReal, CxOps.I, Bool.false_eq_true] at this
      exact (ofReal_add_I_inj this).1
    by_cases h2 : p < 2 * N1
    · obtain ⟨r, c, hr, hc, hq⟩ := top (p - N1) (by omega)
      have := entry r c
      have hne : r.val ≠ c.val := by omega
      simp only [cholLMat, NMat.get_ofFn_fin, hr, if_true, hne, if_false, hc, hq, CxOps.ofReal, CxOps.I, Bool.false_eq_true, ← hN1] at this
      have e : N1 + (p - N1) = p := by omega
      have h3 := (ofReal_add_I_inj this).2
      rwa [e] at h3
    by_cases h3 : p < 2 * N1 + (dim - rank) * rank
    · obtain ⟨r, c, hr, hq⟩ := bot (p - 2 * N1) (by omega)
      have := entry r c
      have hr' : ¬ r.val < rank := by omega
      simp only [cholLMat, NMat.get_ofFn_fin, hr', if_false, CxOps.ofReal, CxOps.I, Bool.false_eq_true, ← hN1, hq] at this
      have e : 2 * N1 + (p - 2 * N1) = p := by omega
      have h4 := (ofReal_add_I_inj this).1
      rwa [e] at h4
    · obtain ⟨r, c, hr, hq⟩ := bot (p - 2 * N1 - (dim - rank) * rank) (by omega)
      have := entry r c
      have hr' : ¬ r.val < rank := by omega
      simp only [cholLMat, NMat.get_ofFn_fin, hr', if_false, CxOps.ofReal, CxOps.I, Bool.false_eq_true, ← hN1, hq] at this
      have e : 2 * N1 + (dim - rank) * rank + (p - 2 * N1 - (dim - rank) * rank) = p := by omega
      have h4 := (ofReal_add_I_inj this).2
      rwa [e] at h4

theorem softplus_strictMono : StrictMono (softplus : ℝ → ℝ) := by
  intro a b hab
  have e : ∀ x : ℝ, softplus x = Real.log (1 + Real.exp x) := by
    intro x
    unfold softplus
    split_ifs with h
    · simp only [log1p_eq, exp_eq]
      have h1 : (0 : ℝ) < 1 + Real.exp (-x) := by positivity
      have h3 : Real.log (1 + Real.exp (-x)) + x = Real.log ((1 + Real.exp (-x)) * Real.exp x) := by
        rw [Real.log_mul (ne_of_gt h1) (Real.exp_pos x).ne', Real.log_exp]
      rw [h3]; congr 1
      rw [add_mul, one_mul, ← Real.exp_add]; simp; ring
    · simp only [log1p_eq, exp_eq]
  rw [e a, e b]
  exact Real.log_lt_log (by positivity) (by linarith [Real.exp_lt_exp.2 hab])

/-- the normaliser of `to_trace1_psd_cholesky` -/
noncomputable def psdNormaliser (dim rank : Nat) (isReal : Bool) (θ : Nat → ℝ) : ℝ :=
  Real.sqrt (normSq (if isReal then rank * (2 * dim - rank + 1) / 2 - rank else 2 * (rank * (2 * dim - rank + 1) / 2 - rank)) (fun p => θ (rank + p))
    + normSq rank (fun i => softplus (θ i)))

/-- **the Cholesky factor placement of `to_trace1_psd_cholesky` loses exactly the scale direction**: two parameter vectors with the same factor
*and* the same normaliser coincide (softplus on the diagonal is strictly increasing, the off-diagonal entries are the parameters themselves) -/
theorem psdCholFactor_injective_mod_scale (isReal : Bool) (θ θ' : Nat → ℝ) (hr : 1 ≤ rank) (hrk : rank ≤ dim)
    (h : toM dim rank (psdCholFactor (K := ℂ) dim rank isReal θ) = toM dim rank (psdCholFactor (K := ℂ) dim rank isReal θ'))
    (hn : psdNormaliser dim rank isReal θ = psdNormaliser dim rank isReal θ') :
    ∀ p, p < (if isReal then rank * (2 * dim - rank + 1) / 2 else 2 * (rank * (2 * dim - rank + 1) / 2) - rank) → θ p = θ' p := by
  set M := rank * (2 * dim - rank + 1) / 2 - rank with hM
  have hlen : (trilPairs dim rank).length = M := (N0_sub_rank hrk).symm
  have hN0 : rank * (2 * dim - rank + 1) / 2 = M + rank := by
    have h1 := length_trilPairs hrk
    have := N0_sub_rank hrk
    have h2 : rank * (2 * dim - rank + 1) = 2 * (trilPairs dim rank).length + 2 * rank := by
      obtain ⟨e, rfl⟩ : ∃ e, dim = rank + e := ⟨dim - rank, by omega⟩
      have : 2 * (rank + e) - rank + 1 = rank + 2 * e + 1 := by omega
      rw [this]; nlinarith [h1]
    omega
  have entry : ∀ (r : Fin dim) (c : Fin rank), (psdCholFactor (K := ℂ) dim rank isReal θ).get r.val c.val = (psdCholFactor (K := ℂ) dim rank isReal θ').get r.val c.val := by
    intro r c; exact congrFun (congrFun h r) c
  have low : ∀ q, q < M → ∃ (r : Fin dim) (c : Fin rank), c.val < r.val ∧ (trilPairs dim rank).idxOf (r.val, c.val) = q := by
    intro q hq
    have hq' : q < (trilPairs dim rank).length := by rw [hlen]; exact hq
    have hm := mem_trilPairs.1 (List.getElem_mem hq')
    exact ⟨⟨((trilPairs dim rank)[q]).1, hm.1⟩, ⟨((trilPairs dim rank)[q]).2, hm.2.2⟩, hm.2.1, nodup_trilPairs.idxOf_getElem q hq'⟩
  have hpos : ∀ (n : Nat) (t : Nat → ℝ), 0 < Real.sqrt (normSq n (fun p => t (rank + p)) + normSq rank (fun i => softplus (t i))) := by
    intro n t
    apply Real.sqrt_pos.2
    have := normSq_pos_of_softplus t hr
    have := normSq_nonneg n (fun p => t (rank + p))
    linarith
  have div_inj : ∀ (nf a b : ℝ), 0 < nf → a / nf = b / nf → a = b := fun nf a b hnf hab => by
    have := congrArg (· * nf) hab; simpa [div_mul_cancel₀ _ (ne_of_gt hnf)] using this
  intro p hp
  cases isReal with
  | true =>
    simp only [psdNormaliser, if_true, ← hM] at hn
    simp only [if_true, hN0] at hp
    by_cases hd : p < rank
    · have := entry ⟨p, lt_of_lt_of_le hd hrk⟩ ⟨p, hd⟩
      simp only [psdCholFactor, NMat.get_ofFn _ _ _ (lt_of_lt_of_le hd hrk) hd, if_true, ← hM, CxOps.ofReal, sqrt_eq, ← hn] at this
      have h2 : softplus (θ p) / Real.sqrt (normSq M (fun p => θ (rank + p)) + normSq rank (fun i => softplus (θ i))) = softplus (θ' p) / Real.sqrt (normSq M (fun p => θ (rank + p)) + normSq rank (fun i => softplus (θ i))) := by exact_mod_cast this
      exact softplus_strictMono.injective (div_inj _ _ _ (hpos M θ) h2)
    · obtain ⟨r, c, hc, hq⟩ := low (p - rank) (by omega)
      have := entry r c
      have hne : r.val ≠ c.val := by omega
      simp only [psdCholFactor, NMat.get_ofFn_fin, hne, if_false, hc, if_true, hq, ← hM, CxOps.ofReal, sqrt_eq, ← hn] at this
      have e : rank + (p - rank) = p := by omega
      rw [e] at this
      have h2 : θ p / Real.sqrt (normSq M (fun p => θ (rank + p)) + normSq rank (fun i => softplus (θ i))) = θ' p / Real.sqrt (normSq M (fun p => θ (rank + p)) + normSq rank (fun i => softplus (θ i))) := by exact_mod_cast this
      exact div_inj _ _ _ (hpos M θ) h2
  | false =>
    simp only [psdNormaliser, Bool.false_eq_true, if_false, ← hM] at hn
    simp only [Bool.false_eq_true, if_false, hN0] at hp
    by_cases hd : p < rank
    · have := entry ⟨p, lt_of_lt_of_le hd hrk⟩ ⟨p, hd⟩
      simp only [psdCholFactor, NMat.get_ofFn _ _ _ (lt_of_lt_of_le hd hrk) hd, if_true, ← hM, CxOps.ofReal, sqrt_eq, ← hn, Bool.false_eq_true, if_false] at this
      have h2 : softplus (θ p) / Real.sqrt (normSq (2 * M) (fun p => θ (rank + p)) + normSq rank (fun i => softplus (θ i))) = softplus (θ' p) / Real.sqrt (normSq (2 * M) (fun p => θ (rank + p)) + normSq rank (fun i => softplus (θ i))) := by exact_mod_cast this
      exact softplus_strictMono.injective (div_inj _ _ _ (hpos (2 * M) θ) h2)
    by_cases h1 : p < rank + M
    · obtain ⟨r, c, hc, hq⟩ := low (p - rank) (by omega)
      have := entry r c
      have hne : r.val ≠ c.val := by omega
      simp only [psdCholFactor, NMat.get_ofFn_fin, hne, if_false, hc, if_true, hq, ← hM, CxOps.ofReal, CxOps.I, Bool.false_eq_true, sqrt_eq, ← hn] at this
      have e : rank + (p - rank) = p := by omega
      rw [e] at this
      exact div_inj _ _ _ (hpos (2 * M) θ) (ofReal_add_I_inj this).1
    · obtain ⟨r, c, hc, hq⟩ := low (p - rank - M) (by omega)
      have := entry r c
      have hne : r.val ≠ c.val := by omega
      simp only [psdCholFactor, NMat.get_ofFn_fin, hne, if_false, hc, if_true, hq, ← hM, CxOps.ofReal, CxOps.I, Bool.false_eq_true, sqrt_eq, ← hn] at this
      have e : rank + M + (p - rank - M) = p := by omega
      rw [e] at this
      exact div_inj _ _ _ (hpos (2 * M) θ) (ofReal_add_I_inj this).2

/-- `psdNormaliser` is the normaliser inside the model's `psdCholFactor`: its diagonal entries are `softplus θ_c / psdNormaliser θ` -/
theorem psdCholFactor_diag (isReal : Bool) (θ : Nat → ℝ) (c : Nat) (hc : c < rank) (hrk : rank ≤ dim) :
    (psdCholFactor (K := ℂ) dim rank isReal θ).get c c = ((softplus (θ c) / psdNormaliser dim rank isReal θ : ℝ) : ℂ) := by
  cases isReal <;>
  simp only [psdCholFactor, psdNormaliser, NMat.get_ofFn _ _ _ (lt_of_lt_of_le hc hrk) hc, if_true, CxOps.ofReal, sqrt_eq, Bool.false_eq_true, if_false]

end Numqi.Manifold
