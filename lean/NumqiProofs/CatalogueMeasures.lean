/-
Helper lemmas for C18 (round 6): binomial by the multiplicative formula, Dicke GME range, W-type ket normalisation.
-/
import NumqiProofs.Catalogue
import Mathlib.Data.Nat.Choose.Sum
import Mathlib.Data.Nat.Log

set_option linter.unusedSectionVars false

namespace Numqi.Catalogue
open Finset

theorem binomN_succ (n k : ℕ) : binomN n (k + 1) = binomN n k * (n - k) / (k + 1) := by
  unfold binomN; rw [List.range_succ, List.foldl_append]; rfl

theorem binomN_eq_choose (n k : ℕ) : binomN n k = n.choose k := by
  induction k with
  | zero => simp [binomN]
  | succ k ih =>
    rw [binomN_succ, ih]
    have h := Nat.choose_succ_right_eq n k
    rw [← h, Nat.mul_div_cancel _ (Nat.succ_pos k)]

/-- `0 ≤ 1 - C(n,k) p^k (1-p)^(n-k) < 1` for `p = k/n`: one term of the binomial expansion of `(p + (1-p))^n = 1` -/
theorem dickeGME_range (n k : ℕ) (hn : 0 < n) (hk : k ≤ n) : 0 ≤ dickeGME n k ∧ dickeGME n k < 1 := by
  unfold dickeGME
  rw [binomN_eq_choose]
  have hnq : (0 : ℚ) < n := by exact_mod_cast hn
  set p : ℚ := (k : ℚ) / n with hp
  have hq : (((n - k : ℕ) : ℚ)) / n = 1 - p := by
    rw [hp, Nat.cast_sub hk]; field_simp
  rw [hq]
  have hp0 : 0 ≤ p := by positivity
  have hp1 : 0 ≤ 1 - p := by
    rw [hp, sub_nonneg, div_le_one hnq]; exact_mod_cast hk
  have hsum : ∑ m ∈ Finset.range (n + 1), p ^ m * (1 - p) ^ (n - m) * (n.choose m : ℚ) = 1 := by
    rw [← add_pow]; simp
  have hterm : p ^ k * (1 - p) ^ (n - k) * (n.choose k : ℚ) ≤ 1 := by
    have := Finset.single_le_sum (s := Finset.range (n + 1)) (f := fun m => p ^ m * (1 - p) ^ (n - m) * (n.choose m : ℚ))
      (fun m _ => by positivity) (Finset.mem_range.mpr (by omega : k < n + 1))
    rw [hsum] at this; exact this
  have hpos : 0 < (n.choose k : ℚ) * p ^ k * (1 - p) ^ (n - k) := by
    have hc : (0 : ℚ) < n.choose k := by exact_mod_cast Nat.choose_pos hk
    have h1 : 0 < p ^ k := by
      rcases Nat.eq_zero_or_pos k with h | h
      · subst h; simp
      · apply pow_pos; rw [hp]; apply div_pos _ hnq; exact_mod_cast h
    have h2 : 0 < (1 - p) ^ (n - k) := by
      rcases Nat.eq_zero_or_pos (n - k) with h | h
      · rw [h]; simp
      · apply pow_pos; rw [hp, sub_pos, div_lt_one hnq]; exact_mod_cast (by omega : k < n)
    positivity
  constructor
  · have : (n.choose k : ℚ) * p ^ k * (1 - p) ^ (n - k) = p ^ k * (1 - p) ^ (n - k) * (n.choose k : ℚ) := by ring
    rw [this]; linarith
  · linarith

theorem dickeGME_zero_left (n : ℕ) (hn : 0 < n) : dickeGME n 0 = 0 := by
  have hnq : (n : ℚ) ≠ 0 := by exact_mod_cast hn.ne'
  simp [dickeGME, binomN, hnq]

theorem dickeGME_zero_right (n : ℕ) (hn : 0 < n) : dickeGME n n = 0 := by
  have hnq : (n : ℚ) ≠ 0 := by exact_mod_cast hn.ne'
  unfold dickeGME; rw [binomN_eq_choose]; simp [hnq]

theorem dickeGME_symm (n k : ℕ) (hk : k ≤ n) : dickeGME n (n - k) = dickeGME n k := by
  unfold dickeGME
  rw [binomN_eq_choose, binomN_eq_choose, Nat.choose_symm hk, Nat.sub_sub_self hk]; ring

/-! ### W-type kets -/

variable {K : Type} [Field K]

theorem ketWtype_two_pow (coeff : List K) (nrm : K) (k : ℕ) (hk : k < coeff.length) :
    ketWtype coeff nrm (2 ^ k) = coeff.getD k 0 / nrm := by
  unfold ketWtype
  rw [Nat.log2_two_pow, if_pos ⟨rfl, hk⟩]

theorem ketWtype_not_pow (coeff : List K) (nrm : K) (x : ℕ) (h : x ∉ (Finset.range coeff.length).image (fun k => 2 ^ k)) :
    ketWtype coeff nrm x = 0 := by
  unfold ketWtype
  rw [if_neg]
  rintro ⟨h1, h2⟩
  exact h (Finset.mem_image.mpr ⟨x.log2, Finset.mem_range.mpr h2, h1.symm⟩)

/-- **`Wtype(coeff)` is normalised**: `Σ_x ket(x)² = 1` whenever `nrm² = Σ_k coeff_k²` and `nrm ≠ 0` (real coefficients) -/
theorem ketWtype_norm_sq (coeff : List K) (nrm : K) (h0 : nrm ≠ 0)
    (hn : nrm * nrm = ∑ k ∈ Finset.range coeff.length, coeff.getD k 0 * coeff.getD k 0) :
    ∑ x ∈ Finset.range (2 ^ coeff.length), ketWtype coeff nrm x * ketWtype coeff nrm x = 1 := by
  have hsub : (Finset.range coeff.length).image (fun k => 2 ^ k) ⊆ Finset.range (2 ^ coeff.length) := by
    intro x hx
    obtain ⟨k, hk, rfl⟩ := Finset.mem_image.mp hx
    exact Finset.mem_range.mpr (Nat.pow_lt_pow_right (by norm_num) (Finset.mem_range.mp hk))
  rw [← Finset.sum_subset hsub (fun x _ hx => by rw [ketWtype_not_pow coeff nrm x hx, mul_zero]),
    Finset.sum_image (fun a _ b _ e => Nat.pow_right_injective (le_refl 2) e)]
  have : ∀ k ∈ Finset.range coeff.length, ketWtype coeff nrm (2 ^ k) * ketWtype coeff nrm (2 ^ k)
      = coeff.getD k 0 * coeff.getD k 0 / (nrm * nrm) := by
    intro k hk
    rw [ketWtype_two_pow coeff nrm k (Finset.mem_range.mp hk)]; field_simp
  rw [Finset.sum_congr rfl this, ← Finset.sum_div, ← hn, div_self (mul_ne_zero h0 h0)]

end Numqi.Catalogue
