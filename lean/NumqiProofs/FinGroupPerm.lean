/-
C14 helper lemmas: `itertools.permutations` (model `permsAux`) is complete and duplicate-free;
composition, identity and inverse of permutation tuples.
-/
import NumqiProofs.FinGroupLemmas

namespace Numqi.FinGroup

/-! ### `permsAux k l` lists exactly the rearrangements of `l`, each once -/

theorem mem_permsAux (k : Nat) : ∀ (l p : List Nat), l.length = k → (p ∈ permsAux k l ↔ p.Perm l) := by
  induction k with
  | zero =>
    intro l p hl
    have : l = [] := List.length_eq_zero_iff.1 hl
    subst this
    simp [permsAux]
  | succ k ih =>
    intro l p hl
    simp only [permsAux, List.mem_flatMap, List.mem_map]
    constructor
    · rintro ⟨x, hx, q, hq, rfl⟩
      have hlen : (l.erase x).length = k := by rw [List.length_erase_of_mem hx]; omega
      exact List.cons_perm_iff_perm_erase.2 ⟨hx, (ih _ _ hlen).1 hq⟩
    · intro hp
      cases p with
      | nil => have := hp.length_eq; simp at this; omega
      | cons x q =>
        obtain ⟨hx, hq⟩ := List.cons_perm_iff_perm_erase.1 hp
        have hlen : (l.erase x).length = k := by rw [List.length_erase_of_mem hx]; omega
        exact ⟨x, hx, q, (ih _ _ hlen).2 hq, rfl⟩

theorem nodup_permsAux (k : Nat) : ∀ (l : List Nat), l.Nodup → (permsAux k l).Nodup := by
  induction k with
  | zero => intro l _; simp [permsAux]
  | succ k ih =>
    intro l hl
    simp only [permsAux]
    rw [List.nodup_flatMap]
    refine ⟨fun x _ => (ih _ (hl.erase x)).map (fun a b h => by simpa using h), ?_⟩
    refine hl.imp ?_
    intro x y hxy
    simp only [Function.onFun]
    rw [List.disjoint_left]
    intro p hp hq
    simp only [List.mem_map] at hp hq
    obtain ⟨a, _, rfl⟩ := hp
    obtain ⟨b, _, hb⟩ := hq
    simp at hb
    exact hxy hb.1.symm

theorem mem_perms {n : Nat} {p : List Nat} : p ∈ perms n ↔ p.Perm (List.range n) :=
  mem_permsAux n _ _ (List.length_range)

theorem nodup_perms (n : Nat) : (perms n).Nodup := nodup_permsAux n _ List.nodup_range

/-! ### facts about a permutation tuple `p ~ range n` -/

theorem perm_length {n : Nat} {p : List Nat} (h : p.Perm (List.range n)) : p.length = n := by
  simpa using h.length_eq

theorem perm_lt {n : Nat} {p : List Nat} (h : p.Perm (List.range n)) {x : Nat} (hx : x ∈ p) : x < n := by
  simpa using (h.mem_iff).1 hx

theorem perm_mem {n : Nat} {p : List Nat} (h : p.Perm (List.range n)) {x : Nat} (hx : x < n) : x ∈ p :=
  (h.mem_iff).2 (by simpa using hx)

theorem perm_nodup {n : Nat} {p : List Nat} (h : p.Perm (List.range n)) : p.Nodup :=
  (h.nodup_iff).2 List.nodup_range

/-- a duplicate-free tuple of `n` numbers `< n` is a rearrangement of `range n` -/
theorem perm_of_nodup {n : Nat} {p : List Nat} (hnd : p.Nodup) (hlen : p.length = n) (hlt : ∀ x ∈ p, x < n) :
    p.Perm (List.range n) := by
  apply List.Subperm.perm_of_length_le
  · exact List.subperm_of_subset hnd (fun x hx => by simpa using hlt x hx)
  · simp [hlen]

/-- `range n` mapped through the tuple is the tuple -/
theorem map_getD_range {n : Nat} {p : List Nat} (hlen : p.length = n) :
    (List.range n).map (fun k => p.getD k 0) = p := by
  apply List.ext_getElem
  · simp [hlen]
  · intro i h1 h2
    simp [List.getD_eq_getElem?_getD, List.getElem?_eq_getElem h2]

/-! ### composition -/

theorem compose_perm {n : Nat} {p q : List Nat} (hp : p.Perm (List.range n)) (hq : q.Perm (List.range n)) :
    (compose p q).Perm (List.range n) := by
  unfold compose
  have := hq.map (fun k => p.getD k 0)
  rw [map_getD_range (perm_length hp)] at this
  exact this.trans hp

theorem compose_assoc {n : Nat} {p q r : List Nat} (hq : q.length = n) (hr : ∀ x ∈ r, x < n) :
    compose (compose p q) r = compose p (compose q r) := by
  unfold compose
  rw [List.map_map]
  apply List.map_congr_left
  intro x hx
  have hx' : x < q.length := by rw [hq]; exact hr x hx
  simp [List.getD_eq_getElem?_getD, List.getElem?_map, List.getElem?_eq_getElem hx']

theorem compose_range_left {n : Nat} {p : List Nat} (hp : ∀ x ∈ p, x < n) : compose (List.range n) p = p := by
  unfold compose
  conv_rhs => rw [← List.map_id p]
  apply List.map_congr_left
  intro x hx
  have := hp x hx
  simp [List.getD_eq_getElem?_getD, List.getElem?_range this]

theorem compose_range_right {n : Nat} {p : List Nat} (hp : p.length = n) : compose p (List.range n) = p :=
  map_getD_range hp

/-- the inverse tuple `k ↦ position of k in p` -/
def invPerm (n : Nat) (p : List Nat) : List Nat := (List.range n).map fun k => p.idxOf k

theorem compose_invPerm_right {n : Nat} {p : List Nat} (hp : p.Perm (List.range n)) :
    compose p (invPerm n p) = List.range n := by
  unfold compose invPerm
  rw [List.map_map]
  conv_rhs => rw [← List.map_id (List.range n)]
  apply List.map_congr_left
  intro k hk
  have hk' : k ∈ p := perm_mem hp (by simpa using hk)
  have h1 : p.idxOf k < p.length := List.idxOf_lt_length_iff.2 hk'
  simp [List.getD_eq_getElem?_getD, List.getElem?_eq_getElem h1]

theorem compose_invPerm_left {n : Nat} {p : List Nat} (hp : p.Perm (List.range n)) :
    compose (invPerm n p) p = List.range n := by
  unfold compose invPerm
  have hlen := perm_length hp
  apply List.ext_getElem
  · simp [hlen]
  · intro i h1 h2
    have hi : i < p.length := by simpa using h1
    have hlt : p[i] < n := perm_lt hp (List.getElem_mem hi)
    simp [List.getD_eq_getElem?_getD, List.getElem?_range hlt, (perm_nodup hp).idxOf_getElem i hi]

theorem invPerm_perm {n : Nat} {p : List Nat} (hp : p.Perm (List.range n)) :
    (invPerm n p).Perm (List.range n) := by
  apply perm_of_nodup
  · unfold invPerm
    rw [List.nodup_map_iff_inj_on List.nodup_range]
    intro x hx y hy hxy
    have hx' : x ∈ p := perm_mem hp (by simpa using hx)
    have hy' : y ∈ p := perm_mem hp (by simpa using hy)
    have h1 := List.getElem_idxOf (List.idxOf_lt_length_iff.2 hx')
    have h2 := List.getElem_idxOf (List.idxOf_lt_length_iff.2 hy')
    rw [← h1, ← h2]
    simp [hxy]
  · simp [invPerm]
  · intro x hx
    simp only [invPerm, List.mem_map, List.mem_range] at hx
    obtain ⟨k, hk, rfl⟩ := hx
    rw [← perm_length hp]
    exact List.idxOf_lt_length_iff.2 (perm_mem hp hk)

end Numqi.FinGroup
