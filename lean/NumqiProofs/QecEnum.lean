/-
C19: the model of `quantum_weight_enumerator` computes, for every `w`, the sums over the Pauli strings of
weight exactly `w + 1`; together with the Parseval identity this gives the sum rules for the returned arrays.
-/
import NumqiProofs.QecParseval
import NumqiProofs.QecErrorList
import NumqiProofs.QecKL

namespace Numqi.Qec
variable {R : Type} [CommRing R] [StarRing R]

/-- complex conjugation of the model = `star` -/
@[reducible] def starConj : Conj R := ⟨star⟩

attribute [local instance] starConj

omit [StarRing R] in
theorem sumL_eq (l : List R) : sumL l = l.sum := by
  induction l with
  | nil => rfl
  | cons a l ih => simp only [sumL, List.foldr_cons, List.sum_cons] at *; rw [ih]

omit [StarRing R] in
theorem sum_map_range (f : Nat → R) (N : Nat) : ((List.range N).map f).sum = ∑ i ∈ Finset.range N, f i := by
  induction N with
  | zero => simp
  | succ N ih => rw [List.range_succ, List.map_append, List.sum_append, ih, Finset.sum_range_succ]; simp

theorem ipL_eq_ip (n : Nat) (u v : Nat → R) : ipL n u v = ip n u v := by
  unfold ipL ip dotL vecL
  rw [sumL_eq, List.zipWith_map_left, List.zipWith_map_right, List.zipWith_self, sum_map_range]
  rfl

/-- `enumTerm` in terms of the matrix elements `matEl a b = ⟨c_a|P|c_b⟩` -/
theorem enumTerm_def (I : R) (n : Nat) (cw : List (Nat → R)) (p : MP) :
    enumTerm I n cw p
      = (star (sumL (cw.map fun a => matEl I n p a a)) * sumL (cw.map fun a => matEl I n p a a),
         sumL (cw.map fun a => sumL (cw.map fun b => star (matEl I n p a b) * matEl I n p a b))) := by
  unfold enumTerm
  simp only [List.zip_map', List.map_map]
  rfl

theorem matEl_eq (I : R) (n : Nat) (p : MP) (u v : Nat → R) : matEl I n p u v = ip n u (pauliAct I p v) := by
  unfold matEl; rw [ipL_eq_ip]

theorem matEl_phase {I : R} (n : Nat) (p : MP) (u v : Nat → R) :
    matEl I n p u v = ipow I p.k * matEl I n ⟨0, p.x, p.z⟩ u v := by
  rw [matEl_eq, matEl_eq]
  have : pauliAct I p v = fun i => ipow I p.k * pauliAct I ⟨0, p.x, p.z⟩ v i := funext (pauliAct_phase p v)
  rw [this, ip_smul_right]

section phase
variable {I : R} (hI : I * I = -1) (hs : star I = -I)
include hI hs

theorem star_ipow_mul_star (k : Nat) (a b : R) : star (ipow I k * a) * (ipow I k * b) = star a * b := by
  rw [star_mul]
  calc star a * star (ipow I k) * (ipow I k * b) = (star (ipow I k) * ipow I k) * (star a * b) := by ring
    _ = _ := by rw [star_ipow_mul hI hs, one_mul]

/-- the increments do not depend on the phase of the operator -/
theorem enumTerm_phase (n : Nat) (cw : List (Nat → R)) (p : MP) :
    enumTerm I n cw p = enumTerm I n cw ⟨0, p.x, p.z⟩ := by
  rw [enumTerm_def, enumTerm_def]
  have e1 : (cw.map fun a => matEl I n p a a) = cw.map fun a => ipow I p.k * matEl I n ⟨0, p.x, p.z⟩ a a := by
    apply List.map_congr_left; intro a _; exact matEl_phase n p a a
  have e2 : sumL (cw.map fun a => ipow I p.k * matEl I n ⟨0, p.x, p.z⟩ a a)
      = ipow I p.k * sumL (cw.map fun a => matEl I n ⟨0, p.x, p.z⟩ a a) := by
    rw [sumL_eq, sumL_eq, List.sum_map_mul_left]
  refine Prod.ext ?_ ?_
  · simp only [e1, e2]
    exact star_ipow_mul_star hI hs _ _ _
  · simp only
    congr 1
    apply List.map_congr_left; intro a _
    congr 1
    apply List.map_congr_left; intro b _
    simp only [matEl_phase n p a b]
    exact star_ipow_mul_star hI hs _ _ _

end phase

/-! ### strings of symbols -/

omit [StarRing R] in
theorem mem_allSyms (n : Nat) (s : List Nat) : s ∈ allSyms n ↔ s.length = n ∧ ∀ x ∈ s, x < 4 := by
  induction n generalizing s with
  | zero => simp only [allSyms, List.mem_singleton, List.length_eq_zero_iff]; constructor
            · intro h; subst h; simp
            · intro h; exact h.1
  | succ n ih =>
    simp only [allSyms, List.mem_flatMap, List.mem_map, ih]
    constructor
    · rintro ⟨a, ha, t, ⟨hl, ht⟩, rfl⟩
      refine ⟨by simp [hl], ?_⟩
      intro x hx
      rcases List.mem_cons.1 hx with rfl | hx
      · have : x = 0 ∨ x = 1 ∨ x = 2 ∨ x = 3 := by simpa using ha
        omega
      · exact ht x hx
    · rintro ⟨hl, hs⟩
      cases s with
      | nil => simp at hl
      | cons a t =>
        have ha := hs a (List.mem_cons_self ..)
        refine ⟨a, ?_, t, ⟨by simpa using hl, fun x hx => hs x (List.mem_cons_of_mem _ hx)⟩, rfl⟩
        have : a = 0 ∨ a = 1 ∨ a = 2 ∨ a = 3 := by omega
        simpa using this

omit [StarRing R] in
theorem nodup_allSyms (n : Nat) : (allSyms n).Nodup := by
  induction n with
  | zero => simp [allSyms]
  | succ n ih =>
    simp only [allSyms]
    rw [List.nodup_flatMap]
    refine ⟨fun a _ => ih.map (fun x y h => by simpa using h), ?_⟩
    have : [0, 1, 2, 3].Pairwise (fun a b : Nat => a ≠ b) := by decide
    refine this.imp ?_
    intro a b hab
    simp only [Function.onFun, List.disjoint_left, List.mem_map]
    rintro s ⟨r, _, rfl⟩ ⟨r', _, h⟩
    simp only [List.cons.injEq] at h
    exact hab h.1.symm

omit [StarRing R] in
theorem ofSyms_testBit (s : List Nat) (j : Nat) :
    (MP.ofSyms s).x.testBit j = (s.getD j 0 == 1 || s.getD j 0 == 2)
    ∧ (MP.ofSyms s).z.testBit j = (s.getD j 0 == 2 || s.getD j 0 == 3) := by
  unfold MP.ofSyms
  rw [ofSparse_x, ofSparse_z,
    any_eq_val _ s List.nodup_range (fun v => v == 1 || v == 2) rfl,
    any_eq_val _ s List.nodup_range (fun v => v == 2 || v == 3) rfl, val_range_zip]
  exact ⟨rfl, rfl⟩

omit [StarRing R] in
theorem ofSyms_lt (s : List Nat) : (MP.ofSyms s).x < 2 ^ s.length ∧ (MP.ofSyms s).z < 2 ^ s.length := by
  constructor <;>
  · apply Nat.lt_pow_two_of_testBit
    intro i hi
    have := ofSyms_testBit s i
    have h0 : s.getD i 0 = 0 := by
      rw [List.getD_eq_getElem?_getD, List.getElem?_eq_none hi]; rfl
    first | (rw [this.1, h0]; rfl) | (rw [this.2, h0]; rfl)

omit [StarRing R] in
/-- string → masks → string -/
theorem syms_ofSyms (n : Nat) (s : List Nat) (hl : s.length = n) (h4 : ∀ x ∈ s, x < 4) :
    MP.syms n ⟨0, (MP.ofSyms s).x, (MP.ofSyms s).z⟩ = s := by
  subst hl
  apply List.ext_getElem
  · simp [MP.syms]
  · intro i h1 h2
    simp only [MP.syms, List.getElem_map, List.getElem_range, MP.sym]
    have ht := ofSyms_testBit s i
    rw [ht.1, ht.2]
    have hv : s.getD i 0 = s[i] := by
      rw [List.getD_eq_getElem?_getD, List.getElem?_eq_getElem h2]; rfl
    have := h4 s[i] (List.getElem_mem h2)
    rw [hv]
    generalize s[i] = v at *
    interval_cases v <;> rfl

omit [StarRing R] in
theorem syms_mem (n : Nat) (p : MP) : MP.syms n p ∈ allSyms n := by
  rw [mem_allSyms]
  refine ⟨by simp [MP.syms], ?_⟩
  intro x hx
  simp only [MP.syms, List.mem_map] at hx
  obtain ⟨q, _, rfl⟩ := hx
  unfold MP.sym
  split <;> omega

omit [StarRing R] in
/-- masks → string → masks -/
theorem ofSyms_syms (n x z : Nat) (hx : x < 2 ^ n) (hz : z < 2 ^ n) :
    (MP.ofSyms (MP.syms n ⟨0, x, z⟩)).x = x ∧ (MP.ofSyms (MP.syms n ⟨0, x, z⟩)).z = z := by
  have hget : ∀ j, (MP.syms n ⟨0, x, z⟩).getD j 0 = if j < n then MP.sym ⟨0, x, z⟩ j else 0 := by
    intro j
    by_cases hj : j < n
    · simp [MP.syms, List.getD_eq_getElem?_getD, hj]
    · simp [MP.syms, List.getD_eq_getElem?_getD, hj]
  constructor
  · apply Nat.eq_of_testBit_eq; intro j
    rw [(ofSyms_testBit _ j).1, hget]
    by_cases hj : j < n
    · simp only [hj, if_true, MP.sym]
      cases x.testBit j <;> cases z.testBit j <;> rfl
    · have : x.testBit j = false :=
        Nat.testBit_lt_two_pow (lt_of_lt_of_le hx (Nat.pow_le_pow_right (by norm_num) (by omega)))
      simp [hj, this]
  · apply Nat.eq_of_testBit_eq; intro j
    rw [(ofSyms_testBit _ j).2, hget]
    by_cases hj : j < n
    · simp only [hj, if_true, MP.sym]
      cases x.testBit j <;> cases z.testBit j <;> rfl
    · have : z.testBit j = false :=
        Nat.testBit_lt_two_pow (lt_of_lt_of_le hz (Nat.pow_le_pow_right (by norm_num) (by omega)))
      simp [hj, this]

/-! ### the operators of one weight -/

/-- the (qubit, gate) lists of weight `w + 1`, in generation order -/
def levelErr (n w : Nat) : List (List (Nat × Nat)) :=
  (combs (List.range n) (w + 1)).flatMap fun qs => (prods (w + 1)).map fun gs => qs.zip gs

omit [StarRing R] in
theorem enumOps_eq (n w : Nat) : enumOps n w = (levelErr n w).map MP.ofSparse := by
  unfold enumOps levelErr
  rw [List.map_flatMap]
  congr 1; funext qs
  rw [List.map_map]; rfl

omit [StarRing R] in
theorem errorList_eq (n d : Nat) : errorList n d = (List.range (d - 1)).flatMap (levelErr n) := rfl

omit [StarRing R] in
theorem errorList_succ (n w : Nat) : errorList n (w + 2) = errorList n (w + 1) ++ levelErr n w := by
  rw [errorList_eq, errorList_eq]
  show (List.range (w + 1)).flatMap (levelErr n) = (List.range w).flatMap (levelErr n) ++ levelErr n w
  rw [List.range_succ, List.flatMap_append]
  simp

omit [StarRing R] in
theorem mem_levelErr (n w : Nat) (e : List (Nat × Nat)) :
    e ∈ levelErr n w ↔ ∃ qs gs : List Nat, qs.Sublist (List.range n) ∧ qs.length = w + 1 ∧
      gs.length = w + 1 ∧ (∀ g ∈ gs, g = 1 ∨ g = 2 ∨ g = 3) ∧ e = qs.zip gs := by
  simp only [levelErr, List.mem_flatMap, List.mem_map, mem_combs, mem_prods]
  constructor
  · rintro ⟨qs, ⟨hs, hl⟩, gs, ⟨hgl, hg⟩, rfl⟩
    exact ⟨qs, gs, hs, hl, hgl, hg, rfl⟩
  · rintro ⟨qs, gs, hs, hl, hgl, hg, rfl⟩
    exact ⟨qs, ⟨hs, hl⟩, gs, ⟨hgl, hg⟩, rfl⟩

omit [StarRing R] in
theorem levelErr_sub (n w : Nat) (e : List (Nat × Nat)) (h : e ∈ levelErr n w) : e ∈ errorList n (w + 2) := by
  rw [errorList_succ]; exact List.mem_append_right _ h

omit [StarRing R] in
/-- the strings of level `w` are exactly the strings of weight `w + 1`, each once -/
theorem level_strings (n w : Nat) :
    ((levelErr n w).map (sparseToSyms n)).Nodup ∧
    ((levelErr n w).map (sparseToSyms n)).toFinset = (allSyms n).toFinset.filter (fun s => symWeight s = w + 1) := by
  constructor
  · have := errorList_nodup n (w + 2)
    rw [errorList_succ, List.map_append] at this
    exact (List.nodup_append.1 this).2.1
  · ext s
    simp only [List.mem_toFinset, Finset.mem_filter, List.mem_map, mem_allSyms]
    constructor
    · rintro ⟨e, he, rfl⟩
      rw [mem_levelErr] at he
      obtain ⟨qs, gs, hs, hl, hgl, hg, rfl⟩ := he
      obtain ⟨a, b, c⟩ := syms_of_mem n qs gs hs (by omega) hg
      exact ⟨⟨a, b⟩, by omega⟩
    · rintro ⟨⟨hl, h4⟩, hw⟩
      have hm := errorList_complete n (w + 2) s hl h4 (by omega) (by omega)
      rw [List.mem_map] at hm
      obtain ⟨e, he, rfl⟩ := hm
      refine ⟨e, ?_, rfl⟩
      rw [mem_errorList] at he
      obtain ⟨qs, gs, hs, h1, h2, hgl, hg, rfl⟩ := he
      obtain ⟨_, _, c⟩ := syms_of_mem n qs gs hs hgl hg
      rw [mem_levelErr]
      exact ⟨qs, gs, hs, by omega, by omega, hg, rfl⟩

/-- **`retA[w]`, `retB[w]` (before the final division) are the sums over the Pauli strings of weight exactly
`w + 1`** of `|tr(P Π)|²` resp. `Σ_ab |⟨c_a|P|c_b⟩|²`. -/
theorem enumLevel_eq_strings (I : R) (n : Nat) (cw : List (Nat → R)) (w : Nat) :
    (enumLevel I n cw w).1
        = ∑ s ∈ (allSyms n).toFinset.filter (fun s => symWeight s = w + 1), (enumTerm I n cw (MP.ofSyms s)).1
    ∧ (enumLevel I n cw w).2
        = ∑ s ∈ (allSyms n).toFinset.filter (fun s => symWeight s = w + 1), (enumTerm I n cw (MP.ofSyms s)).2 := by
  obtain ⟨hnd, hset⟩ := level_strings n w
  have gen : ∀ g : MP → R,
      ((enumOps n w).map g).sum = ∑ s ∈ (allSyms n).toFinset.filter (fun s => symWeight s = w + 1), g (MP.ofSyms s) := by
    intro g
    rw [← hset, List.sum_toFinset _ hnd, enumOps_eq, List.map_map, List.map_map]
    congr 1
    apply List.map_congr_left
    intro e he
    simp only [Function.comp]
    rw [ofSparse_eq_ofSyms n (w + 2) e (levelErr_sub n w e he)]
  constructor
  · show sumL (((enumOps n w).map (enumTerm I n cw)).map (·.1)) = _
    rw [sumL_eq, List.map_map]
    exact gen (fun p => (enumTerm I n cw p).1)
  · show sumL (((enumOps n w).map (enumTerm I n cw)).map (·.2)) = _
    rw [sumL_eq, List.map_map]
    exact gen (fun p => (enumTerm I n cw p).2)

/-! ### totals -/

omit [StarRing R] in
theorem symWeight_le (s : List Nat) : symWeight s ≤ s.length := List.length_filter_le _ _

omit [StarRing R] in
theorem ofSyms_zeros (n : Nat) : MP.ofSyms (List.replicate n 0) = MP.one := by
  have hk : (MP.ofSyms (List.replicate n 0)).k = 0 := by
    unfold MP.ofSyms
    rw [ofSparse_k]
    have : ((List.range (List.replicate n 0).length).zip (List.replicate n 0)).countP (fun p => p.2 == 2) = 0 := by
      rw [List.countP_eq_zero]
      intro p hp
      have := (List.of_mem_zip hp).2
      rw [List.mem_replicate] at this
      simp [this.2]
    rw [this]
  have hget : ∀ j, (List.replicate n 0).getD j 0 = 0 := by
    intro j
    rw [List.getD_eq_getElem?_getD]
    by_cases hj : j < n
    · simp [hj]
    · simp [hj]
  have hx : (MP.ofSyms (List.replicate n 0)).x = 0 := by
    apply Nat.eq_of_testBit_eq; intro j
    rw [(ofSyms_testBit _ j).1, hget]; simp
  have hz : (MP.ofSyms (List.replicate n 0)).z = 0 := by
    apply Nat.eq_of_testBit_eq; intro j
    rw [(ofSyms_testBit _ j).2, hget]; simp
  cases h : MP.ofSyms (List.replicate n 0)
  simp only [h] at hk hx hz
  simp [MP.one, hk, hx, hz]

omit [StarRing R] in
theorem weight_zero_strings (n : Nat) :
    (allSyms n).toFinset.filter (fun s => symWeight s = 0) = {List.replicate n 0} := by
  ext s
  simp only [Finset.mem_filter, List.mem_toFinset, mem_allSyms, Finset.mem_singleton]
  constructor
  · rintro ⟨⟨hl, _⟩, hw⟩
    rw [List.eq_replicate_iff]
    refine ⟨hl, fun x hx => ?_⟩
    unfold symWeight at hw
    rw [List.length_eq_zero_iff, List.filter_eq_nil_iff] at hw
    have := hw x hx
    simpa using this
  · rintro rfl
    refine ⟨⟨by simp, fun x hx => by rw [List.mem_replicate] at hx; omega⟩, ?_⟩
    unfold symWeight
    rw [List.length_eq_zero_iff, List.filter_eq_nil_iff]
    intro x hx; rw [List.mem_replicate] at hx; simp [hx.2]

/-- all weights together: `Σ_w level_w + (identity term) = Σ over all strings` -/
theorem weightEnum_total (I : R) (n : Nat) (cw : List (Nat → R)) :
    sumL ((weightEnum I n cw).map (·.1)) + (enumTerm I n cw MP.one).1
        = ∑ s ∈ (allSyms n).toFinset, (enumTerm I n cw (MP.ofSyms s)).1
    ∧ sumL ((weightEnum I n cw).map (·.2)) + (enumTerm I n cw MP.one).2
        = ∑ s ∈ (allSyms n).toFinset, (enumTerm I n cw (MP.ofSyms s)).2 := by
  have hmaps : ∀ s ∈ (allSyms n).toFinset, symWeight s ∈ Finset.range (n + 1) := by
    intro s hs
    rw [List.mem_toFinset, mem_allSyms] at hs
    rw [Finset.mem_range]
    have := symWeight_le s
    omega
  have gen : ∀ g : MP → R,
      ∑ w ∈ Finset.range n, ∑ s ∈ (allSyms n).toFinset.filter (fun s => symWeight s = w + 1), g (MP.ofSyms s) + g MP.one
        = ∑ s ∈ (allSyms n).toFinset, g (MP.ofSyms s) := by
    intro g
    rw [← Finset.sum_fiberwise_of_maps_to hmaps (fun s => g (MP.ofSyms s)), Finset.sum_range_succ', weight_zero_strings]
    simp [ofSyms_zeros]
  constructor
  · rw [sumL_eq, weightEnum, List.map_map, sum_map_range]
    rw [← gen (fun p => (enumTerm I n cw p).1)]
    congr 1
    apply Finset.sum_congr rfl; intro w _
    exact (enumLevel_eq_strings I n cw w).1
  · rw [sumL_eq, weightEnum, List.map_map, sum_map_range]
    rw [← gen (fun p => (enumTerm I n cw p).2)]
    congr 1
    apply Finset.sum_congr rfl; intro w _
    exact (enumLevel_eq_strings I n cw w).2

omit [StarRing R] in
/-- strings ↔ mask pairs: a sum over all strings of a phase-independent quantity is the double sum over masks -/
theorem sum_strings_eq_masks (n : Nat) (g : MP → R) (hg : ∀ p : MP, g p = g ⟨0, p.x, p.z⟩) :
    ∑ s ∈ (allSyms n).toFinset, g (MP.ofSyms s)
      = ∑ x ∈ Finset.range (2 ^ n), ∑ z ∈ Finset.range (2 ^ n), g ⟨0, x, z⟩ := by
  rw [← Finset.sum_product']
  apply Finset.sum_nbij' (fun s => ((MP.ofSyms s).x, (MP.ofSyms s).z)) (fun xz => MP.syms n ⟨0, xz.1, xz.2⟩)
  · intro s hs
    rw [List.mem_toFinset, mem_allSyms] at hs
    have := ofSyms_lt s
    rw [hs.1] at this
    simp [Finset.mem_product, this.1, this.2]
  · intro xz _
    rw [List.mem_toFinset]; exact syms_mem n _
  · intro s hs
    rw [List.mem_toFinset, mem_allSyms] at hs
    exact syms_ofSyms n s hs.1 hs.2
  · intro xz hxz
    simp only [Finset.mem_product, Finset.mem_range] at hxz
    obtain ⟨a, b⟩ := ofSyms_syms n xz.1 xz.2 hxz.1 hxz.2
    exact Prod.ext a b
  · intro s _
    exact hg _

/-! ### sum rules for the returned arrays -/

omit [StarRing R] in
theorem sumL_map_range (K : Nat) (c : Nat → Nat → R) (f : (Nat → R) → R) :
    sumL (((List.range K).map c).map f) = ∑ a ∈ Finset.range K, f (c a) := by
  rw [sumL_eq, List.map_map, sum_map_range]; rfl

/-- the two increments for the operator `X^x Z^z`, as finite sums -/
theorem enumTerm_eq (I : R) (n K : Nat) (c : Nat → Nat → R) (p : MP) :
    enumTerm I n ((List.range K).map c) p
      = (star (∑ a ∈ Finset.range K, ip n (c a) (pauliAct I p (c a))) * (∑ a ∈ Finset.range K, ip n (c a) (pauliAct I p (c a))),
         ∑ a ∈ Finset.range K, ∑ b ∈ Finset.range K,
            star (ip n (c a) (pauliAct I p (c b))) * ip n (c a) (pauliAct I p (c b))) := by
  rw [enumTerm_def]
  simp only [sumL_map_range, matEl_eq]

/-- **Sum rules for the arrays returned by the model of `quantum_weight_enumerator`**, for `K` pairwise
orthogonal vectors of squared norm `N` on `n ≤ 32` qubits: with the weight-0 (identity) terms that the
implementation leaves out, `Σ_w retA'[w] + A'_0 = 2^n K N²`, `Σ_w retB'[w] + B'_0 = 2^n K² N²`, and
`A'_0 = |K N|²`, `B'_0 = K |N|²`  (so, after the division by `K²` resp. `K` and for `N = 1`:
`A_0 = B_0 = 1`, `Σ_{j≥1} A_j = 2^n/K - 1`, `Σ_{j≥1} B_j = 2^n K - 1`). -/
theorem weightEnum_sum_rules {I : R} (hI : I * I = -1) (hs : star I = -I) (h2 : ∀ a b : R, 2 * a = 2 * b → a = b)
    (n : Nat) (hn : n ≤ 32) (K : Nat) (N : R) (c : Nat → Nat → R)
    (horth : ∀ a < K, ∀ b < K, ip n (c a) (c b) = if a = b then N else 0) :
    sumL ((weightEnum I n ((List.range K).map c)).map (·.1)) + (enumTerm I n ((List.range K).map c) MP.one).1
        = 2 ^ n * (K * (N * N))
    ∧ sumL ((weightEnum I n ((List.range K).map c)).map (·.2)) + (enumTerm I n ((List.range K).map c) MP.one).2
        = 2 ^ n * (K * K * (N * N))
    ∧ enumTerm I n ((List.range K).map c) MP.one = (star (K * N) * (K * N), K * (star N * N)) := by
  obtain ⟨t1, t2⟩ := weightEnum_total I n ((List.range K).map c)
  obtain ⟨r1, r2⟩ := enumerator_sum_rules hI h2 n hn K N c horth
  refine ⟨?_, ?_, ?_⟩
  · rw [t1, sum_strings_eq_masks n (fun p => (enumTerm I n ((List.range K).map c) p).1)
      (fun p => by simp only [enumTerm_phase hI hs n _ p]), ← r1]
    apply Finset.sum_congr rfl; intro x _
    apply Finset.sum_congr rfl; intro z _
    rw [enumTerm_eq]
  · rw [t2, sum_strings_eq_masks n (fun p => (enumTerm I n ((List.range K).map c) p).2)
      (fun p => by simp only [enumTerm_phase hI hs n _ p]), ← r2]
    apply Finset.sum_congr rfl; intro x _
    apply Finset.sum_congr rfl; intro z _
    rw [enumTerm_eq]
  · rw [enumTerm_eq]
    simp only [pauliAct_one]
    have e1 : ∑ a ∈ Finset.range K, ip n (c a) (c a) = K * N := by
      rw [Finset.sum_congr rfl (fun a ha => by rw [horth a (Finset.mem_range.1 ha) a (Finset.mem_range.1 ha), if_pos rfl])]
      simp
    have e2 : ∀ a ∈ Finset.range K, ∑ b ∈ Finset.range K, star (ip n (c a) (c b)) * ip n (c a) (c b) = star N * N := by
      intro a ha
      rw [Finset.sum_eq_single a]
      · rw [horth a (Finset.mem_range.1 ha) a (Finset.mem_range.1 ha), if_pos rfl]
      · intro b hb hba
        rw [horth a (Finset.mem_range.1 ha) b (Finset.mem_range.1 hb), if_neg (Ne.symm hba)]; simp
      · intro h; exact absurd ha h
    rw [e1, Finset.sum_congr rfl e2]
    simp

end Numqi.Qec
