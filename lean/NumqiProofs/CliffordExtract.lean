/-
C07: the executed `clifford_array_to_F2` (list-of-lists ℤ[i] matrices of the driver) is sound — bridge Mat ↔ Matrix,
`pauliMat = C08.mat` for every k, Hermiticity of the images and symplecticity of the stored tableau derived.
-/
import NumqiProofs.CliffordDense
import NumqiProofs.CliffordCircuit
namespace Numqi.Clifford
open Numqi Matrix
variable {R : Type} [CommRing R]

/-! ### list-of-lists matrices over ℤ[i] (what the driver executes) as Mathlib matrices over `R` -/

/-- the `2^k × 2^k` matrix of a list-of-lists `Mat` (row-major, qubit 0 most significant) under `ℤ[i] → R` -/
def toMatrix (k : Nat) (I : R) (M : Clifford.Mat) : Matrix (Bits k) (Bits k) R :=
  fun a b => gintTo I (M.get a.toNat b.toNat)

theorem get_map_range (m : Nat) (f : Nat → Nat → GInt) {i j : Nat} (hi : i < m) (hj : j < m) :
    Mat.get ((List.range m).map fun i => (List.range m).map fun j => f i j) i j = f i j := by
  simp [Mat.get, List.getD_eq_getElem?_getD, hi, hj]

theorem gintTo_foldl {I : R} (hI : I * I = -1) (f g : Nat → GInt) (m : Nat) :
    gintTo I ((List.range m).foldl (fun acc t => acc + f t * g t) 0) =
      ∑ t ∈ Finset.range m, gintTo I (f t) * gintTo I (g t) := by
  induction m with
  | zero => simp [gintTo_zero]
  | succ m ih =>
    rw [List.range_succ, List.foldl_append, List.foldl_cons, List.foldl_nil, gintTo_add, gintTo_mul hI, ih,
      Finset.sum_range_succ]

theorem sum_range_eq_sum_bits (k : Nat) (f : Nat → R) :
    ∑ t ∈ Finset.range (2 ^ k), f t = ∑ w : Bits k, f w.toNat := by
  rw [← Fin.sum_univ_eq_sum_range, ← Equiv.sum_comp (Bits.equivFin k).symm]
  rfl

theorem toMatrix_mul {I : R} (hI : I * I = -1) (k : Nat) (A B : Clifford.Mat) :
    toMatrix k I (Mat.mul (2 ^ k) A B) = toMatrix k I A * toMatrix k I B := by
  ext a b
  rw [Matrix.mul_apply]
  simp only [toMatrix, Mat.mul]
  rw [get_map_range _ _ (Bits.toNat_lt a) (Bits.toNat_lt b), gintTo_foldl hI, sum_range_eq_sum_bits]

theorem toMatrix_scale {I : R} (hI : I * I = -1) (k : Nat) (c : GInt) (M : Clifford.Mat)
    (hM : M.length = 2 ^ k ∧ ∀ row ∈ M, row.length = 2 ^ k) :
    toMatrix k I (Mat.scale c M) = gintTo I c • toMatrix k I M := by
  ext a b
  have ha := Bits.toNat_lt a
  have hb := Bits.toNat_lt b
  simp only [toMatrix, Matrix.smul_apply, smul_eq_mul, Mat.scale, Mat.get]
  rw [← gintTo_mul hI]
  congr 1
  have h1 : a.toNat < M.length := by rw [hM.1]; exact ha
  have hrow : (M.getD a.toNat []).length = 2 ^ k := by
    rw [List.getD_eq_getElem?_getD, List.getElem?_eq_getElem h1]; exact hM.2 _ (List.getElem_mem h1)
  have h2 : b.toNat < (M.getD a.toNat []).length := by rw [hrow]; exact hb
  simp [List.getD_eq_getElem?_getD, h1, List.getElem?_eq_getElem h1] at h2 ⊢
  simp [h2]

/-! ### `pauliMat` (bit-mask entries) is C08's matrix, for every `k` -/

theorem testBit_toNat {k : Nat} (x : Bits k) (j : Nat) :
    x.toNat.testBit j = if h : j < k then x ⟨k - 1 - j, by omega⟩ else false := by
  by_cases hj : j < k
  · rw [dif_pos hj]
    have := congrFun (Bits.ofNat_toNat x) ⟨k - 1 - j, by omega⟩
    simp only [Bits.ofNat] at this
    rw [← this]
    congr 1
    omega
  · rw [dif_neg hj]
    exact SpF2.testBit_eq_false_of_lt (Bits.toNat_lt x) (by omega)

theorem testBit_foldIndex (k : Nat) (f : Nat → Bool) (m j : Nat) (hm : m ≤ k) :
    ((List.range m).foldl (fun acc q => if f q then acc ^^^ 2 ^ (k - 1 - q) else acc) 0).testBit j =
      (decide (j < k) && decide (k - 1 - j < m) && f (k - 1 - j)) := by
  induction m with
  | zero => simp
  | succ m ih =>
    rw [List.range_succ, List.foldl_append, List.foldl_cons, List.foldl_nil]
    by_cases hf : f m = true
    · rw [if_pos hf, Nat.testBit_xor, ih (by omega), Nat.testBit_two_pow]
      by_cases hj : k - 1 - m = j
      · have h1 : j < k := by omega
        have h2 : k - 1 - j = m := by omega
        simp [h1, h2, hf, hj]
      · have hne : ¬ (k - 1 - j = m ∧ j < k) := by omega
        by_cases h1 : j < k
        · have h2 : ¬ k - 1 - j = m := by omega
          have h3 : (k - 1 - j < m + 1) = (k - 1 - j < m) := by apply propext; omega
          simp [h1, hj, h3]
        · simp [h1, hj]
    · rw [if_neg hf, ih (by omega)]
      by_cases h1 : j < k
      · by_cases h2 : k - 1 - j = m
        · have hf' : f (k - 1 - j) = false := by rw [h2]; simpa using hf
          simp [h1, hf']
        · have h3 : (k - 1 - j < m + 1) = (k - 1 - j < m) := by apply propext; omega
          simp [h1, h3]
      · simp [h1]

theorem testBit_xIndex (k v j : Nat) : (xIndex k v).testBit j = (decide (j < k) && v.testBit (k - 1 - j)) := by
  unfold xIndex
  rw [testBit_foldIndex k (fun q => v.testBit q) k j le_rfl]
  by_cases h : j < k
  · have : k - 1 - j < k := by omega
    simp [h, this]
  · simp [h]

theorem testBit_zIndex (k v j : Nat) : (zIndex k v).testBit j = (decide (j < k) && v.testBit (k + (k - 1 - j))) := by
  unfold zIndex
  rw [testBit_foldIndex k (fun q => v.testBit (k + q)) k j le_rfl]
  by_cases h : j < k
  · have : k - 1 - j < k := by omega
    simp [h, this]
  · simp [h]

theorem toNat_xor_xIndex {k : Nat} (b : Bits k) (p : PauliB) :
    (Bits.xor b (toPauli k p).x).toNat = b.toNat ^^^ xIndex k p.v := by
  apply Nat.eq_of_testBit_eq; intro j
  rw [testBit_toNat, Nat.testBit_xor, testBit_toNat, testBit_xIndex]
  by_cases hj : j < k
  · simp [hj, Bits.xor, toPauli]
  · simp [hj]

theorem cnt_zIndex {k : Nat} (b : Bits k) (p : PauliB) :
    cnt k (zIndex k p.v) b.toNat = Bits.dotN (toPauli k p).z b := by
  rw [cnt_eq_sum, Bits.dotN_eq_sum]
  rw [← Equiv.sum_comp Fin.revPerm]
  apply Finset.sum_congr rfl
  intro i _
  have hi := i.isLt
  simp only [Fin.revPerm_apply, Fin.val_rev]
  rw [testBit_zIndex, testBit_toNat]
  have h1 : k - (i.val + 1) < k := by omega
  have h2 : k - 1 - (k - (i.val + 1)) = i.val := by omega
  simp only [h1, decide_true, Bool.true_and, dite_true, h2, toPauli]

/-- **the executed `pauliMat k p` is C08's matrix of the same operator, for every number of qubits** -/
theorem toMatrix_pauliMat {I : R} (hI : I * I = -1) (k : Nat) (p : PauliB) :
    toMatrix k I (pauliMat k p) = PM k I p := by
  ext a b
  simp only [toMatrix, pauliMat, PM]
  rw [get_map_range _ _ (Bits.toNat_lt a) (Bits.toNat_lt b), C08.mat_apply hI]
  simp only [pauliEnt]
  by_cases h : a = Bits.xor b (toPauli k p).x
  · have : (a.toNat == (b.toNat ^^^ xIndex k p.v)) = true := by
      rw [beq_iff_eq, h, toNat_xor_xIndex]
    rw [if_pos this, if_pos h, gintTo_iPow hI, cnt_zIndex]
    rfl
  · have : ¬ (a.toNat == (b.toNat ^^^ xIndex k p.v)) = true := by
      rw [beq_iff_eq, ← toNat_xor_xIndex]
      exact fun e => h (Bits.toNat_injective e)
    rw [if_neg this, if_neg h, gintTo_zero]

/-! ### what the executed `ofFullMatrix` / `arrayToF2` guarantee, as matrix identities -/

theorem ofFullMatrix_spec {k : Nat} {c : GInt} {W : Clifford.Mat} {p : PauliB} (h : ofFullMatrix k c W = some p) :
    Mat.scale c (pauliMat k p) = W := by
  unfold ofFullMatrix at h
  simp only at h
  split at h
  · cases h
  · split at h
    · cases h
    · split at h
      · rename_i heq
        cases h
        simpa using heq
      · cases h

theorem pauliMat_wf (k : Nat) (p : PauliB) :
    (pauliMat k p).length = 2 ^ k ∧ ∀ row ∈ pauliMat k p, row.length = 2 ^ k := by
  simp only [pauliMat, List.length_map, List.length_range, List.mem_map, List.mem_range]
  refine ⟨trivial, ?_⟩
  rintro row ⟨r, _, rfl⟩
  simp

theorem genPauli_eq_gen {k j : Nat} (hj : j < 2 * k) : genPauli k (j % k) (decide (k ≤ j)) = gen j := by
  simp only [genPauli, gen]
  by_cases h : k ≤ j
  · have : j % k = j - k := by
      have e : j = (j - k) + k := by omega
      conv_lhs => rw [e, Nat.add_mod_right, Nat.mod_eq_of_lt (by omega)]
    simp only [h, decide_true, if_true, this]
    congr 2; omega
  · simp only [h, decide_false, Bool.false_eq_true, if_false]
    rw [Nat.mod_eq_of_lt (by omega)]

/-- **what the executed `clifford_array_to_F2` establishes** (list-of-lists ℤ[i] matrices of the driver, mapped to `R`):
with `A = U`, `D = U†` (entrywise conjugate transpose) and `γ = (U U†)₀₀`: `A·D = γ·1`, and for every generator `j` the stored image
`W_j` satisfies `A · g_j · D = γ · W_j` -/
theorem arrayToF2_matrix {I : R} (hI : I * I = -1) {k : Nat} {U : Clifford.Mat} {T : Tab} (h : arrayToF2 k U = some T) :
    ∃ (imgs : List PauliB), T = tabOfImages k imgs ∧
      toMatrix k I U * toMatrix k I (Mat.dagger (2 ^ k) U) =
        gintTo I ((Mat.mul (2 ^ k) U (Mat.dagger (2 ^ k) U)).get 0 0) • (1 : Matrix (Bits k) (Bits k) R) ∧
      ∀ j, j < 2 * k →
        toMatrix k I U * PM k I (gen j) * toMatrix k I (Mat.dagger (2 ^ k) U) =
          gintTo I ((Mat.mul (2 ^ k) U (Mat.dagger (2 ^ k) U)).get 0 0) • PM k I (imgs.getD j ⟨false, false, 0⟩) := by
  obtain ⟨imgs, _, hT, himg⟩ := arrayToF2_spec h
  refine ⟨imgs, hT, ?_, ?_⟩
  · -- the unitarity assert
    unfold arrayToF2 at h
    simp only at h
    split at h
    · cases h
    · rename_i hc
      simp only [Bool.or_eq_true, beq_iff_eq, bne_iff_ne, ne_eq, not_or, not_not] at hc
      have := congrArg (toMatrix k I) hc.2
      rw [toMatrix_mul hI, toMatrix_scale hI k _ _ (pauliMat_wf k _), toMatrix_pauliMat hI, PM_phase hI] at this
      simpa using this
  · intro j hj
    have := congrArg (toMatrix k I) (ofFullMatrix_spec (himg j hj))
    rw [toMatrix_scale hI k _ _ (pauliMat_wf k _), toMatrix_pauliMat hI, toMatrix_mul hI, toMatrix_mul hI,
      toMatrix_pauliMat hI, genPauli_eq_gen hj] at this
    exact this.symm

/-! ### Hermiticity of the stored images and symplecticity of the stored tableau follow from the matrix identities -/

section star
variable [StarRing R]

theorem gintTo_conj {I : R} (hs : star I = -I) (z : GInt) : gintTo I (conj z) = star (gintTo I z) := by
  show ((z.re : Int) : R) + ((-z.im : Int) : R) * I = star (((z.re : Int) : R) + ((z.im : Int) : R) * I)
  simp [hs]

theorem toMatrix_dagger {I : R} (hs : star I = -I) (k : Nat) (U : Clifford.Mat) :
    toMatrix k I (Mat.dagger (2 ^ k) U) = (toMatrix k I U)ᴴ := by
  ext a b
  simp only [toMatrix, Mat.dagger, Matrix.conjTranspose_apply]
  rw [get_map_range _ _ (Bits.toNat_lt a) (Bits.toNat_lt b), gintTo_conj hs]

end star

theorem dotN_xz (k : Nat) (p : PauliB) : Bits.dotN (toPauli k p).x (toPauli k p).z = cnt k p.v (p.v >>> k) := by
  rw [Bits.dotN_eq_sum, cnt_eq_sum]
  apply Finset.sum_congr rfl; intro i _
  simp only [toPauli, Nat.testBit_shiftRight]

theorem commutes_eq_om (k : Nat) (p q : PauliB) :
    Pauli.commutes (toPauli k p) (toPauli k q) = ((om k p.v q.v + om k q.v p.v) % 2 == 0) := by
  have h1 : Bits.dotN (toPauli k p).x (toPauli k q).z = om k q.v p.v := by
    unfold om; rw [Bits.dotN_eq_sum, cnt_eq_sum]
    apply Finset.sum_congr rfl; intro i _
    simp only [toPauli, Nat.testBit_shiftRight, Bool.and_comm]
  have h2 : Bits.dotN (toPauli k p).z (toPauli k q).x = om k p.v q.v := by
    unfold om; rw [Bits.dotN_eq_sum, cnt_eq_sum]
    apply Finset.sum_congr rfl; intro i _
    simp only [toPauli, Nat.testBit_shiftRight]
  simp only [Pauli.commutes, h1, h2, Nat.add_comm]

theorem gen_commutes {k a b : Nat} (hab : a < b) (hb : b < 2 * k) :
    Pauli.commutes (toPauli k (gen a)) (toPauli k (gen b)) = !decide (b = a + k) := by
  rw [commutes_eq_om]
  simp only [gen, om_pow_pow]
  by_cases h : b = a + k
  · have h1 : ¬ (b < k ∧ a = k + b) := by omega
    have h2 : a < k ∧ b = k + a := by omega
    rw [if_neg h1, if_pos h2]; simp [h]
  · have h1 : ¬ (b < k ∧ a = k + b) := by omega
    have h2 : ¬ (a < k ∧ b = k + a) := by omega
    rw [if_neg h1, if_neg h2]; simp [h]

theorem gen_hermitian (k j : Nat) : (toPauli k (gen j)).hermitianFlag = true := by
  simp only [Pauli.hermitianFlag, dotN_xz]
  have : cnt k (gen j).v ((gen j).v >>> k) = 0 := cnt_pow_self k j
  rw [this]; rfl

section sound
variable [StarRing R]

/-- **`clifford_array_to_F2` as executed is sound.**  Over a commutative star ring with `I² = −1`, `star I = −I`, `1 ≠ −1`, in which
`γ = (U U†)₀₀` is a unit (`ℂ`; the driver's `U` is an integer matrix with `U U† = γ·1`, i.e. `U/√γ` is the unitary handed to numqi):
if `arrayToF2 k U = some T`, then for every phased Pauli `P` on `k` qubits `U · P = apply(P, T) · U`, i.e.
`apply_clifford_on_pauli(P, clifford_array_to_F2(U/√γ))` is the F2 form of `U P U† / γ`. -/
theorem arrayToF2_sound_executed {I : R} (hI : I * I = -1) (hs : star I = -I) (hne : (1 : R) ≠ -1)
    {k : Nat} {U : Clifford.Mat} {T : Tab} (h : arrayToF2 k U = some T)
    (hγ : IsUnit (gintTo I ((Mat.mul (2 ^ k) U (Mat.dagger (2 ^ k) U)).get 0 0)))
    (p : PauliB) (hp : p.v < 4 ^ k) :
    T.colSp = true ∧ toMatrix k I U * PM k I p = PM k I (applyOnPauli p T) * toMatrix k I U := by
  obtain ⟨imgs, hT, hAD, himg⟩ := arrayToF2_matrix hI h
  rw [toMatrix_dagger hs] at hAD himg
  set A := toMatrix k I U with hA
  set γ := gintTo I ((Mat.mul (2 ^ k) U (Mat.dagger (2 ^ k) U)).get 0 0) with hγdef
  obtain ⟨u, hu⟩ := hγ
  have hcancel : ∀ X Y : Matrix (Bits k) (Bits k) R, γ • X = γ • Y → X = Y := by
    intro X Y hXY
    have := congrArg (fun M => (↑u⁻¹ : R) • M) hXY
    simp only [smul_smul, ← hu, Units.inv_mul, one_smul] at this
    exact this
  -- D A = γ
  have hDA : Aᴴ * A = γ • (1 : Matrix (Bits k) (Bits k) R) := by
    have h1 : A * ((↑u⁻¹ : R) • Aᴴ) = 1 := by
      rw [Matrix.mul_smul, hAD, smul_smul, ← hu, Units.inv_mul, one_smul]
    have h2 := mul_eq_one_comm.mp h1
    rw [Matrix.smul_mul] at h2
    have := congrArg (fun M => γ • M) h2
    simp only [smul_smul, ← hu, Units.mul_inv, one_smul] at this
    rw [← hu]; exact this
  -- γ is real
  have hγr : star γ = γ := by
    have h1 := congrArg Matrix.conjTranspose hAD
    rw [Matrix.conjTranspose_mul, Matrix.conjTranspose_conjTranspose, hAD, Matrix.conjTranspose_smul,
      Matrix.conjTranspose_one] at h1
    have := congrFun (congrFun h1 (fun _ => false)) (fun _ => false)
    simpa using this.symm
  -- the intertwining relation on the generators
  have hint : ∀ j, j < 2 * k → A * PM k I (gen j) = PM k I (imgs.getD j ⟨false, false, 0⟩) * A := by
    intro j hj
    apply hcancel
    have := congrArg (fun M => M * A) (himg j hj)
    simp only [Matrix.mul_assoc, hDA, Matrix.mul_smul, Matrix.mul_one, Matrix.smul_mul] at this
    exact this
  -- Hermiticity of the images
  have hherm : ∀ j, j < 2 * k → (imgs.getD j ⟨false, false, 0⟩).s1 =
      (cnt k (imgs.getD j ⟨false, false, 0⟩).v ((imgs.getD j ⟨false, false, 0⟩).v >>> k) % 2 == 1) := by
    intro j hj
    have hg : (PM k I (gen j))ᴴ = PM k I (gen j) := (C08.hermitian_iff hI hs hne _).2 (gen_hermitian k j)
    have h1 := congrArg Matrix.conjTranspose (himg j hj)
    rw [Matrix.conjTranspose_mul, Matrix.conjTranspose_mul, Matrix.conjTranspose_conjTranspose, hg,
      ← Matrix.mul_assoc, himg j hj, Matrix.conjTranspose_smul, hγr] at h1
    have h2 := hcancel _ _ h1
    have h3 := (C08.hermitian_iff hI hs hne _).1 h2.symm
    simp only [Pauli.hermitianFlag, beq_iff_eq, dotN_xz] at h3
    exact h3
  -- symplecticity of the stored tableau
  have hsp : (tabOfImages k imgs).colSp = true := by
    rw [colSp_iff]
    intro a b hab hb
    have hb' : b < 2 * k := hb
    have ha' : a < 2 * k := by omega
    have hca : (tabOfImages k imgs).cols.getD a 0 = (imgs.getD a ⟨false, false, 0⟩).v := by
      simp only [tabOfImages]; rw [getD_map_range' _ _ _ ha']
    have hcb : (tabOfImages k imgs).cols.getD b 0 = (imgs.getD b ⟨false, false, 0⟩).v := by
      simp only [tabOfImages]; rw [getD_map_range' _ _ _ hb']
    have hcomm : Pauli.commutes (toPauli k (imgs.getD a ⟨false, false, 0⟩)) (toPauli k (imgs.getD b ⟨false, false, 0⟩)) =
        Pauli.commutes (toPauli k (gen a)) (toPauli k (gen b)) := by
      rw [Bool.eq_iff_iff, C08.commutes_iff hI hne, C08.commutes_iff hI hne]
      have ea := hint a ha'
      have eb := hint b hb'
      simp only [PM] at ea eb
      constructor
      · intro hc
        -- A g_a g_b = b_a b_b A = b_b b_a A = A g_b g_a, cancel A on the left
        have h1 : A * (C08.mat I (toPauli k (gen a)) * C08.mat I (toPauli k (gen b))) =
            A * (C08.mat I (toPauli k (gen b)) * C08.mat I (toPauli k (gen a))) := by
          rw [← Matrix.mul_assoc, ea, Matrix.mul_assoc, eb, ← Matrix.mul_assoc, hc, Matrix.mul_assoc, ← ea,
            ← Matrix.mul_assoc, ← eb, Matrix.mul_assoc]
        apply hcancel
        have := congrArg (fun M => Aᴴ * M) h1
        simp only [← Matrix.mul_assoc, hDA, Matrix.smul_mul, Matrix.one_mul] at this
        exact this
      · intro hc
        have h1 : (C08.mat I (toPauli k (imgs.getD a ⟨false, false, 0⟩)) * C08.mat I (toPauli k (imgs.getD b ⟨false, false, 0⟩))) * A =
            (C08.mat I (toPauli k (imgs.getD b ⟨false, false, 0⟩)) * C08.mat I (toPauli k (imgs.getD a ⟨false, false, 0⟩))) * A := by
          rw [Matrix.mul_assoc, ← eb, ← Matrix.mul_assoc, ← ea, Matrix.mul_assoc, hc, ← Matrix.mul_assoc, eb,
            Matrix.mul_assoc, ea, ← Matrix.mul_assoc]
        apply hcancel
        have := congrArg (fun M => M * Aᴴ) h1
        simp only [Matrix.mul_assoc, hAD, Matrix.mul_smul, Matrix.mul_one] at this
        exact this
    rw [gen_commutes hab hb', commutes_eq_om] at hcomm
    simp only [Tab.zx]
    rw [hca, hcb]
    change (om k _ _ + om k _ _) % 2 = _
    revert hcomm
    generalize om k (imgs.getD a ⟨false, false, 0⟩).v (imgs.getD b ⟨false, false, 0⟩).v = X
    generalize om k (imgs.getD b ⟨false, false, 0⟩).v (imgs.getD a ⟨false, false, 0⟩).v = Y
    intro hcomm
    have hk : (tabOfImages k imgs).n = k := rfl
    rw [hk]
    by_cases hc : b = a + k
    · simp only [hc, decide_true, Bool.not_true, beq_eq_false_iff_ne, ne_eq] at hcomm
      rw [if_pos hc]; omega
    · simp only [hc, decide_false, Bool.not_false, beq_iff_eq] at hcomm
      rw [if_neg hc]; omega
  subst hT
  exact ⟨hsp, tableau_of_images hI imgs hherm hsp A hint p hp⟩

end sound

end Numqi.Clifford
