/-
C14 helper: the partition-count recurrence (`z0`) and the Young-diagram enumeration (`young`)
of `NumqiModel/Young.lean` are exact for every `N`; link to Mathlib's `Nat.Partition`.
-/
import Mathlib.Tactic
import Mathlib.Data.List.Sort
import Mathlib.Data.Multiset.Sort
import Mathlib.Combinatorics.Enumerative.Partition.Basic
import NumqiModel.Young

namespace Numqi.Young

/-- a row of the Young-diagram array: length `m`, sum `n`, non-increasing -/
def IsPartRow (m n : Nat) (row : List Nat) : Prop :=
  row.length = m ∧ row.sum = n ∧ row.Pairwise (· ≥ ·)

/-! ### arithmetic helpers on lists -/

theorem sum_map_add (l : List Nat) (r : Nat) : (l.map (· + r)).sum = l.sum + l.length * r := by
  induction l with
  | nil => simp
  | cons a t ih => simp [ih, Nat.succ_mul]; omega

theorem sum_map_sub (l : List Nat) (r : Nat) (h : ∀ x ∈ l, r ≤ x) :
    (l.map (· - r)).sum + l.length * r = l.sum := by
  induction l with
  | nil => simp
  | cons a t ih =>
    have := ih (fun x hx => h x (List.mem_cons_of_mem _ hx))
    have ha := h a (List.mem_cons_self)
    simp [Nat.succ_mul]; omega

theorem length_mul_le_sum (l : List Nat) (r : Nat) (h : ∀ x ∈ l, r ≤ x) : l.length * r ≤ l.sum := by
  have := sum_map_sub l r h; omega

theorem young_succ (m n : Nat) : young (m + 1) n =
    (List.range (n / (m + 1) + 1)).flatMap fun r =>
      (young m (n - r * (m + 1))).map fun row => (row ++ [0]).map (· + r) := rfl

theorem row_image (row : List Nat) (r : Nat) : (row ++ [0]).map (· + r) = row.map (· + r) ++ [r] := by simp

/-! ### membership: the rows are exactly the non-increasing length-`m` lists of sum `n` -/

theorem mem_young (m : Nat) : ∀ (n : Nat) (row : List Nat), row ∈ young m n ↔ IsPartRow m n row := by
  induction m with
  | zero =>
    intro n row
    unfold young IsPartRow
    by_cases hn : n = 0
    · subst hn; simp
      intro h; subst h; simp
    · simp only [hn, if_false, List.not_mem_nil, false_iff]
      rintro ⟨h1, h2, _⟩
      rw [List.length_eq_zero_iff.1 h1] at h2; simp at h2; omega
  | succ m ih =>
    intro n row
    rw [young_succ]
    simp only [List.mem_flatMap, List.mem_map, List.mem_range, row_image]
    constructor
    · rintro ⟨r, hr, row', hrow', rfl⟩
      obtain ⟨h1, h2, h3⟩ := (ih _ _).1 hrow'
      have hle : r * (m + 1) ≤ n := by
        have := (Nat.le_div_iff_mul_le (Nat.succ_pos m)).1 (Nat.lt_succ_iff.1 hr); exact this
      refine ⟨by simp [h1], ?_, ?_⟩
      · rw [List.sum_append, sum_map_add, h1, h2]; simp [Nat.mul_succ] at hle ⊢
        have : m * r = r * m := Nat.mul_comm _ _
        omega
      · rw [List.pairwise_append]
        refine ⟨h3.map _ (fun a b hab => by simp; omega), by simp, ?_⟩
        intro a ha b hb
        simp only [List.mem_map] at ha
        obtain ⟨x, _, rfl⟩ := ha
        simp at hb; subst hb; simp
    · rintro ⟨h1, h2, h3⟩
      have hne : row ≠ [] := by intro h; rw [h] at h1; simp at h1
      obtain ⟨init, r, rfl⟩ : ∃ init r, row = init ++ [r] :=
        ⟨row.dropLast, row.getLast hne, (List.dropLast_append_getLast hne).symm⟩
      rw [List.pairwise_append] at h3
      obtain ⟨h3a, _, h3c⟩ := h3
      have hge : ∀ x ∈ init, r ≤ x := fun x hx => h3c x hx r (by simp)
      have hlen : init.length = m := by simpa using h1
      have hsum : init.sum + r = n := by simpa using h2
      have hsub := sum_map_sub init r hge
      have hmul := length_mul_le_sum init r hge
      rw [hlen] at hsub hmul
      have hle : r * (m + 1) ≤ n := by rw [Nat.mul_succ, Nat.mul_comm]; omega
      refine ⟨r, Nat.lt_succ_iff.2 ((Nat.le_div_iff_mul_le (Nat.succ_pos m)).2 hle), init.map (· - r), ?_, ?_⟩
      · rw [ih]
        refine ⟨by simp [hlen], ?_, h3a.map _ (fun a b hab => by simp; omega)⟩
        rw [Nat.mul_succ, Nat.mul_comm r m]; omega
      · rw [List.map_map]
        congr 1
        conv_rhs => rw [← List.map_id init]
        apply List.map_congr_left
        intro x hx
        have := hge x hx
        simp; omega

/-! ### no row is listed twice -/

theorem nodup_young (m : Nat) : ∀ n : Nat, (young m n).Nodup := by
  induction m with
  | zero => intro n; unfold young; split <;> simp
  | succ m ih =>
    intro n
    rw [young_succ, List.nodup_flatMap]
    constructor
    · intro r _
      refine (ih _).map ?_
      intro a b hab
      simp only [row_image] at hab
      have := List.append_inj_left' hab rfl
      exact List.map_injective_iff.2 (fun x y h => by simpa using h) this
    · refine (List.nodup_range (n := n / (m + 1) + 1)).imp ?_
      intro r r' hrr
      simp only [Function.onFun]
      rw [List.disjoint_left]
      intro x hx hx'
      simp only [List.mem_map, row_image] at hx hx'
      obtain ⟨a, _, rfl⟩ := hx
      obtain ⟨b, _, hb⟩ := hx'
      have := congrArg List.getLast? hb
      simp at this
      exact hrr this.symm

/-! ### the count: `z0 m n = #(young m n)` for `m ≥ 1` -/

theorem length_young_succ (m n : Nat) : (young (m + 1) n).length =
    ((List.range (n / (m + 1) + 1)).map fun r => (young m (n - r * (m + 1))).length).sum := by
  rw [young_succ, List.length_flatMap]
  simp

/-- for `n ≤ m` only `r = 0` contributes: extra columns are zero padding -/
theorem length_young_of_lt (m n : Nat) (h : n < m + 1) : (young (m + 1) n).length = (young m n).length := by
  rw [length_young_succ, Nat.div_eq_of_lt h]
  simp

theorem length_young_of_le (n : Nat) : ∀ m, n ≤ m → (young m n).length = (young n n).length := by
  intro m hm
  induction m, hm using Nat.le_induction with
  | base => rfl
  | succ m hm ih => rw [length_young_of_lt m n (by omega), ih]

theorem length_young_one (n : Nat) : (young 1 n).length = 1 := by
  rw [length_young_succ]
  simp only [Nat.div_one, Nat.mul_one, zero_add]
  rw [List.range_succ, List.map_append, List.sum_append]
  have : ((List.range n).map fun r => (young 0 (n - r)).length) = (List.range n).map fun _ => 0 := by
    apply List.map_congr_left
    intro r hr
    have : n - r ≠ 0 := by have := List.mem_range.1 hr; omega
    simp [young, this]
  rw [this]
  simp [young]

theorem z0_one (n : Nat) : z0 1 n = 1 := by rw [z0]; simp

/-- **the recurrence of `_get_sym_group_num_irrep_hf0` counts the rows of the Young-diagram array** -/
theorem length_young (m : Nat) : ∀ n : Nat, 1 ≤ m → (young m n).length = z0 m n := by
  induction m using Nat.strong_induction_on with
  | _ m ih =>
    intro n hm
    by_cases h1 : m = 1
    · subst h1; rw [length_young_one, z0_one]
    have hm2 : ¬ m < 2 := by omega
    rw [z0]
    simp only [hm2, if_false]
    by_cases hn2 : n < 2
    · simp only [hn2, if_true]
      rw [length_young_of_le n m (by omega)]
      have : n = 0 ∨ n = 1 := by omega
      rcases this with rfl | rfl <;> decide
    simp only [hn2, if_false]
    by_cases hn2' : n = 2
    · subst hn2'
      simp only [if_true]
      rw [length_young_of_le 2 m (by omega)]; decide
    simp only [hn2', if_false]
    by_cases hnm : n < m
    · simp only [hnm, if_true]
      rw [length_young_of_le n m (by omega), ih n hnm n (by omega)]
    · simp only [hnm, if_false]
      obtain ⟨k, rfl⟩ : ∃ k, m = k + 1 := ⟨m - 1, by omega⟩
      rw [length_young_succ]
      congr 1
      apply List.map_congr_left
      intro r _
      simp only [Nat.add_sub_cancel]
      exact ih k (by omega) _ (by omega)

theorem youngDiagram_eq (N : Nat) (hN : 1 ≤ N) : youngDiagram N = young N N := by
  unfold youngDiagram
  by_cases h1 : N = 1
  · subst h1; decide
  by_cases h2 : N = 2
  · subst h2; decide
  by_cases h3 : N = 3
  · subst h3; decide
  simp [h1, h2, h3]

theorem length_youngDiagram (N : Nat) (hN : 1 ≤ N) : (youngDiagram N).length = numIrrep N := by
  rw [youngDiagram_eq N hN, length_young N N hN]
  unfold numIrrep
  by_cases h : N ≤ 3
  · simp only [h, if_true]
    have : N = 1 ∨ N = 2 ∨ N = 3 := by omega
    rcases this with rfl | rfl | rfl <;> (rw [← length_young _ _ (by omega)]; decide)
  · simp [h]

theorem youngDiagram_exact (N : Nat) (hN : 1 ≤ N) :
    (youngDiagram N).Nodup ∧ ∀ row, row ∈ youngDiagram N ↔ IsPartRow N N row := by
  rw [youngDiagram_eq N hN]
  exact ⟨nodup_young N N, mem_young N N⟩

/-! ### link to Mathlib's `Nat.Partition` -/

/-- a non-increasing list is its positive entries followed by zeros -/
theorem eq_filter_append_zeros : ∀ row : List Nat, row.Pairwise (· ≥ ·) →
    row = row.filter (· ≠ 0) ++ List.replicate (row.length - (row.filter (· ≠ 0)).length) 0
  | [], _ => by simp
  | a :: t, h => by
    rw [List.pairwise_cons] at h
    by_cases ha : a = 0
    · subst ha
      have ht : ∀ b ∈ t, b = 0 := fun b hb => by have := h.1 b hb; omega
      have hf : (0 :: t).filter (· ≠ 0) = [] := by
        rw [List.filter_eq_nil_iff]; intro b hb
        rcases List.mem_cons.1 hb with rfl | hb
        · simp
        · simp [ht b hb]
      rw [hf]
      simp only [List.nil_append, List.length_nil, Nat.sub_zero]
      rw [List.eq_replicate_iff]
      exact ⟨rfl, fun b hb => by
        rcases List.mem_cons.1 hb with rfl | hb
        · rfl
        · exact ht b hb⟩
    · have ih := eq_filter_append_zeros t h.2
      have hf : (a :: t).filter (· ≠ 0) = a :: t.filter (· ≠ 0) := by simp [ha]
      rw [hf]
      simp only [List.length_cons, Nat.succ_sub_succ, List.cons_append]
      exact congrArg (a :: ·) ih

theorem isPartRow_sum {m n : Nat} {row : List Nat} (h : IsPartRow m n row) : (row : Multiset ℕ).sum = n := by
  simpa using h.2.1

/-- the partition of `N` described by a row of the array -/
def rowPartition (N : Nat) (row : List Nat) (h : IsPartRow N N row) : Nat.Partition N :=
  Nat.Partition.ofSums N (row : Multiset ℕ) (isPartRow_sum h)

theorem rowPartition_injective (N : Nat) (r1 r2 : List Nat) (h1 : IsPartRow N N r1) (h2 : IsPartRow N N r2)
    (h : rowPartition N r1 h1 = rowPartition N r2 h2) : r1 = r2 := by
  have hp := congrArg Nat.Partition.parts h
  simp only [rowPartition, Nat.Partition.ofSums, Multiset.filter_coe, Multiset.coe_eq_coe] at hp
  have hf : r1.filter (· ≠ 0) = r2.filter (· ≠ 0) :=
    List.Perm.eq_of_pairwise' (r := (· ≥ ·)) (h1.2.2.filter _) (h2.2.2.filter _) hp
  rw [eq_filter_append_zeros r1 h1.2.2, eq_filter_append_zeros r2 h2.2.2, hf, h1.1, h2.1]

theorem rowPartition_surjective (N : Nat) (P : Nat.Partition N) :
    ∃ row, ∃ h : IsPartRow N N row, rowPartition N row h = P := by
  let s := P.parts.sort (· ≥ ·)
  have hs : (s : Multiset ℕ) = P.parts := Multiset.sort_eq _ _
  have hpos : ∀ x ∈ s, 1 ≤ x := fun x hx => P.parts_pos ((Multiset.mem_sort (r := (· ≥ ·))).1 hx)
  have hsum : s.sum = N := by
    have := congrArg Multiset.sum hs; simpa [P.parts_sum] using this
  have hlen : s.length ≤ N := by
    have := length_mul_le_sum s 1 hpos; omega
  refine ⟨s ++ List.replicate (N - s.length) 0, ⟨by simp; omega, by simp [hsum], ?_⟩, ?_⟩
  · rw [List.pairwise_append]
    refine ⟨Multiset.pairwise_sort _ _, by simp [List.pairwise_replicate], ?_⟩
    intro a _ b hb
    rw [List.mem_replicate] at hb
    simp [hb.2]
  · apply Nat.Partition.ext
    simp only [rowPartition, Nat.Partition.ofSums]
    rw [← hs]
    simp only [Multiset.filter_coe, Multiset.coe_eq_coe]
    rw [List.filter_append]
    have h1 : s.filter (· ≠ 0) = s := by
      rw [List.filter_eq_self]; intro x hx; have := hpos x hx; simp; omega
    have h2 : (List.replicate (N - s.length) 0).filter (· ≠ 0) = [] := by
      rw [List.filter_eq_nil_iff]; intro x hx; rw [List.mem_replicate] at hx; simp [hx.2]
    rw [h1, h2, List.append_nil]

/-- **the number of rows of the Young-diagram array is the number of partitions of `N`** -/
theorem length_young_eq_card_partition (N : Nat) : (young N N).length = Fintype.card (Nat.Partition N) := by
  rw [← List.toFinset_card_of_nodup (nodup_young N N), ← Finset.card_univ]
  refine Finset.card_bij (fun row h => rowPartition N row ((mem_young N N row).1 (List.mem_toFinset.1 h)))
    (fun _ _ => Finset.mem_univ _) ?_ ?_
  · intro a ha b hb h
    exact rowPartition_injective N a b _ _ h
  · intro P _
    obtain ⟨row, h, hP⟩ := rowPartition_surjective N P
    exact ⟨row, List.mem_toFinset.2 ((mem_young N N row).2 h), hP⟩

theorem numIrrep_eq_card_partition (N : Nat) (hN : 1 ≤ N) : numIrrep N = Fintype.card (Nat.Partition N) := by
  rw [← length_youngDiagram N hN, youngDiagram_eq N hN, length_young_eq_card_partition]

/-- **`shapes N` (rows of the array without the zeros) are exactly the partitions of `N`** written as
non-increasing lists of positive integers. -/
theorem mem_shapes (N : Nat) (hN : 1 ≤ N) (shape : List Nat) :
    shape ∈ shapes N ↔ shape.Pairwise (· ≥ ·) ∧ (∀ x ∈ shape, 0 < x) ∧ shape.sum = N := by
  unfold shapes
  rw [youngDiagram_eq N hN, List.mem_map]
  constructor
  · rintro ⟨row, hrow, rfl⟩
    obtain ⟨h1, h2, h3⟩ := (mem_young N N row).1 hrow
    refine ⟨h3.filter _, fun x hx => by simpa using (List.mem_filter.1 hx).2, ?_⟩
    have hz := eq_filter_append_zeros row h3
    have hfe : row.filter (· ≠ 0) = row.filter (0 < ·) := by
      apply List.filter_congr; intro x _
      rcases Nat.eq_zero_or_pos x with h | h
      · simp [h]
      · have : x ≠ 0 := by omega
        simp [h, this]
    rw [hfe] at hz
    have := congrArg List.sum hz
    rw [List.sum_append, List.sum_replicate] at this
    simp at this
    rw [← this]; exact h2
  · rintro ⟨h1, h2, h3⟩
    have hlen : shape.length ≤ N := by
      have := length_mul_le_sum shape 1 (fun x hx => h2 x hx); omega
    refine ⟨shape ++ List.replicate (N - shape.length) 0, ?_, ?_⟩
    · rw [mem_young]
      refine ⟨by simp; omega, by simp [h3], ?_⟩
      rw [List.pairwise_append]
      refine ⟨h1, by simp [List.pairwise_replicate], ?_⟩
      intro a _ b hb
      rw [List.mem_replicate] at hb
      simp [hb.2]
    · rw [List.filter_append]
      have e1 : shape.filter (0 < ·) = shape := by
        rw [List.filter_eq_self]; intro x hx; simpa using h2 x hx
      have e2 : (List.replicate (N - shape.length) 0).filter (0 < ·) = [] := by
        rw [List.filter_eq_nil_iff]; intro x hx; rw [List.mem_replicate] at hx; simp [hx.2]
      rw [e1, e2, List.append_nil]

end Numqi.Young
