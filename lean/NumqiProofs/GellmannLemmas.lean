/-
Helper lemmas for the Gell-Mann model (C16; reused by C01/C02 for the placements that go through
`gellmann_basis_to_matrix`).
-/
import Mathlib.Tactic
import Mathlib.Data.Matrix.Basis
import Mathlib.LinearAlgebra.Matrix.Trace
import Mathlib.Data.Matrix.Mul
import Mathlib.Algebra.BigOperators.Fin
import Mathlib.Algebra.Star.Basic
import Mathlib.Data.Fintype.Fin
import NumqiModel.Gellmann

namespace Numqi.Gellmann
open Matrix

/-! ### the index lists -/
section lists
variable {d : Nat}
theorem mem_pairs {p : Fin d × Fin d} : p ∈ pairs d ↔ p.1 < p.2 := by
  simp only [pairs, List.mem_flatMap, List.mem_finRange, true_and, List.mem_map, List.mem_filter, decide_eq_true_eq]
  constructor
  · rintro ⟨i, j, hij, rfl⟩; exact hij
  · intro h; exact ⟨p.1, p.2, h, rfl⟩
theorem nodup_pairs : (pairs d).Nodup := by
  unfold pairs
  rw [List.nodup_flatMap]
  refine ⟨fun i _ => ?_, ?_⟩
  · exact ((List.nodup_finRange d).filter _).map (fun a b h => by simpa using h)
  · refine List.Pairwise.imp ?_ (List.nodup_finRange d)
    intro a b hab
    simp only [Function.onFun, List.disjoint_left, List.mem_map, List.mem_filter]
    rintro x ⟨j, _, rfl⟩ ⟨j', _, h⟩
    exact hab (by simpa using (congrArg Prod.fst h).symm)

theorem length_pairs : (pairs d).length * 2 = d * (d - 1) := by
  have h1 : (pairs d).length = (Finset.univ.filter (fun p : Fin d × Fin d => p.1 < p.2)).card := by
    rw [← List.toFinset_card_of_nodup nodup_pairs]
    congr 1; ext p; simp [mem_pairs]
  have h2 : (Finset.univ.filter (fun p : Fin d × Fin d => p.1 < p.2)).card
      = (Finset.univ.filter (fun p : Fin d × Fin d => p.2 < p.1)).card := by
    apply Finset.card_bij (fun p _ => (p.2, p.1))
    · intro p hp; simpa using hp
    · intro p _ q _ h; simp only [Prod.mk.injEq] at h; exact Prod.ext h.2 h.1
    · intro q hq; exact ⟨(q.2, q.1), by simpa using hq, rfl⟩
  have h3 : (Finset.univ.filter (fun p : Fin d × Fin d => p.1 = p.2)).card = d := by
    have : (Finset.univ.filter (fun p : Fin d × Fin d => p.1 = p.2)) = Finset.univ.image (fun i : Fin d => (i, i)) := by
      ext p; simp only [Finset.mem_filter, Finset.mem_univ, true_and, Finset.mem_image]
      constructor
      · intro h; exact ⟨p.1, Prod.ext rfl h⟩
      · rintro ⟨i, rfl⟩; rfl
    rw [this, Finset.card_image_of_injective _ (fun a b h => by simpa using h)]; simp
  have h4 : (Finset.univ.filter (fun p : Fin d × Fin d => p.1 < p.2)).card
      + (Finset.univ.filter (fun p : Fin d × Fin d => p.2 < p.1)).card
      + (Finset.univ.filter (fun p : Fin d × Fin d => p.1 = p.2)).card = d * d := by
    rw [← Finset.card_union_of_disjoint, ← Finset.card_union_of_disjoint]
    · have : (Finset.univ.filter (fun p : Fin d × Fin d => p.1 < p.2)) ∪ (Finset.univ.filter (fun p : Fin d × Fin d => p.2 < p.1))
          ∪ (Finset.univ.filter (fun p : Fin d × Fin d => p.1 = p.2)) = Finset.univ := by
        ext p; simp only [Finset.mem_union, Finset.mem_filter, Finset.mem_univ, true_and, iff_true]
        rcases lt_trichotomy p.1 p.2 with h | h | h
        · exact Or.inl (Or.inl h)
        · exact Or.inr h
        · exact Or.inl (Or.inr h)
      rw [this]; simp
    · rw [Finset.disjoint_left]; intro p hp hq
      simp only [Finset.mem_union, Finset.mem_filter, Finset.mem_univ, true_and] at hp hq
      rcases hp with hp | hp <;> omega
    · rw [Finset.disjoint_left]; intro p hp hq
      simp only [Finset.mem_filter, Finset.mem_univ, true_and] at hp hq
      exact absurd hp (not_lt_of_gt hq)
  rw [h1]
  rw [← h2, h3] at h4
  cases d with
  | zero => simp at h4 ⊢
  | succ n =>
    simp only [Nat.add_sub_cancel]
    have : (n+1) * (n+1) = (n+1) * n + (n+1) := by ring
    omega

theorem mem_diagIdx {k : Fin d} : k ∈ diagIdx d ↔ 0 < k.val := by
  simp [diagIdx]

theorem nodup_diagIdx : (diagIdx d).Nodup := (List.nodup_finRange d).filter _

/-- `diagIdx (d+1) = [1, …, d]` -/
theorem diagIdx_eq : (diagIdx (d+1)) = (List.finRange d).map Fin.succ := by
  unfold diagIdx
  rw [List.finRange_succ]
  simp [List.filter_map, Function.comp_def]

theorem length_diagIdx : (diagIdx d).length = d - 1 := by
  cases d with
  | zero => simp [diagIdx]
  | succ n => simp [diagIdx_eq]

end lists

variable {R : Type} [CommRing R] {d : Nat}

/-- basis element as a Mathlib matrix -/
def G (S : Scalars R) (d i j : Nat) : Matrix (Fin d) (Fin d) R := Matrix.of (gm S d i j)

theorem G_sym (S : Scalars R) {i j : Fin d} (h : i < j) :
    G S d i.val j.val = single i j 1 + single j i 1 := by
  ext r c
  have h' : i.val < j.val := h
  have hne : i ≠ j := ne_of_lt h
  rw [Matrix.add_apply, Matrix.single_apply, Matrix.single_apply]
  simp only [G, Matrix.of_apply, gm, not_lt_of_gt h', if_false, h', if_true, ← Fin.ext_iff]
  by_cases h1 : r = i <;> by_cases h2 : c = j <;> by_cases h3 : r = j <;> by_cases h4 : c = i <;>
    simp_all [eq_comm]

theorem G_asym (S : Scalars R) {i j : Fin d} (h : i < j) :
    G S d j.val i.val = single j i S.I + single i j (-S.I) := by
  ext r c
  have h' : i.val < j.val := h
  have hne : i ≠ j := ne_of_lt h
  rw [Matrix.add_apply, Matrix.single_apply, Matrix.single_apply]
  simp only [G, Matrix.of_apply, gm, h', if_true, ← Fin.ext_iff]
  by_cases h1 : r = i <;> by_cases h2 : c = j <;> by_cases h3 : r = j <;> by_cases h4 : c = i <;>
    simp_all [eq_comm]

/-- diagonal weights of the Pauli-Z like element `k` -/
def wD (S : Scalars R) (k : Nat) (r : Fin d) : R :=
  if r.val < k then S.cD k else if r.val = k then S.cD k * -(k : R) else 0

theorem G_diag (S : Scalars R) {k : Nat} (h : 0 < k) :
    G S d k k = diagonal (wD S k) := by
  ext r c
  simp only [G, Matrix.of_apply, gm, lt_irrefl, if_false, Nat.ne_of_gt h, diagonal_apply, wD]

theorem G_ident (S : Scalars R) : G S d 0 0 = diagonal (fun _ => S.cI) := by
  ext r c
  simp only [G, Matrix.of_apply, gm, lt_irrefl, if_false, if_true, diagonal_apply]

/-! ### inner products `tr (G_a X)` -/

theorem tr_sym_mul (S : Scalars R) {i j : Fin d} (h : i < j) (X : Matrix (Fin d) (Fin d) R) :
    trace (G S d i.val j.val * X) = X j i + X i j := by
  rw [G_sym S h, add_mul, trace_add, trace_single_mul, trace_single_mul]; simp

theorem tr_asym_mul (S : Scalars R) {i j : Fin d} (h : i < j) (X : Matrix (Fin d) (Fin d) R) :
    trace (G S d j.val i.val * X) = S.I * X i j - S.I * X j i := by
  rw [G_asym S h, add_mul, trace_add, trace_single_mul, trace_single_mul]; simp [sub_eq_add_neg]

theorem tr_diagonal_mul (w : Fin d → R) (X : Matrix (Fin d) (Fin d) R) :
    trace (diagonal w * X) = ∑ r, w r * X r r := by
  simp [trace, diagonal_mul]

theorem sum_lt_const (k : Fin d) (c : R) : ∑ r : Fin d, (if r.val < k.val then c else 0) = (k.val : R) * c := by
  rw [← Finset.sum_filter, Finset.sum_const, Fin.card_filter_val_lt, min_eq_right (le_of_lt k.isLt)]
  simp

theorem sum_wD (S : Scalars R) (k : Fin d) : ∑ r : Fin d, wD S k.val r = 0 := by
  have : ∀ r : Fin d, wD S k.val r = (if r.val < k.val then S.cD k else 0) + (if r = k then S.cD k * -(k.val : R) else 0) := by
    intro r; unfold wD
    by_cases h1 : r.val < k.val
    · have : r ≠ k := fun e => by rw [e] at h1; exact lt_irrefl _ h1
      simp [h1, this]
    · by_cases h2 : r = k
      · subst h2; simp
      · have : r.val ≠ k.val := fun e => h2 (Fin.ext e)
        simp [h1, h2, this]
  simp only [this, Finset.sum_add_distrib, sum_lt_const, Finset.sum_ite_eq', Finset.mem_univ, if_true]
  ring

theorem sum_wD_sq (S : Scalars R) (k : Fin d) :
    ∑ r : Fin d, wD S k.val r * wD S k.val r = S.cD k * S.cD k * ((k.val : R) * ((k.val : R) + 1)) := by
  have : ∀ r : Fin d, wD S k.val r * wD S k.val r = (if r.val < k.val then S.cD k * S.cD k else 0)
      + (if r = k then S.cD k * -(k.val : R) * (S.cD k * -(k.val : R)) else 0) := by
    intro r; unfold wD
    by_cases h1 : r.val < k.val
    · have : r ≠ k := fun e => by rw [e] at h1; exact lt_irrefl _ h1
      simp [h1, this]
    · by_cases h2 : r = k
      · subst h2; simp
      · have : r.val ≠ k.val := fun e => h2 (Fin.ext e)
        simp [h1, h2, this]
  simp only [this, Finset.sum_add_distrib, sum_lt_const, Finset.sum_ite_eq', Finset.mem_univ, if_true]
  ring

theorem sum_wD_mul_lt (S : Scalars R) {k k' : Fin d} (h : k < k') :
    ∑ r : Fin d, wD S k.val r * wD S k'.val r = 0 := by
  have h' : k.val < k'.val := h
  have : ∀ r : Fin d, wD S k.val r * wD S k'.val r = wD S k.val r * S.cD k' := by
    intro r; unfold wD
    by_cases h1 : r.val < k.val
    · simp [h1, lt_trans h1 h']
    · by_cases h2 : r.val = k.val
      · simp [h2, h']
      · simp [h1, h2]
  simp only [this, ← Finset.sum_mul, sum_wD, zero_mul]

variable [StarRing R]

/-- the algebraic relations satisfied by the exact square roots -/
structure Scalars.Valid (S : Scalars R) (d : Nat) : Prop where
  half_two : S.half * 2 = 1
  I_sq : S.I * S.I = -1
  star_I : star S.I = -S.I
  star_half : star S.half = S.half
  cD_sq : ∀ k, 1 ≤ k → k < d → S.cD k * S.cD k * ((k : R) * ((k : R) + 1)) = 2
  star_cD : ∀ k, star (S.cD k) = S.cD k
  cI_sq : S.cI * S.cI * (d : R) = 2
  star_cI : star S.cI = S.cI
  aD_eq : ∀ k, S.aD k = S.half * S.cD k
  aI_eq : S.aI = S.half * S.cI
  invD_mul : S.invD * (d : R) = 1


/-! ### the basis as a list of tagged indices -/

inductive Kind (d : Nat) where
  | sym (p : Fin d × Fin d)
  | asym (p : Fin d × Fin d)
  | diag (k : Fin d)
  | ident
  deriving DecidableEq

/-- the documented order `sym ++ antisym ++ diag ++ [I]` -/
def kinds (d : Nat) : List (Kind d) :=
  (pairs d).map Kind.sym ++ (pairs d).map Kind.asym ++ (diagIdx d).map Kind.diag ++ [Kind.ident]

def Kind.mat (S : Scalars R) : Kind d → Matrix (Fin d) (Fin d) R
  | .sym p => G S d p.1.val p.2.val
  | .asym p => G S d p.2.val p.1.val
  | .diag k => G S d k.val k.val
  | .ident => G S d 0 0

def Kind.WF : Kind d → Prop
  | .sym p => p.1 < p.2
  | .asym p => p.1 < p.2
  | .diag k => 0 < k.val
  | .ident => True

omit [StarRing R] in
theorem allGellmann_eq (S : Scalars R) : (allGellmann S d).map Matrix.of = (kinds d).map (Kind.mat S) := by
  simp [allGellmann, kinds, List.map_append, List.map_map, Function.comp_def, Kind.mat, G]

theorem kinds_wf {k : Kind d} (h : k ∈ kinds d) : k.WF := by
  simp only [kinds, List.mem_append, List.mem_map, List.mem_singleton] at h
  rcases h with ((⟨p, hp, rfl⟩ | ⟨p, hp, rfl⟩) | ⟨k, hk, rfl⟩) | rfl
  · exact mem_pairs.1 hp
  · exact mem_pairs.1 hp
  · exact mem_diagIdx.1 hk
  · trivial

theorem kinds_nodup : (kinds d).Nodup := by
  unfold kinds
  refine List.Nodup.append (List.Nodup.append (List.Nodup.append ?_ ?_ ?_) ?_ ?_) (List.nodup_singleton _) ?_
  · exact nodup_pairs.map (fun a b h => by injection h)
  · exact nodup_pairs.map (fun a b h => by injection h)
  · simp only [List.disjoint_left, List.mem_map]
    rintro a ⟨p, _, rfl⟩ ⟨q, _, h⟩; cases h
  · exact nodup_diagIdx.map (fun a b h => by injection h)
  · simp only [List.disjoint_left, List.mem_map, List.mem_append]
    rintro a (⟨p, _, rfl⟩ | ⟨p, _, rfl⟩) ⟨q, _, h⟩ <;> cases h
  · simp only [List.disjoint_left, List.mem_map, List.mem_append, List.mem_singleton]
    rintro a ((⟨p, _, rfl⟩ | ⟨p, _, rfl⟩) | ⟨p, _, rfl⟩) h <;> cases h

theorem length_kinds (hd : 1 ≤ d) : (kinds d).length = d * d := by
  simp only [kinds, List.length_append, List.length_map, List.length_singleton, length_diagIdx]
  have := length_pairs (d := d)
  obtain ⟨n, rfl⟩ : ∃ n, d = n + 1 := ⟨d - 1, by omega⟩
  simp only [Nat.add_sub_cancel] at this ⊢
  have : (n+1) * (n+1) = (n+1) * n + (n+1) := by ring
  omega

theorem orth (S : Scalars R) (hS : S.Valid d) {k k' : Kind d} (hk : k.WF) (hk' : k'.WF) :
    trace (k.mat S * k'.mat S) = if k = k' then 2 else 0 := by
  cases k with
  | sym p =>
    obtain ⟨i, j⟩ := p
    simp only [Kind.WF] at hk
    simp only [Kind.mat]
    rw [tr_sym_mul S hk]
    cases k' with
    | sym q =>
      obtain ⟨a, b⟩ := q
      simp only [Kind.WF] at hk'
      simp only [Kind.mat, G_sym S hk', Matrix.add_apply, Matrix.single_apply, Kind.sym.injEq, Prod.mk.injEq]
      rw [Fin.lt_def] at hk hk'
      simp only [Fin.ext_iff]
      split_ifs <;> first | omega | norm_num
    | asym q =>
      obtain ⟨a, b⟩ := q
      simp only [Kind.WF] at hk'
      simp only [Kind.mat, G_asym S hk', Matrix.add_apply, Matrix.single_apply]
      rw [Fin.lt_def] at hk hk'
      simp only [Fin.ext_iff, reduceCtorEq, if_false]
      split_ifs <;> first | omega | simp
    | diag k =>
      simp only [Kind.WF] at hk'
      have : i ≠ j := ne_of_lt hk
      simp [Kind.mat, G_diag S hk', diagonal_apply, this, this.symm]
    | ident =>
      have : i ≠ j := ne_of_lt hk
      simp [Kind.mat, G_ident, diagonal_apply, this, this.symm]
  | asym p =>
    obtain ⟨i, j⟩ := p
    simp only [Kind.WF] at hk
    simp only [Kind.mat]
    rw [tr_asym_mul S hk]
    cases k' with
    | sym q =>
      obtain ⟨a, b⟩ := q
      simp only [Kind.WF] at hk'
      simp only [Kind.mat, G_sym S hk', Matrix.add_apply, Matrix.single_apply]
      rw [Fin.lt_def] at hk hk'
      simp only [Fin.ext_iff, reduceCtorEq, if_false]
      split_ifs <;> first | omega | simp
    | asym q =>
      obtain ⟨a, b⟩ := q
      simp only [Kind.WF] at hk'
      simp only [Kind.mat, G_asym S hk', Matrix.add_apply, Matrix.single_apply, Kind.asym.injEq, Prod.mk.injEq]
      rw [Fin.lt_def] at hk hk'
      simp only [Fin.ext_iff]
      have hI := hS.I_sq
      split_ifs <;> first | omega | (simp; try linear_combination (-2 : R) * hI)
    | diag k =>
      simp only [Kind.WF] at hk'
      have : i ≠ j := ne_of_lt hk
      simp [Kind.mat, G_diag S hk', diagonal_apply, this, this.symm]
    | ident =>
      have : i ≠ j := ne_of_lt hk
      simp [Kind.mat, G_ident, diagonal_apply, this, this.symm]
  | diag k =>
    simp only [Kind.WF] at hk
    simp only [Kind.mat]
    rw [G_diag S hk, tr_diagonal_mul]
    cases k' with
    | sym q =>
      obtain ⟨a, b⟩ := q
      simp only [Kind.WF] at hk'
      have : a ≠ b := ne_of_lt hk'
      have h2 : ∀ x : Fin d, ¬ (a = x ∧ b = x) := fun x h => this (h.1.trans h.2.symm)
      have h3 : ∀ x : Fin d, ¬ (b = x ∧ a = x) := fun x h => this (h.2.trans h.1.symm)
      simp [Kind.mat, G_sym S hk', Matrix.single_apply, h2, h3]
    | asym q =>
      obtain ⟨a, b⟩ := q
      simp only [Kind.WF] at hk'
      have : a ≠ b := ne_of_lt hk'
      have h2 : ∀ x : Fin d, ¬ (a = x ∧ b = x) := fun x h => this (h.1.trans h.2.symm)
      have h3 : ∀ x : Fin d, ¬ (b = x ∧ a = x) := fun x h => this (h.2.trans h.1.symm)
      simp [Kind.mat, G_asym S hk', Matrix.single_apply, h2, h3]
    | diag k' =>
      simp only [Kind.WF] at hk'
      simp only [Kind.mat, G_diag S hk', diagonal_apply_eq, Kind.diag.injEq]
      rcases lt_trichotomy k k' with h | h | h
      · rw [sum_wD_mul_lt S h, if_neg (ne_of_lt h)]
      · subst h
        rw [sum_wD_sq, if_pos rfl]
        exact hS.cD_sq _ hk k.isLt
      · rw [if_neg (ne_of_gt h)]
        rw [← sum_wD_mul_lt S h]
        exact Finset.sum_congr rfl (fun r _ => mul_comm _ _)
    | ident =>
      simp only [Kind.mat, G_ident, diagonal_apply_eq, reduceCtorEq, if_false, ← Finset.sum_mul, sum_wD, zero_mul]
  | ident =>
    simp only [Kind.mat]
    rw [G_ident, tr_diagonal_mul]
    cases k' with
    | sym q =>
      obtain ⟨a, b⟩ := q
      simp only [Kind.WF] at hk'
      have : a ≠ b := ne_of_lt hk'
      have h2 : ∀ x : Fin d, ¬ (a = x ∧ b = x) := fun x h => this (h.1.trans h.2.symm)
      have h3 : ∀ x : Fin d, ¬ (b = x ∧ a = x) := fun x h => this (h.2.trans h.1.symm)
      simp [Kind.mat, G_sym S hk', Matrix.single_apply, h2, h3]
    | asym q =>
      obtain ⟨a, b⟩ := q
      simp only [Kind.WF] at hk'
      have : a ≠ b := ne_of_lt hk'
      have h2 : ∀ x : Fin d, ¬ (a = x ∧ b = x) := fun x h => this (h.1.trans h.2.symm)
      have h3 : ∀ x : Fin d, ¬ (b = x ∧ a = x) := fun x h => this (h.2.trans h.1.symm)
      simp [Kind.mat, G_asym S hk', Matrix.single_apply, h2, h3]
    | diag k' =>
      simp only [Kind.WF] at hk'
      simp only [Kind.mat, G_diag S hk', diagonal_apply_eq, reduceCtorEq, if_false, ← Finset.mul_sum, sum_wD, mul_zero]
    | ident =>
      simp only [Kind.mat, G_ident, diagonal_apply_eq, if_true, Finset.sum_const, Finset.card_univ, Fintype.card_fin, nsmul_eq_mul]
      rw [← hS.cI_sq]; ring


section general
variable {β : Type} [DecidableEq β] {M : Type} [AddCommMonoid M]

theorem getD_of_lt (l : List β) (dflt : β) {a : Nat} (h : a < l.length) : l.getD a dflt = l[a] := by
  simp [h]

theorem sum_range_nodup (l : List β) (hl : l.Nodup) (f : Nat → β → M) (dflt : β) :
    ∑ a ∈ Finset.range l.length, f a (l.getD a dflt) = ∑ x ∈ l.toFinset, f (l.idxOf x) x := by
  refine Finset.sum_bij' (fun a _ => l.getD a dflt) (fun x _ => l.idxOf x) ?_ ?_ ?_ ?_ ?_
  · intro a ha
    rw [Finset.mem_range] at ha
    rw [List.mem_toFinset, getD_of_lt _ _ ha]; exact List.getElem_mem ha
  · intro x hx
    rw [List.mem_toFinset] at hx
    rw [Finset.mem_range]; exact List.idxOf_lt_length_of_mem hx
  · intro a ha
    rw [Finset.mem_range] at ha
    simp only [getD_of_lt _ _ ha]; exact hl.idxOf_getElem a ha
  · intro x hx
    rw [List.mem_toFinset] at hx
    simp only [getD_of_lt _ _ (List.idxOf_lt_length_of_mem hx)]; exact List.getElem_idxOf _
  · intro a ha
    rw [Finset.mem_range] at ha
    simp only [getD_of_lt _ _ ha, hl.idxOf_getElem a ha]

end general

variable {R : Type} [CommRing R] {d : Nat}

/-- position of a basis element in the documented order -/
def Kind.pos : Kind d → Nat
  | .sym p => (pairs d).idxOf p
  | .asym p => (pairs d).length + (pairs d).idxOf p
  | .diag k => (pairs d).length + (pairs d).length + (k.val - 1)
  | .ident => (pairs d).length + (pairs d).length + (d - 1)

theorem getElem?_diagIdx {q : Nat} (hq : q + 1 < d) : (diagIdx d)[q]? = some ⟨q + 1, hq⟩ := by
  obtain ⟨n, rfl⟩ : ∃ n, d = n + 1 := ⟨d - 1, by omega⟩
  rw [diagIdx_eq, List.getElem?_map]
  have : q < (List.finRange n).length := by simp; omega
  rw [List.getElem?_eq_getElem this, List.getElem_finRange]
  rfl

theorem idxOf_kinds {k : Kind d} (hk : k ∈ kinds d) : (kinds d).idxOf k = k.pos := by
  have hk' := kinds_wf hk
  have key : (kinds d)[k.pos]? = some k := by
    unfold kinds
    cases k with
    | sym p =>
      have hp : p ∈ pairs d := mem_pairs.2 hk'
      have h1 : (pairs d).idxOf p < (pairs d).length := List.idxOf_lt_length_of_mem hp
      simp only [Kind.pos]
      rw [List.append_assoc, List.append_assoc, List.getElem?_append_left (by simpa using h1), List.getElem?_map,
        List.getElem?_idxOf hp]; rfl
    | asym p =>
      have hp : p ∈ pairs d := mem_pairs.2 hk'
      have h1 : (pairs d).idxOf p < (pairs d).length := List.idxOf_lt_length_of_mem hp
      simp only [Kind.pos]
      rw [List.append_assoc, List.append_assoc, List.getElem?_append_right (by simp),
        List.getElem?_append_left (by simp; omega), List.getElem?_map]
      simp [List.getElem?_idxOf hp]
    | diag k =>
      have h0 : 0 < k.val := hk'
      simp only [Kind.pos]
      rw [List.append_assoc, List.append_assoc, List.getElem?_append_right (by simp; omega),
        List.getElem?_append_right (by simp; omega), List.getElem?_append_left (by simp [length_diagIdx]; omega), List.getElem?_map]
      simp only [List.length_map]
      have : (pairs d).length + (pairs d).length + (k.val - 1) - (pairs d).length - (pairs d).length = k.val - 1 := by omega
      rw [this, getElem?_diagIdx (q := k.val - 1) (by omega)]
      simp only [Option.map_some, Option.some.injEq, Kind.diag.injEq]
      exact Fin.ext (by simp; omega)
    | ident =>
      simp only [Kind.pos]
      rw [List.getElem?_append_right (by simp [length_diagIdx]; omega)]
      have : (pairs d).length + (pairs d).length + (d - 1) - ((pairs d).map Kind.sym ++ (pairs d).map Kind.asym ++ (diagIdx d).map Kind.diag).length = 0 := by
        simp [length_diagIdx]; omega
      rw [this]; rfl
  have hlt : k.pos < (kinds d).length := by
    by_contra h
    rw [List.getElem?_eq_none (by omega)] at key; cases key
  rw [List.getElem?_eq_getElem hlt] at key
  have := kinds_nodup.idxOf_getElem k.pos hlt
  rw [Option.some.inj key] at this
  exact this
/-- element `a` of `all_gellmann_matrix(d)` as a Mathlib matrix (`0` outside the range) -/
def basis (S : Scalars R) (d a : Nat) : Matrix (Fin d) (Fin d) R := ((allGellmann S d).map Matrix.of).getD a 0

theorem length_allGellmann (S : Scalars R) (hd : 1 ≤ d) : (allGellmann S d).length = d * d := by
  have := congrArg List.length (allGellmann_eq S (d := d))
  simpa [length_kinds hd] using this

theorem basis_eq (S : Scalars R) (hd : 1 ≤ d) {a : Nat} (ha : a < d * d) :
    ∃ k ∈ kinds d, k.pos = a ∧ (kinds d)[a]? = some k ∧ basis S d a = k.mat S := by
  have hl : a < (kinds d).length := by rw [length_kinds hd]; exact ha
  refine ⟨(kinds d)[a], List.getElem_mem hl, ?_, List.getElem?_eq_getElem hl, ?_⟩
  · rw [← idxOf_kinds (List.getElem_mem hl)]; exact kinds_nodup.idxOf_getElem a hl
  · unfold basis; rw [allGellmann_eq]
    simp [hl]

theorem basis_orthogonal [StarRing R] (S : Scalars R) (hS : S.Valid d) (hd : 1 ≤ d) {a b : Nat} (ha : a < d * d) (hb : b < d * d) :
    trace (basis S d a * basis S d b) = if a = b then 2 else 0 := by
  obtain ⟨k, hk, hka, _, ek⟩ := basis_eq S hd ha
  obtain ⟨k', hk', hkb, _, ek'⟩ := basis_eq S hd hb
  rw [ek, ek', orth S hS (kinds_wf hk) (kinds_wf hk')]
  by_cases h : k = k'
  · subst h; rw [if_pos rfl, if_pos (hka.symm.trans hkb)]
  · rw [if_neg h, if_neg]; intro e; apply h
    have h1 := idxOf_kinds hk; have h2 := idxOf_kinds hk'
    rw [hka] at h1; rw [hkb, ← e] at h2
    have := List.getElem_idxOf (List.idxOf_lt_length_of_mem hk)
    have := List.getElem_idxOf (List.idxOf_lt_length_of_mem hk')
    simp_all

/-- a sum over the positions of the basis is a sum over the four blocks -/
theorem sum_basis {M : Type} [AddCommMonoid M] (S : Scalars R) (hd : 1 ≤ d) (f : Nat → Matrix (Fin d) (Fin d) R → M) :
    ∑ a ∈ Finset.range (d * d), f a (basis S d a)
      = ((pairs d).map fun p => f (Kind.sym p).pos ((Kind.sym p).mat S)).sum
      + ((pairs d).map fun p => f (Kind.asym p).pos ((Kind.asym p).mat S)).sum
      + ((diagIdx d).map fun k => f (Kind.diag k).pos ((Kind.diag k).mat S)).sum
      + f (Kind.ident (d := d)).pos ((Kind.ident (d := d)).mat S) := by
  have h1 : ∑ a ∈ Finset.range (d * d), f a (basis S d a)
      = ∑ a ∈ Finset.range (kinds d).length, f a (((kinds d).getD a Kind.ident).mat S) := by
    rw [length_kinds hd]
    refine Finset.sum_congr rfl (fun a ha => ?_)
    rw [Finset.mem_range] at ha
    obtain ⟨k, _, _, hk2, ek⟩ := basis_eq S hd ha
    rw [ek, List.getD_eq_getElem?_getD, hk2]; rfl
  rw [h1, sum_range_nodup (kinds d) kinds_nodup (fun a k => f a (k.mat S)) Kind.ident, List.sum_toFinset _ kinds_nodup]
  have h2 : (kinds d).map (fun x => f ((kinds d).idxOf x) (x.mat S)) = (kinds d).map (fun x => f x.pos (x.mat S)) :=
    List.map_congr_left (fun k hk => by rw [idxOf_kinds hk])
  rw [h2]
  simp [kinds, List.map_append, List.sum_append, List.map_map, Function.comp_def, add_assoc]

/-! ### per-element facts -/

theorem sumFin_eq {M : Type} [AddCommMonoid M] (f : Fin d → M) : sumFin f = ∑ i, f i := by
  unfold sumFin; rw [Fin.sum_univ_def]

theorem list_sum_filter_map {β M : Type} [AddCommMonoid M] (l : List β) (p : β → Bool) (f : β → M) :
    ((l.filter p).map f).sum = (l.map fun x => if p x then f x else 0).sum := by
  induction l with
  | nil => simp
  | cons a t ih =>
    by_cases h : p a <;> simp [List.filter_cons, h, ih]

theorem sum_filter_lt (k : Fin d) (f : Fin d → R) :
    (((List.finRange d).filter fun l => l.val < k.val).map f).sum = ∑ r : Fin d, if r.val < k.val then f r else 0 := by
  rw [list_sum_filter_map, Fin.sum_univ_def]; simp

theorem sum_wD_mul (S : Scalars R) (k : Fin d) (f : Fin d → R) :
    ∑ r : Fin d, wD S k.val r * f r = S.cD k * ((∑ r : Fin d, if r.val < k.val then f r else 0) - (k.val : R) * f k) := by
  have : ∀ r : Fin d, wD S k.val r * f r = S.cD k * (if r.val < k.val then f r else 0) + (if r = k then S.cD k * -(k.val : R) * f k else 0) := by
    intro r; unfold wD
    by_cases h1 : r.val < k.val
    · have : r ≠ k := fun e => by rw [e] at h1; exact lt_irrefl _ h1
      simp [h1, this]
    · by_cases h2 : r = k
      · subst h2; simp
      · have : r.val ≠ k.val := fun e => h2 (Fin.ext e)
        simp [h1, h2, this]
  simp only [this, Finset.sum_add_distrib, ← Finset.mul_sum, Finset.sum_ite_eq', Finset.mem_univ, if_true]
  ring

/-- closed-form coefficient of `matrix_to_gellmann_basis` for a basis element -/
def coefK (S : Scalars R) (A : Mat d R) : Kind d → R
  | .sym p => (A p.1 p.2 + A p.2 p.1) * S.half
  | .asym p => (A p.1 p.2 - A p.2 p.1) * (S.half * S.I)
  | .diag k => ((((List.finRange d).filter fun l => l.val < k.val).map fun l => A l l).sum - (k.val : R) * A k k) * S.aD k.val
  | .ident => sumFin (fun l => A l l) * S.aI

theorem analysis_eq_map (S : Scalars R) (A : Mat d R) : analysis S d A = (kinds d).map (coefK S A) := by
  simp [analysis, kinds, List.map_append, List.map_map, Function.comp_def, coefK]

theorem coefK_eq [StarRing R] (S : Scalars R) (hS : S.Valid d) (A : Mat d R) {k : Kind d} (hk : k.WF) :
    coefK S A k = S.half * trace (k.mat S * Matrix.of A) := by
  cases k with
  | sym p => simp only [Kind.WF] at hk; simp only [coefK, Kind.mat, tr_sym_mul S hk, Matrix.of_apply]; ring
  | asym p => simp only [Kind.WF] at hk; simp only [coefK, Kind.mat, tr_asym_mul S hk, Matrix.of_apply]; ring
  | diag k =>
    simp only [Kind.WF] at hk
    simp only [coefK, Kind.mat, G_diag S hk, tr_diagonal_mul, Matrix.of_apply, sum_filter_lt, hS.aD_eq]
    rw [sum_wD_mul]; ring
  | ident =>
    simp only [coefK, Kind.mat, G_ident, tr_diagonal_mul, Matrix.of_apply, sumFin_eq, hS.aI_eq, ← Finset.mul_sum]; ring

theorem mat_hermitian [StarRing R] (S : Scalars R) (hS : S.Valid d) {k : Kind d} (hk : k.WF) : (k.mat S)ᴴ = k.mat S := by
  cases k with
  | sym p =>
    simp only [Kind.WF] at hk
    simp only [Kind.mat, G_sym S hk, conjTranspose_add, conjTranspose_single, star_one]; rw [add_comm]
  | asym p =>
    simp only [Kind.WF] at hk
    simp only [Kind.mat, G_asym S hk, conjTranspose_add, conjTranspose_single, star_neg, hS.star_I, neg_neg]; rw [add_comm]
  | diag k =>
    simp only [Kind.WF] at hk
    simp only [Kind.mat, G_diag S hk, diagonal_conjTranspose]
    congr 1; funext r
    simp only [Pi.star_apply, wD]
    split_ifs <;> simp [hS.star_cD]
  | ident =>
    simp only [Kind.mat, G_ident, diagonal_conjTranspose]
    congr 1; funext r; simp [hS.star_cI]

theorem mat_trace (S : Scalars R) {k : Kind d} (hk : k.WF) :
    trace (k.mat S) = if k = Kind.ident then (d : R) * S.cI else 0 := by
  cases k with
  | sym p =>
    simp only [Kind.WF] at hk
    simp [Kind.mat, G_sym S hk, trace_add, trace_single_eq_of_ne _ _ _ (ne_of_lt hk), trace_single_eq_of_ne _ _ _ (ne_of_gt hk)]
  | asym p =>
    simp only [Kind.WF] at hk
    simp [Kind.mat, G_asym S hk, trace_add, trace_single_eq_of_ne _ _ _ (ne_of_lt hk), trace_single_eq_of_ne _ _ _ (ne_of_gt hk)]
  | diag k =>
    simp only [Kind.WF] at hk
    simp [Kind.mat, G_diag S hk, trace_diagonal, sum_wD]
  | ident => simp [Kind.mat, G_ident, trace_diagonal]


end Numqi.Gellmann
