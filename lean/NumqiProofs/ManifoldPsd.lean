/- Model-specific lemmas for C01: the trace-one PSD Cholesky map. -/
import NumqiProofs.ManifoldMaps
import Mathlib.LinearAlgebra.Matrix.Rank

namespace Numqi.Manifold
open Matrix Finset
open scoped ComplexOrder

variable {dim rank : Nat}

/-! ### `trilPairs` -/

theorem mem_trilPairs {x : Nat × Nat} : x ∈ trilPairs dim rank ↔ x.1 < dim ∧ x.2 < x.1 ∧ x.2 < rank := by
  simp only [trilPairs, List.mem_flatMap, List.mem_range, List.mem_map, lt_min_iff]
  constructor
  · rintro ⟨r, hr, c, ⟨h1, h2⟩, rfl⟩; exact ⟨hr, h1, h2⟩
  · intro ⟨h1, h2, h3⟩; exact ⟨x.1, h1, x.2, ⟨h2, h3⟩, rfl⟩

theorem nodup_trilPairs : (trilPairs dim rank).Nodup := by
  unfold trilPairs
  rw [List.nodup_flatMap]
  refine ⟨fun r _ => ?_, ?_⟩
  · exact (List.nodup_range).map (fun a b h => by simpa using h)
  · refine List.Pairwise.imp ?_ (List.nodup_range (n := dim))
    intro a b hab
    simp only [Function.onFun, List.disjoint_left, List.mem_map]
    rintro x ⟨j, _, rfl⟩ ⟨j', _, h⟩
    exact hab (by simpa using (congrArg Prod.fst h).symm)

theorem length_trilPairs (h : rank ≤ dim) : 2 * (trilPairs dim rank).length + rank * rank + rank = 2 * dim * rank := by
  have h1 : (trilPairs dim rank).length = ∑ r ∈ range dim, min r rank := by
    unfold trilPairs
    rw [List.length_flatMap]
    simp only [List.length_map, List.length_range]
    rw [← sumRange_eq]; rfl
  have h2 : ∑ r ∈ range rank, min r rank = ∑ r ∈ range rank, r :=
    Finset.sum_congr rfl (fun r hr => min_eq_left (le_of_lt (Finset.mem_range.1 hr)))
  have h3 : ∑ r ∈ Ico rank dim, min r rank = (dim - rank) * rank := by
    rw [Finset.sum_congr rfl (fun r hr => min_eq_right (Finset.mem_Ico.1 hr).1)]
    simp
  have h4 := Finset.sum_range_id_mul_two rank
  rw [h1, ← Finset.sum_range_add_sum_Ico _ h, h2, h3]
  obtain ⟨e, rfl⟩ : ∃ e, dim = rank + e := ⟨dim - rank, by omega⟩
  simp only [Nat.add_sub_cancel_left]
  cases rank with
  | zero => simp
  | succ k =>
    simp only [Nat.add_sub_cancel] at h4
    nlinarith [h4]

theorem sum_range_nodup' {β : Type} [DecidableEq β] [BEq β] [LawfulBEq β] {M : Type} [AddCommMonoid M]
    (l : List β) (hl : l.Nodup) (f : Nat → M) :
    ∑ a ∈ Finset.range l.length, f a = ∑ x ∈ l.toFinset, f (l.idxOf x) := by
  refine Finset.sum_bij' (fun a ha => l[a]'(Finset.mem_range.1 ha)) (fun x _ => l.idxOf x) ?_ ?_ ?_ ?_ ?_
  · intro a ha; rw [List.mem_toFinset]; exact List.getElem_mem _
  · intro x hx
    rw [List.mem_toFinset] at hx
    rw [Finset.mem_range]; exact List.idxOf_lt_length_of_mem hx
  · intro a ha; exact hl.idxOf_getElem a _
  · intro x hx; exact List.getElem_idxOf _
  · intro a ha; rw [hl.idxOf_getElem a _]

/-- a sum over the strictly lower entries, addressed by their position in `trilPairs`, is a sum over positions -/
theorem sum_tril (g : Nat → ℝ) (h : rank ≤ dim) :
    ∑ r : Fin dim, ∑ c : Fin rank, (if c.val < r.val then g ((trilPairs dim rank).idxOf (r.val, c.val)) else 0)
      = ∑ p ∈ range (trilPairs dim rank).length, g p := by
  have h1 := sum_range_nodup' (trilPairs dim rank) nodup_trilPairs g
  rw [h1, ← Finset.sum_product', ← Finset.sum_filter]
  refine Finset.sum_bij (fun x _ => (x.1.val, x.2.val)) ?_ ?_ ?_ ?_
  · intro x hx
    simp only [Finset.mem_filter, Finset.mem_product, Finset.mem_univ, true_and] at hx
    rw [List.mem_toFinset, mem_trilPairs]; exact ⟨x.1.isLt, hx, x.2.isLt⟩
  · intro x _ y _ hxy
    simp only [Prod.mk.injEq] at hxy
    exact Prod.ext (Fin.ext hxy.1) (Fin.ext hxy.2)
  · intro y hy
    rw [List.mem_toFinset, mem_trilPairs] at hy
    refine ⟨(⟨y.1, hy.1⟩, ⟨y.2, hy.2.2⟩), ?_, rfl⟩
    simp only [Finset.mem_filter, Finset.mem_product, Finset.mem_univ, true_and]; exact hy.2.1
  · intro x _; rfl

theorem toM_psdCholesky (isReal : Bool) (θ : Nat → ℝ) :
    toM dim dim (psdCholesky (K := ℂ) dim rank isReal θ)
      = toM dim rank (psdCholFactor dim rank isReal θ) * (toM dim rank (psdCholFactor dim rank isReal θ))ᴴ := by
  unfold psdCholesky; simp only []; rw [toM_matMul, toM_conjT]

/-- `to_trace1_psd_cholesky`: Hermitian -/
theorem psdCholesky_hermitian' (isReal : Bool) (θ : Nat → ℝ) :
    (toM dim dim (psdCholesky (K := ℂ) dim rank isReal θ)).IsHermitian := by
  rw [toM_psdCholesky]; exact Matrix.isHermitian_mul_conjTranspose_self _

/-- positive semidefinite -/
theorem psdCholesky_posSemidef' (isReal : Bool) (θ : Nat → ℝ) :
    (toM dim dim (psdCholesky (K := ℂ) dim rank isReal θ)).PosSemidef := by
  rw [toM_psdCholesky]; exact Matrix.posSemidef_self_mul_conjTranspose _

/-- rank at most `rank` -/
theorem psdCholesky_rank_le' (isReal : Bool) (θ : Nat → ℝ) :
    Matrix.rank (toM dim dim (psdCholesky (K := ℂ) dim rank isReal θ)) ≤ rank := by
  rw [toM_psdCholesky]
  exact (Matrix.rank_mul_le_left _ _).trans (Matrix.rank_le_width _)

theorem N0_sub_rank (h : rank ≤ dim) : rank * (2 * dim - rank + 1) / 2 - rank = (trilPairs dim rank).length := by
  have h1 := length_trilPairs h
  have h2 : rank * (2 * dim - rank + 1) = 2 * (trilPairs dim rank).length + 2 * rank := by
    obtain ⟨e, rfl⟩ : ∃ e, dim = rank + e := ⟨dim - rank, by omega⟩
    have : 2 * (rank + e) - rank + 1 = rank + 2 * e + 1 := by omega
    rw [this]; nlinarith [h1]
  rw [h2]; omega

theorem normSq_pos_of_softplus (θ : Nat → ℝ) (hr : 1 ≤ rank) : 0 < normSq rank (fun i => softplus (θ i)) := by
  rw [normSq_eq]
  apply Finset.sum_pos' (fun i _ => mul_self_nonneg _)
  exact ⟨0, Finset.mem_range.2 hr, mul_pos (softplus_pos' _) (softplus_pos' _)⟩

/-- **trace one**, for every θ (`1 ≤ rank ≤ dim`) -/
theorem psdCholesky_trace' (isReal : Bool) (θ : Nat → ℝ) (hr : 1 ≤ rank) (h : rank ≤ dim) :
    trace (toM dim dim (psdCholesky (K := ℂ) dim rank isReal θ)) = 1 := by
  rw [toM_psdCholesky, trace_mul_conjTranspose_self]
  set M := (trilPairs dim rank).length with hM
  have hN0 := N0_sub_rank h
  set nOff := if isReal then M else 2 * M with hnOff
  set D : ℝ := normSq nOff (fun p => θ (rank + p)) + normSq rank (fun i => softplus (θ i)) with hD
  have hDpos : 0 < D := by
    have := normSq_pos_of_softplus θ hr
    have := normSq_nonneg nOff (fun p => θ (rank + p))
    rw [hD]; linarith
  set nf : ℝ := Real.sqrt D with hnf
  have hnf2 : nf * nf = D := Real.mul_self_sqrt (le_of_lt hDpos)
  have hnf0 : nf ≠ 0 := fun e => by rw [e] at hnf2; linarith
  -- entries
  have hent : ∀ (r : Fin dim) (c : Fin rank),
      Complex.normSq (toM dim rank (psdCholFactor (K := ℂ) dim rank isReal θ) r c)
        = (if r.val = c.val then softplus (θ c) * softplus (θ c) / D else 0)
          + (if c.val < r.val then
              (θ (rank + (trilPairs dim rank).idxOf (r.val, c.val)) * θ (rank + (trilPairs dim rank).idxOf (r.val, c.val))
                + (if isReal then 0 else θ (rank + (M + (trilPairs dim rank).idxOf (r.val, c.val))) * θ (rank + (M + (trilPairs dim rank).idxOf (r.val, c.val))))) / D
             else 0) := by
    intro r c
    simp only [toM, Matrix.of_apply, psdCholFactor, NMat.get_ofFn_fin, hN0, ← hM]
    rw [show (sqrt (normSq (if isReal = true then M else 2 * M) (fun p => θ (rank + p)) + normSq rank fun i => softplus (θ i))) = nf from rfl]
    by_cases h1 : r.val = c.val
    · have : ¬ c.val < r.val := by omega
      simp only [h1, if_true, this, if_false, add_zero, CxOps.ofReal]
      rw [Complex.normSq_ofReal, div_mul_div_comm, hnf2]
      simp
    · rw [if_neg h1, if_neg h1]
      by_cases h2 : c.val < r.val
      · simp only [h2, if_true, zero_add]
        cases isReal with
        | true =>
          simp only [if_true, CxOps.ofReal, add_zero]
          rw [Complex.normSq_ofReal, div_mul_div_comm, hnf2]
        | false =>
          simp only [Bool.false_eq_true, if_false, CxOps.ofReal, CxOps.I, add_assoc]
          rw [Complex.normSq_apply]
          simp only [Complex.add_re, Complex.ofReal_re, Complex.mul_re, Complex.I_re, zero_mul, Complex.I_im, Complex.ofReal_im,
            mul_zero, sub_zero, add_zero, Complex.add_im, Complex.mul_im, one_mul, zero_add]
          rw [div_mul_div_comm, div_mul_div_comm, hnf2, add_div]
      · simp [h2]
  simp only [hent, Complex.ofReal_add, Finset.sum_add_distrib]
  rw [← Complex.ofReal_one]
  simp only [← Complex.ofReal_sum, ← Complex.ofReal_add]
  congr 1
  -- diagonal part
  have hdiag : ∑ r : Fin dim, ∑ c : Fin rank, (if r.val = c.val then softplus (θ c) * softplus (θ c) / D else 0)
      = normSq rank (fun i => softplus (θ i)) / D := by
    rw [Finset.sum_comm, normSq_eq, Finset.sum_div, Finset.sum_range]
    refine Finset.sum_congr rfl (fun c _ => ?_)
    rw [Finset.sum_eq_single ⟨c.val, lt_of_lt_of_le c.isLt h⟩]
    · simp
    · intro r _ hr'
      have : r.val ≠ c.val := fun e => hr' (Fin.ext e)
      simp [this]
    · intro hne; exact absurd (Finset.mem_univ _) hne
  have hoff : ∑ r : Fin dim, ∑ c : Fin rank, (if c.val < r.val then
              (θ (rank + (trilPairs dim rank).idxOf (r.val, c.val)) * θ (rank + (trilPairs dim rank).idxOf (r.val, c.val))
                + (if isReal then 0 else θ (rank + (M + (trilPairs dim rank).idxOf (r.val, c.val))) * θ (rank + (M + (trilPairs dim rank).idxOf (r.val, c.val))))) / D
             else 0) = normSq nOff (fun p => θ (rank + p)) / D := by
    rw [sum_tril (fun p => (θ (rank + p) * θ (rank + p) + (if isReal then 0 else θ (rank + (M + p)) * θ (rank + (M + p)))) / D) h,
      ← Finset.sum_div, normSq_eq, ← hM]
    congr 1
    cases isReal with
    | true =>
      have hn : nOff = M := by simp [hnOff]
      rw [hn]; simp
    | false =>
      have hn : nOff = M + M := by simp [hnOff, two_mul]
      rw [hn, Finset.sum_range_add, ← Finset.sum_add_distrib]
      simp
  rw [hdiag, hoff, ← add_div, add_comm, ← hD, div_self (ne_of_gt hDpos)]

end Numqi.Manifold
