/-
C10 helper: non-interference of the seed-flow interpreter for closed programs.
-/
import Mathlib.Tactic
import NumqiModel.SeedFlow

namespace Numqi.SeedFlow

/-- two states that agree on what a seeded computation may depend on: the explicit generators and the
numbers drawn so far (global generators and OS entropy are arbitrary) -/
def Agree (a b : St) : Prop := a.heap = b.heap ∧ a.trace = b.trace

theorem Agree.obs {a b : St} (h : Agree a b) : a.obs = b.obs := by
  unfold St.obs; rw [h.1, h.2]

theorem agree_of_obs {a b : St} (h : a.obs = b.obs) : Agree a b := by
  unfold St.obs at h; exact ⟨(Prod.mk.inj h).1, (Prod.mk.inj h).2⟩

theorem drawRef_agree (G : GenModel) (r : Nat) {a b : St} (h : Agree a b) :
    (drawRef G r a).1 = (drawRef G r b).1 ∧ Agree (drawRef G r a).2 (drawRef G r b).2 := by
  simp [drawRef, Agree, h.1, h.2]

/-- a seed value that does not make a normaliser consult the OS entropy -/
def SeedVal.determined : SeedVal → Prop
  | .none => False
  | _ => True

theorem evalExpr_agree (G : GenModel) (seed : SeedVal) (loc : Locals) (defd : List Var) (e : SeedExpr)
    (hseed : seed.determined) (hloc : ∀ v ∈ defd, (loc v).isSome) (he : closedExpr defd e = true)
    {a b : St} (h : Agree a b) :
    (evalExpr G seed loc a e).1 = (evalExpr G seed loc b e).1 ∧
    (evalExpr G seed loc a e).1.determined ∧
    Agree (evalExpr G seed loc a e).2 (evalExpr G seed loc b e).2 := by
  cases e with
  | param => exact ⟨rfl, hseed, h⟩
  | var v =>
    simp only [closedExpr, List.contains_iff_mem] at he
    obtain ⟨r, hr⟩ := Option.isSome_iff_exists.1 (hloc v he)
    simp only [evalExpr, hr]
    exact ⟨trivial, trivial, h⟩
  | drawInt v =>
    simp only [closedExpr, List.contains_iff_mem] at he
    obtain ⟨r, hr⟩ := Option.isSome_iff_exists.1 (hloc v he)
    simp only [evalExpr, hr]
    obtain ⟨h1, h2⟩ := drawRef_agree G r h
    refine ⟨by rw [h1], trivial, h2⟩
  | none => simp [closedExpr] at he
  | const k => exact ⟨rfl, trivial, h⟩
  | unknown => simp [closedExpr] at he

theorem normalise_agree (G : GenModel) (sv : SeedVal) (hsv : sv.determined) {a b : St} (h : Agree a b) :
    (normalise G sv a).1 = (normalise G sv b).1 ∧ Agree (normalise G sv a).2 (normalise G sv b).2 := by
  cases sv with
  | none => exact absurd hsv (by simp [SeedVal.determined])
  | int k => simp [normalise, Agree, h.1, h.2]
  | ref r => exact ⟨rfl, h⟩

/-- **Non-interference, general form**: a closed program, run from a determined seed value in two states that
agree on the explicit generators and the trace, ends in two states that agree again — whatever the global
generator states and the OS entropy are. -/
theorem exec_agree (G : GenModel) (progs : List Prog) (oracle : Nat → List Nat → Bool)
    (hall : ∀ p ∈ progs, seedClosed progs.length p = true) :
    ∀ (fuel : Nat) (p : Prog) (seed : SeedVal) (loc : Locals) (defd : List Var) (a b : St),
      seed.determined → (∀ v ∈ defd, (loc v).isSome) → closed progs.length defd p = true → Agree a b →
      Agree (exec G progs oracle fuel p seed loc a) (exec G progs oracle fuel p seed loc b) := by
  intro fuel
  induction fuel with
  | zero => intro p seed loc defd a b _ _ _ h; exact h
  | succ fuel ih =>
    intro p seed loc defd a b hseed hloc hcl h
    cases p with
    | done => exact h
    | mkRng dst src k =>
      simp only [closed, Bool.and_eq_true] at hcl
      obtain ⟨e1, e2, e3⟩ := evalExpr_agree G seed loc defd src hseed hloc hcl.1 h
      obtain ⟨n1, n2⟩ := normalise_agree G _ e2 e3
      simp only [exec]
      rw [← e1, ← n1]
      refine ih k seed _ (dst :: defd) _ _ hseed ?_ hcl.2 n2
      intro v hv
      simp only [Locals.set]
      by_cases hvd : v = dst
      · simp [hvd]
      · simp only [hvd, if_false]
        exact hloc v (by simpa [hvd] using hv)
    | draw v k =>
      simp only [closed, Bool.and_eq_true, List.contains_iff_mem] at hcl
      obtain ⟨r, hr⟩ := Option.isSome_iff_exists.1 (hloc v hcl.1)
      simp only [exec, hr]
      exact ih k seed loc defd _ _ hseed hloc hcl.2 (drawRef_agree G r h).2
    | drawGlobal g k => simp [closed] at hcl
    | call f s k =>
      simp only [closed, Bool.and_eq_true, decide_eq_true_eq] at hcl
      obtain ⟨⟨hf, hs⟩, hk⟩ := hcl
      obtain ⟨e1, e2, e3⟩ := evalExpr_agree G seed loc defd s hseed hloc hs h
      simp only [exec]
      rw [← e1]
      have hcallee : closed progs.length [] (progs.getD f .done) = true := by
        have hmem : progs.getD f .done ∈ progs := by
          rw [List.getD_eq_getElem?_getD, List.getElem?_eq_getElem hf]
          exact List.getElem_mem _
        exact hall _ hmem
      have h2 := ih (progs.getD f .done) (evalExpr G seed loc a s).1 (fun _ => none) [] _ _ e2
        (by intro v hv; simp at hv) hcallee e3
      exact ih k seed loc defd _ _ hseed hloc hk h2
    | unknownCall k => simp [closed] at hcl
    | branch id t e k =>
      simp only [closed, Bool.and_eq_true] at hcl
      obtain ⟨⟨ht, he⟩, hk⟩ := hcl
      simp only [exec]
      rw [← h.2]
      have h1 : Agree (exec G progs oracle fuel (if oracle id a.trace then t else e) seed loc a)
          (exec G progs oracle fuel (if oracle id a.trace then t else e) seed loc b) := by
        by_cases ho : oracle id a.trace
        · simp only [ho, if_true]; exact ih t seed loc defd _ _ hseed hloc ht h
        · simp only [ho]; exact ih e seed loc defd _ _ hseed hloc he h
      exact ih k seed loc defd _ _ hseed hloc hk h1
    | loop id body k =>
      have hcl' := hcl
      simp only [closed, Bool.and_eq_true] at hcl
      simp only [exec]
      rw [← h.2]
      by_cases ho : oracle id a.trace
      · simp only [ho, if_true]
        have h1 := ih body seed loc defd _ _ hseed hloc hcl.1 h
        exact ih (.loop id body k) seed loc defd _ _ hseed hloc hcl' h1
      · simp only [ho]
        exact ih k seed loc defd _ _ hseed hloc hcl.2 h

end Numqi.SeedFlow
