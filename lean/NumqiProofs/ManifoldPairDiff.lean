/- C02: the complex branch of to_ball / to_sphere_quotient is the real map followed by the injective pairing R^{2h} -> C^h. -/
import NumqiProofs.ManifoldVecDiff

namespace Numqi.Manifold
open Module

/-- `ℝ^{2h} → ℂ^h`, `x ↦ x[:h] + i x[h:]` (the pairing `torch.complex(x[..., :h], x[..., h:])`), an injective `ℝ`-linear map -/
noncomputable def pairLin (h : Nat) : EuclideanSpace ℝ (Fin (h + h)) →ₗ[ℝ] (Fin h → ℂ) where
  toFun x j := ((x (Fin.castAdd h j) : ℝ) : ℂ) + Complex.I * ((x (Fin.natAdd h j) : ℝ) : ℂ)
  map_add' x y := by funext j; simp; ring
  map_smul' k x := by funext j; simp; ring

theorem pairLin_injective (h : Nat) : Function.Injective (pairLin h) := by
  rw [injective_iff_map_eq_zero]
  intro x hx
  have key : ∀ j : Fin h, x (Fin.castAdd h j) = 0 ∧ x (Fin.natAdd h j) = 0 := by
    intro j
    have := congrFun hx j
    simp only [pairLin, LinearMap.coe_mk, AddHom.coe_mk, Pi.zero_apply] at this
    have hre := congrArg Complex.re this
    have him := congrArg Complex.im this
    simp at hre him
    exact ⟨hre, by simpa using him⟩
  ext i
  refine Fin.addCases (fun j => ?_) (fun j => ?_) i
  · simpa using (key j).1
  · simpa using (key j).2

/-- the model's complex branch `pairCx h y` is `pairLin` applied to the real vector -/
theorem pairCx_eq_pairLin (h : Nat) (y : Nat → ℝ) (j : Fin h) : pairCx (K := ℂ) h y j.val = pairLin h (toE (h + h) y) j := by
  simp [pairCx, pairLin, toE, CxOps.ofReal, CxOps.I, Nat.add_comm]

/-- composing with an injective linear map does not change the rank -/
theorem finrank_range_comp_injective {E F G : Type*} [AddCommGroup E] [Module ℝ E] [AddCommGroup F] [Module ℝ F] [AddCommGroup G] [Module ℝ G]
    (L : F →ₗ[ℝ] G) (hL : Function.Injective L) (D : E →ₗ[ℝ] F) :
    finrank ℝ (LinearMap.range (L ∘ₗ D)) = finrank ℝ (LinearMap.range D) := by
  rw [LinearMap.range_comp]
  exact (Submodule.equivMapOfInjective L hL (LinearMap.range D)).finrank_eq.symm

noncomputable def pairCLM (h : Nat) : EuclideanSpace ℝ (Fin (h + h)) →L[ℝ] (Fin h → ℂ) := LinearMap.toContinuousLinearMap (pairLin h)

theorem pairCLM_injective (h : Nat) : Function.Injective (pairCLM h) := pairLin_injective h

/-- complex `to_ball` (`2h` parameters ↦ `ℂ^h`): differentiable at every `x ≠ 0` with injective differential (full rank `2h`) -/
theorem ballComplex_hasFDerivAt (h : Nat) {x : EuclideanSpace ℝ (Fin (h + h))} (hx : x ≠ 0) :
    HasFDerivAt (fun y => pairCLM h (ballMap y)) ((pairCLM h).comp (ballD x)) x ∧ Function.Injective ((pairCLM h).comp (ballD x)) :=
  ⟨(pairCLM h).hasFDerivAt.comp x (hasFDerivAt_ballMap hx), fun a b hab => ballD_injective hx (pairCLM_injective h hab)⟩

/-- … and at the origin (differential = the pairing itself) -/
theorem ballComplex_hasFDerivAt_zero (h : Nat) :
    HasFDerivAt (fun y : EuclideanSpace ℝ (Fin (h + h)) => pairCLM h (ballMap y)) ((pairCLM h).comp (ContinuousLinearMap.id ℝ _)) 0 ∧
      Function.Injective ((pairCLM h).comp (ContinuousLinearMap.id ℝ (EuclideanSpace ℝ (Fin (h + h))))) :=
  ⟨(pairCLM h).hasFDerivAt.comp 0 hasFDerivAt_ballMap_zero, fun a b hab => pairCLM_injective h hab⟩

/-- complex `to_sphere_quotient`: differentiable at every `x ≠ 0`, rank of the differential `2h - 1` (the real dimension of the unit sphere of `ℂ^h`) -/
theorem sphereComplex_rank (h : Nat) {x : EuclideanSpace ℝ (Fin (h + h))} (hx : x ≠ 0) :
    HasFDerivAt (fun y => pairCLM h (quotMap y)) ((pairCLM h).comp (quotD x)) x ∧
      finrank ℝ (LinearMap.range ((pairLin h) ∘ₗ (quotD x : EuclideanSpace ℝ (Fin (h + h)) →ₗ[ℝ] EuclideanSpace ℝ (Fin (h + h))))) + 1 = h + h := by
  refine ⟨(pairCLM h).hasFDerivAt.comp x (hasFDerivAt_quotMap hx), ?_⟩
  rw [finrank_range_comp_injective _ (pairLin_injective h)]
  have := finrank_range_quotD hx
  simpa using this

end Numqi.Manifold
