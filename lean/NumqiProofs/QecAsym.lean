/-
C19: the model of `make_asymmetric_error_set` lists exactly the non-identity Pauli strings with
`n_x + n_y + (p/q) n_z < d`, each once (all `n d p q`, `p q > 0`).
-/
import NumqiProofs.QecErrorList

namespace Numqi.Qec

/-! ### `val` on the lists built by the asymmetric generator -/

theorem val_append (e1 e2 : List (Nat × Nat)) (q : Nat) :
    val (e1 ++ e2) q = if (e1.any fun p => p.1 == q) then val e1 q else val e2 q := by
  unfold val
  rw [List.find?_append]
  cases h : e1.find? (fun p => p.1 == q) with
  | none =>
    have : (e1.any fun p => p.1 == q) = false := by
      rw [List.find?_eq_none] at h
      rw [Bool.eq_false_iff]; intro ha
      rw [List.any_eq_true] at ha
      obtain ⟨x, hx, hp⟩ := ha
      exact h x hx hp
    simp [this]
  | some p =>
    have : (e1.any fun p => p.1 == q) = true := by
      rw [List.any_eq_true]
      exact ⟨p, List.mem_of_find?_eq_some h, by have := List.find?_some h; simpa using this⟩
    simp [this]

theorem any_map_const (l : List Nat) (c q : Nat) : ((l.map (·, c)).any fun p => p.1 == q) = decide (q ∈ l) := by
  induction l with
  | nil => simp
  | cons a l ih =>
    simp only [List.map_cons, List.any_cons, ih, List.mem_cons]
    by_cases h : a = q
    · subst h; simp
    · have : ¬ (q = a) := fun e => h e.symm
      simp [h, this]

theorem val_map_const (l : List Nat) (c q : Nat) : val (l.map (·, c)) q = if q ∈ l then c else 0 := by
  induction l with
  | nil => simp [val_nil]
  | cons a l ih =>
    simp only [List.map_cons, val_cons, ih, List.mem_cons]
    by_cases h : a = q
    · subst h; simp
    · have : ¬ (q = a) := fun e => h e.symm
      simp [h, this]

/-- the error built from three index sets -/
def triple (ix iy iz : List Nat) : List (Nat × Nat) := ix.map (·, 1) ++ iy.map (·, 2) ++ iz.map (·, 3)

theorem val_triple (ix iy iz : List Nat) (q : Nat) :
    val (triple ix iy iz) q = if q ∈ ix then 1 else if q ∈ iy then 2 else if q ∈ iz then 3 else 0 := by
  unfold triple
  rw [List.append_assoc, val_append, any_map_const, val_map_const, val_append, any_map_const, val_map_const, val_map_const]
  by_cases h1 : q ∈ ix <;> by_cases h2 : q ∈ iy <;> simp [h1, h2]

/-! ### `split` with three counts -/

theorem mem_split3 (l : List Nat) (a b c : Nat) (ss : List (List Nat)) :
    ss ∈ split l [a, b, c] ↔ ∃ ix iy iz, ss = [ix, iy, iz] ∧ ix ∈ combs l a
      ∧ iy ∈ combs (l.filter fun i => !ix.contains i) b
      ∧ iz ∈ combs ((l.filter fun i => !ix.contains i).filter fun i => !iy.contains i) c := by
  simp only [split, List.mem_flatMap, List.mem_map, List.mem_singleton]
  constructor
  · rintro ⟨ix, hix, r1, ⟨iy, hiy, r2, ⟨iz, hiz, r3, rfl, rfl⟩, rfl⟩, rfl⟩
    exact ⟨ix, iy, iz, rfl, hix, hiy, hiz⟩
  · rintro ⟨ix, iy, iz, rfl, hix, hiy, hiz⟩
    exact ⟨ix, hix, [iy, iz], ⟨iy, hiy, [iz], ⟨iz, hiz, [], rfl, rfl⟩, rfl⟩, rfl⟩

theorem ceilDiv_lt (a b p : Nat) (hp : 0 < p) : a < ceilDiv b p ↔ a * p < b := by
  unfold ceilDiv
  rw [Nat.lt_iff_add_one_le, Nat.le_div_iff_mul_le hp]
  have e : (a + 1) * p = a * p + p := by ring
  rw [e]
  omega

/-! ### positions of the symbols -/

theorem not_contains_iff (l : List Nat) (i : Nat) : (!l.contains i) = true ↔ i ∉ l := by simp

/-- the three index sets of a generated error: sublists of `range n`, pairwise disjoint -/
structure TripleOk (n : Nat) (ix iy iz : List Nat) : Prop where
  hx : ix.Sublist (List.range n)
  hy : iy.Sublist (List.range n)
  hz : iz.Sublist (List.range n)
  dxy : ∀ i ∈ iy, i ∉ ix
  dxz : ∀ i ∈ iz, i ∉ ix
  dyz : ∀ i ∈ iz, i ∉ iy

theorem tripleOk_of_combs (n a b c : Nat) (ix iy iz : List Nat) (hix : ix ∈ combs (List.range n) a)
    (hiy : iy ∈ combs ((List.range n).filter fun i => !ix.contains i) b)
    (hiz : iz ∈ combs (((List.range n).filter fun i => !ix.contains i).filter fun i => !iy.contains i) c) :
    TripleOk n ix iy iz ∧ ix.length = a ∧ iy.length = b ∧ iz.length = c := by
  rw [mem_combs] at hix hiy hiz
  refine ⟨⟨hix.1, hiy.1.trans List.filter_sublist, hiz.1.trans (List.filter_sublist.trans List.filter_sublist), ?_, ?_, ?_⟩,
    hix.2, hiy.2, hiz.2⟩
  · intro i hi
    have := hiy.1.subset hi
    rw [List.mem_filter, not_contains_iff] at this
    exact this.2
  · intro i hi
    have := hiz.1.subset hi
    rw [List.mem_filter, List.mem_filter, not_contains_iff, not_contains_iff] at this
    exact this.1.2
  · intro i hi
    have := hiz.1.subset hi
    rw [List.mem_filter, List.mem_filter, not_contains_iff, not_contains_iff] at this
    exact this.2

theorem combs_of_tripleOk (n : Nat) (ix iy iz : List Nat) (h : TripleOk n ix iy iz) :
    ix ∈ combs (List.range n) ix.length
    ∧ iy ∈ combs ((List.range n).filter fun i => !ix.contains i) iy.length
    ∧ iz ∈ combs (((List.range n).filter fun i => !ix.contains i).filter fun i => !iy.contains i) iz.length := by
  simp only [mem_combs, and_true]
  refine ⟨h.hx, ?_, ?_⟩
  · have e : iy = (List.range n).filter (fun x => decide (x ∈ iy)) := (sublist_eq_filter h.hy List.nodup_range).symm
    have e2 : iy = ((List.range n).filter fun i => !ix.contains i).filter (fun x => decide (x ∈ iy)) := by
      rw [List.filter_filter]
      conv_lhs => rw [e]
      apply List.filter_congr
      intro x _
      by_cases hx : x ∈ iy
      · simp [hx, h.dxy x hx]
      · simp [hx]
    rw [e2]; exact List.filter_sublist
  · have e : iz = (List.range n).filter (fun x => decide (x ∈ iz)) := (sublist_eq_filter h.hz List.nodup_range).symm
    have e2 : iz = (((List.range n).filter fun i => !ix.contains i).filter fun i => !iy.contains i).filter (fun x => decide (x ∈ iz)) := by
      rw [List.filter_filter, List.filter_filter]
      conv_lhs => rw [e]
      apply List.filter_congr
      intro x _
      by_cases hx : x ∈ iz
      · simp [hx, h.dxz x hx, h.dyz x hx]
      · simp [hx]
    rw [e2]; exact List.filter_sublist

/-- the positions of X, Y, Z in the string of `triple ix iy iz` are `ix`, `iy`, `iz` -/
theorem positions_triple (n : Nat) (ix iy iz : List Nat) (h : TripleOk n ix iy iz) :
    (List.range n).filter (fun q => val (triple ix iy iz) q == 1) = ix
    ∧ (List.range n).filter (fun q => val (triple ix iy iz) q == 2) = iy
    ∧ (List.range n).filter (fun q => val (triple ix iy iz) q == 3) = iz := by
  refine ⟨?_, ?_, ?_⟩
  · conv_rhs => rw [← sublist_eq_filter h.hx List.nodup_range]
    apply List.filter_congr
    intro q _
    rw [val_triple]
    by_cases h1 : q ∈ ix <;> by_cases h2 : q ∈ iy <;> by_cases h3 : q ∈ iz <;> simp [h1, h2, h3]
  · conv_rhs => rw [← sublist_eq_filter h.hy List.nodup_range]
    apply List.filter_congr
    intro q _
    rw [val_triple]
    by_cases h2 : q ∈ iy
    · simp [h2, h.dxy q h2]
    · by_cases h1 : q ∈ ix <;> by_cases h3 : q ∈ iz <;> simp [h1, h2, h3]
  · conv_rhs => rw [← sublist_eq_filter h.hz List.nodup_range]
    apply List.filter_congr
    intro q _
    rw [val_triple]
    by_cases h3 : q ∈ iz
    · simp [h3, h.dxz q h3, h.dyz q h3]
    · by_cases h1 : q ∈ ix <;> by_cases h2 : q ∈ iy <;> simp [h1, h2, h3]

/-! ### counts -/

/-- number of symbols `c` in a string -/
def cnt (c : Nat) (s : List Nat) : Nat := s.countP (· == c)

theorem cnt_syms (n : Nat) (e : List (Nat × Nat)) (c : Nat) :
    cnt c (sparseToSyms n e) = ((List.range n).filter (fun q => val e q == c)).length := by
  rw [cnt, sparseToSyms_eq, List.countP_map, List.countP_eq_length_filter]; rfl

theorem asymCond_eq (d p q : Nat) (s : List Nat) :
    asymCond d p q s = ((cnt 1 s + cnt 2 s + cnt 3 s != 0) && decide ((cnt 1 s + cnt 2 s) * q + cnt 3 s * p < d * q)) := by
  have h12 : (s.filter fun x => x == 1 || x == 2).length = cnt 1 s + cnt 2 s := by
    unfold cnt
    induction s with
    | nil => rfl
    | cons a s ih =>
      simp only [List.filter_cons, List.countP_cons]
      by_cases h1 : a = 1
      · subst h1; simp [ih]; omega
      · by_cases h2 : a = 2
        · subst h2; simp [ih]; omega
        · simp [h1, h2, ih]
  have h3 : (s.filter (· == 3)).length = cnt 3 s := by
    rw [cnt, List.countP_eq_length_filter]
  simp only [asymCond, h12, h3]

/-! ### membership in `asymErrorSet` -/

theorem mem_asymErrorSetB (n d : Nat) (bound : Nat → Nat) (e : List (Nat × Nat)) :
    e ∈ asymErrorSetB n d bound ↔ ∃ ix iy iz : List Nat, TripleOk n ix iy iz ∧ e = triple ix iy iz
      ∧ ix.length + iy.length < min (n + 1) d
      ∧ iz.length < min (n - (ix.length + iy.length) + 1) (bound (ix.length + iy.length))
      ∧ ¬ (ix.length + iy.length = 0 ∧ iz.length = 0) := by
  unfold asymErrorSetB
  simp only [List.mem_flatMap, List.mem_range]
  constructor
  · rintro ⟨nxy, hnxy, nz, hnz, he⟩
    by_cases h0 : (nxy == 0 && nz == 0) = true
    · simp [h0] at he
    · simp only [h0, Bool.false_eq_true, if_false, List.mem_flatMap, List.mem_range, List.mem_map, mem_split3] at he
      obtain ⟨nx, hnx, ss, ⟨ix, iy, iz, rfl, hix, hiy, hiz⟩, rfl⟩ := he
      obtain ⟨hok, lx, ly, lz⟩ := tripleOk_of_combs n _ _ _ ix iy iz hix hiy hiz
      have hs : ix.length + iy.length = nxy := by omega
      refine ⟨ix, iy, iz, hok, rfl, by rw [hs]; exact hnxy, by rw [hs, lz]; exact hnz, ?_⟩
      rw [hs, lz]
      simpa using h0
  · rintro ⟨ix, iy, iz, hok, rfl, h1, h2, h3⟩
    refine ⟨ix.length + iy.length, h1, iz.length, h2, ?_⟩
    have h0 : ¬ ((ix.length + iy.length == 0 && iz.length == 0) = true) := by simpa using h3
    simp only [h0, Bool.false_eq_true, if_false, List.mem_flatMap, List.mem_range, List.mem_map, mem_split3]
    obtain ⟨cx, cy, cz⟩ := combs_of_tripleOk n ix iy iz hok
    refine ⟨ix.length, by omega, [ix, iy, iz], ⟨ix, iy, iz, rfl, cx, ?_, cz⟩, rfl⟩
    have : ix.length + iy.length - ix.length = iy.length := by omega
    rw [this]; exact cy

theorem mem_asymErrorSet (n d p q : Nat) (e : List (Nat × Nat)) :
    e ∈ asymErrorSet n d p q ↔ ∃ ix iy iz : List Nat, TripleOk n ix iy iz ∧ e = triple ix iy iz
      ∧ ix.length + iy.length < min (n + 1) d
      ∧ iz.length < min (n - (ix.length + iy.length) + 1) (ceilDiv ((d - (ix.length + iy.length)) * q) p)
      ∧ ¬ (ix.length + iy.length = 0 ∧ iz.length = 0) :=
  mem_asymErrorSetB n d _ e

/-- counts of the string of `triple ix iy iz` -/
theorem cnt_triple (n : Nat) (ix iy iz : List Nat) (h : TripleOk n ix iy iz) :
    cnt 1 (sparseToSyms n (triple ix iy iz)) = ix.length ∧ cnt 2 (sparseToSyms n (triple ix iy iz)) = iy.length
    ∧ cnt 3 (sparseToSyms n (triple ix iy iz)) = iz.length := by
  obtain ⟨a, b, c⟩ := positions_triple n ix iy iz h
  simp only [cnt_syms, a, b, c, and_self]

theorem syms_triple_lt (n : Nat) (ix iy iz : List Nat) : ∀ x ∈ sparseToSyms n (triple ix iy iz), x < 4 := by
  intro x hx
  rw [sparseToSyms_eq, List.mem_map] at hx
  obtain ⟨q, _, rfl⟩ := hx
  rw [val_triple]
  split_ifs <;> omega

theorem bound_iff (n d p q nxy nz : Nat) (hp : 0 < p) (hn : nxy + nz ≤ n) :
    (nxy < min (n + 1) d ∧ nz < min (n - nxy + 1) (ceilDiv ((d - nxy) * q) p)) ↔ nxy * q + nz * p < d * q := by
  rw [Nat.lt_min, Nat.lt_min, ceilDiv_lt _ _ _ hp]
  constructor
  · rintro ⟨⟨_, h1⟩, _, h2⟩
    have : (d - nxy) * q = d * q - nxy * q := Nat.sub_mul d nxy q
    have h3 : nxy * q ≤ d * q := Nat.mul_le_mul_right q (by omega)
    omega
  · intro h
    have h1 : nxy < d := by
      by_contra hc
      have : d * q ≤ nxy * q := Nat.mul_le_mul_right q (by omega)
      omega
    have : (d - nxy) * q = d * q - nxy * q := Nat.sub_mul d nxy q
    exact ⟨⟨by omega, h1⟩, by omega, by omega⟩

/-- **soundness**: every generated string is a non-identity Pauli string with `n_x+n_y+(p/q) n_z < d` -/
theorem asym_sound (n d p q : Nat) (hp : 0 < p) (s : List Nat)
    (h : s ∈ (asymErrorSet n d p q).map (sparseToSyms n)) :
    s.length = n ∧ (∀ x ∈ s, x < 4) ∧ asymCond d p q s = true := by
  rw [List.mem_map] at h
  obtain ⟨e, he, rfl⟩ := h
  rw [mem_asymErrorSet] at he
  obtain ⟨ix, iy, iz, hok, rfl, h1, h2, h3⟩ := he
  obtain ⟨c1, c2, c3⟩ := cnt_triple n ix iy iz hok
  refine ⟨by simp [sparseToSyms_eq], syms_triple_lt n ix iy iz, ?_⟩
  rw [asymCond_eq, c1, c2, c3]
  have hn : ix.length + iy.length + iz.length ≤ n := by
    rw [Nat.lt_min] at h1 h2; omega
  have := (bound_iff n d p q _ _ hp hn).1 ⟨h1, h2⟩
  simp only [Bool.and_eq_true, bne_iff_ne, ne_eq, decide_eq_true_eq]
  exact ⟨by omega, this⟩

theorem three_filters_le (l : List Nat) (f : Nat → Nat) :
    (l.filter (fun q => f q == 1)).length + (l.filter (fun q => f q == 2)).length + (l.filter (fun q => f q == 3)).length
      ≤ l.length := by
  induction l with
  | nil => simp
  | cons a l ih =>
    simp only [List.filter_cons, List.length_cons]
    by_cases h1 : f a = 1
    · simp [h1]; omega
    · by_cases h2 : f a = 2
      · simp [h2]; omega
      · by_cases h3 : f a = 3
        · simp [h3]; omega
        · simp [h1, h2, h3]; omega

/-- **completeness**: every non-identity Pauli string with `n_x+n_y+(p/q) n_z < d` is generated -/
theorem asym_complete (n d p q : Nat) (hp : 0 < p) (s : List Nat) (hl : s.length = n) (h4 : ∀ x ∈ s, x < 4)
    (hc : asymCond d p q s = true) : s ∈ (asymErrorSet n d p q).map (sparseToSyms n) := by
  subst hl
  set f : Nat → Nat := fun q => s.getD q 0 with hf
  have hsf : s = (List.range s.length).map f := list_eq_map_getD s
  set ix := (List.range s.length).filter (fun q => f q == 1) with hix
  set iy := (List.range s.length).filter (fun q => f q == 2) with hiy
  set iz := (List.range s.length).filter (fun q => f q == 3) with hiz
  have hok : TripleOk s.length ix iy iz := by
    refine ⟨List.filter_sublist, List.filter_sublist, List.filter_sublist, ?_, ?_, ?_⟩ <;>
    · intro i hi hi'
      simp only [hix, hiy, hiz, List.mem_filter, beq_iff_eq] at hi hi'
      omega
  have hcnt : ∀ c, cnt c s = ((List.range s.length).filter (fun q => f q == c)).length := by
    intro c
    conv_lhs => rw [hsf]
    rw [cnt, List.countP_map, List.countP_eq_length_filter]; rfl
  have hflt : ∀ q, q < s.length → f q < 4 := by
    intro q hq
    simp only [hf, List.getD_eq_getElem?_getD, List.getElem?_eq_getElem hq, Option.getD_some]
    exact h4 _ (List.getElem_mem hq)
  rw [List.mem_map]
  refine ⟨triple ix iy iz, ?_, ?_⟩
  · rw [mem_asymErrorSet]
    rw [asymCond_eq, hcnt 1, hcnt 2, hcnt 3] at hc
    simp only [Bool.and_eq_true, bne_iff_ne, ne_eq, decide_eq_true_eq] at hc
    rw [← hix, ← hiy, ← hiz] at hc
    have hn := three_filters_le (List.range s.length) f
    rw [List.length_range, ← hix, ← hiy, ← hiz] at hn
    have hb := (bound_iff s.length d p q (ix.length + iy.length) iz.length hp (by omega)).2 hc.2
    exact ⟨ix, iy, iz, hok, rfl, hb.1, hb.2, by omega⟩
  · rw [sparseToSyms_eq]
    conv_rhs => rw [hsf]
    apply List.map_congr_left
    intro q hq
    rw [List.mem_range] at hq
    rw [val_triple]
    have := hflt q hq
    simp only [hix, hiy, hiz, List.mem_filter, List.mem_range, hq, true_and, beq_iff_eq]
    split_ifs <;> omega

/-- **exact characterisation for an arbitrary bound**: a string is generated iff it is a non-identity Pauli
string with `n_x + n_y < d` and `n_z < bound (n_x + n_y)`. -/
theorem mem_asymB_strings (n d : Nat) (bound : Nat → Nat) (s : List Nat) :
    s ∈ (asymErrorSetB n d bound).map (sparseToSyms n) ↔
      s.length = n ∧ (∀ x ∈ s, x < 4) ∧ cnt 1 s + cnt 2 s + cnt 3 s ≠ 0
        ∧ cnt 1 s + cnt 2 s < d ∧ cnt 3 s < bound (cnt 1 s + cnt 2 s) := by
  constructor
  · intro h
    rw [List.mem_map] at h
    obtain ⟨e, he, rfl⟩ := h
    rw [mem_asymErrorSetB] at he
    obtain ⟨ix, iy, iz, hok, rfl, h1, h2, h3⟩ := he
    obtain ⟨c1, c2, c3⟩ := cnt_triple n ix iy iz hok
    rw [c1, c2, c3]
    rw [Nat.lt_min] at h1 h2
    exact ⟨by simp [sparseToSyms_eq], syms_triple_lt n ix iy iz, by omega, h1.2, h2.2⟩
  · rintro ⟨hl, h4, hne, hd, hb⟩
    subst hl
    set f : Nat → Nat := fun q => s.getD q 0 with hf
    have hsf : s = (List.range s.length).map f := list_eq_map_getD s
    set ix := (List.range s.length).filter (fun q => f q == 1) with hix
    set iy := (List.range s.length).filter (fun q => f q == 2) with hiy
    set iz := (List.range s.length).filter (fun q => f q == 3) with hiz
    have hok : TripleOk s.length ix iy iz := by
      refine ⟨List.filter_sublist, List.filter_sublist, List.filter_sublist, ?_, ?_, ?_⟩ <;>
      · intro i hi hi'
        simp only [hix, hiy, hiz, List.mem_filter, beq_iff_eq] at hi hi'
        omega
    have hcnt : ∀ c, cnt c s = ((List.range s.length).filter (fun q => f q == c)).length := by
      intro c
      conv_lhs => rw [hsf]
      rw [cnt, List.countP_map, List.countP_eq_length_filter]; rfl
    have hflt : ∀ q, q < s.length → f q < 4 := by
      intro q hq
      simp only [hf, List.getD_eq_getElem?_getD, List.getElem?_eq_getElem hq, Option.getD_some]
      exact h4 _ (List.getElem_mem hq)
    simp only [hcnt 1, hcnt 2, hcnt 3] at hne hd hb
    rw [← hix, ← hiy] at hd
    rw [← hix, ← hiy, ← hiz] at hne hb
    rw [List.mem_map]
    refine ⟨triple ix iy iz, ?_, ?_⟩
    · rw [mem_asymErrorSetB]
      have hn := three_filters_le (List.range s.length) f
      rw [List.length_range, ← hix, ← hiy, ← hiz] at hn
      refine ⟨ix, iy, iz, hok, rfl, ?_, ?_, by omega⟩
      · rw [Nat.lt_min]; exact ⟨by omega, hd⟩
      · rw [Nat.lt_min]; exact ⟨by omega, hb⟩
    · rw [sparseToSyms_eq]
      conv_rhs => rw [hsf]
      apply List.map_congr_left
      intro q hq
      rw [List.mem_range] at hq
      rw [val_triple]
      have := hflt q hq
      simp only [hix, hiy, hiz, List.mem_filter, List.mem_range, hq, true_and, beq_iff_eq]
      split_ifs <;> omega

/-! ### no duplicates -/

theorem nodup_flatMap_key {α β : Type} (l : List α) (F : α → List β) (key : β → α) (hl : l.Nodup)
    (hF : ∀ x ∈ l, (F x).Nodup) (hk : ∀ x ∈ l, ∀ y ∈ F x, key y = x) : (l.flatMap F).Nodup := by
  rw [List.nodup_flatMap]
  refine ⟨hF, hl.imp_of_mem ?_⟩
  intro a b ha hb hab
  simp only [Function.onFun, List.disjoint_left]
  intro y hya hyb
  exact hab ((hk a ha y hya).symm.trans (hk b hb y hyb))

theorem nodup_split (l : List Nat) (hl : l.Nodup) (counts : List Nat) : (split l counts).Nodup := by
  induction counts generalizing l with
  | nil => simp [split]
  | cons c rest ih =>
    simp only [split]
    apply nodup_flatMap_key _ _ (fun ss => ss.headD []) (nodup_combs l hl c)
    · intro s _
      exact (ih _ (hl.filter _)).map (fun x y h => by simpa using h)
    · intro s _ y hy
      rw [List.mem_map] at hy
      obtain ⟨r, _, rfl⟩ := hy
      rfl

theorem triple_fst (ix iy iz : List Nat) :
    ((triple ix iy iz).filter (fun p => p.2 == 1)).map (·.1) = ix
    ∧ ((triple ix iy iz).filter (fun p => p.2 == 2)).map (·.1) = iy
    ∧ ((triple ix iy iz).filter (fun p => p.2 == 3)).map (·.1) = iz := by
  simp [triple, List.filter_map, Function.comp_def]

theorem asymErrorSetB_raw_nodup (n d : Nat) (bound : Nat → Nat) : (asymErrorSetB n d bound).Nodup := by
  unfold asymErrorSetB
  -- keys: n_x + n_y, then n_z, then n_x, read off the (qubit, symbol) list
  apply nodup_flatMap_key _ _ (fun e => (e.filter fun pr => pr.2 == 1 || pr.2 == 2).length) List.nodup_range
  · intro nxy _
    apply nodup_flatMap_key _ _ (fun e => (e.filter fun pr => pr.2 == 3).length) List.nodup_range
    · intro nz _
      split
      · exact List.nodup_nil
      · apply nodup_flatMap_key _ _ (fun e => (e.filter fun pr => pr.2 == 1).length) List.nodup_range
        · intro nx _
          refine (nodup_split _ List.nodup_range _).map_on ?_
          intro ss hss ss' hss' h
          rw [mem_split3] at hss hss'
          obtain ⟨ix, iy, iz, rfl, _, _, _⟩ := hss
          obtain ⟨ix', iy', iz', rfl, _, _, _⟩ := hss'
          have h' : triple ix iy iz = triple ix' iy' iz' := h
          obtain ⟨a1, a2, a3⟩ := triple_fst ix iy iz
          obtain ⟨b1, b2, b3⟩ := triple_fst ix' iy' iz'
          rw [h'] at a1 a2 a3
          rw [← a1, ← a2, ← a3, b1, b2, b3]
        · intro nx hnx e he
          rw [List.mem_map] at he
          obtain ⟨ss, hss, rfl⟩ := he
          rw [mem_split3] at hss
          obtain ⟨ix, iy, iz, rfl, hix, _, _⟩ := hss
          rw [mem_combs] at hix
          have := (triple_fst ix iy iz).1
          have hl := congrArg List.length this
          rw [List.length_map] at hl
          show ((triple ix iy iz).filter fun pr => pr.2 == 1).length = nx
          rw [hl, hix.2]
    · intro nz _ e he
      split at he
      · simp at he
      · simp only [List.mem_flatMap, List.mem_map, mem_split3] at he
        obtain ⟨nx, _, ss, ⟨ix, iy, iz, rfl, _, _, hiz⟩, rfl⟩ := he
        rw [mem_combs] at hiz
        have := (triple_fst ix iy iz).2.2
        have hl := congrArg List.length this
        rw [List.length_map] at hl
        show ((triple ix iy iz).filter fun pr => pr.2 == 3).length = nz
        rw [hl, hiz.2]
  · intro nxy _ e he
    simp only [List.mem_flatMap, List.mem_range] at he
    obtain ⟨nz, _, he⟩ := he
    split at he
    · simp at he
    · simp only [List.mem_flatMap, List.mem_range, List.mem_map, mem_split3] at he
      obtain ⟨nx, hnx, ss, ⟨ix, iy, iz, rfl, hix, hiy, _⟩, rfl⟩ := he
      rw [mem_combs] at hix hiy
      show ((triple ix iy iz).filter fun pr => pr.2 == 1 || pr.2 == 2).length = nxy
      have : ((triple ix iy iz).filter fun pr => pr.2 == 1 || pr.2 == 2).length = ix.length + iy.length := by
        simp [triple, List.filter_map, Function.comp_def]
      rw [this, hix.2, hiy.2]; omega

/-- **no duplicates**: no string is generated twice (whatever the bound on the number of Z's) -/
theorem asymB_nodup (n d : Nat) (bound : Nat → Nat) : ((asymErrorSetB n d bound).map (sparseToSyms n)).Nodup := by
  refine (asymErrorSetB_raw_nodup n d bound).map_on ?_
  intro e he e' he' h
  rw [mem_asymErrorSetB] at he he'
  obtain ⟨ix, iy, iz, hok, rfl, _, _, _⟩ := he
  obtain ⟨ix', iy', iz', hok', rfl, _, _, _⟩ := he'
  rw [sparseToSyms_eq, sparseToSyms_eq] at h
  have hv : ∀ q, q ∈ List.range n → val (triple ix iy iz) q = val (triple ix' iy' iz') q :=
    fun q hq => List.map_inj_left.1 h q hq
  obtain ⟨a1, a2, a3⟩ := positions_triple n ix iy iz hok
  obtain ⟨b1, b2, b3⟩ := positions_triple n ix' iy' iz' hok'
  have e1 : ix = ix' := by
    rw [← a1, ← b1]; apply List.filter_congr; intro q hq; rw [hv q hq]
  have e2 : iy = iy' := by
    rw [← a2, ← b2]; apply List.filter_congr; intro q hq; rw [hv q hq]
  have e3 : iz = iz' := by
    rw [← a3, ← b3]; apply List.filter_congr; intro q hq; rw [hv q hq]
  rw [e1, e2, e3]

theorem asym_nodup (n d p q : Nat) : ((asymErrorSet n d p q).map (sparseToSyms n)).Nodup :=
  asymB_nodup n d _

end Numqi.Qec
