/- Round 6 (C01): SeparableDensityMatrix — unit trace and positive semidefiniteness of a convex mixture of product projectors. -/
import NumqiProofs.ManifoldSym
namespace Numqi.Manifold
open Finset

theorem mixture_trace {ι κ : Type} [Fintype ι] [Fintype κ] (n : Nat) (p : Fin n → ℂ) (A : Fin n → ι → ℂ) (B : Fin n → κ → ℂ)
    (hA : ∀ k, ∑ i, A k i * star (A k i) = 1) (hB : ∀ k, ∑ j, B k j * star (B k j) = 1) (hp : ∑ k, p k = 1) :
    ∑ i, ∑ j, ∑ k, p k * (A k i * star (A k i)) * (B k j * star (B k j)) = 1 := by
  calc ∑ i, ∑ j, ∑ k, p k * (A k i * star (A k i)) * (B k j * star (B k j))
      = ∑ i, ∑ k, ∑ j, p k * (A k i * star (A k i)) * (B k j * star (B k j)) := Finset.sum_congr rfl (fun i _ => Finset.sum_comm)
    _ = ∑ k, ∑ i, ∑ j, p k * (A k i * star (A k i)) * (B k j * star (B k j)) := Finset.sum_comm
    _ = ∑ k, p k := by
        refine Finset.sum_congr rfl (fun k _ => ?_)
        have : ∀ i, ∑ j, p k * (A k i * star (A k i)) * (B k j * star (B k j)) = p k * (A k i * star (A k i)) := by
          intro i; rw [← Finset.mul_sum, hB k, mul_one]
        simp only [this]
        rw [← Finset.mul_sum, hA k, mul_one]
    _ = 1 := hp

theorem mixture_quadratic {ι : Type} [Fintype ι] (n : Nat) (p : Fin n → ℂ) (A : Fin n → ι → ℂ) (v : ι → ℂ) :
    ∑ x, ∑ y, star (v x) * (∑ k, p k * (A k x * star (A k y))) * v y
      = ∑ k, p k * ((∑ x, star (v x) * A k x) * star (∑ x, star (v x) * A k x)) := by
  have hs : ∀ k, star (∑ x, star (v x) * A k x) = ∑ y, v y * star (A k y) := by
    intro k; simp [star_sum]
  calc ∑ x, ∑ y, star (v x) * (∑ k, p k * (A k x * star (A k y))) * v y
      = ∑ x, ∑ y, ∑ k, p k * ((star (v x) * A k x) * (v y * star (A k y))) := by
        refine Finset.sum_congr rfl (fun x _ => Finset.sum_congr rfl (fun y _ => ?_))
        rw [Finset.mul_sum, Finset.sum_mul]
        refine Finset.sum_congr rfl (fun k _ => ?_); ring
    _ = ∑ x, ∑ k, ∑ y, p k * ((star (v x) * A k x) * (v y * star (A k y))) := Finset.sum_congr rfl (fun x _ => Finset.sum_comm)
    _ = ∑ k, ∑ x, ∑ y, p k * ((star (v x) * A k x) * (v y * star (A k y))) := Finset.sum_comm
    _ = _ := by
        refine Finset.sum_congr rfl (fun k _ => ?_)
        rw [hs k, Finset.sum_mul_sum, Finset.mul_sum]
        refine Finset.sum_congr rfl (fun x _ => ?_)
        rw [Finset.mul_sum]

/-- `SeparableDensityMatrix()`: unit trace when the weights sum to one and every `a_k`, `b_k` is a unit vector -/
theorem separableDM_trace (n dA dB : Nat) (p : Nat → ℂ) (a b : NMat ℂ)
    (hA : ∀ k, k < n → ∑ i : Fin dA, a.get k i.val * star (a.get k i.val) = 1)
    (hB : ∀ k, k < n → ∑ j : Fin dB, b.get k j.val * star (b.get k j.val) = 1)
    (hp : ∑ k : Fin n, p k.val = 1) :
    ∑ i : Fin dA, ∑ j : Fin dB, separableDM n p a b i.val j.val i.val j.val = 1 := by
  have e : ∀ (i : Fin dA) (j : Fin dB), separableDM n p a b i.val j.val i.val j.val
      = ∑ k : Fin n, p k.val * (a.get k.val i * star (a.get k.val i)) * (b.get k.val j * star (b.get k.val j)) := by
    intro i j
    simp only [separableDM, sumK_eq, CxOps.conj]
    refine Finset.sum_congr rfl (fun k _ => ?_)
    simp only [Complex.star_def]; ring
  have key := mixture_trace (ι := Fin dA) (κ := Fin dB) n (fun k => p k.val) (fun k i => a.get k.val i.val) (fun k j => b.get k.val j.val)
    (fun k => hA k.val k.isLt) (fun k => hB k.val k.isLt) hp
  rw [← key]
  exact Finset.sum_congr rfl (fun i _ => Finset.sum_congr rfl (fun j _ => e i j))

/-- … and positive semidefinite: its quadratic form is `Σ_k p_k |⟨v, a_k ⊗ b_k⟩|²` -/
theorem separableDM_quadratic (n dA dB : Nat) (p : Nat → ℂ) (a b : NMat ℂ) (v : Fin dA × Fin dB → ℂ) :
    ∑ x : Fin dA × Fin dB, ∑ y : Fin dA × Fin dB, star (v x) * separableDM n p a b x.1.val x.2.val y.1.val y.2.val * v y
      = ∑ k : Fin n, p k.val * ((∑ x : Fin dA × Fin dB, star (v x) * (a.get k.val x.1.val * b.get k.val x.2.val))
          * star (∑ x : Fin dA × Fin dB, star (v x) * (a.get k.val x.1.val * b.get k.val x.2.val))) := by
  rw [← mixture_quadratic n (fun k => p k.val) (fun k (x : Fin dA × Fin dB) => a.get k.val x.1.val * b.get k.val x.2.val) v]
  refine Finset.sum_congr rfl (fun x _ => Finset.sum_congr rfl (fun y _ => ?_))
  congr 2
  simp only [separableDM, sumK_eq, CxOps.conj]
  refine Finset.sum_congr rfl (fun k _ => ?_)
  simp only [Complex.star_def, map_mul]; ring

theorem separableDM_quadratic_nonneg (n dA dB : Nat) (p : Nat → ℝ) (hp : ∀ k, 0 ≤ p k) (a b : NMat ℂ) (v : Fin dA × Fin dB → ℂ) :
    ∃ q : ℝ, 0 ≤ q ∧ ∑ x : Fin dA × Fin dB, ∑ y : Fin dA × Fin dB,
      star (v x) * separableDM n (fun k => ((p k : ℝ) : ℂ)) a b x.1.val x.2.val y.1.val y.2.val * v y = (q : ℂ) := by
  refine ⟨∑ k : Fin n, p k.val * Complex.normSq (∑ x : Fin dA × Fin dB, star (v x) * (a.get k.val x.1.val * b.get k.val x.2.val)), ?_, ?_⟩
  · exact Finset.sum_nonneg (fun k _ => mul_nonneg (hp _) (Complex.normSq_nonneg _))
  · rw [separableDM_quadratic]
    push_cast
    refine Finset.sum_congr rfl (fun k _ => ?_)
    rw [Complex.star_def, Complex.mul_conj]
/-- the composite that op `sepdm` executes (softmax weights, quotient-sphere vectors) has unit trace -/
theorem separable_composite_trace_one' (n dA dB : Nat) (hn : 0 < n) (tp : Nat → ℝ) (ta tb : Nat → Nat → ℝ)
    (hA : ∀ k, k < n → normSq (dA + dA) (ta k) ≠ 0) (hB : ∀ k, k < n → normSq (dB + dB) (tb k) ≠ 0) :
    ∑ i : Fin dA, ∑ j : Fin dB, separableDM n (fun k => ((softmaxVec n tp k : ℝ) : ℂ))
      (NMat.ofFn n dA fun k i => pairCx (K := ℂ) dA (sphereQuotientVec (dA + dA) (ta k)) i)
      (NMat.ofFn n dB fun k j => pairCx (K := ℂ) dB (sphereQuotientVec (dB + dB) (tb k)) j) i.val j.val i.val j.val = 1 := by
  apply separableDM_trace
  · intro k hk
    have : ∑ j ∈ range dA, Complex.normSq (pairCx (K := ℂ) dA (sphereQuotientVec (dA + dA) (ta k)) j) = 1 := by
      rw [pairCx_normSq]; exact sphereQuotient_normSq (dA + dA) (ta k) (hA k hk)
    rw [Finset.sum_range] at this
    have h2 : ∀ i : Fin dA, (NMat.ofFn n dA fun k i => pairCx (K := ℂ) dA (sphereQuotientVec (dA + dA) (ta k)) i).get k i.val
        = pairCx (K := ℂ) dA (sphereQuotientVec (dA + dA) (ta k)) i.val := fun i => NMat.get_ofFn _ _ _ hk i.isLt
    simp only [h2, Complex.star_def, Complex.mul_conj]
    exact_mod_cast this
  · intro k hk
    have : ∑ j ∈ range dB, Complex.normSq (pairCx (K := ℂ) dB (sphereQuotientVec (dB + dB) (tb k)) j) = 1 := by
      rw [pairCx_normSq]; exact sphereQuotient_normSq (dB + dB) (tb k) (hB k hk)
    rw [Finset.sum_range] at this
    have h2 : ∀ j : Fin dB, (NMat.ofFn n dB fun k j => pairCx (K := ℂ) dB (sphereQuotientVec (dB + dB) (tb k)) j).get k j.val
        = pairCx (K := ℂ) dB (sphereQuotientVec (dB + dB) (tb k)) j.val := fun j => NMat.get_ofFn _ _ _ hk j.isLt
    simp only [h2, Complex.star_def, Complex.mul_conj]
    exact_mod_cast this
  · have := softmax_sum' n tp hn
    rw [Finset.sum_range] at this
    exact_mod_cast this
end Numqi.Manifold
