/-
Helper lemmas for C15: de Moivre bridge — the literal phases `exp(-iMα)·exp(-iNγ)` of `get_su2_irrep` equal the half-angle
form `p̄^{j2}(pm)^i(pm̄)^k` used by `irrepCS`.
-/
import NumqiProofs.LieIrrep
import NumqiProofs.LieReal

set_option linter.unusedSectionVars false

namespace Numqi.Lie

/-- `cos θ + i sin θ` -/
noncomputable def cis (θ : ℝ) : Cx ℝ := ⟨Real.cos θ, Real.sin θ⟩

theorem cis_add (x y : ℝ) : cis (x + y) = cis x * cis y := by
  ext <;> simp [cis, Real.cos_add, Real.sin_add] <;> ring

theorem cis_zero : cis 0 = 1 := by ext <;> simp [cis]

theorem cis_conj (x : ℝ) : (cis x).conj = cis (-x) := by ext <;> simp [cis]

theorem cis_pow (x : ℝ) (n : ℕ) : cis x ^ n = cis (n * x) := by
  induction n with
  | zero => simp [cis_zero]
  | succ n ih => rw [pow_succ, ih, ← cis_add]; congr 1; push_cast; ring

/-- **the spin-j matrix with its literal phases is the half-angle form** (`su2IrrepG` is what the driver's `irrep` op runs at
`Float`; `irrepCS` is the constant of the `Sym^{j2}` theorems) -/
theorem su2IrrepG_eq_irrepCS (sq : ℕ → ℝ) (j2 : ℕ) (al be ga : ℝ) (i k : ℕ) (hi : i ≤ j2) (hk : k ≤ j2) :
    su2IrrepG sq (fun n : ℕ => (n : ℝ)) (1/2) j2 al be ga i k
      = irrepCS sq (fun n : ℕ => (n : ℝ)) j2 (Real.cos (1/2 * be)) (Real.sin (1/2 * be))
          (cis (1/2 * (al + ga))) (cis (1/2 * (al - ga))) i k := by
  unfold su2IrrepG irrepCS
  simp only [powG_eq_pow]
  have e1 : (⟨Trig.cos ((((j2 - i : ℕ) : ℝ) - 1/2 * (j2 : ℝ)) * al), -Trig.sin ((((j2 - i : ℕ) : ℝ) - 1/2 * (j2 : ℝ)) * al)⟩ : Cx ℝ)
      = cis (-((((j2 - i : ℕ) : ℝ) - 1/2 * (j2 : ℝ)) * al)) := by
    rw [← cis_conj]; rfl
  have e2 : (⟨Trig.cos ((((j2 - k : ℕ) : ℝ) - 1/2 * (j2 : ℝ)) * ga), -Trig.sin ((((j2 - k : ℕ) : ℝ) - 1/2 * (j2 : ℝ)) * ga)⟩ : Cx ℝ)
      = cis (-((((j2 - k : ℕ) : ℝ) - 1/2 * (j2 : ℝ)) * ga)) := by
    rw [← cis_conj]; rfl
  rw [e1, e2]
  have hph : (cis (1/2 * (al + ga))).conj ^ j2 * (cis (1/2 * (al + ga)) * cis (1/2 * (al - ga))) ^ i
        * (cis (1/2 * (al + ga)) * (cis (1/2 * (al - ga))).conj) ^ k
      = cis (-((((j2 - i : ℕ) : ℝ) - 1/2 * (j2 : ℝ)) * al)) * cis (-((((j2 - k : ℕ) : ℝ) - 1/2 * (j2 : ℝ)) * ga)) := by
    rw [cis_conj, cis_conj, ← cis_add, ← cis_add, cis_pow, cis_pow, cis_pow, ← cis_add, ← cis_add, ← cis_add]
    congr 1
    rw [Nat.cast_sub hi, Nat.cast_sub hk]
    ring
  rw [hph]
  show _ * Cx.smul (wignerDG sq _ j2 (Real.cos (1/2 * be)) (Real.sin (1/2 * be)) i k) _ = _
  ext <;> simp <;> ring

end Numqi.Lie
