/-
C07: a symplectic tableau preserves the symplectic form and acts bijectively on the n-qubit Pauli group.
-/
import NumqiProofs.CliffordGates
namespace Numqi.Clifford

/-- a symplectic tableau preserves the symplectic form -/
theorem form_preserved (t : Tab) (h : t.colSp = true) (v w : Nat) :
    (om t.n (matVec t.cols v (2 * t.n)) (matVec t.cols w (2 * t.n)) +
      om t.n (matVec t.cols w (2 * t.n)) (matVec t.cols v (2 * t.n))) % 2 = (om t.n v w + om t.n w v) % 2 := by
  have c1 := Fph_cocycle t h v w
  have c2 := Fph_cocycle t h w v
  rw [Nat.xor_comm w v] at c2
  omega

theorem shiftRight_pow_lt {j n : Nat} (hj : j < n) : 2 ^ j >>> n = 0 := by
  rw [Nat.shiftRight_eq_div_pow]; exact Nat.div_eq_of_lt (Nat.pow_lt_pow_right (by norm_num) hj)

/-- the form is non-degenerate on vectors below `4^n` -/
theorem eq_zero_of_form {n u : Nat} (hu : u < 4 ^ n) (h : ∀ w, (om n u w + om n w u) % 2 = 0) : u = 0 := by
  apply Nat.eq_of_testBit_eq; intro j
  rw [Nat.zero_testBit]
  rw [SpF2.four_pow] at hu
  by_cases hj : j < n
  · -- pair with e_{n+j}
    have := h (2 ^ (n + j))
    rw [om_pow_right] at this
    have h1 : ¬ (n + j < n ∧ u.testBit (n + (n + j)) = true) := by omega
    rw [if_neg h1] at this
    have h2 : om n (2 ^ (n + j)) u = if u.testBit j then 1 else 0 := by
      unfold om
      have : 2 ^ (n + j) >>> n = 2 ^ j := by
        rw [Nat.shiftRight_eq_div_pow, Nat.pow_add, Nat.mul_div_cancel_left _ (by positivity)]
      rw [this, cnt_pow_left]; simp [hj]
    rw [h2] at this
    cases hb : u.testBit j
    · rfl
    · rw [hb] at this; simp at this
  · by_cases hj2 : j < 2 * n
    · have := h (2 ^ (j - n))
      rw [om_pow_right] at this
      have h2 : om n (2 ^ (j - n)) u = 0 := by
        unfold om; rw [shiftRight_pow_lt (by omega), cnt_zero_left]
      have e : n + (j - n) = j := by omega
      rw [h2, e] at this
      cases hb : u.testBit j
      · rfl
      · have : j - n < n := by omega
        simp [hb, this] at *
    · exact SpF2.testBit_eq_false_of_lt hu (by omega)

theorem matVec_mod (cols : List Nat) (v m N : Nat) (hN : m ≤ N) : matVec cols (v % 2 ^ N) m = matVec cols v m := by
  induction m with
  | zero => rfl
  | succ m ih =>
    rw [matVec, matVec, ih (by omega), Nat.testBit_mod_two_pow]
    simp [show m < N by omega]

/-- **the tableau action is injective on `n`-qubit Paulis** (with `apply_hom`: a phase-exact automorphism, being an injective
endomorphism of a finite group) -/
theorem apply_injective (t : Tab) (h : t.colSp = true) (p q : PauliB) (hp : p.v < 4 ^ t.n) (hq : q.v < 4 ^ t.n)
    (he : applyOnPauli p t = applyOnPauli q t) : p = q := by
  have hv : matVec t.cols p.v (2 * t.n) = matVec t.cols q.v (2 * t.n) := by
    have := congrArg PauliB.v he; rwa [apply_v, apply_v] at this
  have hu : p.v ^^^ q.v < 4 ^ t.n := by rw [SpF2.four_pow] at *; exact SpF2.xor_lt hp hq
  have hz : matVec t.cols (p.v ^^^ q.v) (2 * t.n) = 0 := by rw [matVec_xor, hv, Nat.xor_self]
  have hw : p.v ^^^ q.v = 0 := by
    apply eq_zero_of_form hu
    intro w
    have := form_preserved t h (p.v ^^^ q.v) w
    rw [hz, om_zero_left, om_zero_right] at this
    omega
  have hpq : p.v = q.v := by
    have := congrArg (· ^^^ q.v) hw
    simp only [Nat.xor_assoc, Nat.xor_self, Nat.xor_zero, Nat.zero_xor] at this
    exact this
  apply PauliB.ext_ph hpq
  have h1 := apply_ph p t
  have h2 := apply_ph q t
  rw [he, hpq] at h1
  omega

theorem finite_paulis (N : Nat) : {p : PauliB | p.v < N}.Finite := by
  have hf : ((Set.univ : Set Bool) ×ˢ ((Set.univ : Set Bool) ×ˢ {v : Nat | v < N})).Finite :=
    Set.finite_univ.prod (Set.finite_univ.prod (Set.finite_lt_nat N))
  refine (hf.image (fun x : Bool × Bool × Nat => PauliB.mk x.1 x.2.1 x.2.2)).subset ?_
  rintro ⟨a, b, v⟩ hv
  exact ⟨(a, b, v), ⟨trivial, trivial, hv⟩, rfl⟩

/-- **a symplectic tableau with columns of the right length acts as a bijection (a phase-exact automorphism, by `apply_mulB`)
of the `n`-qubit Pauli group** -/
theorem apply_bijOn (t : Tab) (h : t.colSp = true) (hc : ∀ j, j < 2 * t.n → t.cols.getD j 0 < 4 ^ t.n) :
    Set.BijOn (fun p => applyOnPauli p t) {p : PauliB | p.v < 4 ^ t.n} {p : PauliB | p.v < 4 ^ t.n} := by
  have hmaps : Set.MapsTo (fun p => applyOnPauli p t) {p : PauliB | p.v < 4 ^ t.n} {p : PauliB | p.v < 4 ^ t.n} := by
    intro p _
    show (applyOnPauli p t).v < 4 ^ t.n
    rw [apply_v, SpF2.four_pow]
    exact matVec_lt (fun j hj => by rw [← SpF2.four_pow]; exact hc j hj) _
  exact ((finite_paulis (4 ^ t.n)).injOn_iff_bijOn_of_mapsTo hmaps).1
    (fun p hp q hq he => apply_injective t h p q hp hq he)

end Numqi.Clifford
