/-
C07: per-gate conjugation on an n-qubit register and the end-to-end theorem
(tableau answer = conjugation by the unitary of the exported circuit), for every n.
-/
import NumqiProofs.CliffordConj
namespace Numqi.Clifford
open Numqi Matrix
variable {R : Type} [CommRing R]

/-- the tableaux of the adjoint gates, as literals -/
def dagTable : GateKey → Tab
  | .X => ⟨1, 2, [1, 2]⟩ | .Y => ⟨1, 3, [1, 2]⟩ | .Z => ⟨1, 1, [1, 2]⟩ | .H => ⟨1, 0, [2, 1]⟩ | .S => ⟨1, 1, [3, 2]⟩
  | .CX => ⟨2, 0, [3, 2, 4, 12]⟩ | .CY => ⟨2, 0, [11, 6, 4, 12]⟩ | .CZ => ⟨2, 0, [9, 6, 4, 8]⟩

/-- `a + b·i ↦ a + b·I` -/
def gintTo (I : R) (z : GInt) : R := (z.re : R) + (z.im : R) * I

/-- a one-qubit gate matrix of the model (`GateKey.mat`, the integer form `√scale · G`) over `R` -/
def gateMat1 (I : R) (key : GateKey) : Matrix (Bits 1) (Bits 1) R :=
  fun a b => gintTo I (key.mat.get a.toNat b.toNat)

/-- the controlled gate as a two-qubit matrix (control = first qubit) -/
def ctrl2 (U : Matrix (Bits 1) (Bits 1) R) : Matrix (Bits 2) (Bits 2) R :=
  fun a b => if a 0 then (if b 0 then U (fun _ => a 1) (fun _ => b 1) else 0)
    else (if b 0 then 0 else if a 1 = b 1 then 1 else 0)

/-- images of the generators under the adjoint-gate tableaux (evaluated) -/
theorem genImages :
    applyOnPauli (gen 0) (dagTable .X) = ⟨false, false, 1⟩ ∧ applyOnPauli (gen 1) (dagTable .X) = ⟨true, false, 2⟩ ∧
    applyOnPauli (gen 0) (dagTable .Y) = ⟨true, false, 1⟩ ∧ applyOnPauli (gen 1) (dagTable .Y) = ⟨true, false, 2⟩ ∧
    applyOnPauli (gen 0) (dagTable .Z) = ⟨true, false, 1⟩ ∧ applyOnPauli (gen 1) (dagTable .Z) = ⟨false, false, 2⟩ ∧
    applyOnPauli (gen 0) (dagTable .H) = ⟨false, false, 2⟩ ∧ applyOnPauli (gen 1) (dagTable .H) = ⟨false, false, 1⟩ ∧
    applyOnPauli (gen 0) (dagTable .S) = ⟨true, true, 3⟩ ∧ applyOnPauli (gen 1) (dagTable .S) = ⟨false, false, 2⟩ := by
  decide

theorem genImages2 :
    applyOnPauli (gen 0) (dagTable .CX) = ⟨false, false, 3⟩ ∧ applyOnPauli (gen 1) (dagTable .CX) = ⟨false, false, 2⟩ ∧
    applyOnPauli (gen 2) (dagTable .CX) = ⟨false, false, 4⟩ ∧ applyOnPauli (gen 3) (dagTable .CX) = ⟨false, false, 12⟩ ∧
    applyOnPauli (gen 0) (dagTable .CY) = ⟨false, true, 11⟩ ∧ applyOnPauli (gen 1) (dagTable .CY) = ⟨false, false, 6⟩ ∧
    applyOnPauli (gen 2) (dagTable .CY) = ⟨false, false, 4⟩ ∧ applyOnPauli (gen 3) (dagTable .CY) = ⟨false, false, 12⟩ ∧
    applyOnPauli (gen 0) (dagTable .CZ) = ⟨false, false, 9⟩ ∧ applyOnPauli (gen 1) (dagTable .CZ) = ⟨false, false, 6⟩ ∧
    applyOnPauli (gen 2) (dagTable .CZ) = ⟨false, false, 4⟩ ∧ applyOnPauli (gen 3) (dagTable .CZ) = ⟨false, false, 8⟩ := by
  decide

set_option hygiene false in
/-- closes an entrywise intertwining goal of a one-qubit gate (expects `hI : I * I = -1` in the context) -/
macro "local1_tac" : tactic =>
  `(tactic| (
    ext x y
    rw [PM_mul_apply hI, mul_PM_apply hI]
    simp only [gateMat1, Bits.dotN_eq_sum, Fin.sum_univ_one, toPauli, Pauli.phaseExp, gen, Bits.xor, Bits.toNat]
    have h2 : I ^ 2 = -1 := by rw [pow_two, hI]
    rcases Bool.eq_false_or_eq_true (x 0) with h | h <;> rcases Bool.eq_false_or_eq_true (y 0) with h' | h' <;>
      simp [h, h', Mat.get, GateKey.mat, gintTo, Nat.testBit_eq_decide_div_mod_eq, h2, pow_succ, hI]))

theorem local1 {I : R} (hI : I * I = -1) (key : GateKey) (hk : key.arity = 1) (b : Nat) (hb : b < 2) :
    PM 1 I (gen b) * gateMat1 I key = gateMat1 I key * PM 1 I (applyOnPauli (gen b) (dagTable key)) := by
  obtain ⟨x0, x1, y0, y1, z0, z1, h0, h1, s0, s1⟩ := genImages
  cases key <;> simp [GateKey.arity] at hk <;> interval_cases b
  · rw [x0]; local1_tac
  · rw [x1]; local1_tac
  · rw [y0]; local1_tac
  · rw [y1]; local1_tac
  · rw [z0]; local1_tac
  · rw [z1]; local1_tac
  · rw [h0]; local1_tac
  · rw [h1]; local1_tac
  · rw [s0]; local1_tac
  · rw [s1]; local1_tac

set_option hygiene false in
/-- closes an entrywise intertwining goal of a controlled gate on two qubits -/
macro "local2_tac" : tactic =>
  `(tactic| (
    ext x y
    rw [PM_mul_apply hI, mul_PM_apply hI]
    simp only [ctrl2, gateMat1, Bits.dotN_eq_sum, Fin.sum_univ_two, toPauli, Pauli.phaseExp, gen, Bits.xor, Bits.toNat,
      GateKey.base]
    have h2 : I ^ 2 = -1 := by rw [pow_two, hI]
    rcases Bool.eq_false_or_eq_true (x 0) with h | h <;> rcases Bool.eq_false_or_eq_true (x 1) with k | k <;>
      rcases Bool.eq_false_or_eq_true (y 0) with h' | h' <;> rcases Bool.eq_false_or_eq_true (y 1) with k' | k' <;>
      simp [h, h', k, k', Mat.get, GateKey.mat, gintTo, Nat.testBit_eq_decide_div_mod_eq, h2, pow_succ, hI]))

theorem local2 {I : R} (hI : I * I = -1) (key : GateKey) (hk : key.arity = 2) (b : Nat) (hb : b < 4) :
    PM 2 I (gen b) * ctrl2 (gateMat1 I key.base) =
      ctrl2 (gateMat1 I key.base) * PM 2 I (applyOnPauli (gen b) (dagTable key)) := by
  obtain ⟨x0, x1, x2, x3, y0, y1, y2, y3, z0, z1, z2, z3⟩ := genImages2
  cases key <;> simp [GateKey.arity] at hk <;> interval_cases b
  · rw [x0]; local2_tac
  · rw [x1]; local2_tac
  · rw [x2]; local2_tac
  · rw [x3]; local2_tac
  · rw [y0]; local2_tac
  · rw [y1]; local2_tac
  · rw [y2]; local2_tac
  · rw [y3]; local2_tac
  · rw [z0]; local2_tac
  · rw [z1]; local2_tac
  · rw [z2]; local2_tac
  · rw [z3]; local2_tac

/-! ### one placed gate: the embedded adjoint tableau is conjugation by the embedded gate -/

theorem cnt_pow_self (n j : Nat) : cnt n (2 ^ j) (2 ^ j >>> n) = 0 := by
  rw [cnt_pow_left]
  by_cases h : j < n
  · have : (2 ^ j >>> n).testBit j = false := by
      rw [Nat.testBit_shiftRight, Nat.testBit_two_pow]; simp; omega
    simp [this]
  · simp [h]

theorem place_pow {n : Nat} {qs : List Nat} {b : Nat} (hb : b < 2 * qs.length) :
    place n qs (2 ^ b) = 2 ^ idx n qs b := by
  unfold place
  rw [matVec_pow, index_length, if_pos hb, unit_getD n qs b hb]

theorem inter_of_gens_n {n : Nat} {I : R} (hI : I * I = -1) (T : Tab) (hTn : T.n = n) (hT : T.colSp = true)
    (E : Matrix (Bits n) (Bits n) R)
    (hgen : ∀ k, k < 2 * n → PM n I (gen k) * E = E * PM n I (applyOnPauli (gen k) T)) :
    ∀ p : PauliB, p.v < 4 ^ n → PM n I p * E = E * PM n I (applyOnPauli p T) := by
  subst hTn; exact inter_of_gens hI T hT E hgen

theorem inter_of_gens_n' {n : Nat} {I : R} (hI : I * I = -1) (T : Tab) (hTn : T.n = n) (hT : T.colSp = true)
    (E : Matrix (Bits n) (Bits n) R)
    (hgen : ∀ k, k < 2 * n → E * PM n I (gen k) = PM n I (applyOnPauli (gen k) T) * E) :
    ∀ p : PauliB, p.v < 4 ^ n → E * PM n I p = PM n I (applyOnPauli p T) * E := by
  subst hTn; exact inter_of_gens' hI T hT E hgen

section gate
variable {n : Nat} {qs : List Nat} (hv : ValidQs n qs)
  (t : Fin qs.length → Fin n) (ht : ∀ b, (t b).val = qs.getD b.val 0)
include hv ht

/-- **Placed gate.**  If the local operator `G` intertwines the `2k` local generators with their images under the local
tableau `loc`, then `G` on the qubits `qs` of an `n`-qubit register intertwines *every* `n`-qubit phased Pauli `P` with
`applyOnPauli P (embed n loc qs)`:  `P · embed(G) = embed(G) · apply(P)`. -/
theorem placed_gate_inter {I : R} (hI : I * I = -1) (loc : Tab) (hk : loc.n = qs.length) (hloc : loc.colSp = true)
    (G : Matrix (Bits qs.length) (Bits qs.length) R)
    (hlocal : ∀ b, b < 2 * qs.length →
      PM qs.length I (gen b) * G = G * PM qs.length I (applyOnPauli (gen b) loc))
    (p : PauliB) (hp : p.v < 4 ^ n) :
    PM n I p * Matrix.of (Numqi.embed G t) =
      Matrix.of (Numqi.embed G t) * PM n I (applyOnPauli p (Clifford.embed n loc qs)) := by
  have hinj := t_inj hv t ht
  have hT : (Clifford.embed n loc qs).colSp = true := embed_colSp hv loc hk hloc
  have hTn : (Clifford.embed n loc qs).n = n := rfl
  refine inter_of_gens_n (n := n) hI (Clifford.embed n loc qs) hTn hT (Matrix.of (Numqi.embed G t)) ?_ p hp
  intro kg hkg
  have hkg' : kg < 2 * n := hkg
  rw [apply_gen _ kg (by rw [hTn]; exact hkg)]
  have hr : (Clifford.embed n loc qs).r = place n qs loc.r := rfl
  cases hpos : pos n qs kg with
  | some b =>
    obtain ⟨hb, hidx⟩ := pos_some hpos
    have hcol : (Clifford.embed n loc qs).cols.getD kg 0 = place n qs (loc.cols.getD b 0) := by
      rw [embed_getD n loc qs hkg', hpos]
    have hd : (Clifford.embed n loc qs).d kg = loc.d b := by
      simp only [Tab.d, hcol, hk]
      exact cnt_place hv t ht _
    have hrb : (Clifford.embed n loc qs).r.testBit kg = loc.r.testBit b := by
      rw [hr, ← hidx]; exact testBit_place_idx hv loc.r hb
    have himg : genImage (Clifford.embed n loc qs) kg =
        ⟨(genImage loc b).s0, (genImage loc b).s1, place n qs (genImage loc b).v⟩ := by
      simp only [genImage, hd, hrb, hcol]
    have hgen : gen kg = ⟨(gen b).s0, (gen b).s1, place n qs (gen b).v⟩ := by
      simp only [gen]; rw [place_pow hb, hidx]
    rw [himg, hgen]
    rw [PM_place hv t ht hI (gen b), PM_place hv t ht hI (genImage loc b), ← C03.embed_mul hinj,
      ← C03.embed_mul hinj, ← apply_gen loc b (by rw [hk]; exact hb), hlocal b hb]
  | none =>
    have hnone := pos_none hpos
    have hcol : (Clifford.embed n loc qs).cols.getD kg 0 = 2 ^ kg := by
      rw [embed_getD n loc qs hkg', hpos]
    have hd : (Clifford.embed n loc qs).d kg = 0 := by
      simp only [Tab.d, hcol]; exact cnt_pow_self n kg
    have hrb : (Clifford.embed n loc qs).r.testBit kg = false := by
      rw [hr]; exact testBit_place_out hv loc.r hnone
    have himg : genImage (Clifford.embed n loc qs) kg = gen kg := by
      simp only [genImage, hd, hrb, hcol, gen]; rfl
    rw [himg]
    apply PM_comm_embed t hI
    · intro b
      simp only [toPauli, gen, Nat.testBit_two_pow]
      have := hnone b.val (by have := b.isLt; omega)
      rw [t_idx_low hv t ht b] at this
      simpa using Ne.symm this
    · intro b
      simp only [toPauli, gen, Nat.testBit_two_pow]
      have := hnone (b.val + qs.length) (by have := b.isLt; omega)
      rw [t_idx_high hv t ht b] at this
      simpa using Ne.symm this

end gate

/-- a controlled one-qubit gate (one control) is the two-qubit matrix `ctrl2 U` embedded on `(control, target)` -/
theorem ctrlEmbed_eq_embed {n : Nat} (U : Matrix (Bits 1) (Bits 1) R) (c tg : Fin n) (hct : c ≠ tg)
    (isCtrl : Fin n → Bool) (hc : ∀ i, isCtrl i = true ↔ i = c) (tt : Fin 1 → Fin n) (htt : tt 0 = tg)
    (t : Fin 2 → Fin n) (ht0 : t 0 = c) (ht1 : t 1 = tg) :
    (Matrix.of (ctrlEmbed U isCtrl tt) : Matrix (Bits n) (Bits n) R) = Matrix.of (Numqi.embed (ctrl2 U) t) := by
  ext x x'
  simp only [Matrix.of_apply, ctrlEmbed, Numqi.embed, ctrl2, Bits.sel, ht0, ht1]
  have hon : ctrlOn isCtrl x = true ↔ x c = true := by
    rw [ctrlOn_iff]
    constructor
    · intro h; exact h c ((hc c).2 rfl)
    · intro h i hi; rw [(hc i).1 hi]; exact h
  have hsel : ∀ y : Bits n, y.sel tt = fun _ => y tg := by
    intro y; funext j; simp only [Bits.sel]; rw [Fin.fin_one_eq_zero j, htt]
  -- agreement off {c, tg} and off {tg}
  have hag2 : Bits.agreeOff x x' t = true ↔ ∀ i, i ≠ c → i ≠ tg → x i = x' i := by
    rw [Bits.agreeOff_iff]
    constructor
    · intro h i h1 h2
      apply h i
      intro j; fin_cases j
      · simpa [ht0] using Ne.symm h1
      · simpa [ht1] using Ne.symm h2
    · intro h i hi
      exact h i (fun e => hi 0 (by rw [ht0, e])) (fun e => hi 1 (by rw [ht1, e]))
  have hag1 : Bits.agreeOff x x' tt = true ↔ ∀ i, i ≠ tg → x i = x' i := by
    rw [Bits.agreeOff_iff]
    constructor
    · intro h i h1
      apply h i
      intro j; rw [Fin.fin_one_eq_zero j, htt]; exact Ne.symm h1
    · intro h i hi
      exact h i (fun e => hi 0 (by rw [htt, e]))
  by_cases hx : x c = true
  · rw [if_pos (hon.2 hx)]
    simp only [hx, if_true, hsel]
    by_cases h1 : Bits.agreeOff x x' tt = true
    · have hx' : x' c = true := by rw [← (hag1.1 h1) c hct]; exact hx
      have h2 : Bits.agreeOff x x' t = true := hag2.2 (fun i _ hi => hag1.1 h1 i hi)
      rw [if_pos h1, if_pos h2]; simp [hx', hsel]
    · rw [if_neg h1]
      by_cases h2 : Bits.agreeOff x x' t = true
      · rw [if_pos h2]
        have hx' : x' c = false := by
          by_contra hcc
          have hcc' : x' c = true := by simpa using hcc
          apply h1; rw [hag1]; intro i hi
          by_cases hic : i = c
          · rw [hic, hx, hcc']
          · exact hag2.1 h2 i hic hi
        simp [hx']
      · rw [if_neg h2]
  · have hx0 : x c = false := by simpa using hx
    rw [if_neg (fun h => hx (hon.1 h))]
    simp only [hx0, Bool.false_eq_true, if_false]
    by_cases he : x = x'
    · subst he
      simp [Bits.beq_iff, Bits.agreeOff_refl, hx0]
    · have hb : ¬ Bits.beq x x' = true := fun h => he ((Bits.beq_iff _ _).1 h)
      rw [if_neg hb]
      by_cases h2 : Bits.agreeOff x x' t = true
      · rw [if_pos h2]
        by_cases hx' : x' c = true
        · simp [hx']
        · have hx'0 : x' c = false := by simpa using hx'
          simp only [hx'0, Bool.false_eq_true, if_false]
          by_cases htg : x tg = x' tg
          · exfalso; apply he; funext i
            by_cases hic : i = c
            · rw [hic, hx0, hx'0]
            · by_cases hit : i = tg
              · rw [hit]; exact htg
              · exact hag2.1 h2 i hic hit
          · simp [htg]
      · rw [if_neg h2]


/-! ### the gates of a recorded circuit -/

theorem matVec_lt {cols : List Nat} {m N : Nat} (h : ∀ j, j < m → cols.getD j 0 < 2 ^ N) (v : Nat) :
    matVec cols v m < 2 ^ N := by
  induction m with
  | zero => simp [matVec]
  | succ m ih =>
    rw [matVec]
    refine SpF2.xor_lt (ih (fun j hj => h j (by omega))) ?_
    split
    · exact h m (by omega)
    · positivity

theorem place_lt {n : Nat} {qs : List Nat} (hv : ValidQs n qs) (w : Nat) : place n qs w < 2 ^ (2 * n) := by
  unfold place
  apply matVec_lt
  intro j hj
  rw [index_length] at hj
  rw [unit_getD n qs j hj]
  apply Nat.pow_lt_pow_right (by norm_num)
  by_cases h : j < qs.length
  · have := (idx_low hv h).2; omega
  · have := idx_high hv (a := j) (by omega) hj; omega

theorem embed_apply_lt {n : Nat} {qs : List Nat} (hv : ValidQs n qs) (loc : Tab) (p : PauliB) :
    (applyOnPauli p (Clifford.embed n loc qs)).v < 4 ^ n := by
  rw [apply_v, SpF2.four_pow]
  apply matVec_lt
  intro j hj
  have hj' : j < 2 * n := hj
  rw [embed_getD n loc qs hj']
  cases pos n qs j with
  | some b => exact place_lt hv _
  | none => exact Nat.pow_lt_pow_right (by norm_num) hj'

theorem dagTable_n (key : GateKey) : (dagTable key).n = key.arity := by cases key <;> rfl
theorem dagTable_colSp (key : GateKey) : (dagTable key).colSp = true := by cases key <;> decide

/-- `clifford_array_to_F2` run on the adjoint gate matrix returns the literal tableau -/
theorem basicDaggerF2_dagTable (key : GateKey) : basicDaggerF2 key = some (dagTable key) := by
  cases key <;> decide +kernel

/-- the operator of a recorded gate on `n` qubits as `to_universal_circuit` exports it: `X, Y, Z, S` and `h·(√2·H)` as
one-qubit gates (`h` = the normalisation of `H`, `1/√2` over `ℂ`), `CX, CY, CZ` as `X, Y, Z` controlled by the first index -/
def gateMatrixN (I h : R) (n : Nat) (g : Gate) : Matrix (Bits n) (Bits n) R :=
  match g.idx with
  | [q] =>
    if hq : q < n then
      Matrix.of (Numqi.embed ((if g.key = .H then h else 1) • gateMat1 I g.key) (fun _ : Fin 1 => ⟨q, hq⟩))
    else 1
  | [q0, q1] =>
    if hq : q0 < n ∧ q1 < n then
      Matrix.of (ctrlEmbed (gateMat1 I g.key.base) (fun i : Fin n => decide (i.val = q0)) (fun _ : Fin 1 => ⟨q1, hq.2⟩))
    else 1
  | _ => 1

/-- **One placed gate**: for every gate of a well-formed record on `n` qubits and every phased Pauli `P`,
`P · G = G · Q` with `Q` the answer of the gate's embedded adjoint tableau (`gateAct`), phase included. -/
theorem gate_conjugation {I : R} (hI : I * I = -1) (h : R) (n : Nat) (g : Gate)
    (hlen : g.idx.length = g.key.arity) (hnd : g.idx.Nodup) (hlt : ∀ q ∈ g.idx, q < n)
    (p : PauliB) (hp : p.v < 4 ^ n) :
    PM n I p * gateMatrixN I h n g = gateMatrixN I h n g * PM n I (gateAct n p g) ∧ (gateAct n p g).v < 4 ^ n := by
  have hv : ValidQs n g.idx := ⟨hnd, hlt⟩
  simp only [gateAct, basicDaggerF2_dagTable]
  refine ⟨?_, embed_apply_lt hv _ p⟩
  obtain ⟨key, idx⟩ := g
  simp only at hlen hnd hlt hv ⊢
  have ha1 : key.arity ≥ 1 := by cases key <;> decide
  have ha2 : key.arity ≤ 2 := by cases key <;> decide
  rcases idx with _ | ⟨q0, _ | ⟨q1, _ | ⟨q2, rest⟩⟩⟩
  · simp at hlen; omega
  · have hq : q0 < n := hlt q0 (by simp)
    have hk : key.arity = 1 := by simpa using hlen.symm
    simp only [gateMatrixN, dif_pos hq]
    let t : Fin [q0].length → Fin n := fun _ => ⟨q0, hq⟩
    have ht : ∀ b : Fin [q0].length, (t b).val = [q0].getD b.val 0 := by
      intro b
      have : b.val = 0 := by have := b.isLt; simp at this; omega
      simp [t, this]
    exact placed_gate_inter hv t ht hI (dagTable key) (by rw [dagTable_n, hk]; rfl) (dagTable_colSp key)
      ((if key = .H then h else 1) • gateMat1 I key)
      (fun b hb => by
        have := local1 hI key hk b (by simpa using hb)
        show PM 1 I (gen b) * _ = _ * PM 1 I _
        rw [Matrix.mul_smul, Matrix.smul_mul, this]) p hp
  · have hq0 : q0 < n := hlt q0 (by simp)
    have hq1 : q1 < n := hlt q1 (by simp)
    have hne : q0 ≠ q1 := by
      intro e; subst e; simp at hnd
    have hk : key.arity = 2 := by simpa using hlen.symm
    simp only [gateMatrixN, dif_pos (And.intro hq0 hq1)]
    let t : Fin [q0, q1].length → Fin n := fun b => if b.val = 0 then ⟨q0, hq0⟩ else ⟨q1, hq1⟩
    have ht : ∀ b : Fin [q0, q1].length, (t b).val = [q0, q1].getD b.val 0 := by
      intro b
      have hb : b.val = 0 ∨ b.val = 1 := by have := b.isLt; simp at this; omega
      rcases hb with hb | hb
      · simp only [t, hb, if_true]; rfl
      · simp only [t, hb]; rfl
    rw [ctrlEmbed_eq_embed (gateMat1 I key.base) ⟨q0, hq0⟩ ⟨q1, hq1⟩ (fun e => hne (by simpa using congrArg Fin.val e))
      (fun i : Fin n => decide (i.val = q0)) (fun i => by simp [Fin.ext_iff]) (fun _ => ⟨q1, hq1⟩) rfl t rfl rfl]
    exact placed_gate_inter hv t ht hI (dagTable key) (by rw [dagTable_n, hk]; rfl) (dagTable_colSp key)
      (ctrl2 (gateMat1 I key.base)) (fun b hb => local2 hI key hk b (by simpa using hb)) p hp
  · simp at hlen; omega

/-! ### whole circuits -/

/-- the unitary of the exported universal circuit: product of the gate operators, last gate leftmost
(`C03.circuitMatrix` of the exported gate list, see `circuitUnitary_eq_circuitMatrix`) -/
def circuitUnitary (I h : R) (n : Nat) (gates : List Gate) : Matrix (Bits n) (Bits n) R :=
  ((gates.map (gateMatrixN I h n)).reverse).prod

theorem circuitUnitary_cons (I h : R) (n : Nat) (g : Gate) (gates : List Gate) :
    circuitUnitary I h n (g :: gates) = circuitUnitary I h n gates * gateMatrixN I h n g := by
  simp [circuitUnitary]

/-- sequential gate action is conjugation by the circuit unitary -/
theorem seq_conjugation {I : R} (hI : I * I = -1) (h : R) (n : Nat) (gates : List Gate)
    (hwf : GatesWF gates) (hlt : ∀ g ∈ gates, ∀ q ∈ g.idx, q < n) (p : PauliB) (hp : p.v < 4 ^ n) :
    PM n I p * circuitUnitary I h n gates =
        circuitUnitary I h n gates * PM n I (gates.reverse.foldl (gateAct n) p) ∧
      (gates.reverse.foldl (gateAct n) p).v < 4 ^ n := by
  induction gates with
  | nil => simp [circuitUnitary, hp]
  | cons g gates ih =>
    obtain ⟨ih1, ih2⟩ := ih (fun g' hg' => hwf g' (List.mem_cons_of_mem _ hg'))
      (fun g' hg' => hlt g' (List.mem_cons_of_mem _ hg'))
    obtain ⟨w1, w2⟩ := hwf g List.mem_cons_self
    obtain ⟨hg1, hg2⟩ := gate_conjugation hI h n g w1 w2 (hlt g List.mem_cons_self) _ ih2
    rw [List.reverse_cons, List.foldl_append, List.foldl_cons, List.foldl_nil, circuitUnitary_cons]
    refine ⟨?_, hg2⟩
    rw [← Matrix.mul_assoc, ih1, Matrix.mul_assoc, hg1, Matrix.mul_assoc]

/-- **End to end**: for every well-formed recorded gate list and every phased Pauli `P` on its `n` qubits, the answer of the
tableau simulator (`to_symplectic_form` + `apply_clifford_on_pauli`) satisfies `P · U = U · answer`, with `U` the unitary of the
exported universal circuit — i.e. `answer = U⁻¹ P U`, phase included. -/
theorem circuit_conjugation_all {I : R} (hI : I * I = -1) (h : R) (gates : List Gate) (hwf : GatesWF gates)
    (t : Tab) (ht : symplecticOf gates = .ok t) :
    ∃ n, numQubit gates = .ok n ∧ t.n = n ∧ ∀ p : PauliB, p.v < 4 ^ n →
      PM n I p * circuitUnitary I h n gates = circuitUnitary I h n gates * PM n I (applyOnPauli p t) := by
  obtain ⟨n, h1, h2, h3⟩ := symplecticOf_sequential' gates hwf
    (fun k => ⟨dagTable k, basicDaggerF2_dagTable k, dagTable_n k, dagTable_colSp k⟩) t ht
  refine ⟨n, h1, h2, fun p hp => ?_⟩
  rw [h3 p, apply_id n p hp]
  exact (seq_conjugation hI h n gates hwf (fun g hg q hq => numQubit_spec h1 g hg q hq) p hp).1

end Numqi.Clifford
