/-
C07: the phase bookkeeping of the tableau action.
`applyOnPauli` is a homomorphism of the phased Pauli group when the columns of `S` are a symplectic basis
(`apply_hom`), and `clifford_multiply` is sequential application (`multiply_apply`), for every number of qubits.

Everything is arithmetic mod 2 / mod 4 on sums over bit masks.  `om n u w = z(u)·x(w)`.
-/
import Mathlib.Tactic
import NumqiProofs.SpF2Lemmas
import NumqiProofs.PauliLemmas
import NumqiModel.Clifford

namespace Numqi.Clifford
open Numqi.SpF2 (ofFn testBit_ofFn)

/-! ### counting sums -/

theorem cnt_comm (m a b : Nat) : cnt m a b = cnt m b a := by
  induction m with
  | zero => rfl
  | succ m ih => simp only [cnt, ih, Bool.and_comm]

theorem cnt_zero_left (m b : Nat) : cnt m 0 b = 0 := by
  induction m with
  | zero => rfl
  | succ m ih => simp [cnt, ih]

theorem cnt_xor_left_mod2 (m a b c : Nat) : cnt m (a ^^^ b) c % 2 = (cnt m a c + cnt m b c) % 2 := by
  induction m with
  | zero => rfl
  | succ m ih =>
    simp only [cnt, Nat.testBit_xor]
    cases a.testBit m <;> cases b.testBit m <;> cases c.testBit m <;> simp <;> omega

theorem cnt_xor_right_mod2 (m a b c : Nat) : cnt m a (b ^^^ c) % 2 = (cnt m a b + cnt m a c) % 2 := by
  rw [cnt_comm, cnt_xor_left_mod2, cnt_comm m b, cnt_comm m c]

/-- `z(u)·x(w)` as an integer -/
def om (n u w : Nat) : Nat := cnt n (u >>> n) w

theorem om_xor_left_mod2 (n a b c : Nat) : om n (a ^^^ b) c % 2 = (om n a c + om n b c) % 2 := by
  unfold om; rw [Nat.shiftRight_xor_distrib, cnt_xor_left_mod2]

theorem om_xor_right_mod2 (n a b c : Nat) : om n a (b ^^^ c) % 2 = (om n a b + om n a c) % 2 := by
  unfold om; rw [cnt_xor_right_mod2]

theorem om_zero_left (n w : Nat) : om n 0 w = 0 := by simp [om, cnt_zero_left]
theorem om_zero_right (n u : Nat) : om n u 0 = 0 := by unfold om; rw [cnt_comm, cnt_zero_left]

/-! ### selected sums -/

theorem sumSel_zero (f : Nat → Nat) (k : Nat) : sumSel 0 f k = 0 := by
  induction k with
  | zero => rfl
  | succ k ih => simp [sumSel, ih]

theorem sumSel_fzero (v k : Nat) : sumSel v (fun _ => 0) k = 0 := by
  induction k with
  | zero => rfl
  | succ k ih => simp [sumSel, ih]

theorem sumSel_add (v : Nat) (f g : Nat → Nat) (k : Nat) :
    sumSel v (fun j => f j + g j) k = sumSel v f k + sumSel v g k := by
  induction k with
  | zero => rfl
  | succ k ih => simp only [sumSel, ih]; split <;> omega

theorem sumSel_congr {v : Nat} {f g : Nat → Nat} {k : Nat} (h : ∀ j, j < k → f j = g j) :
    sumSel v f k = sumSel v g k := by
  induction k with
  | zero => rfl
  | succ k ih => rw [sumSel, sumSel, ih (fun j hj => h j (by omega)), h k (by omega)]

theorem sumSel_congr_mod2 {v : Nat} {f g : Nat → Nat} {k : Nat} (h : ∀ j, j < k → f j % 2 = g j % 2) :
    sumSel v f k % 2 = sumSel v g k % 2 := by
  induction k with
  | zero => rfl
  | succ k ih =>
    have h1 := ih (fun j hj => h j (by omega))
    have h2 := h k (by omega)
    simp only [sumSel]; split <;> omega

theorem sumSel_xor_mod2 (v w : Nat) (f : Nat → Nat) (k : Nat) :
    sumSel (v ^^^ w) f k % 2 = (sumSel v f k + sumSel w f k) % 2 := by
  induction k with
  | zero => rfl
  | succ k ih =>
    simp only [sumSel, Nat.testBit_xor]
    cases v.testBit k <;> cases w.testBit k <;> simp <;> omega

/-- pulling a condition that does not depend on the summation index out of the sum -/
theorem sumSel_if (v : Nat) (c : Bool) (f : Nat → Nat) (k : Nat) :
    sumSel v (fun j => if c then f j else 0) k = if c then sumSel v f k else 0 := by
  cases c <;> simp [sumSel_fzero]

theorem cnt_eq_sumSel (m a b : Nat) : cnt m a b = sumSel a (fun j => (b.testBit j).toNat) m := by
  induction m with
  | zero => rfl
  | succ m ih => simp only [cnt, sumSel, ih]; cases a.testBit m <;> simp

/-! ### `cli_mat @ v` -/

theorem matVec_zero (cols : List Nat) (k : Nat) : matVec cols 0 k = 0 := by
  induction k with
  | zero => rfl
  | succ k ih => simp [matVec, ih]

theorem xor_sel (A B C : Nat) (p q : Bool) :
    (A ^^^ B) ^^^ (if (p ^^ q) = true then C else 0) = (A ^^^ if p = true then C else 0) ^^^ (B ^^^ if q = true then C else 0) := by
  apply Nat.eq_of_testBit_eq; intro j
  cases p <;> cases q <;> simp only [Bool.xor_false, Bool.xor_true, Bool.not_true, Bool.not_false, Bool.false_eq_true,
    if_true, if_false, Nat.testBit_xor, Nat.zero_testBit] <;>
    cases A.testBit j <;> cases B.testBit j <;> cases C.testBit j <;> rfl

theorem matVec_xor (cols : List Nat) (v w k : Nat) :
    matVec cols (v ^^^ w) k = matVec cols v k ^^^ matVec cols w k := by
  induction k with
  | zero => simp [matVec]
  | succ k ih =>
    simp only [matVec, ih, Nat.testBit_xor]
    exact xor_sel _ _ _ _ _

theorem om_matVec_left_mod2 (n : Nat) (cols : List Nat) (v u k : Nat) :
    om n (matVec cols v k) u % 2 = sumSel v (fun a => om n (cols.getD a 0) u) k % 2 := by
  induction k with
  | zero => simp [matVec, sumSel, om_zero_left]
  | succ k ih =>
    simp only [matVec, sumSel]
    rw [om_xor_left_mod2]
    split
    · omega
    · simp only [om_zero_left]; omega

theorem om_matVec_right_mod2 (n : Nat) (cols : List Nat) (v u k : Nat) :
    om n u (matVec cols v k) % 2 = sumSel v (fun a => om n u (cols.getD a 0)) k % 2 := by
  induction k with
  | zero => simp [matVec, sumSel, om_zero_right]
  | succ k ih =>
    simp only [matVec, sumSel]
    rw [om_xor_right_mod2]
    split
    · omega
    · simp only [om_zero_right]; omega

/-! ### the quadratic phase function and its polarisation -/

/-- `Σ_{j<k} w_j d_j + 2 Σ_{b<k} w_b Σ_{a<b} w_a z_{ab}` -/
def Gk (d : Nat → Nat) (z : Nat → Nat → Nat) (w k : Nat) : Nat :=
  sumSel w d k + 2 * sumSel w (fun b => sumSel w (fun a => z a b) b) k

/-- `Σ_{a<k} w_a w'_a d_a + Σ_{a<b<k} (w_a w'_b + w'_a w_b) z_{ab}` -/
def Ek (d : Nat → Nat) (z : Nat → Nat → Nat) (w w' k : Nat) : Nat :=
  sumSel (w &&& w') d k + sumSel w' (fun b => sumSel w (fun a => z a b) b) k +
    sumSel w (fun b => sumSel w' (fun a => z a b) b) k

/-- polarisation identity mod 4 (no hypothesis on `d`, `z`) -/
theorem Gk_xor (d : Nat → Nat) (z : Nat → Nat → Nat) (w w' k : Nat) :
    Gk d z (w ^^^ w') k % 4 = (Gk d z w k + Gk d z w' k + 2 * Ek d z w w' k) % 4 := by
  induction k with
  | zero => rfl
  | succ k ih =>
    have hp := sumSel_xor_mod2 w w' (fun a => z a k) k
    simp only [Gk, Ek] at ih ⊢
    simp only [sumSel, Nat.testBit_xor, Nat.testBit_and]
    cases w.testBit k <;> cases w'.testBit k <;>
      simp only [Bool.xor_false, Bool.xor_true, Bool.not_true, Bool.not_false, Bool.and_true, Bool.and_false,
        Bool.false_eq_true, if_true, if_false] <;> omega

/-- the full double sum `Σ_{a<m} Σ_{b<m} w_a w'_b z_{ab}` split into diagonal, upper and lower triangle -/
theorem full_split (z : Nat → Nat → Nat) (w w' m : Nat) :
    sumSel w (fun a => sumSel w' (fun b => z a b) m) m =
      sumSel (w &&& w') (fun a => z a a) m + sumSel w' (fun b => sumSel w (fun a => z a b) b) m +
        sumSel w (fun a => sumSel w' (fun b => z a b) a) m := by
  induction m with
  | zero => rfl
  | succ m ih =>
    simp only [sumSel, Nat.testBit_and]
    rw [sumSel_add, sumSel_if, ih]
    cases w.testBit m <;> cases w'.testBit m <;> simp <;> omega

theorem sumSel_single (v j0 c k : Nat) :
    sumSel v (fun j => if j = j0 then c else 0) k = if j0 < k ∧ v.testBit j0 = true then c else 0 := by
  induction k with
  | zero => simp [sumSel]
  | succ k ih =>
    simp only [sumSel, ih]
    by_cases hk : k = j0
    · subst hk; cases v.testBit k <;> simp
    · have h1 : (j0 < k + 1) = (j0 < k) := by apply propext; omega
      have h2 : ¬ j0 = k := fun h => hk h.symm
      simp only [hk, h1, if_false]
      cases v.testBit k <;> simp

theorem sumSel_split (v : Nat) (f : Nat → Nat) (a b : Nat) :
    sumSel v f (a + b) = sumSel v f a + sumSel (v >>> a) (fun j => f (j + a)) b := by
  induction b with
  | zero => simp [sumSel]
  | succ b ih =>
    rw [← Nat.add_assoc, sumSel, ih, sumSel, Nat.testBit_shiftRight, Nat.add_comm b a]
    omega

/-- the symplectic form `Λ` summed against `w`, `w'`: `Σ_{i<2n} w_i Σ_{j<i} w'_j [i = j+n] = z(w)·x(w')` -/
theorem lam_sum (n w w' : Nat) :
    sumSel w (fun i => sumSel w' (fun j => if i = j + n then 1 else 0) i) (2 * n) = om n w w' := by
  by_cases hn : n = 0
  · subst hn; simp [sumSel, om, cnt]
  have inner : ∀ i, sumSel w' (fun j => if i = j + n then 1 else 0) i =
      if n ≤ i ∧ w'.testBit (i - n) = true then 1 else 0 := by
    intro i
    by_cases hi : n ≤ i
    · have : (fun j => if i = j + n then 1 else 0) = (fun j => if j = i - n then 1 else 0) := by
        funext j
        by_cases h : j = i - n
        · simp [h]; omega
        · have : ¬ i = j + n := by omega
          simp [h, this]
      rw [this, sumSel_single]
      have : i - n < i := by omega
      simp [this, hi]
    · have : (fun j => if i = j + n then 1 else 0) = (fun _ => 0) := by
        funext j
        have : ¬ i = j + n := by omega
        simp [this]
      rw [this, sumSel_fzero]; simp [hi]
  rw [sumSel_congr (fun i _ => inner i), two_mul, sumSel_split]
  have h1 : sumSel w (fun i => if n ≤ i ∧ w'.testBit (i - n) = true then 1 else 0) n = 0 := by
    rw [sumSel_congr (g := fun _ => 0) (fun i hi => by simp; omega), sumSel_fzero]
  rw [h1, Nat.zero_add]
  unfold om
  rw [cnt_eq_sumSel]
  apply sumSel_congr
  intro j _
  simp
  cases w'.testBit j <;> rfl

/-- under the symplectic condition on `z` the polarisation term is `Σ_{a,b} w_a w'_b z_{ab} + z(w)·x(w')` mod 2 -/
theorem Ek_symplectic (n : Nat) (d : Nat → Nat) (z : Nat → Nat → Nat) (hd : ∀ a, d a = z a a)
    (hsp : ∀ a b, a < b → b < 2 * n → (z a b + z b a) % 2 = if b = a + n then 1 else 0) (w w' : Nat) :
    Ek d z w w' (2 * n) % 2 =
      (sumSel w (fun a => sumSel w' (fun b => z a b) (2 * n)) (2 * n) + om n w w') % 2 := by
  have hsplit := full_split z w w' (2 * n)
  have hlow : (sumSel w (fun a => sumSel w' (fun b => z a b) a) (2 * n) +
      sumSel w (fun b => sumSel w' (fun a => z a b) b) (2 * n)) % 2 = om n w w' % 2 := by
    rw [← sumSel_add, ← lam_sum]
    apply sumSel_congr_mod2
    intro i hi
    rw [← sumSel_add]
    apply sumSel_congr_mod2
    intro j hj
    have := hsp j i hj hi
    show (z i j + z j i) % 2 = _
    rw [Nat.add_comm, this]; split <;> rfl
  have hdd : sumSel (w &&& w') d (2 * n) = sumSel (w &&& w') (fun a => z a a) (2 * n) :=
    sumSel_congr (fun a _ => hd a)
  unfold Ek
  rw [hdd]
  omega

/-! ### the tableau action in terms of `(v, phase exponent)` -/

/-- exponent `k` of the phase `i^k` -/
def ph (p : PauliB) : Nat := 2 * p.s0.toNat + p.s1.toNat

/-- phase increment of the tableau action on the vector `v` -/
def Fph (t : Tab) (v : Nat) : Nat := t.dsum v + 2 * cnt (2 * t.n) v t.r + 2 * t.tri v

theorem PauliB.ext_ph {p q : PauliB} (hv : p.v = q.v) (h : ph p % 4 = ph q % 4) : p = q := by
  cases p with | mk a0 a1 av => cases q with | mk b0 b1 bv =>
  simp only at hv; subst hv
  simp only [ph] at h
  revert h
  cases a0 <;> cases a1 <;> cases b0 <;> cases b1 <;> simp

theorem toNat_beq_one (k : Nat) : ((k % 2 == 1) : Bool).toNat = k % 2 := by
  rcases Nat.mod_two_eq_zero_or_one k with h | h <;> simp [h]

theorem apply_v (p : PauliB) (t : Tab) : (applyOnPauli p t).v = matVec t.cols p.v (2 * t.n) := rfl

theorem apply_ph (p : PauliB) (t : Tab) : ph (applyOnPauli p t) % 4 = (ph p + Fph t p.v) % 4 := by
  simp only [ph, Fph, applyOnPauli, toNat_beq_one]
  generalize t.dsum p.v = D
  generalize cnt (2 * t.n) p.v t.r = C
  generalize t.tri p.v = T
  cases p.s0 <;> cases p.s1 <;> simp <;> omega

theorem mulB_v (n : Nat) (a b : PauliB) : (mulB n a b).v = a.v ^^^ b.v := rfl

theorem mulB_ph (n : Nat) (a b : PauliB) : ph (mulB n a b) % 4 = (ph a + ph b + 2 * om n a.v b.v) % 4 := by
  simp only [ph, mulB, om, toNat_beq_one]
  generalize cnt n (a.v >>> n) b.v = W
  cases a.s0 <;> cases a.s1 <;> cases b.s0 <;> cases b.s1 <;> simp <;> omega

theorem Fph_eq (t : Tab) (v : Nat) : Fph t v = Gk t.d t.zx v (2 * t.n) + 2 * cnt (2 * t.n) v t.r := by
  simp only [Fph, Gk, Tab.dsum, Tab.tri]; omega

theorem Fph_zero (t : Tab) : Fph t 0 = 0 := by
  simp [Fph, Tab.dsum, Tab.tri, sumSel_zero, cnt_zero_left]

theorem colSp_iff (t : Tab) : t.colSp = true ↔
    ∀ a b, a < b → b < 2 * t.n → (t.zx a b + t.zx b a) % 2 = if b = a + t.n then 1 else 0 := by
  unfold Tab.colSp
  simp only [List.all_eq_true, List.mem_range, beq_iff_eq]
  constructor
  · intro h a b hab hb; exact h b hb a hab
  · intro h b hb a hab; exact h a b hab hb

theorem d_eq_zx (t : Tab) (a : Nat) : t.d a = t.zx a a := by
  simp only [Tab.d, Tab.zx]; rw [cnt_comm]

/-- **the cocycle identity**: `F(v ⊕ w) + 2 z(v)·x(w) = F(v) + F(w) + 2 z(Sv)·x(Sw)  (mod 4)` for a symplectic `S` -/
theorem Fph_cocycle (t : Tab) (h : t.colSp = true) (v w : Nat) :
    (Fph t (v ^^^ w) + 2 * om t.n v w) % 4 =
      (Fph t v + Fph t w + 2 * om t.n (matVec t.cols v (2 * t.n)) (matVec t.cols w (2 * t.n))) % 4 := by
  have h1 := Gk_xor t.d t.zx v w (2 * t.n)
  have h2 := Ek_symplectic t.n t.d t.zx (d_eq_zx t) ((colSp_iff t).1 h) v w
  have h3 : om t.n (matVec t.cols v (2 * t.n)) (matVec t.cols w (2 * t.n)) % 2 =
      sumSel v (fun a => sumSel w (fun b => t.zx a b) (2 * t.n)) (2 * t.n) % 2 := by
    rw [om_matVec_left_mod2]
    apply sumSel_congr_mod2
    intro a _
    exact om_matVec_right_mod2 t.n t.cols w (t.cols.getD a 0) (2 * t.n)
  have h4 := cnt_xor_left_mod2 (2 * t.n) v w t.r
  rw [Fph_eq, Fph_eq, Fph_eq]
  omega

/-- **`applyOnPauli` is a homomorphism of the phased Pauli group** (phase-exact) when the columns of `S` are symplectic -/
theorem apply_mulB (t : Tab) (h : t.colSp = true) (a b : PauliB) :
    applyOnPauli (mulB t.n a b) t = mulB t.n (applyOnPauli a t) (applyOnPauli b t) := by
  apply PauliB.ext_ph
  · rw [apply_v, mulB_v, mulB_v, apply_v, apply_v, matVec_xor]
  · have h1 := apply_ph (mulB t.n a b) t
    have h2 := mulB_ph t.n a b
    have h3 := mulB_ph t.n (applyOnPauli a t) (applyOnPauli b t)
    have h4 := apply_ph a t
    have h5 := apply_ph b t
    have h6 := Fph_cocycle t h a.v b.v
    rw [mulB_v] at h1
    rw [apply_v, apply_v] at h3
    omega

/-! ### `clifford_multiply` -/

theorem getD_map_range' (m k : Nat) (f : Nat → Nat) (hk : k < m) : ((List.range m).map f).getD k 0 = f k := by
  simp [List.getD_eq_getElem?_getD, hk]

/-- what `clifford_multiply` returns, field by field -/
theorem multiply_spec {x y z : Tab} (h : multiply x y = some z) :
    z.n = x.n ∧
    (∀ j, j < 2 * x.n → z.cols.getD j 0 = matVec y.cols (x.cols.getD j 0) (2 * x.n)) ∧
    (∀ j, j < 2 * x.n → (x.d j + y.dsum (x.cols.getD j 0) + z.d j) % 2 = 0) ∧
    (∀ j, j < 2 * x.n → z.r.testBit j =
      (((x.r.testBit j).toNat + cnt (2 * x.n) y.r (x.cols.getD j 0) + y.tri (x.cols.getD j 0) +
        ((x.d j + y.dsum (x.cols.getD j 0) + 3 * z.d j) % 4) / 2) % 2 == 1)) := by
  unfold multiply at h
  simp only at h
  split at h
  · rename_i hall
    simp only [Option.some.injEq] at h
    subst h
    refine ⟨rfl, ?_, ?_, ?_⟩
    · intro j hj; simp only; rw [getD_map_range' _ _ _ hj]
    · intro j hj
      rw [List.all_eq_true] at hall
      have := hall j (List.mem_range.2 hj)
      simpa [Tab.d] using this
    · intro j hj
      simp only [testBit_ofFn, hj, decide_true, Bool.true_and]
      rfl
  · exact absurd h (by simp)

/-- `S_y (S_x v)` from the columns of the product -/
theorem matVec_comp (colsX colsY colsZ : List Nat) (m : Nat) (v k : Nat) (hk : k ≤ m)
    (hz : ∀ j, j < m → colsZ.getD j 0 = matVec colsY (colsX.getD j 0) m) :
    matVec colsZ v k = matVec colsY (matVec colsX v k) m := by
  induction k with
  | zero => simp [matVec, matVec_zero]
  | succ k ih =>
    simp only [matVec]
    rw [matVec_xor, ← ih (by omega)]
    split
    · rw [hz k (by omega)]
    · rw [matVec_zero]

/-- the phase of column `j` of the product: `d^z_j + 2 r^z_j = d^x_j + 2 r^x_j + F_y(c^x_j)  (mod 4)` -/
theorem multiply_col_phase {x y z : Tab} (h : multiply x y = some z) (hn : x.n = y.n) (j : Nat) (hj : j < 2 * x.n) :
    (z.d j + 2 * (z.r.testBit j).toNat) % 4 =
      (x.d j + 2 * (x.r.testBit j).toNat + Fph y (x.cols.getD j 0)) % 4 := by
  obtain ⟨_, _, hev, hr⟩ := multiply_spec h
  have h1 := hev j hj
  rw [hr j hj, toNat_beq_one]
  simp only [Fph, ← hn]
  rw [cnt_comm (2 * x.n) (x.cols.getD j 0) y.r]
  generalize x.d j = A at *
  generalize y.dsum (x.cols.getD j 0) = B at *
  generalize z.d j = C at *
  generalize cnt (2 * x.n) y.r (x.cols.getD j 0) = D
  generalize y.tri (x.cols.getD j 0) = T
  cases x.r.testBit j <;> simp <;> omega

/-- the partial-sum invariant behind `multiply_apply` -/
theorem multiply_partial {x y z : Tab} (h : multiply x y = some z) (hn : x.n = y.n) (hy : y.colSp = true)
    (v k : Nat) (hk : k ≤ 2 * x.n) :
    (sumSel v z.d k + 2 * sumSel v (fun j => (z.r.testBit j).toNat) k +
        2 * sumSel v (fun b => sumSel v (fun a => z.zx a b) b) k) % 4 =
      (sumSel v x.d k + 2 * sumSel v (fun j => (x.r.testBit j).toNat) k +
        2 * sumSel v (fun b => sumSel v (fun a => x.zx a b) b) k + Fph y (matVec x.cols v k)) % 4 := by
  obtain ⟨hzn, hzc, _, _⟩ := multiply_spec h
  induction k with
  | zero => simp [sumSel, matVec, Fph_zero]
  | succ k ih =>
    have ih' := ih (by omega)
    have hk' : k < 2 * x.n := by omega
    simp only [sumSel, matVec]
    by_cases hv : v.testBit k = true
    · simp only [hv, if_true]
      have hcol := multiply_col_phase h hn k hk'
      have hco := Fph_cocycle y hy (matVec x.cols v k) (x.cols.getD k 0)
      -- B ≡ om(u, c)
      have hB : sumSel v (fun a => x.zx a k) k % 2 = om y.n (matVec x.cols v k) (x.cols.getD k 0) % 2 := by
        rw [om_matVec_left_mod2]; simp only [Tab.zx, om, hn]
      -- B' ≡ om(Y u, Y c)
      have hB' : sumSel v (fun a => z.zx a k) k % 2 =
          om y.n (matVec y.cols (matVec x.cols v k) (2 * y.n)) (matVec y.cols (x.cols.getD k 0) (2 * y.n)) % 2 := by
        rw [← hn, ← matVec_comp x.cols y.cols z.cols (2 * x.n) v k (by omega) hzc, om_matVec_left_mod2, ← hzc k hk']
        simp only [Tab.zx, om, hzn]
      omega
    · have hv' : v.testBit k = false := by simpa using hv
      simp only [hv', Bool.false_eq_true, if_false, Nat.add_zero, Nat.xor_zero]
      exact ih'

/-- **composition rule = sequential application**, for every number of qubits: whenever `clifford_multiply(x, y)`
returns `z` (sizes equal, `S_y` symplectic), `apply(P, z) = apply(apply(P, x), y)` for every phased Pauli `P`. -/
theorem multiply_apply_all {x y z : Tab} (h : multiply x y = some z) (hn : x.n = y.n) (hy : y.colSp = true)
    (p : PauliB) : applyOnPauli p z = applyOnPauli (applyOnPauli p x) y := by
  obtain ⟨hzn, hzc, _, _⟩ := multiply_spec h
  apply PauliB.ext_ph
  · rw [apply_v, apply_v, apply_v, hzn, ← hn]
    exact matVec_comp x.cols y.cols z.cols (2 * x.n) p.v (2 * x.n) le_rfl hzc
  · have h1 := apply_ph p z
    have h2 := apply_ph (applyOnPauli p x) y
    have h3 := apply_ph p x
    have h4 := multiply_partial h hn hy p.v (2 * x.n) le_rfl
    rw [apply_v] at h2
    have e1 : Fph z p.v = sumSel p.v z.d (2 * x.n) + 2 * sumSel p.v (fun j => (z.r.testBit j).toNat) (2 * x.n) +
        2 * sumSel p.v (fun b => sumSel p.v (fun a => z.zx a b) b) (2 * x.n) := by
      simp only [Fph, Tab.dsum, Tab.tri, hzn, cnt_eq_sumSel]
    have e2 : Fph x p.v = sumSel p.v x.d (2 * x.n) + 2 * sumSel p.v (fun j => (x.r.testBit j).toNat) (2 * x.n) +
        2 * sumSel p.v (fun b => sumSel p.v (fun a => x.zx a b) b) (2 * x.n) := by
      simp only [Fph, Tab.dsum, Tab.tri, cnt_eq_sumSel]
    omega

/-! ### the circuit tableau is the sequential action of its gates -/

/-- action of one recorded gate through its embedded adjoint tableau -/
def gateAct (n : Nat) (q : PauliB) (g : Gate) : PauliB :=
  match basicDaggerF2 g.key with
  | some loc => applyOnPauli q (embed n loc g.idx)
  | none => q

theorem foldl_symStep_error (n : Nat) (l : List Gate) (e : Err) : l.foldl (symStep n) (.error e) = .error e := by
  induction l with
  | nil => rfl
  | cons g l ih => simpa [List.foldl_cons, symStep] using ih

theorem foldl_symStep_seq (n : Nat) (l : List Gate)
    (hsp : ∀ g ∈ l, ∀ loc, basicDaggerF2 g.key = some loc → (embed n loc g.idx).colSp = true) :
    ∀ (acc t : Tab), acc.n = n → l.foldl (symStep n) (.ok acc) = .ok t →
      t.n = n ∧ ∀ p, applyOnPauli p t = l.foldl (gateAct n) (applyOnPauli p acc) := by
  induction l with
  | nil =>
    intro acc t hacc h
    simp only [List.foldl_nil] at h
    cases h
    exact ⟨hacc, fun p => rfl⟩
  | cons g l ih =>
    intro acc t hacc h
    rw [List.foldl_cons] at h
    cases hd : basicDaggerF2 g.key with
    | none =>
      simp only [symStep, hd] at h
      rw [foldl_symStep_error] at h; cases h
    | some loc =>
      cases hm : multiply acc (embed n loc g.idx) with
      | none =>
        simp only [symStep, hd, hm] at h
        rw [foldl_symStep_error] at h; cases h
      | some z =>
        simp only [symStep, hd, hm] at h
        have hz := multiply_spec hm
        have hcs := hsp g (by simp) loc hd
        obtain ⟨h1, h2⟩ := ih (fun g' hg' => hsp g' (by simp [hg'])) z t (by rw [hz.1, hacc]) h
        refine ⟨h1, fun p => ?_⟩
        rw [h2 p, List.foldl_cons]
        congr 1
        have := multiply_apply_all hm (by rw [hacc]; rfl) hcs p
        rw [this]
        simp only [gateAct, hd]

/-- **the tableau of a circuit acts as its gates one after the other** (last gate first, i.e. `U† P U` for
`U = g_L ⋯ g_1`), provided the embedded gate tableaux are symplectic -/
theorem symplecticOf_sequential (gates : List Gate) (t : Tab) (h : symplecticOf gates = .ok t) :
    ∃ n, numQubit gates = .ok n ∧ t.n = n ∧
      ((∀ g ∈ gates, ∀ loc, basicDaggerF2 g.key = some loc → (embed n loc g.idx).colSp = true) →
        ∀ p, applyOnPauli p t = gates.reverse.foldl (gateAct n) (applyOnPauli p (Tab.id n))) := by
  unfold symplecticOf at h
  cases hq : numQubit gates with
  | error e => rw [hq] at h; cases h
  | ok n =>
    rw [hq] at h
    simp only at h
    refine ⟨n, rfl, ?_⟩
    by_cases hsp : ∀ g ∈ gates, ∀ loc, basicDaggerF2 g.key = some loc → (embed n loc g.idx).colSp = true
    · have := foldl_symStep_seq n gates.reverse (fun g hg => hsp g (List.mem_reverse.1 hg)) (Tab.id n) t rfl h
      exact ⟨this.1, fun _ => this.2⟩
    · -- the size claim does not need the hypothesis: rerun the fold argument for `n` only
      have hn : t.n = n := by
        have key : ∀ (l : List Gate) (acc t : Tab), acc.n = n → l.foldl (symStep n) (.ok acc) = .ok t → t.n = n := by
          intro l
          induction l with
          | nil => intro acc t ha h; simp only [List.foldl_nil] at h; cases h; exact ha
          | cons g l ih =>
            intro acc t ha h
            rw [List.foldl_cons] at h
            cases hd : basicDaggerF2 g.key with
            | none => simp only [symStep, hd] at h; rw [foldl_symStep_error] at h; cases h
            | some loc =>
              cases hm : multiply acc (embed n loc g.idx) with
              | none => simp only [symStep, hd, hm] at h; rw [foldl_symStep_error] at h; cases h
              | some z =>
                simp only [symStep, hd, hm] at h
                exact ih z t (by rw [(multiply_spec hm).1, ha]) h
        exact key gates.reverse (Tab.id n) t rfl h
      exact ⟨hn, fun hh => absurd hh hsp⟩

/-! ### the identity tableau -/

theorem idTab_getD {n j : Nat} (hj : j < 2 * n) : (Tab.id n).cols.getD j 0 = 2 ^ j := by
  simp only [Tab.id]; rw [getD_map_range' _ _ _ hj]

theorem cnt_pow_left (m j b : Nat) : cnt m (2 ^ j) b = if j < m ∧ b.testBit j = true then 1 else 0 := by
  induction m with
  | zero => simp [cnt]
  | succ m ih =>
    simp only [cnt, ih, Nat.testBit_two_pow]
    by_cases hjm : j = m
    · subst hjm; cases b.testBit j <;> simp
    · have h1 : (j < m + 1) = (j < m) := by apply propext; omega
      simp [hjm, h1]

theorem matVec_id (n v k : Nat) (hk : k ≤ 2 * n) : matVec (Tab.id n).cols v k = v % 2 ^ k := by
  induction k with
  | zero => simp [matVec, Nat.mod_one]
  | succ k ih =>
    rw [matVec, ih (by omega), idTab_getD (by omega)]
    apply Nat.eq_of_testBit_eq; intro j
    simp only [Nat.testBit_xor, Nat.testBit_mod_two_pow]
    by_cases hjk : j = k
    · subst hjk; cases v.testBit j <;> simp
    · have h1 : (j < k + 1) = (j < k) := by apply propext; omega
      have h2 : ¬ k = j := fun h => hjk h.symm
      cases hv : v.testBit k <;> simp [h1, h2, Nat.testBit_two_pow]

/-- the identity tableau fixes every Pauli (of the right length) -/
theorem apply_id (n : Nat) (p : PauliB) (hp : p.v < 4 ^ n) : applyOnPauli p (Tab.id n) = p := by
  have hd : ∀ j, j < 2 * n → (Tab.id n).d j = 0 := by
    intro j hj
    simp only [Tab.d]; rw [idTab_getD hj]
    show cnt n (2 ^ j) (2 ^ j >>> n) = 0
    rw [cnt_pow_left]
    by_cases h : j < n
    · have : (2 ^ j >>> n).testBit j = false := by
        rw [Nat.testBit_shiftRight, Nat.testBit_two_pow]; simp; omega
      simp [this]
    · simp [h]
  have hzx : ∀ a b, a < b → b < 2 * n → (Tab.id n).zx a b = 0 := by
    intro a b hab hb
    simp only [Tab.zx]; rw [idTab_getD hb, idTab_getD (by omega)]
    show cnt n (2 ^ a >>> n) (2 ^ b) = 0
    rw [cnt_comm, cnt_pow_left]
    have : (2 ^ a >>> n).testBit b = false := by
      rw [Nat.testBit_shiftRight, Nat.testBit_two_pow]; simp; omega
    simp [this]
  have hF : Fph (Tab.id n) p.v = 0 := by
    have e1 : (Tab.id n).dsum p.v = 0 := by
      show sumSel p.v (Tab.id n).d (2 * n) = 0
      rw [sumSel_congr (g := fun _ => 0) (fun j hj => hd j hj), sumSel_fzero]
    have e2 : (Tab.id n).tri p.v = 0 := by
      show sumSel p.v (fun k => sumSel p.v (fun j => (Tab.id n).zx j k) k) (2 * n) = 0
      rw [sumSel_congr (g := fun _ => 0) (fun b hb => by
        show sumSel p.v (fun a => (Tab.id n).zx a b) b = 0
        rw [sumSel_congr (g := fun _ => 0) (fun a ha => hzx a b ha hb), sumSel_fzero]), sumSel_fzero]
    have e3 : cnt (2 * (Tab.id n).n) p.v (Tab.id n).r = 0 := by
      show cnt (2 * n) p.v 0 = 0
      rw [cnt_comm, cnt_zero_left]
    simp only [Fph, e1, e2, e3]
  apply PauliB.ext_ph
  · rw [apply_v]
    show matVec (Tab.id n).cols p.v (2 * n) = p.v
    rw [matVec_id n p.v (2 * n) le_rfl, ← SpF2.four_pow, Nat.mod_eq_of_lt hp]
  · rw [apply_ph, hF]; simp

/-! ### `mulB` is the product of C08 -/

theorem cnt_eq_sum (m a b : Nat) : cnt m a b = ∑ i : Fin m, (a.testBit i.val && b.testBit i.val).toNat := by
  induction m with
  | zero => simp [cnt]
  | succ m ih => rw [cnt, ih, Fin.sum_univ_castSucc]; simp

/-- the bit-mask product is `PauliOperator.__matmul__` as modelled in C08 (for which `mat (p*q) = mat p * mat q`) -/
theorem toPauli_mulB (n : Nat) (a b : PauliB) : toPauli n (mulB n a b) = (toPauli n a).mul (toPauli n b) := by
  have hdot : cnt n (a.v >>> n) b.v = Bits.dotN (toPauli n a).z (toPauli n b).x := by
    rw [cnt_eq_sum, Bits.dotN_eq_sum]
    apply Finset.sum_congr rfl
    intro i _
    simp only [toPauli, Nat.testBit_shiftRight]
  simp only [toPauli, mulB, Pauli.mul] at hdot ⊢
  congr 1
  · rw [hdot]
  · funext i; simp [Bits.xor, Nat.testBit_xor]
  · funext i; simp [Bits.xor, Nat.testBit_xor]

end Numqi.Clifford
