/-
Helper lemmas for the Sp(2n,F2) model (C09): bit-level facts, bilinearity of the symplectic
product, transvections, the transvection lemma (`find_transvection`).
-/
import Mathlib.Tactic
import NumqiModel.SpF2

namespace Numqi.SpF2

/-! ### bit arrays -/

theorem testBit_ofFn (m : Nat) (f : Nat → Bool) (j : Nat) :
    (ofFn m f).testBit j = (decide (j < m) && f j) := by
  induction m with
  | zero => simp [ofFn]
  | succ m ih =>
    rw [ofFn, Nat.testBit_or, ih]
    by_cases hfm : f m
    · simp only [hfm, if_true, Nat.testBit_two_pow]
      by_cases hj : m = j
      · subst hj; simp [hfm]
      · have : (j < m + 1) = (j < m) := by apply propext; omega
        simp [hj, this]
    · simp only [hfm, Nat.zero_testBit, Bool.or_false]
      by_cases hj : m = j
      · subst hj; simp [hfm]
      · have : (j < m + 1) = (j < m) := by apply propext; omega
        simp [this]

theorem testBit_bit (i : Nat) (b : Bool) (j : Nat) : (bit i b).testBit j = (b && decide (i = j)) := by
  unfold bit; cases b <;> simp [Nat.testBit_two_pow]

theorem ofFn_lt (m : Nat) (f : Nat → Bool) : ofFn m f < 2 ^ m := by
  apply Nat.lt_pow_two_of_testBit
  intro i hi
  rw [testBit_ofFn]; simp; omega

theorem testBit_eq_false_of_lt {v m j : Nat} (hv : v < 2 ^ m) (hj : m ≤ j) : v.testBit j = false :=
  Nat.testBit_lt_two_pow (lt_of_lt_of_le hv (Nat.pow_le_pow_right (by norm_num) hj))

theorem ofFn_testBit {v m : Nat} (hv : v < 2 ^ m) : ofFn m (fun j => v.testBit j) = v := by
  apply Nat.eq_of_testBit_eq
  intro j
  rw [testBit_ofFn]
  by_cases hj : j < m
  · simp [hj]
  · simp [hj, testBit_eq_false_of_lt hv (by omega : m ≤ j)]

theorem xor_lt {a b m : Nat} (ha : a < 2 ^ m) (hb : b < 2 ^ m) : a ^^^ b < 2 ^ m :=
  Nat.xor_lt_two_pow ha hb

theorem bit_lt {i m : Nat} (b : Bool) (h : i < m) : bit i b < 2 ^ m := by
  unfold bit; cases b
  · simp
  · simpa using Nat.pow_lt_pow_right (by norm_num : 1 < 2) h

theorem four_pow (n : Nat) : 4 ^ n = 2 ^ (2 * n) := by
  rw [pow_mul]; norm_num

/-! ### the symplectic product -/

theorem ipUpTo_xor_left (n a b w k : Nat) :
    ipUpTo n (a ^^^ b) w k = (ipUpTo n a w k ^^ ipUpTo n b w k) := by
  induction k with
  | zero => rfl
  | succ k ih =>
    simp only [ipUpTo, ih, ipTerm, Nat.testBit_xor]
    cases ipUpTo n a w k <;> cases ipUpTo n b w k <;> cases a.testBit k <;> cases b.testBit k <;>
      cases a.testBit (k + n) <;> cases b.testBit (k + n) <;> cases w.testBit k <;> cases w.testBit (k + n) <;> rfl

theorem ipUpTo_comm (n v w k : Nat) : ipUpTo n v w k = ipUpTo n w v k := by
  induction k with
  | zero => rfl
  | succ k ih =>
    simp only [ipUpTo, ih, ipTerm]
    cases v.testBit k <;> cases v.testBit (k + n) <;> cases w.testBit k <;> cases w.testBit (k + n) <;> simp

theorem ipUpTo_self (n v k : Nat) : ipUpTo n v v k = false := by
  induction k with
  | zero => rfl
  | succ k ih =>
    simp only [ipUpTo, ih, ipTerm]
    cases v.testBit k <;> cases v.testBit (k + n) <;> rfl

theorem ipUpTo_zero_left (n w k : Nat) : ipUpTo n 0 w k = false := by
  induction k with
  | zero => rfl
  | succ k ih => simp [ipUpTo, ih, ipTerm]

theorem ip_comm (n v w : Nat) : ip n v w = ip n w v := ipUpTo_comm n v w n
theorem ip_self (n v : Nat) : ip n v v = false := ipUpTo_self n v n
theorem ip_xor_left (n a b w : Nat) : ip n (a ^^^ b) w = (ip n a w ^^ ip n b w) := ipUpTo_xor_left n a b w n
theorem ip_xor_right (n v a b : Nat) : ip n v (a ^^^ b) = (ip n v a ^^ ip n v b) := by
  rw [ip_comm, ip_xor_left, ip_comm n a, ip_comm n b]
theorem ip_zero_left (n w : Nat) : ip n 0 w = false := ipUpTo_zero_left n w n
theorem ip_zero_right (n v : Nat) : ip n v 0 = false := by rw [ip_comm, ip_zero_left]

/-- product with a unit vector in the first half: `<v, e_i> = v[i+n]` -/
theorem ipUpTo_bit_lo (n v i k : Nat) (hi : i < n) :
    ipUpTo n v (2 ^ i) k = (decide (i < k) && v.testBit (i + n)) := by
  induction k with
  | zero => simp [ipUpTo]
  | succ k ih =>
    simp only [ipUpTo, ih, ipTerm, Nat.testBit_two_pow]
    have h1 : i ≠ k + n := by omega
    by_cases hk : i = k
    · subst hk
      have hn : n ≠ 0 := by omega
      simp [hn]
    · have h2 : (i < k + 1) = (i < k) := by apply propext; omega
      simp [h1, hk, h2]

theorem ipUpTo_bit_hi (n v i k : Nat) (hk : k ≤ n) :
    ipUpTo n v (2 ^ (i + n)) k = (decide (i < k) && v.testBit i) := by
  induction k with
  | zero => simp [ipUpTo]
  | succ k ih =>
    simp only [ipUpTo, ih (by omega), ipTerm, Nat.testBit_two_pow]
    have h4 : i + n ≠ k := by omega
    by_cases hik : i = k
    · subst hik
      have hn : n ≠ 0 := by omega
      simp [hn]
    · have h2 : (i < k + 1) = (i < k) := by apply propext; omega
      simp [h2, h4, hik]

theorem ip_bit_lo (n v i : Nat) (hi : i < n) : ip n v (2 ^ i) = v.testBit (i + n) := by
  unfold ip; rw [ipUpTo_bit_lo n v i n hi]; simp [hi]

theorem ip_bit_hi (n v i : Nat) (hi : i < n) : ip n v (2 ^ (i + n)) = v.testBit i := by
  unfold ip; rw [ipUpTo_bit_hi n v i n le_rfl]; simp [hi]

/-- product with a vector supported on the pair `(i, i+n)` -/
theorem ip_pair (n v i : Nat) (a b : Bool) (hi : i < n) :
    ip n v (bit i a ^^^ bit (i + n) b) = ((v.testBit i && b) ^^ (v.testBit (i + n) && a)) := by
  rw [ip_xor_right]
  unfold bit
  cases a <;> cases b <;> simp [ip_zero_right, ip_bit_lo n v i hi, ip_bit_hi n v i hi, Bool.xor_comm]

/-! ### transvections -/

theorem tv_zero (n x : Nat) : tv n x 0 = x := by simp [tv]

theorem tv_involutive (n x h : Nat) : tv n (tv n x h) h = x := by
  unfold tv
  by_cases hx : ip n x h
  · simp only [hx, if_true, ip_xor_left, ip_self, Bool.xor_false]
    rw [Nat.xor_assoc, Nat.xor_self, Nat.xor_zero]
  · simp [hx]

theorem ip_tv_left (n x h y : Nat) : ip n (tv n x h) y = (ip n x y ^^ (ip n x h && ip n h y)) := by
  unfold tv
  by_cases hx : ip n x h <;> simp [hx, ip_xor_left, ip_zero_left]

theorem ip_tv_tv (n x y h : Nat) : ip n (tv n x h) (tv n y h) = ip n x y := by
  rw [ip_tv_left, ip_comm n x (tv n y h), ip_comm n h (tv n y h), ip_tv_left, ip_tv_left, ip_self,
    ip_comm n y x, ip_comm n y h, ip_comm n h x]
  cases ip n x y <;> cases ip n x h <;> cases ip n h y <;> rfl

theorem tv_xor (n x y h : Nat) : tv n (x ^^^ y) h = tv n x h ^^^ tv n y h := by
  unfold tv
  rw [ip_xor_left]
  apply Nat.eq_of_testBit_eq; intro j
  cases ip n x h <;> cases ip n y h <;> simp [Nat.testBit_xor]
  all_goals cases x.testBit j <;> cases y.testBit j <;> cases h.testBit j <;> rfl

theorem tv_zero_left (n h : Nat) : tv n 0 h = 0 := by simp [tv, ip_zero_left]

theorem tv_lt {n x h m : Nat} (hx : x < 2 ^ m) (hh : h < 2 ^ m) : tv n x h < 2 ^ m := by
  unfold tv; split
  · exact xor_lt hx hh
  · simpa using hx

/-- two-step form used by the last three branches of `find_transvection` -/
theorem tv_two_step {n v0 v1 v2 : Nat} (h01 : ip n v0 v1 = false) (h02 : ip n v0 v2 = true)
    (h12 : ip n v1 v2 = true) : tv n (tv n v0 (v1 ^^^ v2)) (v0 ^^^ v2) = v1 := by
  have h10 : ip n v1 v0 = false := by rw [ip_comm]; exact h01
  have h20 : ip n v2 v0 = true := by rw [ip_comm]; exact h02
  have e1 : tv n v0 (v1 ^^^ v2) = v0 ^^^ (v1 ^^^ v2) := by simp [tv, ip_xor_right, h01, h02]
  rw [e1]
  have e2 : ip n (v0 ^^^ (v1 ^^^ v2)) (v0 ^^^ v2) = true := by
    simp [ip_xor_left, ip_xor_right, ip_self, h01, h02, h12, h10, h20]
  simp only [tv, e2, if_true]
  apply Nat.eq_of_testBit_eq; intro j
  simp only [Nat.testBit_xor]
  cases v0.testBit j <;> cases v1.testBit j <;> cases v2.testBit j <;> rfl

/-- the same two transvections in the other order (the order used by `from_int_tuple`) -/
theorem tv_two_step_rev {n v0 v1 v2 : Nat} (h02 : ip n v0 v2 = true)
    (h12 : ip n v1 v2 = true) : tv n (tv n v0 (v0 ^^^ v2)) (v1 ^^^ v2) = v1 := by
  have h21 : ip n v2 v1 = true := by rw [ip_comm]; exact h12
  have e1 : tv n v0 (v0 ^^^ v2) = v2 := by
    simp only [tv, ip_xor_right, ip_self, h02, Bool.false_xor, if_true]
    rw [← Nat.xor_assoc, Nat.xor_self, Nat.zero_xor]
  rw [e1]
  simp only [tv, ip_xor_right, ip_self, h21, Bool.xor_false, if_true]
  rw [Nat.xor_comm v1 v2, ← Nat.xor_assoc, Nat.xor_self, Nat.zero_xor]

/-! ### `find_transvection` -/

theorem findIdx_some {p : Nat → Bool} {k i : Nat} (h : findIdx p k = some i) : i < k ∧ p i = true := by
  induction k with
  | zero => simp [findIdx] at h
  | succ k ih =>
    rw [findIdx] at h
    cases hf : findIdx p k with
    | some j =>
      rw [hf] at h; simp only [Option.some.injEq] at h; subst h
      have := ih hf; exact ⟨by omega, this.2⟩
    | none =>
      rw [hf] at h
      by_cases hp : p k = true
      · simp only [hp, if_true, Option.some.injEq] at h; subst h; exact ⟨by omega, hp⟩
      · simp [hp] at h

theorem findIdx_none {p : Nat → Bool} {k : Nat} (h : findIdx p k = none) : ∀ j, j < k → p j = false := by
  induction k with
  | zero => intro j hj; omega
  | succ k ih =>
    rw [findIdx] at h
    cases hf : findIdx p k with
    | some j => rw [hf] at h; simp at h
    | none =>
      rw [hf] at h
      by_cases hp : p k = true
      · simp [hp] at h
      · intro j hj
        rcases Nat.lt_succ_iff_lt_or_eq.mp hj with h1 | h1
        · exact ih hf j h1
        · subst h1; simpa using hp

theorem findIdx_congr {p q : Nat → Bool} (h : ∀ i, p i = q i) (k : Nat) : findIdx p k = findIdx q k := by
  have : p = q := funext h
  rw [this]

/-- a non-zero vector below `4^n` has a non-zero pair -/
theorem exists_pairNZ {n v : Nat} (h0 : v ≠ 0) (hv : v < 4 ^ n) : ∃ i, i < n ∧ pairNZ n v i = true := by
  obtain ⟨k, hk⟩ := Nat.exists_testBit_of_ne_zero h0
  have hk2 : k < 2 * n := by
    by_contra hc
    rw [four_pow] at hv
    rw [testBit_eq_false_of_lt hv (by omega)] at hk
    exact absurd hk (by simp)
  by_cases hkn : k < n
  · exact ⟨k, hkn, by simp [pairNZ, hk]⟩
  · refine ⟨k - n, by omega, ?_⟩
    have : k - n + n = k := by omega
    simp [pairNZ, this, hk]

theorem oneSided_lt {n u : Nat} {idx : Option Nat} (h : ∀ i, idx = some i → i < n) : oneSided n u idx < 4 ^ n := by
  rw [four_pow]
  cases idx with
  | none => simp [oneSided]
  | some i =>
    have hi := h i rfl
    simp only [oneSided]
    split
    · exact bit_lt _ (by omega)
    · exact xor_lt (bit_lt _ (by omega)) (bit_lt _ (by omega))

/-- the vector written for the first index where `u` has a non-zero pair pairs to `1` with `u` … -/
theorem ip_oneSided_self {n u i : Nat} (hi : i < n) (hu : pairNZ n u i = true) :
    ip n u (oneSided n u (some i)) = true := by
  simp only [oneSided, pairNZ] at *
  by_cases he : u.testBit i = u.testBit (i + n)
  · have : bit (i + n) true = bit i false ^^^ bit (i + n) true := by simp [bit]
    rw [if_pos (by simp [he]), this, ip_pair n u i _ _ hi]
    rw [he] at hu ⊢; simpa using hu
  · rw [if_neg (by simpa using he), ip_pair n u i _ _ hi]
    revert he hu
    cases u.testBit i <;> cases u.testBit (i + n) <;> simp

/-- … and to `0` with a vector whose pair at that index is `00`. -/
theorem ip_oneSided_other {n u w i : Nat} (hi : i < n) (hw : pairNZ n w i = false) :
    ip n w (oneSided n u (some i)) = false := by
  simp only [oneSided, pairNZ, Bool.or_eq_false_iff] at *
  have e : bit (i + n) true = bit i false ^^^ bit (i + n) true := by simp [bit]
  split
  · rw [e, ip_pair n w i _ _ hi]; simp [hw.1, hw.2]
  · rw [ip_pair n w i _ _ hi]; simp [hw.1, hw.2]

/-- the three facts about `v2` on which the last three branches rest -/
structure Good (n v0 v1 v2 : Nat) : Prop where
  h02 : ip n v0 v2 = true
  h12 : ip n v1 v2 = true
  lt : v2 < 4 ^ n

/-- description of the value of `findTv` (the branch taken) -/
theorem findTv_cases (n v0 v1 : Nat) (h0 : v0 ≠ 0) (h1 : v1 ≠ 0) (hv0 : v0 < 4 ^ n) (hv1 : v1 < 4 ^ n) :
    (v0 = v1 ∧ findTv n v0 v1 = (0, 0)) ∨
    (v0 ≠ v1 ∧ ip n v0 v1 = true ∧ findTv n v0 v1 = (v0 ^^^ v1, 0)) ∨
    (v0 ≠ v1 ∧ ip n v0 v1 = false ∧ ∃ v2, Good n v0 v1 v2 ∧ findTv n v0 v1 = (v1 ^^^ v2, v0 ^^^ v2)) := by
  by_cases he : v0 = v1
  · left; exact ⟨he, by simp [findTv, he]⟩
  by_cases hip : ip n v0 v1 = true
  · right; left; exact ⟨he, hip, by simp [findTv, he, hip]⟩
  right; right
  refine ⟨he, by simpa using hip, ?_⟩
  have hip' : ip n v0 v1 = false := by simpa using hip
  unfold findTv
  rw [if_neg he, if_neg (by simp [hip'])]
  cases hf : findIdx (fun i => pairNZ n v0 i && pairNZ n v1 i) n with
  | some i =>
    obtain ⟨hi, hp⟩ := findIdx_some hf
    simp only [Bool.and_eq_true, pairNZ, Bool.or_eq_true] at hp
    refine ⟨_, ⟨?_, ?_, ?_⟩, rfl⟩
    · split
      · rename_i hc
        rw [ip_pair n v0 i _ _ hi]
        revert hc; have := hp.1
        revert this
        cases v0.testBit i <;> cases v0.testBit (i + n) <;> cases v1.testBit i <;> cases v1.testBit (i + n) <;> simp
      · rename_i hc
        rw [ip_pair n v0 i _ _ hi]
        revert hc; have := hp.1; have := hp.2
        revert this; revert this
        cases v0.testBit i <;> cases v0.testBit (i + n) <;> cases v1.testBit i <;> cases v1.testBit (i + n) <;> simp
    · split
      · rename_i hc
        rw [ip_pair n v1 i _ _ hi]
        revert hc; have := hp.1; have := hp.2
        revert this; revert this
        cases v0.testBit i <;> cases v0.testBit (i + n) <;> cases v1.testBit i <;> cases v1.testBit (i + n) <;> simp
      · rename_i hc
        rw [ip_pair n v1 i _ _ hi]
        revert hc; have := hp.1; have := hp.2
        revert this; revert this
        cases v0.testBit i <;> cases v0.testBit (i + n) <;> cases v1.testBit i <;> cases v1.testBit (i + n) <;> simp
    · rw [four_pow]
      split <;> exact xor_lt (bit_lt _ (by omega)) (bit_lt _ (by omega))
  | none =>
    have hnone := findIdx_none hf
    obtain ⟨i0, hi0, hp0⟩ := exists_pairNZ h0 hv0
    obtain ⟨i1, hi1, hp1⟩ := exists_pairNZ h1 hv1
    have hq0 : pairNZ n v1 i0 = false := by
      have := hnone i0 hi0; simpa [hp0] using this
    have hq1 : pairNZ n v0 i1 = false := by
      have := hnone i1 hi1; simpa [hp1] using this
    -- both one-sided searches succeed
    cases hfa : findIdx (fun i => pairNZ n v0 i && !pairNZ n v1 i) n with
    | none => have := findIdx_none hfa i0 hi0; simp [hp0, hq0] at this
    | some ia =>
      cases hfb : findIdx (fun i => !pairNZ n v0 i && pairNZ n v1 i) n with
      | none => have := findIdx_none hfb i1 hi1; simp [hp1, hq1] at this
      | some ib =>
        obtain ⟨hia, hpa⟩ := findIdx_some hfa
        obtain ⟨hib, hpb⟩ := findIdx_some hfb
        simp only [Bool.and_eq_true, Bool.not_eq_true'] at hpa hpb
        refine ⟨_, ⟨?_, ?_, ?_⟩, rfl⟩
        · rw [ip_xor_right, ip_oneSided_self hia hpa.1, ip_oneSided_other hib hpb.1]; rfl
        · rw [ip_xor_right, ip_oneSided_other hia hpa.2, ip_oneSided_self hib hpb.2]; rfl
        · rw [four_pow]
          refine xor_lt ?_ ?_
          · rw [← four_pow]; exact oneSided_lt (by intro i h; cases h; exact hia)
          · rw [← four_pow]; exact oneSided_lt (by intro i h; cases h; exact hib)

/-- **Lemma 2**: the two transvections returned map `v0` to `v1` (in the order `ret[0]`, then `ret[1]`). -/
theorem findTv_spec (n v0 v1 : Nat) (h0 : v0 ≠ 0) (h1 : v1 ≠ 0) (hv0 : v0 < 4 ^ n) (hv1 : v1 < 4 ^ n) :
    tv n (tv n v0 (findTv n v0 v1).1) (findTv n v0 v1).2 = v1 := by
  rcases findTv_cases n v0 v1 h0 h1 hv0 hv1 with ⟨he, hf⟩ | ⟨_, hip, hf⟩ | ⟨_, hip, v2, hg, hf⟩
  · rw [hf]; simp [tv_zero, he]
  · rw [hf]; simp only [tv_zero]
    simp only [tv, ip_xor_right, ip_self, hip, Bool.false_xor, if_true]
    rw [← Nat.xor_assoc, Nat.xor_self, Nat.zero_xor]
  · rw [hf]; exact tv_two_step hip hg.h02 hg.h12

/-- the same two transvections applied in the other order (`ret[1]` first) also map `v0` to `v1`;
this is the order in which `from_int_tuple` / `to_int_tuple` use them -/
theorem findTv_spec_rev (n v0 v1 : Nat) (h0 : v0 ≠ 0) (h1 : v1 ≠ 0) (hv0 : v0 < 4 ^ n) (hv1 : v1 < 4 ^ n) :
    tv n (tv n v0 (findTv n v0 v1).2) (findTv n v0 v1).1 = v1 := by
  rcases findTv_cases n v0 v1 h0 h1 hv0 hv1 with ⟨he, hf⟩ | ⟨_, hip, hf⟩ | ⟨_, hip, v2, hg, hf⟩
  · rw [hf]; simp [tv_zero, he]
  · rw [hf]; simp only [tv_zero]
    simp only [tv, ip_xor_right, ip_self, hip, Bool.false_xor, if_true]
    rw [← Nat.xor_assoc, Nat.xor_self, Nat.zero_xor]
  · rw [hf]; exact tv_two_step_rev hg.h02 hg.h12

theorem findTv_lt (n v0 v1 : Nat) (h0 : v0 ≠ 0) (h1 : v1 ≠ 0) (hv0 : v0 < 4 ^ n) (hv1 : v1 < 4 ^ n) :
    (findTv n v0 v1).1 < 4 ^ n ∧ (findTv n v0 v1).2 < 4 ^ n := by
  have hpos : 0 < 4 ^ n := by positivity
  rw [four_pow] at *
  rcases findTv_cases n v0 v1 h0 h1 (by rw [four_pow]; exact hv0) (by rw [four_pow]; exact hv1)
    with ⟨he, hf⟩ | ⟨_, hip, hf⟩ | ⟨_, hip, v2, hg, hf⟩
  · rw [hf]; exact ⟨hpos, hpos⟩
  · rw [hf]; exact ⟨xor_lt hv0 hv1, hpos⟩
  · rw [hf]; have := hg.lt; rw [four_pow] at this
    exact ⟨xor_lt hv1 this, xor_lt hv0 this⟩

/-- `find_transvection(v1, v0)` returns the same pair as `find_transvection(v0, v1)`, swapped in the
last three branches -/
theorem findTv_swap (n v0 v1 : Nat) :
    findTv n v1 v0 = if v0 = v1 ∨ ip n v0 v1 = true then findTv n v0 v1
      else ((findTv n v0 v1).2, (findTv n v0 v1).1) := by
  by_cases he : v0 = v1
  · subst he; simp
  have he' : ¬ v1 = v0 := fun h => he h.symm
  by_cases hip : ip n v0 v1 = true
  · have hip' : ip n v1 v0 = true := by rw [ip_comm]; exact hip
    simp [findTv, he, he', hip, hip', Nat.xor_comm]
  · have hip' : ¬ ip n v1 v0 = true := by rw [ip_comm]; exact hip
    rw [if_neg (by simp [he, hip])]
    unfold findTv
    rw [if_neg he, if_neg he', if_neg hip, if_neg hip']
    have e1 : (fun i => pairNZ n v1 i && pairNZ n v0 i) = (fun i => pairNZ n v0 i && pairNZ n v1 i) :=
      funext fun i => Bool.and_comm _ _
    have e2 : (fun i => pairNZ n v1 i && !pairNZ n v0 i) = (fun i => !pairNZ n v0 i && pairNZ n v1 i) :=
      funext fun i => Bool.and_comm _ _
    have e3 : (fun i => !pairNZ n v1 i && pairNZ n v0 i) = (fun i => pairNZ n v0 i && !pairNZ n v1 i) :=
      funext fun i => Bool.and_comm _ _
    rw [e1, e2, e3]
    cases findIdx (fun i => pairNZ n v0 i && pairNZ n v1 i) n with
    | some i =>
      simp only
      have : (if (!(v1.testBit i ^^ v0.testBit i) && !(v1.testBit (i + n) ^^ v0.testBit (i + n))) = true then
            bit i (v1.testBit i ^^ v1.testBit (i + n)) ^^^ bit (i + n) true
          else bit i (v1.testBit i ^^ v0.testBit i) ^^^ bit (i + n) (v1.testBit (i + n) ^^ v0.testBit (i + n)))
          = (if (!(v0.testBit i ^^ v1.testBit i) && !(v0.testBit (i + n) ^^ v1.testBit (i + n))) = true then
            bit i (v0.testBit i ^^ v0.testBit (i + n)) ^^^ bit (i + n) true
          else bit i (v0.testBit i ^^ v1.testBit i) ^^^ bit (i + n) (v0.testBit (i + n) ^^ v1.testBit (i + n))) := by
        cases v0.testBit i <;> cases v0.testBit (i + n) <;> cases v1.testBit i <;> cases v1.testBit (i + n) <;> rfl
      rw [this]
    | none =>
      simp only
      rw [Nat.xor_comm (oneSided n v1 _) (oneSided n v0 _)]

/-- hence the composite used by `to_int_tuple` undoes the composite used by `from_int_tuple` -/
theorem findTv_undo (n v0 v1 x : Nat) :
    tv n (tv n (tv n (tv n x (findTv n v0 v1).2) (findTv n v0 v1).1) (findTv n v1 v0).2) (findTv n v1 v0).1 = x := by
  rw [findTv_swap n v0 v1]
  by_cases hc : v0 = v1 ∨ ip n v0 v1 = true
  · rw [if_pos hc]
    have h2 : (findTv n v0 v1).2 = 0 := by
      rcases hc with he | hip
      · simp [findTv, he]
      · by_cases he : v0 = v1
        · simp [findTv, he]
        · simp [findTv, he, hip]
    rw [h2]; simp only [tv_zero, tv_involutive]
  · rw [if_neg hc]; simp only [tv_involutive]

end Numqi.SpF2
