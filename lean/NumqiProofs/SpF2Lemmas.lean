/-
Helper lemmas for the Sp(2n,F2) model (C09): bit-level facts, bilinearity of the symplectic
product, transvections, the transvection lemma (`find_transvection`).
-/
import Mathlib.Tactic
import NumqiModel.SpF2

namespace Numqi.SpF2

/-! ### bit arrays -/

theorem testBit_ofFn (m : Nat) (f : Nat → Bool) (j : Nat) :
    (ofFn m f).testBit j = (decide (j < m) && f j) := by
  induction m with
  | zero => simp [ofFn]
  | succ m ih =>
    rw [ofFn, Nat.testBit_or, ih]
    by_cases hfm : f m
    · simp only [hfm, if_true, Nat.testBit_two_pow]
      by_cases hj : m = j
      · subst hj; simp [hfm]
      · have : (j < m + 1) = (j < m) := by apply propext; omega
        simp [hj, this]
    · simp only [hfm, Nat.zero_testBit, Bool.or_false]
      by_cases hj : m = j
      · subst hj; simp [hfm]
      · have : (j < m + 1) = (j < m) := by apply propext; omega
        simp [this]

theorem testBit_bit (i : Nat) (b : Bool) (j : Nat) : (bit i b).testBit j = (b && decide (i = j)) := by
  unfold bit; cases b <;> simp [Nat.testBit_two_pow]

theorem ofFn_lt (m : Nat) (f : Nat → Bool) : ofFn m f < 2 ^ m := by
  apply Nat.lt_pow_two_of_testBit
  intro i hi
  rw [testBit_ofFn]; simp; omega

theorem testBit_eq_false_of_lt {v m j : Nat} (hv : v < 2 ^ m) (hj : m ≤ j) : v.testBit j = false :=
  Nat.testBit_lt_two_pow (lt_of_lt_of_le hv (Nat.pow_le_pow_right (by norm_num) hj))

theorem ofFn_testBit {v m : Nat} (hv : v < 2 ^ m) : ofFn m (fun j => v.testBit j) = v := by
  apply Nat.eq_of_testBit_eq
  intro j
  rw [testBit_ofFn]
  by_cases hj : j < m
  · simp [hj]
  · simp [hj, testBit_eq_false_of_lt hv (by omega : m ≤ j)]

theorem xor_lt {a b m : Nat} (ha : a < 2 ^ m) (hb : b < 2 ^ m) : a ^^^ b < 2 ^ m :=
  Nat.xor_lt_two_pow ha hb

theorem bit_lt {i m : Nat} (b : Bool) (h : i < m) : bit i b < 2 ^ m := by
  unfold bit; cases b
  · simp
  · simpa using Nat.pow_lt_pow_right (by norm_num : 1 < 2) h

theorem four_pow (n : Nat) : 4 ^ n = 2 ^ (2 * n) := by
  rw [pow_mul]; norm_num

/-! ### the symplectic product -/

theorem ipUpTo_xor_left (n a b w k : Nat) :
    ipUpTo n (a ^^^ b) w k = (ipUpTo n a w k ^^ ipUpTo n b w k) := by
  induction k with
  | zero => rfl
  | succ k ih =>
    simp only [ipUpTo, ih, ipTerm, Nat.testBit_xor]
    cases ipUpTo n a w k <;> cases ipUpTo n b w k <;> cases a.testBit k <;> cases b.testBit k <;>
      cases a.testBit (k + n) <;> cases b.testBit (k + n) <;> cases w.testBit k <;> cases w.testBit (k + n) <;> rfl

theorem ipUpTo_comm (n v w k : Nat) : ipUpTo n v w k = ipUpTo n w v k := by
  induction k with
  | zero => rfl
  | succ k ih =>
    simp only [ipUpTo, ih, ipTerm]
    cases v.testBit k <;> cases v.testBit (k + n) <;> cases w.testBit k <;> cases w.testBit (k + n) <;> simp

theorem ipUpTo_self (n v k : Nat) : ipUpTo n v v k = false := by
  induction k with
  | zero => rfl
  | succ k ih =>
    simp only [ipUpTo, ih, ipTerm]
    cases v.testBit k <;> cases v.testBit (k + n) <;> rfl

theorem ipUpTo_zero_left (n w k : Nat) : ipUpTo n 0 w k = false := by
  induction k with
  | zero => rfl
  | succ k ih => simp [ipUpTo, ih, ipTerm]

theorem ip_comm (n v w : Nat) : ip n v w = ip n w v := ipUpTo_comm n v w n
theorem ip_self (n v : Nat) : ip n v v = false := ipUpTo_self n v n
theorem ip_xor_left (n a b w : Nat) : ip n (a ^^^ b) w = (ip n a w ^^ ip n b w) := ipUpTo_xor_left n a b w n
theorem ip_xor_right (n v a b : Nat) : ip n v (a ^^^ b) = (ip n v a ^^ ip n v b) := by
  rw [ip_comm, ip_xor_left, ip_comm n a, ip_comm n b]
theorem ip_zero_left (n w : Nat) : ip n 0 w = false := ipUpTo_zero_left n w n
theorem ip_zero_right (n v : Nat) : ip n v 0 = false := by rw [ip_comm, ip_zero_left]

/-- product with a unit vector in the first half: `<v, e_i> = v[i+n]` -/
theorem ipUpTo_bit_lo (n v i k : Nat) (hi : i < n) :
    ipUpTo n v (2 ^ i) k = (decide (i < k) && v.testBit (i + n)) := by
  induction k with
  | zero => simp [ipUpTo]
  | succ k ih =>
    simp only [ipUpTo, ih, ipTerm, Nat.testBit_two_pow]
    have h1 : i ≠ k + n := by omega
    by_cases hk : i = k
    · subst hk
      have hn : n ≠ 0 := by omega
      simp [hn]
    · have h2 : (i < k + 1) = (i < k) := by apply propext; omega
      simp [h1, hk, h2]

theorem ipUpTo_bit_hi (n v i k : Nat) (hk : k ≤ n) :
    ipUpTo n v (2 ^ (i + n)) k = (decide (i < k) && v.testBit i) := by
  induction k with
  | zero => simp [ipUpTo]
  | succ k ih =>
    simp only [ipUpTo, ih (by omega), ipTerm, Nat.testBit_two_pow]
    have h4 : i + n ≠ k := by omega
    by_cases hik : i = k
    · subst hik
      have hn : n ≠ 0 := by omega
      simp [hn]
    · have h2 : (i < k + 1) = (i < k) := by apply propext; omega
      simp [h2, h4, hik]

theorem ip_bit_lo (n v i : Nat) (hi : i < n) : ip n v (2 ^ i) = v.testBit (i + n) := by
  unfold ip; rw [ipUpTo_bit_lo n v i n hi]; simp [hi]

theorem ip_bit_hi (n v i : Nat) (hi : i < n) : ip n v (2 ^ (i + n)) = v.testBit i := by
  unfold ip; rw [ipUpTo_bit_hi n v i n le_rfl]; simp [hi]

/-- product with a vector supported on the pair `(i, i+n)` -/
theorem ip_pair (n v i : Nat) (a b : Bool) (hi : i < n) :
    ip n v (bit i a ^^^ bit (i + n) b) = ((v.testBit i && b) ^^ (v.testBit (i + n) && a)) := by
  rw [ip_xor_right]
  unfold bit
  cases a <;> cases b <;> simp [ip_zero_right, ip_bit_lo n v i hi, ip_bit_hi n v i hi, Bool.xor_comm]

/-! ### transvections -/

theorem tv_zero (n x : Nat) : tv n x 0 = x := by simp [tv]

theorem tv_involutive (n x h : Nat) : tv n (tv n x h) h = x := by
  unfold tv
  by_cases hx : ip n x h
  · simp only [hx, if_true, ip_xor_left, ip_self, Bool.xor_false]
    rw [Nat.xor_assoc, Nat.xor_self, Nat.xor_zero]
  · simp [hx]

theorem ip_tv_left (n x h y : Nat) : ip n (tv n x h) y = (ip n x y ^^ (ip n x h && ip n h y)) := by
  unfold tv
  by_cases hx : ip n x h <;> simp [hx, ip_xor_left, ip_zero_left]

theorem ip_tv_tv (n x y h : Nat) : ip n (tv n x h) (tv n y h) = ip n x y := by
  rw [ip_tv_left, ip_comm n x (tv n y h), ip_comm n h (tv n y h), ip_tv_left, ip_tv_left, ip_self,
    ip_comm n y x, ip_comm n y h, ip_comm n h x]
  cases ip n x y <;> cases ip n x h <;> cases ip n h y <;> rfl

theorem tv_xor (n x y h : Nat) : tv n (x ^^^ y) h = tv n x h ^^^ tv n y h := by
  unfold tv
  rw [ip_xor_left]
  apply Nat.eq_of_testBit_eq; intro j
  cases ip n x h <;> cases ip n y h <;> simp [Nat.testBit_xor]
  all_goals cases x.testBit j <;> cases y.testBit j <;> cases h.testBit j <;> rfl

theorem tv_zero_left (n h : Nat) : tv n 0 h = 0 := by simp [tv, ip_zero_left]

theorem tv_lt {n x h m : Nat} (hx : x < 2 ^ m) (hh : h < 2 ^ m) : tv n x h < 2 ^ m := by
  unfold tv; split
  · exact xor_lt hx hh
  · simpa using hx

/-- two-step form used by the last three branches of `find_transvection` -/
theorem tv_two_step {n v0 v1 v2 : Nat} (h01 : ip n v0 v1 = false) (h02 : ip n v0 v2 = true)
    (h12 : ip n v1 v2 = true) : tv n (tv n v0 (v1 ^^^ v2)) (v0 ^^^ v2) = v1 := by
  have h10 : ip n v1 v0 = false := by rw [ip_comm]; exact h01
  have h20 : ip n v2 v0 = true := by rw [ip_comm]; exact h02
  have e1 : tv n v0 (v1 ^^^ v2) = v0 ^^^ (v1 ^^^ v2) := by simp [tv, ip_xor_right, h01, h02]
  rw [e1]
  have e2 : ip n (v0 ^^^ (v1 ^^^ v2)) (v0 ^^^ v2) = true := by
    simp [ip_xor_left, ip_xor_right, ip_self, h01, h02, h12, h10, h20]
  simp only [tv, e2, if_true]
  apply Nat.eq_of_testBit_eq; intro j
  simp only [Nat.testBit_xor]
  cases v0.testBit j <;> cases v1.testBit j <;> cases v2.testBit j <;> rfl

/-- the same two transvections in the other order (the order used by `from_int_tuple`) -/
theorem tv_two_step_rev {n v0 v1 v2 : Nat} (h02 : ip n v0 v2 = true)
    (h12 : ip n v1 v2 = true) : tv n (tv n v0 (v0 ^^^ v2)) (v1 ^^^ v2) = v1 := by
  have h21 : ip n v2 v1 = true := by rw [ip_comm]; exact h12
  have e1 : tv n v0 (v0 ^^^ v2) = v2 := by
    simp only [tv, ip_xor_right, ip_self, h02, Bool.false_xor, if_true]
    rw [← Nat.xor_assoc, Nat.xor_self, Nat.zero_xor]
  rw [e1]
  simp only [tv, ip_xor_right, ip_self, h21, Bool.xor_false, if_true]
  rw [Nat.xor_comm v1 v2, ← Nat.xor_assoc, Nat.xor_self, Nat.zero_xor]

end Numqi.SpF2
