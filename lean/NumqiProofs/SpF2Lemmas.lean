/-
Helper lemmas for the Sp(2n,F2) model (C09): bit-level facts, bilinearity of the symplectic
product, transvections, the transvection lemma (`find_transvection`).
-/
import Mathlib.Tactic
import NumqiModel.SpF2

namespace Numqi.SpF2

/-! ### bit arrays -/

theorem testBit_ofFn (m : Nat) (f : Nat → Bool) (j : Nat) :
    (ofFn m f).testBit j = (decide (j < m) && f j) := by
  induction m with
  | zero => simp [ofFn]
  | succ m ih =>
    rw [ofFn, Nat.testBit_or, ih]
    by_cases hfm : f m
    · simp only [hfm, if_true, Nat.testBit_two_pow]
      by_cases hj : m = j
      · subst hj; simp [hfm]
      · have : (j < m + 1) = (j < m) := by apply propext; omega
        simp [hj, this]
    · simp only [hfm, Nat.zero_testBit, Bool.or_false]
      by_cases hj : m = j
      · subst hj; simp [hfm]
      · have : (j < m + 1) = (j < m) := by apply propext; omega
        simp [this]

theorem testBit_bit (i : Nat) (b : Bool) (j : Nat) : (bit i b).testBit j = (b && decide (i = j)) := by
  unfold bit; cases b <;> simp [Nat.testBit_two_pow]

theorem ofFn_lt (m : Nat) (f : Nat → Bool) : ofFn m f < 2 ^ m := by
  apply Nat.lt_pow_two_of_testBit
  intro i hi
  rw [testBit_ofFn]; simp; omega

theorem testBit_eq_false_of_lt {v m j : Nat} (hv : v < 2 ^ m) (hj : m ≤ j) : v.testBit j = false :=
  Nat.testBit_lt_two_pow (lt_of_lt_of_le hv (Nat.pow_le_pow_right (by norm_num) hj))

theorem ofFn_testBit {v m : Nat} (hv : v < 2 ^ m) : ofFn m (fun j => v.testBit j) = v := by
  apply Nat.eq_of_testBit_eq
  intro j
  rw [testBit_ofFn]
  by_cases hj : j < m
  · simp [hj]
  · simp [hj, testBit_eq_false_of_lt hv (by omega : m ≤ j)]

theorem xor_lt {a b m : Nat} (ha : a < 2 ^ m) (hb : b < 2 ^ m) : a ^^^ b < 2 ^ m :=
  Nat.xor_lt_two_pow ha hb

theorem bit_lt {i m : Nat} (b : Bool) (h : i < m) : bit i b < 2 ^ m := by
  unfold bit; cases b
  · simp
  · simpa using Nat.pow_lt_pow_right (by norm_num : 1 < 2) h

theorem four_pow (n : Nat) : 4 ^ n = 2 ^ (2 * n) := by
  rw [pow_mul]; norm_num

/-! ### the symplectic product -/

theorem ipUpTo_xor_left (n a b w k : Nat) :
    ipUpTo n (a ^^^ b) w k = (ipUpTo n a w k ^^ ipUpTo n b w k) := by
  induction k with
  | zero => rfl
  | succ k ih =>
    simp only [ipUpTo, ih, ipTerm, Nat.testBit_xor]
    cases ipUpTo n a w k <;> cases ipUpTo n b w k <;> cases a.testBit k <;> cases b.testBit k <;>
      cases a.testBit (k + n) <;> cases b.testBit (k + n) <;> cases w.testBit k <;> cases w.testBit (k + n) <;> rfl

theorem ipUpTo_comm (n v w k : Nat) : ipUpTo n v w k = ipUpTo n w v k := by
  induction k with
  | zero => rfl
  | succ k ih =>
    simp only [ipUpTo, ih, ipTerm]
    cases v.testBit k <;> cases v.testBit (k + n) <;> cases w.testBit k <;> cases w.testBit (k + n) <;> simp

theorem ipUpTo_self (n v k : Nat) : ipUpTo n v v k = false := by
  induction k with
  | zero => rfl
  | succ k ih =>
    simp only [ipUpTo, ih, ipTerm]
    cases v.testBit k <;> cases v.testBit (k + n) <;> rfl

theorem ipUpTo_zero_left (n w k : Nat) : ipUpTo n 0 w k = false := by
  induction k with
  | zero => rfl
  | succ k ih => simp [ipUpTo, ih, ipTerm]

theorem ip_comm (n v w : Nat) : ip n v w = ip n w v := ipUpTo_comm n v w n
theorem ip_self (n v : Nat) : ip n v v = false := ipUpTo_self n v n
theorem ip_xor_left (n a b w : Nat) : ip n (a ^^^ b) w = (ip n a w ^^ ip n b w) := ipUpTo_xor_left n a b w n
theorem ip_xor_right (n v a b : Nat) : ip n v (a ^^^ b) = (ip n v a ^^ ip n v b) := by
  rw [ip_comm, ip_xor_left, ip_comm n a, ip_comm n b]
theorem ip_zero_left (n w : Nat) : ip n 0 w = false := ipUpTo_zero_left n w n
theorem ip_zero_right (n v : Nat) : ip n v 0 = false := by rw [ip_comm, ip_zero_left]

/-- product with a unit vector in the first half: `<v, e_i> = v[i+n]` -/
theorem ipUpTo_bit_lo (n v i k : Nat) (hi : i < n) :
    ipUpTo n v (2 ^ i) k = (decide (i < k) && v.testBit (i + n)) := by
  induction k with
  | zero => simp [ipUpTo]
  | succ k ih =>
    simp only [ipUpTo, ih, ipTerm, Nat.testBit_two_pow]
    have h1 : (i = k + n) = False := by apply propext; constructor <;> intro h <;> omega
    by_cases hk : i = k
    · subst hk; simp [h1]
    · have h2 : (i < k + 1) = (i < k) := by apply propext; omega
      simp [h1, hk, h2]

theorem ipUpTo_bit_hi (n v i k : Nat) :
    ipUpTo n v (2 ^ (i + n)) k = (decide (i < k) && v.testBit i) := by
  induction k with
  | zero => simp [ipUpTo]
  | succ k ih =>
    simp only [ipUpTo, ih, ipTerm, Nat.testBit_two_pow]
    by_cases hk : i = k
    · subst hk
      by_cases hn : n = 0
      · subst hn; simp
        cases v.testBit i <;> rfl
      · have : (i + n = i) = False := by apply propext; constructor <;> intro h <;> omega
        simp [this]
    · have h2 : (i < k + 1) = (i < k) := by apply propext; omega
      have h3 : (i + n = k + n) = False := by apply propext; constructor <;> intro h <;> omega
      by_cases h4 : i + n = k
      · have : i < k := by omega
        simp [h2, h3, h4, this]
        sorry
      · simp [h2, h3, h4]

end Numqi.SpF2
