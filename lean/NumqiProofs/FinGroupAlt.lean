/-
C14 helper: the parity of `Σ (cycle length − 1)` computed by the model of
`permutation_to_cycle_notation` is the sign of the permutation, for every `n`.
-/
import NumqiProofs.FinGroupPerm
import Mathlib.GroupTheory.Perm.Cycle.Concrete
import Mathlib.GroupTheory.Perm.Sign
import Mathlib.GroupTheory.SpecificGroups.Alternating

namespace Numqi.FinGroup

/-- the map `k ↦ p[k]` -/
def sig (p : List Nat) (k : Nat) : Nat := p.getD k 0

/-! ### 1. one cycle: `cycleFrom` walks the orbit -/

theorem cycleFrom_succ (p : List Nat) (x0 fuel cur : Nat) :
    cycleFrom p x0 (fuel + 1) cur = if sig p cur = x0 then [cur] else cur :: cycleFrom p x0 fuel (sig p cur) := by
  simp [cycleFrom, sig]

theorem cycleFrom_spec (p : List Nat) (x0 : Nat) : ∀ (fuel cur : Nat),
    ∃ m, m ≤ fuel ∧ cycleFrom p x0 fuel cur = (List.range m).map (fun j => (sig p)^[j] cur) ∧
      (∀ j, j + 1 < m → (sig p)^[j + 1] cur ≠ x0) ∧ (0 < fuel → 0 < m) ∧ ((sig p)^[m] cur = x0 ∨ m = fuel) := by
  intro fuel
  induction fuel with
  | zero => intro cur; exact ⟨0, le_refl _, rfl, by intro j hj; omega, by intro h; omega, Or.inr rfl⟩
  | succ fuel ih =>
    intro cur
    by_cases h : sig p cur = x0
    · refine ⟨1, by omega, ?_, by intro j hj; omega, by intro _; omega, Or.inl (by simpa using h)⟩
      rw [cycleFrom_succ, if_pos h]; rfl
    · obtain ⟨m, hm, hl, hint, _, hend⟩ := ih (sig p cur)
      refine ⟨m + 1, by omega, ?_, ?_, by intro _; omega, ?_⟩
      · rw [cycleFrom_succ, if_neg h, hl, List.range_succ_eq_map, List.map_cons, List.map_map]
        simp [Function.iterate_succ_apply, Function.comp_def]
      · intro j hj
        cases j with
        | zero => simpa using h
        | succ j =>
          have := hint j (by omega)
          rwa [← Function.iterate_succ_apply] at this
      · rcases hend with hend | hend
        · left; rwa [Function.iterate_succ_apply]
        · right; omega

/-! ### facts about `sig p` for a permutation tuple -/

section
variable {n : Nat} {p : List Nat}

theorem sig_lt (hp : p.Perm (List.range n)) {x : Nat} (hx : x < n) : sig p x < n := by
  have hl := perm_length hp
  have hx' : x < p.length := by omega
  unfold sig
  rw [List.getD_eq_getElem?_getD, List.getElem?_eq_getElem hx']
  exact perm_lt hp (List.getElem_mem hx')

theorem sig_inj (hp : p.Perm (List.range n)) {x y : Nat} (hx : x < n) (hy : y < n) (h : sig p x = sig p y) : x = y := by
  have hl := perm_length hp
  have hx' : x < p.length := by omega
  have hy' : y < p.length := by omega
  unfold sig at h
  rw [List.getD_eq_getElem?_getD, List.getElem?_eq_getElem hx', List.getD_eq_getElem?_getD,
    List.getElem?_eq_getElem hy'] at h
  exact (List.Nodup.getElem_inj_iff (perm_nodup hp)).1 (by simpa using h)

theorem iter_lt (hp : p.Perm (List.range n)) {x : Nat} (hx : x < n) (j : Nat) : (sig p)^[j] x < n := by
  induction j with
  | zero => simpa using hx
  | succ j ih => rw [Function.iterate_succ_apply']; exact sig_lt hp ih

theorem iter_inj (hp : p.Perm (List.range n)) {a b : Nat} (ha : a < n) (hb : b < n) (i : Nat)
    (h : (sig p)^[i] a = (sig p)^[i] b) : a = b := by
  induction i with
  | zero => simpa using h
  | succ i ih =>
    rw [Function.iterate_succ_apply', Function.iterate_succ_apply'] at h
    exact ih (sig_inj hp (iter_lt hp ha i) (iter_lt hp hb i) h)

/-- **the walk closes**: `cycleFrom p x len(p) x` is the orbit `x, σx, …, σ^{m-1}x` with pairwise different
entries and `σ^m x = x`. -/
theorem cycle_props (hp : p.Perm (List.range n)) {x : Nat} (hx : x < n) :
    ∃ m, 0 < m ∧ cycleFrom p x p.length x = (List.range m).map (fun j => (sig p)^[j] x) ∧
      (∀ i j, i < j → j < m → (sig p)^[i] x ≠ (sig p)^[j] x) ∧ (sig p)^[m] x = x := by
  have hl := perm_length hp
  obtain ⟨m, hm, hlist, hint, hpos, hend⟩ := cycleFrom_spec p x p.length x
  have hm0 : 0 < m := hpos (by omega)
  have hdist : ∀ i j, i < j → j < m → (sig p)^[i] x ≠ (sig p)^[j] x := by
    intro i j hij hj heq
    have hj' : j = i + (j - i) := by omega
    rw [hj', Function.iterate_add_apply] at heq
    have := iter_inj hp hx (iter_lt hp hx (j - i)) i heq
    have hd : j - i = (j - i - 1) + 1 := by omega
    rw [hd] at this
    exact hint (j - i - 1) (by omega) this.symm
  refine ⟨m, hm0, hlist, hdist, ?_⟩
  rcases hend with hend | hend
  · exact hend
  · -- fuel exhausted: the `n` pairwise different entries are all of `0..n-1`
    have hmn : m = n := by omega
    let c := (List.range m).map (fun j => (sig p)^[j] x)
    have hcnd : c.Nodup := by
      rw [List.nodup_map_iff_inj_on List.nodup_range]
      intro i hi j hj hij
      by_contra hne
      rcases Nat.lt_or_gt_of_ne hne with h | h
      · exact hdist i j h (by simpa using hj) hij
      · exact hdist j i h (by simpa using hi) hij.symm
    have hcperm : c.Perm (List.range n) := by
      apply perm_of_nodup hcnd (by simp [c, hmn])
      intro y hy
      simp only [c, List.mem_map, List.mem_range] at hy
      obtain ⟨j, _, rfl⟩ := hy
      exact iter_lt hp hx j
    have hmem : (sig p)^[m] x ∈ c := perm_mem hcperm (iter_lt hp hx m)
    simp only [c, List.mem_map, List.mem_range] at hmem
    obtain ⟨i, hi, hieq⟩ := hmem
    cases i with
    | zero => simpa using hieq.symm
    | succ i =>
      exfalso
      have hm' : m = (m - 1) + 1 := by omega
      rw [hm', Function.iterate_succ_apply', Function.iterate_succ_apply'] at hieq
      have := sig_inj hp (iter_lt hp hx i) (iter_lt hp hx (m - 1)) hieq
      exact hdist i (m - 1) (by omega) (by omega) this

/-- what one entry of `cycles p` is: a duplicate-free list of numbers `< n` on which `σ` acts as the cyclic shift -/
structure GoodCycle (n : Nat) (p : List Nat) (cy : List Nat) : Prop where
  pos : 0 < cy.length
  nodup : cy.Nodup
  lt : ∀ y ∈ cy, y < n
  next : ∀ i (h : i < cy.length), sig p cy[i] = cy[(i + 1) % cy.length]'(Nat.mod_lt _ (Nat.lt_of_le_of_lt (Nat.zero_le i) h))

theorem goodCycle_cycleFrom (hp : p.Perm (List.range n)) {x : Nat} (hx : x < n) :
    GoodCycle n p (cycleFrom p x p.length x) ∧ x ∈ cycleFrom p x p.length x := by
  obtain ⟨m, hm0, hlist, hdist, hclose⟩ := cycle_props hp hx
  rw [hlist]
  refine ⟨⟨by simpa using hm0, ?_, ?_, ?_⟩, ?_⟩
  · rw [List.nodup_map_iff_inj_on List.nodup_range]
    intro i hi j hj hij
    by_contra hne
    rcases Nat.lt_or_gt_of_ne hne with h | h
    · exact hdist i j h (by simpa using hj) hij
    · exact hdist j i h (by simpa using hi) hij.symm
  · intro y hy
    simp only [List.mem_map, List.mem_range] at hy
    obtain ⟨j, _, rfl⟩ := hy
    exact iter_lt hp hx j
  · intro i h
    have hi : i < m := by simpa using h
    simp only [List.getElem_map, List.getElem_range, List.length_map, List.length_range]
    have e : sig p ((sig p)^[i] x) = (sig p)^[i + 1] x := (Function.iterate_succ_apply' _ _ _).symm
    rw [e]
    by_cases hlast : i + 1 < m
    · rw [Nat.mod_eq_of_lt hlast]
    · have : i + 1 = m := by omega
      rw [this, Nat.mod_self, hclose]; rfl
  · simp only [List.mem_map, List.mem_range]
    exact ⟨0, hm0, rfl⟩

theorem GoodCycle.fwd {cy : List Nat} (hc : GoodCycle n p cy) {y : Nat} (hy : y ∈ cy) : sig p y ∈ cy := by
  obtain ⟨i, hi, rfl⟩ := List.getElem_of_mem hy
  rw [hc.next i hi]
  exact List.getElem_mem _

theorem GoodCycle.bwd (hp : p.Perm (List.range n)) {cy : List Nat} (hc : GoodCycle n p cy) {y : Nat} (hy : y < n)
    (h : sig p y ∈ cy) : y ∈ cy := by
  obtain ⟨j, hj, hjeq⟩ := List.getElem_of_mem h
  have hpos := hc.pos
  -- the predecessor position
  have key : ∃ i, ∃ hi : i < cy.length, (i + 1) % cy.length = j := by
    cases j with
    | zero => exact ⟨cy.length - 1, by omega, by rw [Nat.sub_add_cancel hpos, Nat.mod_self]⟩
    | succ j => exact ⟨j, by omega, Nat.mod_eq_of_lt hj⟩
  obtain ⟨i, hi, hij⟩ := key
  have h1 := hc.next i hi
  have h2 : sig p cy[i] = sig p y := by
    rw [h1, ← hjeq]; congr 1
  have := sig_inj hp (hc.lt _ (List.getElem_mem hi)) hy h2
  rw [← this]; exact List.getElem_mem hi

/-! ### 2. the outer loop: the cycles found are pairwise disjoint and cover `0..n-1` -/

/-- `seen` is a union of whole orbits -/
def Closed (n : Nat) (p : List Nat) (seen : List Nat) : Prop :=
  ∀ y, y < n → (y ∈ seen ↔ sig p y ∈ seen)

theorem cyclesAux_spec (hp : p.Perm (List.range n)) : ∀ (todo seen : List Nat),
    (∀ x ∈ todo, x < n) → Closed n p seen →
    (∀ cy ∈ cyclesAux p todo seen, GoodCycle n p cy ∧ ∀ y ∈ cy, y ∉ seen) ∧
    (cyclesAux p todo seen).Pairwise List.Disjoint ∧
    (∀ x ∈ todo, x ∈ seen ∨ ∃ cy ∈ cyclesAux p todo seen, x ∈ cy) := by
  intro todo
  induction todo with
  | nil => intro seen _ _; simp [cyclesAux]
  | cons x todo ih =>
    intro seen htodo hcl
    have hx : x < n := htodo x (List.mem_cons_self)
    have htodo' : ∀ t ∈ todo, t < n := fun t ht => htodo t (List.mem_cons_of_mem _ ht)
    by_cases hseen : x ∈ seen
    · have : seen.contains x = true := by simpa using hseen
      simp only [cyclesAux, this, if_true]
      obtain ⟨h1, h2, h3⟩ := ih seen htodo' hcl
      refine ⟨h1, h2, ?_⟩
      intro t ht
      rcases List.mem_cons.1 ht with rfl | ht
      · exact Or.inl hseen
      · exact h3 t ht
    · have : seen.contains x = false := by simpa using hseen
      simp only [cyclesAux, this, Bool.false_eq_true, ↓reduceIte]
      obtain ⟨hgood, hxc⟩ := goodCycle_cycleFrom hp hx
      set cy := cycleFrom p x p.length x with hc
      -- cy is disjoint from seen
      have hdisj : ∀ y ∈ cy, y ∉ seen := by
        obtain ⟨m, hm0, hlist, _, _⟩ := cycle_props hp hx
        intro y hy hys
        rw [← hc] at hlist
        rw [hlist] at hy
        simp only [List.mem_map, List.mem_range] at hy
        obtain ⟨j, _, rfl⟩ := hy
        -- walk back along the orbit
        have back : ∀ j, (sig p)^[j] x ∈ seen → x ∈ seen := by
          intro j
          induction j with
          | zero => intro h; simpa using h
          | succ j ihj =>
            intro h
            rw [Function.iterate_succ_apply'] at h
            exact ihj ((hcl _ (iter_lt hp hx j)).2 h)
        exact hseen (back j hys)
      have hcl' : Closed n p (cy ++ seen) := by
        intro y hy
        simp only [List.mem_append]
        constructor
        · rintro (h | h)
          · exact Or.inl (hgood.fwd h)
          · exact Or.inr ((hcl y hy).1 h)
        · rintro (h | h)
          · exact Or.inl (hgood.bwd hp hy h)
          · exact Or.inr ((hcl y hy).2 h)
      obtain ⟨h1, h2, h3⟩ := ih (cy ++ seen) htodo' hcl'
      refine ⟨?_, ?_, ?_⟩
      · intro d hd
        rcases List.mem_cons.1 hd with rfl | hd
        · exact ⟨hgood, hdisj⟩
        · exact ⟨(h1 d hd).1, fun y hy hys => (h1 d hd).2 y hy (List.mem_append_right _ hys)⟩
      · rw [List.pairwise_cons]
        refine ⟨?_, h2⟩
        intro d hd
        rw [List.disjoint_left]
        intro y hyc hyd
        exact (h1 d hd).2 y hyd (List.mem_append_left _ hyc)
      · intro t ht
        rcases List.mem_cons.1 ht with rfl | ht
        · exact Or.inr ⟨cy, List.mem_cons_self, hxc⟩
        · rcases h3 t ht with h | ⟨d, hd, htd⟩
          · rcases List.mem_append.1 h with h | h
            · exact Or.inr ⟨cy, List.mem_cons_self, h⟩
            · exact Or.inl h
          · exact Or.inr ⟨d, List.mem_cons_of_mem _ hd, htd⟩

/-- **`cycles p`**: good cycles, pairwise disjoint, covering `0..n-1` -/
theorem cycles_spec (hp : p.Perm (List.range n)) :
    (∀ cy ∈ cycles p, GoodCycle n p cy) ∧ (cycles p).Pairwise List.Disjoint ∧ ∀ x, x < n → ∃ cy ∈ cycles p, x ∈ cy := by
  have hl := perm_length hp
  obtain ⟨h1, h2, h3⟩ := cyclesAux_spec hp (List.range p.length) []
    (by intro x hx; rw [hl] at hx; simpa using hx) (by intro y _; simp)
  refine ⟨fun cy hc => (h1 cy hc).1, h2, ?_⟩
  intro x hx
  rcases h3 x (by rw [hl]; simpa using hx) with h | h
  · simp at h
  · exact h

end

/-! ### 3. the permutation of `Fin n`, and its sign as a product over the cycles found -/

/-- product of the cyclic permutations of pairwise disjoint lists: on a member of one list only that list acts -/
theorem prod_formPerm_fix {α : Type} [DecidableEq α] : ∀ (L : List (List α)) (x : α),
    (∀ l ∈ L, x ∉ l) → (L.map List.formPerm).prod x = x := by
  intro L
  induction L with
  | nil => intro x _; simp
  | cons d L ih =>
    intro x hx
    rw [List.map_cons, List.prod_cons, Equiv.Perm.mul_apply, ih x (fun l hl => hx l (List.mem_cons_of_mem _ hl))]
    exact List.formPerm_apply_of_notMem (hx d List.mem_cons_self)

theorem prod_formPerm_apply {α : Type} [DecidableEq α] : ∀ (L : List (List α)), L.Pairwise List.Disjoint →
    ∀ l ∈ L, ∀ x ∈ l, (L.map List.formPerm).prod x = l.formPerm x := by
  intro L
  induction L with
  | nil => intro _ l hl; simp at hl
  | cons d L ih =>
    intro hpw l hl x hx
    rw [List.pairwise_cons] at hpw
    rw [List.map_cons, List.prod_cons, Equiv.Perm.mul_apply]
    rcases List.mem_cons.1 hl with rfl | hl
    · rw [prod_formPerm_fix L x (fun l' hl' hx' => (List.disjoint_left.1 (hpw.1 l' hl')) hx hx')]
    · rw [ih hpw.2 l hl x hx]
      exact List.formPerm_apply_of_notMem
        (fun h => (List.disjoint_left.1 (hpw.1 l hl)) h (List.formPerm_apply_mem_of_mem hx))

section
variable {n : Nat} {p : List Nat}

/-- the permutation of `Fin n` denoted by the tuple: `i ↦ p[i]` -/
noncomputable def permOf (hp : p.Perm (List.range n)) : Equiv.Perm (Fin n) :=
  Equiv.ofBijective (fun i => ⟨sig p i.val, sig_lt hp i.isLt⟩)
    (Finite.injective_iff_bijective.1 (fun a b h =>
      Fin.ext (sig_inj hp a.isLt b.isLt (by simpa using congrArg Fin.val h))))

theorem permOf_val (hp : p.Perm (List.range n)) (i : Fin n) : (permOf hp i).val = sig p i.val := rfl

variable [NeZero n]

def toFin (n : Nat) [NeZero n] (k : Nat) : Fin n := ⟨k % n, Nat.mod_lt _ (NeZero.pos n)⟩

theorem toFin_val {k : Nat} (hk : k < n) : (toFin n k).val = k := Nat.mod_eq_of_lt hk

theorem toFin_inj {a b : Nat} (ha : a < n) (hb : b < n) (h : toFin n a = toFin n b) : a = b := by
  have := congrArg Fin.val h
  rwa [toFin_val ha, toFin_val hb] at this

theorem toFin_of_fin (x : Fin n) : toFin n x.val = x := Fin.ext (toFin_val x.isLt)

omit [NeZero n] in
theorem sign_formPerm_nodup : ∀ (l : List (Fin n)), l.Nodup → Equiv.Perm.sign l.formPerm = (-1) ^ (l.length - 1)
  | [], _ => by simp
  | [a], _ => by simp
  | a :: b :: t, h => by
    have hc : (a :: b :: t).formPerm.IsCycle := List.isCycle_formPerm h (by simp)
    rw [hc.sign, List.support_formPerm_of_nodup _ h (by intro x hx; simp at hx), List.toFinset_card_of_nodup h]
    simp [pow_succ]

theorem prod_neg_one_pow (l : List Nat) : ((l.map fun a => ((-1 : ℤˣ)) ^ a)).prod = (-1) ^ l.sum := by
  induction l with
  | nil => simp
  | cons a l ih => simp [ih, pow_add]

/-- **the product of the cyclic shifts on the cycles found is the permutation** -/
theorem prod_cycles_eq_permOf (hp : p.Perm (List.range n)) :
    (((cycles p).map (·.map (toFin n))).map List.formPerm).prod = permOf hp := by
  obtain ⟨hgood, hpw, hcover⟩ := cycles_spec hp
  ext x
  obtain ⟨cy, hcy, hx⟩ := hcover x.val x.isLt
  have hg := hgood cy hcy
  have hmem : cy.map (toFin n) ∈ (cycles p).map (·.map (toFin n)) := List.mem_map.2 ⟨cy, hcy, rfl⟩
  have hxm : x ∈ cy.map (toFin n) := List.mem_map.2 ⟨x.val, hx, toFin_of_fin x⟩
  have hpwF : ((cycles p).map (·.map (toFin n))).Pairwise List.Disjoint := by
    rw [List.pairwise_map]
    refine (List.Pairwise.and_mem.1 hpw).imp ?_
    rintro a b ⟨ha, hb, hab⟩
    rw [List.disjoint_left]
    intro y hya hyb
    obtain ⟨u, hu, rfl⟩ := List.mem_map.1 hya
    obtain ⟨v, hv, huv⟩ := List.mem_map.1 hyb
    have := toFin_inj ((hgood b hb).lt v hv) ((hgood a ha).lt u hu) huv
    subst this
    exact (List.disjoint_left.1 hab) hu hv
  rw [prod_formPerm_apply _ hpwF _ hmem x hxm]
  have hnd : (cy.map (toFin n)).Nodup :=
    List.Nodup.map_on (fun a ha b hb h => toFin_inj (hg.lt a ha) (hg.lt b hb) h) hg.nodup
  obtain ⟨i, hi, hix⟩ := List.getElem_of_mem hx
  have hi' : i < (cy.map (toFin n)).length := by simpa using hi
  have hxi : x = (cy.map (toFin n))[i] := by
    rw [List.getElem_map, hix, toFin_of_fin]
  rw [permOf_val, hxi, List.formPerm_apply_getElem _ hnd i hi']
  simp only [List.getElem_map, List.length_map]
  rw [toFin_val (hg.lt _ (List.getElem_mem _)), toFin_val (hg.lt _ (List.getElem_mem _)), hg.next i hi]

/-- **the code's parity is the sign**: `cycleEven p ↔ sign = 1` -/
theorem cycleEven_iff_sign (hp : p.Perm (List.range n)) :
    cycleEven p = true ↔ Equiv.Perm.sign (permOf hp) = 1 := by
  obtain ⟨hgood, _, _⟩ := cycles_spec hp
  rw [← prod_cycles_eq_permOf hp, map_list_prod, List.map_map, List.map_map]
  have : (cycles p).map ((⇑Equiv.Perm.sign ∘ List.formPerm) ∘ fun x => x.map (toFin n)) =
      ((cycles p).map fun cy => cy.length - 1).map fun a => ((-1 : ℤˣ)) ^ a := by
    rw [List.map_map]
    apply List.map_congr_left
    intro cy hcy
    have hg := hgood cy hcy
    have hnd : (cy.map (toFin n)).Nodup :=
      List.Nodup.map_on (fun a ha b hb h => toFin_inj (hg.lt a ha) (hg.lt b hb) h) hg.nodup
    simp only [Function.comp_apply]
    rw [sign_formPerm_nodup _ hnd]; simp
  rw [this, prod_neg_one_pow]
  unfold cycleEven
  rw [beq_iff_eq, neg_one_pow_eq_one_iff_even (by decide), Nat.even_iff]

end

/-! ### 4. consequences: the even tuples form a subgroup of index 2, for every `n` -/

section
variable {n : Nat} {p q : List Nat}

theorem sig_compose (hq : q.Perm (List.range n)) {i : Nat} (hi : i < n) :
    sig (compose p q) i = sig p (sig q i) := by
  have hl := perm_length hq
  have hi' : i < q.length := by omega
  simp [sig, compose, List.getD_eq_getElem?_getD, List.getElem?_map, List.getElem?_eq_getElem hi']

theorem permOf_compose (hp : p.Perm (List.range n)) (hq : q.Perm (List.range n)) :
    permOf (compose_perm hp hq) = permOf hp * permOf hq := by
  ext i
  rw [Equiv.Perm.mul_apply, permOf_val, permOf_val, permOf_val, sig_compose hq i.isLt]

theorem permOf_range : permOf (List.Perm.refl (List.range n)) = 1 := by
  ext i
  rw [permOf_val, Equiv.Perm.one_apply]
  simp [sig, List.getD_eq_getElem?_getD]

theorem permOf_congr {p' : List Nat} (hp : p.Perm (List.range n)) (hp' : p'.Perm (List.range n)) (h : p = p') :
    permOf hp = permOf hp' := by subst h; rfl

/-- with the trivial case `n = 0` included -/
theorem cycleEven_iff_sign' (hp : p.Perm (List.range n)) :
    cycleEven p = true ↔ Equiv.Perm.sign (permOf hp) = 1 := by
  rcases Nat.eq_zero_or_pos n with h0 | hpos
  · subst h0
    have : p = [] := by simpa using hp.length_eq
    subst this
    constructor
    · intro _; rw [Subsingleton.elim (permOf hp) 1, map_one]
    · intro _; decide
  · have : NeZero n := ⟨by omega⟩
    exact cycleEven_iff_sign hp

theorem cycleEven_range (n : Nat) : cycleEven (List.range n) = true := by
  rw [cycleEven_iff_sign' (List.Perm.refl _), permOf_range, map_one]

theorem cycleEven_compose (hp : p.Perm (List.range n)) (hq : q.Perm (List.range n))
    (h1 : cycleEven p = true) (h2 : cycleEven q = true) : cycleEven (compose p q) = true := by
  rw [cycleEven_iff_sign' (compose_perm hp hq), permOf_compose hp hq, map_mul,
    (cycleEven_iff_sign' hp).1 h1, (cycleEven_iff_sign' hq).1 h2, one_mul]

theorem cycleEven_invPerm (hp : p.Perm (List.range n)) (h1 : cycleEven p = true) :
    cycleEven (invPerm n p) = true := by
  have hi := invPerm_perm hp
  rw [cycleEven_iff_sign' hi]
  have hmul : permOf hp * permOf hi = 1 := by
    rw [← permOf_compose hp hi, ← permOf_range]
    exact permOf_congr _ _ (compose_invPerm_right hp)
  have := congrArg Equiv.Perm.sign hmul
  rw [map_mul, (cycleEven_iff_sign' hp).1 h1, one_mul, map_one] at this
  exact this

/-! #### index 2: composing with the transposition of the first two points exchanges even and odd tuples -/

/-- the tuple `(1, 0, 2, 3, …, n-1)` -/
def swap01 (n : Nat) : List Nat := 1 :: 0 :: List.range' 2 (n - 2)

theorem swap01_perm (hn : 2 ≤ n) : (swap01 n).Perm (List.range n) := by
  have : List.range n = 0 :: 1 :: List.range' 2 (n - 2) := by
    obtain ⟨k, rfl⟩ : ∃ k, n = k + 2 := ⟨n - 2, by omega⟩
    rw [List.range_eq_range', List.range'_succ, List.range'_succ]
    simp
  rw [this]
  exact List.Perm.swap _ _ _

theorem sig_swap01 (hn : 2 ≤ n) {i : Nat} (hi : i < n) :
    sig (swap01 n) i = if i = 0 then 1 else if i = 1 then 0 else i := by
  unfold sig swap01
  match i, hi with
  | 0, _ => simp
  | 1, _ => simp
  | i + 2, hi =>
    have : i < n - 2 := by omega
    simp [List.getD_eq_getElem?_getD, List.getElem?_range' this]
    omega

theorem permOf_swap01 (hn : 2 ≤ n) :
    permOf (swap01_perm hn) = Equiv.swap (⟨0, by omega⟩ : Fin n) ⟨1, by omega⟩ := by
  ext i
  rw [permOf_val, sig_swap01 hn i.isLt, Equiv.swap_apply_def]
  by_cases h0 : i.val = 0
  · have : i = ⟨0, by omega⟩ := Fin.ext h0
    simp [this]
  · by_cases h1 : i.val = 1
    · have : i = ⟨1, by omega⟩ := Fin.ext h1
      simp [this]
    · have e0 : i ≠ ⟨0, by omega⟩ := fun h => h0 (congrArg Fin.val h)
      have e1 : i ≠ ⟨1, by omega⟩ := fun h => h1 (congrArg Fin.val h)
      simp [h0, h1, e0, e1]

theorem cycleEven_compose_swap01 (hn : 2 ≤ n) (hp : p.Perm (List.range n)) :
    cycleEven (compose p (swap01 n)) = !cycleEven p := by
  have hs := swap01_perm hn
  have hsign : Equiv.Perm.sign (permOf hs) = -1 := by
    rw [permOf_swap01 hn]
    exact Equiv.Perm.sign_swap (by intro h; simpa using congrArg Fin.val h)
  have key : Equiv.Perm.sign (permOf (compose_perm hp hs)) = - Equiv.Perm.sign (permOf hp) := by
    rw [permOf_compose hp hs, map_mul, hsign]; simp
  have e1 := cycleEven_iff_sign' (compose_perm hp hs)
  have e2 := cycleEven_iff_sign' hp
  rw [key] at e1
  rcases Int.units_eq_one_or (Equiv.Perm.sign (permOf hp)) with h | h
  · rw [h] at e1
    have a : cycleEven p = true := e2.2 h
    have b : cycleEven (compose p (swap01 n)) = false := by
      rw [Bool.eq_false_iff]; intro hb; have := e1.1 hb; revert this; decide
    rw [a, b]; rfl
  · rw [h] at e1
    have a : cycleEven p = false := by
      rw [Bool.eq_false_iff]; intro hb; have := e2.1 hb; rw [h] at this; revert this; decide
    have b : cycleEven (compose p (swap01 n)) = true := e1.2 (by simp)
    rw [a, b]; rfl

theorem compose_swap01_swap01 (hn : 2 ≤ n) (hp : p.Perm (List.range n)) :
    compose (compose p (swap01 n)) (swap01 n) = p := by
  have hs := swap01_perm hn
  rw [compose_assoc (perm_length hs) (fun x hx => perm_lt hs hx)]
  have : compose (swap01 n) (swap01 n) = List.range n := by
    unfold compose
    apply List.ext_getElem
    · simp [perm_length hs]
    · intro i h1 h2
      have hi : i < n := by simpa using h2
      have hi' : i < (swap01 n).length := by rw [perm_length hs]; exact hi
      simp only [List.getElem_map, List.getElem_range]
      have e1 : (swap01 n)[i] = sig (swap01 n) i := by
        simp [sig, List.getD_eq_getElem?_getD, List.getElem?_eq_getElem hi']
      rw [e1]
      show sig (swap01 n) (sig (swap01 n) i) = i
      rw [sig_swap01 hn hi]
      by_cases h0 : i = 0
      · subst h0; simp [sig_swap01 hn (by omega : 1 < n)]
      · by_cases h1 : i = 1
        · subst h1; simp [sig_swap01 hn (by omega : 0 < n)]
        · simp [h0, h1, sig_swap01 hn hi]
  rw [this, compose_range_right (perm_length hp)]

/-- **index 2**: exactly half of the `n!` tuples are kept by the filter (`n ≥ 2`) -/
theorem two_mul_length_altPerms (hn : 2 ≤ n) : 2 * (altPerms n).length = (perms n).length := by
  have hs := swap01_perm hn
  let φ : List Nat → List Nat := fun p => compose p (swap01 n)
  have hsplit := List.length_eq_length_filter_add (l := perms n) cycleEven
  have hperm : ((perms n).filter cycleEven).map φ |>.Perm ((perms n).filter (fun x => !cycleEven x)) := by
    rw [List.perm_ext_iff_of_nodup]
    · intro q
      simp only [List.mem_map, List.mem_filter, mem_perms]
      constructor
      · rintro ⟨p, ⟨hp, he⟩, rfl⟩
        exact ⟨compose_perm hp hs, by rw [cycleEven_compose_swap01 hn hp, he]; rfl⟩
      · rintro ⟨hq, ho⟩
        refine ⟨φ q, ⟨compose_perm hq hs, ?_⟩, compose_swap01_swap01 hn hq⟩
        show cycleEven (compose q (swap01 n)) = true
        rw [cycleEven_compose_swap01 hn hq]; simpa using ho
    · refine List.Nodup.map_on ?_ ((nodup_perms n).filter _)
      intro a ha b hb hab
      have ha' := mem_perms.1 (List.mem_filter.1 ha).1
      have hb' := mem_perms.1 (List.mem_filter.1 hb).1
      have := congrArg φ hab
      simp only [φ] at this
      rwa [compose_swap01_swap01 hn ha', compose_swap01_swap01 hn hb'] at this
    · exact (nodup_perms n).filter _
  have hlen := hperm.length_eq
  rw [List.length_map] at hlen
  unfold altPerms
  omega

end

end Numqi.FinGroup
