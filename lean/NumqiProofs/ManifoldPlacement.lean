/- C02: the linear placements of theta are injective. -/
import NumqiProofs.ManifoldSym

namespace Numqi.Manifold
open Matrix Finset
open Numqi.Gellmann (Scalars synthesis)

variable {dim : Nat}

/-- **the complex placement `θ ↦ i·Σ θ_a G_a` is injective** -/
theorem soGenerator_complex_injective (S : Scalars ℂ) (hS : S.Valid dim) (hd : 1 ≤ dim) (θ θ' : Nat → ℝ)
    (h : toM dim dim (soGenerator S dim false θ) = toM dim dim (soGenerator S dim false θ')) :
    ∀ p, p < dim * dim - 1 → θ p = θ' p := by
  rw [toM_soGenerator_complex, toM_soGenerator_complex] at h
  have h2 : Matrix.of (synthesis S dim (genVecC dim θ)) = Matrix.of (synthesis S dim (genVecC dim θ')) := by
    have := congrArg (fun X => (-Complex.I) • X) h
    simpa [smul_smul] using this
  have h3 : synthesis S dim (genVecC dim θ) = synthesis S dim (genVecC dim θ') := Matrix.of.injective h2
  intro p hp
  have hp' : p < dim * dim := by omega
  have e1 := Gellmann.coef_synthesis S hS hd (genVecC dim θ) hp'
  have e2 := Gellmann.coef_synthesis S hS hd (genVecC dim θ') hp'
  rw [h3, e2] at e1
  simp only [genVecC, if_pos hp] at e1
  exact_mod_cast e1.symm

/-- the traceless Hermitian placement `θ ↦ Σ θ_a G_a` is injective -/
theorem symmetric_traceless_complex_injective (S : Scalars ℂ) (hS : S.Valid dim) (hd : 1 ≤ dim) (θ θ' : Nat → ℝ)
    (h : toM dim dim (symmetricRaw S dim false true θ) = toM dim dim (symmetricRaw S dim false true θ')) :
    ∀ p, p < dim * dim - 1 → θ p = θ' p := by
  have hM : ∀ θ : Nat → ℝ, toM dim dim (symmetricRaw S dim false true θ) = Matrix.of (synthesis S dim (genVecC dim θ)) := by
    intro θ; ext r c
    simp only [toM, symmetricRaw, Matrix.of_apply, NMat.get_ofFn_fin, synthesisN_fin]; rfl
  rw [hM, hM] at h
  have h3 : synthesis S dim (genVecC dim θ) = synthesis S dim (genVecC dim θ') := Matrix.of.injective h
  intro p hp
  have hp' : p < dim * dim := by omega
  have e1 := Gellmann.coef_synthesis S hS hd (genVecC dim θ) hp'
  have e2 := Gellmann.coef_synthesis S hS hd (genVecC dim θ') hp'
  rw [h3, e2] at e1
  simp only [genVecC, if_pos hp] at e1
  exact_mod_cast e1.symm

/-- **the real placement (antisymmetric block, `.imag`) is injective** — the repaired real Cayley/exp chart is not constant -/
theorem soGenerator_real_injective (S : Scalars ℂ) (hS : S.Valid dim) (hd : 1 ≤ dim) (θ θ' : Nat → ℝ)
    (h : toM dim dim (soGenerator S dim true θ) = toM dim dim (soGenerator S dim true θ')) :
    ∀ p, p < dim * (dim - 1) / 2 → θ p = θ' p := by
  rw [toM_soGenerator_real, toM_soGenerator_real] at h
  have him : ∀ r c : Fin dim, (synthesis S dim (genVecR dim θ) r c).im = (synthesis S dim (genVecR dim θ') r c).im := by
    intro r c
    have := congrFun (congrFun h r) c
    simp only [Matrix.of_apply] at this
    exact_mod_cast this
  -- coefficient `N0 + p` of a Hermitian `H` depends only on `im H_ji` for the `p`-th pair `(i,j)`
  have key : ∀ (t : Nat → ℝ) (x : Fin dim × Fin dim), x.1 < x.2 →
      Gellmann.coef S dim (synthesis S dim (genVecR dim t)) (Gellmann.Kind.asym x).pos
        = (-(2 * (((synthesis S dim (genVecR dim t) x.2 x.1).im : ℝ) : ℂ)) * Complex.I) * (S.half * S.I) := by
    intro t x hx
    have hmem : Gellmann.Kind.asym x ∈ Gellmann.kinds dim := Gellmann.mem_kinds_of_wf hd (k := Gellmann.Kind.asym x) hx
    rw [Gellmann.coef_pos S _ hmem]
    have hH := Gellmann.synthesis_hermitian S hS hd (genVecR dim t) (fun a _ => genVecR_real t a)
    have hji := congrFun (congrFun hH x.1) x.2
    simp only [conjTranspose_apply, Matrix.of_apply] at hji
    simp only [Gellmann.coefK]
    rw [← hji]
    congr 1
    apply Complex.ext <;> simp [Complex.star_def]
    ring
  intro p hp
  have hlen : (Gellmann.pairs dim).length = dim * (dim - 1) / 2 := (Gellmann.half_pairs (d := dim)).symm
  have hp' : p < (Gellmann.pairs dim).length := by rw [hlen]; exact hp
  set x := (Gellmann.pairs dim)[p] with hx
  have hxmem : x ∈ Gellmann.pairs dim := List.getElem_mem hp'
  have hxlt : x.1 < x.2 := Gellmann.mem_pairs.1 hxmem
  have hidx : (Gellmann.pairs dim).idxOf x = p := Gellmann.nodup_pairs.idxOf_getElem p hp'
  have hpos : (Gellmann.Kind.asym x).pos = dim * (dim - 1) / 2 + p := by
    simp only [Gellmann.Kind.pos, hidx, hlen]
  have hlt : dim * (dim - 1) / 2 + p < dim * dim := by
    have := Gellmann.length_pairs (d := dim)
    obtain ⟨n, rfl⟩ : ∃ n, dim = n + 1 := ⟨dim - 1, by omega⟩
    simp only [Nat.add_sub_cancel] at this hlen hp ⊢
    have : (n + 1) * (n + 1) = (n + 1) * n + n + 1 := by ring
    omega
  have e1 := Gellmann.coef_synthesis S hS hd (genVecR dim θ) hlt
  have e2 := Gellmann.coef_synthesis S hS hd (genVecR dim θ') hlt
  rw [← hpos, key θ x hxlt] at e1
  rw [← hpos, key θ' x hxlt, ← him x.2 x.1, e1, hpos] at e2
  have hv : ∀ t : Nat → ℝ, genVecR dim t (dim * (dim - 1) / 2 + p) = ((t p : ℝ) : ℂ) := by
    intro t
    unfold genVecR
    rw [if_neg (by omega), if_pos (by omega)]
    congr 2; omega
  rw [hv, hv] at e2
  exact_mod_cast e2

end Numqi.Manifold
