/-
Pure matrix-analysis facts used by `NumqiProps/C13.lean` (they mention no model constant, so they are helper lemmas, not counted
property theorems): the decomposition identity in matrix form, `σ_y` identities and the local-unitary covariance of the spin flip in
Kronecker form, Gram-matrix purity bounds, Cauchy–Schwarz for overlaps, the entropy range of a spectrum.
-/
import NumqiProofs.EntangleConj
import NumqiProofs.EntangleNuc
import Mathlib.Tactic
import Mathlib.LinearAlgebra.Matrix.Determinant.Basic
import Mathlib.LinearAlgebra.Matrix.Adjugate
import Mathlib.LinearAlgebra.Matrix.Trace
import Mathlib.LinearAlgebra.Matrix.Kronecker
import Mathlib.LinearAlgebra.UnitaryGroup
import Mathlib.Data.Complex.Basic
import Mathlib.LinearAlgebra.Matrix.Notation
import Mathlib.Analysis.SpecialFunctions.Log.NegMulLog
import Mathlib.Analysis.Convex.Jensen
import Mathlib.Algebra.Order.Chebyshev

namespace Numqi.C13
open Numqi Numqi.Ent Matrix
open scoped Kronecker

variable {R : Type} [CommRing R] [StarRing R]

/-- **upper-bound theorem, matrix form.** With `ρ = S Sᴴ` (columns of `S`: `√λ_j v_j`) and any `X` (`k × r`) with
`XᴴX = 1`, the vectors `ψ_α = Σ_j X_{αj} S_{·j}` (columns of `S Xᵀ`) satisfy `Σ_α ψ_α ψ_αᴴ = ρ`, for all sizes. -/
theorem ensemble_decomposition {d r k : Type} [Fintype d] [Fintype r] [Fintype k] [DecidableEq r]
    (S : Matrix d r R) (X : Matrix k r R) (hX : Xᴴ * X = 1) :
    (S * Xᵀ) * (S * Xᵀ)ᴴ = S * Sᴴ := by
  have h : Xᵀ * Xᵀᴴ = 1 := by
    have : Xᵀ * Xᵀᴴ = (Xᴴ * X)ᵀ := by
      rw [transpose_mul]; rfl
    rw [this, hX, transpose_one]
  rw [conjTranspose_mul, Matrix.mul_assoc, ← Matrix.mul_assoc Xᵀ, h, Matrix.one_mul]

def sigmaY : Matrix (Fin 2) (Fin 2) ℂ := !![0, -Complex.I; Complex.I, 0]

/-- `σ_y ⊗ σ_y` in the computational basis -/
def sigmaYY : Matrix (Fin 4) (Fin 4) ℂ := !![0, 0, 0, -1; 0, 0, 1, 0; 0, 1, 0, 0; -1, 0, 0, 0]

/-- `sigmaYY` is the Kronecker product of two `σ_y` (row index `2a+b`) -/
theorem sigmaYY_eq_kron (i j : Fin 2 × Fin 2) :
    sigmaYY (finProdFinEquiv i) (finProdFinEquiv j) = sigmaY i.1 j.1 * sigmaY i.2 j.2 := by
  obtain ⟨a, b⟩ := i
  obtain ⟨c, d⟩ := j
  fin_cases a <;> fin_cases b <;> fin_cases c <;> fin_cases d <;>
    simp [sigmaYY, sigmaY, finProdFinEquiv]

/-- for every `2×2` matrix `σy Mᵀ σy` is the adjugate -/
theorem sigmaY_transpose_sigmaY (M : Matrix (Fin 2) (Fin 2) ℂ) : sigmaY * Mᵀ * sigmaY = M.adjugate := by
  rw [Matrix.adjugate_fin_two]
  ext i j
  fin_cases i <;> fin_cases j <;>
    simp [sigmaY, Matrix.mul_apply, Fin.sum_univ_two, Matrix.vecMul, dotProduct] <;>
    ring_nf <;> simp [Complex.I_sq]

/-- **`σy conj(U) σy = conj(det U) · U = U / det U`** for every `2×2` unitary `U` -/
theorem sigmaY_conj_unitary (U : Matrix (Fin 2) (Fin 2) ℂ) (hU : U * Uᴴ = 1) :
    sigmaY * U.map star * sigmaY = star U.det • U := by
  have h1 : U.map star = Uᴴᵀ := by ext i j; simp [conjTranspose_apply]
  rw [h1, sigmaY_transpose_sigmaY]
  have h2 : Uᴴ * Uᴴ.adjugate = Uᴴ.det • (1 : Matrix (Fin 2) (Fin 2) ℂ) := Matrix.mul_adjugate Uᴴ
  have h3 : U * (Uᴴ * Uᴴ.adjugate) = Uᴴ.adjugate := by rw [← Matrix.mul_assoc, hU, Matrix.one_mul]
  rw [← h3, h2, Matrix.mul_smul, Matrix.mul_one, Matrix.det_conjTranspose]

theorem sigmaY_mul_self : sigmaY * sigmaY = 1 := by
  ext i j
  fin_cases i <;> fin_cases j <;> simp [sigmaY, Matrix.mul_apply, Fin.sum_univ_two]

theorem sigmaY_conjTranspose : sigmaYᴴ = sigmaY := by
  ext i j
  fin_cases i <;> fin_cases j <;> simp [sigmaY, conjTranspose_apply]

theorem det_norm_one (U : Matrix (Fin 2) (Fin 2) ℂ) (hU : U * Uᴴ = 1) : star U.det * U.det = 1 := by
  have := congrArg Matrix.det hU
  rw [Matrix.det_mul, Matrix.det_conjTranspose, Matrix.det_one] at this
  rw [mul_comm]; exact this

/-- **local-unitary covariance of the spin flip.** With `W = U ⊗ V` (`U, V ∈ U(2)`) and `Y = σy ⊗ σy`:
`Y (W ρ Wᴴ)* Y = W (Y ρ* Y) Wᴴ`; hence `ρ ρ̃ ↦ W (ρ ρ̃) Wᴴ` is a similarity and the spectrum read by `eigvalsh`
(and with it concurrence, EOF, GME) is unchanged. -/
theorem kron_spinFlip_local_unitary (U V : Matrix (Fin 2) (Fin 2) ℂ) (hU : U * Uᴴ = 1) (hV : V * Vᴴ = 1)
    (ρ : Matrix (Fin 2 × Fin 2) (Fin 2 × Fin 2) ℂ) :
    (sigmaY ⊗ₖ sigmaY) * ((U ⊗ₖ V) * ρ * (U ⊗ₖ V)ᴴ).map star * (sigmaY ⊗ₖ sigmaY)
      = (U ⊗ₖ V) * ((sigmaY ⊗ₖ sigmaY) * ρ.map star * (sigmaY ⊗ₖ sigmaY)) * (U ⊗ₖ V)ᴴ := by
  set Y := sigmaY ⊗ₖ sigmaY with hY
  set W := U ⊗ₖ V with hW
  have hYY : Y * Y = 1 := by
    rw [hY, ← Matrix.mul_kronecker_mul, sigmaY_mul_self, Matrix.one_kronecker_one]
  have hYh : Yᴴ = Y := by rw [hY, Matrix.conjTranspose_kronecker, sigmaY_conjTranspose]
  have hmap : ∀ A B : Matrix (Fin 2 × Fin 2) (Fin 2 × Fin 2) ℂ, (A * B).map star = A.map star * B.map star := by
    intro A B; exact Matrix.map_mul (f := starRingEnd ℂ)
  have hWs : W.map star = U.map star ⊗ₖ V.map star := by
    ext ⟨a, b⟩ ⟨c, d⟩; simp [hW, Matrix.kroneckerMap_apply]
  have key : Y * W.map star * Y = (star U.det * star V.det) • W := by
    rw [hWs, hY, ← Matrix.mul_kronecker_mul, ← Matrix.mul_kronecker_mul, sigmaY_conj_unitary U hU, sigmaY_conj_unitary V hV,
      Matrix.smul_kronecker, Matrix.kronecker_smul, smul_smul]
  have key2 : Y * Wᴴ.map star * Y = (U.det * V.det) • Wᴴ := by
    have h1 : Wᴴ.map star = (W.map star)ᴴ := by ext i j; simp [conjTranspose_apply]
    have h2 : Y * (W.map star)ᴴ * Y = (Y * W.map star * Y)ᴴ := by
      rw [conjTranspose_mul, conjTranspose_mul, hYh, Matrix.mul_assoc]
    rw [h1, h2, key, conjTranspose_smul]
    simp [star_mul']
  calc Y * (W * ρ * Wᴴ).map star * Y
      = Y * (W.map star * ρ.map star * Wᴴ.map star) * Y := by rw [hmap, hmap]
    _ = (Y * W.map star * Y) * (Y * ρ.map star * Y) * (Y * Wᴴ.map star * Y) := by
        have e : ∀ A B C : Matrix (Fin 2 × Fin 2) (Fin 2 × Fin 2) ℂ, Y * (A * B * C) * Y = (Y * A * Y) * (Y * B * Y) * (Y * C * Y) := by
          intro A B C
          calc Y * (A * B * C) * Y = Y * A * (1 : Matrix _ _ ℂ) * B * (1 : Matrix _ _ ℂ) * C * Y := by
                simp [Matrix.mul_assoc]
            _ = Y * A * (Y * Y) * B * (Y * Y) * C * Y := by rw [hYY]
            _ = (Y * A * Y) * (Y * B * Y) * (Y * C * Y) := by simp only [Matrix.mul_assoc]
        exact e _ _ _
    _ = W * (Y * ρ.map star * Y) * Wᴴ := by
        rw [key, key2, Matrix.smul_mul, Matrix.mul_smul, Matrix.smul_mul, smul_smul]
        have : U.det * V.det * (star U.det * star V.det) = 1 := by
          have a := det_norm_one U hU
          have b := det_norm_one V hV
          calc U.det * V.det * (star U.det * star V.det) = (star U.det * U.det) * (star V.det * V.det) := by ring
            _ = 1 := by rw [a, b, one_mul]
        rw [this, one_smul]


/-- **purity of an (unnormalised) reduced state is at most the square of its trace**: for `G = A Aᴴ` (the reduced state of
the ensemble member with amplitude matrix `A`, theorem `ensembleRdm_eq`), `Σ_ij |G_ij|² ≤ (Σ_ib |A_ib|²)²` -/
theorem gram_purity_le {m n : Type} [Fintype m] [Fintype n] (A : Matrix m n ℂ) :
    ∑ i, ∑ j, ‖(A * Aᴴ) i j‖ ^ 2 ≤ (∑ i, ∑ b, ‖A i b‖ ^ 2) ^ 2 := by
  have h : ∀ i j, ‖(A * Aᴴ) i j‖ ^ 2 ≤ (∑ b, ‖A i b‖ ^ 2) * (∑ b, ‖A j b‖ ^ 2) := by
    intro i j
    have e : (A * Aᴴ) i j = star (fun b => A j b) ⬝ᵥ (fun b => A i b) := by
      simp [Matrix.mul_apply, conjTranspose_apply, dotProduct, mul_comm]
    rw [e, mul_comm]
    exact norm_dotProduct_sq_le _ _
  calc ∑ i, ∑ j, ‖(A * Aᴴ) i j‖ ^ 2 ≤ ∑ i, ∑ j, (∑ b, ‖A i b‖ ^ 2) * (∑ b, ‖A j b‖ ^ 2) :=
        Finset.sum_le_sum fun i _ => Finset.sum_le_sum fun j _ => h i j
    _ = (∑ i, ∑ b, ‖A i b‖ ^ 2) ^ 2 := by rw [sq, Finset.sum_mul_sum]

/-- … and at least `trace²/dim`: the purity of the normalised reduced state lies in `[1/d, 1]` -/
theorem gram_purity_ge {m n : Type} [Fintype m] [Fintype n] (A : Matrix m n ℂ) :
    (∑ i, ∑ b, ‖A i b‖ ^ 2) ^ 2 ≤ (Fintype.card m : ℝ) * ∑ i, ∑ j, ‖(A * Aᴴ) i j‖ ^ 2 := by
  have hd : ∀ i, ‖(A * Aᴴ) i i‖ = ∑ b, ‖A i b‖ ^ 2 := by
    intro i
    have e : (A * Aᴴ) i i = ((∑ b, ‖A i b‖ ^ 2 : ℝ) : ℂ) := by
      simp only [Matrix.mul_apply, conjTranspose_apply]
      push_cast
      refine Finset.sum_congr rfl fun b _ => ?_
      rw [Complex.star_def, Complex.mul_conj']
    rw [e, Complex.norm_real, Real.norm_of_nonneg (Finset.sum_nonneg fun _ _ => by positivity)]
  calc (∑ i, ∑ b, ‖A i b‖ ^ 2) ^ 2 ≤ (Fintype.card m : ℝ) * ∑ i, (∑ b, ‖A i b‖ ^ 2) ^ 2 := by
        have := sq_sum_le_card_mul_sum_sq (s := (Finset.univ : Finset m)) (f := fun i => ∑ b, ‖A i b‖ ^ 2)
        simpa using this
    _ ≤ (Fintype.card m : ℝ) * ∑ i, ∑ j, ‖(A * Aᴴ) i j‖ ^ 2 := by
        gcongr with i _
        rw [← hd i]
        exact Finset.single_le_sum (f := fun j => ‖(A * Aᴴ) i j‖ ^ 2) (fun _ _ => by positivity) (Finset.mem_univ i)

/-- overlap of a member with a unit vector is at most the member's weight (GME loss members lie in `[0, p_α]`) -/
theorem overlap_sq_le {n : Type} [Fintype n] (φ ψ : n → ℂ) (hφ : ∑ k, ‖φ k‖ ^ 2 = 1) :
    ‖∑ k, ψ k * φ k‖ ^ 2 ≤ ∑ k, ‖ψ k‖ ^ 2 := by
  have := norm_dotProduct_sq_le (fun k => star (φ k)) ψ
  simp only [dotProduct, Pi.star_apply, star_star, norm_star, hφ, one_mul] at this
  simpa [mul_comm] using this

/-- entropy of a member: for a spectrum `λ ≥ 0` with `Σλ = p`, `0 ≤ p log p − Σ λ log λ ≤ p log d` -/
theorem member_entropy_range {d : Nat} (lam : Fin d → ℝ) (h0 : ∀ i, 0 ≤ lam i) (p : ℝ) (hp : ∑ i, lam i = p) (hd : 0 < d) :
    0 ≤ p * Real.log p - ∑ i, lam i * Real.log (lam i) ∧ p * Real.log p - ∑ i, lam i * Real.log (lam i) ≤ p * Real.log d := by
  have hp0 : 0 ≤ p := hp ▸ Finset.sum_nonneg fun i _ => h0 i
  constructor
  · have : ∑ i, lam i * Real.log (lam i) ≤ ∑ i, lam i * Real.log p := by
      refine Finset.sum_le_sum fun i _ => ?_
      rcases (h0 i).eq_or_lt with h | h
      · simp [← h]
      · have hle : lam i ≤ p := hp ▸ Finset.single_le_sum (fun j _ => h0 j) (Finset.mem_univ i)
        exact mul_le_mul_of_nonneg_left (Real.log_le_log h hle) (h0 i)
    rw [← Finset.sum_mul, hp] at this
    linarith
  · -- Jensen for the concave x ↦ -x log x with uniform weights
    have hd' : (0 : ℝ) < d := by exact_mod_cast hd
    have hJ := Real.concaveOn_negMulLog.le_map_sum (t := Finset.univ) (w := fun _ : Fin d => (1 / d : ℝ)) (p := lam)
      (fun _ _ => by positivity) (by simp [hd'.ne']) (fun i _ => h0 i)
    simp only [smul_eq_mul, ← Finset.mul_sum, hp, Real.negMulLog] at hJ
    have e : ∑ i, -(lam i) * Real.log (lam i) = -∑ i, lam i * Real.log (lam i) := by
      rw [← Finset.sum_neg_distrib]; exact Finset.sum_congr rfl fun i _ => by ring
    rw [e] at hJ
    rcases hp0.eq_or_lt with h | h
    · rw [← h] at hJ ⊢
      have hz : ∀ i, lam i = 0 := fun i =>
        (Finset.sum_eq_zero_iff_of_nonneg fun j _ => h0 j).1 (hp.trans h.symm) i (Finset.mem_univ i)
      simp [hz]
    · have hl : Real.log (1 / d * p) = Real.log p - Real.log d := by
        rw [Real.log_mul (by positivity) h.ne', one_div, Real.log_inv]; ring
      rw [hl] at hJ
      have : 1 / (d : ℝ) * (-∑ i, lam i * Real.log (lam i)) ≤ 1 / (d : ℝ) * (-(p * (Real.log p - Real.log d))) := by
        calc _ ≤ -(1 / d * p) * (Real.log p - Real.log d) := hJ
          _ = _ := by ring
      have := le_of_mul_le_mul_left this (by positivity)
      linarith



end Numqi.C13
