/-
Helper lemmas for the Pauli model (C08, reused by C07/C19).
-/
import Mathlib.Tactic
import Mathlib.Data.Matrix.Mul
import Mathlib.Algebra.BigOperators.Fin
import Mathlib.Data.ZMod.Basic
import NumqiModel.Pauli

namespace Numqi
open Numqi.Pauli

variable {n : Nat}

namespace Bits

theorem dotN_eq_sum (a b : Bits n) : dotN a b = ∑ i, (a i && b i).toNat := by
  unfold dotN; rw [Fin.sum_univ_def]

theorem beq_iff (a b : Bits n) : beq a b = true ↔ a = b := by
  unfold beq; simp [List.all_eq_true, funext_iff]

theorem dotN_comm (a b : Bits n) : dotN a b = dotN b a := by
  simp only [dotN_eq_sum]; exact Finset.sum_congr rfl (fun i _ => by rw [Bool.and_comm])

theorem xor_assoc' (a b c : Bits n) : xor (xor a b) c = xor a (xor c b) := by
  funext i; simp only [xor]; cases a i <;> cases b i <;> cases c i <;> rfl

theorem xor_self (a : Bits n) : xor a a = fun _ => false := by
  funext i; simp [xor]

theorem xor_false (a : Bits n) : xor a (fun _ => false) = a := by
  funext i; simp [xor]

theorem xor_cancel_right {a b c : Bits n} (h : xor a c = xor b c) : a = b := by
  funext i; have := congrFun h i; simp only [xor] at this
  revert this; cases a i <;> cases b i <;> cases c i <;> simp

/-- parity of the dot product is additive in the second argument -/
theorem dotN_xor_right (z b x : Bits n) :
    dotN z (xor b x) % 2 = (dotN z b + dotN z x) % 2 := by
  rw [← ZMod.natCast_eq_natCast_iff']
  simp only [dotN_eq_sum, Nat.cast_add, Nat.cast_sum, ← Finset.sum_add_distrib]
  refine Finset.sum_congr rfl (fun i _ => ?_)
  simp only [xor]
  cases z i <;> cases b i <;> cases x i <;> decide

theorem dotN_xor_left (z w b : Bits n) :
    dotN (xor z w) b % 2 = (dotN z b + dotN w b) % 2 := by
  rw [dotN_comm, dotN_xor_right, dotN_comm b z, dotN_comm b w]

theorem dotN_zero_left (b : Bits n) : dotN (fun _ => false) b = 0 := by
  simp [dotN_eq_sum]

end Bits

theorem toNat_mod2_beq (k : Nat) : ((k % 2 == 1) : Bool).toNat = k % 2 := by
  rcases Nat.mod_two_eq_zero_or_one k with h | h <;> simp [h]

section ring
variable {R : Type*} [CommRing R]

/-- powers of a square root of `-1` depend on the exponent mod 4 -/
theorem ipow_mod {I : R} (hI : I * I = -1) (k : Nat) : I ^ (k % 4) = I ^ k := by
  have h4 : I ^ 4 = 1 := by
    have : I ^ 4 = (I * I) * (I * I) := by ring
    rw [this, hI]; ring
  conv_rhs => rw [← Nat.div_add_mod k 4, pow_add, pow_mul, h4, one_pow, one_mul]

theorem ipow_congr {I : R} (hI : I * I = -1) {a b : Nat} (h : a % 4 = b % 4) : I ^ a = I ^ b := by
  rw [← ipow_mod hI a, ← ipow_mod hI b, h]

/-- if `1 ≠ -1` the four powers of `I` are distinct -/
theorem ipow_inj {I : R} (hI : I * I = -1) (h2 : (1 : R) ≠ -1) {a b : Nat} (h : I ^ a = I ^ b) :
    a % 4 = b % 4 := by
  have hsq : I ^ 2 = -1 := by rw [pow_two, hI]
  have h3 : I ^ 3 = -I := by rw [pow_succ, hsq]; ring
  have h4 : I ^ 4 = 1 := by rw [← ipow_mod hI 4]; simp
  have hI1 : I ≠ 1 := fun e => h2 (by rw [← hI, e, mul_one])
  have hIm1 : I ≠ -1 := fun e => h2 (by rw [← hI, e]; ring)
  -- `I ^ c = 1` with `c = (a + (4 - b % 4)) % 4`
  have hb := Nat.mod_lt b (by norm_num : 4 > 0)
  have key : I ^ ((a + (4 - b % 4)) % 4) = 1 := by
    rw [ipow_mod hI, pow_add, h, ← pow_add, ← ipow_mod hI]
    have : (b + (4 - b % 4)) % 4 = 0 := by omega
    rw [this, pow_zero]
  have hc := Nat.mod_lt (a + (4 - b % 4)) (by norm_num : 4 > 0)
  generalize hcd : (a + (4 - b % 4)) % 4 = c at key hc
  interval_cases c
  · omega
  · exact absurd (by simpa using key) hI1
  · exact absurd (by rw [hsq] at key; exact key.symm) h2
  · rw [h3] at key
    exact absurd (by rw [← key]; ring) hIm1
end ring
end Numqi
