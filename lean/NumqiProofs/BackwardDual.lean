/-
The derivative used by the sweep theorem is the ε-coefficient of the forward pass over the dual numbers `R[ε]/(ε²)` (C04).
-/
import Mathlib.Algebra.DualNumber
import NumqiProofs.Backward

namespace Numqi
namespace Backward
open Finset TrivSqZeroExt

variable {R : Type} [CommRing R] {n k n' : Nat}

/-- `x + ε·dx` -/
def dualOf (x dx : R) : DualNumber R := inl x + inr dx

@[simp] theorem fst_dualOf (x dx : R) : (dualOf x dx).fst = x := by simp [dualOf]
@[simp] theorem snd_dualOf (x dx : R) : (dualOf x dx).snd = dx := by simp [dualOf]

theorem snd_mul' (a b : DualNumber R) : (a * b).snd = a.fst * b.snd + a.snd * b.fst := by
  rw [TrivSqZeroExt.snd_mul]; simp [mul_comm]

/-- a gate over the dual numbers: real part and ε-part of the result -/
theorem applyGate_dual (t : Fin k → Fin n) (U : Mat k (DualNumber R)) (ψ : Vec n (DualNumber R)) (x : Bits n) :
    (applyGate U t ψ x).fst = applyGate (fun a b => (U a b).fst) t (fun y => (ψ y).fst) x ∧
    (applyGate U t ψ x).snd = applyGate (fun a b => (U a b).fst) t (fun y => (ψ y).snd) x
                              + applyGate (fun a b => (U a b).snd) t (fun y => (ψ y).fst) x := by
  simp only [applyGate, sumBits_eq_sum, fst_sum, snd_sum, TrivSqZeroExt.fst_mul, snd_mul', sum_add_distrib, and_self]

theorem applyGate_zero (t : Fin k → Fin n) (ψ : Vec n R) (x : Bits n) :
    applyGate (fun _ _ => (0 : R)) t ψ x = 0 := by
  simp [applyGate, sumBits_eq_sum]

theorem applyControlled_dual (isCtrl : Fin n → Bool) (rest : Fin n' → Fin n) (tNew : Fin k → Fin n')
    (U : Mat k (DualNumber R)) (ψ : Vec n (DualNumber R)) (x : Bits n) :
    (applyControlled U isCtrl rest tNew ψ x).fst
      = applyControlled (fun a b => (U a b).fst) isCtrl rest tNew (fun y => (ψ y).fst) x ∧
    (applyControlled U isCtrl rest tNew ψ x).snd
      = applyControlled (fun a b => (U a b).fst) isCtrl rest tNew (fun y => (ψ y).snd) x
        + (if ctrlOn isCtrl x then applyGate (fun a b => (U a b).snd) tNew (slice rest fun y => (ψ y).fst) (x.sel rest) else 0) := by
  simp only [applyControlled]
  split
  · have := applyGate_dual tNew U (fun z => ψ ((Bits.ones n).upd rest z)) (x.sel rest)
    exact ⟨this.1, this.2⟩
  · simp

/-- the gate tensors `Θ + ε·δΘ` -/
def dualParams (Θ δΘ : Params R) : Params (DualNumber R) := fun k s a b => dualOf (Θ k s a b) (δΘ k s a b)

/-- the same gate list over the dual numbers (constant arrays have no ε-part) -/
def Src.lift : Src k R → Src k (DualNumber R)
  | .fixed U => .fixed fun a b => inl (U a b)
  | .param s => .param s

def PGate.lift : PGate n R → PGate n (DualNumber R)
  | .unitary src t => .unitary src.lift t
  | .control src c r tn => .control src.lift c r tn
  | .custom src d => .custom src.lift d

theorem src_get_fst (Θ δΘ : Params R) (src : Src k R) :
    (fun a b => ((src.lift).get (dualParams Θ δΘ) a b).fst) = src.get Θ := by
  cases src <;> funext a b <;> simp [Src.lift, Src.get, dualParams]

theorem gate_dual (Θ δΘ : Params R) (g : PGate n R) (ψ : Vec n (DualNumber R)) (x : Bits n) :
    (g.lift.apply (dualParams Θ δΘ) ψ x).fst = g.apply Θ (fun y => (ψ y).fst) x ∧
    (g.lift.apply (dualParams Θ δΘ) ψ x).snd
      = g.apply Θ (fun y => (ψ y).snd) x + g.dapply δΘ (fun y => (ψ y).fst) x := by
  cases g with
  | unitary src t =>
    have h := applyGate_dual t (src.lift.get (dualParams Θ δΘ)) ψ x
    rw [src_get_fst] at h
    refine ⟨h.1, ?_⟩
    rw [show (PGate.unitary src t).lift.apply (dualParams Θ δΘ) ψ x
        = applyGate (src.lift.get (dualParams Θ δΘ)) t ψ x from rfl, h.2]
    congr 1
    cases src with
    | fixed U =>
      show applyGate (fun a b => (inl (U a b) : DualNumber R).snd) t _ x = 0
      simp only [TrivSqZeroExt.snd_inl]; exact applyGate_zero t _ x
    | param s =>
      simp only [Src.lift, Src.get, dualParams, snd_dualOf, PGate.dapply]
  | control src c r tn =>
    have h := applyControlled_dual c r tn (src.lift.get (dualParams Θ δΘ)) ψ x
    rw [src_get_fst] at h
    refine ⟨h.1, ?_⟩
    rw [show (PGate.control src c r tn).lift.apply (dualParams Θ δΘ) ψ x
        = applyControlled (src.lift.get (dualParams Θ δΘ)) c r tn ψ x from rfl, h.2]
    congr 1
    cases src with
    | fixed U =>
      show (if ctrlOn c x then applyGate (fun a b => (inl (U a b) : DualNumber R).snd) tn _ (x.sel r) else 0) = 0
      simp only [TrivSqZeroExt.snd_inl, applyGate_zero, ite_self]
    | param s =>
      simp only [Src.lift, Src.get, dualParams, snd_dualOf, PGate.dapply]
  | custom src d =>
    have hfst : (scalarOf (src.lift.get (dualParams Θ δΘ))).fst = scalarOf (src.get Θ) :=
      congrFun (congrFun (src_get_fst Θ δΘ src) _) _
    have happ : (PGate.custom src d).lift.apply (dualParams Θ δΘ) ψ x
        = customApply (scalarOf (src.lift.get (dualParams Θ δΘ))) d ψ x := rfl
    rw [happ]
    cases src with
    | fixed U =>
      have hsnd : (scalarOf ((Src.fixed U).lift.get (dualParams Θ δΘ))).snd = 0 := by
        simp [Src.lift, Src.get, scalarOf]
      simp only [customApply, PGate.apply, PGate.dapply, add_zero]
      split
      · simp only [TrivSqZeroExt.fst_mul, snd_mul', hfst, hsnd, mul_zero, zero_add, and_self]
      · exact ⟨rfl, rfl⟩
    | param s =>
      have hsnd : (scalarOf ((Src.param s : Src 0 R).lift.get (dualParams Θ δΘ))).snd = scalarOf (δΘ 0 s) := by
        simp [Src.lift, Src.get, scalarOf, dualParams]
      simp only [customApply, PGate.apply, PGate.dapply]
      split
      · simp only [TrivSqZeroExt.fst_mul, snd_mul', hfst, hsnd, true_and]
        exact add_comm _ _
      · simp

/-- **`dforward` is the ε-coefficient of the forward pass at `Θ + ε·δΘ`, `ψ + ε·δψ`**, and the ε⁰-coefficient is the forward pass -/
theorem forward_dual (Θ δΘ : Params R) (gates : List (PGate n R)) (ψ : Vec n (DualNumber R)) (x : Bits n) :
    (forward (dualParams Θ δΘ) (gates.map PGate.lift) ψ x).fst = forward Θ gates (fun y => (ψ y).fst) x ∧
    (forward (dualParams Θ δΘ) (gates.map PGate.lift) ψ x).snd
      = dforward Θ δΘ gates (fun y => (ψ y).fst) (fun y => (ψ y).snd) x := by
  induction gates generalizing ψ with
  | nil => exact ⟨rfl, rfl⟩
  | cons g rest ih =>
    have hf : forward (dualParams Θ δΘ) ((g :: rest).map PGate.lift) ψ
        = forward (dualParams Θ δΘ) (rest.map PGate.lift) (g.lift.apply (dualParams Θ δΘ) ψ) := rfl
    rw [hf]
    obtain ⟨i1, i2⟩ := ih (g.lift.apply (dualParams Θ δΘ) ψ)
    have e1 : (fun y => (g.lift.apply (dualParams Θ δΘ) ψ y).fst) = g.apply Θ (fun y => (ψ y).fst) :=
      funext fun y => (gate_dual Θ δΘ g ψ y).1
    have e2 : (fun y => (g.lift.apply (dualParams Θ δΘ) ψ y).snd)
        = fun y => g.apply Θ (fun z => (ψ z).snd) y + g.dapply δΘ (fun z => (ψ z).fst) y :=
      funext fun y => (gate_dual Θ δΘ g ψ y).2
    rw [i1, i2, e1, e2]
    exact ⟨rfl, rfl⟩

/-! ### Knill–Laflamme forward map over the dual numbers (audit M4) -/

section kl
variable [StarRing R] {m : Nat}

/-- conjugation on `R[ε]/(ε²)`: coefficient-wise -/
instance dualConj : Conj (DualNumber R) := ⟨fun z => inl (star z.fst) + inr (star z.snd)⟩

@[simp] theorem fst_conj (z : DualNumber R) : (conj z).fst = star z.fst := by simp [conj, dualConj]
@[simp] theorem snd_conj (z : DualNumber R) : (conj z).snd = star z.snd := by simp [conj, dualConj]

/-- an operator list over the dual numbers with constant (ε-free) matrices -/
def Op.liftD : Op m R → Op m (DualNumber R)
  | .unitary U t => .unitary (fun a b => inl (U a b)) t
  | .control U c r tn => .control (fun a b => inl (U a b)) c r tn
  | .measure s o => .measure s o

omit [StarRing R] in
theorem op_dual (g : Op m R) (ψ : Vec m (DualNumber R)) (x : Bits m) :
    ((Op.liftD g).apply ψ x).fst = g.apply (fun y => (ψ y).fst) x ∧
    ((Op.liftD g).apply ψ x).snd = g.apply (fun y => (ψ y).snd) x := by
  cases g with
  | unitary U t =>
    have h := applyGate_dual t (fun a b => (inl (U a b) : DualNumber R)) ψ x
    simp only [TrivSqZeroExt.fst_inl, TrivSqZeroExt.snd_inl, applyGate_zero, add_zero] at h
    exact h
  | control U c r tn =>
    have h := applyControlled_dual c r tn (fun a b => (inl (U a b) : DualNumber R)) ψ x
    simp only [TrivSqZeroExt.fst_inl, TrivSqZeroExt.snd_inl, applyGate_zero, ite_self, add_zero] at h
    exact h
  | measure s o =>
    simp only [Op.liftD, Op.apply, project]
    split <;> simp

omit [StarRing R] in
theorem applySeq_dual (ops : List (Op m R)) (ψ : Vec m (DualNumber R)) (x : Bits m) :
    (applySeq (ops.map Op.liftD) ψ x).fst = applySeq ops (fun y => (ψ y).fst) x ∧
    (applySeq (ops.map Op.liftD) ψ x).snd = applySeq ops (fun y => (ψ y).snd) x := by
  induction ops generalizing ψ with
  | nil => exact ⟨rfl, rfl⟩
  | cons g rest ih =>
    have hf : applySeq ((g :: rest).map Op.liftD) ψ = applySeq (rest.map Op.liftD) ((Op.liftD g).apply ψ) := rfl
    have hg1 : (fun y => ((Op.liftD g).apply ψ y).fst) = g.apply (fun y => (ψ y).fst) := funext fun y => (op_dual g ψ y).1
    have hg2 : (fun y => ((Op.liftD g).apply ψ y).snd) = g.apply (fun y => (ψ y).snd) := funext fun y => (op_dual g ψ y).2
    obtain ⟨i1, i2⟩ := ih ((Op.liftD g).apply ψ)
    rw [hf, i1, i2, hg1, hg2]
    exact ⟨rfl, rfl⟩

theorem vdot_dual (φ ψ : Vec m (DualNumber R)) :
    (vdot φ ψ).fst = @vdot R m _ _ _ ⟨star⟩ (fun x => (φ x).fst) (fun x => (ψ x).fst) ∧
    (vdot φ ψ).snd = @vdot R m _ _ _ ⟨star⟩ (fun x => (φ x).fst) (fun x => (ψ x).snd)
                    + @vdot R m _ _ _ ⟨star⟩ (fun x => (φ x).snd) (fun x => (ψ x).fst) := by
  simp only [vdot, sumBits_eq_sum, fst_sum, snd_sum, TrivSqZeroExt.fst_mul, snd_mul', fst_conj, snd_conj,
    Finset.sum_add_distrib]
  exact ⟨trivial, trivial⟩

/-- **the differential of the Knill–Laflamme forward map is the ε-coefficient of `klForward` at `q + ε·dq`**
(the same model constant, run over the dual numbers): `⟪dq_i, O q_j⟫ + ⟪q_i, O dq_j⟫` -/
theorem klForward_dual (L : ℕ) (ops : List (Op m R)) (q dq : ℕ → Vec m R) (i j : ℕ) :
    (klForward L (ops.map Op.liftD) (fun i x => dualOf (q i x) (dq i x)) i j).fst
      = @klForward R _ _ _ ⟨star⟩ m L ops q i j ∧
    (klForward L (ops.map Op.liftD) (fun i x => dualOf (q i x) (dq i x)) i j).snd
      = @vdot R m _ _ _ ⟨star⟩ (dq i) (applySeq ops (q j)) + @vdot R m _ _ _ ⟨star⟩ (q i) (applySeq ops (dq j)) := by
  unfold klForward
  have h := vdot_dual (fun x => dualOf (q i x) (dq i x)) (applySeq (ops.map Op.liftD) (fun x => dualOf (q j x) (dq j x)))
  have e1 : (fun x => (applySeq (ops.map Op.liftD) (fun x => dualOf (q j x) (dq j x)) x).fst) = applySeq ops (q j) :=
    funext fun x => by rw [(applySeq_dual ops _ x).1]; simp only [fst_dualOf]
  have e2 : (fun x => (applySeq (ops.map Op.liftD) (fun x => dualOf (q j x) (dq j x)) x).snd) = applySeq ops (dq j) :=
    funext fun x => by rw [(applySeq_dual ops _ x).2]; simp only [snd_dualOf]
  simp only [fst_dualOf, snd_dualOf, e1, e2] at h
  refine ⟨h.1, ?_⟩
  rw [h.2, add_comm]

end kl

/-! ### squaring over the dual numbers: `δA = δS·S + S·δS` is the ε-coefficient of `(S + ε δS)²` -/

theorem sq_dual {m : ℕ} (S δS : Matrix (Fin m) (Fin m) R) :
    let Sε : Matrix (Fin m) (Fin m) (DualNumber R) := Matrix.of fun a b => dualOf (S a b) (δS a b)
    (∀ a b, ((Sε * Sε) a b).fst = (S * S) a b) ∧ (∀ a b, ((Sε * Sε) a b).snd = (δS * S + S * δS) a b) := by
  intro Sε
  refine ⟨fun a b => ?_, fun a b => ?_⟩
  · simp only [Sε, Matrix.mul_apply, Matrix.of_apply, fst_sum, TrivSqZeroExt.fst_mul, fst_dualOf]
  · simp only [Sε, Matrix.mul_apply, Matrix.add_apply, Matrix.of_apply, snd_sum, snd_mul', fst_dualOf, snd_dualOf,
      Finset.sum_add_distrib]
    rw [add_comm]

end Backward
end Numqi
