/-
C12: trace distance / Rényi entropy at the eigenvalue level, and the classical data-processing inequalities
(monotonicity under column-stochastic maps) for trace distance, fidelity and relative entropy of commuting states.
-/
import NumqiProofs.ChannelSpectral
import NumqiProofs.Channel
import Mathlib.Analysis.MeanInequalitiesPow
import Mathlib.Analysis.Convex.SpecificFunctions.Pow

namespace Numqi
namespace Channel
open Finset Real

/-- over ℝ: `|x|`, real power, division -/
noncomputable instance : SpecOps ℝ := ⟨fun x => |x|, fun x a => x ^ a, fun a b => a / b⟩

/-- a classical channel: a column-stochastic matrix acting on probability vectors (the action of a channel that maps the common
eigenbasis of two commuting states to a common eigenbasis) -/
def ColStochastic {d e : ℕ} (M : Fin e → Fin d → ℝ) : Prop := (∀ i j, 0 ≤ M i j) ∧ ∀ j, ∑ i, M i j = 1

def pushforward {d e : ℕ} (M : Fin e → Fin d → ℝ) (p : Fin d → ℝ) : Fin e → ℝ := fun i => ∑ j, M i j * p j

theorem pushforward_nonneg {d e : ℕ} {M : Fin e → Fin d → ℝ} (hM : ColStochastic M) {p : Fin d → ℝ} (hp : ∀ j, 0 ≤ p j) (i : Fin e) :
    0 ≤ pushforward M p i := sum_nonneg fun j _ => mul_nonneg (hM.1 i j) (hp j)

theorem pushforward_sum {d e : ℕ} {M : Fin e → Fin d → ℝ} (hM : ColStochastic M) (p : Fin d → ℝ) :
    ∑ i, pushforward M p i = ∑ j, p j := by
  unfold pushforward
  rw [sum_comm]
  refine sum_congr rfl fun j _ => ?_
  rw [← sum_mul, hM.2 j, one_mul]

/-! ### trace distance -/

theorem traceDistComm_eq {d : ℕ} (p q : Fin d → ℝ) :
    traceDistComm (List.ofFn p) (List.ofFn q) = (∑ i, |p i - q i|) / 2 := by
  unfold traceDistComm traceDistSpec
  rw [List.map_map, listSum_zip_ofFn p q]
  show (∑ i, |p i + -q i|) / (1 + 1) = _
  norm_num [sub_eq_add_neg]

theorem td_nonneg {d : ℕ} (p q : Fin d → ℝ) : 0 ≤ (∑ i, |p i - q i|) / 2 :=
  div_nonneg (sum_nonneg fun _ _ => abs_nonneg _) (by norm_num)

theorem td_le_one {d : ℕ} (p q : Fin d → ℝ) (hp : ∀ i, 0 ≤ p i) (hq : ∀ i, 0 ≤ q i)
    (hsp : ∑ i, p i = 1) (hsq : ∑ i, q i = 1) : (∑ i, |p i - q i|) / 2 ≤ 1 := by
  have h : ∑ i, |p i - q i| ≤ ∑ i, (p i + q i) := sum_le_sum fun i _ => by
    rw [abs_le]; constructor <;> linarith [hp i, hq i]
  rw [sum_add_distrib, hsp, hsq] at h
  linarith

theorem td_mono {d e : ℕ} (M : Fin e → Fin d → ℝ) (hM : ColStochastic M) (p q : Fin d → ℝ) :
    ∑ i, |pushforward M p i - pushforward M q i| ≤ ∑ j, |p j - q j| := by
  have h1 : ∀ i, |pushforward M p i - pushforward M q i| ≤ ∑ j, M i j * |p j - q j| := by
    intro i
    have : pushforward M p i - pushforward M q i = ∑ j, M i j * (p j - q j) := by
      unfold pushforward; rw [← sum_sub_distrib]; exact sum_congr rfl fun j _ => by ring
    rw [this]
    refine (abs_sum_le_sum_abs _ _).trans (le_of_eq ?_)
    exact sum_congr rfl fun j _ => by rw [abs_mul, abs_of_nonneg (hM.1 i j)]
  calc ∑ i, |pushforward M p i - pushforward M q i| ≤ ∑ i, ∑ j, M i j * |p j - q j| := sum_le_sum fun i _ => h1 i
    _ = ∑ j, |p j - q j| := by
        rw [sum_comm]
        exact sum_congr rfl fun j _ => by rw [← sum_mul, hM.2 j, one_mul]

/-! ### fidelity (Bhattacharyya coefficient) -/

theorem bc_mono {d e : ℕ} (M : Fin e → Fin d → ℝ) (hM : ColStochastic M) (p q : Fin d → ℝ)
    (hp : ∀ j, 0 ≤ p j) (hq : ∀ j, 0 ≤ q j) :
    ∑ j, √(p j) * √(q j) ≤ ∑ i, √(pushforward M p i) * √(pushforward M q i) := by
  have hrow : ∀ i, ∑ j, M i j * (√(p j) * √(q j)) ≤ √(pushforward M p i) * √(pushforward M q i) := by
    intro i
    have := Real.sum_sqrt_mul_sqrt_le (univ : Finset (Fin d)) (f := fun j => M i j * p j) (g := fun j => M i j * q j)
      (fun j => mul_nonneg (hM.1 i j) (hp j)) (fun j => mul_nonneg (hM.1 i j) (hq j))
    refine le_trans (le_of_eq ?_) this
    refine sum_congr rfl fun j _ => ?_
    rw [Real.sqrt_mul (hM.1 i j), Real.sqrt_mul (hM.1 i j)]
    have := Real.mul_self_sqrt (hM.1 i j)
    calc M i j * (√(p j) * √(q j)) = (√(M i j) * √(M i j)) * (√(p j) * √(q j)) := by rw [this]
      _ = _ := by ring
  calc ∑ j, √(p j) * √(q j) = ∑ j, (∑ i, M i j) * (√(p j) * √(q j)) := by
        refine sum_congr rfl fun j _ => ?_; rw [hM.2 j, one_mul]
    _ = ∑ i, ∑ j, M i j * (√(p j) * √(q j)) := by
        rw [sum_comm]; exact sum_congr rfl fun j _ => by rw [sum_mul]
    _ ≤ _ := sum_le_sum fun i _ => hrow i

/-! ### relative entropy (log-sum inequality through Gibbs' inequality) -/

/-- one term of the relative entropy -/
noncomputable def klTerm (a b : ℝ) : ℝ := a * Real.log a - a * Real.log b

theorem relEntropySpec_eq {d : ℕ} (p q : Fin d → ℝ) (hp : ∀ i, 0 ≤ p i) (hq : ∀ i, 0 ≤ q i) :
    relEntropySpec 0 (List.ofFn p) (List.ofFn q) = ∑ i, klTerm (p i) (q i) := by
  unfold relEntropySpec
  rw [listSum_zip_ofFn p q (fun pq => pq.1 * Analytic.log (Analytic.max 0 pq.2)),
    listSum_ofFn p (fun x => Analytic.max 0 x * Analytic.log (Analytic.max 0 x)), ← sum_neg_distrib, ← sum_add_distrib]
  refine sum_congr rfl fun i _ => ?_
  show -(p i * Real.log (max 0 (q i))) + max 0 (p i) * Real.log (max 0 (p i)) = _
  rw [max_eq_right (hq i), max_eq_right (hp i), klTerm]; ring

theorem klTerm_scale (m a b : ℝ) (hm : 0 ≤ m) (ha : 0 ≤ a) (hb : 0 < b) : klTerm (m * a) (m * b) = m * klTerm a b := by
  unfold klTerm
  rcases hm.eq_or_lt with rfl | hm
  · simp
  rcases ha.eq_or_lt with rfl | ha
  · simp
  rw [Real.log_mul hm.ne' ha.ne', Real.log_mul hm.ne' hb.ne']; ring

/-- **log-sum inequality** for one output symbol: `A log(A/B) ≤ Σ_j a_j log(a_j/b_j)`, `A = Σ a_j`, `B = Σ b_j`, where `a_j = 0`
whenever `b_j = 0` -/
theorem log_sum_ineq {d : ℕ} (a b : Fin d → ℝ) (ha : ∀ j, 0 ≤ a j) (hb : ∀ j, 0 ≤ b j) (hab : ∀ j, b j = 0 → a j = 0) :
    klTerm (∑ j, a j) (∑ j, b j) ≤ ∑ j, klTerm (a j) (b j) := by
  set A := ∑ j, a j with hA
  set B := ∑ j, b j with hB
  have hA0 : 0 ≤ A := sum_nonneg fun j _ => ha j
  have hB0 : 0 ≤ B := sum_nonneg fun j _ => hb j
  rcases hA0.eq_or_lt with hA' | hApos
  · -- all a_j vanish
    have hz : ∀ j, a j = 0 := fun j => (sum_eq_zero_iff_of_nonneg fun j _ => ha j).1 hA'.symm j (mem_univ j)
    rw [← hA']
    simp [klTerm, hz]
  have hBpos : 0 < B := by
    rcases hB0.eq_or_lt with hB' | h
    · exfalso
      have hz : ∀ j, b j = 0 := fun j => (sum_eq_zero_iff_of_nonneg fun j _ => hb j).1 hB'.symm j (mem_univ j)
      have : A = 0 := sum_eq_zero fun j _ => hab j (hz j)
      linarith
    · exact h
  -- Gibbs term by term with y_j = b_j * A / B
  have hterm : ∀ j, a j - b j * (A / B) ≤ klTerm (a j) (b j) - a j * Real.log (A / B) := by
    intro j
    rcases (hb j).eq_or_lt with hbj | hbj
    · have := hab j hbj.symm
      simp [klTerm, this, ← hbj]
    · have hy : 0 < b j * (A / B) := mul_pos hbj (div_pos hApos hBpos)
      have g := gibbs_term (a j) (b j * (A / B)) (ha j) hy
      rw [Real.log_mul hbj.ne' (div_pos hApos hBpos).ne'] at g
      unfold klTerm; linarith
  have hsum := sum_le_sum fun j (_ : j ∈ (univ : Finset (Fin d))) => hterm j
  rw [sum_sub_distrib, sum_sub_distrib, ← sum_mul, ← sum_mul, ← hA, ← hB] at hsum
  have e1 : B * (A / B) = A := by field_simp
  rw [e1, sub_self] at hsum
  have e2 : klTerm A B = A * Real.log (A / B) := by
    unfold klTerm; rw [Real.log_div hApos.ne' hBpos.ne']; ring
  rw [e2]; linarith

theorem kl_mono {d e : ℕ} (M : Fin e → Fin d → ℝ) (hM : ColStochastic M) (p q : Fin d → ℝ)
    (hp : ∀ j, 0 ≤ p j) (hq : ∀ j, 0 < q j) :
    ∑ i, klTerm (pushforward M p i) (pushforward M q i) ≤ ∑ j, klTerm (p j) (q j) := by
  have hrow : ∀ i, klTerm (pushforward M p i) (pushforward M q i) ≤ ∑ j, M i j * klTerm (p j) (q j) := by
    intro i
    have h := log_sum_ineq (fun j => M i j * p j) (fun j => M i j * q j)
      (fun j => mul_nonneg (hM.1 i j) (hp j)) (fun j => mul_nonneg (hM.1 i j) (hq j).le)
      (fun j hj => by
        have : M i j = 0 := by
          rcases mul_eq_zero.1 hj with h | h
          · exact h
          · exact absurd h (hq j).ne'
        simp [this])
    refine h.trans (le_of_eq ?_)
    exact sum_congr rfl fun j _ => klTerm_scale _ _ _ (hM.1 i j) (hp j) (hq j)
  calc ∑ i, klTerm (pushforward M p i) (pushforward M q i) ≤ ∑ i, ∑ j, M i j * klTerm (p j) (q j) := sum_le_sum fun i _ => hrow i
    _ = ∑ j, klTerm (p j) (q j) := by
        rw [sum_comm]; exact sum_congr rfl fun j _ => by rw [← sum_mul, hM.2 j, one_mul]

/-! ### Rényi entropy -/

theorem renyiSpec_eq {d : ℕ} (α : ℝ) (p : Fin d → ℝ) (hp : ∀ i, 0 ≤ p i) :
    renyiSpec α (List.ofFn p) = Real.log (∑ i, p i ^ α) / (1 - α) := by
  unfold renyiSpec
  rw [listSum_ofFn p (fun x => SpecOps.pow (Analytic.max x 0) α)]
  show Real.log (∑ i, (max (p i) 0) ^ α) / (1 + -α) = _
  rw [← sub_eq_add_neg]
  congr 2
  exact sum_congr rfl fun i _ => by rw [max_eq_left (hp i)]

/-- the clip makes the value insensitive to round-off negative eigenvalues: they count as zero -/
theorem renyiSpec_clip (α : ℝ) (evl : List ℝ) : renyiSpec α evl = renyiSpec α (evl.map fun x => max x 0) := by
  unfold renyiSpec
  rw [List.map_map]
  congr 3
  apply List.map_congr_left
  intro x _
  show (max x 0) ^ α = (max (max x 0) 0) ^ α
  rw [max_eq_left (le_max_right x 0)]

/-- `Σ p^α` between `1` and `d^(1-α)` for `α < 1`, between `d^(1-α)` and `1` for `α > 1` -/
theorem sum_rpow_bounds_lt {d : ℕ} (hd : 0 < d) (α : ℝ) (h0 : 0 < α) (h1 : α < 1) (p : Fin d → ℝ) (hp : ∀ i, 0 ≤ p i)
    (hsum : ∑ i, p i = 1) : 1 ≤ ∑ i, p i ^ α ∧ ∑ i, p i ^ α ≤ (d : ℝ) ^ (1 - α) := by
  have hle1 : ∀ i, p i ≤ 1 := fun i => by rw [← hsum]; exact single_le_sum (fun j _ => hp j) (mem_univ i)
  have hd' : (0 : ℝ) < d := by exact_mod_cast hd
  constructor
  · rw [← hsum]; exact sum_le_sum fun i _ => Real.self_le_rpow_of_le_one (hp i) (hle1 i) h1.le
  · have J := (Real.concaveOn_rpow h0.le h1.le).le_map_sum (t := (univ : Finset (Fin d))) (w := fun _ => (1 : ℝ) / d) (p := p)
      (fun _ _ => by positivity) (by simp; field_simp) (fun i _ => hp i)
    simp only [smul_eq_mul, ← mul_sum, hsum, mul_one] at J
    -- J : 1/d * Σ p^α ≤ (1/d)^α
    have h2 : ∑ i, p i ^ α ≤ d * ((1 : ℝ) / d) ^ α := by
      have := mul_le_mul_of_nonneg_left J hd'.le
      have e1 : (d : ℝ) * (1 / d * ∑ i, p i ^ α) = ∑ i, p i ^ α := by field_simp
      rwa [e1] at this
    refine h2.trans (le_of_eq ?_)
    rw [one_div, Real.inv_rpow hd'.le, Real.rpow_sub hd', Real.rpow_one, div_eq_mul_inv]

theorem sum_rpow_bounds_gt {d : ℕ} (hd : 0 < d) (α : ℝ) (h1 : 1 < α) (p : Fin d → ℝ) (hp : ∀ i, 0 ≤ p i)
    (hsum : ∑ i, p i = 1) : (d : ℝ) ^ (1 - α) ≤ ∑ i, p i ^ α ∧ ∑ i, p i ^ α ≤ 1 := by
  have hle1 : ∀ i, p i ≤ 1 := fun i => by rw [← hsum]; exact single_le_sum (fun j _ => hp j) (mem_univ i)
  have hd' : (0 : ℝ) < d := by exact_mod_cast hd
  constructor
  · have J := Real.rpow_arith_mean_le_arith_mean_rpow (univ : Finset (Fin d)) (fun _ => (1 : ℝ) / d) p
      (fun _ _ => by positivity) (by simp; field_simp) (fun i _ => hp i) h1.le
    simp only [← mul_sum, hsum, mul_one] at J
    have := mul_le_mul_of_nonneg_left J hd'.le
    have e1 : (d : ℝ) * (1 / d * ∑ i, p i ^ α) = ∑ i, p i ^ α := by field_simp
    rw [e1] at this
    refine le_trans (le_of_eq ?_) this
    rw [one_div, Real.inv_rpow hd'.le, Real.rpow_sub hd', Real.rpow_one, div_eq_mul_inv]
  · rw [← hsum]; exact sum_le_sum fun i _ => Real.rpow_le_self_of_le_one (hp i) (hle1 i) h1.le

theorem renyi_range' {d : ℕ} (hd : 0 < d) (α : ℝ) (h0 : 0 < α) (hne : α ≠ 1) (p : Fin d → ℝ) (hp : ∀ i, 0 ≤ p i)
    (hsum : ∑ i, p i = 1) :
    0 ≤ Real.log (∑ i, p i ^ α) / (1 - α) ∧ Real.log (∑ i, p i ^ α) / (1 - α) ≤ Real.log d := by
  have hd' : (0 : ℝ) < d := by exact_mod_cast hd
  rcases lt_or_gt_of_ne hne with h1 | h1
  · obtain ⟨a, b⟩ := sum_rpow_bounds_lt hd α h0 h1 p hp hsum
    have hpos : 0 < 1 - α := by linarith
    have hS : 0 < ∑ i, p i ^ α := by linarith
    refine ⟨div_nonneg (Real.log_nonneg a) hpos.le, ?_⟩
    rw [div_le_iff₀ hpos]
    have := Real.log_le_log hS b
    rwa [Real.log_rpow hd', mul_comm] at this
  · obtain ⟨a, b⟩ := sum_rpow_bounds_gt hd α h1 p hp hsum
    have hneg : 1 - α < 0 := by linarith
    have hS : 0 < ∑ i, p i ^ α := lt_of_lt_of_le (Real.rpow_pos_of_pos hd' _) a
    refine ⟨div_nonneg_of_nonpos (Real.log_nonpos hS.le b) hneg.le, ?_⟩
    rw [div_le_iff_of_neg hneg]
    have := Real.log_le_log (Real.rpow_pos_of_pos hd' _) a
    rwa [Real.log_rpow hd', mul_comm] at this

/-! ### the bridge to the Kraus model: a classical channel is the measure-and-prepare Kraus set `K_(i,j) = √M_ij |i⟩⟨j|` -/

/-- `K_s = √M_ij |i⟩⟨j|` for `s = i·d + j` (`i < e` output symbol, `j < d` input symbol) -/
noncomputable def classicalKraus (d : ℕ) (M : ℕ → ℕ → ℝ) (s a b : ℕ) : ℝ :=
  if a = s / d ∧ b = s % d then Real.sqrt (M (s / d) (s % d)) else 0

/-- **`apply_kraus_op` with the measure-and-prepare Kraus set acts on a diagonal state as `pushforward M` on its spectrum** (and the
output is diagonal again): `Σ_s K_s diag(p) K_s† = diag(M p)` -/
theorem applyKraus_classical (d e : ℕ) (M : ℕ → ℕ → ℝ) (hM : ∀ i j, 0 ≤ M i j) (p : ℕ → ℝ) (a b : ℕ) (ha : a < e) (hb : b < e) :
    applyKraus (e * d) d (classicalKraus d M) (fun i j => if i = j then p i else 0) a b
      = if a = b then ∑ j ∈ range d, M a j * p j else 0 := by
  simp only [applyKraus, sumRange_eq_sum, conj_eq_star, star_trivial]
  -- the state is diagonal
  have h1 : ∀ s, (∑ i ∈ range d, ∑ j ∈ range d, classicalKraus d M s a i * (if i = j then p i else 0) * classicalKraus d M s b j)
      = ∑ i ∈ range d, classicalKraus d M s a i * p i * classicalKraus d M s b i := by
    intro s
    refine sum_congr rfl fun i hi => ?_
    rw [sum_eq_single i]
    · simp
    · intro j _ hj; simp [Ne.symm hj]
    · intro h; exact absurd hi h
  simp only [h1]
  rw [sum_range_mul]
  -- s = i'·d + j'
  have h2 : ∀ i' ∈ range e, ∀ j' ∈ range d,
      (∑ i ∈ range d, classicalKraus d M (i' * d + j') a i * p i * classicalKraus d M (i' * d + j') b i)
        = if a = i' ∧ b = i' then M i' j' * p j' else 0 := by
    intro i' _ j' hj'
    have hj := mem_range.1 hj'
    simp only [classicalKraus, div_of_lt hj, mod_of_lt hj]
    rw [sum_eq_single j']
    · by_cases h : a = i' ∧ b = i'
      · obtain ⟨rfl, rfl⟩ := h
        simp only [and_self, if_true, true_and]
        rw [mul_assoc, mul_comm (p j'), ← mul_assoc, Real.mul_self_sqrt (hM _ _)]
      · rw [if_neg h]
        rcases not_and_or.1 h with h | h
        · simp [h]
        · simp [h]
    · intro i _ hi; simp [hi]
    · intro h; exact absurd hj' h
  rw [sum_congr rfl fun i' hi' => sum_congr rfl fun j' hj' => h2 i' hi' j' hj']
  by_cases hab : a = b
  · subst hab
    rw [if_pos rfl, sum_eq_single a]
    · simp
    · intro i' _ hi'; simp [Ne.symm hi']
    · intro h; exact absurd (mem_range.2 ha) h
  · rw [if_neg hab]
    refine sum_eq_zero fun i' _ => sum_eq_zero fun j' _ => ?_
    rw [if_neg]; rintro ⟨rfl, rfl⟩; exact hab rfl

/-- the measure-and-prepare Kraus set is trace preserving exactly when the columns of `M` sum to one: `Σ_s K_s† K_s = diag(Σ_i M_ij)` -/
theorem krausGram_classical (d e : ℕ) (M : ℕ → ℕ → ℝ) (hM : ∀ i j, 0 ≤ M i j) (i j : ℕ) (hi : i < d) (hj : j < d) :
    krausGram (e * d) e (classicalKraus d M) i j = if i = j then ∑ a ∈ range e, M a i else 0 := by
  simp only [krausGram, sumRange_eq_sum, conj_eq_star, star_trivial]
  rw [sum_range_mul]
  have h2 : ∀ i' ∈ range e, ∀ j' ∈ range d,
      (∑ a ∈ range e, classicalKraus d M (i' * d + j') a i * classicalKraus d M (i' * d + j') a j)
        = if i = j' ∧ j = j' then M i' j' else 0 := by
    intro i' hi' j' hj'
    have hjl := mem_range.1 hj'
    simp only [classicalKraus, div_of_lt hjl, mod_of_lt hjl]
    rw [sum_eq_single i']
    · by_cases h : i = j' ∧ j = j'
      · obtain ⟨rfl, rfl⟩ := h
        simp only [and_self, if_true]
        exact Real.mul_self_sqrt (hM _ _)
      · rw [if_neg h]
        rcases not_and_or.1 h with h | h
        · simp [h]
        · simp [h]
    · intro a _ ha; simp [ha]
    · intro h; exact absurd hi' h
  rw [sum_congr rfl fun i' hi' => sum_congr rfl fun j' hj' => h2 i' hi' j' hj']
  by_cases hij : i = j
  · subst hij
    rw [if_pos rfl]
    refine sum_congr rfl fun i' _ => ?_
    rw [sum_eq_single i]
    · simp
    · intro j' _ hj'; simp [Ne.symm hj']
    · intro h; exact absurd (mem_range.2 hi) h
  · rw [if_neg hij]
    refine sum_eq_zero fun i' _ => sum_eq_zero fun j' _ => ?_
    rw [if_neg]; rintro ⟨rfl, rfl⟩; exact hij rfl

end Channel
end Numqi
