/-
`get_pauli_subset_equivalent` / `get_pauli_subset_stabilizer` (`gate/_pauli.py`): the loop over
`itertools.product(*[range(b) for b in base])` with `from_int_tuple` runs through all of Sp(2n,F2) (C09), so the set
collected is the full orbit and the list returned is the full stabiliser.
-/
import NumqiProofs.SpF2Enum
import NumqiProofs.SpF2Inverse
import NumqiModel.Clifford

namespace Numqi.Clifford
open Numqi.SpF2

/-- the sorted subset (`first_element`) -/
abbrev firstElement (subset : List Nat) : List Nat := subset.mergeSort (fun a b => decide (a ≤ b))

theorem orbit_complete (n : Nat) (subset : List Nat) (S : List Nat) (hS : isSp n S = true) :
    subsetImage n S (firstElement subset) ∈ orbitImages n subset := by
  obtain ⟨hwf, hsp⟩ := (isSp_iff n S).1 hS
  obtain ⟨t, _, h2, h3, h4⟩ := toIntTuple_all n S hwf hsp
  simp only [orbitImages, List.mem_map]
  exact ⟨t, (mem_allTuples_iff n t).2 ⟨h2, h3⟩, by rw [← h4]; rfl⟩

theorem orbit_sound (n : Nat) (subset : List Nat) (img : List Nat) (h : img ∈ orbitImages n subset) :
    ∃ S, isSp n S = true ∧ img = subsetImage n S (firstElement subset) := by
  simp only [orbitImages, List.mem_map] at h
  obtain ⟨t, ht, rfl⟩ := h
  obtain ⟨hl, hr⟩ := (mem_allTuples_iff n t).1 ht
  have := fromRev_all t.reverse hr
  rw [List.length_reverse, hl] at this
  exact ⟨fromIntTuple t, (isSp_iff _ _).2 ⟨this.1, this.2.1⟩, rfl⟩

theorem mem_subsetEquivalent (n : Nat) (subset : List Nat) (x : List Nat) :
    x ∈ subsetEquivalent n subset ↔ x = firstElement subset ∨ x ∈ orbitImages n subset := by
  simp only [subsetEquivalent, List.mem_eraseDups, List.mem_cons]

theorem mem_subsetStabilizer (n : Nat) (subset : List Nat) (t : List (Nat × Nat)) :
    t ∈ subsetStabilizer n subset ↔
      (t.length = n ∧ inRange t = true) ∧ subsetImage n (fromIntTuple t) (firstElement subset) = firstElement subset := by
  simp only [subsetStabilizer, List.mem_filter, mem_allTuples_iff, beq_iff_eq]

theorem stabilizer_complete (n : Nat) (subset : List Nat) (S : List Nat) (hS : isSp n S = true)
    (hfix : subsetImage n S (firstElement subset) = firstElement subset) :
    ∃ t ∈ subsetStabilizer n subset, fromIntTuple t = S := by
  obtain ⟨hwf, hsp⟩ := (isSp_iff n S).1 hS
  obtain ⟨t, _, h2, h3, h4⟩ := toIntTuple_all n S hwf hsp
  refine ⟨t, (mem_subsetStabilizer n subset t).2 ⟨⟨h2, h3⟩, ?_⟩, h4⟩
  have : fromIntTuple t = S := h4
  rw [this]; exact hfix

end Numqi.Clifford
