/- Model-specific lemmas for C01: generators, exp/Cayley charts, Stiefel maps. -/
import NumqiProofs.ManifoldMatrix
import NumqiProofs.GellmannComplex

namespace Numqi.Manifold
open Matrix
open Numqi.Gellmann (Scalars synthesis)
local notation "mexp" => NormedSpace.exp

variable {dim : Nat}

theorem synthesisN_fin (S : Scalars ℂ) (v : Nat → ℂ) (r c : Fin dim) :
    synthesisN S dim v r.val c.val = synthesis S dim v r c := by
  unfold synthesisN; rw [dif_pos ⟨r.isLt, c.isLt⟩]

/-- coefficient vector of the complex generator: `[θ, 0]` -/
def genVecC (dim : Nat) (θ : Nat → ℝ) : Nat → ℂ := fun p => if p < dim * dim - 1 then ((θ p : ℝ) : ℂ) else 0
/-- coefficient vector of the real generator: `[0_{N0}, θ, 0_dim]` -/
def genVecR (dim : Nat) (θ : Nat → ℝ) : Nat → ℂ := fun p =>
  if p < dim * (dim - 1) / 2 then 0 else if p < 2 * (dim * (dim - 1) / 2) then ((θ (p - dim * (dim - 1) / 2) : ℝ) : ℂ) else 0

theorem genVecC_real (θ : Nat → ℝ) (a : Nat) : star (genVecC dim θ a) = genVecC dim θ a := by
  unfold genVecC; split_ifs <;> simp
theorem genVecR_real (θ : Nat → ℝ) (a : Nat) : star (genVecR dim θ a) = genVecR dim θ a := by
  unfold genVecR; split_ifs <;> simp

theorem toM_soGenerator_complex (S : Scalars ℂ) (θ : Nat → ℝ) :
    toM dim dim (soGenerator S dim false θ) = Complex.I • Matrix.of (synthesis S dim (genVecC dim θ)) := by
  ext r c
  simp only [toM, soGenerator, Bool.false_eq_true, if_false, Matrix.of_apply, NMat.get_ofFn_fin, synthesisN_fin,
    Matrix.smul_apply, smul_eq_mul]
  rfl

theorem toM_soGenerator_real (S : Scalars ℂ) (θ : Nat → ℝ) :
    toM dim dim (soGenerator S dim true θ)
      = Matrix.of fun r c => (((synthesis S dim (genVecR dim θ) r c).im : ℝ) : ℂ) := by
  ext r c
  simp only [toM, soGenerator, if_true, Matrix.of_apply, NMat.get_ofFn_fin, synthesisN_fin]
  rfl

/-- **the generator is skew-Hermitian** (both branches) -/
theorem soGenerator_skew (S : Scalars ℂ) (hS : S.Valid dim) (hd : 1 ≤ dim) (isReal : Bool) (θ : Nat → ℝ) :
    (toM dim dim (soGenerator S dim isReal θ))ᴴ = -toM dim dim (soGenerator S dim isReal θ) := by
  cases isReal with
  | false =>
    rw [toM_soGenerator_complex, conjTranspose_smul,
      Gellmann.synthesis_hermitian S hS hd _ (fun a _ => genVecC_real θ a)]
    simp
  | true =>
    rw [toM_soGenerator_real]
    have hH := Gellmann.synthesis_hermitian S hS hd (genVecR dim θ) (fun a _ => genVecR_real θ a)
    ext r c
    have := congrFun (congrFun hH c) r
    simp only [conjTranspose_apply, Matrix.of_apply] at this
    simp only [conjTranspose_apply, Matrix.of_apply, Matrix.neg_apply]
    rw [← this]
    simp

/-- real branch: the generator is antisymmetric -/
theorem soGenerator_real_transpose (S : Scalars ℂ) (hS : S.Valid dim) (hd : 1 ≤ dim) (θ : Nat → ℝ) :
    (toM dim dim (soGenerator S dim true θ))ᵀ = -toM dim dim (soGenerator S dim true θ) := by
  rw [toM_soGenerator_real]
  have hH := Gellmann.synthesis_hermitian S hS hd (genVecR dim θ) (fun a _ => genVecR_real θ a)
  ext r c
  have := congrFun (congrFun hH c) r
  simp only [conjTranspose_apply, Matrix.of_apply] at this
  simp only [transpose_apply, Matrix.of_apply, Matrix.neg_apply]
  rw [← this]
  simp

/-- real branch: the generator has real entries -/
theorem soGenerator_real_entries (S : Scalars ℂ) (θ : Nat → ℝ) (r c : Fin dim) :
    (toM dim dim (soGenerator S dim true θ) r c).im = 0 := by
  rw [toM_soGenerator_real]; simp

/-- complex branch: the generator is traceless -/
theorem soGenerator_complex_trace (S : Scalars ℂ) (hd : 1 ≤ dim) (θ : Nat → ℝ) :
    trace (toM dim dim (soGenerator S dim false θ)) = 0 := by
  rw [toM_soGenerator_complex, trace_smul, Gellmann.synthesis_trace S hd]
  simp [genVecC]

theorem toM_matPow (n : Nat) (M : NMat ℂ) (k : Nat) : toM n n (matPow n M k) = (toM n n M) ^ (k + 1) := by
  induction k with
  | zero => simp [matPow]
  | succ k ih => rw [matPow, toM_matMul, ih, ← pow_succ]

/-- `to_special_orthogonal_exp`: unitary, for every θ, given that `expm` is the matrix exponential -/
theorem soExp_unitary' (expm : NMat ℂ → NMat ℂ) (hexp : ∀ A, toM dim dim (expm A) = mexp (toM dim dim A))
    (S : Scalars ℂ) (hS : S.Valid dim) (hd : 1 ≤ dim) (isReal : Bool) (θ : Nat → ℝ) :
    (toM dim dim (soExp expm S dim isReal θ))ᴴ * toM dim dim (soExp expm S dim isReal θ) = 1 := by
  unfold soExp; rw [hexp]
  exact exp_unitary_of_skew _ (soGenerator_skew S hS hd isReal θ)

/-- real branch: determinant one -/
theorem soExp_real_det' (expm : NMat ℂ → NMat ℂ) (hexp : ∀ A, toM dim dim (expm A) = mexp (toM dim dim A))
    (S : Scalars ℂ) (hS : S.Valid dim) (hd : 1 ≤ dim) (θ : Nat → ℝ) :
    (toM dim dim (soExp expm S dim true θ)).det = 1 := by
  unfold soExp; rw [hexp]
  exact det_exp_of_transpose_neg _ (soGenerator_real_transpose S hS hd θ)

theorem toM_one_add (A : NMat ℂ) :
    toM dim dim (NMat.ofFn dim dim fun r c => (if r = c then 1 else 0) + A.get r c) = 1 + toM dim dim A := by
  ext r c
  simp only [toM, Matrix.of_apply, NMat.get_ofFn_fin, Matrix.add_apply, Matrix.one_apply, Fin.ext_iff]

theorem toM_one_sub (A : NMat ℂ) :
    toM dim dim (NMat.ofFn dim dim fun r c => (if r = c then 1 else 0) - A.get r c) = 1 - toM dim dim A := by
  ext r c
  simp only [toM, Matrix.of_apply, NMat.get_ofFn_fin, Matrix.sub_apply, Matrix.one_apply, Fin.ext_iff]

/-- `to_special_orthogonal_cayley`: unitary for every θ and every order ≥ 1, given that `inv` returns a left inverse of
invertible matrices (`1 + A` is proved invertible) -/
theorem soCayley_unitary' (inv : NMat ℂ → NMat ℂ)
    (hinv : ∀ P, IsUnit (toM dim dim P).det → toM dim dim (inv P) * toM dim dim P = 1)
    (S : Scalars ℂ) (hS : S.Valid dim) (hd : 1 ≤ dim) (order : Nat) (isReal : Bool) (θ : Nat → ℝ) :
    (toM dim dim (soCayley inv S dim order isReal θ))ᴴ * toM dim dim (soCayley inv S dim order isReal θ) = 1 := by
  unfold soCayley
  simp only []
  rw [toM_matPow, toM_matMul, toM_one_sub]
  have hsk := soGenerator_skew S hS hd isReal θ
  apply pow_unitary
  apply cayley_unitary _ _ hsk
  have := hinv _ (by rw [toM_one_add]; exact isUnit_one_add_of_skew _ hsk)
  rwa [toM_one_add] at this

theorem soCayley_real_det' (inv : NMat ℂ → NMat ℂ)
    (hinv : ∀ P, IsUnit (toM dim dim P).det → toM dim dim (inv P) * toM dim dim P = 1)
    (S : Scalars ℂ) (hS : S.Valid dim) (hd : 1 ≤ dim) (order : Nat) (θ : Nat → ℝ) :
    (toM dim dim (soCayley inv S dim order true θ)).det = 1 := by
  unfold soCayley
  simp only []
  rw [toM_matPow, toM_matMul, toM_one_sub, det_pow]
  have hsk := soGenerator_skew S hS hd true θ
  have := hinv _ (by rw [toM_one_add]; exact isUnit_one_add_of_skew _ hsk)
  rw [toM_one_add] at this
  rw [cayley_det_one _ _ (soGenerator_real_transpose S hS hd θ) this, one_pow]

/-! ### Stiefel maps -/
open scoped ComplexOrder

variable {rank : Nat}

theorem cholLMat_top (isReal : Bool) (θ : Nat → ℝ) (h : rank ≤ dim) (r c : Fin rank) :
    toM dim rank (cholLMat (K := ℂ) dim rank isReal θ) ⟨r.val, lt_of_lt_of_le r.isLt h⟩ c
      = if r = c then 1 else if c < r then toM dim rank (cholLMat (K := ℂ) dim rank isReal θ) ⟨r.val, lt_of_lt_of_le r.isLt h⟩ c else 0 := by
  by_cases h1 : r = c
  · subst h1
    simp [toM, cholLMat, NMat.get_ofFn _ _ _ (lt_of_lt_of_le r.isLt h) r.isLt, r.isLt]
  · rw [if_neg h1]
    by_cases h2 : c < r
    · rw [if_pos h2]
    · rw [if_neg h2]
      have h1' : r.val ≠ c.val := fun e => h1 (Fin.ext e)
      have h2' : ¬ c.val < r.val := h2
      simp [toM, cholLMat, NMat.get_ofFn _ _ _ (lt_of_lt_of_le r.isLt h) c.isLt, r.isLt, h1', h2']

/-- the matrix `matL` of `to_stiefel_choleskyL` has full column rank for **every** θ (unit lower-triangular top block) -/
theorem cholLMat_injective (isReal : Bool) (θ : Nat → ℝ) (h : rank ≤ dim) :
    Function.Injective (toM dim rank (cholLMat (K := ℂ) dim rank isReal θ)).mulVec := by
  set L := toM dim rank (cholLMat (K := ℂ) dim rank isReal θ) with hL
  have key : ∀ x : Fin rank → ℂ, L *ᵥ x = 0 → x = 0 := by
    intro x hx
    have hall : ∀ k : Nat, ∀ r : Fin rank, r.val = k → x r = 0 := by
      intro k
      induction k using Nat.strong_induction_on with
      | _ k ih =>
        intro r hr
        have hrow := congrFun hx ⟨r.val, lt_of_lt_of_le r.isLt h⟩
        simp only [mulVec, dotProduct, Pi.zero_apply] at hrow
        rw [Finset.sum_eq_single r] at hrow
        · rw [hL, cholLMat_top isReal θ h r r, if_pos rfl, one_mul] at hrow; exact hrow
        · intro c _ hc
          rw [hL, cholLMat_top isReal θ h r c, if_neg (Ne.symm hc)]
          by_cases h2 : c < r
          · rw [ih c.val (by rw [← hr]; exact h2) c rfl, mul_zero]
          · rw [if_neg h2, zero_mul]
        · intro hne; exact absurd (Finset.mem_univ _) hne
    funext r; exact hall r.val r rfl
  intro x y hxy
  have := key (x - y) (by rw [mulVec_sub, hxy, sub_self])
  exact sub_eq_zero.1 this

/-- `to_stiefel_choleskyL`: `XᴴX = 1` for **every** θ, given the contracts of `cholesky` (on positive definite input) and `inv`
(left inverse of invertible input). -/
theorem stiefelCholL_orthonormal' (chol inv : NMat ℂ → NMat ℂ)
    (hchol : ∀ G, (toM rank rank G).PosDef → toM rank rank (chol G) * (toM rank rank (chol G))ᴴ = toM rank rank G)
    (hinv : ∀ P, IsUnit (toM rank rank P).det → toM rank rank (inv P) * toM rank rank P = 1)
    (isReal : Bool) (θ : Nat → ℝ) (h : rank ≤ dim) :
    (toM dim rank (stiefelCholL chol inv dim rank isReal θ))ᴴ * toM dim rank (stiefelCholL chol inv dim rank isReal θ) = 1 := by
  unfold stiefelCholL
  simp only []
  set L := cholLMat (K := ℂ) dim rank isReal θ with hL
  set G := matMul rank dim rank (conjT dim rank L) L with hG
  have hGm : toM rank rank G = (toM dim rank L)ᴴ * toM dim rank L := by rw [hG, toM_matMul, toM_conjT]
  have hpd : (toM rank rank G).PosDef := by
    rw [hGm]; exact Matrix.PosDef.conjTranspose_mul_self _ (cholLMat_injective isReal θ h)
  have hC := hchol G hpd
  have hdet : IsUnit (toM rank rank (conjT rank rank (chol G))).det := by
    rw [toM_conjT, det_conjTranspose]
    have hu : IsUnit (toM rank rank G).det := (Matrix.isUnit_iff_isUnit_det _).1 (Matrix.PosDef.isUnit hpd)
    rw [← hC, det_mul, det_conjTranspose] at hu
    exact (isUnit_of_mul_isUnit_left hu).star
  have hR := hinv _ hdet
  rw [toM_conjT] at hR
  rw [toM_matMul]
  exact stiefel_cholL_contract _ _ _ (by rw [hC, hGm]) hR

/-- `to_stiefel_polar`, `rank ≥ 2` branch: `XᴴX = 1` whenever the parameter matrix has full column rank, given the contract of
the inverse square root (`S = Sᴴ`, `S G S = 1` on positive definite `G`). -/
theorem stiefelPolar_orthonormal' (invSqrt : NMat ℂ → NMat ℂ)
    (hsq : ∀ G, (toM rank rank G).PosDef →
      (toM rank rank (invSqrt G))ᴴ = toM rank rank (invSqrt G) ∧
      toM rank rank (invSqrt G) * toM rank rank G * toM rank rank (invSqrt G) = 1)
    (isReal : Bool) (θ : Nat → ℝ) (hr : rank ≠ 1)
    (hfull : Function.Injective (toM dim rank (stiefelMat (K := ℂ) dim rank isReal θ)).mulVec) :
    (toM dim rank (stiefelPolar invSqrt dim rank isReal θ))ᴴ * toM dim rank (stiefelPolar invSqrt dim rank isReal θ) = 1 := by
  unfold stiefelPolar
  simp only [if_neg hr]
  set M := stiefelMat (K := ℂ) dim rank isReal θ with hM
  set G := matMul rank dim rank (conjT dim rank M) M with hG
  have hGm : toM rank rank G = (toM dim rank M)ᴴ * toM dim rank M := by rw [hG, toM_matMul, toM_conjT]
  have hpd : (toM rank rank G).PosDef := by rw [hGm]; exact Matrix.PosDef.conjTranspose_mul_self _ hfull
  obtain ⟨h1, h2⟩ := hsq G hpd
  rw [toM_matMul]
  exact stiefel_polar_contract _ _ h1 (by rw [← hGm]; exact h2)

/-- `to_stiefel_qr`: the property is the contract of the `qr` routine (nothing but the reshape is numqi's) -/
theorem stiefelQR_orthonormal' (qrQ : NMat ℂ → NMat ℂ)
    (hqr : ∀ M, Function.Injective (toM dim rank M).mulVec → (toM dim rank (qrQ M))ᴴ * toM dim rank (qrQ M) = 1)
    (isReal : Bool) (θ : Nat → ℝ)
    (hfull : Function.Injective (toM dim rank (stiefelMat (K := ℂ) dim rank isReal θ)).mulVec) :
    (toM dim rank (stiefelQR qrQ dim rank isReal θ))ᴴ * toM dim rank (stiefelQR qrQ dim rank isReal θ) = 1 :=
  hqr _ hfull

end Numqi.Manifold
