/-
Bit-level helper lemmas for the C19 model (`NumqiModel/Qec.lean`): parity of masks, single-bit flips.
-/
import Mathlib.Tactic
import NumqiModel.Qec

namespace Numqi.Qec

/-! ### parity by folding = xor of the low bits -/

/-- xor of the bits `0..k-1` -/
def xorBits (k m : Nat) : Bool := (List.range k).foldr (fun j acc => m.testBit j ^^ acc) false

theorem xorBits_zero (m : Nat) : xorBits 0 m = false := rfl

theorem xorBits_succ (k m : Nat) : xorBits (k + 1) m = (xorBits k m ^^ m.testBit k) := by
  unfold xorBits
  rw [List.range_succ, List.foldr_append]
  simp only [List.foldr_cons, List.foldr_nil, Bool.xor_false]
  generalize m.testBit k = b
  induction (List.range k) generalizing b with
  | nil => simp
  | cons a l ih => simp only [List.foldr_cons]; rw [ih]; simp

theorem xorBits_xor (k a b : Nat) : xorBits k (a ^^^ b) = (xorBits k a ^^ xorBits k b) := by
  induction k with
  | zero => rfl
  | succ k ih =>
    simp only [xorBits_succ, ih, Nat.testBit_xor]
    cases xorBits k a <;> cases xorBits k b <;> cases a.testBit k <;> cases b.testBit k <;> rfl

theorem xorBits_add (s t m : Nat) : xorBits (s + t) m = (xorBits s m ^^ xorBits t (m >>> s)) := by
  induction t with
  | zero => simp [xorBits_zero]
  | succ t ih =>
    rw [← Nat.add_assoc, xorBits_succ, ih, xorBits_succ, Nat.testBit_shiftRight]
    simp

theorem parityFold_eq (l m : Nat) : parityFold l m = xorBits (2 ^ l) m := by
  induction l generalizing m with
  | zero =>
    have : xorBits 1 m = (xorBits 0 m ^^ m.testBit 0) := xorBits_succ 0 m
    rw [parityFold, pow_zero, this, xorBits_zero]; simp
  | succ l ih =>
    rw [parityFold, ih, xorBits_xor, pow_succ, Nat.mul_two, xorBits_add]

theorem par_eq (m : Nat) : par m = xorBits 32 m := by
  rw [par, parityFold_eq]; norm_num

@[simp] theorem par_zero : par 0 = false := by decide

theorem par_xor (a b : Nat) : par (a ^^^ b) = (par a ^^ par b) := by
  simp only [par_eq, xorBits_xor]

theorem xorBits_bit {k q : Nat} (h : q < k) : xorBits k (bit q) = true := by
  induction k with
  | zero => omega
  | succ k ih =>
    rw [xorBits_succ]
    by_cases hq : q < k
    · rw [ih hq]
      have : (bit q).testBit k = false := by
        simp only [bit, Nat.one_shiftLeft, Nat.testBit_two_pow]
        simp; omega
      simp [this]
    · have hk : q = k := by omega
      subst hk
      have h0 : xorBits q (bit q) = false := by
        clear ih h hq
        have : ∀ j, j ≤ q → xorBits j (bit q) = false := by
          intro j hj
          induction j with
          | zero => rfl
          | succ j ihj =>
            rw [xorBits_succ, ihj (by omega)]
            simp only [bit, Nat.one_shiftLeft, Nat.testBit_two_pow]
            simp; omega
        exact this q (le_refl q)
      have : (bit q).testBit q = true := by
        simp [bit, Nat.one_shiftLeft]
      simp [h0, this]

theorem par_bit {q : Nat} (h : q < 32) : par (bit q) = true := by
  rw [par_eq]; exact xorBits_bit h

theorem and_bit (m q : Nat) : m &&& bit q = if m.testBit q then bit q else 0 := by
  apply Nat.eq_of_testBit_eq
  intro j
  by_cases h : m.testBit q
  · simp only [h, if_true, Nat.testBit_and, bit, Nat.one_shiftLeft, Nat.testBit_two_pow]
    by_cases hj : q = j
    · subst hj; simp [h]
    · simp [hj]
  · simp only [h, Nat.testBit_and, bit, Nat.one_shiftLeft, Nat.testBit_two_pow]
    by_cases hj : q = j
    · subst hj; simp [h]
    · simp [hj]

theorem bit_and (m q : Nat) : bit q &&& m = if m.testBit q then bit q else 0 := by
  rw [Nat.and_comm, and_bit]

/-- `z · e_q = z_q` -/
theorem par_and_bit (m : Nat) {q : Nat} (h : q < 32) : par (m &&& bit q) = m.testBit q := by
  rw [and_bit]; split <;> simp_all [par_bit h]

theorem par_bit_and (m : Nat) {q : Nat} (h : q < 32) : par (bit q &&& m) = m.testBit q := by
  rw [Nat.and_comm, par_and_bit m h]

/-- flipping bit `q` of the right factor changes `z·a` by `z_q` -/
theorem par_and_fl (z a : Nat) {q : Nat} (h : q < 32) :
    par (z &&& (a ^^^ bit q)) = (par (z &&& a) ^^ z.testBit q) := by
  rw [Nat.and_xor_distrib_left, par_xor, par_and_bit z h]

theorem par_fl_and (z a : Nat) {q : Nat} (h : q < 32) :
    par ((z ^^^ bit q) &&& a) = (par (z &&& a) ^^ a.testBit q) := by
  rw [Nat.and_xor_distrib_right, par_xor, par_bit_and a h]

theorem testBit_bit (q j : Nat) : (bit q).testBit j = decide (q = j) := by
  simp [bit, Nat.one_shiftLeft, Nat.testBit_two_pow]

theorem testBit_fl (i q j : Nat) : (i ^^^ bit q).testBit j = (i.testBit j ^^ decide (q = j)) := by
  rw [Nat.testBit_xor, testBit_bit]

theorem xor_bit_cancel (a q : Nat) : (a ^^^ bit q) ^^^ bit q = a := by
  rw [Nat.xor_assoc, Nat.xor_self, Nat.xor_zero]

@[simp] theorem forceNat_eq {α : Type} (v : Nat) (f : Nat → α) : forceNat v f = f v := by
  cases v <;> rfl

@[simp] theorem MP.force_eq {α : Type} (p : MP) (f : MP → α) : MP.force p f = f p := by
  simp [MP.force]

@[simp] theorem MP.forceList_eq {α : Type} (l : List MP) (f : List MP → α) : MP.forceList l f = f l := by
  induction l generalizing f with
  | nil => rfl
  | cons g gs ih => simp [MP.forceList, ih]

end Numqi.Qec
