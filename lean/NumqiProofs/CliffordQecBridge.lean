/-
C07 ↔ C19: the bitmask Paulis, products, commutation test, gate operators and tableau step of the QEC model
(`NumqiModel/Qec.lean`) are those of C07 / C08 / C03.
-/
import NumqiProofs.QecBridge
import NumqiProofs.CliffordCircuit
import Mathlib.Analysis.Real.Sqrt
import Mathlib.Data.Complex.Basic

namespace Numqi.Clifford
open Numqi Matrix

/-! ### masks of C19 ↔ binary Paulis of C07 -/

/-- C19's `i^k X^x Z^z` (two masks, qubit `q` = bit `q`) as the binary Pauli of C07 (`v = x + 2^n z`) -/
def ofMP (n : Nat) (p : Qec.MP) : PauliB := ⟨p.k % 4 / 2 == 1, p.k % 2 == 1, p.x ||| (p.z <<< n)⟩

theorem testBit_ofMP_lo {n : Nat} (p : Qec.MP) {i : Nat} (hi : i < n) : (ofMP n p).v.testBit i = p.x.testBit i := by
  simp only [ofMP, Nat.testBit_or, Nat.testBit_shiftLeft]
  have : ¬ i ≥ n := by omega
  simp [this]

theorem testBit_ofMP_hi {n : Nat} (p : Qec.MP) (hx : p.x < 2 ^ n) (i : Nat) :
    (ofMP n p).v.testBit (n + i) = p.z.testBit i := by
  simp only [ofMP, Nat.testBit_or, Nat.testBit_shiftLeft]
  rw [SpF2.testBit_eq_false_of_lt hx (by omega)]
  simp

/-- both readings give the same operator of C08 -/
theorem toPauli_ofMP {n : Nat} (p : Qec.MP) (hx : p.x < 2 ^ n) : toPauli n (ofMP n p) = Qec.toPauli n p := by
  simp only [toPauli, Qec.toPauli]
  congr 1
  · funext i; exact testBit_ofMP_lo p i.isLt
  · funext i; exact testBit_ofMP_hi p hx i.val

theorem ofMP_lt {n : Nat} (p : Qec.MP) (hx : p.x < 2 ^ n) (hz : p.z < 2 ^ n) : (ofMP n p).v < 4 ^ n := by
  rw [SpF2.four_pow]
  apply Nat.lt_pow_two_of_testBit
  intro i hi
  simp only [ofMP, Nat.testBit_or, Nat.testBit_shiftLeft]
  rw [SpF2.testBit_eq_false_of_lt hx (by omega), SpF2.testBit_eq_false_of_lt hz (by omega)]
  simp

theorem ph_ofMP (n : Nat) (p : Qec.MP) : ph (ofMP n p) = p.k % 4 := by
  simp only [ph, ofMP]
  have h4 : p.k % 4 < 4 := Nat.mod_lt _ (by norm_num)
  have e2 : p.k % 2 = p.k % 4 % 2 := by omega
  rw [e2]
  generalize p.k % 4 = r at *
  interval_cases r <;> rfl

theorem cnt_parity_par {n : Nat} (hn : n ≤ 32) (a b : Nat) (hb : b < 2 ^ n) :
    cnt n a b % 2 = (Qec.par (a &&& b)).toNat := by
  have hlt : a &&& b < 2 ^ n := lt_of_le_of_lt Nat.and_le_right hb
  rw [Qec.par_eq, Qec.xorBits_of_lt hlt 32 hn, Qec.xorBits_eq_sum, cnt_eq_sum]
  congr 1
  apply Finset.sum_congr rfl
  intro i _
  rw [Nat.testBit_and]

/-- **C19's product on masks is C07's `mulB`** (hence C08's `Pauli.mul`), phase included -/
theorem ofMP_mul {n : Nat} (hn : n ≤ 32) (a b : Qec.MP) (hax : a.x < 2 ^ n) (hbx : b.x < 2 ^ n) :
    ofMP n (Qec.MP.mul a b) = mulB n (ofMP n a) (ofMP n b) := by
  apply PauliB.ext_ph
  · rw [mulB_v]
    apply Nat.eq_of_testBit_eq; intro j
    simp only [ofMP, Qec.MP.mul, Nat.testBit_or, Nat.testBit_xor, Nat.testBit_shiftLeft]
    by_cases hj : j ≥ n
    · rw [SpF2.testBit_eq_false_of_lt hax hj, SpF2.testBit_eq_false_of_lt hbx hj]; simp [hj]
    · simp [hj]
  · rw [mulB_ph, ph_ofMP, ph_ofMP, ph_ofMP]
    have hsh : (ofMP n a).v >>> n = a.z := by
      apply Nat.eq_of_testBit_eq; intro j
      rw [Nat.testBit_shiftRight, testBit_ofMP_hi a hax]
    have hc : cnt n a.z (ofMP n b).v = cnt n a.z b.x := by
      rw [cnt_eq_sum, cnt_eq_sum]
      apply Finset.sum_congr rfl; intro i _
      rw [testBit_ofMP_lo b i.isLt]
    have := cnt_parity_par hn a.z b.x hbx
    simp only [om, hsh, hc, Qec.MP.mul]
    generalize Qec.par (a.z &&& b.x) = P at this ⊢
    generalize cnt n a.z b.x = C at this ⊢
    cases P <;> simp at this ⊢ <;> omega

/-- the mask of a bit vector -/
theorem posOf_testBits {n x : Nat} (hx : x < 2 ^ n) : Qec.posOf (fun i : Fin n => x.testBit i) = x := by
  apply Nat.eq_of_testBit_eq; intro j
  rw [Qec.testBit_posOf]
  by_cases hj : j < n
  · simp [hj]
  · simp [hj, SpF2.testBit_eq_false_of_lt hx (by omega : n ≤ j)]

/-- **C19's anticommutation test is C08's commutation test** -/
theorem acomm_iff_not_commutes {n : Nat} (hn : n ≤ 32) (a b : Qec.MP) (hax : a.x < 2 ^ n) (hbx : b.x < 2 ^ n) :
    Qec.MP.acomm a b = !(Pauli.commutes (Qec.toPauli n a) (Qec.toPauli n b)) := by
  have h1 := Qec.dotN_parity hn b.z (fun i : Fin n => a.x.testBit i)
  have h2 := Qec.dotN_parity hn a.z (fun i : Fin n => b.x.testBit i)
  rw [posOf_testBits hax] at h1
  rw [posOf_testBits hbx] at h2
  simp only [Qec.MP.acomm, Pauli.commutes, Qec.toPauli, Qec.par_xor]
  rw [Bits.dotN_comm (fun i : Fin n => a.x.testBit i)] 
  rw [Nat.and_comm a.x b.z]
  revert h1 h2
  generalize Bits.dotN (fun i : Fin n => b.z.testBit ↑i) (fun i : Fin n => a.x.testBit ↑i) = D1
  generalize Bits.dotN (fun i : Fin n => a.z.testBit ↑i) (fun i : Fin n => b.x.testBit ↑i) = D2
  cases Qec.par (b.z &&& a.x) <;> cases Qec.par (a.z &&& b.x) <;> simp <;> omega

/-! ### C19's state vectors are C03's: the gates of `Qec.applyGate` are the embedded operators -/

section sem
variable {R : Type} [CommRing R] {n : Nat}

/-- basis state with qubit `q` flipped -/
def flipB (x : Bits n) (q : Nat) : Bits n := Bits.xor x (fun i => (Qec.bit q).testBit i)

theorem posOf_flipB (x : Bits n) {q : Nat} (hq : q < n) : Qec.posOf (flipB x q) = Qec.fl (Qec.posOf x) q := by
  unfold flipB Qec.fl; exact Qec.posOf_xor x (Qec.bit q) (Qec.bit_lt hq)

theorem tb_posOf (x : Bits n) {q : Nat} (hq : q < n) : (Qec.posOf x).testBit q = x ⟨q, hq⟩ := by
  rw [Qec.testBit_posOf]; simp [hq]

theorem upd1 (x : Bits n) {q : Nat} (hq : q < n) (y : Bits 1) :
    x.upd (fun _ : Fin 1 => (⟨q, hq⟩ : Fin n)) y = if y 0 = x ⟨q, hq⟩ then x else flipB x q := by
  have hinj : Function.Injective (fun _ : Fin 1 => (⟨q, hq⟩ : Fin n)) := fun a b _ => Subsingleton.elim a b
  funext i
  by_cases hi : i = ⟨q, hq⟩
  · subst hi
    have := Bits.upd_apply_target hinj x y 0
    rw [this]
    by_cases h : y 0 = x ⟨q, hq⟩
    · rw [if_pos h, h]
    · rw [if_neg h]
      simp only [flipB, Bits.xor, Qec.testBit_bit, decide_true, Bool.xor_true]
      revert h; cases y 0 <;> cases x ⟨q, hq⟩ <;> simp
  · rw [Bits.upd_apply_off x y (fun j e => hi e.symm)]
    split
    · rfl
    · simp only [flipB, Bits.xor, Qec.testBit_bit]
      have : ¬ q = i.val := fun e => hi (Fin.ext e.symm)
      simp [this]

/-- a one-qubit gate on qubit `q`, acting on a vector -/
theorem embed1_mulVec (U : Matrix (Bits 1) (Bits 1) R) {q : Nat} (hq : q < n) (ψ : Bits n → R) (x : Bits n) :
    (Matrix.of (Numqi.embed U (fun _ : Fin 1 => (⟨q, hq⟩ : Fin n)))).mulVec ψ x =
      U (fun _ => x ⟨q, hq⟩) (fun _ => x ⟨q, hq⟩) * ψ x +
        U (fun _ => x ⟨q, hq⟩) (fun _ => !x ⟨q, hq⟩) * ψ (flipB x q) := by
  have hinj : Function.Injective (fun _ : Fin 1 => (⟨q, hq⟩ : Fin n)) := fun a b _ => Subsingleton.elim a b
  have h : (Matrix.of (Numqi.embed U (fun _ : Fin 1 => (⟨q, hq⟩ : Fin n)))).mulVec ψ x =
      Numqi.applyGate U (fun _ : Fin 1 => (⟨q, hq⟩ : Fin n)) ψ x := (congrFun (C03.applyGate_eq_embed hinj U ψ) x).symm
  rw [h]
  simp only [Numqi.applyGate, sumBits_eq_sum]
  rw [sum_bits1]
  have hsel : x.sel (fun _ : Fin 1 => (⟨q, hq⟩ : Fin n)) = fun _ => x ⟨q, hq⟩ := rfl
  rw [hsel, upd1 x hq, upd1 x hq]
  cases hx : x ⟨q, hq⟩ <;> simp [add_comm]

/-- a controlled gate acts where the control is 1 -/
theorem ctrlEmbed_mulVec (U : Matrix (Bits 1) (Bits 1) R) (isCtrl : Fin n → Bool) (tt : Fin 1 → Fin n)
    (ψ : Bits n → R) (x : Bits n) :
    (Matrix.of (ctrlEmbed U isCtrl tt)).mulVec ψ x =
      if ctrlOn isCtrl x then (Matrix.of (Numqi.embed U tt)).mulVec ψ x else ψ x := by
  simp only [Matrix.mulVec, dotProduct, Matrix.of_apply, ctrlEmbed]
  split
  · rfl
  · simp [Bits.beq_iff]

end sem

/-- C19's gate as the recorded gate of C07 -/
def toGate : Qec.Gate → Option Gate
  | .h q => some ⟨.H, [q]⟩ | .x q => some ⟨.X, [q]⟩ | .y q => some ⟨.Y, [q]⟩ | .z q => some ⟨.Z, [q]⟩
  | .s q => some ⟨.S, [q]⟩
  | .cx c t => some ⟨.CX, [c, t]⟩ | .cy c t => some ⟨.CY, [c, t]⟩ | .cz c t => some ⟨.CZ, [c, t]⟩
  | .unknown => none

section sem2
variable {R : Type} [CommRing R] {n : Nat}

set_option hygiene false in
macro "qec1_tac" : tactic =>
  `(tactic| (
    simp only [gateMatrixN, dif_pos hq, if_true, if_false, one_smul, reduceCtorEq]
    rw [embed1_mulVec _ hq]
    simp only [Qec.applyGate, Qec.tb, tb_posOf x hq, ← posOf_flipB x hq]
    cases hx : x ⟨q, hq⟩ <;>
      simp [gateMat1, Bits.toNat, Mat.get, GateKey.mat, gintTo] <;> ring))

set_option hygiene false in
macro "qec2_tac" : tactic =>
  `(tactic| (
    simp only [gateMatrixN, dif_pos (And.intro hc ht), GateKey.base]
    rw [ctrlEmbed_mulVec]
    have hon : ctrlOn (fun i : Fin n => decide (i.val = c)) x = x ⟨c, hc⟩ := by
      rw [Bool.eq_iff_iff, ctrlOn_iff]
      constructor
      · intro h; exact h ⟨c, hc⟩ (by simp)
      · intro h i hi
        have : i = ⟨c, hc⟩ := Fin.ext (by simpa using hi)
        rw [this]; exact h
    rw [hon, embed1_mulVec _ ht]
    simp only [Qec.applyGate, Qec.tb, tb_posOf x hc, tb_posOf x ht, ← posOf_flipB x ht]
    cases hxc : x ⟨c, hc⟩ <;> cases hxt : x ⟨t, ht⟩ <;>
      simp [gateMat1, Bits.toNat, Mat.get, GateKey.mat, gintTo] <;> ring))

/-- **`Qec.applyGate` (C19's model of one step of `Circuit.apply_state`) is multiplication by the operator C03 assigns to
the same gate** (`embed` / `ctrlEmbed`, `H` unnormalised as in C19), under `basis state b ↦ position Σ b_i 2^i`. -/
theorem qec_applyGate_eq (I : R) (g : Qec.Gate) (hg : Qec.gateOk n g = true) (g' : Gate) (hg' : toGate g = some g')
    (v : Nat → R) (x : Bits n) :
    Qec.applyGate I g v (Qec.posOf x) = (gateMatrixN I 1 n g').mulVec (fun b => v (Qec.posOf b)) x := by
  cases g with
  | h q => simp only [Qec.gateOk, decide_eq_true_eq] at hg; have hq := hg; cases hg'; qec1_tac
  | x q => simp only [Qec.gateOk, decide_eq_true_eq] at hg; have hq := hg; cases hg'; qec1_tac
  | y q => simp only [Qec.gateOk, decide_eq_true_eq] at hg; have hq := hg; cases hg'; qec1_tac
  | z q => simp only [Qec.gateOk, decide_eq_true_eq] at hg; have hq := hg; cases hg'; qec1_tac
  | s q => simp only [Qec.gateOk, decide_eq_true_eq] at hg; have hq := hg; cases hg'; qec1_tac
  | cx c t =>
    simp only [Qec.gateOk, Bool.and_eq_true, decide_eq_true_eq] at hg
    have hc := hg.1.1; have ht := hg.1.2; cases hg'; qec2_tac
  | cy c t =>
    simp only [Qec.gateOk, Bool.and_eq_true, decide_eq_true_eq] at hg
    have hc := hg.1.1; have ht := hg.1.2; cases hg'; qec2_tac
  | cz c t =>
    simp only [Qec.gateOk, Bool.and_eq_true, decide_eq_true_eq] at hg
    have hc := hg.1.1; have ht := hg.1.2; cases hg'; qec2_tac
  | unknown => simp [Qec.gateOk] at hg

end sem2

/-! ### the tableau step of C19 and the tableau of C07 are inverse to each other -/

theorem flipIf_lt {c : Bool} {m q n : Nat} (hm : m < 2 ^ n) (hq : q < n) : Qec.flipIf c m q < 2 ^ n := by
  unfold Qec.flipIf; split
  · exact SpF2.xor_lt hm (Qec.bit_lt hq)
  · exact hm

/-- `conj1` keeps the masks below `2^n` -/
theorem conj1_lt {n : Nat} (g : Qec.Gate) (hg : Qec.gateOk n g = true) (p p' : Qec.MP)
    (h : Qec.conj1 p g = some p') (hx : p.x < 2 ^ n) (hz : p.z < 2 ^ n) : p'.x < 2 ^ n ∧ p'.z < 2 ^ n := by
  cases g with
  | h q => simp only [Qec.gateOk, decide_eq_true_eq] at hg; simp only [Qec.conj1, Option.some.injEq] at h
           subst h; exact ⟨flipIf_lt hx hg, flipIf_lt hz hg⟩
  | x q => simp only [Qec.conj1, Option.some.injEq] at h; subst h; exact ⟨hx, hz⟩
  | y q => simp only [Qec.conj1, Option.some.injEq] at h; subst h; exact ⟨hx, hz⟩
  | z q => simp only [Qec.conj1, Option.some.injEq] at h; subst h; exact ⟨hx, hz⟩
  | s q => simp only [Qec.gateOk, decide_eq_true_eq] at hg; simp only [Qec.conj1, Option.some.injEq] at h
           subst h; exact ⟨hx, flipIf_lt hz hg⟩
  | cx c t =>
    simp only [Qec.gateOk, Bool.and_eq_true, decide_eq_true_eq, bne_iff_ne, ne_eq] at hg
    have hct : (c == t) = false := by simpa using hg.2
    simp only [Qec.conj1, hct, Bool.false_eq_true, if_false, Option.some.injEq] at h
    subst h; exact ⟨flipIf_lt hx hg.1.2, flipIf_lt hz hg.1.1⟩
  | cy c t =>
    simp only [Qec.gateOk, Bool.and_eq_true, decide_eq_true_eq, bne_iff_ne, ne_eq] at hg
    have hct : (c == t) = false := by simpa using hg.2
    simp only [Qec.conj1, hct, Bool.false_eq_true, if_false, Option.some.injEq] at h
    subst h; exact ⟨flipIf_lt hx hg.1.2, flipIf_lt (flipIf_lt (flipIf_lt hz hg.1.2) hg.1.1) hg.1.2⟩
  | cz c t =>
    simp only [Qec.gateOk, Bool.and_eq_true, decide_eq_true_eq, bne_iff_ne, ne_eq] at hg
    have hct : (c == t) = false := by simpa using hg.2
    simp only [Qec.conj1, hct, Bool.false_eq_true, if_false, Option.some.injEq] at h
    subst h; exact ⟨hx, flipIf_lt (flipIf_lt hz hg.1.1) hg.1.2⟩
  | unknown => simp [Qec.gateOk] at hg

section step
variable {R : Type} [CommRing R] {n : Nat}

theorem PM_ofMP (I : R) (p : Qec.MP) (hx : p.x < 2 ^ n) : PM n I (ofMP n p) = C08.mat I (Qec.toPauli n p) := by
  simp only [PM]; rw [toPauli_ofMP p hx]

theorem matrix_eq_of_mulVec {A B : Matrix (Bits n) (Bits n) R} (h : ∀ ψ x, A.mulVec ψ x = B.mulVec ψ x) : A = B := by
  ext x b
  have := h (basis b) x
  rwa [mulVec_basis, mulVec_basis] at this

/-- **C19's soundness theorem, as a matrix identity of C03/C08 objects**: `G · P = P' · G` with `G` the C03 operator
(unnormalised `H`), `P, P'` C08's Pauli matrices and `P' = conj1 P g` -/
theorem conj1_matrix {I : R} (hI : I * I = -1) (hn : n ≤ 32) (g : Qec.Gate) (hg : Qec.gateOk n g = true)
    (g' : Gate) (hg' : toGate g = some g') (p p' : Qec.MP) (h : Qec.conj1 p g = some p')
    (hx : p.x < 2 ^ n) (hz : p.z < 2 ^ n) :
    gateMatrixN I 1 n g' * PM n I (ofMP n p) = PM n I (ofMP n p') * gateMatrixN I 1 n g' := by
  obtain ⟨hx', _⟩ := conj1_lt g hg p p' h hx hz
  apply matrix_eq_of_mulVec
  intro ψ x
  rw [← Matrix.mulVec_mulVec, ← Matrix.mulVec_mulVec]
  set v : Nat → R := fun i => ψ (fun j : Fin n => i.testBit j) with hv
  have hvψ : (fun b : Bits n => v (Qec.posOf b)) = ψ := by
    funext b; simp only [hv]; congr 1; funext j; rw [Qec.testBit_posOf]; simp
  have hs := congrFun (Qec.conj1_sound hI hn g hg p p' h v) (Qec.posOf x)
  rw [qec_applyGate_eq I g hg g' hg', Qec.pauliAct_eq_mat hI hn p' hx'] at hs
  have e1 : (fun b : Bits n => Qec.pauliAct I p v (Qec.posOf b)) = (PM n I (ofMP n p)).mulVec ψ := by
    funext b; rw [Qec.pauliAct_eq_mat hI hn p hx, hvψ, PM_ofMP I p hx]
  have e2 : (fun b : Bits n => Qec.applyGate I g v (Qec.posOf b)) = (gateMatrixN I 1 n g').mulVec ψ := by
    funext b; rw [qec_applyGate_eq I g hg g' hg', hvψ]
  rw [e1, e2, ← PM_ofMP I p' hx'] at hs
  exact hs

end step

section cancel
variable {R : Type} [CommRing R] {n : Nat}

theorem embed_smul (c : R) {k : Nat} (M : Matrix (Bits k) (Bits k) R) (t : Fin k → Fin n) :
    (Matrix.of (Numqi.embed (c • M) t) : Matrix (Bits n) (Bits n) R) = c • Matrix.of (Numqi.embed M t) := by
  ext x x'
  simp only [Matrix.of_apply, Numqi.embed, Matrix.smul_apply, smul_eq_mul]
  split <;> simp

/-- the operator with unnormalised `H` is a scalar multiple (`s = 2h`) of the normalised one -/
theorem gateMatrixN_one (I h s : R) (hs : s * h = 1) (g : Gate) (hlen : g.idx.length = g.key.arity)
    (hlt : ∀ q ∈ g.idx, q < n) :
    gateMatrixN I 1 n g = (if g.key = .H then s else 1) • gateMatrixN I h n g := by
  obtain ⟨key, idx⟩ := g
  simp only at hlen hlt ⊢
  have ha1 : key.arity ≥ 1 := by cases key <;> decide
  have ha2 : key.arity ≤ 2 := by cases key <;> decide
  rcases idx with _ | ⟨q0, _ | ⟨q1, _ | ⟨q2, rest⟩⟩⟩
  · simp at hlen; omega
  · have hq : q0 < n := hlt q0 (by simp)
    simp only [gateMatrixN, dif_pos hq]
    by_cases hk : key = .H
    · simp only [hk, if_true, one_smul]
      rw [embed_smul, smul_smul, hs, one_smul]
    · simp only [hk, if_false, one_smul]
  · have hk : key ≠ .H := by intro e; subst e; simp [GateKey.arity] at hlen
    simp [gateMatrixN, hk]
  · simp at hlen; omega

/-- left cancellation of a gate operator -/
theorem gate_left_cancel [StarRing R] {I h : R} (hI : I * I = -1) (hs : star I = -I) (hh : star h = h)
    (h2 : 2 * (h * h) = 1) (g : Gate) (hlen : g.idx.length = g.key.arity) (hnd : g.idx.Nodup)
    (hlt : ∀ q ∈ g.idx, q < n) (A B : Matrix (Bits n) (Bits n) R)
    (hAB : gateMatrixN I 1 n g * A = gateMatrixN I 1 n g * B) : A = B := by
  have hsh : (2 * h) * h = 1 := by rw [mul_assoc]; exact h2
  rw [gateMatrixN_one I h (2 * h) hsh g hlen hlt] at hAB
  have hU := gateMatrixN_unitary hI hs hh h2 n g hlen hnd
  rw [Matrix.mem_unitaryGroup_iff', Matrix.star_eq_conjTranspose] at hU
  set c : R := if g.key = .H then 2 * h else 1 with hc
  have hcu : (if g.key = GateKey.H then h else 1) * c = 1 := by
    by_cases hk : g.key = .H <;> simp [hc, hk]
    rw [mul_comm]; exact hsh
  have h1 := congrArg (fun M => (if g.key = GateKey.H then h else 1) • ((gateMatrixN I h n g)ᴴ * M)) hAB
  simp only [Matrix.smul_mul, Matrix.mul_smul, ← Matrix.mul_assoc, hU, Matrix.one_mul, smul_smul, hcu, one_smul] at h1
  exact h1

end cancel

/-! ### the purely combinatorial statements (instantiating the matrices at `ℂ`) -/

theorem toPauli_inj {n : Nat} {a b : PauliB} (ha : a.v < 4 ^ n) (hb : b.v < 4 ^ n)
    (h : Pauli.beq (toPauli n a) (toPauli n b) = true) : a = b := by
  simp only [Pauli.beq, Bool.and_eq_true, beq_iff_eq, Bits.beq_iff, toPauli] at h
  obtain ⟨⟨⟨h0, h1⟩, hx⟩, hz⟩ := h
  obtain ⟨a0, a1, av⟩ := a
  obtain ⟨b0, b1, bv⟩ := b
  simp only at h0 h1 hx hz ha hb
  subst h0; subst h1
  congr 1
  rw [SpF2.four_pow] at ha hb
  apply Nat.eq_of_testBit_eq; intro j
  by_cases hj : j < n
  · exact congrFun hx ⟨j, hj⟩
  · by_cases hj2 : j < 2 * n
    · have := congrFun hz ⟨j - n, by omega⟩
      simp only at this
      have e : n + (j - n) = j := by omega
      rwa [e] at this
    · rw [SpF2.testBit_eq_false_of_lt ha (by omega), SpF2.testBit_eq_false_of_lt hb (by omega)]

theorem complex_setup : Complex.I * Complex.I = -1 ∧ star Complex.I = -Complex.I ∧
    star ((Real.sqrt 2)⁻¹ : ℂ) = ((Real.sqrt 2)⁻¹ : ℂ) ∧
    2 * (((Real.sqrt 2)⁻¹ : ℂ) * ((Real.sqrt 2)⁻¹ : ℂ)) = 1 ∧ (1 : ℂ) ≠ -1 := by
  refine ⟨Complex.I_mul_I, Complex.conj_I, ?_, ?_, ?_⟩
  · rw [← Complex.ofReal_inv]; exact Complex.conj_ofReal _
  · rw [← Complex.ofReal_inv, ← Complex.ofReal_mul, ← mul_inv, Real.mul_self_sqrt (by norm_num)]
    norm_num
  · intro h; have := congrArg Complex.re h; norm_num at this

/-- **The tableau step of C19 is undone by the adjoint-gate tableau of C07**: if `conj1 P g = P'` (C19: `P' = G P G†`),
then C07's action of the recorded gate on `P'` (`gateAct`: the embedded tableau of `G†`, i.e. `G† P' G`) returns `P` —
on the binary forms, phase included, for every register size `n ≤ 32` (C19's mask width). -/
theorem conj1_gateAct {n : Nat} (hn : n ≤ 32) (g : Qec.Gate) (hg : Qec.gateOk n g = true) (g' : Gate)
    (hg' : toGate g = some g') (p p' : Qec.MP) (h : Qec.conj1 p g = some p') (hx : p.x < 2 ^ n) (hz : p.z < 2 ^ n) :
    gateAct n (ofMP n p') g' = ofMP n p := by
  obtain ⟨hI, hs, hh, h2, hne⟩ := complex_setup
  obtain ⟨hx', hz'⟩ := conj1_lt g hg p p' h hx hz
  -- well-formedness of the recorded gate
  have hwf : g'.idx.length = g'.key.arity ∧ g'.idx.Nodup ∧ ∀ q ∈ g'.idx, q < n := by
    cases g with
    | h q => cases hg'; simp only [Qec.gateOk, decide_eq_true_eq] at hg; simp [GateKey.arity, hg]
    | x q => cases hg'; simp only [Qec.gateOk, decide_eq_true_eq] at hg; simp [GateKey.arity, hg]
    | y q => cases hg'; simp only [Qec.gateOk, decide_eq_true_eq] at hg; simp [GateKey.arity, hg]
    | z q => cases hg'; simp only [Qec.gateOk, decide_eq_true_eq] at hg; simp [GateKey.arity, hg]
    | s q => cases hg'; simp only [Qec.gateOk, decide_eq_true_eq] at hg; simp [GateKey.arity, hg]
    | cx c t => cases hg'; simp only [Qec.gateOk, Bool.and_eq_true, decide_eq_true_eq, bne_iff_ne, ne_eq] at hg
                simp [GateKey.arity, hg.1.1, hg.1.2, hg.2]
    | cy c t => cases hg'; simp only [Qec.gateOk, Bool.and_eq_true, decide_eq_true_eq, bne_iff_ne, ne_eq] at hg
                simp [GateKey.arity, hg.1.1, hg.1.2, hg.2]
    | cz c t => cases hg'; simp only [Qec.gateOk, Bool.and_eq_true, decide_eq_true_eq, bne_iff_ne, ne_eq] at hg
                simp [GateKey.arity, hg.1.1, hg.1.2, hg.2]
    | unknown => simp [Qec.gateOk] at hg
  obtain ⟨w1, w2, w3⟩ := hwf
  have hq' : (ofMP n p').v < 4 ^ n := ofMP_lt p' hx' hz'
  -- C19: G P = P' G;  C07: P' G = G Q with Q = gateAct P'
  have e1 := conj1_matrix (R := ℂ) hI hn g hg g' hg' p p' h hx hz
  obtain ⟨e2, hQlt⟩ := gate_conjugation (R := ℂ) hI 1 n g' w1 w2 w3 (ofMP n p') hq'
  rw [e2] at e1
  have e3 := gate_left_cancel hI hs hh h2 g' w1 w2 w3 _ _ e1
  -- faithfulness of C08's matrices
  have := C08.mat_injective hI hne _ _ e3
  exact (toPauli_inj (ofMP_lt p hx hz) hQlt this).symm

/-- the same through a whole gate list: propagating with C19's rules and then acting with C07's adjoint-gate tableaux in
reverse order returns the original operator -/
theorem conjCirc_seq {n : Nat} (hn : n ≤ 32) (gs : List Qec.Gate) (hg : gs.all (Qec.gateOk n) = true)
    (gates : List Gate) (hgs : gs.mapM toGate = some gates) (p p' : Qec.MP) (h : Qec.conjCirc p gs = some p')
    (hx : p.x < 2 ^ n) (hz : p.z < 2 ^ n) :
    gates.reverse.foldl (gateAct n) (ofMP n p') = ofMP n p := by
  induction gs generalizing p gates with
  | nil =>
    simp at hgs; subst hgs
    simp only [Qec.conjCirc, Option.some.injEq] at h; subst h; rfl
  | cons g gs ih =>
    simp only [List.all_cons, Bool.and_eq_true] at hg
    simp only [List.mapM_cons, Option.bind_eq_bind, Option.pure_def] at hgs
    cases hg1 : toGate g with
    | none => simp [hg1] at hgs
    | some g' =>
      cases hg2 : gs.mapM toGate with
      | none => simp [hg1, hg2] at hgs
      | some gates' =>
        simp only [hg1, hg2, Option.bind_some, Option.some.injEq] at hgs
        subst hgs
        simp only [Qec.conjCirc] at h
        cases h1 : Qec.conj1 p g with
        | none => simp [h1] at h
        | some p1 =>
          simp only [h1] at h
          obtain ⟨hx1, hz1⟩ := conj1_lt g hg.1 p p1 h1 hx hz
          rw [List.reverse_cons, List.foldl_append, List.foldl_cons, List.foldl_nil,
            ih hg.2 gates' hg2 p1 h hx1 hz1]
          exact conj1_gateAct hn g hg.1 g' hg1 p p1 h1 hx hz

/-- **C19 and C07 speak about the same objects**: for a gate list accepted by both models on `n ≤ 32` qubits, if C19's
tableau propagates `P` to `P' = U P U†` (`conjCirc`, its theorem `tableau_is_conjugation`), then C07's tableau of the same
circuit (`to_symplectic_form`, its theorem `circuit_conjugation`: `U† · U`) maps `P'` back to `P` — bit for bit. -/
theorem conjCirc_tableau {n : Nat} (hn : n ≤ 32) (gs : List Qec.Gate) (hg : gs.all (Qec.gateOk n) = true)
    (gates : List Gate) (hgs : gs.mapM toGate = some gates) (hnq : numQubit gates = .ok n)
    (t : Tab) (ht : symplecticOf gates = .ok t) (hwf : GatesWF gates)
    (p p' : Qec.MP) (h : Qec.conjCirc p gs = some p') (hx : p.x < 2 ^ n) (hz : p.z < 2 ^ n) :
    applyOnPauli (ofMP n p') t = ofMP n p := by
  obtain ⟨n', h1, _, h3⟩ := symplecticOf_sequential' gates hwf
    (fun k => ⟨dagTable k, basicDaggerF2_dagTable k, dagTable_n k, dagTable_colSp k⟩) t ht
  rw [hnq] at h1; cases h1
  rw [h3]
  -- the masks stay below 2^n along the circuit
  have hlt : ∀ (gs : List Qec.Gate) (p p' : Qec.MP), gs.all (Qec.gateOk n) = true → Qec.conjCirc p gs = some p' →
      p.x < 2 ^ n → p.z < 2 ^ n → p'.x < 2 ^ n ∧ p'.z < 2 ^ n := by
    intro gs
    induction gs with
    | nil => intro p p' _ h hx hz; simp only [Qec.conjCirc, Option.some.injEq] at h; subst h; exact ⟨hx, hz⟩
    | cons g gs ih =>
      intro p p' hg h hx hz
      simp only [List.all_cons, Bool.and_eq_true] at hg
      simp only [Qec.conjCirc] at h
      cases h1 : Qec.conj1 p g with
      | none => simp [h1] at h
      | some p1 =>
        simp only [h1] at h
        obtain ⟨a, b⟩ := conj1_lt g hg.1 p p1 h1 hx hz
        exact ih p1 p' hg.2 h a b
  obtain ⟨hx', hz'⟩ := hlt gs p p' hg h hx hz
  rw [apply_id n _ (ofMP_lt p' hx' hz')]
  exact conjCirc_seq hn gs hg gates hgs p p' h hx hz

end Numqi.Clifford
