/-
C13, scalar / guard layer — property theorems about the guarded closed forms of `NumqiModel/Decision.lean`
(`get_eof_2qubit`, `get_gme_2qubit` as functions of the concurrence) at the guard flags of
`NumqiModel/Generated/Thresholds.lean`, regenerated from the numqi sources on every run.
Listed in `THEOREM_FILES` of `harness/c13.py`.  Instantiation at ℝ: `sqrt = Real.sqrt`, `log = Real.log`.
-/
import NumqiModel.Decision
import NumqiProofs.EntangleSpin
import Mathlib.Tactic
import Mathlib.Analysis.SpecialFunctions.BinaryEntropy
import Mathlib.Analysis.SpecialFunctions.Sqrt
import Mathlib.Algebra.BigOperators.Fin

namespace Numqi.C13
open Numqi Numqi.Ent Numqi.Ent.Thresholds Real

noncomputable instance : SqrtLog ℝ := ⟨Real.sqrt, Real.log⟩

/-- the translator recognised the structure of both closed forms -/
theorem guards_recognised : eofRecognised = true ∧ gmeRecognised = true ∧ concPureRecognised = true := by decide

/-! ### totality: no `log` of a non-positive number, no `sqrt` of a negative number, on any branch -/

/-- **`get_eof_2qubit`: the argument of `np.sqrt` is `≥ 0` for every real `c`** — including `c = 1+ulp`
(the concurrence of a maximally entangled state can round above 1). Needs the `max(0,·)` clamp. -/
theorem eof_sqrtArg_nonneg (c : ℝ) : 0 ≤ sqrtArg eofClampSqrtArg c := by
  simp only [sqrtArg, eofClampSqrtArg, if_true, pyMax0]
  split_ifs with h <;> linarith

/-- **`get_gme_2qubit`: the argument of `np.sqrt` is `≥ 0` for every real `c`** -/
theorem gme_guard_total (c : ℝ) : 0 ≤ sqrtArg gmeClampSqrtArg c := by
  simp only [sqrtArg, gmeClampSqrtArg, if_true, pyMax0]
  split_ifs with h <;> linarith

/-- **`get_concurrence_pure`: the argument of `np.sqrt` is `≥ 0` for every value of the radicand** — the purity of the
reduced state of a product state rounds to `1+ulp` for ~40 % of them. -/
theorem concPure_guard_total (x : ℝ) : 0 ≤ concPureSqrtArg x := by
  simp only [concPureSqrtArg, concPureClampSqrtArg, if_true, pyMax0]
  split_ifs with h <;> linarith

/-- `tmp1 ∈ [1/2, 1]` for every real `c` (exact arithmetic; correctly rounded `sqrt`, `+`, `/2` preserve the interval) -/
theorem eofT_range (c : ℝ) : 1 / 2 ≤ eofT c ∧ eofT c ≤ 1 := by
  have h0 := eof_sqrtArg_nonneg c
  have h1 : sqrtArg eofClampSqrtArg c ≤ 1 := by
    simp only [sqrtArg, eofClampSqrtArg, if_true, pyMax0]
    split_ifs with h <;> nlinarith [sq_nonneg c]
  have s0 := Real.sqrt_nonneg (sqrtArg eofClampSqrtArg c)
  have s1 : Real.sqrt (sqrtArg eofClampSqrtArg c) ≤ 1 := by
    rw [show (1 : ℝ) = Real.sqrt 1 by simp]; exact Real.sqrt_le_sqrt h1
  simp only [eofT, SqrtLog.sqrt]
  constructor <;> linarith

/-- **`get_eof_2qubit` is total** (`eof_guard_total`): whatever value `t ∈ [1/2,1]` the rounded `tmp1` takes — in
particular `t = 1`, which happens for every concurrence below `~1e-8` because `1-c²` rounds to 1 — every `np.log`
evaluated on the branch taken has a strictly positive argument (so no `0·log 0 = NaN`). Needs the `if tmp1<1` guard. -/
theorem eof_guard_total (t : ℝ) (h0 : 1 / 2 ≤ t) (h1 : t ≤ 1) : ∀ x ∈ eofLogArgs t, 0 < x := by
  intro x hx
  simp only [eofLogArgs, eofSecondTermGuardLt1, if_true] at hx
  split_ifs at hx with h
  · simp only [List.mem_cons, List.not_mem_nil, or_false] at hx
    rcases hx with rfl | rfl <;> linarith
  · simp only [List.mem_cons, List.not_mem_nil, or_false] at hx
    subst hx; linarith

/-! ### the closed forms over ℝ -/

/-- the guarded body is the binary entropy (natural logarithm) of `tmp1` -/
theorem eofBody_eq_binEntropy (t : ℝ) (h1 : t ≤ 1) : eofBody t = Real.binEntropy t := by
  simp only [eofBody, eofSecondTermGuardLt1, if_true, SqrtLog.log, Real.binEntropy_eq_negMulLog_add_negMulLog_one_sub,
    Real.negMulLog]
  split_ifs with h
  · ring
  · have : t = 1 := le_antisymm h1 (not_lt.1 h)
    subst this; simp

/-- **`get_eof_2qubit(c) = h((1+√(1-c²))/2)`** for every `c`, the `c = 0` shortcut included -/
theorem eof_eq_binEntropy (c : ℝ) : eof2qubit c = Real.binEntropy (eofT c) := by
  simp only [eof2qubit, eofZeroShortcut, Bool.true_and]
  split_ifs with h
  · have hc : c = 0 := by simpa using h
    subst hc
    simp [eofT, sqrtArg, eofClampSqrtArg, pyMax0, SqrtLog.sqrt]
  · exact eofBody_eq_binEntropy _ (eofT_range c).2

/-- **range of the entanglement of formation**: finite, in `[0, ln 2]`, for every real `c` -/
theorem eof_range (c : ℝ) : 0 ≤ eof2qubit c ∧ eof2qubit c ≤ Real.log 2 := by
  rw [eof_eq_binEntropy]
  obtain ⟨h0, h1⟩ := eofT_range c
  exact ⟨Real.binEntropy_nonneg (by linarith) h1, Real.binEntropy_le_log_two⟩

theorem eof_zero : eof2qubit (0 : ℝ) = 0 := by
  simp [eof2qubit, eofZeroShortcut]

/-- `1 - c² ∈ [0,1]` is its own clamp on `[0,1]` -/
private theorem sqrtArg_of_mem (b : Bool) {c : ℝ} (h0 : 0 ≤ c) (h1 : c ≤ 1) : sqrtArg b c = 1 - c * c := by
  simp only [sqrtArg, pyMax0]
  cases b
  · simp
  · simp only [if_true]
    split_ifs with h
    · rfl
    · nlinarith

/-- **EOF vanishes only at `c = 0`** on the physical range -/
theorem eof_eq_zero_iff {c : ℝ} (h0 : 0 ≤ c) (h1 : c ≤ 1) : eof2qubit c = 0 ↔ c = 0 := by
  constructor
  · intro h
    rw [eof_eq_binEntropy, Real.binEntropy_eq_zero] at h
    obtain ⟨hl, _⟩ := eofT_range c
    rcases h with h | h
    · linarith
    · simp only [eofT, SqrtLog.sqrt, sqrtArg_of_mem _ h0 h1] at h
      have hs : Real.sqrt (1 - c * c) = 1 := by linarith
      have : 1 - c * c = 1 := by
        have := Real.sq_sqrt (show 0 ≤ 1 - c * c by nlinarith)
        rw [hs] at this; linarith
      nlinarith
  · rintro rfl; exact eof_zero

/-- **EOF is strictly increasing in the concurrence** on `[0,1]` -/
theorem eof_strictMono {c1 c2 : ℝ} (h0 : 0 ≤ c1) (h12 : c1 < c2) (h2 : c2 ≤ 1) : eof2qubit c1 < eof2qubit c2 := by
  rw [eof_eq_binEntropy, eof_eq_binEntropy]
  have r1 := eofT_range c1
  have r2 := eofT_range c2
  apply Real.binEntropy_strictAntiOn ⟨by simpa using r2.1, r2.2⟩ ⟨by simpa using r1.1, r1.2⟩
  simp only [eofT, SqrtLog.sqrt, sqrtArg_of_mem _ h0 (by linarith), sqrtArg_of_mem _ (by linarith) h2]
  have : Real.sqrt (1 - c2 * c2) < Real.sqrt (1 - c1 * c1) :=
    Real.sqrt_lt_sqrt (by nlinarith) (by nlinarith)
  linarith

/-- **range of the geometric measure**: in `[0, 1/2]` for every real `c` -/
theorem gme_range (c : ℝ) : 0 ≤ gme2qubit c ∧ gme2qubit c ≤ 1 / 2 := by
  have h0 := gme_guard_total c
  have h1 : sqrtArg gmeClampSqrtArg c ≤ 1 := by
    simp only [sqrtArg, gmeClampSqrtArg, if_true, pyMax0]
    split_ifs with h <;> nlinarith [sq_nonneg c]
  have s0 := Real.sqrt_nonneg (sqrtArg gmeClampSqrtArg c)
  have s1 : Real.sqrt (sqrtArg gmeClampSqrtArg c) ≤ 1 := by
    rw [show (1 : ℝ) = Real.sqrt 1 by simp]; exact Real.sqrt_le_sqrt h1
  simp only [gme2qubit, SqrtLog.sqrt]
  constructor <;> linarith

/-- **GME vanishes exactly at `c = 0`** on the physical range -/
theorem gme_eq_zero_iff {c : ℝ} (h0 : 0 ≤ c) (h1 : c ≤ 1) : gme2qubit c = 0 ↔ c = 0 := by
  simp only [gme2qubit, SqrtLog.sqrt, sqrtArg_of_mem _ h0 h1]
  constructor
  · intro h
    have hs : Real.sqrt (1 - c * c) = 1 := by linarith
    have : 1 - c * c = 1 := by
      have := Real.sq_sqrt (show 0 ≤ 1 - c * c by nlinarith)
      rw [hs] at this; linarith
    nlinarith
  · rintro rfl; simp

/-- **GME is strictly increasing in the concurrence** on `[0,1]` -/
theorem gme_strictMono {c1 c2 : ℝ} (h0 : 0 ≤ c1) (h12 : c1 < c2) (h2 : c2 ≤ 1) : gme2qubit c1 < gme2qubit c2 := by
  simp only [gme2qubit, SqrtLog.sqrt, sqrtArg_of_mem _ h0 (by linarith), sqrtArg_of_mem _ (by linarith) h2]
  have : Real.sqrt (1 - c2 * c2) < Real.sqrt (1 - c1 * c1) :=
    Real.sqrt_lt_sqrt (by nlinarith) (by nlinarith)
  linarith

/-- **relation between the two measures**: `EOF = h(1 − GME)` -/
theorem eof_eq_binEntropy_one_sub_gme {c : ℝ} (h0 : 0 ≤ c) (h1 : c ≤ 1) :
    eof2qubit c = Real.binEntropy (1 - gme2qubit c) := by
  rw [eof_eq_binEntropy]
  congr 1
  simp only [eofT, gme2qubit, SqrtLog.sqrt, sqrtArg_of_mem _ h0 h1]
  ring

/-! ### eigenvalue read-outs: pure states and Bell-diagonal states -/

private theorem pyMax0_eq_max (x : ℝ) : pyMax0 x = max 0 x := by
  unfold pyMax0; split_ifs with h
  · exact (max_eq_right h.le).symm
  · exact (max_eq_left (not_lt.1 h)).symm

/-- **Wootters read-out on a spectrum `(a², b², c², d²)` with `0 ≤ a,b,c ≤ d`**: `max(0, d − a − b − c)` -/
theorem woottersReadout_sq {a b c d : ℝ} (ha : 0 ≤ a) (hb : 0 ≤ b) (hc : 0 ≤ c) (hd : 0 ≤ d) :
    woottersReadout [a ^ 2, b ^ 2, c ^ 2, d ^ 2] = max 0 (2 * d - (a + b + c + d)) := by
  simp only [woottersReadout, List.map_cons, List.map_nil, List.getLastD_cons, List.getLastD_nil, List.foldl_cons, List.foldl_nil,
    pyMax0_eq_max, SqrtLog.sqrt, max_eq_right (sq_nonneg _), Real.sqrt_sq ha, Real.sqrt_sq hb, Real.sqrt_sq hc, Real.sqrt_sq hd]
  congr 1; ring

/-- **pure states**: the spectrum `(0,0,0,t)` (theorem `concurrenceArg_pure`: `t = (2|det ψ|)²`) reads out as `√t = 2|det ψ|`,
which is `get_concurrence_pure` (theorem `concPureRadicand_two_qubit`) -/
theorem woottersReadout_pure {t : ℝ} (ht : 0 ≤ t) : woottersReadout [0, 0, 0, t] = Real.sqrt t := by
  have := woottersReadout_sq (le_refl 0) (le_refl 0) (le_refl 0) (Real.sqrt_nonneg t)
  simp only [Real.sq_sqrt ht, ne_eq, OfNat.ofNat_ne_zero, not_false_eq_true, zero_pow] at this
  rw [this]
  have := Real.sqrt_nonneg t
  rw [max_eq_right] <;> linarith

/-- the zero spectrum (pure product states, theorem `concurrenceArg_product`) reads out as concurrence 0 -/
theorem woottersReadout_zero : woottersReadout [(0 : ℝ), 0, 0, 0] = 0 := by
  rw [woottersReadout_pure le_rfl, Real.sqrt_zero]

/-- **negativity read-out**: for a spectrum summing to 1 (the partial transpose preserves the trace) it is the sum of the absolute values of
the negative eigenvalues … -/
theorem negativityReadout_eq_neg_part (ev : List ℝ) (hs : ev.sum = 1) :
    negativityReadout ev = (ev.map fun x => max (-x) 0).sum := by
  have key : ∀ (l : List ℝ) (acc : ℝ), (l.map fun x => if x < 0 then -x else x).foldl (· + ·) acc
      = acc + l.sum + 2 * (l.map fun x => max (-x) 0).sum := by
    intro l
    induction l with
    | nil => intro acc; simp
    | cons x l ih =>
      intro acc
      simp only [List.map_cons, List.foldl_cons, List.sum_cons, ih]
      split_ifs with h
      · rw [max_eq_left (by linarith)]; ring
      · rw [max_eq_right (by linarith)]; ring
  simp only [negativityReadout, key, hs]
  ring

/-- … hence **zero for a positive semidefinite partial transpose** (every separable state, theorem `C05.sep_ppt_full`) -/
theorem negativityReadout_zero_of_nonneg (ev : List ℝ) (hs : ev.sum = 1) (h0 : ∀ x ∈ ev, 0 ≤ x) : negativityReadout ev = 0 := by
  rw [negativityReadout_eq_neg_part ev hs]
  apply List.sum_eq_zero
  intro y hy
  obtain ⟨x, hx, rfl⟩ := List.mem_map.1 hy
  exact max_eq_right (by linarith [h0 x hx])

/-- **Bell-diagonal states**: spectrum `(p_i²)`, weights summing to 1, `d` the largest: concurrence `max(0, 2 p_max − 1)` -/
theorem woottersReadout_bellDiag {a b c d : ℝ} (ha : 0 ≤ a) (hb : 0 ≤ b) (hc : 0 ≤ c) (hd : 0 ≤ d) (hs : a + b + c + d = 1) :
    woottersReadout [a ^ 2, b ^ 2, c ^ 2, d ^ 2] = max 0 (2 * d - 1) := by
  rw [woottersReadout_sq ha hb hc hd, hs]

/-- **non-zero exactly when NPT, on the Bell-diagonal family**: the read-out of the spectrum `(p_i²)` (weights `≥ 0`, sum 1, `d` the
largest) is positive iff some weight exceeds ½, i.e. (theorem `C05.bellDiag_ppt_iff`) iff the partial transpose is not positive semidefinite -/
theorem woottersReadout_bellDiag_pos_iff {a b c d : ℝ} (ha : 0 ≤ a) (hb : 0 ≤ b) (hc : 0 ≤ c) (hd : 0 ≤ d) (hs : a + b + c + d = 1)
    (hda : a ≤ d) (hdb : b ≤ d) (hdc : c ≤ d) :
    0 < woottersReadout [a ^ 2, b ^ 2, c ^ 2, d ^ 2] ↔ ¬ (a ≤ 1 / 2 ∧ b ≤ 1 / 2 ∧ c ≤ 1 / 2 ∧ d ≤ 1 / 2) := by
  rw [woottersReadout_bellDiag ha hb hc hd hs]
  constructor
  · intro h ⟨_, _, _, h4⟩
    rw [max_eq_left (by linarith)] at h; exact lt_irrefl _ h
  · intro h
    have : 1 / 2 < d := by
      by_contra hn
      exact h ⟨by linarith, by linarith, by linarith, by linarith⟩
    exact lt_max_of_lt_right (by linarith)

/-- Schmidt weights of a normalised two-qubit pure state: `l₁ + l₂ = 1`, `l₁ l₂ = D = |det ψ|²` (theorem `schmidt_trace_det`),
`l₂ ≤ l₁` ⇒ `l₁ = (1+√(1−4D))/2` -/
private theorem schmidt_weight_max {l1 l2 D : ℝ} (h1 : l1 + l2 = 1) (hD : l1 * l2 = D) (hle : l2 ≤ l1) :
    l1 = (1 + Real.sqrt (1 - 4 * D)) / 2 := by
  have h : 1 - 4 * D = (l1 - l2) ^ 2 := by rw [← hD]; nlinarith
  rw [h, Real.sqrt_sq (by linarith)]; linarith

/-- **`get_eof_pure` = `get_eof_2qubit` on pure states**: the entropy of the Schmidt weights is the closed form at `c = 2|det ψ|` -/
theorem eof_pure_eq {l1 l2 D : ℝ} (h1 : l1 + l2 = 1) (hD : l1 * l2 = D) (hle : l2 ≤ l1) (h2 : 0 ≤ l2) :
    Real.negMulLog l1 + Real.negMulLog l2 = eof2qubit (2 * Real.sqrt D) := by
  have hD0 : 0 ≤ D := by rw [← hD]; nlinarith
  have hD4 : D ≤ 1 / 4 := by rw [← hD]; nlinarith [sq_nonneg (l1 - l2)]
  have hc0 : 0 ≤ 2 * Real.sqrt D := by positivity
  have hc1 : 2 * Real.sqrt D ≤ 1 := by
    have : Real.sqrt D ≤ Real.sqrt (1 / 4) := Real.sqrt_le_sqrt hD4
    have e : Real.sqrt (1 / 4) = 1 / 2 := by
      rw [show (1 / 4 : ℝ) = (1 / 2) ^ 2 by norm_num, Real.sqrt_sq (by norm_num)]
    linarith
  rw [eof_eq_binEntropy, Real.binEntropy_eq_negMulLog_add_negMulLog_one_sub]
  have ht : eofT (2 * Real.sqrt D) = l1 := by
    simp only [eofT, SqrtLog.sqrt]
    rw [show sqrtArg eofClampSqrtArg (2 * Real.sqrt D) = 1 - 4 * D by
      simp only [sqrtArg, eofClampSqrtArg, if_true, pyMax0_eq_max]
      have : 2 * Real.sqrt D * (2 * Real.sqrt D) = 4 * D := by nlinarith [Real.mul_self_sqrt hD0]
      rw [this, max_eq_right (by linarith)]]
    exact (schmidt_weight_max h1 hD hle).symm
  rw [ht, show 1 - l1 = l2 by linarith]

/-- **GME of a pure state** `1 − l₁` (one minus the largest Schmidt weight) is `get_gme_2qubit` at `c = 2|det ψ|` -/
theorem gme_pure_eq {l1 l2 D : ℝ} (h1 : l1 + l2 = 1) (hD : l1 * l2 = D) (hle : l2 ≤ l1) (h2 : 0 ≤ l2) :
    1 - l1 = gme2qubit (2 * Real.sqrt D) := by
  have hD0 : 0 ≤ D := by rw [← hD]; nlinarith
  have hD4 : D ≤ 1 / 4 := by rw [← hD]; nlinarith [sq_nonneg (l1 - l2)]
  simp only [gme2qubit, SqrtLog.sqrt]
  rw [show sqrtArg gmeClampSqrtArg (2 * Real.sqrt D) = 1 - 4 * D by
    simp only [sqrtArg, gmeClampSqrtArg, if_true, pyMax0_eq_max]
    have : 2 * Real.sqrt D * (2 * Real.sqrt D) = 4 * D := by nlinarith [Real.mul_self_sqrt hD0]
    rw [this, max_eq_right (by linarith)]]
  rw [schmidt_weight_max h1 hD hle]; ring

/-- `get_eof_pure`'s read-out drops weights `≤ eps` and sums `-x log x` over the rest -/
theorem eofPureFromWeights_two {eps l1 l2 : ℝ} (h1 : eps < l1) (h2 : eps < l2) :
    eofPureFromWeights eps [l2, l1] = Real.negMulLog l1 + Real.negMulLog l2 := by
  simp [eofPureFromWeights, h1, h2, SqrtLog.log, Real.negMulLog]


/-! ### the four losses as convex combinations of member values -/

private theorem foldl_add_eq {β : Type} (f : β → ℝ) (l : List β) (a : ℝ) :
    l.foldl (fun acc m => acc + f m) a = a + (l.map f).sum := by
  induction l generalizing a with
  | nil => simp
  | cons x l ih => simp [ih, add_assoc]

private theorem sum_map_sub {β : Type} (f g : β → ℝ) (l : List β) :
    (l.map f).sum - (l.map g).sum = (l.map fun m => f m - g m).sum := by
  induction l with
  | nil => simp
  | cons x l ih => simp only [List.map_cons, List.sum_cons]; linarith

theorem concLoss_eq_sum (eps : ℝ) (l : List (ℝ × ℝ)) : concLoss eps l = (l.map (concMember eps)).sum := by
  simp [concLoss, foldl_add_eq]

theorem eofLoss_eq_sum (eps : ℝ) (l : List (ℝ × List ℝ)) : eofLoss eps l = (l.map (eofMember eps)).sum := by
  simp [eofLoss, foldl_add_eq]

theorem linentLoss_eq_sum (eps sign : ℝ) (l : List (ℝ × ℝ)) :
    linentLoss eps sign l = sign * (1 - (l.map fun m => m.2 / clampBelow eps m.1).sum) := by
  simp [linentLoss, foldl_add_eq]

theorem gmeLoss_eq_sum (l : List (ℝ × ℝ)) : gmeLoss l = 1 - (l.map fun z => z.1 * z.1 + z.2 * z.2).sum := by
  simp [gmeLoss, foldl_add_eq]

/-- a sum of member values `v_α ∈ [0, p_α·c]` with weights summing to 1 lies in `[0, c]` -/
private theorem members_range {β : Type} (l : List β) (v w : β → ℝ) (c : ℝ) (h : ∀ m ∈ l, 0 ≤ v m ∧ v m ≤ w m * c)
    (hw : (l.map w).sum = 1) : 0 ≤ (l.map v).sum ∧ (l.map v).sum ≤ c := by
  have key : 0 ≤ (l.map v).sum ∧ (l.map v).sum ≤ (l.map w).sum * c := by
    clear hw
    induction l with
    | nil => simp
    | cons x l ih =>
      have hx := h x (by simp)
      have := ih fun m hm => h m (List.mem_cons_of_mem _ hm)
      simp only [List.map_cons, List.sum_cons]
      constructor
      · linarith [this.1, hx.1]
      · nlinarith [this.2, hx.2]
  rw [hw, one_mul] at key
  exact key

/-- **one member of the concurrence loss** (`d` = dimension of the reduced state): with `p²/d ≤ purity ≤ p²`
(theorems `gram_purity_le/ge`) its value lies in `[0, p·√(2(1−1/d))]` — for two qubits in `[0, p]` -/
theorem concMember_range {eps p pur : ℝ} {d : ℕ} (hd : 1 ≤ d) (hp : 0 ≤ p) (_h1 : pur ≤ p * p) (h2 : p * p ≤ d * pur)
    (he : eps ≤ 2 * (p * p) * (1 - 1 / d)) :
    0 ≤ concMember eps (p, pur) ∧ concMember eps (p, pur) ≤ p * Real.sqrt (2 * (1 - 1 / d)) := by
  have hd' : (0 : ℝ) < d := by exact_mod_cast hd
  refine ⟨Real.sqrt_nonneg _, ?_⟩
  have hx : 2 * (p * p - pur) ≤ 2 * (p * p) * (1 - 1 / d) := by
    have : p * p / d ≤ pur := by rw [div_le_iff₀ hd']; linarith
    have e : 2 * (p * p) * (1 - 1 / (d : ℝ)) = 2 * (p * p - p * p / d) := by field_simp
    rw [e]; linarith
  have hc : clampBelow eps (2 * (p * p - pur)) ≤ 2 * (p * p) * (1 - 1 / d) := by
    unfold clampBelow; split_ifs <;> assumption
  calc concMember eps (p, pur) ≤ Real.sqrt (2 * (p * p) * (1 - 1 / d)) := Real.sqrt_le_sqrt hc
    _ = p * Real.sqrt (2 * (1 - 1 / d)) := by
        rw [show 2 * (p * p) * (1 - 1 / (d : ℝ)) = p ^ 2 * (2 * (1 - 1 / d)) by ring, Real.sqrt_mul (sq_nonneg p), Real.sqrt_sq hp]

/-- **one member of the linear-entropy loss**: `p − purity/p ∈ [0, p(1−1/d)]` -/
theorem linentMember_range {eps p pur : ℝ} {d : ℕ} (hd : 1 ≤ d) (hp : 0 < p) (he : eps ≤ p) (h1 : pur ≤ p * p) (h2 : p * p ≤ d * pur) :
    0 ≤ p - pur / clampBelow eps p ∧ p - pur / clampBelow eps p ≤ p * (1 - 1 / d) := by
  have hd' : (0 : ℝ) < d := by exact_mod_cast hd
  have hc : clampBelow eps p = p := by
    unfold clampBelow; split_ifs with h
    · rfl
    · linarith [not_lt.1 h]
  rw [hc]
  constructor
  · rw [sub_nonneg, div_le_iff₀ hp]; exact h1
  · have : p / d ≤ pur / p := by rw [div_le_div_iff₀ hd' hp]; linarith
    have e : p * (1 - 1 / (d : ℝ)) = p - p / d := by field_simp
    rw [e]; linarith

/-- **one member of the EOF loss** for a spectrum `λ ≥ 0`, `Σλ = p`, every non-zero value above the clamp `eps`:
the member is `p log p − Σ λ log λ ∈ [0, p log d]` (theorem `member_entropy_range` in `NumqiProps/C13.lean`) -/
theorem eofMember_eq {eps p : ℝ} {d : ℕ} (lam : Fin d → ℝ) (_he : 0 < eps) (hp : p = 0 ∨ eps < p) (hl : ∀ i, lam i = 0 ∨ eps < lam i) :
    eofMember eps (p, List.ofFn lam) = p * Real.log p - ∑ i, lam i * Real.log (lam i) := by
  have hx : ∀ x : ℝ, (x = 0 ∨ eps < x) → clampXLogX eps x = x * Real.log x := by
    intro x hx
    unfold clampXLogX clampBelow
    rcases hx with rfl | h
    · simp
    · simp [h, SqrtLog.log]
  simp only [eofMember, foldl_add_eq, zero_add, hx p hp, List.map_ofFn, List.sum_ofFn, Function.comp]
  congr 1
  exact Finset.sum_congr rfl fun i _ => hx _ (hl i)

/-- **one member of the EOF loss lies in `[0, p log d]`** (on the constant `eofMember`; Jensen for `-x log x`) -/
theorem eofMember_range {eps p : ℝ} {d : ℕ} (hd : 0 < d) (lam : Fin d → ℝ) (he : 0 < eps) (h0 : ∀ i, 0 ≤ lam i) (hsum : ∑ i, lam i = p)
    (hp : p = 0 ∨ eps < p) (hl : ∀ i, lam i = 0 ∨ eps < lam i) :
    0 ≤ eofMember eps (p, List.ofFn lam) ∧ eofMember eps (p, List.ofFn lam) ≤ p * Real.log d := by
  rw [eofMember_eq lam he hp hl]
  exact member_entropy_range lam h0 p hsum hd

/-- **the concurrence loss is a convex combination of member values in range** (two qubits: `loss ∈ [0,1]`) -/
theorem concLoss_range (eps : ℝ) (l : List (ℝ × ℝ)) (d : ℕ) (hd : 1 ≤ d)
    (h : ∀ m ∈ l, 0 ≤ m.1 ∧ m.2 ≤ m.1 * m.1 ∧ m.1 * m.1 ≤ d * m.2 ∧ eps ≤ 2 * (m.1 * m.1) * (1 - 1 / d))
    (hw : (l.map Prod.fst).sum = 1) :
    0 ≤ concLoss eps l ∧ concLoss eps l ≤ Real.sqrt (2 * (1 - 1 / d)) := by
  rw [concLoss_eq_sum]
  exact members_range l (concMember eps) Prod.fst _ (fun m hm => by
    obtain ⟨a, b, c, e⟩ := h m hm
    exact concMember_range hd a b c e) hw

/-- **the linear-entropy loss (`kind='convex'`) is a convex combination of member values in `[0, p(1−1/d)]`** -/
theorem linentLoss_range (eps : ℝ) (l : List (ℝ × ℝ)) (d : ℕ) (hd : 1 ≤ d)
    (h : ∀ m ∈ l, 0 < m.1 ∧ eps ≤ m.1 ∧ m.2 ≤ m.1 * m.1 ∧ m.1 * m.1 ≤ d * m.2) (hw : (l.map Prod.fst).sum = 1) :
    0 ≤ linentLoss eps 1 l ∧ linentLoss eps 1 l ≤ 1 - 1 / d := by
  have e : linentLoss eps 1 l = (l.map fun m => m.1 - m.2 / clampBelow eps m.1).sum := by
    rw [linentLoss_eq_sum, one_mul, ← hw]
    exact sum_map_sub Prod.fst _ l
  rw [e]
  exact members_range l _ Prod.fst _ (fun m hm => by
    obtain ⟨a, b, c, e'⟩ := h m hm
    exact linentMember_range hd a b c e') hw

/-- `kind='concave'` of the linear-entropy model is minus the convex loss (the same ensemble average, maximised instead of minimised) -/
theorem linentLoss_neg (eps : ℝ) (l : List (ℝ × ℝ)) : linentLoss eps (-1) l = -(linentLoss eps 1 l) := by
  simp [linentLoss]

/-- the scale applied to a kept eigenvector is a square root of its (non-negative) eigenvalue; a rounding-negative eigenvalue is clamped to 0 -/
theorem sqrtRhoScale_sq {lam : ℝ} (h : 0 ≤ lam) : sqrtRhoScale lam * sqrtRhoScale lam = lam := by
  simp only [sqrtRhoScale, SqrtLog.sqrt, pyMax0]
  split_ifs with hp
  · exact Real.mul_self_sqrt h
  · have : lam = 0 := le_antisymm (not_lt.1 hp) h
    simp [this]

theorem sqrtRhoScale_of_neg {lam : ℝ} (h : lam ≤ 0) : sqrtRhoScale lam = 0 := by
  simp only [sqrtRhoScale, SqrtLog.sqrt, pyMax0, not_lt.2 h, if_false, Real.sqrt_zero]

/-- both cases at once: the squared scale is the clamped eigenvalue `max(0, λ)` -/
theorem sqrtRhoScale_mul_self (lam : ℝ) : sqrtRhoScale lam * sqrtRhoScale lam = max 0 lam := by
  rcases le_total 0 lam with h | h
  · rw [sqrtRhoScale_sq h, max_eq_right h]
  · rw [sqrtRhoScale_of_neg h, max_eq_left h]; simp

/-- **`sqrtRho_gram` at the executed instance**: with `S[k,j] = sqrtRhoEntry …` (real and imaginary part of `EVC[k, N-rank+j]` scaled by
`sqrtRhoScale(EVL[N-rank+j])`, the constants the driver op `sqrtrho` executes) the Gram matrix of `_sqrt_rho` is the truncated spectral sum
with every eigenvalue clamped at 0: `Σ_j S[k,j] conj S[k',j] = Σ_j max(0, λ_j) v[k,j] conj v[k',j]` - for non-negative kept eigenvalues the
`eigh` contract makes this `ρ` (rank-truncated); a rounding-negative eigenvalue contributes exactly 0. -/
theorem sqrtRhoEntry_gram (evl : List ℝ) (N rank : ℕ) (vr vi : ℕ → ℕ → ℝ) (k k' : ℕ) :
    ∑ j ∈ Finset.range rank, (⟨sqrtRhoEntry evl N rank j (vr k j), sqrtRhoEntry evl N rank j (vi k j)⟩ : ℂ)
        * star (⟨sqrtRhoEntry evl N rank j (vr k' j), sqrtRhoEntry evl N rank j (vi k' j)⟩ : ℂ)
      = ∑ j ∈ Finset.range rank, ((max 0 (evl.getD (N - rank + j) 0) : ℝ) : ℂ)
          * ((⟨vr k j, vi k j⟩ : ℂ) * star (⟨vr k' j, vi k' j⟩ : ℂ)) := by
  refine Finset.sum_congr rfl fun j _ => ?_
  have hs := sqrtRhoScale_mul_self (evl.getD (N - rank + j) 0)
  set s := sqrtRhoScale (evl.getD (N - rank + j) 0) with hsd
  apply Complex.ext
  · simp only [sqrtRhoEntry, Complex.mul_re, Complex.star_def, Complex.conj_re, Complex.conj_im, Complex.ofReal_re, Complex.ofReal_im, ← hs, ← hsd]
    ring
  · simp only [sqrtRhoEntry, Complex.mul_im, Complex.mul_re, Complex.star_def, Complex.conj_re, Complex.conj_im, Complex.ofReal_re, Complex.ofReal_im, ← hs, ← hsd]
    ring

/-- **the GME loss lies in `[0,1]`**: each `|overlap_α|² ≤ p_α` (theorem `overlap_sq_le`), `Σ p_α = 1` -/
theorem gmeLoss_range (l : List ((ℝ × ℝ) × ℝ)) (h : ∀ m ∈ l, m.1.1 * m.1.1 + m.1.2 * m.1.2 ≤ m.2)
    (hw : (l.map Prod.snd).sum = 1) : 0 ≤ gmeLoss (l.map Prod.fst) ∧ gmeLoss (l.map Prod.fst) ≤ 1 := by
  rw [gmeLoss_eq_sum, List.map_map]
  have key := members_range l (fun m => m.2 - (m.1.1 * m.1.1 + m.1.2 * m.1.2)) Prod.snd 1 (fun m hm => by
    have := h m hm
    constructor
    · linarith
    · nlinarith [mul_self_nonneg m.1.1, mul_self_nonneg m.1.2]) hw
  have e : (l.map fun m => m.2 - (m.1.1 * m.1.1 + m.1.2 * m.1.2)).sum
      = 1 - (l.map ((fun z : ℝ × ℝ => z.1 * z.1 + z.2 * z.2) ∘ Prod.fst)).sum := by
    rw [← hw]
    exact (sum_map_sub Prod.snd _ l).symm
  rw [← e]; exact key


/-! ### non-vacuity -/

example : eof2qubit (1 : ℝ) = Real.log 2 := by
  rw [eof_eq_binEntropy, Real.binEntropy_eq_log_two]
  simp [eofT, sqrtArg, eofClampSqrtArg, pyMax0, SqrtLog.sqrt]

example : gme2qubit (1 : ℝ) = 1 / 2 := by
  simp [gme2qubit, sqrtArg, gmeClampSqrtArg, pyMax0, SqrtLog.sqrt]

/-- the rounded case the guard exists for: `t = 1` -/
example : ∀ x ∈ eofLogArgs (1 : ℝ), 0 < x := eof_guard_total 1 (by norm_num) le_rfl

/-- a maximally entangled pure state: spectrum `(0,0,0,1)` reads out as concurrence 1 -/
example : woottersReadout [(0 : ℝ), 0, 0, 1] = 1 := by
  rw [woottersReadout_pure zero_le_one]; simp

/-- the boundary of the Bell-diagonal family `p = (0,0,½,½)`: concurrence 0 -/
example : woottersReadout [(0 : ℝ) ^ 2, 0 ^ 2, (1 / 2) ^ 2, (1 / 2) ^ 2] = 0 := by
  rw [woottersReadout_bellDiag le_rfl le_rfl (by norm_num) (by norm_num) (by norm_num)]; norm_num

/-- the hypotheses of `concLoss_range` are satisfiable (one member of weight 1 with purity ½: a maximally entangled member) -/
example : 0 ≤ concLoss 0 [((1 : ℝ), 1 / 2)] ∧ concLoss 0 [((1 : ℝ), 1 / 2)] ≤ Real.sqrt (2 * (1 - 1 / (2 : ℕ))) :=
  concLoss_range 0 _ 2 (by norm_num) (fun m hm => by
    simp only [List.mem_singleton] at hm; subst hm; norm_num) (by simp)

end Numqi.C13
