/-
C13, scalar / guard layer — property theorems about the guarded closed forms of `NumqiModel/Decision.lean`
(`get_eof_2qubit`, `get_gme_2qubit` as functions of the concurrence) at the guard flags of
`NumqiModel/Generated/Thresholds.lean`, regenerated from the numqi sources on every run.
Listed in `THEOREM_FILES` of `harness/c13.py`.  Instantiation at ℝ: `sqrt = Real.sqrt`, `log = Real.log`.
-/
import NumqiModel.Decision
import Mathlib.Tactic
import Mathlib.Analysis.SpecialFunctions.BinaryEntropy
import Mathlib.Analysis.SpecialFunctions.Sqrt

namespace Numqi.C13
open Numqi Numqi.Ent Numqi.Ent.Thresholds Real

noncomputable instance : SqrtLog ℝ := ⟨Real.sqrt, Real.log⟩

/-- the translator recognised the structure of both closed forms -/
theorem guards_recognised : eofRecognised = true ∧ gmeRecognised = true ∧ concPureRecognised = true := by decide

/-! ### totality: no `log` of a non-positive number, no `sqrt` of a negative number, on any branch -/

/-- **`get_eof_2qubit`: the argument of `np.sqrt` is `≥ 0` for every real `c`** — including `c = 1+ulp`
(the concurrence of a maximally entangled state can round above 1). Needs the `max(0,·)` clamp. -/
theorem eof_sqrtArg_nonneg (c : ℝ) : 0 ≤ sqrtArg eofClampSqrtArg c := by
  simp only [sqrtArg, eofClampSqrtArg, if_true, pyMax0]
  split_ifs with h <;> linarith

/-- **`get_gme_2qubit`: the argument of `np.sqrt` is `≥ 0` for every real `c`** -/
theorem gme_guard_total (c : ℝ) : 0 ≤ sqrtArg gmeClampSqrtArg c := by
  simp only [sqrtArg, gmeClampSqrtArg, if_true, pyMax0]
  split_ifs with h <;> linarith

/-- **`get_concurrence_pure`: the argument of `np.sqrt` is `≥ 0` for every value of the radicand** — the purity of the
reduced state of a product state rounds to `1+ulp` for ~40 % of them. -/
theorem concPure_guard_total (x : ℝ) : 0 ≤ concPureSqrtArg x := by
  simp only [concPureSqrtArg, concPureClampSqrtArg, if_true, pyMax0]
  split_ifs with h <;> linarith

/-- `tmp1 ∈ [1/2, 1]` for every real `c` (exact arithmetic; correctly rounded `sqrt`, `+`, `/2` preserve the interval) -/
theorem eofT_range (c : ℝ) : 1 / 2 ≤ eofT c ∧ eofT c ≤ 1 := by
  have h0 := eof_sqrtArg_nonneg c
  have h1 : sqrtArg eofClampSqrtArg c ≤ 1 := by
    simp only [sqrtArg, eofClampSqrtArg, if_true, pyMax0]
    split_ifs with h <;> nlinarith [sq_nonneg c]
  have s0 := Real.sqrt_nonneg (sqrtArg eofClampSqrtArg c)
  have s1 : Real.sqrt (sqrtArg eofClampSqrtArg c) ≤ 1 := by
    rw [show (1 : ℝ) = Real.sqrt 1 by simp]; exact Real.sqrt_le_sqrt h1
  simp only [eofT, SqrtLog.sqrt]
  constructor <;> linarith

/-- **`get_eof_2qubit` is total** (`eof_guard_total`): whatever value `t ∈ [1/2,1]` the rounded `tmp1` takes — in
particular `t = 1`, which happens for every concurrence below `~1e-8` because `1-c²` rounds to 1 — every `np.log`
evaluated on the branch taken has a strictly positive argument (so no `0·log 0 = NaN`). Needs the `if tmp1<1` guard. -/
theorem eof_guard_total (t : ℝ) (h0 : 1 / 2 ≤ t) (h1 : t ≤ 1) : ∀ x ∈ eofLogArgs t, 0 < x := by
  intro x hx
  simp only [eofLogArgs, eofSecondTermGuardLt1, if_true] at hx
  split_ifs at hx with h
  · simp only [List.mem_cons, List.not_mem_nil, or_false] at hx
    rcases hx with rfl | rfl <;> linarith
  · simp only [List.mem_cons, List.not_mem_nil, or_false] at hx
    subst hx; linarith

/-! ### the closed forms over ℝ -/

/-- the guarded body is the binary entropy (natural logarithm) of `tmp1` -/
theorem eofBody_eq_binEntropy (t : ℝ) (h1 : t ≤ 1) : eofBody t = Real.binEntropy t := by
  simp only [eofBody, eofSecondTermGuardLt1, if_true, SqrtLog.log, Real.binEntropy_eq_negMulLog_add_negMulLog_one_sub,
    Real.negMulLog]
  split_ifs with h
  · ring
  · have : t = 1 := le_antisymm h1 (not_lt.1 h)
    subst this; simp

/-- **`get_eof_2qubit(c) = h((1+√(1-c²))/2)`** for every `c`, the `c = 0` shortcut included -/
theorem eof_eq_binEntropy (c : ℝ) : eof2qubit c = Real.binEntropy (eofT c) := by
  simp only [eof2qubit, eofZeroShortcut, Bool.true_and]
  split_ifs with h
  · have hc : c = 0 := by simpa using h
    subst hc
    simp [eofT, sqrtArg, eofClampSqrtArg, pyMax0, SqrtLog.sqrt]
  · exact eofBody_eq_binEntropy _ (eofT_range c).2

/-- **range of the entanglement of formation**: finite, in `[0, ln 2]`, for every real `c` -/
theorem eof_range (c : ℝ) : 0 ≤ eof2qubit c ∧ eof2qubit c ≤ Real.log 2 := by
  rw [eof_eq_binEntropy]
  obtain ⟨h0, h1⟩ := eofT_range c
  exact ⟨Real.binEntropy_nonneg (by linarith) h1, Real.binEntropy_le_log_two⟩

theorem eof_zero : eof2qubit (0 : ℝ) = 0 := by
  simp [eof2qubit, eofZeroShortcut]

/-- `1 - c² ∈ [0,1]` is its own clamp on `[0,1]` -/
private theorem sqrtArg_of_mem (b : Bool) {c : ℝ} (h0 : 0 ≤ c) (h1 : c ≤ 1) : sqrtArg b c = 1 - c * c := by
  simp only [sqrtArg, pyMax0]
  cases b
  · simp
  · simp only [if_true]
    split_ifs with h
    · rfl
    · nlinarith

/-- **EOF vanishes only at `c = 0`** on the physical range -/
theorem eof_eq_zero_iff {c : ℝ} (h0 : 0 ≤ c) (h1 : c ≤ 1) : eof2qubit c = 0 ↔ c = 0 := by
  constructor
  · intro h
    rw [eof_eq_binEntropy, Real.binEntropy_eq_zero] at h
    obtain ⟨hl, _⟩ := eofT_range c
    rcases h with h | h
    · linarith
    · simp only [eofT, SqrtLog.sqrt, sqrtArg_of_mem _ h0 h1] at h
      have hs : Real.sqrt (1 - c * c) = 1 := by linarith
      have : 1 - c * c = 1 := by
        have := Real.sq_sqrt (show 0 ≤ 1 - c * c by nlinarith)
        rw [hs] at this; linarith
      nlinarith
  · rintro rfl; exact eof_zero

/-- **EOF is strictly increasing in the concurrence** on `[0,1]` -/
theorem eof_strictMono {c1 c2 : ℝ} (h0 : 0 ≤ c1) (h12 : c1 < c2) (h2 : c2 ≤ 1) : eof2qubit c1 < eof2qubit c2 := by
  rw [eof_eq_binEntropy, eof_eq_binEntropy]
  have r1 := eofT_range c1
  have r2 := eofT_range c2
  apply Real.binEntropy_strictAntiOn ⟨by simpa using r2.1, r2.2⟩ ⟨by simpa using r1.1, r1.2⟩
  simp only [eofT, SqrtLog.sqrt, sqrtArg_of_mem _ h0 (by linarith), sqrtArg_of_mem _ (by linarith) h2]
  have : Real.sqrt (1 - c2 * c2) < Real.sqrt (1 - c1 * c1) :=
    Real.sqrt_lt_sqrt (by nlinarith) (by nlinarith)
  linarith

/-- **range of the geometric measure**: in `[0, 1/2]` for every real `c` -/
theorem gme_range (c : ℝ) : 0 ≤ gme2qubit c ∧ gme2qubit c ≤ 1 / 2 := by
  have h0 := gme_guard_total c
  have h1 : sqrtArg gmeClampSqrtArg c ≤ 1 := by
    simp only [sqrtArg, gmeClampSqrtArg, if_true, pyMax0]
    split_ifs with h <;> nlinarith [sq_nonneg c]
  have s0 := Real.sqrt_nonneg (sqrtArg gmeClampSqrtArg c)
  have s1 : Real.sqrt (sqrtArg gmeClampSqrtArg c) ≤ 1 := by
    rw [show (1 : ℝ) = Real.sqrt 1 by simp]; exact Real.sqrt_le_sqrt h1
  simp only [gme2qubit, SqrtLog.sqrt]
  constructor <;> linarith

/-- **GME vanishes exactly at `c = 0`** on the physical range -/
theorem gme_eq_zero_iff {c : ℝ} (h0 : 0 ≤ c) (h1 : c ≤ 1) : gme2qubit c = 0 ↔ c = 0 := by
  simp only [gme2qubit, SqrtLog.sqrt, sqrtArg_of_mem _ h0 h1]
  constructor
  · intro h
    have hs : Real.sqrt (1 - c * c) = 1 := by linarith
    have : 1 - c * c = 1 := by
      have := Real.sq_sqrt (show 0 ≤ 1 - c * c by nlinarith)
      rw [hs] at this; linarith
    nlinarith
  · rintro rfl; simp

/-- **GME is strictly increasing in the concurrence** on `[0,1]` -/
theorem gme_strictMono {c1 c2 : ℝ} (h0 : 0 ≤ c1) (h12 : c1 < c2) (h2 : c2 ≤ 1) : gme2qubit c1 < gme2qubit c2 := by
  simp only [gme2qubit, SqrtLog.sqrt, sqrtArg_of_mem _ h0 (by linarith), sqrtArg_of_mem _ (by linarith) h2]
  have : Real.sqrt (1 - c2 * c2) < Real.sqrt (1 - c1 * c1) :=
    Real.sqrt_lt_sqrt (by nlinarith) (by nlinarith)
  linarith

/-- **relation between the two measures**: `EOF = h(1 − GME)` -/
theorem eof_eq_binEntropy_one_sub_gme {c : ℝ} (h0 : 0 ≤ c) (h1 : c ≤ 1) :
    eof2qubit c = Real.binEntropy (1 - gme2qubit c) := by
  rw [eof_eq_binEntropy]
  congr 1
  simp only [eofT, gme2qubit, SqrtLog.sqrt, sqrtArg_of_mem _ h0 h1]
  ring

/-! ### non-vacuity -/

example : eof2qubit (1 : ℝ) = Real.log 2 := by
  rw [eof_eq_binEntropy, Real.binEntropy_eq_log_two]
  simp [eofT, sqrtArg, eofClampSqrtArg, pyMax0, SqrtLog.sqrt]

example : gme2qubit (1 : ℝ) = 1 / 2 := by
  simp [gme2qubit, sqrtArg, gmeClampSqrtArg, pyMax0, SqrtLog.sqrt]

/-- the rounded case the guard exists for: `t = 1` -/
example : ∀ x ∈ eofLogArgs (1 : ℝ), 0 < x := eof_guard_total 1 (by norm_num) le_rfl

end Numqi.C13
