/-
Users of the Dicke reduction (C17): `PureBosonicExt`, `get_ABk_gellmann_preimage_op`.
-/
import Mathlib.Tactic
import Mathlib.Algebra.Star.BigOperators
import NumqiModel.Dicke
import NumqiProofs.PartialTrace
import NumqiProofs.DickeReduction

namespace Numqi
namespace Dicke
open Finset PT

variable {R : Type} [CommRing R] [StarRing R]

/-- **`get_ABk_gellmann_preimage_op(kind='boson')` is the pull-back of the observable through the fast reduction**:
`⟨ψ| preimage(G) |ψ⟩ = Tr(G · ρ_AB(ψ))` with `ρ_AB` assembled from the same tensor, provided the tensor has the symmetry
`B[r,s,i,j] = B[s,r,j,i]` of an overlap `Tr⟨r|D_i⟩⟨D_j|s⟩` of real vectors. -/
theorem preimageBoson_expectation (dimA dimB L : ℕ) (G : ℕ → ℕ → R) (B : ℕ → ℕ → ℕ → ℕ → R)
    (hsym : ∀ r s i j, r < dimB → s < dimB → i < L → j < L → B r s i j = B s r j i) (ψ : ℕ → ℕ → R) :
    ∑ x ∈ range (dimA * L), ∑ y ∈ range (dimA * L),
        star (ψ (x / L) (x % L)) * preimageBoson dimB L G B x y * ψ (y / L) (y % L)
      = ∑ u ∈ range (dimA * dimB), ∑ v ∈ range (dimA * dimB), G u v * assembleTensor dimB L B ψ v u := by
  simp only [sum_range_mul]
  refine sum_congr rfl fun a _ => ?_
  -- left: a, p, a', q ; right: a, r, a', s
  have hL : ∀ p ∈ range L, ∀ a' ∈ range dimA, ∀ q ∈ range L,
      star (ψ ((a * L + p) / L) ((a * L + p) % L)) * preimageBoson dimB L G B (a * L + p) (a' * L + q)
          * ψ ((a' * L + q) / L) ((a' * L + q) % L)
        = ∑ r ∈ range dimB, ∑ s ∈ range dimB,
            G (a * dimB + r) (a' * dimB + s) * (ψ a' q * B s r q p * star (ψ a p)) := by
    intro p hp a' _ q hq
    have hp' := mem_range.1 hp; have hq' := mem_range.1 hq
    simp only [preimageBoson, sumRange_eq_sum, div_of_lt hp', mod_of_lt hp', div_of_lt hq', mod_of_lt hq', mul_sum, sum_mul]
    refine sum_congr rfl fun r hr => sum_congr rfl fun s hs => ?_
    rw [hsym s r q p (mem_range.1 hs) (mem_range.1 hr) hq' hp']; ring
  have hR : ∀ r ∈ range dimB, ∀ a' ∈ range dimA, ∀ s ∈ range dimB,
      G (a * dimB + r) (a' * dimB + s) * assembleTensor dimB L B ψ (a' * dimB + s) (a * dimB + r)
        = ∑ i ∈ range L, ∑ j ∈ range L, G (a * dimB + r) (a' * dimB + s) * (ψ a' i * B s r i j * star (ψ a j)) := by
    intro r hr a' _ s hs
    have hr' := mem_range.1 hr; have hs' := mem_range.1 hs
    simp only [assembleTensor, sumRange_eq_sum, div_of_lt hr', mod_of_lt hr', div_of_lt hs', mod_of_lt hs', mul_sum,
      conj_eq_star]
  rw [sum_congr rfl fun p hp => sum_congr rfl fun a' ha' => sum_congr rfl fun q hq => hL p hp a' ha' q hq,
      sum_congr rfl fun r hr => sum_congr rfl fun a' ha' => sum_congr rfl fun s hs => hR r hr a' ha' s hs]
  -- now both sides are six-fold sums of the same term; reorder the right one: r a' s i j  →  j a' i r s
  symm
  refine (sum_congr rfl fun r _ => sum_congr rfl fun a' _ => sum_congr rfl fun s _ => sum_comm).trans ?_
  refine (sum_congr rfl fun r _ => sum_congr rfl fun a' _ => sum_comm).trans ?_
  refine (sum_congr rfl fun r _ => sum_comm).trans ?_
  refine sum_comm.trans ?_
  -- j r a' s i
  refine sum_congr rfl fun j _ => ?_
  refine sum_comm.trans ?_
  -- a' r s i
  refine sum_congr rfl fun a' _ => ?_
  refine (sum_congr rfl fun r _ => sum_comm).trans ?_
  exact sum_comm

theorem maskAB_length (k c : ℕ) : (maskAB k c).length = k + 1 := by simp [maskAB]

/-- **`kind='symmetric'`**: `k·⟨ψ|preimage(G)|ψ⟩ = Σ_c Tr(G · Tr_{all copies but A,B_c} |ψ⟩⟨ψ|)` — every term is an explicit
`partialTrace` of the model over the register `[A, B_1, …, B_k]` with keep set `{A, B_c}`. -/
theorem preimageSym_expectation (dimA dimB k : ℕ) (G : ℕ → ℕ → R) (ψ : ℕ → R) :
    let dims := dimA :: List.replicate k dimB
    ∑ x ∈ range (prodDims dims), ∑ y ∈ range (prodDims dims), star (ψ x) * preimageSymSum dimA dimB k G x y * ψ y
      = ∑ c ∈ range k, ∑ u ∈ range (prodSel true dims (maskAB k (c + 1))), ∑ v ∈ range (prodSel true dims (maskAB k (c + 1))),
          G u v * partialTrace dims (maskAB k (c + 1)) (fun y x => ψ y * star (ψ x)) v u := by
  intro dims
  have hlen : ∀ c, dims.length = (maskAB k c).length := fun c => by simp [dims, maskAB_length]
  simp only [preimageSymSum, sumRange_eq_sum, mul_sum, sum_mul]
  rw [sum_comm]
  conv_lhs => enter [2, y]; rw [sum_comm]
  rw [sum_comm]
  refine sum_congr rfl fun c _ => ?_
  rw [← embedKeep_expectation dims (maskAB k (c + 1)) (hlen _) G ψ]
  rw [sum_comm]

/-! ### the tensor form (`return_tensor=True`) and the list form of the table give the same reduced matrix -/

/-- value stored for `(i,j)` in a list of triples (first match), `0` if there is none -/
def valOf (T : List (ℕ × ℕ × R)) (i j : ℕ) : R :=
  match T.find? fun e => e.1 == i && e.2.1 == j with
  | some e => e.2.2
  | none => 0

theorem valOf_cons (e0 : ℕ × ℕ × R) (T : List (ℕ × ℕ × R)) (i j : ℕ) :
    valOf (e0 :: T) i j = if e0.1 = i ∧ e0.2.1 = j then e0.2.2 else valOf T i j := by
  unfold valOf
  rw [List.find?_cons]
  by_cases h : e0.1 = i ∧ e0.2.1 = j
  · simp [h.1, h.2]
  · have : (e0.1 == i && e0.2.1 == j) = false := by
      rw [Bool.and_eq_false_iff]; simp only [beq_eq_false_iff_ne]; tauto
    simp [this, h]

theorem valOf_eq_zero (T : List (ℕ × ℕ × R)) (i j : ℕ) (h : ∀ e ∈ T, ¬ (e.1 = i ∧ e.2.1 = j)) : valOf T i j = 0 := by
  unfold valOf
  have : (T.find? fun e => e.1 == i && e.2.1 == j) = none := by
    rw [List.find?_eq_none]; intro e he; have := h e he; simp; tauto
  rw [this]

/-- a list of triples with indices in range and no repeated index pair sums like its tensor -/
theorem sum_table_eq_tensor (L : ℕ) (T : List (ℕ × ℕ × R)) (F : ℕ → ℕ → R → R)
    (hF0 : ∀ i j, F i j 0 = 0) (h1 : ∀ e ∈ T, e.1 < L ∧ e.2.1 < L)
    (h2 : T.Pairwise fun e e' => ¬ (e.1 = e'.1 ∧ e.2.1 = e'.2.1)) :
    T.foldr (fun e acc => F e.1 e.2.1 e.2.2 + acc) 0 = ∑ i ∈ range L, ∑ j ∈ range L, F i j (valOf T i j) := by
  induction T with
  | nil => simp [valOf, hF0]
  | cons e0 T ih =>
    rw [List.pairwise_cons] at h2
    rw [List.foldr_cons, ih (fun e he => h1 e (List.mem_cons_of_mem _ he)) h2.2]
    have h0 := h1 e0 List.mem_cons_self
    have hz : valOf T e0.1 e0.2.1 = 0 := valOf_eq_zero T _ _ (fun e he hc => h2.1 e he ⟨hc.1.symm, hc.2.symm⟩)
    have hsplit : ∀ i j, F i j (valOf (e0 :: T) i j)
        = F i j (valOf T i j) + (if e0.1 = i ∧ e0.2.1 = j then F e0.1 e0.2.1 e0.2.2 else 0) := by
      intro i j
      rw [valOf_cons]
      by_cases h : e0.1 = i ∧ e0.2.1 = j
      · rw [if_pos h, if_pos h, ← h.1, ← h.2, hz, hF0, zero_add]
      · rw [if_neg h, if_neg h, add_zero]
    simp only [hsplit, sum_add_distrib]
    rw [add_comm]
    congr 1
    rw [sum_eq_single e0.1]
    · rw [sum_eq_single e0.2.1]
      · simp
      · intro j _ hj; rw [if_neg]; intro h; exact hj h.2.symm
      · intro h; exact absurd (mem_range.2 h0.2) h
    · intro i _ hi
      exact sum_eq_zero fun j _ => by rw [if_neg]; intro h; exact hi h.1.symm
    · intro h; exact absurd (mem_range.2 h0.1) h

theorem tensorOfTable_eq_valOf [inst : Conj R] (dimB : ℕ) (table : ℕ → List (ℕ × ℕ × R)) (r s i j : ℕ) :
    tensorOfTable dimB table r s i j = valOf (table (r * dimB + s)) i j := rfl

/-- **list form = tensor form of the reduction** -/
theorem assembleAB_eq_assembleTensor (dimB L : ℕ) (table : ℕ → List (ℕ × ℕ × R)) (ψ : ℕ → ℕ → R)
    (h1 : ∀ q, ∀ e ∈ table q, e.1 < L ∧ e.2.1 < L)
    (h2 : ∀ q, (table q).Pairwise fun e e' => ¬ (e.1 = e'.1 ∧ e.2.1 = e'.2.1)) (x y : ℕ) :
    assembleAB dimB table ψ x y = assembleTensor dimB L (tensorOfTable dimB table) ψ x y := by
  unfold assembleAB assembleTensor
  simp only [sumRange_eq_sum, tensorOfTable_eq_valOf]
  exact sum_table_eq_tensor L (table (x % dimB * dimB + y % dimB))
    (fun i j v => ψ (x / dimB) i * v * conj (ψ (y / dimB) j)) (fun i j => by simp) (h1 _) (h2 _)

theorem rowEntry_spec (N d r s i : ℕ) (hi : i < (klist d N).length) (e : ℕ × ℕ × ℚ) (h : rowEntry N d r s i = some e) :
    e.1 = i ∧ e.2.1 < (klist d N).length := by
  unfold rowEntry at h
  simp only at h
  by_cases hrs : r = s
  · rw [if_pos hrs] at h; cases h; exact ⟨rfl, hi⟩
  · rw [if_neg hrs] at h
    cases hsh : shift ((klist d N).getD i []) r s with
    | none => rw [hsh] at h; cases h
    | some b =>
      rw [hsh] at h
      simp only at h
      cases hidx : indexOf? (klist d N) b with
      | none => rw [hidx] at h; cases h
      | some j =>
        rw [hidx] at h; simp only at h; cases h
        refine ⟨rfl, ?_⟩
        unfold indexOf? at hidx
        simp only at hidx
        split at hidx
        · cases hidx; assumption
        · cases hidx

/-- the table has indices in range and lists no index pair twice -/
theorem bijTable_wf (N d r s : ℕ) :
    (∀ e ∈ bijTable N d r s, e.1 < (klist d N).length ∧ e.2.1 < (klist d N).length) ∧
    (bijTable N d r s).Pairwise fun e e' => ¬ (e.1 = e'.1 ∧ e.2.1 = e'.2.1) := by
  rw [bijTable_eq]
  constructor
  · intro e he
    rw [List.mem_filterMap] at he
    obtain ⟨i, hi, hie⟩ := he
    have hi' : i < (klist d N).length := by simpa using hi
    have := rowEntry_spec N d r s i hi' e hie
    exact ⟨by rw [this.1]; exact hi', this.2⟩
  · rw [List.pairwise_filterMap]
    refine (List.pairwise_lt_range).imp_of_mem ?_
    intro a a' ha ha' hlt b hb b' hb'
    have ha1 : a < (klist d N).length := by simpa using ha
    have ha2 : a' < (klist d N).length := by simpa using ha'
    have e1 := (rowEntry_spec N d r s a ha1 b (by simpa using hb)).1
    have e2 := (rowEntry_spec N d r s a' ha2 b' (by simpa using hb')).1
    rintro ⟨h, _⟩
    omega

/-! ### the tensor entries are the closed-form coefficients; overlap symmetry for every `(n, d)` -/

/-- the table over ℂ (`value = √value²`), entry `(r, s)` -/
noncomputable def tableCq (N d r s : ℕ) : List (ℕ × ℕ × ℂ) := (bijTable N d r s).map fun e => (e.1, e.2.1, wRoot e.2.2)

theorem tableCq_wf (N d r s : ℕ) :
    (∀ e ∈ tableCq N d r s, e.1 < (klist d N).length ∧ e.2.1 < (klist d N).length) ∧
    (tableCq N d r s).Pairwise fun e e' => ¬ (e.1 = e'.1 ∧ e.2.1 = e'.2.1) := by
  constructor
  · intro e he
    simp only [tableCq, List.mem_map] at he
    obtain ⟨e0, he0, rfl⟩ := he
    exact (bijTable_wf N d r s).1 e0 he0
  · simp only [tableCq]; rw [List.pairwise_map]; exact (bijTable_wf N d r s).2

/-- **every entry of the tensor is the closed-form overlap coefficient** (all `(N, d)`, `r, s < d`, Dicke indices in range) -/
theorem valOf_tableCq (N d r s : ℕ) (hd : 1 ≤ d) (hr : r < d) (hs : s < d) (i0 j0 : ℕ)
    (hi : i0 < (klist d N).length) (hj : j0 < (klist d N).length) :
    valOf (tableCq N d r s) i0 j0 = ((coefN N r s ((klist d N).getD i0 []) ((klist d N).getD j0 []) : ℝ) : ℂ) := by
  set L := (klist d N).length with hL
  have h1 := sum_table_eq_tensor L (tableCq N d r s) (fun i j v => if i = i0 ∧ j = j0 then v else 0)
    (fun i j => by simp) (tableCq_wf N d r s).1 (tableCq_wf N d r s).2
  -- right-hand side: only (i0, j0) survives
  have hR : ∑ i ∈ range L, ∑ j ∈ range L, (if i = i0 ∧ j = j0 then valOf (tableCq N d r s) i j else 0)
      = valOf (tableCq N d r s) i0 j0 := by
    rw [sum_eq_single i0]
    · rw [sum_eq_single j0]
      · simp
      · intro j _ hne; simp [hne]
      · intro h; exact absurd (mem_range.2 hj) h
    · intro i _ hne; exact sum_eq_zero fun j _ => by simp [hne]
    · intro h; exact absurd (mem_range.2 hi) h
  rw [hR] at h1
  rw [← h1, foldr_eq_sum_map, tableCq, List.map_map, bijTable_eq]
  have hfun : ((fun e : ℕ × ℕ × ℂ => if e.1 = i0 ∧ e.2.1 = j0 then e.2.2 else 0) ∘ fun e : ℕ × ℕ × ℚ => (e.1, e.2.1, wRoot e.2.2))
      = fun e : ℕ × ℕ × ℚ => (fun i j => if i = i0 ∧ j = j0 then (1 : ℂ) else 0) e.1 e.2.1 * wRoot e.2.2 := by
    funext e; simp only [Function.comp]; split <;> simp
  rw [hfun, sum_filterMap_range]
  have hrow : ∀ i ∈ range L, optVal (fun e : ℕ × ℕ × ℚ => (fun i j => if i = i0 ∧ j = j0 then (1 : ℂ) else 0) e.1 e.2.1 * wRoot e.2.2)
        (rowEntry N d r s i)
      = ∑ j ∈ range L, (if i = i0 ∧ j = j0 then (1 : ℂ) else 0)
          * ((coefN N r s ((klist d N).getD i []) ((klist d N).getD j []) : ℝ) : ℂ) :=
    fun i hi' => row_sum N d r s hd hr hs i (mem_range.1 hi') (fun i j => if i = i0 ∧ j = j0 then (1 : ℂ) else 0)
  rw [sum_congr rfl hrow, sum_eq_single i0]
  · rw [sum_eq_single j0]
    · simp
    · intro j _ hne; simp [hne]
    · intro h; exact absurd (mem_range.2 hj) h
  · intro i _ hne; exact sum_eq_zero fun j _ => by simp [hne]
  · intro h; exact absurd (mem_range.2 hi) h

theorem cond_symm (r s : ℕ) (a b : List ℕ) : Cond r s a b ↔ Cond s r b a := by
  unfold Cond
  constructor
  · rintro ⟨h1, h2, h3⟩; exact ⟨h2, h1, h3.symm⟩
  · rintro ⟨h1, h2, h3⟩; exact ⟨h2, h1, h3.symm⟩

theorem coefN_symm (N r s : ℕ) (a b : List ℕ) : coefN N r s a b = coefN N s r b a := by
  unfold coefN
  by_cases h : Cond r s a b
  · rw [if_pos h, if_pos ((cond_symm r s a b).1 h), mul_comm]
  · rw [if_neg h, if_neg (fun h' => h ((cond_symm r s a b).2 h'))]

/-- **overlap symmetry `B[r,s,i,j] = B[s,r,j,i]` of the executed tensor, for every `(N, d)`** -/
theorem tensor_symm (N d r s i j : ℕ) (hd : 1 ≤ d) (hr : r < d) (hs : s < d)
    (hi : i < (klist d N).length) (hj : j < (klist d N).length) :
    valOf (tableCq N d r s) i j = valOf (tableCq N d s r) j i := by
  rw [valOf_tableCq N d r s hd hr hs i j hi hj, valOf_tableCq N d s r hd hs hr j i hj hi, coefN_symm]

/-! ### spanning: permutation-invariant vectors are constant on occupation classes -/

theorem digits_length (d n x : ℕ) : (digits d n x).length = n := by
  induction n generalizing x with
  | zero => simp [digits_zero]
  | succ n ih => rw [digits_succ]; simp [ih]

theorem digits_lt (d n x : ℕ) (hx : x < d ^ n) : ∀ q ∈ digits d n x, q < d := by
  induction n generalizing x with
  | zero => simp [digits_zero]
  | succ n ih =>
    rw [digits_succ]
    intro q hq
    have hd : 0 < d ^ n := by
      rcases Nat.eq_zero_or_pos (d ^ n) with h | h
      · rw [pow_succ, h] at hx; simp at hx
      · exact h
    rcases List.mem_cons.1 hq with rfl | hq
    · rw [pow_succ, Nat.mul_comm] at hx; exact (Nat.div_lt_iff_lt_mul hd).2 hx
    · exact ih _ (Nat.mod_lt _ hd) q hq

theorem occ_sum (d : ℕ) (l : List ℕ) (hl : ∀ q ∈ l, q < d) : (occ d l).sum = l.length := by
  induction l with
  | nil =>
    have : occ d [] = List.replicate d 0 := by
      apply List.ext_getElem
      · simp [occ_length]
      · intro i h1 h2; rw [occ_getElem]; simp
    rw [this]; simp
  | cons q l ih =>
    have hq : q < d := hl q List.mem_cons_self
    rw [occ_cons d q l hq, sum_set_incr _ q (by rw [occ_length]; exact hq), ih (fun x hx => hl x (List.mem_cons_of_mem _ hx))]
    simp

/-- equal occupation numbers ⇒ the digit strings are permutations of each other -/
theorem perm_of_occ_eq (d : ℕ) (l l' : List ℕ) (hl : ∀ q ∈ l, q < d) (hl' : ∀ q ∈ l', q < d) (h : occ d l = occ d l') :
    l.Perm l' := by
  rw [List.perm_iff_count]
  intro a
  by_cases ha : a < d
  · have h1 := occ_getD d l a ha
    have h2 := occ_getD d l' a ha
    rw [← h1, ← h2, h]
  · have n1 : a ∉ l := fun hm => ha (hl a hm)
    have n2 : a ∉ l' := fun hm => ha (hl' a hm)
    rw [List.count_eq_zero_of_not_mem n1, List.count_eq_zero_of_not_mem n2]

/-- **a permutation-invariant vector is constant on occupation classes** -/
theorem symmetric_const_on_occ {β : Type} (d n : ℕ) (v : ℕ → β)
    (hsym : ∀ x y, x < d ^ n → y < d ^ n → (digits d n x).Perm (digits d n y) → v x = v y)
    (x y : ℕ) (hx : x < d ^ n) (hy : y < d ^ n) (h : occ d (digits d n x) = occ d (digits d n y)) : v x = v y :=
  hsym x y hx hy (perm_of_occ_eq d _ _ (digits_lt d n x hx) (digits_lt d n y hy) h)

theorem occ_digits_mem_klist (d n x : ℕ) (hd : 1 ≤ d) (hx : x < d ^ n) : occ d (digits d n x) ∈ klist d n := by
  obtain ⟨e, rfl⟩ : ∃ e, d = e + 1 := ⟨d - 1, by omega⟩
  rw [mem_klist_iff]
  exact ⟨occ_length _ _, by rw [occ_sum _ _ (digits_lt _ n x hx), digits_length]⟩

theorem sum_map_single {β : Type} [DecidableEq β] (l : List β) (hnd : l.Nodup) (a0 : β) (ha : a0 ∈ l) (f : β → ℝ) :
    (l.map fun a => if a0 = a then f a else 0).sum = f a0 := by
  rw [← List.sum_toFinset _ hnd, Finset.sum_ite_eq]
  simp [ha]

end Dicke
end Numqi
