/-
Helper lemmas for C15: the spin-j matrices as `Sym^{j2}` of the SU(2) matrix — explicit tables for `j2 ≤ 3` and their
multiplicativity.
-/
import NumqiProofs.Lie
import Mathlib.Algebra.BigOperators.Fin

set_option linter.unusedSectionVars false

namespace Numqi.Lie
open Matrix

variable {R : Type} [Field R] [CharZero R]

/-- `Sym^{j2}(U)` of the model as a matrix over `Cx R` -/
def symM (sq : ℕ → R) (j2 : ℕ) (a b c d : Cx R) : Matrix (Fin (j2 + 1)) (Fin (j2 + 1)) (Cx R) :=
  fun i k => symD sq (fun n : ℕ => (n : R)) j2 a b c d i.val k.val

theorem smul_eq_ofReal_mul (x : R) (z : Cx R) : Cx.smul x z = Cx.ofReal x * z := by
  ext <;> simp

theorem ofReal_mul' (x y : R) : Cx.ofReal (x * y) = Cx.ofReal x * Cx.ofReal y := by ext <;> simp
theorem ofReal_one' : Cx.ofReal (1 : R) = 1 := rfl
theorem ofReal_ofNat' (n : ℕ) : Cx.ofReal ((n : R)) = (n : Cx R) := by
  induction n with
  | zero => ext <;> simp
  | succ n ih => rw [Nat.cast_succ, Nat.cast_succ, ← ih]; ext <;> simp

theorem symM_one (sq : ℕ → R) (h1 : sq 1 = 1) (a b c d : Cx R) : symM sq 1 a b c d = M2 (mk2 a b c d) := by
  apply Matrix.ext; intro i k
  fin_cases i <;> fin_cases k <;> simp [symM, symD, factN, powG, List.range_succ, h1] <;> ext <;> simp

/-- table for `j2 = 2`; `t = √2` -/
theorem symM_two (sq : ℕ → R) (h1 : sq 1 = 1) (h4 : sq 4 = 2) (a b c d : Cx R) :
    symM sq 2 a b c d = Matrix.of ![![a * a, Cx.ofReal (sq 2) * (a * b), b * b],
      ![Cx.ofReal (sq 2) * (a * c), a * d + b * c, Cx.ofReal (sq 2) * (b * d)],
      ![c * c, Cx.ofReal (sq 2) * (c * d), d * d]] := by
  apply Matrix.ext; intro i k
  fin_cases i <;> fin_cases k <;>
    simp [symM, symD, factN, powG, List.range_succ, h1, h4, smul_eq_ofReal_mul, ofReal_one'] <;>
    (ext <;> simp only [Cx.mul_re, Cx.mul_im, Cx.add_re, Cx.add_im, Cx.ofReal_re, Cx.ofReal_im, Cx.one_re, Cx.one_im, Cx.zero_re, Cx.zero_im] <;> ring)

/-- table for `j2 = 3`; `t = √3` -/
theorem symM_three (sq : ℕ → R) (h4 : sq 4 = 2) (h36 : sq 36 = 6) (h12 : sq 12 = 2 * sq 3) (a b c d : Cx R) :
    symM sq 3 a b c d = Matrix.of ![![a * a * a, Cx.ofReal (sq 3) * (a * a * b), Cx.ofReal (sq 3) * (a * b * b), b * b * b],
      ![Cx.ofReal (sq 3) * (a * a * c), a * a * d + (a * b * c + a * b * c), (a * b * d + a * b * d) + b * b * c, Cx.ofReal (sq 3) * (b * b * d)],
      ![Cx.ofReal (sq 3) * (a * c * c), (a * c * d + a * c * d) + b * c * c, a * d * d + (b * c * d + b * c * d), Cx.ofReal (sq 3) * (b * d * d)],
      ![c * c * c, Cx.ofReal (sq 3) * (c * c * d), Cx.ofReal (sq 3) * (c * d * d), d * d * d]] := by
  apply Matrix.ext; intro i k
  fin_cases i <;> fin_cases k <;>
    simp [symM, symD, factN, powG, List.range_succ, h4, h36, h12, smul_eq_ofReal_mul, ofReal_one'] <;>
    (ext <;> simp only [Cx.mul_re, Cx.mul_im, Cx.add_re, Cx.add_im, Cx.ofReal_re, Cx.ofReal_im, Cx.one_re, Cx.one_im, Cx.zero_re, Cx.zero_im] <;> ring)

theorem ofReal_sq_two (sq : ℕ → R) (h2 : sq 2 * sq 2 = 2) : Cx.ofReal (sq 2) * Cx.ofReal (sq 2) = (1 + 1 : Cx R) := by
  rw [← ofReal_mul', h2]; ext <;> simp <;> norm_num

theorem ofReal_sq_three (sq : ℕ → R) (h3 : sq 3 * sq 3 = 3) : Cx.ofReal (sq 3) * Cx.ofReal (sq 3) = (1 + 1 + 1 : Cx R) := by
  rw [← ofReal_mul', h3]; ext <;> simp <;> norm_num

/-- `Sym²` is multiplicative (all 2×2 matrices) -/
theorem symM_mul_two (sq : ℕ → R) (h1 : sq 1 = 1) (h4 : sq 4 = 2) (h2 : sq 2 * sq 2 = 2) (a b c d a' b' c' d' : Cx R) :
    symM sq 2 (a * a' + b * c') (a * b' + b * d') (c * a' + d * c') (c * b' + d * d')
      = symM sq 2 a b c d * symM sq 2 a' b' c' d' := by
  have ht := ofReal_sq_two sq h2
  rw [symM_two sq h1 h4, symM_two sq h1 h4, symM_two sq h1 h4]
  apply Matrix.ext; intro i k
  fin_cases i <;> fin_cases k
  · simp [Matrix.mul_apply, Fin.sum_univ_succ]; linear_combination (-(a*a'*b*c')) * ht
  · simp [Matrix.mul_apply, Fin.sum_univ_succ]; ring
  · simp [Matrix.mul_apply, Fin.sum_univ_succ]; linear_combination (-(a*b*b'*d')) * ht
  · simp [Matrix.mul_apply, Fin.sum_univ_succ]; ring
  · simp [Matrix.mul_apply, Fin.sum_univ_succ]; linear_combination (-(a*a'*b'*c) - b*c'*d*d') * ht
  · simp [Matrix.mul_apply, Fin.sum_univ_succ]; ring
  · simp [Matrix.mul_apply, Fin.sum_univ_succ]; linear_combination (-(a'*c*c'*d)) * ht
  · simp [Matrix.mul_apply, Fin.sum_univ_succ]; ring
  · simp [Matrix.mul_apply, Fin.sum_univ_succ]; linear_combination (-(b'*c*d*d')) * ht

/-- `Sym³` is multiplicative (all 2×2 matrices) -/
theorem symM_mul_three (sq : ℕ → R) (h4 : sq 4 = 2) (h36 : sq 36 = 6) (h12 : sq 12 = 2 * sq 3) (h3 : sq 3 * sq 3 = 3)
    (a b c d a' b' c' d' : Cx R) :
    symM sq 3 (a * a' + b * c') (a * b' + b * d') (c * a' + d * c') (c * b' + d * d')
      = symM sq 3 a b c d * symM sq 3 a' b' c' d' := by
  have ht := ofReal_sq_three sq h3
  rw [symM_three sq h4 h36 h12, symM_three sq h4 h36 h12, symM_three sq h4 h36 h12]
  apply Matrix.ext; intro i k
  fin_cases i <;> fin_cases k
  · simp [Matrix.mul_apply, Fin.sum_univ_succ]; linear_combination (-(a^2*a'^2*b*c') - a*a'*b^2*c'^2) * ht
  · simp [Matrix.mul_apply, Fin.sum_univ_succ]; ring
  · simp [Matrix.mul_apply, Fin.sum_univ_succ]; ring
  · simp [Matrix.mul_apply, Fin.sum_univ_succ]; linear_combination (-(a^2*b*b'^2*d') - a*b^2*b'*d'^2) * ht
  · simp [Matrix.mul_apply, Fin.sum_univ_succ]; ring
  · simp [Matrix.mul_apply, Fin.sum_univ_succ]; linear_combination (-(a^2*a'^2*b'*c) - b^2*c'^2*d*d') * ht
  · simp [Matrix.mul_apply, Fin.sum_univ_succ]; linear_combination (-(a^2*a'*b'^2*c) - b^2*c'*d*d'^2) * ht
  · simp [Matrix.mul_apply, Fin.sum_univ_succ]; ring
  · simp [Matrix.mul_apply, Fin.sum_univ_succ]; ring
  · simp [Matrix.mul_apply, Fin.sum_univ_succ]; linear_combination (-(a*a'^2*b'*c^2) - b*c'^2*d^2*d') * ht
  · simp [Matrix.mul_apply, Fin.sum_univ_succ]; linear_combination (-(a*a'*b'^2*c^2) - b*c'*d^2*d'^2) * ht
  · simp [Matrix.mul_apply, Fin.sum_univ_succ]; ring
  · simp [Matrix.mul_apply, Fin.sum_univ_succ]; linear_combination (-(a'^2*c^2*c'*d) - a'*c*c'^2*d^2) * ht
  · simp [Matrix.mul_apply, Fin.sum_univ_succ]; ring
  · simp [Matrix.mul_apply, Fin.sum_univ_succ]; ring
  · simp [Matrix.mul_apply, Fin.sum_univ_succ]; linear_combination (-(b'^2*c^2*d*d') - b'*c*d^2*d'^2) * ht

theorem symM_mul_one (sq : ℕ → R) (h1 : sq 1 = 1) (a b c d a' b' c' d' : Cx R) :
    symM sq 1 (a * a' + b * c') (a * b' + b * d') (c * a' + d * c') (c * b' + d * d')
      = symM sq 1 a b c d * symM sq 1 a' b' c' d' := by
  rw [symM_one sq h1, symM_one sq h1, symM_one sq h1]
  apply mat2_ext <;> simp [mul2_apply]

/-! ### the Wigner sum of the implementation is `Sym^{j2}` of the SU(2) matrix, every `j2` -/

theorem powG_eq_pow {M : Type} [Monoid M] (x : M) (n : ℕ) : powG x n = x ^ n := by
  induction n with
  | zero => rw [powG, pow_zero]
  | succ n ih => rw [powG, ih, pow_succ]

theorem ofReal_pow' (x : R) (n : ℕ) : Cx.ofReal (x ^ n) = (Cx.ofReal x) ^ n := by
  induction n with
  | zero => rw [pow_zero, pow_zero]; rfl
  | succ n ih => rw [pow_succ, pow_succ, ofReal_mul', ih]

theorem ofReal_neg_one : Cx.ofReal (-1 : R) = -1 := by ext <;> simp

/-- pulling a complex factor through the fold -/
theorem foldl_smul (l : List ℕ) (g : ℕ → R) (Z : Cx R) (x0 : R) :
    Cx.ofReal (l.foldl (fun acc t => acc + g t) x0) * Z
      = l.foldl (fun acc t => acc + Cx.ofReal (g t) * Z) (Cx.ofReal x0 * Z) := by
  induction l generalizing x0 with
  | nil => rfl
  | cons t l ih =>
    rw [List.foldl_cons, List.foldl_cons, ih]
    congr 1
    ext <;> simp <;> ring

theorem foldl_congr_range (n : ℕ) (f g : ℕ → Cx R) (h : ∀ t < n, f t = g t) (x0 : Cx R) :
    (List.range n).foldl (fun acc t => acc + f t) x0 = (List.range n).foldl (fun acc t => acc + g t) x0 := by
  induction n with
  | zero => rfl
  | succ n ih =>
    rw [List.range_succ, List.foldl_append, List.foldl_append, ih (fun t ht => h t (by omega))]
    simp [h n (by omega)]

/-- **`get_su2_irrep` (Wigner factorial sum with its phases) = `Sym^{j2}(angle_to_su2)`**, entry by entry, for every `j2`. -/
theorem irrepCS_eq_symD (sq : ℕ → R) (j2 : ℕ) (cb sb : R) (p m : Cx R) (hp : p * p.conj = 1) (hm : m * m.conj = 1)
    (i k : ℕ) (hi : i ≤ j2) (hk : k ≤ j2) :
    irrepCS sq (fun n : ℕ => (n : R)) j2 cb sb p m i k
      = symD sq (fun n : ℕ => (n : R)) j2 (Cx.smul cb p.conj) (-(Cx.smul sb m.conj)) (Cx.smul sb m) (Cx.smul cb p) i k := by
  unfold irrepCS symD wignerDG
  rw [smul_eq_ofReal_mul, foldl_smul]
  have z0 : Cx.ofReal (0 : R) * (powG p.conj j2 * powG (p * m) i * powG (p * m.conj) k) = 0 := by
    ext <;> simp
  rw [z0]
  apply foldl_congr_range
  intro t ht
  simp only [smul_eq_ofReal_mul, powG_eq_pow]
  set r := k - i + t with hr
  have hr1 : k - i ≤ r := by omega
  have hr2 : r ≤ min (j2 - i) k := by omega
  have hr3 : r ≤ j2 - i := le_trans hr2 (min_le_left _ _)
  have hr4 : r ≤ k := le_trans hr2 (min_le_right _ _)
  -- exponent bookkeeping
  obtain ⟨x, hx⟩ : ∃ x, x = j2 - i - r := ⟨_, rfl⟩
  obtain ⟨w, hw⟩ : ∃ w, w = k - r := ⟨_, rfl⟩
  obtain ⟨zz, hz⟩ : ∃ zz, zz = r + i - k := ⟨_, rfl⟩
  have e1 : j2 - (2 * r + i - k) = x + w := by omega
  have e2 : 2 * r + i - k = r + zz := by omega
  have e3 : j2 = x + (i + r) := by omega
  have e4 : i + k = (i + r) + w := by omega
  have e5 : i = zz + w := by omega
  have e6 : k = w + r := by omega
  rw [e1, e2, ← hx, ← hw, ← hz]
  have hsgn : Cx.ofReal (if r % 2 = 0 then (1 : R) else -1) = (-1 : Cx R) ^ r := by
    rcases Nat.even_or_odd r with he | ho
    · have : r % 2 = 0 := Nat.even_iff.mp he
      rw [if_pos this, he.neg_one_pow]; rfl
    · have : ¬ r % 2 = 0 := by rw [Nat.odd_iff.mp ho]; norm_num
      rw [if_neg this, ho.neg_one_pow, ofReal_neg_one]
  have hphase : p.conj ^ j2 * (p * m) ^ i * (p * m.conj) ^ k = p.conj ^ x * p ^ w * m.conj ^ r * m ^ zz := by
    have h1 : p.conj ^ j2 * p ^ (i + k) = p.conj ^ x * p ^ w := by
      rw [e4]
      conv_lhs => rw [e3]
      rw [pow_add p.conj x (i + r), pow_add p (i + r) w]
      have : p.conj ^ (i + r) * p ^ (i + r) = 1 := by rw [← mul_pow, mul_comm, hp, one_pow]
      calc p.conj ^ x * p.conj ^ (i + r) * (p ^ (i + r) * p ^ w)
          = p.conj ^ x * (p.conj ^ (i + r) * p ^ (i + r)) * p ^ w := by ring
        _ = p.conj ^ x * p ^ w := by rw [this, mul_one]
    have h2 : m ^ i * m.conj ^ k = m.conj ^ r * m ^ zz := by
      conv_lhs => rw [e5, e6]
      rw [pow_add m zz w, pow_add m.conj w r]
      have : m ^ w * m.conj ^ w = 1 := by rw [← mul_pow, hm, one_pow]
      calc m ^ zz * m ^ w * (m.conj ^ w * m.conj ^ r) = m ^ zz * (m ^ w * m.conj ^ w) * m.conj ^ r := by ring
        _ = m.conj ^ r * m ^ zz := by rw [this, mul_one, mul_comm]
    calc p.conj ^ j2 * (p * m) ^ i * (p * m.conj) ^ k
        = (p.conj ^ j2 * p ^ (i + k)) * (m ^ i * m.conj ^ k) := by rw [mul_pow, mul_pow, pow_add]; ring
      _ = p.conj ^ x * p ^ w * m.conj ^ r * m ^ zz := by rw [h1, h2]; ring
  rw [hphase]
  rw [← neg_one_mul (Cx.ofReal sb * m.conj)]
  simp only [ofReal_mul', ofReal_pow', mul_pow]
  have hdiv : ∀ u v : R, Cx.ofReal ((if r % 2 = 0 then (1 : R) else -1) * u / v) = (-1 : Cx R) ^ r * Cx.ofReal (u / v) := by
    intro u v
    rw [mul_div_assoc, ofReal_mul', hsgn]
  rw [hdiv, pow_add, pow_add]
  ring

/-! ### unitarity for `j2 ≤ 3` -/

/-- conjugate transpose of a matrix over `Cx R` -/
def conjTn {n : ℕ} (M : Matrix (Fin n) (Fin n) (Cx R)) : Matrix (Fin n) (Fin n) (Cx R) := fun i k => (M k i).conj

theorem symM_conjT_one (sq : ℕ → R) (h1 : sq 1 = 1) (a b c d : Cx R) :
    conjTn (symM sq 1 a b c d) = symM sq 1 a.conj c.conj b.conj d.conj := by
  rw [symM_one sq h1, symM_one sq h1]
  apply Matrix.ext; intro i k
  fin_cases i <;> fin_cases k <;> rfl

theorem symM_conjT_two (sq : ℕ → R) (h1 : sq 1 = 1) (h4 : sq 4 = 2) (a b c d : Cx R) :
    conjTn (symM sq 2 a b c d) = symM sq 2 a.conj c.conj b.conj d.conj := by
  rw [symM_two sq h1 h4, symM_two sq h1 h4]
  apply Matrix.ext; intro i k
  fin_cases i <;> fin_cases k <;> simp [conjTn] <;>
    (ext <;> simp only [Cx.mul_re, Cx.mul_im, Cx.add_re, Cx.add_im, Cx.conj_re, Cx.conj_im, Cx.ofReal_re, Cx.ofReal_im] <;> ring)

theorem symM_conjT_three (sq : ℕ → R) (h4 : sq 4 = 2) (h36 : sq 36 = 6) (h12 : sq 12 = 2 * sq 3) (a b c d : Cx R) :
    conjTn (symM sq 3 a b c d) = symM sq 3 a.conj c.conj b.conj d.conj := by
  rw [symM_three sq h4 h36 h12, symM_three sq h4 h36 h12]
  apply Matrix.ext; intro i k
  fin_cases i <;> fin_cases k <;> simp [conjTn] <;>
    (ext <;> simp only [Cx.mul_re, Cx.mul_im, Cx.add_re, Cx.add_im, Cx.conj_re, Cx.conj_im, Cx.ofReal_re, Cx.ofReal_im] <;> ring)

theorem symM_id_one (sq : ℕ → R) (h1 : sq 1 = 1) : symM sq 1 1 0 0 1 = 1 := by
  rw [symM_one sq h1]; apply Matrix.ext; intro i k; fin_cases i <;> fin_cases k <;> rfl

theorem symM_id_two (sq : ℕ → R) (h1 : sq 1 = 1) (h4 : sq 4 = 2) : symM sq 2 1 0 0 1 = 1 := by
  rw [symM_two sq h1 h4]; apply Matrix.ext; intro i k; fin_cases i <;> fin_cases k <;> simp

theorem symM_id_three (sq : ℕ → R) (h4 : sq 4 = 2) (h36 : sq 36 = 6) (h12 : sq 12 = 2 * sq 3) : symM sq 3 1 0 0 1 = 1 := by
  rw [symM_three sq h4 h36 h12]; apply Matrix.ext; intro i k; fin_cases i <;> fin_cases k <;> simp

end Numqi.Lie
