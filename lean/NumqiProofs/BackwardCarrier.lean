/-
The executable carriers are instances of the algebraic classes the theorems quantify over (audit M6 / M10 / F4):
`GInt = ℤ[i]` is a commutative star-ring, `QI = ℚ[i]` is a field whose division is the one the driver executes
(`instance : Div QI` of `NumqiModel/Backward.lean`, `x / 0 = 0`).  All operations are the ad-hoc instances of
`NumqiModel/Scalar.lean`, nothing is redefined.
-/
import Mathlib.Tactic
import Mathlib.Algebra.Star.Basic
import Mathlib.Algebra.Field.Basic
import NumqiModel.Backward

namespace Numqi

namespace GInt
@[ext] theorem ext' {a b : GInt} (h1 : a.re = b.re) (h2 : a.im = b.im) : a = b := by
  cases a; cases b; simp_all
@[simp] theorem zero_re : (0 : GInt).re = 0 := rfl
@[simp] theorem zero_im : (0 : GInt).im = 0 := rfl
@[simp] theorem one_re : (1 : GInt).re = 1 := rfl
@[simp] theorem one_im : (1 : GInt).im = 0 := rfl
@[simp] theorem add_re (a b : GInt) : (a + b).re = a.re + b.re := rfl
@[simp] theorem add_im (a b : GInt) : (a + b).im = a.im + b.im := rfl
@[simp] theorem sub_re (a b : GInt) : (a - b).re = a.re - b.re := rfl
@[simp] theorem sub_im (a b : GInt) : (a - b).im = a.im - b.im := rfl
@[simp] theorem neg_re (a : GInt) : (-a).re = -a.re := rfl
@[simp] theorem neg_im (a : GInt) : (-a).im = -a.im := rfl
@[simp] theorem mul_re (a b : GInt) : (a * b).re = a.re * b.re - a.im * b.im := rfl
@[simp] theorem mul_im (a b : GInt) : (a * b).im = a.re * b.im + a.im * b.re := rfl

/-- ℤ[i] with the executed `+ * - 0 1` is a commutative ring -/
instance : CommRing GInt where
  add_assoc a b c := by ext <;> simp <;> ring
  zero_add a := by ext <;> simp
  add_zero a := by ext <;> simp
  add_comm a b := by ext <;> simp <;> ring
  neg_add_cancel a := by ext <;> simp
  sub_eq_add_neg a b := by ext <;> simp <;> ring
  mul_assoc a b c := by ext <;> simp <;> ring
  one_mul a := by ext <;> simp
  mul_one a := by ext <;> simp
  left_distrib a b c := by ext <;> simp <;> ring
  right_distrib a b c := by ext <;> simp <;> ring
  mul_comm a b := by ext <;> simp <;> ring
  zero_mul a := by ext <;> simp
  mul_zero a := by ext <;> simp
  nsmul := nsmulRec
  zsmul := zsmulRec

/-- … and a star-ring, `star` being the executed `conj` -/
instance : StarRing GInt where
  star := conj
  star_involutive a := by ext <;> simp [conj, Conj.conj]
  star_mul a b := by ext <;> simp [conj, Conj.conj] <;> ring
  star_add a b := by ext <;> simp [conj, Conj.conj] <;> ring

theorem star_eq_conj (a : GInt) : star a = conj a := rfl
end GInt

namespace QI
@[ext] theorem ext' {a b : QI} (h1 : a.re = b.re) (h2 : a.im = b.im) : a = b := by
  cases a; cases b; simp_all
@[simp] theorem zero_re : (0 : QI).re = 0 := rfl
@[simp] theorem zero_im : (0 : QI).im = 0 := rfl
@[simp] theorem one_re : (1 : QI).re = 1 := rfl
@[simp] theorem one_im : (1 : QI).im = 0 := rfl
@[simp] theorem add_re (a b : QI) : (a + b).re = a.re + b.re := rfl
@[simp] theorem add_im (a b : QI) : (a + b).im = a.im + b.im := rfl
@[simp] theorem sub_re (a b : QI) : (a - b).re = a.re - b.re := rfl
@[simp] theorem sub_im (a b : QI) : (a - b).im = a.im - b.im := rfl
@[simp] theorem neg_re (a : QI) : (-a).re = -a.re := rfl
@[simp] theorem neg_im (a : QI) : (-a).im = -a.im := rfl
@[simp] theorem mul_re (a b : QI) : (a * b).re = a.re * b.re - a.im * b.im := rfl
@[simp] theorem mul_im (a b : QI) : (a * b).im = a.re * b.im + a.im * b.re := rfl
theorem div_re (a b : QI) : (a / b).re = (a.re * b.re + a.im * b.im) / (b.re * b.re + b.im * b.im) := rfl
theorem div_im (a b : QI) : (a / b).im = (a.im * b.re - a.re * b.im) / (b.re * b.re + b.im * b.im) := rfl

instance : CommRing QI where
  add_assoc a b c := by ext <;> simp <;> ring
  zero_add a := by ext <;> simp
  add_zero a := by ext <;> simp
  add_comm a b := by ext <;> simp <;> ring
  neg_add_cancel a := by ext <;> simp
  sub_eq_add_neg a b := by ext <;> simp <;> ring
  mul_assoc a b c := by ext <;> simp <;> ring
  one_mul a := by ext <;> simp
  mul_one a := by ext <;> simp
  left_distrib a b c := by ext <;> simp <;> ring
  right_distrib a b c := by ext <;> simp <;> ring
  mul_comm a b := by ext <;> simp <;> ring
  zero_mul a := by ext <;> simp
  mul_zero a := by ext <;> simp
  nsmul := nsmulRec
  zsmul := zsmulRec

theorem normSq_pos_of_ne_zero (a : QI) (h : a ≠ 0) : a.re * a.re + a.im * a.im ≠ 0 := by
  intro h0
  apply h
  have h1 : a.re = 0 := by nlinarith [mul_self_nonneg a.re, mul_self_nonneg a.im]
  have h2 : a.im = 0 := by nlinarith [mul_self_nonneg a.re, mul_self_nonneg a.im]
  ext <;> simp [h1, h2]

/-- **ℚ[i] with the executed division is a field** (`a / b = a · b⁻¹`, `b⁻¹ = 1 / b`, `0⁻¹ = 0`) -/
instance : Field QI where
  inv a := 1 / a
  div := fun a b => a / b
  div_eq_mul_inv a b := by
    ext
    · rw [div_re]; simp only [mul_re, div_re, div_im, one_re, one_im]; ring
    · rw [div_im]; simp only [mul_im, div_re, div_im, one_re, one_im]; ring
  exists_pair_ne := ⟨0, 1, by intro h; have := congrArg QI.re h; simp at this⟩
  mul_inv_cancel a h := by
    have hn := normSq_pos_of_ne_zero a h
    have hn' : a.re ^ 2 + a.im ^ 2 ≠ 0 := by simpa [sq] using hn
    ext
    · simp only [mul_re, div_re, div_im, one_re, one_im]; field_simp; ring
    · simp only [mul_im, div_re, div_im, one_re, one_im]; field_simp; ring
  inv_zero := by ext <;> simp [div_re, div_im]
  nnqsmul := _
  nnqsmul_def := fun _ _ => rfl
  qsmul := _
  qsmul_def := fun _ _ => rfl

instance : StarRing QI where
  star := conj
  star_involutive a := by ext <;> simp [conj, Conj.conj]
  star_mul a b := by ext <;> simp [conj, Conj.conj] <;> ring
  star_add a b := by ext <;> simp [conj, Conj.conj] <;> ring

/-- the field's division is the executed one -/
theorem field_div_eq (a b : QI) : (HDiv.hDiv a b : QI) = ⟨(a.re * b.re + a.im * b.im) / QI.normSq b, (a.im * b.re - a.re * b.im) / QI.normSq b⟩ := rfl

end QI
end Numqi
