/-
Tripartite test `is_ABC_completely_entangled_subspace` at level 2 (C20): the model's vector entry for a multi-index of length 3 is the
symmetrised form `abcW` (every slot in turn is the plain factor, the other two go through both cuts), `abcW` is multilinear and
symmetric, and it vanishes on a product tensor — the level-2 linear relation.
-/
import NumqiProofs.MatrixSpaceTripartite
import NumqiProofs.MatrixSpaceLevel2
namespace Numqi.MatrixSpace
open Finset Equiv

section
variable {R : Type} [CommRing R]

/-- level-2 entry of the tripartite test: each of the three slots in turn is the plain factor, the other two go through both cuts -/
def abcW (dB dC : ℕ) (A : Fin 3 → ℕ → ℕ → ℕ → R) (a b c a' b' c' : ℕ) (K : ℕ) : R :=
  ∑ m : Fin 3, abcEntry dB dC (A (m.succAbove 0)) (A (m.succAbove 1)) a b c a' b' c' * matA_BC dC (A m) (K / (dB * dC)) (K % (dB * dC))

theorem sum_fun_fin_two {N : ℕ} (f : Fin N → Fin N → R) : ∑ t : Fin 2 → Fin N, f (t 0) (t 1) = ∑ i, ∑ j, f i j := by
  rw [← (Fin.insertNthEquiv (fun _ => Fin N) 0).sum_comp, Fintype.sum_prod_type]
  refine Finset.sum_congr rfl fun i _ => ?_
  rw [← (Equiv.funUnique (Fin 1) (Fin N)).symm.sum_comp]
  refine Finset.sum_congr rfl fun j _ => ?_
  simp [Fin.insertNthEquiv]

theorem abcW_diag (dB dC : ℕ) (P : ℕ → ℕ → ℕ → R) (a b c a' b' c' K : ℕ) :
    abcW dB dC (fun _ => P) a b c a' b' c' K
      = 3 * (abcEntry dB dC P P a b c a' b' c' * matA_BC dC P (K / (dB * dC)) (K % (dB * dC))) := by
  unfold abcW
  rw [Finset.sum_const, Finset.card_univ, Fintype.card_fin, nsmul_eq_mul]; norm_num

theorem abcW_expand {N : ℕ} (dB dC : ℕ) (cf : Fin N → R) (S : Fin N → ℕ → ℕ → ℕ → R) (a b c a' b' c' K : ℕ) :
    abcW dB dC (fun _ => fun x y z => ∑ i, cf i * S i x y z) a b c a' b' c' K
      = ∑ t : Fin 3 → Fin N, (∏ m, cf (t m)) * abcW dB dC (fun m => S (t m)) a b c a' b' c' K := by
  unfold abcW
  have hR : ∑ t : Fin 3 → Fin N, (∏ m, cf (t m)) *
        ∑ m : Fin 3, abcEntry dB dC (S (t (m.succAbove 0))) (S (t (m.succAbove 1))) a b c a' b' c'
          * matA_BC dC (S (t m)) (K / (dB * dC)) (K % (dB * dC))
      = ∑ m : Fin 3, ∑ t : Fin 3 → Fin N, (∏ m', cf (t m')) *
          (abcEntry dB dC (S (t (m.succAbove 0))) (S (t (m.succAbove 1))) a b c a' b' c'
            * matA_BC dC (S (t m)) (K / (dB * dC)) (K % (dB * dC))) := by
    simp only [Finset.mul_sum]; exact Finset.sum_comm
  rw [hR]
  refine Finset.sum_congr rfl fun m _ => ?_
  rw [abcEntry_bilinear, matA_BC_sum, ← (Fin.insertNthEquiv (fun _ => Fin N) m).sum_comp, Fintype.sum_prod_type]
  rw [← sum_fun_fin_two (fun i j => cf i * cf j * abcEntry dB dC (S i) (S j) a b c a' b' c'), Finset.sum_mul_sum]
  refine Finset.sum_comm.trans ?_
  refine Finset.sum_congr rfl fun i _ => Finset.sum_congr rfl fun t' _ => ?_
  simp only [Fin.insertNthEquiv_apply, Fin.insertNth_apply_same, Fin.insertNth_apply_succAbove]
  rw [Fin.prod_univ_succAbove _ m]
  simp only [Fin.insertNth_apply_same, Fin.insertNth_apply_succAbove, Fin.prod_univ_two]
  ring

theorem abcW_perm (dB dC : ℕ) (A : Fin 3 → ℕ → ℕ → ℕ → R) (a b c a' b' c' K : ℕ) (π : Perm (Fin 3)) :
    abcW dB dC (fun m => A (π m)) a b c a' b' c' K = abcW dB dC A a b c a' b' c' K := by
  unfold abcW
  rw [← Equiv.sum_comp π (fun m => abcEntry dB dC (A (m.succAbove 0)) (A (m.succAbove 1)) a b c a' b' c'
    * matA_BC dC (A m) (K / (dB * dC)) (K % (dB * dC)))]
  refine Finset.sum_congr rfl fun m _ => ?_
  obtain ⟨π', hπ'⟩ := exists_perm_succAbove π m
  show abcEntry dB dC (A (π (m.succAbove 0))) (A (π (m.succAbove 1))) a b c a' b' c' * matA_BC dC (A (π m)) (K / (dB * dC)) (K % (dB * dC)) = _
  rw [hπ' 0, hπ' 1]
  congr 1
  have h01 : π' 0 ≠ π' 1 := π'.injective.ne (by decide)
  rcases Fin.exists_fin_two.1 ⟨π' 0, rfl⟩ with h0 | h0 <;> rcases Fin.exists_fin_two.1 ⟨π' 1, rfl⟩ with h1 | h1
  · exact (h01 (h0.trans h1.symm)).elim
  · rw [h0, h1]
  · rw [h0, h1, abcEntry_symm]
  · exact (h01 (h0.trans h1.symm)).elim

/-- **level-2 relation of the tripartite test** -/
theorem abcW_dependence {N : ℕ} (dB dC : ℕ) (cf : Fin N → R) (S : Fin N → ℕ → ℕ → ℕ → R) (x y z : ℕ → R)
    (hprod : ∀ a b e, ∑ i, cf i * S i a b e = x a * y b * z e) (a b c a' b' c' K : ℕ) :
    ∑ t : Fin 3 → Fin N, (∏ m, cf (t m)) * abcW dB dC (fun m => S (t m)) a b c a' b' c' K = 0 := by
  have hfun : (fun a b e => ∑ i, cf i * S i a b e) = fun a b e => x a * y b * z e := by
    funext a b e; exact hprod a b e
  rw [← abcW_expand, abcW_diag, hfun, abcEntry_product]; ring

theorem symPartEntry_singleton {N : ℕ} (mats : ℕ → ℕ → ℕ → R) (dimB g K : ℕ) (hg : g < N) :
    symPartEntry mats dimB N [g] [K] = flatEntry mats dimB g K := by
  unfold symPartEntry
  by_cases hN : N = 1
  · have : g = 0 := by omega
    simp [hN, this]
  · rw [if_neg hN, antisymFactorTable_singleton]
    simp [listSum, listProd, nsmulN]

/-- **the model's level-2 entry of the tripartite test is `abcW`** for every multi-index of length 3 -/
theorem abcLevelEntry_level2 {N : ℕ} (dB dC : ℕ) (T : ℕ → ℕ → ℕ → ℕ → R) (INDEX : List ℕ) (a b c a' b' c' K : ℕ)
    (hlen : INDEX.length = 3) (hlt : ∀ i ∈ INDEX, i < N) :
    abcLevelEntry dB dC N T INDEX a b c a' b' c' [K]
      = abcW dB dC (fun m : Fin 3 => T (INDEX.getD m.val 0)) a b c a' b' c' K := by
  have hc : combos (List.range 3) 2 = [[0, 1], [0, 2], [1, 2]] := by decide
  have hget : ∀ m, m < 3 → INDEX.getD m 0 < N := by
    intro m hm
    rw [getD_eq_getElem' _ (by omega)]
    exact hlt _ (List.getElem_mem _)
  unfold abcLevelEntry abcW
  simp only [hlen, hc, List.map_cons, List.map_nil]
  have f0 : (List.range 3).filter (fun x => !([0, 1] : List ℕ).contains x) = [2] := by decide
  have f1 : (List.range 3).filter (fun x => !([0, 2] : List ℕ).contains x) = [1] := by decide
  have f2 : (List.range 3).filter (fun x => !([1, 2] : List ℕ).contains x) = [0] := by decide
  simp only [f0, f1, f2, List.map_cons, List.map_nil, List.isEmpty_cons, Bool.false_eq_true, if_false, List.getD_cons_zero,
    List.getD_cons_succ, symPartEntry_singleton _ _ _ _ (hget 0 (by omega)), symPartEntry_singleton _ _ _ _ (hget 1 (by omega)),
    symPartEntry_singleton _ _ _ _ (hget 2 (by omega)), flatEntry, listSum, List.foldr]
  rw [Fin.sum_univ_three]
  simp only [Fin.succAbove]
  simp
  ring

end
end Numqi.MatrixSpace
