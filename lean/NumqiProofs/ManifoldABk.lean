/- C01: the symmetric-extension Hermitian manifolds of `_ABk.py` (index bookkeeping). -/
import Mathlib.Tactic
import Mathlib.Algebra.Star.Basic
import Mathlib.Algebra.BigOperators.Group.List.Basic
import Mathlib.Algebra.BigOperators.Group.Finset.Basic
import Mathlib.Algebra.BigOperators.Intervals
import NumqiModel.Manifold

namespace Numqi.Manifold.ABk

variable {R : Type} [CommRing R] [StarRing R]

/-- `ABkHermitian.forward` is Hermitian when `index_sym`, `index_skew` are symmetric and `factor_skew` antisymmetric
(real parameters, real factors) -/
theorem hermitian_star (I : R) (hI : star I = -I) (idxSym idxSkew : Nat → Nat → Nat) (fac : Nat → Nat → R)
    (θsym θskew : Nat → R) (hs : ∀ q, star (θsym q) = θsym q) (hk : ∀ q, star (θskew q) = θskew q)
    (hf : ∀ r c, star (fac r c) = fac r c)
    (h1 : ∀ r c, idxSym r c = idxSym c r) (h2 : ∀ r c, idxSkew r c = idxSkew c r) (h3 : ∀ r c, fac r c = -fac c r) (r c : Nat) :
    star (hermitian I idxSym idxSkew fac θsym θskew c r) = hermitian I idxSym idxSkew fac θsym θskew r c := by
  unfold hermitian
  rw [h1 c r, h2 c r, h3 r c]
  simp only [star_add, star_mul', hI, hs, hf]
  split_ifs <;> simp [hk]

/-- invariance under any index map that preserves the three tables (the exchanges of two `B` copies) -/
theorem hermitian_perm (I : R) (idxSym idxSkew : Nat → Nat → Nat) (fac : Nat → Nat → R) (θsym θskew : Nat → R) (π : Nat → Nat)
    (h1 : ∀ r c, idxSym (π r) (π c) = idxSym r c) (h2 : ∀ r c, idxSkew (π r) (π c) = idxSkew r c)
    (h3 : ∀ r c, fac (π r) (π c) = fac r c) (r c : Nat) :
    hermitian I idxSym idxSkew fac θsym θskew (π r) (π c) = hermitian I idxSym idxSkew fac θsym θskew r c := by
  unfold hermitian; rw [h1, h2, h3]

theorem star_list_sum (l : List R) : star l.sum = (l.map star).sum := by
  induction l with
  | nil => simp
  | cons a t ih => simp [ih]

/-- `ABk2localHermitian.forward` is Hermitian when the coefficient rows addressed by `(r,c)` and `(c,r)` agree (symmetric part) resp.
are opposite (skew part); real parameters and coefficients -/
theorem twoLocal_star (I : R) (hI : star I = -I) (d : Nat) (coefS : Nat → Nat → R) (idxS : Nat → Nat → Nat) (coefK : Nat → Nat → R)
    (idxK : Nat → Nat → Nat) (M : Nat → Nat → R) (hM : ∀ a b, star (M a b) = M a b)
    (hcS : ∀ a q, star (coefS a q) = coefS a q) (hcK : ∀ a q, star (coefK a q) = coefK a q)
    (h1 : ∀ r c q, coefS (idxS c r) q = coefS (idxS r c) q) (h2 : ∀ r c q, coefK (idxK c r) q = -coefK (idxK r c) q) (r c : Nat) :
    star (twoLocal I d coefS idxS coefK idxK M c r) = twoLocal I d coefS idxS coefK idxK M r c := by
  unfold twoLocal
  simp only [star_add, star_mul', hI, star_list_sum, List.map_map, Function.comp_def]
  have hp : ∀ (l : List (Nat × Nat)) (f : Nat × Nat → R) (q : Nat), (∀ x, star (f x) = f x) → star ((l.map f).getD q 0) = (l.map f).getD q 0 := by
    intro l f q hf
    rw [List.getD_eq_getElem?_getD, List.getElem?_map]
    cases l[q]? <;> simp [hf]
  have e1 : ∀ q, star ((List.map (fun x : Nat × Nat => M x.1 x.2) (triuPairs d)).getD q 0) = (List.map (fun x : Nat × Nat => M x.1 x.2) (triuPairs d)).getD q 0 :=
    fun q => hp _ _ q (fun x => hM _ _)
  have e2 : ∀ q, star ((List.map (fun x : Nat × Nat => M x.2 x.1) (triuStrict d)).getD q 0) = (List.map (fun x : Nat × Nat => M x.2 x.1) (triuStrict d)).getD q 0 :=
    fun q => hp _ _ q (fun x => hM _ _)
  simp only [hcS, hcK, e1, e2, h1 r c, h2 r c, neg_mul, star_neg]
  have hneg : ∀ (l : List Nat) (g : Nat → R), (l.map fun q => -(g q)).sum = -(l.map g).sum := by
    intro l g
    induction l with
    | nil => simp
    | cons a t ih => simp [ih]; ring
  rw [hneg]; ring

/-! ### round 6: `to_AB` and the table-free form of `ABk2localHermitian.forward` -/

/-- `ABk2localHermitian.to_AB()` is Hermitian (real parameter matrix) -/
theorem toAB_star (I : R) (hI : star I = -I) (M : Nat → Nat → R) (hM : ∀ a b, star (M a b) = M a b) (r c : Nat) :
    star (toAB I M c r) = toAB I M r c := by
  unfold toAB
  rcases Nat.lt_trichotomy r c with h | h | h
  · have h' : ¬ c < r := by omega
    simp only [h, h', if_true, if_false, star_add, star_neg, star_mul', hI, hM]; ring
  · subst h; simp [hM]
  · have h' : ¬ r < c := by omega
    simp only [h, h', if_true, if_false, star_add, star_mul', hI, hM]; ring

theorem embed0_star (m : Nat) (H : Nat → Nat → R) (hH : ∀ r c, star (H c r) = H r c) (r c : Nat) :
    star (embed0 m H c r) = embed0 m H r c := by
  unfold embed0
  by_cases h : r % m = c % m
  · rw [if_pos h, if_pos h.symm, hH]
  · rw [if_neg h, if_neg (fun e => h e.symm), star_zero]

/-- **the sum over the `B` copies of the embedded `H_AB` is Hermitian** — no table hypotheses: this is the matrix that
`ABk2localHermitian.forward` is tied to (op `abk2sum`) -/
theorem sumEmbed_star (I : R) (hI : star I = -I) (dimB kext : Nat) (M : Nat → Nat → R) (hM : ∀ a b, star (M a b) = M a b) (r c : Nat) :
    star (sumEmbed I dimB kext M c r) = sumEmbed I dimB kext M r c := by
  unfold sumEmbed
  rw [star_list_sum, List.map_map]
  congr 1
  apply List.map_congr_left
  intro x _
  exact embed0_star _ _ (fun r c => toAB_star I hI M hM r c) _ _

theorem permIndex_one (dimB r : Nat) (hB : 0 < dimB) : permIndex dimB 1 0 0 r = r := by
  unfold permIndex
  simp [Nat.div_add_mod']

/-- for `kext = 1` the sum is `to_AB` itself -/
theorem sumEmbed_one (I : R) (dimB : Nat) (hB : 0 < dimB) (M : Nat → Nat → R) (r c : Nat) :
    sumEmbed I dimB 1 M r c = toAB I M r c := by
  unfold sumEmbed
  simp [permIndex_one dimB _ hB, embed0, Nat.mod_one]

/-- `embed0 m H` is `np.kron(H, eye(m))`: entry `(a·m + q, b·m + q')` is `H a b` when `q = q'` and `0` otherwise -/
theorem embed0_kron (m : Nat) (hm : 0 < m) (H : Nat → Nat → R) (a b q q' : Nat) (hq : q < m) (hq' : q' < m) :
    embed0 m H (a * m + q) (b * m + q') = if q = q' then H a b else 0 := by
  unfold embed0
  have e1 : (a * m + q) % m = q := by rw [Nat.mul_comm, Nat.mul_add_mod]; exact Nat.mod_eq_of_lt hq
  have e2 : (b * m + q') % m = q' := by rw [Nat.mul_comm, Nat.mul_add_mod]; exact Nat.mod_eq_of_lt hq'
  have d1 : (a * m + q) / m = a := by rw [Nat.mul_comm, Nat.mul_add_div hm, Nat.div_eq_of_lt hq, Nat.add_zero]
  have d2 : (b * m + q') / m = b := by rw [Nat.mul_comm, Nat.mul_add_div hm, Nat.div_eq_of_lt hq', Nat.add_zero]
  rw [e1, e2, d1, d2]

/-! ### `permIndex` is the exchange of two base-`dimB` digits; the two-local sum is invariant under it -/

/-- value of the digit string `e 0 … e (k-1)` (most significant first) in base `B` -/
def dval (B k : Nat) (e : Nat → Nat) : Nat := ((List.range k).map fun q => e q * B ^ (k - 1 - q)).sum

theorem dval_succ (B k : Nat) (e : Nat → Nat) : dval B (k + 1) e = e 0 * B ^ k + dval B k (fun q => e (q + 1)) := by
  unfold dval
  rw [List.range_succ_eq_map, List.map_cons, List.sum_cons, List.map_map]
  congr 1
  congr 1
  apply List.map_congr_left
  intro q _
  simp only [Function.comp, Nat.succ_eq_add_one]
  congr 2
  omega

theorem dval_lt (B : Nat) (k : Nat) (e : Nat → Nat) (he : ∀ q, q < k → e q < B) : dval B k e < B ^ k := by
  induction k generalizing e with
  | zero => simp [dval]
  | succ k ih =>
    rw [dval_succ]
    have h1 := ih (fun q => e (q + 1)) (fun q hq => he (q + 1) (by omega))
    have h2 : e 0 + 1 ≤ B := he 0 (by omega)
    calc e 0 * B ^ k + dval B k (fun q => e (q + 1)) < e 0 * B ^ k + B ^ k := by omega
      _ = (e 0 + 1) * B ^ k := by ring
      _ ≤ B * B ^ k := Nat.mul_le_mul_right _ h2
      _ = B ^ (k + 1) := by ring

/-- reading the digits back -/
theorem dval_div (B k a : Nat) (e : Nat → Nat) (he : ∀ q, q < k → e q < B) : (a * B ^ k + dval B k e) / B ^ k = a := by
  have hlt := dval_lt B k e he
  have hpos : 0 < B ^ k := by omega
  rw [Nat.mul_comm, Nat.mul_add_div hpos, Nat.div_eq_of_lt hlt, Nat.add_zero]

theorem dval_digit (B k a : Nat) (e : Nat → Nat) (he : ∀ q, q < k → e q < B) (q : Nat) (hq : q < k) :
    (a * B ^ k + dval B k e) / B ^ (k - 1 - q) % B = e q := by
  induction k generalizing a e q with
  | zero => omega
  | succ k ih =>
    rw [dval_succ]
    have e1 : a * B ^ (k + 1) + (e 0 * B ^ k + dval B k fun q => e (q + 1)) = (a * B + e 0) * B ^ k + dval B k (fun q => e (q + 1)) := by ring
    rw [e1]
    have he' : ∀ q, q < k → e (q + 1) < B := fun q hq => he (q + 1) (by omega)
    cases q with
    | zero =>
      simp only [Nat.add_sub_cancel, Nat.sub_zero]
      rw [dval_div B k _ _ he']
      have : e 0 < B := he 0 (by omega)
      rw [Nat.mul_comm a B, Nat.mul_add_mod, Nat.mod_eq_of_lt this]
    | succ q =>
      have : k + 1 - 1 - (q + 1) = k - 1 - q := by omega
      rw [this]
      exact ih (a * B + e 0) (fun q => e (q + 1)) he' q (by omega)

/-- a number is the value of its own digits -/
theorem dval_self (B k r : Nat) : r / B ^ k * B ^ k + dval B k (fun q => r / B ^ (k - 1 - q) % B) = r := by
  induction k generalizing r with
  | zero => simp [dval]
  | succ k ih =>
    rw [dval_succ]
    simp only [Nat.add_sub_cancel, Nat.sub_zero]
    have hfun : (fun q => r / B ^ (k - (q + 1)) % B) = fun q => r / B ^ (k - 1 - q) % B := by
      funext q; congr 3; omega
    rw [hfun]
    have h1 := ih r
    have h2 : r / B ^ (k + 1) * B ^ (k + 1) + r / B ^ k % B * B ^ k = r / B ^ k * B ^ k := by
      have : r / B ^ (k + 1) = r / B ^ k / B := by rw [pow_succ, Nat.div_div_eq_div_mul]
      rw [this, pow_succ]
      have := Nat.div_add_mod (r / B ^ k) B
      calc r / B ^ k / B * (B ^ k * B) + r / B ^ k % B * B ^ k = (B * (r / B ^ k / B) + r / B ^ k % B) * B ^ k := by ring
        _ = r / B ^ k * B ^ k := by rw [this]
    omega

/-- digit of copy `B_q` (most significant first) and the exchange of two copies -/
def digit (B k r q : Nat) : Nat := r / B ^ (k - 1 - q) % B
def swapIdx (i j q : Nat) : Nat := if q = i then j else if q = j then i else q

theorem swapIdx_swapIdx (i j q : Nat) : swapIdx i j (swapIdx i j q) = q := by
  unfold swapIdx; split_ifs <;> omega
theorem swapIdx_lt {i j q k : Nat} (hi : i < k) (hj : j < k) (hq : q < k) : swapIdx i j q < k := by
  unfold swapIdx; split_ifs <;> omega

/-- `permIndex` is: keep the `A` part, exchange digits `i` and `j` -/
theorem permIndex_eq (B k i j r : Nat) :
    permIndex B k i j r = r / B ^ k * B ^ k + dval B k (fun q => digit B k r (swapIdx i j q)) := rfl

theorem digit_lt (B k r q : Nat) (hB : 0 < B) : digit B k r q < B := Nat.mod_lt _ hB

theorem permIndex_div (B k i j r : Nat) (hB : 0 < B) : permIndex B k i j r / B ^ k = r / B ^ k := by
  rw [permIndex_eq]; exact dval_div B k _ _ (fun q _ => digit_lt B k r _ hB)

/-- **the digits of `permIndex … r` are the digits of `r` with positions `i`, `j` exchanged** -/
theorem permIndex_digit (B k i j r q : Nat) (hB : 0 < B) (hq : q < k) :
    digit B k (permIndex B k i j r) q = digit B k r (swapIdx i j q) := by
  unfold digit
  rw [permIndex_eq]
  exact dval_digit B k _ _ (fun q _ => digit_lt B k r _ hB) q hq

/-- it maps the index range `dimA · dimB^kext` into itself -/
theorem permIndex_lt (dimA B k i j r : Nat) (hB : 0 < B) (hr : r < dimA * B ^ k) : permIndex B k i j r < dimA * B ^ k := by
  have hpos : 0 < B ^ k := Nat.pos_of_ne_zero (by positivity)
  have ha : r / B ^ k < dimA := by rw [Nat.div_lt_iff_lt_mul hpos]; exact hr
  rw [permIndex_eq]
  have := dval_lt B k (fun q => digit B k r (swapIdx i j q)) (fun q _ => digit_lt B k r _ hB)
  calc r / B ^ k * B ^ k + dval B k _ < r / B ^ k * B ^ k + B ^ k := by omega
    _ = (r / B ^ k + 1) * B ^ k := by ring
    _ ≤ dimA * B ^ k := Nat.mul_le_mul_right _ ha

/-- **the exchange of two `B` copies is an involution** -/
theorem permIndex_involutive (B k i j r : Nat) (hB : 0 < B) (hi : i < k) (hj : j < k) :
    permIndex B k i j (permIndex B k i j r) = r := by
  rw [permIndex_eq (r := permIndex B k i j r), permIndex_div B k i j r hB]
  have hd : dval B k (fun q => digit B k (permIndex B k i j r) (swapIdx i j q)) = dval B k (fun q => digit B k r q) := by
    unfold dval
    congr 1
    apply List.map_congr_left
    intro q hq
    have hq' : q < k := List.mem_range.1 hq
    show digit B k (permIndex B k i j r) (swapIdx i j q) * _ = digit B k r q * _
    rw [permIndex_digit B k i j r _ hB (swapIdx_lt hi hj hq'), swapIdx_swapIdx]
  rw [hd]
  exact dval_self B k r


/-- `H` acting on `A` and on copy `B_x`, identity on the other copies: the closed form of one term of `sumEmbed` -/
def act (B k : Nat) (H : Nat → Nat → R) (x r c : Nat) : R :=
  if ∀ p, p < k → p ≠ x → digit B k r p = digit B k c p then H (r / B ^ k * B + digit B k r x) (c / B ^ k * B + digit B k c x) else 0

theorem div_pow_pred (B k N : Nat) (hk : 1 ≤ k) : N / B ^ (k - 1) = N / B ^ k * B + digit B k N 0 := by
  unfold digit
  obtain ⟨k, rfl⟩ : ∃ k', k = k' + 1 := ⟨k - 1, by omega⟩
  simp only [Nat.add_sub_cancel, Nat.sub_zero]
  rw [pow_succ, ← Nat.div_div_eq_div_mul, Nat.mul_comm]
  exact (Nat.div_add_mod _ _).symm

theorem mod_pow_pred (B k N : Nat) (hB : 0 < B) : N % B ^ (k - 1) = dval B (k - 1) (fun q => digit B k N (q + 1)) := by
  have h := dval_self B (k - 1) N
  have hfun : (fun q => N / B ^ (k - 1 - 1 - q) % B) = fun q => digit B k N (q + 1) := by
    funext q; unfold digit; congr 3; omega
  rw [hfun] at h
  have hlt := dval_lt B (k - 1) (fun q => digit B k N (q + 1)) (fun q _ => digit_lt B k N _ hB)
  conv_lhs => rw [← h]
  rw [Nat.mul_comm, Nat.mul_add_mod, Nat.mod_eq_of_lt hlt]

theorem dval_inj (B k : Nat) (e e' : Nat → Nat) (he : ∀ q, q < k → e q < B) (he' : ∀ q, q < k → e' q < B)
    (h : dval B k e = dval B k e') : ∀ q, q < k → e q = e' q := by
  intro q hq
  have h1 := dval_digit B k 0 e he q hq
  have h2 := dval_digit B k 0 e' he' q hq
  rw [Nat.zero_mul, Nat.zero_add] at h1 h2
  rw [← h1, ← h2, h]

theorem dval_congr (B k : Nat) (e e' : Nat → Nat) (h : ∀ q, q < k → e q = e' q) : dval B k e = dval B k e' := by
  unfold dval; congr 1; apply List.map_congr_left; intro q hq; rw [h q (List.mem_range.1 hq)]

/-- **one term of `sumEmbed` is `H_AB` acting on `A` and on copy `B_x`** -/
theorem embed0_permIndex (B k : Nat) (hB : 0 < B) (H : Nat → Nat → R) (x : Nat) (hx : x < k) (r c : Nat) :
    embed0 (B ^ (k - 1)) H (permIndex B k 0 x r) (permIndex B k 0 x c) = act B k H x r c := by
  have hk : 1 ≤ k := by omega
  unfold embed0 act
  rw [mod_pow_pred B k _ hB, mod_pow_pred B k _ hB, div_pow_pred B k _ hk, div_pow_pred B k _ hk,
    permIndex_div B k 0 x r hB, permIndex_div B k 0 x c hB, permIndex_digit B k 0 x r 0 hB (by omega), permIndex_digit B k 0 x c 0 hB (by omega)]
  have hs0 : swapIdx 0 x 0 = x := by simp [swapIdx]
  rw [hs0]
  have hiff : (dval B (k - 1) (fun q => digit B k (permIndex B k 0 x r) (q + 1)) = dval B (k - 1) (fun q => digit B k (permIndex B k 0 x c) (q + 1)))
      ↔ ∀ p, p < k → p ≠ x → digit B k r p = digit B k c p := by
    constructor
    · intro h p hp hpx
      have hinj := dval_inj B (k - 1) _ _ (fun q _ => digit_lt B k _ _ hB) (fun q _ => digit_lt B k _ _ hB) h
      -- p = swapIdx 0 x (q+1) for q+1 = swapIdx 0 x p ≥ 1
      have hq1 : 1 ≤ swapIdx 0 x p := by
        unfold swapIdx; split_ifs <;> omega
      have hqk : swapIdx 0 x p < k := swapIdx_lt (by omega) hx hp
      have := hinj (swapIdx 0 x p - 1) (by omega)
      simp only [Nat.sub_add_cancel hq1] at this
      rw [permIndex_digit B k 0 x r _ hB hqk, permIndex_digit B k 0 x c _ hB hqk, swapIdx_swapIdx] at this
      exact this
    · intro h
      apply dval_congr
      intro q hq
      have hqk : q + 1 < k := by omega
      rw [permIndex_digit B k 0 x r _ hB hqk, permIndex_digit B k 0 x c _ hB hqk]
      apply h _ (swapIdx_lt (by omega) hx hqk)
      intro e; unfold swapIdx at e; split_ifs at e <;> omega
  by_cases h : ∀ p, p < k → p ≠ x → digit B k r p = digit B k c p
  · rw [if_pos (hiff.2 h), if_pos h]
  · rw [if_neg (fun e => h (hiff.1 e)), if_neg h]

theorem act_permIndex (B k : Nat) (hB : 0 < B) (H : Nat → Nat → R) (i j : Nat) (hi : i < k) (hj : j < k) (x : Nat) (hx : x < k) (r c : Nat) :
    act B k H x (permIndex B k i j r) (permIndex B k i j c) = act B k H (swapIdx i j x) r c := by
  unfold act
  rw [permIndex_div B k i j r hB, permIndex_div B k i j c hB, permIndex_digit B k i j r x hB hx, permIndex_digit B k i j c x hB hx]
  have hiff : (∀ p, p < k → p ≠ x → digit B k (permIndex B k i j r) p = digit B k (permIndex B k i j c) p)
      ↔ ∀ p, p < k → p ≠ swapIdx i j x → digit B k r p = digit B k c p := by
    constructor
    · intro h p hp hne
      have hpk := swapIdx_lt hi hj hp
      have := h (swapIdx i j p) hpk (fun e => hne (by rw [← e, swapIdx_swapIdx]))
      rwa [permIndex_digit B k i j r _ hB hpk, permIndex_digit B k i j c _ hB hpk, swapIdx_swapIdx] at this
    · intro h p hp hne
      rw [permIndex_digit B k i j r _ hB hp, permIndex_digit B k i j c _ hB hp]
      exact h _ (swapIdx_lt hi hj hp) (fun e => hne (by rw [← swapIdx_swapIdx i j p, e, swapIdx_swapIdx]))
  by_cases h : ∀ p, p < k → p ≠ swapIdx i j x → digit B k r p = digit B k c p
  · rw [if_pos (hiff.2 h), if_pos h]
  · rw [if_neg (fun e => h (hiff.1 e)), if_neg h]

theorem list_range_sum (k : Nat) (f : Nat → R) : ((List.range k).map f).sum = ∑ x ∈ Finset.range k, f x := by
  induction k with
  | zero => simp
  | succ k ih => rw [List.range_succ, List.map_append, List.sum_append, ih, Finset.sum_range_succ]; simp

/-- `sumEmbed` is the sum over the copies of `H_AB` acting on `A ⊗ B_x` -/
theorem sumEmbed_eq_act (I : R) (B k : Nat) (hB : 0 < B) (M : Nat → Nat → R) (r c : Nat) :
    sumEmbed I B k M r c = ∑ x ∈ Finset.range k, act B k (toAB I M) x r c := by
  unfold sumEmbed
  rw [list_range_sum]
  exact Finset.sum_congr rfl (fun x hx => embed0_permIndex B k hB _ x (Finset.mem_range.1 hx) r c)

/-- **the two-local sum is invariant under the exchange of any two `B` copies** (the defining symmetry of the `k`-extension) -/
theorem sumEmbed_permIndex (I : R) (B k : Nat) (hB : 0 < B) (M : Nat → Nat → R) (i j : Nat) (hi : i < k) (hj : j < k) (r c : Nat) :
    sumEmbed I B k M (permIndex B k i j r) (permIndex B k i j c) = sumEmbed I B k M r c := by
  rw [sumEmbed_eq_act I B k hB, sumEmbed_eq_act I B k hB]
  refine Finset.sum_nbij' (swapIdx i j) (swapIdx i j) ?_ ?_ ?_ ?_ ?_
  · intro x hx; exact Finset.mem_range.2 (swapIdx_lt hi hj (Finset.mem_range.1 hx))
  · intro x hx; exact Finset.mem_range.2 (swapIdx_lt hi hj (Finset.mem_range.1 hx))
  · intro x _; exact swapIdx_swapIdx i j x
  · intro x _; exact swapIdx_swapIdx i j x
  · intro x hx; exact act_permIndex B k hB _ i j hi hj x (Finset.mem_range.1 hx) r c

end Numqi.Manifold.ABk
