/- C01: the symmetric-extension Hermitian manifolds of `_ABk.py` (index bookkeeping). -/
import Mathlib.Tactic
import Mathlib.Algebra.Star.Basic
import Mathlib.Algebra.BigOperators.Group.List.Basic
import NumqiModel.Manifold

namespace Numqi.Manifold.ABk

variable {R : Type} [CommRing R] [StarRing R]

/-- `ABkHermitian.forward` is Hermitian when `index_sym`, `index_skew` are symmetric and `factor_skew` antisymmetric
(real parameters, real factors) -/
theorem hermitian_star (I : R) (hI : star I = -I) (idxSym idxSkew : Nat → Nat → Nat) (fac : Nat → Nat → R)
    (θsym θskew : Nat → R) (hs : ∀ q, star (θsym q) = θsym q) (hk : ∀ q, star (θskew q) = θskew q)
    (hf : ∀ r c, star (fac r c) = fac r c)
    (h1 : ∀ r c, idxSym r c = idxSym c r) (h2 : ∀ r c, idxSkew r c = idxSkew c r) (h3 : ∀ r c, fac r c = -fac c r) (r c : Nat) :
    star (hermitian I idxSym idxSkew fac θsym θskew c r) = hermitian I idxSym idxSkew fac θsym θskew r c := by
  unfold hermitian
  rw [h1 c r, h2 c r, h3 r c]
  simp only [star_add, star_mul', hI, hs, hf]
  split_ifs <;> simp [hk]

/-- invariance under any index map that preserves the three tables (the exchanges of two `B` copies) -/
theorem hermitian_perm (I : R) (idxSym idxSkew : Nat → Nat → Nat) (fac : Nat → Nat → R) (θsym θskew : Nat → R) (π : Nat → Nat)
    (h1 : ∀ r c, idxSym (π r) (π c) = idxSym r c) (h2 : ∀ r c, idxSkew (π r) (π c) = idxSkew r c)
    (h3 : ∀ r c, fac (π r) (π c) = fac r c) (r c : Nat) :
    hermitian I idxSym idxSkew fac θsym θskew (π r) (π c) = hermitian I idxSym idxSkew fac θsym θskew r c := by
  unfold hermitian; rw [h1, h2, h3]

theorem star_list_sum (l : List R) : star l.sum = (l.map star).sum := by
  induction l with
  | nil => simp
  | cons a t ih => simp [ih]

/-- `ABk2localHermitian.forward` is Hermitian when the coefficient rows addressed by `(r,c)` and `(c,r)` agree (symmetric part) resp.
are opposite (skew part); real parameters and coefficients -/
theorem twoLocal_star (I : R) (hI : star I = -I) (d : Nat) (coefS : Nat → Nat → R) (idxS : Nat → Nat → Nat) (coefK : Nat → Nat → R)
    (idxK : Nat → Nat → Nat) (M : Nat → Nat → R) (hM : ∀ a b, star (M a b) = M a b)
    (hcS : ∀ a q, star (coefS a q) = coefS a q) (hcK : ∀ a q, star (coefK a q) = coefK a q)
    (h1 : ∀ r c q, coefS (idxS c r) q = coefS (idxS r c) q) (h2 : ∀ r c q, coefK (idxK c r) q = -coefK (idxK r c) q) (r c : Nat) :
    star (twoLocal I d coefS idxS coefK idxK M c r) = twoLocal I d coefS idxS coefK idxK M r c := by
  unfold twoLocal
  simp only [star_add, star_mul', hI, star_list_sum, List.map_map, Function.comp_def]
  have hp : ∀ (l : List (Nat × Nat)) (f : Nat × Nat → R) (q : Nat), (∀ x, star (f x) = f x) → star ((l.map f).getD q 0) = (l.map f).getD q 0 := by
    intro l f q hf
    rw [List.getD_eq_getElem?_getD, List.getElem?_map]
    cases l[q]? <;> simp [hf]
  have e1 : ∀ q, star ((List.map (fun x : Nat × Nat => M x.1 x.2) (triuPairs d)).getD q 0) = (List.map (fun x : Nat × Nat => M x.1 x.2) (triuPairs d)).getD q 0 :=
    fun q => hp _ _ q (fun x => hM _ _)
  have e2 : ∀ q, star ((List.map (fun x : Nat × Nat => M x.2 x.1) (triuStrict d)).getD q 0) = (List.map (fun x : Nat × Nat => M x.2 x.1) (triuStrict d)).getD q 0 :=
    fun q => hp _ _ q (fun x => hM _ _)
  simp only [hcS, hcK, e1, e2, h1 r c, h2 r c, neg_mul, star_neg]
  have hneg : ∀ (l : List Nat) (g : Nat → R), (l.map fun q => -(g q)).sum = -(l.map g).sum := by
    intro l g
    induction l with
    | nil => simp
    | cons a t ih => simp [ih]; ring
  rw [hneg]; ring

/-! ### round 6: `to_AB` and the table-free form of `ABk2localHermitian.forward` -/

/-- `ABk2localHermitian.to_AB()` is Hermitian (real parameter matrix) -/
theorem toAB_star (I : R) (hI : star I = -I) (M : Nat → Nat → R) (hM : ∀ a b, star (M a b) = M a b) (r c : Nat) :
    star (toAB I M c r) = toAB I M r c := by
  unfold toAB
  rcases Nat.lt_trichotomy r c with h | h | h
  · have h' : ¬ c < r := by omega
    simp only [h, h', if_true, if_false, star_add, star_neg, star_mul', hI, hM]; ring
  · subst h; simp [hM]
  · have h' : ¬ r < c := by omega
    simp only [h, h', if_true, if_false, star_add, star_mul', hI, hM]; ring

theorem embed0_star (m : Nat) (H : Nat → Nat → R) (hH : ∀ r c, star (H c r) = H r c) (r c : Nat) :
    star (embed0 m H c r) = embed0 m H r c := by
  unfold embed0
  by_cases h : r % m = c % m
  · rw [if_pos h, if_pos h.symm, hH]
  · rw [if_neg h, if_neg (fun e => h e.symm), star_zero]

/-- **the sum over the `B` copies of the embedded `H_AB` is Hermitian** — no table hypotheses: this is the matrix that
`ABk2localHermitian.forward` is tied to (op `abk2sum`) -/
theorem sumEmbed_star (I : R) (hI : star I = -I) (dimB kext : Nat) (M : Nat → Nat → R) (hM : ∀ a b, star (M a b) = M a b) (r c : Nat) :
    star (sumEmbed I dimB kext M c r) = sumEmbed I dimB kext M r c := by
  unfold sumEmbed
  rw [star_list_sum, List.map_map]
  congr 1
  apply List.map_congr_left
  intro x _
  exact embed0_star _ _ (fun r c => toAB_star I hI M hM r c) _ _

theorem permIndex_one (dimB r : Nat) (hB : 0 < dimB) : permIndex dimB 1 0 0 r = r := by
  unfold permIndex
  simp [Nat.div_add_mod']

/-- for `kext = 1` the sum is `to_AB` itself -/
theorem sumEmbed_one (I : R) (dimB : Nat) (hB : 0 < dimB) (M : Nat → Nat → R) (r c : Nat) :
    sumEmbed I dimB 1 M r c = toAB I M r c := by
  unfold sumEmbed
  simp [permIndex_one dimB _ hB, embed0, Nat.mod_one]

/-- `embed0 m H` is `np.kron(H, eye(m))`: entry `(a·m + q, b·m + q')` is `H a b` when `q = q'` and `0` otherwise -/
theorem embed0_kron (m : Nat) (hm : 0 < m) (H : Nat → Nat → R) (a b q q' : Nat) (hq : q < m) (hq' : q' < m) :
    embed0 m H (a * m + q) (b * m + q') = if q = q' then H a b else 0 := by
  unfold embed0
  have e1 : (a * m + q) % m = q := by rw [Nat.mul_comm, Nat.mul_add_mod]; exact Nat.mod_eq_of_lt hq
  have e2 : (b * m + q') % m = q' := by rw [Nat.mul_comm, Nat.mul_add_mod]; exact Nat.mod_eq_of_lt hq'
  have d1 : (a * m + q) / m = a := by rw [Nat.mul_comm, Nat.mul_add_div hm, Nat.div_eq_of_lt hq, Nat.add_zero]
  have d2 : (b * m + q') / m = b := by rw [Nat.mul_comm, Nat.mul_add_div hm, Nat.div_eq_of_lt hq', Nat.add_zero]
  rw [e1, e2, d1, d2]

end Numqi.Manifold.ABk
