/- C01: the symmetric-extension Hermitian manifolds of `_ABk.py` (index bookkeeping). -/
import Mathlib.Tactic
import Mathlib.Algebra.Star.Basic
import Mathlib.Algebra.BigOperators.Group.List.Basic
import NumqiModel.Manifold

namespace Numqi.Manifold.ABk

variable {R : Type} [CommRing R] [StarRing R]

/-- `ABkHermitian.forward` is Hermitian when `index_sym`, `index_skew` are symmetric and `factor_skew` antisymmetric
(real parameters, real factors) -/
theorem hermitian_star (I : R) (hI : star I = -I) (idxSym idxSkew : Nat → Nat → Nat) (fac : Nat → Nat → R)
    (θsym θskew : Nat → R) (hs : ∀ q, star (θsym q) = θsym q) (hk : ∀ q, star (θskew q) = θskew q)
    (hf : ∀ r c, star (fac r c) = fac r c)
    (h1 : ∀ r c, idxSym r c = idxSym c r) (h2 : ∀ r c, idxSkew r c = idxSkew c r) (h3 : ∀ r c, fac r c = -fac c r) (r c : Nat) :
    star (hermitian I idxSym idxSkew fac θsym θskew c r) = hermitian I idxSym idxSkew fac θsym θskew r c := by
  unfold hermitian
  rw [h1 c r, h2 c r, h3 r c]
  simp only [star_add, star_mul', hI, hs, hf]
  split_ifs <;> simp [hk]

/-- invariance under any index map that preserves the three tables (the exchanges of two `B` copies) -/
theorem hermitian_perm (I : R) (idxSym idxSkew : Nat → Nat → Nat) (fac : Nat → Nat → R) (θsym θskew : Nat → R) (π : Nat → Nat)
    (h1 : ∀ r c, idxSym (π r) (π c) = idxSym r c) (h2 : ∀ r c, idxSkew (π r) (π c) = idxSkew r c)
    (h3 : ∀ r c, fac (π r) (π c) = fac r c) (r c : Nat) :
    hermitian I idxSym idxSkew fac θsym θskew (π r) (π c) = hermitian I idxSym idxSkew fac θsym θskew r c := by
  unfold hermitian; rw [h1, h2, h3]

theorem star_list_sum (l : List R) : star l.sum = (l.map star).sum := by
  induction l with
  | nil => simp
  | cons a t ih => simp [ih]

/-- `ABk2localHermitian.forward` is Hermitian when the coefficient rows addressed by `(r,c)` and `(c,r)` agree (symmetric part) resp.
are opposite (skew part); real parameters and coefficients -/
theorem twoLocal_star (I : R) (hI : star I = -I) (d : Nat) (coefS : Nat → Nat → R) (idxS : Nat → Nat → Nat) (coefK : Nat → Nat → R)
    (idxK : Nat → Nat → Nat) (M : Nat → Nat → R) (hM : ∀ a b, star (M a b) = M a b)
    (hcS : ∀ a q, star (coefS a q) = coefS a q) (hcK : ∀ a q, star (coefK a q) = coefK a q)
    (h1 : ∀ r c q, coefS (idxS c r) q = coefS (idxS r c) q) (h2 : ∀ r c q, coefK (idxK c r) q = -coefK (idxK r c) q) (r c : Nat) :
    star (twoLocal I d coefS idxS coefK idxK M c r) = twoLocal I d coefS idxS coefK idxK M r c := by
  unfold twoLocal
  simp only [star_add, star_mul', hI, star_list_sum, List.map_map, Function.comp_def]
  have hp : ∀ (l : List (Nat × Nat)) (f : Nat × Nat → R) (q : Nat), (∀ x, star (f x) = f x) → star ((l.map f).getD q 0) = (l.map f).getD q 0 := by
    intro l f q hf
    rw [List.getD_eq_getElem?_getD, List.getElem?_map]
    cases l[q]? <;> simp [hf]
  have e1 : ∀ q, star ((List.map (fun x : Nat × Nat => M x.1 x.2) (triuPairs d)).getD q 0) = (List.map (fun x : Nat × Nat => M x.1 x.2) (triuPairs d)).getD q 0 :=
    fun q => hp _ _ q (fun x => hM _ _)
  have e2 : ∀ q, star ((List.map (fun x : Nat × Nat => M x.2 x.1) (triuStrict d)).getD q 0) = (List.map (fun x : Nat × Nat => M x.2 x.1) (triuStrict d)).getD q 0 :=
    fun q => hp _ _ q (fun x => hM _ _)
  simp only [hcS, hcK, e1, e2, h1 r c, h2 r c, neg_mul, star_neg]
  have hneg : ∀ (l : List Nat) (g : Nat → R), (l.map fun q => -(g q)).sum = -(l.map g).sum := by
    intro l g
    induction l with
    | nil => simp
    | cons a t ih => simp [ih]; ring
  rw [hneg]; ring
