/-
Gell-Mann model, part 3: coefficients = inner products, round trips, injectivity, Parseval, density-matrix helpers.
-/
import NumqiProofs.GellmannSynthesis
namespace Numqi.Gellmann
open Matrix
variable {R : Type} [CommRing R] [StarRing R] {d : Nat}

/-- coefficient `a` of `matrix_to_gellmann_basis(A)` -/
def coef (S : Scalars R) (d : Nat) (A : Mat d R) (a : Nat) : R := (analysis S d A).getD a 0

theorem coef_eq_inner (S : Scalars R) (hS : S.Valid d) (hd : 1 ≤ d) (A : Mat d R) {a : Nat} (ha : a < d * d) :
    coef S d A a = S.half * trace (basis S d a * Matrix.of A) := by
  obtain ⟨k, hk, _, hk2, ek⟩ := basis_eq S hd ha
  rw [ek, ← coefK_eq S hS A (kinds_wf hk), coef, analysis_eq_map, List.getD_eq_getElem?_getD, List.getElem?_map, hk2]
  rfl

theorem coef_pos (S : Scalars R) (A : Mat d R) {k : Kind d} (hk : k ∈ kinds d) : coef S d A k.pos = coefK S A k := by
  rw [coef, analysis_eq_map, List.getD_eq_getElem?_getD, List.getElem?_map, ← idxOf_kinds hk, List.getElem?_idxOf hk]
  rfl

theorem length_analysis (S : Scalars R) (hd : 1 ≤ d) (A : Mat d R) : (analysis S d A).length = d * d := by
  rw [analysis_eq_map, List.length_map, length_kinds hd]

theorem coef_synthesis (S : Scalars R) (hS : S.Valid d) (hd : 1 ≤ d) (v : Nat → R) {a : Nat} (ha : a < d * d) :
    coef S d (synthesis S d v) a = v a := by
  rw [coef_eq_inner S hS hd _ ha, synthesis_eq_sum' S hd v, Finset.mul_sum, trace_sum, Finset.mul_sum]
  rw [Finset.sum_eq_single a]
  · rw [Matrix.mul_smul, trace_smul, basis_orthogonal S hS hd ha ha, if_pos rfl, smul_eq_mul]
    linear_combination (v a) * hS.half_two
  · intro b hb hba
    rw [Finset.mem_range] at hb
    rw [Matrix.mul_smul, trace_smul, basis_orthogonal S hS hd ha hb, if_neg (Ne.symm hba)]; simp
  · intro h; exact absurd (Finset.mem_range.2 ha) h

theorem mem_kinds_of_wf {k : Kind d} (hd : 1 ≤ d) (hk : k.WF) : k ∈ kinds d := by
  cases k with
  | sym p => simp [kinds, mem_pairs]; exact hk
  | asym p => simp [kinds, mem_pairs]; exact hk
  | diag k => simp [kinds, mem_diagIdx]; exact hk
  | ident => simp [kinds]

theorem pos_lt {k : Kind d} (hd : 1 ≤ d) (hk : k ∈ kinds d) : k.pos < d * d := by
  rw [← idxOf_kinds hk, ← length_kinds hd]; exact List.idxOf_lt_length_of_mem hk

/-- partial sums of the diagonal -/
def psum (x : Fin d → R) (m : Nat) : R := ∑ r : Fin d, if r.val < m then x r else 0

omit [StarRing R] in
theorem psum_succ (x : Fin d → R) (m : Fin d) : psum x (m.val + 1) = psum x m.val + x m := by
  unfold psum
  have : ∀ r : Fin d, (if r.val < m.val + 1 then x r else 0) = (if r.val < m.val then x r else 0) + (if r = m then x r else 0) := by
    intro r
    by_cases h1 : r.val < m.val
    · have : r ≠ m := fun e => by rw [e] at h1; exact lt_irrefl _ h1
      have h2 : r.val < m.val + 1 := by omega
      simp [h1, h2, this]
    · by_cases h2 : r = m
      · subst h2; simp
      · have : ¬ r.val < m.val + 1 := fun h => h2 (Fin.ext (by omega))
        simp [h1, h2, this]
  simp only [this, Finset.sum_add_distrib, Finset.sum_ite_eq', Finset.mem_univ, if_true]

omit [StarRing R] in
theorem psum_zero (x : Fin d → R) : psum x 0 = 0 := by simp [psum]

omit [StarRing R] in
theorem psum_full (x : Fin d → R) : psum x d = ∑ r, x r := by
  unfold psum; exact Finset.sum_congr rfl (fun r _ => by simp [r.isLt])

/-- **the coefficient map is injective** (all coefficients zero ⇒ the matrix is zero) -/
theorem coef_injective (S : Scalars R) (hS : S.Valid d) (hd : 1 ≤ d) (A : Mat d R)
    (h : ∀ a, a < d * d → coef S d A a = 0) : ∀ r c, A r c = 0 := by
  have hK : ∀ k : Kind d, k.WF → coefK S A k = 0 := fun k hk => by
    have hm := mem_kinds_of_wf hd hk
    rw [← coef_pos S A hm]; exact h _ (pos_lt hd hm)
  have hh := hS.half_two
  have hI := hS.I_sq
  -- off-diagonal entries
  have hoff : ∀ i j : Fin d, i < j → A i j = 0 ∧ A j i = 0 := by
    intro i j hij
    have h1 := hK (Kind.sym (i, j)) hij
    have h2 := hK (Kind.asym (i, j)) hij
    simp only [coefK] at h1 h2
    constructor
    · linear_combination h1 - S.I * h2 + (A i j - A j i) * S.half * hI - A i j * hh
    · linear_combination h1 + S.I * h2 - (A i j - A j i) * S.half * hI - A j i * hh
  -- diagonal
  set x : Fin d → R := fun r => A r r with hx
  have hdiag : ∀ k : Fin d, 0 < k.val → psum x k.val = (k.val : R) * x k := by
    intro k hk
    have h1 := hK (Kind.diag k) hk
    simp only [coefK, sum_filter_lt, hS.aD_eq] at h1
    have h2 := hS.cD_sq k.val hk k.isLt
    have : psum x k.val - (k.val : R) * x k = 0 := by
      unfold psum
      linear_combination (S.cD k.val * ((k.val : R) * ((k.val : R) + 1))) * h1
        - ((∑ r : Fin d, if r.val < k.val then x r else 0) - (k.val : R) * x k) * S.half * h2
        - ((∑ r : Fin d, if r.val < k.val then x r else 0) - (k.val : R) * x k) * hh
    linear_combination this
  have htr : psum x d = 0 := by
    have h1 := hK Kind.ident trivial
    simp only [coefK, sumFin_eq, hS.aI_eq] at h1
    rw [psum_full]
    linear_combination (S.cI * (d : R)) * h1 - (∑ r, x r) * S.half * hS.cI_sq - (∑ r, x r) * hh
  -- downward induction: all partial sums from 1 on vanish
  have hps : ∀ j : Nat, j + 1 ≤ d → psum x (d - j) = 0 := by
    intro j
    induction j with
    | zero => intro _; simpa using htr
    | succ j ih =>
      intro hj
      have ih' := ih (by omega)
      let m : Fin d := ⟨d - j - 1, by omega⟩
      have hm : 0 < m.val := by simp [m]; omega
      have e1 : d - j = m.val + 1 := by simp [m]; omega
      have e2 : d - (j + 1) = m.val := by simp [m]; omega
      rw [e1, psum_succ, hdiag m hm] at ih'
      rw [e2, hdiag m hm]
      have h2 := hS.cD_sq m.val hm m.isLt
      have : x m = 0 := by
        linear_combination (S.cD m.val * S.cD m.val * (m.val : R) * S.half) * ih' - x m * S.half * h2 - x m * hh
      rw [this]; ring
  have hxs : ∀ m : Fin d, x m = 0 := by
    intro m
    by_cases hm : 0 < m.val
    · have h1 := hps (d - (m.val + 1)) (by omega)
      have h2 := hps (d - m.val) (by omega)
      have e1 : d - (d - (m.val + 1)) = m.val + 1 := by omega
      have e2 : d - (d - m.val) = m.val := by omega
      rw [e1, psum_succ] at h1
      rw [e2] at h2
      linear_combination h1 - h2
    · have h1 := hps (d - 1) (by omega)
      have e1 : d - (d - 1) = m.val + 1 := by omega
      rw [e1, psum_succ] at h1
      have e0 : m.val = 0 := by omega
      rw [e0, psum_zero] at h1
      linear_combination h1
  intro r c
  rcases lt_trichotomy r c with h | h | h
  · exact (hoff r c h).1
  · subst h; exact hxs r
  · exact (hoff c r h).2

theorem coef_sub (S : Scalars R) (hS : S.Valid d) (hd : 1 ≤ d) (A B : Mat d R) {a : Nat} (ha : a < d * d) :
    coef S d (fun r c => A r c - B r c) a = coef S d A a - coef S d B a := by
  rw [coef_eq_inner S hS hd _ ha, coef_eq_inner S hS hd _ ha, coef_eq_inner S hS hd _ ha]
  have : (Matrix.of fun r c => A r c - B r c) = Matrix.of A - Matrix.of B := by ext r c; simp
  rw [this, Matrix.mul_sub, trace_sub]; ring

/-- **matrix → vector → matrix is the identity** -/
theorem synthesis_coef (S : Scalars R) (hS : S.Valid d) (hd : 1 ≤ d) (A : Mat d R) :
    synthesis S d (coef S d A) = A := by
  have := coef_injective S hS hd (fun r c => A r c - synthesis S d (coef S d A) r c) (fun a ha => by
    rw [coef_sub S hS hd _ _ ha, coef_synthesis S hS hd _ ha, sub_self])
  funext r c
  have := this r c
  exact (sub_eq_zero.1 this).symm

theorem basis_hermitian (S : Scalars R) (hS : S.Valid d) (hd : 1 ≤ d) {a : Nat} (ha : a < d * d) :
    (basis S d a)ᴴ = basis S d a := by
  obtain ⟨k, hk, _, _, ek⟩ := basis_eq S hd ha
  rw [ek]; exact mat_hermitian S hS (kinds_wf hk)

theorem basis_trace (S : Scalars R) (hd : 1 ≤ d) {a : Nat} (ha : a < d * d) :
    trace (basis S d a) = if a = d * d - 1 then (d : R) * S.cI else 0 := by
  obtain ⟨k, hk, hpos, _, ek⟩ := basis_eq S hd ha
  rw [ek, mat_trace S (kinds_wf hk)]
  have hid : (Kind.ident (d := d)).pos = d * d - 1 := by
    have := length_kinds hd
    simp only [kinds, List.length_append, List.length_map, List.length_singleton, length_diagIdx] at this
    simp only [Kind.pos]; omega
  by_cases h : k = Kind.ident
  · subst h; rw [if_pos rfl, if_pos (hpos.symm.trans hid)]
  · rw [if_neg h, if_neg]
    intro e; apply h
    have h1 := idxOf_kinds hk
    have h2 := idxOf_kinds (mem_kinds_of_wf hd (k := Kind.ident) trivial)
    rw [hpos, e, ← hid, ← h2] at h1
    have := List.getElem_idxOf (List.idxOf_lt_length_of_mem hk)
    have := List.getElem_idxOf (List.idxOf_lt_length_of_mem (mem_kinds_of_wf hd (k := Kind.ident (d := d)) trivial))
    simp_all

/-- **Parseval**: `Σ_a conj(x_a) y_a = ½ tr(Aᴴ B)` for the coefficient vectors `x`, `y` of `A`, `B`. -/
theorem parseval (S : Scalars R) (hS : S.Valid d) (hd : 1 ≤ d) (A B : Mat d R) :
    ∑ a ∈ Finset.range (d * d), star (coef S d A a) * coef S d B a
      = S.half * trace ((Matrix.of A)ᴴ * Matrix.of B) := by
  have hA : Matrix.of A = ∑ a ∈ Finset.range (d * d), coef S d A a • basis S d a := by
    rw [← synthesis_eq_sum' S hd, synthesis_coef S hS hd]
  have hAH : (Matrix.of A)ᴴ = ∑ a ∈ Finset.range (d * d), star (coef S d A a) • basis S d a := by
    rw [hA, conjTranspose_sum]
    refine Finset.sum_congr rfl (fun a ha => ?_)
    rw [conjTranspose_smul, basis_hermitian S hS hd (Finset.mem_range.1 ha)]
  rw [hAH, Finset.sum_mul, trace_sum, Finset.mul_sum]
  refine Finset.sum_congr rfl (fun a ha => ?_)
  rw [Matrix.smul_mul, trace_smul, coef_eq_inner S hS hd B (Finset.mem_range.1 ha), smul_eq_mul]
  ring

/-- conjugation of the model = `star` -/
scoped instance starConj {R : Type} [Star R] : Conj R := ⟨star⟩

theorem conj_eq_star (x : R) : conj x = star x := rfl

theorem synthesis_congr (S : Scalars R) (hd : 1 ≤ d) {v w : Nat → R} (h : ∀ p, p < d * d → v p = w p) :
    synthesis S d v = synthesis S d w := by
  have : Matrix.of (synthesis S d v) = Matrix.of (synthesis S d w) := by
    rw [synthesis_eq_sum' S hd, synthesis_eq_sum' S hd]
    exact Finset.sum_congr rfl (fun a ha => by rw [h a (Finset.mem_range.1 ha)])
  exact Matrix.of.injective this

theorem coef_star_of_hermitian (S : Scalars R) (hS : S.Valid d) (hd : 1 ≤ d) (A : Mat d R)
    (hA : (Matrix.of A)ᴴ = Matrix.of A) {a : Nat} (ha : a < d * d) : star (coef S d A a) = coef S d A a := by
  rw [coef_eq_inner S hS hd _ ha, star_mul', hS.star_half, ← trace_conjTranspose, conjTranspose_mul, hA,
    basis_hermitian S hS hd ha, trace_mul_comm]

theorem half_frobenius (S : Scalars R) (X : Mat d R) :
    sumFin (fun r => sumFin fun c => conj (X r c) * X r c) * S.half = S.half * trace ((Matrix.of X)ᴴ * Matrix.of X) := by
  simp only [sumFin_eq, conj_eq_star, trace, diag_apply, Matrix.mul_apply, conjTranspose_apply, Matrix.of_apply]
  rw [Finset.sum_comm]; ring

/-- **squared distance = squared Euclidean distance of the coefficient vectors** -/
theorem distance2_eq_sum (S : Scalars R) (hS : S.Valid d) (hd : 1 ≤ d) (A B : Mat d R) :
    distance2 S d A B = ∑ a ∈ Finset.range (d * d), star (coef S d A a - coef S d B a) * (coef S d A a - coef S d B a) := by
  unfold distance2
  rw [half_frobenius S (fun r c => A r c - B r c), ← parseval S hS hd]
  exact Finset.sum_congr rfl (fun a ha => by rw [coef_sub S hS hd _ _ (Finset.mem_range.1 ha)])

theorem basis_last (S : Scalars R) (hd : 1 ≤ d) : basis S d (d * d - 1) = diagonal (fun _ => S.cI) := by
  have hlt : d * d - 1 < d * d := by have : 0 < d * d := Nat.mul_pos hd hd; omega
  obtain ⟨k, hk, hpos, hk2, ek⟩ := basis_eq S hd hlt
  have hid : (Kind.ident (d := d)).pos = d * d - 1 := by
    have := length_kinds hd
    simp only [kinds, List.length_append, List.length_map, List.length_singleton, length_diagIdx] at this
    simp only [Kind.pos]; omega
  have hmem := mem_kinds_of_wf hd (k := Kind.ident (d := d)) trivial
  have h2 := List.getElem?_idxOf hmem
  rw [idxOf_kinds hmem, hid, hk2] at h2
  rw [ek, Option.some.inj h2]
  exact G_ident S

/-- **`dm_to_gellmann_norm² = ` squared Euclidean norm of the Bloch vector** (all coefficients but the last) -/
theorem dmNorm2_eq_sum (S : Scalars R) (hS : S.Valid d) (hd : 1 ≤ d) (A : Mat d R) :
    dmNorm2 S d A = ∑ a ∈ Finset.range (d * d - 1), star (coef S d A a) * coef S d A a := by
  unfold dmNorm2
  simp only []
  set t : R := sumFin (fun l => A l l) * S.invD with ht
  rw [half_frobenius S (fun r c => A r c - (if r = c then t else 0)), ← parseval S hS hd]
  have hlt : d * d - 1 < d * d := by have : 0 < d * d := Nat.mul_pos hd hd; omega
  have hdd : d * d = (d * d - 1) + 1 := by omega
  have hX : ∀ a, a < d * d → coef S d (fun r c => A r c - (if r = c then t else 0)) a
      = coef S d A a - S.half * (t * trace (basis S d a)) := by
    intro a ha
    rw [coef_eq_inner S hS hd _ ha, coef_eq_inner S hS hd _ ha]
    have : (Matrix.of fun r c => A r c - (if r = c then t else 0)) = Matrix.of A - t • (1 : Matrix (Fin d) (Fin d) R) := by
      ext r c; simp [Matrix.one_apply]
    rw [this, Matrix.mul_sub, trace_sub, Matrix.mul_smul, trace_smul, Matrix.mul_one, smul_eq_mul]; ring
  rw [hdd, Finset.sum_range_succ]
  have hlast : coef S d (fun r c => A r c - (if r = c then t else 0)) (d * d - 1) = 0 := by
    rw [hX _ hlt, basis_trace S hd hlt, if_pos rfl, coef_eq_inner S hS hd _ hlt, basis_last S hd, tr_diagonal_mul]
    simp only [Matrix.of_apply, ← Finset.mul_sum, ht, sumFin_eq]
    linear_combination (- S.half * S.cI * ∑ r, A r r) * hS.invD_mul
  rw [hlast, mul_zero, add_zero]
  refine Finset.sum_congr rfl (fun a ha => ?_)
  have ha' : a < d * d := by have := Finset.mem_range.1 ha; omega
  have hne : a ≠ d * d - 1 := by have := Finset.mem_range.1 ha; omega
  rw [hX _ ha', basis_trace S hd ha', if_neg hne]; simp

theorem re_of_star_eq (S : Scalars R) (hS : S.Valid d) {x : R} (hx : star x = x) : re S x = x := by
  unfold re; rw [conj_eq_star, hx]; linear_combination x * hS.half_two

theorem ident_pos (hd : 1 ≤ d) : (Kind.ident (d := d)).pos = d * d - 1 := by
  have := length_kinds hd
  simp only [kinds, List.length_append, List.length_map, List.length_singleton, length_diagIdx] at this
  simp only [Kind.pos]; omega

theorem coef_last (S : Scalars R) (hd : 1 ≤ d) (A : Mat d R) : coef S d A (d * d - 1) = (∑ l, A l l) * S.aI := by
  rw [← ident_pos hd, coef_pos S A (mem_kinds_of_wf hd (k := Kind.ident) trivial)]
  simp [coefK, sumFin_eq]

theorem dmToVec_getD (S : Scalars R) (hd : 1 ≤ d) (A : Mat d R) {p : Nat} (hp : p < d * d - 1) :
    (dmToVec S d A false).getD p 0 = re S (coef S d A p) := by
  have hl := length_analysis S hd A
  simp only [dmToVec, Bool.false_eq_true, if_false, List.dropLast_eq_take, List.length_map, hl]
  rw [List.getD_eq_getElem?_getD, List.getElem?_take_of_lt hp, List.getElem?_map, coef, List.getD_eq_getElem?_getD]
  have : p < (analysis S d A).length := by omega
  rw [List.getElem?_eq_getElem this]; rfl

/-- real coefficients give a Hermitian matrix -/
theorem synthesis_hermitian (S : Scalars R) (hS : S.Valid d) (hd : 1 ≤ d) (v : Nat → R)
    (hv : ∀ a, a < d * d → star (v a) = v a) : (Matrix.of (synthesis S d v))ᴴ = Matrix.of (synthesis S d v) := by
  rw [synthesis_eq_sum' S hd, conjTranspose_sum]
  refine Finset.sum_congr rfl (fun a ha => ?_)
  rw [conjTranspose_smul, basis_hermitian S hS hd (Finset.mem_range.1 ha), hv a (Finset.mem_range.1 ha)]

/-- the trace sees only the last coefficient -/
theorem synthesis_trace (S : Scalars R) (hd : 1 ≤ d) (v : Nat → R) :
    trace (Matrix.of (synthesis S d v)) = v (d * d - 1) * ((d : R) * S.cI) := by
  rw [synthesis_eq_sum' S hd, trace_sum]
  have hlt : d * d - 1 < d * d := by have : 0 < d * d := Nat.mul_pos hd hd; omega
  rw [Finset.sum_eq_single (d * d - 1)]
  · rw [trace_smul, basis_trace S hd hlt, if_pos rfl, smul_eq_mul]
  · intro b hb hne
    rw [trace_smul, basis_trace S hd (Finset.mem_range.1 hb), if_neg hne, smul_zero]
  · intro h; exact absurd (Finset.mem_range.2 hlt) h

end Numqi.Gellmann
