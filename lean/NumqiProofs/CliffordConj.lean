/-
C07: from generators to all Paulis; Pauli matrices of scattered vectors; commuting with embedded gates.
-/
import NumqiProofs.CliffordEmbed
import NumqiProps.C08
import NumqiProps.C03

namespace Numqi.Clifford
open Numqi Matrix

/-! ### induction over the generators of the Pauli group -/

theorem lt_two_pow_of_testBit_false {v m : Nat} (h : v < 2 ^ (m + 1)) (hb : v.testBit m = false) : v < 2 ^ m := by
  apply Nat.lt_pow_two_of_testBit
  intro i hi
  by_cases e : i = m
  · subst e; exact hb
  · exact SpF2.testBit_eq_false_of_lt h (by omega)

theorem xor_pow_lt {v m : Nat} (h : v < 2 ^ (m + 1)) (hb : v.testBit m = true) : v ^^^ 2 ^ m < 2 ^ m := by
  apply Nat.lt_pow_two_of_testBit
  intro i hi
  rw [Nat.testBit_xor, Nat.testBit_two_pow]
  by_cases e : i = m
  · subst e; simp [hb]
  · have : ¬ m = i := fun h => e h.symm
    simp [this, SpF2.testBit_eq_false_of_lt h (by omega : m + 1 ≤ i)]

/-- the generator `X_k` (`k < n`) / `Z_{k-n}` (`n ≤ k < 2n`) -/
def gen (k : Nat) : PauliB := ⟨false, false, 2 ^ k⟩

theorem apply_phase_only (T : Tab) (s0 s1 : Bool) : applyOnPauli ⟨s0, s1, 0⟩ T = ⟨s0, s1, 0⟩ := by
  apply PauliB.ext_ph
  · rw [apply_v]; exact matVec_zero _ _
  · rw [apply_ph]; simp [Fph_zero]

/-- **a relation that holds on phases and generators and is multiplicative holds between every Pauli and its image
under a symplectic tableau** -/
theorem gen_induction (T : Tab) (hT : T.colSp = true) (C : PauliB → PauliB → Prop)
    (hmul : ∀ a a' b b', C a a' → C b b' → C (mulB T.n a b) (mulB T.n a' b'))
    (hph : ∀ s0 s1, C ⟨s0, s1, 0⟩ ⟨s0, s1, 0⟩)
    (hgen : ∀ k, k < 2 * T.n → C (gen k) (applyOnPauli (gen k) T)) :
    ∀ p : PauliB, p.v < 4 ^ T.n → C p (applyOnPauli p T) := by
  have key : ∀ m, m ≤ 2 * T.n → ∀ p : PauliB, p.v < 2 ^ m → C p (applyOnPauli p T) := by
    intro m
    induction m with
    | zero =>
      intro _ p hp
      have hv : p.v = 0 := by simpa using hp
      obtain ⟨s0, s1, v⟩ := p
      simp only at hv; subst hv
      rw [apply_phase_only]; exact hph s0 s1
    | succ m ih =>
      intro hm p hp
      by_cases hb : p.v.testBit m = true
      · set p' : PauliB := ⟨p.s0, p.s1, p.v ^^^ 2 ^ m⟩ with hp'
        have hv' : p'.v < 2 ^ m := xor_pow_lt hp hb
        have hom : om T.n p'.v (2 ^ m) = 0 := by
          rw [om_pow_right]
          have : p'.v.testBit (T.n + m) = false := SpF2.testBit_eq_false_of_lt hv' (by omega)
          simp [this]
        have hpe : p = mulB T.n p' (gen m) := by
          apply PauliB.ext_ph
          · rw [mulB_v]
            show p.v = (p.v ^^^ 2 ^ m) ^^^ 2 ^ m
            rw [Nat.xor_assoc, Nat.xor_self, Nat.xor_zero]
          · rw [mulB_ph]
            show _ = (ph p' + ph (gen m) + 2 * om T.n p'.v (2 ^ m)) % 4
            rw [hom]; simp [ph, gen, hp']
        have h1 := ih (by omega) p' hv'
        have h2 := hgen m (by omega)
        have h3 := hmul _ _ _ _ h1 h2
        rw [← apply_mulB T hT, ← hpe] at h3
        exact h3
      · have hb' : p.v.testBit m = false := by simpa using hb
        exact ih (by omega) p (lt_two_pow_of_testBit_false hp hb')
  intro p hp
  exact key (2 * T.n) le_rfl p (by rw [← SpF2.four_pow]; exact hp)

/-! ### Pauli matrices (C08 semantics) of binary Paulis -/

section mats
variable {R : Type} [CommRing R] {n : Nat}

/-- the matrix of `i^(2 s0 + s1) X^x Z^z` on `n` qubits -/
def PM (n : Nat) (I : R) (p : PauliB) : Matrix (Bits n) (Bits n) R := C08.mat I (toPauli n p)

theorem xor_eq_iff (a w x : Bits n) : a = Bits.xor w x ↔ w = Bits.xor a x := by
  constructor <;> intro h <;> rw [h] <;> funext i <;> simp [Bits.xor]

theorem PM_mul_apply {I : R} (hI : I * I = -1) (p : PauliB) (M : Matrix (Bits n) (Bits n) R) (a b : Bits n) :
    (PM n I p * M) a b =
      I ^ ((toPauli n p).phaseExp + 2 * Bits.dotN (toPauli n p).z (Bits.xor a (toPauli n p).x)) *
        M (Bits.xor a (toPauli n p).x) b := by
  rw [Matrix.mul_apply, Finset.sum_eq_single (Bits.xor a (toPauli n p).x)]
  · simp only [PM]; rw [C08.mat_apply hI, if_pos ((xor_eq_iff _ _ _).2 rfl)]
  · intro w _ hw
    simp only [PM]; rw [C08.mat_apply hI, if_neg (fun h => hw ((xor_eq_iff _ _ _).1 h)), zero_mul]
  · intro h; exact absurd (Finset.mem_univ _) h

theorem mul_PM_apply {I : R} (hI : I * I = -1) (q : PauliB) (M : Matrix (Bits n) (Bits n) R) (a b : Bits n) :
    (M * PM n I q) a b =
      M a (Bits.xor b (toPauli n q).x) *
        I ^ ((toPauli n q).phaseExp + 2 * Bits.dotN (toPauli n q).z b) := by
  rw [Matrix.mul_apply, Finset.sum_eq_single (Bits.xor b (toPauli n q).x)]
  · simp only [PM]; rw [C08.mat_apply hI, if_pos rfl]
  · intro w _ hw
    simp only [PM]; rw [C08.mat_apply hI, if_neg hw, mul_zero]
  · intro h; exact absurd (Finset.mem_univ _) h

theorem PM_mulB {I : R} (hI : I * I = -1) (a b : PauliB) : PM n I (mulB n a b) = PM n I a * PM n I b := by
  simp only [PM]; rw [toPauli_mulB, C08.mat_mul hI]

/-- a pure phase is a scalar matrix -/
theorem PM_phase {I : R} (hI : I * I = -1) (s0 s1 : Bool) :
    PM n I ⟨s0, s1, 0⟩ = (I ^ (2 * s0.toNat + s1.toNat)) • (1 : Matrix (Bits n) (Bits n) R) := by
  ext a b
  simp only [PM]; rw [C08.mat_apply hI]
  have hx : (toPauli n ⟨s0, s1, 0⟩).x = fun _ => false := by funext i; simp [toPauli]
  have hz : (toPauli n ⟨s0, s1, 0⟩).z = fun _ => false := by funext i; simp [toPauli]
  rw [hx, hz, Bits.xor_false, Bits.dotN_zero_left]
  simp only [Matrix.smul_apply, Matrix.one_apply, Pauli.phaseExp, toPauli, smul_eq_mul]
  by_cases h : a = b <;> simp [h]

/-- the intertwining relation `P · E = E · Q` is multiplicative and holds on phases -/
theorem inter_mul {I : R} (hI : I * I = -1) (E : Matrix (Bits n) (Bits n) R) (a a' b b' : PauliB)
    (h1 : PM n I a * E = E * PM n I a') (h2 : PM n I b * E = E * PM n I b') :
    PM n I (mulB n a b) * E = E * PM n I (mulB n a' b') := by
  rw [PM_mulB hI, PM_mulB hI, Matrix.mul_assoc, h2, ← Matrix.mul_assoc, h1, Matrix.mul_assoc]

theorem inter_phase {I : R} (hI : I * I = -1) (E : Matrix (Bits n) (Bits n) R) (s0 s1 : Bool) :
    PM n I ⟨s0, s1, 0⟩ * E = E * PM n I ⟨s0, s1, 0⟩ := by
  rw [PM_phase hI]; simp

/-- **from the generators to every Pauli**: if `E` intertwines each generator `X_k`, `Z_k` with its image under a
symplectic tableau `T`, it intertwines every phased Pauli with its image: `P · E = E · apply(P, T)` -/
theorem inter_of_gens {I : R} (hI : I * I = -1) (T : Tab) (hT : T.colSp = true)
    (E : Matrix (Bits T.n) (Bits T.n) R)
    (hgen : ∀ k, k < 2 * T.n → PM T.n I (gen k) * E = E * PM T.n I (applyOnPauli (gen k) T)) :
    ∀ p : PauliB, p.v < 4 ^ T.n → PM T.n I p * E = E * PM T.n I (applyOnPauli p T) :=
  gen_induction T hT (fun P Q => PM T.n I P * E = E * PM T.n I Q)
    (fun a a' b b' h1 h2 => inter_mul hI E a a' b b' h1 h2) (fun s0 s1 => inter_phase hI E s0 s1) hgen

/-- the mirrored form (`E · P = apply(P,T) · E`), used for tableaux extracted from `U X_k U†`, `U Z_k U†` -/
theorem inter_of_gens' {I : R} (hI : I * I = -1) (T : Tab) (hT : T.colSp = true)
    (E : Matrix (Bits T.n) (Bits T.n) R)
    (hgen : ∀ k, k < 2 * T.n → E * PM T.n I (gen k) = PM T.n I (applyOnPauli (gen k) T) * E) :
    ∀ p : PauliB, p.v < 4 ^ T.n → E * PM T.n I p = PM T.n I (applyOnPauli p T) * E :=
  gen_induction T hT (fun P Q => E * PM T.n I P = PM T.n I Q * E)
    (fun a a' b b' h1 h2 => by
      show E * PM T.n I (mulB T.n a b) = PM T.n I (mulB T.n a' b') * E
      rw [PM_mulB hI, PM_mulB hI, ← Matrix.mul_assoc, h1, Matrix.mul_assoc, h2, ← Matrix.mul_assoc])
    (fun s0 s1 => (inter_phase hI E s0 s1).symm) hgen

end mats

/-! ### the image of a generator is a column of the tableau -/

theorem sumSel_pow (k : Nat) (f : Nat → Nat) (m : Nat) : sumSel (2 ^ k) f m = if k < m then f k else 0 := by
  induction m with
  | zero => simp [sumSel]
  | succ m ih =>
    rw [sumSel, ih, Nat.testBit_two_pow]
    by_cases h : k = m
    · subst h; simp
    · have h1 : (k < m + 1) = (k < m) := by apply propext; omega
      simp [h, h1]

theorem matVec_pow (cols : List Nat) (k m : Nat) :
    matVec cols (2 ^ k) m = if k < m then cols.getD k 0 else 0 := by
  induction m with
  | zero => simp [matVec]
  | succ m ih =>
    rw [matVec, ih, Nat.testBit_two_pow]
    by_cases h : k = m
    · subst h; simp
    · have h1 : (k < m + 1) = (k < m) := by apply propext; omega
      simp [h, h1]

/-- the Hermitian Pauli with sign bit `r_k` whose vector is column `k`: the image of generator `k` -/
def genImage (T : Tab) (k : Nat) : PauliB :=
  ⟨((T.r.testBit k).toNat + (T.d k % 4) / 2) % 2 == 1, T.d k % 2 == 1, T.cols.getD k 0⟩

theorem apply_gen (T : Tab) (k : Nat) (hk : k < 2 * T.n) : applyOnPauli (gen k) T = genImage T k := by
  apply PauliB.ext_ph
  · rw [apply_v]; simp only [gen, genImage]; rw [matVec_pow, if_pos hk]
  · rw [apply_ph]
    have h1 : T.dsum (2 ^ k) = T.d k := by simp only [Tab.dsum]; rw [sumSel_pow, if_pos hk]
    have h2 : T.tri (2 ^ k) = 0 := by
      simp only [Tab.tri]; rw [sumSel_pow, if_pos hk, sumSel_pow, if_neg (lt_irrefl k)]
    have h3 : cnt (2 * T.n) (2 ^ k) T.r = (T.r.testBit k).toNat := by
      rw [cnt_eq_sumSel, sumSel_pow, if_pos hk]
    simp only [Fph, gen, h1, h2, h3, ph, genImage, toNat_beq_one]
    generalize T.d k = D
    cases T.r.testBit k <;> simp <;> omega

/-! ### bits of a scattered vector -/

section place
variable {n : Nat} {qs : List Nat} (hv : ValidQs n qs)
include hv

theorem idx_inj {a b : Nat} (ha : a < 2 * qs.length) (hb : b < 2 * qs.length) (h : idx n qs a = idx n qs b) : a = b := by
  by_cases h1 : a < qs.length
  · obtain ⟨e1, l1⟩ := idx_low hv h1
    by_cases h2 : b < qs.length
    · obtain ⟨e2, _⟩ := idx_low hv h2
      exact getD_inj hv.nodup h1 h2 (by omega)
    · obtain ⟨e2, _⟩ := idx_high hv (by omega) hb; omega
  · obtain ⟨e1, l1⟩ := idx_high hv (by omega) ha
    by_cases h2 : b < qs.length
    · obtain ⟨e2, _⟩ := idx_low hv h2; omega
    · obtain ⟨e2, _⟩ := idx_high hv (by omega) hb
      have := getD_inj hv.nodup (by omega) (by omega) (by omega : qs.getD (a - qs.length) 0 = qs.getD (b - qs.length) 0)
      omega

theorem testBit_place_aux (w i m : Nat) (hm : m ≤ 2 * qs.length) :
    (matVec ((qs ++ qs.map (· + n)).map fun i => 2 ^ i) w m).testBit i = true ↔
      ∃ a, a < m ∧ w.testBit a = true ∧ idx n qs a = i := by
  induction m with
  | zero => simp [matVec]
  | succ m ih =>
    have ih' := ih (by omega)
    rw [matVec, Nat.testBit_xor]
    by_cases hw : w.testBit m = true
    · rw [if_pos hw, unit_getD n qs m (by omega), Nat.testBit_two_pow]
      by_cases he : idx n qs m = i
      · have hprev : (matVec ((qs ++ qs.map (· + n)).map fun i => 2 ^ i) w m).testBit i = false := by
          rw [Bool.eq_false_iff]; intro hc
          obtain ⟨a, ha, _, hai⟩ := ih'.1 hc
          have := idx_inj hv (by omega) (by omega : m < 2 * qs.length) (hai.trans he.symm)
          omega
        rw [hprev]; simp only [he, decide_true, Bool.false_xor, true_iff]
        exact ⟨m, by omega, hw, he⟩
      · simp only [he, decide_false, Bool.xor_false]
        rw [ih']
        constructor
        · rintro ⟨a, ha, h1, h2⟩; exact ⟨a, by omega, h1, h2⟩
        · rintro ⟨a, ha, h1, h2⟩
          have : a ≠ m := fun e => he (e ▸ h2)
          exact ⟨a, by omega, h1, h2⟩
    · rw [if_neg hw]; simp only [Nat.zero_testBit, Bool.xor_false]
      rw [ih']
      constructor
      · rintro ⟨a, ha, h1, h2⟩; exact ⟨a, by omega, h1, h2⟩
      · rintro ⟨a, ha, h1, h2⟩
        have : a ≠ m := fun e => hw (e ▸ h1)
        exact ⟨a, by omega, h1, h2⟩

theorem testBit_place_iff (w i : Nat) :
    (place n qs w).testBit i = true ↔ ∃ a, a < 2 * qs.length ∧ w.testBit a = true ∧ idx n qs a = i := by
  unfold place; rw [index_length]; exact testBit_place_aux hv w i _ le_rfl

theorem testBit_place_idx (w : Nat) {a : Nat} (ha : a < 2 * qs.length) :
    (place n qs w).testBit (idx n qs a) = w.testBit a := by
  rw [Bool.eq_iff_iff, testBit_place_iff hv]
  constructor
  · rintro ⟨b, hb, h1, h2⟩; rw [← idx_inj hv hb ha h2]; exact h1
  · intro h; exact ⟨a, ha, h, rfl⟩

theorem testBit_place_out (w : Nat) {i : Nat} (hi : ∀ a, a < 2 * qs.length → idx n qs a ≠ i) :
    (place n qs w).testBit i = false := by
  rw [Bool.eq_false_iff]; intro hc
  obtain ⟨a, ha, _, h2⟩ := (testBit_place_iff hv w i).1 hc
  exact hi a ha h2

end place

/-! ### a Pauli supported on the gate's qubits is the embedding of the local Pauli -/

theorem sum_reindex {k n : Nat} (t : Fin k → Fin n) (hinj : Function.Injective t) (f : Fin n → ℕ)
    (hf : ∀ i, (∀ b, t b ≠ i) → f i = 0) : ∑ i, f i = ∑ b, f (t b) := by
  rw [← Finset.sum_subset (Finset.subset_univ (Finset.univ.image t))
    (fun i _ hi => hf i (fun b e => hi (Finset.mem_image.2 ⟨b, Finset.mem_univ _, e⟩))),
    Finset.sum_image (fun _ _ _ _ h => hinj h)]

section placed
variable {R : Type} [CommRing R] {n : Nat} {qs : List Nat} (hv : ValidQs n qs)
  (t : Fin qs.length → Fin n) (ht : ∀ b, (t b).val = qs.getD b.val 0)
include hv ht

theorem t_inj : Function.Injective t := by
  intro a b h
  have := congrArg Fin.val h
  rw [ht, ht] at this
  exact Fin.ext (getD_inj hv.nodup a.isLt b.isLt this)

theorem t_idx_low (b : Fin qs.length) : idx n qs b.val = (t b).val := by
  rw [ht]; exact (idx_low hv b.isLt).1

theorem t_idx_high (b : Fin qs.length) : idx n qs (b.val + qs.length) = n + (t b).val := by
  have := (idx_high hv (a := b.val + qs.length) (by omega) (by have := b.isLt; omega)).1
  have e : b.val + qs.length - qs.length = b.val := by omega
  rw [e] at this; rw [this, ht]; omega

/-- bits of the scattered vector at the gate's qubits … -/
theorem place_x_in (w : Nat) (b : Fin qs.length) : (place n qs w).testBit (t b).val = w.testBit b.val := by
  rw [← t_idx_low hv t ht b]; exact testBit_place_idx hv w (by have := b.isLt; omega)

theorem place_z_in (w : Nat) (b : Fin qs.length) :
    (place n qs w).testBit (n + (t b).val) = w.testBit (qs.length + b.val) := by
  rw [← t_idx_high hv t ht b, Nat.add_comm qs.length]
  exact testBit_place_idx hv w (by have := b.isLt; omega)

/-- … and elsewhere -/
theorem place_x_out (w : Nat) (i : Fin n) (hi : ∀ b, t b ≠ i) : (place n qs w).testBit i.val = false := by
  apply testBit_place_out hv
  intro a ha he
  by_cases h : a < qs.length
  · have := t_idx_low hv t ht ⟨a, h⟩
    exact hi ⟨a, h⟩ (Fin.ext (by simp only at this; omega))
  · have := (idx_high hv (a := a) (by omega) ha).1
    have := i.isLt; omega

theorem place_z_out (w : Nat) (i : Fin n) (hi : ∀ b, t b ≠ i) : (place n qs w).testBit (n + i.val) = false := by
  apply testBit_place_out hv
  intro a ha he
  by_cases h : a < qs.length
  · have := (idx_low hv h).2; omega
  · have h1 := t_idx_high hv t ht ⟨a - qs.length, by omega⟩
    have e : a - qs.length + qs.length = a := by omega
    simp only [e] at h1
    exact hi ⟨a - qs.length, by omega⟩ (Fin.ext (by omega))

/-- `x·z` of a scattered vector is the local `x·z` (as integers) -/
theorem cnt_place (w : Nat) :
    cnt n (place n qs w) (place n qs w >>> n) = cnt qs.length w (w >>> qs.length) := by
  rw [cnt_eq_sum, cnt_eq_sum]
  rw [sum_reindex t (t_inj hv t ht)]
  · apply Finset.sum_congr rfl
    intro b _
    rw [Nat.testBit_shiftRight, Nat.testBit_shiftRight, place_x_in hv t ht, place_z_in hv t ht]
  · intro i hi
    rw [place_x_out hv t ht w i hi]; rfl

/-- **the matrix of a Pauli scattered to the gate's qubits is the embedded local Pauli matrix** -/
theorem PM_place {I : R} (hI : I * I = -1) (a : PauliB) :
    PM n I ⟨a.s0, a.s1, place n qs a.v⟩ = Matrix.of (Numqi.embed (PM qs.length I a) t) := by
  have hinj := t_inj hv t ht
  set P : PauliB := ⟨a.s0, a.s1, place n qs a.v⟩ with hP
  have hX1 : ∀ b, (toPauli n P).x (t b) = (toPauli qs.length a).x b := fun b => place_x_in hv t ht a.v b
  have hZ1 : ∀ b, (toPauli n P).z (t b) = (toPauli qs.length a).z b := fun b => place_z_in hv t ht a.v b
  have hX0 : ∀ i, (∀ b, t b ≠ i) → (toPauli n P).x i = false := fun i hi => place_x_out hv t ht a.v i hi
  have hZ0 : ∀ i, (∀ b, t b ≠ i) → (toPauli n P).z i = false := fun i hi => place_z_out hv t ht a.v i hi
  ext x' x
  simp only [PM, Matrix.of_apply, Numqi.embed]
  rw [C08.mat_apply hI]
  have hcond : x' = Bits.xor x (toPauli n P).x ↔
      (Bits.agreeOff x' x t = true ∧ x'.sel t = Bits.xor (x.sel t) (toPauli qs.length a).x) := by
    rw [Bits.agreeOff_iff]
    constructor
    · intro h
      refine ⟨fun i hi => ?_, ?_⟩
      · rw [h]; simp [Bits.xor, hX0 i hi]
      · funext b; rw [h]; simp [Bits.sel, Bits.xor, hX1 b]
    · rintro ⟨h1, h2⟩
      funext i
      by_cases hi : ∃ b, t b = i
      · obtain ⟨b, rfl⟩ := hi
        have := congrFun h2 b
        simp only [Bits.sel, Bits.xor] at this ⊢
        rw [this, hX1 b]
      · have hi' : ∀ b, t b ≠ i := fun b e => hi ⟨b, e⟩
        rw [h1 i hi']; simp [Bits.xor, hX0 i hi']
  have hdot : Bits.dotN (toPauli n P).z x = Bits.dotN (toPauli qs.length a).z (x.sel t) := by
    rw [Bits.dotN_eq_sum, Bits.dotN_eq_sum, sum_reindex t hinj]
    · apply Finset.sum_congr rfl; intro b _; rw [hZ1 b]; rfl
    · intro i hi; rw [hZ0 i hi]; rfl
  by_cases hc : x' = Bits.xor x (toPauli n P).x
  · obtain ⟨h1, h2⟩ := hcond.1 hc
    rw [if_pos hc, if_pos h1, C08.mat_apply hI, if_pos h2, hdot]
    rfl
  · rw [if_neg hc]
    by_cases h1 : Bits.agreeOff x' x t = true
    · rw [if_pos h1, C08.mat_apply hI, if_neg (fun h2 => hc (hcond.2 ⟨h1, h2⟩))]
    · rw [if_neg h1]

omit hv ht in
/-- **a Pauli that is trivial on the gate's qubits commutes with the embedded gate** -/
theorem PM_comm_embed {I : R} (hI : I * I = -1) (p : PauliB) (U : Numqi.Mat qs.length R)
    (hx : ∀ b, (toPauli n p).x (t b) = false) (hz : ∀ b, (toPauli n p).z (t b) = false) :
    PM n I p * Matrix.of (Numqi.embed U t) = Matrix.of (Numqi.embed U t) * PM n I p := by
  ext a b
  rw [PM_mul_apply hI, mul_PM_apply hI]
  simp only [Matrix.of_apply, Numqi.embed]
  have hs1 : (Bits.xor a (toPauli n p).x).sel t = a.sel t := by
    funext j; simp [Bits.sel, Bits.xor, hx j]
  have hs2 : (Bits.xor b (toPauli n p).x).sel t = b.sel t := by
    funext j; simp [Bits.sel, Bits.xor, hx j]
  have hag : Bits.agreeOff (Bits.xor a (toPauli n p).x) b t = Bits.agreeOff a (Bits.xor b (toPauli n p).x) t := by
    rw [Bool.eq_iff_iff, Bits.agreeOff_iff, Bits.agreeOff_iff]
    constructor <;> intro h i hi <;> have := h i hi <;> simp only [Bits.xor] at this ⊢ <;>
      revert this <;> cases a i <;> cases b i <;> cases (toPauli n p).x i <;> simp
  rw [hs1, hs2, hag]
  by_cases h : Bits.agreeOff a (Bits.xor b (toPauli n p).x) t = true
  · rw [if_pos h]
    have hd : Bits.dotN (toPauli n p).z (Bits.xor a (toPauli n p).x) = Bits.dotN (toPauli n p).z b := by
      rw [Bits.dotN_eq_sum, Bits.dotN_eq_sum]
      apply Finset.sum_congr rfl
      intro i _
      by_cases hi : ∃ j, t j = i
      · obtain ⟨j, rfl⟩ := hi; rw [hz j]; rfl
      · have hi' : ∀ j, t j ≠ i := fun j e => hi ⟨j, e⟩
        rw [Bits.agreeOff_iff] at h
        have := h i hi'
        simp only [Bits.xor] at this ⊢
        rw [this]
        cases (toPauli n p).z i <;> cases b i <;> cases (toPauli n p).x i <;> rfl
    rw [hd, mul_comm]
  · rw [if_neg h]; simp

end placed

end Numqi.Clifford
