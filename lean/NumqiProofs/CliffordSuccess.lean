/-
C07: success theorems — `clifford_multiply` and `to_symplectic_form` return on well-formed symplectic input.
-/
import NumqiProofs.CliffordGates
namespace Numqi.Clifford

/-- a symplectic tableau maps Hermitian operators to Hermitian operators: `x·z` of the image has the parity of
`x·z + Σ_j v_j d_j` -/
theorem herm_parity (t : Tab) (h : t.colSp = true) (c : Nat) :
    (cnt t.n c (c >>> t.n) + t.dsum c +
      cnt t.n (matVec t.cols c (2 * t.n)) (matVec t.cols c (2 * t.n) >>> t.n)) % 2 = 0 := by
  set a : PauliB := ⟨false, false, c⟩ with ha
  have hm := apply_mulB t h a a
  have hv : (mulB t.n a a).v = 0 := by rw [mulB_v]; exact Nat.xor_self _
  have hphase : mulB t.n a a = ⟨(mulB t.n a a).s0, (mulB t.n a a).s1, 0⟩ := by
    cases hq : mulB t.n a a with | mk s0 s1 v => rw [hq] at hv; simp only at hv; subst hv; rfl
  rw [hphase, apply_phase_only, ← hphase] at hm
  have h1 := mulB_ph t.n a a
  have h2 := mulB_ph t.n (applyOnPauli a t) (applyOnPauli a t)
  have h3 := apply_ph a t
  rw [← hm] at h2
  rw [apply_v] at h2
  simp only [Fph] at h3
  have e1 : om t.n c c = cnt t.n c (c >>> t.n) := by unfold om; rw [cnt_comm]
  have e2 : om t.n (matVec t.cols c (2 * t.n)) (matVec t.cols c (2 * t.n)) =
      cnt t.n (matVec t.cols c (2 * t.n)) (matVec t.cols c (2 * t.n) >>> t.n) := by unfold om; rw [cnt_comm]
  simp only [ha] at h1 h2 h3
  rw [e1] at h1
  rw [e2] at h2
  omega

/-- **`clifford_multiply` returns** (the `assert` on line 66 holds) whenever the sizes agree and `S_y` is symplectic -/
theorem multiply_isSome (x y : Tab) (hn : x.n = y.n) (hy : y.colSp = true) : (multiply x y).isSome = true := by
  unfold multiply
  simp only
  rw [if_pos]
  · rfl
  · rw [List.all_eq_true]
    intro j hj
    have hj' : j < 2 * x.n := List.mem_range.1 hj
    simp only [beq_iff_eq]
    have := herm_parity y hy (x.cols.getD j 0)
    simp only [Tab.d]
    rw [getD_map_range' _ _ _ hj', ← hn] at *
    omega

theorem numQubit_ok (gates : List Gate) (hne : gates ≠ []) (hwf : GatesWF gates) : ∃ n, numQubit gates = .ok n := by
  unfold numQubit
  cases hl : gates.flatMap (·.idx) with
  | nil =>
    exfalso
    obtain ⟨g, rest, rfl⟩ := List.exists_cons_of_ne_nil hne
    have h1 := (hwf g List.mem_cons_self).1
    have ha : g.key.arity ≥ 1 := by cases g.key <;> decide
    simp only [List.flatMap_cons, List.append_eq_nil_iff] at hl
    rw [hl.1] at h1; simp at h1; omega
  | cons i rest => exact ⟨_, rfl⟩

/-- the loop of `to_symplectic_form` never fails on a well-formed record -/
theorem foldl_symStep_ok (n : Nat) (l : List Gate) (hwf : GatesWF l) (hlt : ∀ g ∈ l, ∀ q ∈ g.idx, q < n) :
    ∀ acc : Tab, acc.n = n → ∃ t, l.foldl (symStep n) (.ok acc) = .ok t := by
  induction l with
  | nil => intro acc _; exact ⟨acc, rfl⟩
  | cons g l ih =>
    intro acc hacc
    obtain ⟨w1, w2⟩ := hwf g List.mem_cons_self
    have hv : ValidQs n g.idx := ⟨w2, hlt g List.mem_cons_self⟩
    have hcs : (embed n (dagTable g.key) g.idx).colSp = true :=
      embed_colSp hv (dagTable g.key) (by rw [dagTable_n, w1]) (dagTable_colSp g.key)
    have hm := multiply_isSome acc (embed n (dagTable g.key) g.idx) (by rw [hacc]; rfl) hcs
    obtain ⟨z, hz⟩ := Option.isSome_iff_exists.1 hm
    rw [List.foldl_cons]
    simp only [symStep, basicDaggerF2_dagTable, hz]
    exact ih (fun g' hg' => hwf g' (List.mem_cons_of_mem _ hg')) (fun g' hg' => hlt g' (List.mem_cons_of_mem _ hg'))
      z (by rw [(multiply_spec hz).1, hacc])

/-- **`to_symplectic_form` returns for every well-formed non-empty gate record** -/
theorem symplecticOf_ok (gates : List Gate) (hne : gates ≠ []) (hwf : GatesWF gates) :
    ∃ t, symplecticOf gates = .ok t := by
  obtain ⟨n, hn⟩ := numQubit_ok gates hne hwf
  unfold symplecticOf
  rw [hn]
  exact foldl_symStep_ok n gates.reverse (fun g hg => hwf g (List.mem_reverse.1 hg))
    (fun g hg q hq => numQubit_spec hn g (List.mem_reverse.1 hg) q hq) (Tab.id n) rfl

end Numqi.Clifford
