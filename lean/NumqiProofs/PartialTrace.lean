/-
Helper lemmas for the partial-trace model (C17; `sumRange` bridge reused by C12, C04).
-/
import Mathlib.Tactic
import Mathlib.Algebra.BigOperators.Fin
import Mathlib.Algebra.BigOperators.Intervals
import NumqiModel.PartialTrace

namespace Numqi
open Finset

theorem sumRange_eq_sum {M : Type} [AddCommMonoid M] (n : ℕ) (f : ℕ → M) :
    sumRange n f = ∑ i ∈ range n, f i := by
  induction n with
  | zero => simp [sumRange]
  | succ n ih => rw [sumRange, ih, Finset.sum_range_succ]

/-- in the theorem files complex conjugation is `star` -/
instance (priority := 100) chanStarConj {R : Type} [Star R] : Conj R := ⟨star⟩

theorem conj_eq_star {R : Type} [Star R] (x : R) : conj x = star x := rfl

theorem div_of_lt {q r P : ℕ} (hr : r < P) : (q * P + r) / P = q := by
  rw [Nat.add_comm, Nat.add_mul_div_right _ _ (by omega), Nat.div_eq_of_lt hr, Nat.zero_add]

theorem mod_of_lt {q r P : ℕ} (hr : r < P) : (q * P + r) % P = r := by
  rw [Nat.add_comm, Nat.add_mul_mod_self_right, Nat.mod_eq_of_lt hr]

theorem mul_add_lt {q d r P : ℕ} (hq : q < d) (hr : r < P) : q * P + r < d * P := by
  calc q * P + r < q * P + P := by omega
    _ = (q + 1) * P := by ring
    _ ≤ d * P := Nat.mul_le_mul_right _ (by omega)

/-- a sum over `range (m*n)` as a double sum (row-major split of a flat index) -/
theorem sum_range_mul {M : Type*} [AddCommMonoid M] (m n : ℕ) (g : ℕ → M) :
    ∑ x ∈ range (m * n), g x = ∑ q ∈ range m, ∑ r ∈ range n, g (q * n + r) := by
  induction m with
  | zero => simp
  | succ m ih =>
    rw [Nat.succ_mul, Finset.sum_range_add, ih, Finset.sum_range_succ]

namespace PT

theorem prodSel_eq_prodDims_sel (b : Bool) (dims : List ℕ) (keep : List Bool) :
    prodSel b dims keep = prodDims (sel b dims keep) := by
  induction dims generalizing keep with
  | nil => cases keep <;> simp [prodSel, sel, prodDims]
  | cons d ds ih =>
    cases keep with
    | nil => simp [prodSel, sel, prodDims]
    | cons k ks =>
      by_cases h : k = b
      · simp [prodSel, sel, prodDims, h, ih]
      · simp [prodSel, sel, h, ih]

theorem prodDims_eq_mul (dims : List ℕ) (keep : List Bool) (hlen : dims.length = keep.length) :
    prodDims dims = prodSel true dims keep * prodSel false dims keep := by
  induction dims generalizing keep with
  | nil => cases keep <;> simp [prodSel, prodDims]
  | cons d ds ih =>
    cases keep with
    | nil => simp at hlen
    | cons k ks =>
      have := ih ks (by simpa using hlen)
      cases k <;> simp [prodSel, prodDims, this] <;> ring

theorem ptIndex_lt (dims : List ℕ) (keep : List Bool) (hlen : dims.length = keep.length) (a t : ℕ)
    (ha : a < prodSel true dims keep) (ht : t < prodSel false dims keep) :
    ptIndex dims keep a t < prodDims dims := by
  induction dims generalizing keep a t with
  | nil => cases keep <;> simp [ptIndex, prodDims]
  | cons d ds ih =>
    cases keep with
    | nil => simp at hlen
    | cons k ks =>
      have hl : ds.length = ks.length := by simpa using hlen
      cases k
      · simp only [prodSel, Bool.false_eq_true, if_false, if_true, one_mul] at ha ht
        have hpos : 0 < prodSel false ds ks := Nat.pos_of_ne_zero (by rintro h; simp [h] at ht)
        have h1 := ih ks hl a (t % prodSel false ds ks) ha (Nat.mod_lt _ hpos)
        have hq : t / prodSel false ds ks < d := (Nat.div_lt_iff_lt_mul hpos).2 ht
        simp only [ptIndex, Bool.false_eq_true, if_false, prodDims]
        exact mul_add_lt hq h1
      · simp only [prodSel, Bool.true_eq_false, if_false, if_true, one_mul] at ha ht
        have hpos : 0 < prodSel true ds ks := Nat.pos_of_ne_zero (by rintro h; simp [h] at ha)
        have h1 := ih ks hl (a % prodSel true ds ks) t (Nat.mod_lt _ hpos) ht
        have hq : a / prodSel true ds ks < d := (Nat.div_lt_iff_lt_mul hpos).2 ha
        simp only [ptIndex, if_true, prodDims]
        exact mul_add_lt hq h1

theorem part_lt (b : Bool) (dims : List ℕ) (keep : List Bool) (hlen : dims.length = keep.length) (x : ℕ)
    (hx : x < prodDims dims) : part b dims keep x < prodSel b dims keep := by
  induction dims generalizing keep x with
  | nil => cases keep <;> simp [part, prodSel]
  | cons d ds ih =>
    cases keep with
    | nil => simp at hlen
    | cons k ks =>
      have hl : ds.length = ks.length := by simpa using hlen
      simp only [prodDims] at hx
      have hpos : 0 < prodDims ds := Nat.pos_of_ne_zero (by rintro h; simp [h] at hx)
      have h1 := ih ks hl (x % prodDims ds) (Nat.mod_lt _ hpos)
      have hq : x / prodDims ds < d := (Nat.div_lt_iff_lt_mul hpos).2 hx
      by_cases h : k = b
      · simp only [part, prodSel, h, if_true]
        exact mul_add_lt hq h1
      · simp only [part, prodSel, h, if_false, one_mul]
        exact h1

theorem part_ptIndex (dims : List ℕ) (keep : List Bool) (hlen : dims.length = keep.length) (a t : ℕ)
    (ha : a < prodSel true dims keep) (ht : t < prodSel false dims keep) :
    part true dims keep (ptIndex dims keep a t) = a ∧ part false dims keep (ptIndex dims keep a t) = t := by
  induction dims generalizing keep a t with
  | nil =>
    cases keep <;> simp [prodSel] at ha ht <;> simp [part, ha, ht]
  | cons d ds ih =>
    cases keep with
    | nil => simp at hlen
    | cons k ks =>
      have hl : ds.length = ks.length := by simpa using hlen
      cases k
      · simp only [prodSel, Bool.false_eq_true, if_false, if_true, one_mul] at ha ht
        have hpos : 0 < prodSel false ds ks := Nat.pos_of_ne_zero (by rintro h; simp [h] at ht)
        have hlt := ptIndex_lt ds ks hl a (t % prodSel false ds ks) ha (Nat.mod_lt _ hpos)
        obtain ⟨h1, h2⟩ := ih ks hl a (t % prodSel false ds ks) ha (Nat.mod_lt _ hpos)
        simp only [ptIndex, part, Bool.false_eq_true, if_false, if_true, div_of_lt hlt, mod_of_lt hlt, h1, h2]
        exact ⟨trivial, Nat.div_add_mod' _ _⟩
      · simp only [prodSel, Bool.true_eq_false, if_false, if_true, one_mul] at ha ht
        have hpos : 0 < prodSel true ds ks := Nat.pos_of_ne_zero (by rintro h; simp [h] at ha)
        have hlt := ptIndex_lt ds ks hl (a % prodSel true ds ks) t (Nat.mod_lt _ hpos) ht
        obtain ⟨h1, h2⟩ := ih ks hl (a % prodSel true ds ks) t (Nat.mod_lt _ hpos) ht
        simp only [ptIndex, part, Bool.true_eq_false, if_false, if_true, div_of_lt hlt, mod_of_lt hlt, h1, h2]
        exact ⟨Nat.div_add_mod' _ _, trivial⟩

theorem ptIndex_part (dims : List ℕ) (keep : List Bool) (hlen : dims.length = keep.length) (x : ℕ)
    (hx : x < prodDims dims) :
    ptIndex dims keep (part true dims keep x) (part false dims keep x) = x := by
  induction dims generalizing keep x with
  | nil =>
    cases keep <;> simp [prodDims] at hx <;> simp [ptIndex, hx]
  | cons d ds ih =>
    cases keep with
    | nil => simp at hlen
    | cons k ks =>
      have hl : ds.length = ks.length := by simpa using hlen
      simp only [prodDims] at hx
      have hpos : 0 < prodDims ds := Nat.pos_of_ne_zero (by rintro h; simp [h] at hx)
      have hr := Nat.mod_lt x hpos
      have h1 := ih ks hl (x % prodDims ds) hr
      have hpt := part_lt true ds ks hl _ hr
      have hpf := part_lt false ds ks hl _ hr
      cases k
      · simp only [ptIndex, part, Bool.false_eq_true, Bool.true_eq_false, if_false, if_true,
          div_of_lt hpf, mod_of_lt hpf, h1]
        exact Nat.div_add_mod' _ _
      · simp only [ptIndex, part, Bool.false_eq_true, Bool.true_eq_false, if_false, if_true,
          div_of_lt hpt, mod_of_lt hpt, h1]
        exact Nat.div_add_mod' _ _

/-- `(a, t) ↦ ptIndex a t` enumerates every flat index exactly once -/
theorem sum_ptIndex {M : Type*} [AddCommMonoid M] (dims : List ℕ) (keep : List Bool)
    (hlen : dims.length = keep.length) (f : ℕ → M) :
    ∑ a ∈ range (prodSel true dims keep), ∑ t ∈ range (prodSel false dims keep), f (ptIndex dims keep a t)
      = ∑ x ∈ range (prodDims dims), f x := by
  induction dims generalizing keep f with
  | nil => cases keep <;> simp [prodSel, prodDims, ptIndex]
  | cons d ds ih =>
    cases keep with
    | nil => simp at hlen
    | cons k ks =>
      have hl : ds.length = ks.length := by simpa using hlen
      cases k
      · simp only [prodSel, prodDims, Bool.false_eq_true, Bool.true_eq_false, if_false, if_true, one_mul]
        rw [sum_range_mul d (prodDims ds)]
        have : ∀ a ∈ range (prodSel true ds ks),
            ∑ t ∈ range (d * prodSel false ds ks), f (ptIndex (d :: ds) (false :: ks) a t)
            = ∑ q ∈ range d, ∑ r ∈ range (prodSel false ds ks), f (q * prodDims ds + ptIndex ds ks a r) := by
          intro a _
          rw [sum_range_mul]
          refine sum_congr rfl fun q _ => sum_congr rfl fun r hr => ?_
          have hr' := mem_range.1 hr
          simp only [ptIndex, Bool.false_eq_true, if_false, div_of_lt hr', mod_of_lt hr']
        rw [sum_congr rfl this, sum_comm]
        refine sum_congr rfl fun q _ => ?_
        exact ih ks hl (fun x => f (q * prodDims ds + x))
      · simp only [prodSel, prodDims, Bool.false_eq_true, Bool.true_eq_false, if_false, if_true, one_mul]
        rw [sum_range_mul d (prodDims ds), sum_range_mul d (prodSel true ds ks)]
        refine sum_congr rfl fun q _ => ?_
        rw [← ih ks hl (fun x => f (q * prodDims ds + x))]
        refine sum_congr rfl fun r hr => sum_congr rfl fun t _ => ?_
        have hr' := mem_range.1 hr
        simp only [ptIndex, if_true, div_of_lt hr', mod_of_lt hr']

/-- the kept (traced) part of `x` has exactly the digits of `x` on the kept (traced) axes -/
theorem unravel_part (b : Bool) (dims : List ℕ) (keep : List Bool) (hlen : dims.length = keep.length) (x : ℕ)
    (hx : x < prodDims dims) :
    unravel (sel b dims keep) (part b dims keep x) = sel b (unravel dims x) keep := by
  induction dims generalizing keep x with
  | nil => cases keep <;> simp [sel, unravel]
  | cons d ds ih =>
    cases keep with
    | nil => simp [sel, unravel]
    | cons k ks =>
      have hl : ds.length = ks.length := by simpa using hlen
      simp only [prodDims] at hx
      have hpos : 0 < prodDims ds := Nat.pos_of_ne_zero (by rintro h; simp [h] at hx)
      have hr := Nat.mod_lt x hpos
      have h1 := ih ks hl (x % prodDims ds) hr
      have hp := part_lt b ds ks hl _ hr
      rw [prodSel_eq_prodDims_sel] at hp
      by_cases h : k = b
      · simp only [sel, part, unravel, h, if_true, prodSel_eq_prodDims_sel, div_of_lt hp, mod_of_lt hp, h1]
      · simp only [sel, part, unravel, h, if_false, h1]


theorem prodSel_compose (dims : List ℕ) (keep1 keep2 : List Bool) :
    prodSel true dims (composeMask keep1 keep2) = prodSel true (sel true dims keep1) keep2 := by
  induction dims generalizing keep1 keep2 with
  | nil => cases keep1 <;> cases keep2 <;> simp [prodSel, sel, composeMask]
  | cons d ds ih =>
    cases keep1 with
    | nil => cases keep2 <;> simp [prodSel, sel, composeMask]
    | cons k1 k1s =>
      cases k1
      · simp [prodSel, sel, composeMask, ih]
      · cases keep2 with
        | nil => simp [prodSel, sel, composeMask]
        | cons k2 k2s => cases k2 <;> simp [prodSel, sel, composeMask, ih]

/-- tracing `keep1ᶜ` after `keep2ᶜ`-within-`keep1` enumerates the traced indices of the composed mask -/
theorem sum_compose {M : Type*} [AddCommMonoid M] (dims : List ℕ) (keep1 keep2 : List Bool)
    (h1 : dims.length = keep1.length) (h2 : (sel true dims keep1).length = keep2.length)
    (g : ℕ → ℕ → M) (a b : ℕ)
    (ha : a < prodSel true (sel true dims keep1) keep2) (hb : b < prodSel true (sel true dims keep1) keep2) :
    ∑ t ∈ range (prodSel false dims (composeMask keep1 keep2)),
        g (ptIndex dims (composeMask keep1 keep2) a t) (ptIndex dims (composeMask keep1 keep2) b t)
      = ∑ t2 ∈ range (prodSel false (sel true dims keep1) keep2), ∑ t1 ∈ range (prodSel false dims keep1),
        g (ptIndex dims keep1 (ptIndex (sel true dims keep1) keep2 a t2) t1)
          (ptIndex dims keep1 (ptIndex (sel true dims keep1) keep2 b t2) t1) := by
  induction dims generalizing keep1 keep2 g a b with
  | nil =>
    cases keep1 with
    | nil => cases keep2 <;> simp [prodSel, sel, composeMask, ptIndex]
    | cons k1 k1s => simp at h1
  | cons d ds ih =>
    cases keep1 with
    | nil => simp at h1
    | cons k1 k1s =>
      have hl1 : ds.length = k1s.length := by simpa using h1
      cases k1
      · -- axis traced in the first step
        have hsel : sel true (d :: ds) (false :: k1s) = sel true ds k1s := by simp [sel]
        rw [hsel] at h2 ha hb ⊢
        have hcm : composeMask (false :: k1s) keep2 = false :: composeMask k1s keep2 := by
          cases keep2 <;> simp [composeMask]
        rw [hcm]
        simp only [prodSel, Bool.false_eq_true, if_false, if_true, one_mul]
        rw [sum_range_mul]
        have hL : ∀ q ∈ range d, ∑ r ∈ range (prodSel false ds (composeMask k1s keep2)),
            g (ptIndex (d :: ds) (false :: composeMask k1s keep2) a (q * prodSel false ds (composeMask k1s keep2) + r))
              (ptIndex (d :: ds) (false :: composeMask k1s keep2) b (q * prodSel false ds (composeMask k1s keep2) + r))
            = ∑ t2 ∈ range (prodSel false (sel true ds k1s) keep2), ∑ r ∈ range (prodSel false ds k1s),
              g (q * prodDims ds + ptIndex ds k1s (ptIndex (sel true ds k1s) keep2 a t2) r)
                (q * prodDims ds + ptIndex ds k1s (ptIndex (sel true ds k1s) keep2 b t2) r) := by
          intro q _
          rw [← ih k1s keep2 hl1 h2 (fun x y => g (q * prodDims ds + x) (q * prodDims ds + y)) a b ha hb]
          refine sum_congr rfl fun r hr => ?_
          have hr' := mem_range.1 hr
          simp only [ptIndex, Bool.false_eq_true, if_false, div_of_lt hr', mod_of_lt hr']
        rw [sum_congr rfl hL, sum_comm]
        refine sum_congr rfl fun t2 _ => ?_
        rw [sum_range_mul]
        refine sum_congr rfl fun q _ => sum_congr rfl fun r hr => ?_
        have hr' := mem_range.1 hr
        simp only [ptIndex, Bool.false_eq_true, if_false, div_of_lt hr', mod_of_lt hr']
      · -- axis kept in the first step
        have hsel : sel true (d :: ds) (true :: k1s) = d :: sel true ds k1s := by simp [sel]
        rw [hsel] at h2 ha hb ⊢
        cases keep2 with
        | nil => simp at h2
        | cons k2 k2s =>
          have hl2 : (sel true ds k1s).length = k2s.length := by simpa using h2
          have hcm : composeMask (true :: k1s) (k2 :: k2s) = k2 :: composeMask k1s k2s := by simp [composeMask]
          rw [hcm]
          have hPS : prodSel true ds k1s = prodDims (sel true ds k1s) := prodSel_eq_prodDims_sel _ _ _
          cases k2
          · -- traced in the second step
            simp only [prodSel, Bool.false_eq_true, Bool.true_eq_false, if_false, if_true, one_mul] at ha hb ⊢
            rw [sum_range_mul, sum_range_mul]
            refine sum_congr rfl fun q _ => ?_
            have := ih k1s k2s hl1 hl2 (fun x y => g (q * prodDims ds + x) (q * prodDims ds + y)) a b ha hb
            refine Eq.trans (Eq.trans (sum_congr rfl fun r hr => ?_) this) (sum_congr rfl fun r2 hr2 => sum_congr rfl fun t1 _ => ?_)
            · have hr' := mem_range.1 hr
              simp only [ptIndex, Bool.false_eq_true, if_false, div_of_lt hr', mod_of_lt hr']
            · have hr' := mem_range.1 hr2
              have hia := ptIndex_lt (sel true ds k1s) k2s hl2 a r2 ha hr'
              have hib := ptIndex_lt (sel true ds k1s) k2s hl2 b r2 hb hr'
              simp only [ptIndex, Bool.false_eq_true, if_false, if_true, div_of_lt hr', mod_of_lt hr', hPS,
                div_of_lt hia, mod_of_lt hia, div_of_lt hib, mod_of_lt hib]
          · -- kept in both steps
            simp only [prodSel, Bool.false_eq_true, Bool.true_eq_false, if_false, if_true, one_mul] at ha hb ⊢
            have hpos : 0 < prodSel true (sel true ds k1s) k2s := Nat.pos_of_ne_zero (by rintro h; simp [h] at ha)
            have ha' := Nat.mod_lt a hpos
            have hb' := Nat.mod_lt b hpos
            have hpc := prodSel_compose ds k1s k2s
            have := ih k1s k2s hl1 hl2
              (fun x y => g (a / prodSel true (sel true ds k1s) k2s * prodDims ds + x)
                (b / prodSel true (sel true ds k1s) k2s * prodDims ds + y))
              (a % prodSel true (sel true ds k1s) k2s) (b % prodSel true (sel true ds k1s) k2s) ha' hb'
            refine Eq.trans (Eq.trans (sum_congr rfl fun r _ => ?_) this) (sum_congr rfl fun r2 hr2 => sum_congr rfl fun t1 _ => ?_)
            · simp only [ptIndex, if_true, hpc]
            · have hr' := mem_range.1 hr2
              have hia := ptIndex_lt (sel true ds k1s) k2s hl2 _ r2 ha' hr'
              have hib := ptIndex_lt (sel true ds k1s) k2s hl2 _ r2 hb' hr'
              simp only [ptIndex, if_true, hPS, div_of_lt hia, mod_of_lt hia, div_of_lt hib, mod_of_lt hib]

theorem foldl_ite_add {M : Type*} [AddCommMonoid M] {β : Type*} (es : List β) (p : β → Prop) [DecidablePred p]
    (v : β → M) (init : M) :
    es.foldl (fun acc e => if p e then acc + v e else acc) init
      = init + (es.map fun e => if p e then v e else 0).sum := by
  induction es generalizing init with
  | nil => simp
  | cons e es ih =>
    simp only [List.foldl_cons, List.map_cons, List.sum_cons, ih]
    split <;> simp [add_assoc]

theorem sparse_single {M : Type*} [AddCommMonoid M] (dims : List ℕ) (keep : List Bool) (hlen : dims.length = keep.length)
    (x y : ℕ) (v : M) (hx : x < prodDims dims) (hy : y < prodDims dims) (a b : ℕ)
    (ha : a < prodSel true dims keep) (hb : b < prodSel true dims keep) :
    ∑ t ∈ range (prodSel false dims keep), (if x = ptIndex dims keep a t ∧ y = ptIndex dims keep b t then v else 0)
      = if part true dims keep x = a ∧ part true dims keep y = b ∧ part false dims keep x = part false dims keep y
        then v else 0 := by
  by_cases hC : part true dims keep x = a ∧ part true dims keep y = b ∧ part false dims keep x = part false dims keep y
  · rw [if_pos hC]
    obtain ⟨hxa, hyb, hxy⟩ := hC
    have ht0 := part_lt false dims keep hlen x hx
    rw [sum_eq_single (part false dims keep x)]
    · have e1 := ptIndex_part dims keep hlen x hx
      have e2 := ptIndex_part dims keep hlen y hy
      rw [hxa] at e1; rw [hyb, ← hxy] at e2
      rw [if_pos ⟨e1.symm, e2.symm⟩]
    · intro t ht hne
      rw [if_neg]
      rintro ⟨h, _⟩
      have := (part_ptIndex dims keep hlen a t ha (mem_range.1 ht)).2
      rw [← h] at this; exact hne this.symm
    · intro h; exact absurd (mem_range.2 ht0) h
  · rw [if_neg hC]
    refine sum_eq_zero fun t ht => ?_
    rw [if_neg]
    rintro ⟨h1, h2⟩
    have p1 := part_ptIndex dims keep hlen a t ha (mem_range.1 ht)
    have p2 := part_ptIndex dims keep hlen b t hb (mem_range.1 ht)
    rw [← h1] at p1; rw [← h2] at p2
    exact hC ⟨p1.1, p2.1, p1.2.trans p2.2.symm⟩

theorem sparse_eq {M : Type} [AddCommMonoid M] (dims : List ℕ) (keep : List Bool) (hlen : dims.length = keep.length)
    (es : List (ℕ × ℕ × M)) (hes : ∀ e ∈ es, e.1 < prodDims dims ∧ e.2.1 < prodDims dims) (a b : ℕ)
    (ha : a < prodSel true dims keep) (hb : b < prodSel true dims keep) :
    partialTraceSparse dims keep es a b = partialTrace dims keep (denseOf es) a b := by
  simp only [partialTraceSparse, partialTrace, denseOf, sumRange_eq_sum]
  rw [foldl_ite_add es (fun e => part true dims keep e.1 = a ∧ part true dims keep e.2.1 = b
        ∧ part false dims keep e.1 = part false dims keep e.2.1) (fun e => e.2.2), zero_add]
  have : ∀ t, List.foldl (fun acc (e : ℕ × ℕ × M) =>
        if e.1 = ptIndex dims keep a t ∧ e.2.1 = ptIndex dims keep b t then acc + e.2.2 else acc) 0 es
      = (es.map fun e => if e.1 = ptIndex dims keep a t ∧ e.2.1 = ptIndex dims keep b t then e.2.2 else 0).sum := by
    intro t
    rw [foldl_ite_add es (fun e => e.1 = ptIndex dims keep a t ∧ e.2.1 = ptIndex dims keep b t) (fun e => e.2.2), zero_add]
  simp only [this]
  clear this
  induction es with
  | nil => simp
  | cons e es ih =>
    have he := hes e (List.mem_cons_self ..)
    simp only [List.map_cons, List.sum_cons, sum_add_distrib]
    rw [← ih (fun e' h' => hes e' (List.mem_cons_of_mem _ h'))]
    rw [sparse_single dims keep hlen e.1 e.2.1 e.2.2 he.1 he.2 a b ha hb]


/-! ### operators embedded on the kept axes; regrouping of axes -/

/-- **expectation of an embedded operator = expectation in the reduced state**:
`Σ_{x,y} conj(ψ_x)·(G ⊗ 1)_{xy}·ψ_y = Σ_{u,v} G_{uv}·(Tr_T |ψ⟩⟨ψ|)_{vu}` -/
theorem embedKeep_expectation {M : Type} [CommRing M] [StarRing M] (dims : List ℕ) (keep : List Bool)
    (hlen : dims.length = keep.length) (G : ℕ → ℕ → M) (ψ : ℕ → M) :
    ∑ x ∈ range (prodDims dims), ∑ y ∈ range (prodDims dims), star (ψ x) * embedKeep dims keep G x y * ψ y
      = ∑ u ∈ range (prodSel true dims keep), ∑ v ∈ range (prodSel true dims keep),
          G u v * partialTrace dims keep (fun y x => ψ y * star (ψ x)) v u := by
  have hA : ∑ x ∈ range (prodDims dims), ∑ y ∈ range (prodDims dims), star (ψ x) * embedKeep dims keep G x y * ψ y
      = ∑ u ∈ range (prodSel true dims keep), ∑ t ∈ range (prodSel false dims keep),
        ∑ v ∈ range (prodSel true dims keep), ∑ t' ∈ range (prodSel false dims keep),
          star (ψ (ptIndex dims keep u t)) * embedKeep dims keep G (ptIndex dims keep u t) (ptIndex dims keep v t')
            * ψ (ptIndex dims keep v t') := by
    rw [← sum_ptIndex dims keep hlen (fun x => ∑ y ∈ range (prodDims dims), star (ψ x) * embedKeep dims keep G x y * ψ y)]
    refine sum_congr rfl fun u _ => sum_congr rfl fun t _ => ?_
    rw [← sum_ptIndex dims keep hlen
      (fun y => star (ψ (ptIndex dims keep u t)) * embedKeep dims keep G (ptIndex dims keep u t) y * ψ y)]
  rw [hA]
  simp only [partialTrace, sumRange_eq_sum, mul_sum]
  refine sum_congr rfl fun u hu => ?_
  rw [sum_comm]
  refine sum_congr rfl fun v hv => sum_congr rfl fun t ht => ?_
  have h1 := part_ptIndex dims keep hlen u t (mem_range.1 hu) (mem_range.1 ht)
  rw [sum_eq_single t]
  · have h2 := part_ptIndex dims keep hlen v t (mem_range.1 hv) (mem_range.1 ht)
    simp only [embedKeep, h1.1, h1.2, h2.1, h2.2, if_true]; ring
  · intro t' ht' hne
    have h2 := part_ptIndex dims keep hlen v t' (mem_range.1 hv) (mem_range.1 ht')
    simp only [embedKeep, h1.2, h2.2, if_neg (Ne.symm hne), mul_zero, zero_mul]
  · intro h; exact absurd ht h

theorem split_arith (t d2 P D : ℕ) : t / (d2 * P) * (d2 * D) + t % (d2 * P) / P * D = t / P * D := by
  rw [Nat.mod_mul_left_div_self, Nat.mul_comm d2 P, ← Nat.div_div_eq_div_mul]
  have := Nat.div_add_mod (t / P) d2
  calc t / P / d2 * (d2 * D) + t / P % d2 * D = (d2 * (t / P / d2) + t / P % d2) * D := by ring
    _ = t / P * D := by rw [this]

/-- splitting one axis `d1·d2` into two axes `d1, d2` with the same mask bit does not change the index function -/
theorem ptIndex_split (d1 d2 : ℕ) (ds : List ℕ) (k : Bool) (ks : List Bool) (a t : ℕ) :
    ptIndex (d1 :: d2 :: ds) (k :: k :: ks) a t = ptIndex (d1 * d2 :: ds) (k :: ks) a t := by
  cases k
  · simp only [ptIndex, prodSel, prodDims, Bool.false_eq_true, if_false, if_true, one_mul]
    rw [Nat.mod_mul_left_mod, ← Nat.add_assoc, split_arith]
  · simp only [ptIndex, prodSel, prodDims, if_true]
    rw [Nat.mod_mul_left_mod, ← Nat.add_assoc, split_arith]

theorem prodSel_split (b : Bool) (d1 d2 : ℕ) (ds : List ℕ) (k : Bool) (ks : List Bool) :
    prodSel b (d1 :: d2 :: ds) (k :: k :: ks) = prodSel b (d1 * d2 :: ds) (k :: ks) := by
  by_cases h : k = b <;> simp [prodSel, h, Nat.mul_assoc]

theorem partialTrace_split {M : Type} [AddCommMonoid M] (d1 d2 : ℕ) (ds : List ℕ) (k : Bool) (ks : List Bool)
    (ρ : ℕ → ℕ → M) (a b : ℕ) :
    partialTrace (d1 :: d2 :: ds) (k :: k :: ks) ρ a b = partialTrace (d1 * d2 :: ds) (k :: ks) ρ a b := by
  simp only [partialTrace, prodSel_split, ptIndex_split]

/-- **the two `cvxpy.partial_trace` calls of `sdp_2local_rdm_solve` compute the reduced state of the middle block** of the
register `[L, 4, R]` (qubits `ind0, ind0+1` of the chain) -/
theorem rdmTwoStep_eq {M : Type} [AddCommMonoid M] (L R : ℕ) (hL : L ≠ 1) (hR : R ≠ 1) (X : ℕ → ℕ → M) (a b : ℕ) :
    rdmTwoStep L R X a b = partialTrace [L, 4, R] [false, true, false] X a b := by
  simp only [rdmTwoStep, hL, hR, if_false, partialTrace, sumRange_eq_sum, ptIndex, prodSel, prodDims,
    Bool.false_eq_true, Bool.true_eq_false, if_true, one_mul, mul_one, Nat.div_one, Nat.mod_one, Nat.zero_mul,
    Nat.add_zero, Nat.mul_one]
  rw [sum_range_mul, sum_comm]
  refine sum_congr rfl fun q _ => sum_congr rfl fun r hr => ?_
  have hr' := mem_range.1 hr
  simp only [div_of_lt hr', mod_of_lt hr']

/-- the boundary cases: no left block (`ind0 = 0`) / no right block (`ind0 = n-2`) -/
theorem rdmTwoStep_left {M : Type} [AddCommMonoid M] (R : ℕ) (hR : R ≠ 1) (X : ℕ → ℕ → M) (a b : ℕ) :
    rdmTwoStep 1 R X a b = partialTrace [4, R] [true, false] X a b := by
  simp [rdmTwoStep, hR]

theorem rdmTwoStep_right {M : Type} [AddCommMonoid M] (L : ℕ) (hL : L ≠ 1) (X : ℕ → ℕ → M) (a b : ℕ) :
    rdmTwoStep L 1 X a b = partialTrace [L, 4] [false, true] X a b := by
  simp [rdmTwoStep, hL]

end PT
end Numqi
