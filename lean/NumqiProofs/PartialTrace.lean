/-
Helper lemmas for the partial-trace model (C17; `sumRange` bridge reused by C12, C04).
-/
import Mathlib.Tactic
import Mathlib.Algebra.BigOperators.Fin
import Mathlib.Algebra.BigOperators.Intervals
import NumqiModel.PartialTrace

namespace Numqi
open Finset

theorem sumRange_eq_sum {M : Type} [AddCommMonoid M] (n : ℕ) (f : ℕ → M) :
    sumRange n f = ∑ i ∈ range n, f i := by
  induction n with
  | zero => simp [sumRange]
  | succ n ih => rw [sumRange, ih, Finset.sum_range_succ]

theorem div_of_lt {q r P : ℕ} (hr : r < P) : (q * P + r) / P = q := by
  rw [Nat.add_comm, Nat.add_mul_div_right _ _ (by omega), Nat.div_eq_of_lt hr, Nat.zero_add]

theorem mod_of_lt {q r P : ℕ} (hr : r < P) : (q * P + r) % P = r := by
  rw [Nat.add_comm, Nat.add_mul_mod_self_right, Nat.mod_eq_of_lt hr]

theorem mul_add_lt {q d r P : ℕ} (hq : q < d) (hr : r < P) : q * P + r < d * P := by
  calc q * P + r < q * P + P := by omega
    _ = (q + 1) * P := by ring
    _ ≤ d * P := Nat.mul_le_mul_right _ (by omega)

/-- a sum over `range (m*n)` as a double sum (row-major split of a flat index) -/
theorem sum_range_mul {M : Type*} [AddCommMonoid M] (m n : ℕ) (g : ℕ → M) :
    ∑ x ∈ range (m * n), g x = ∑ q ∈ range m, ∑ r ∈ range n, g (q * n + r) := by
  induction m with
  | zero => simp
  | succ m ih =>
    rw [Nat.succ_mul, Finset.sum_range_add, ih, Finset.sum_range_succ]

namespace PT

theorem prodSel_eq_prodDims_sel (b : Bool) (dims : List ℕ) (keep : List Bool) :
    prodSel b dims keep = prodDims (sel b dims keep) := by
  induction dims generalizing keep with
  | nil => cases keep <;> simp [prodSel, sel, prodDims]
  | cons d ds ih =>
    cases keep with
    | nil => simp [prodSel, sel, prodDims]
    | cons k ks =>
      by_cases h : k = b
      · simp [prodSel, sel, prodDims, h, ih]
      · simp [prodSel, sel, h, ih]

theorem prodDims_eq_mul (dims : List ℕ) (keep : List Bool) (hlen : dims.length = keep.length) :
    prodDims dims = prodSel true dims keep * prodSel false dims keep := by
  induction dims generalizing keep with
  | nil => cases keep <;> simp [prodSel, prodDims]
  | cons d ds ih =>
    cases keep with
    | nil => simp at hlen
    | cons k ks =>
      have := ih ks (by simpa using hlen)
      cases k <;> simp [prodSel, prodDims, this] <;> ring

theorem ptIndex_lt (dims : List ℕ) (keep : List Bool) (hlen : dims.length = keep.length) (a t : ℕ)
    (ha : a < prodSel true dims keep) (ht : t < prodSel false dims keep) :
    ptIndex dims keep a t < prodDims dims := by
  induction dims generalizing keep a t with
  | nil => cases keep <;> simp [ptIndex, prodDims]
  | cons d ds ih =>
    cases keep with
    | nil => simp at hlen
    | cons k ks =>
      have hl : ds.length = ks.length := by simpa using hlen
      cases k
      · simp only [prodSel, Bool.false_eq_true, if_false, if_true, one_mul] at ha ht
        have hpos : 0 < prodSel false ds ks := Nat.pos_of_ne_zero (by rintro h; simp [h] at ht)
        have h1 := ih ks hl a (t % prodSel false ds ks) ha (Nat.mod_lt _ hpos)
        have hq : t / prodSel false ds ks < d := (Nat.div_lt_iff_lt_mul hpos).2 ht
        simp only [ptIndex, Bool.false_eq_true, if_false, prodDims]
        exact mul_add_lt hq h1
      · simp only [prodSel, Bool.true_eq_false, if_false, if_true, one_mul] at ha ht
        have hpos : 0 < prodSel true ds ks := Nat.pos_of_ne_zero (by rintro h; simp [h] at ha)
        have h1 := ih ks hl (a % prodSel true ds ks) t (Nat.mod_lt _ hpos) ht
        have hq : a / prodSel true ds ks < d := (Nat.div_lt_iff_lt_mul hpos).2 ha
        simp only [ptIndex, if_true, prodDims]
        exact mul_add_lt hq h1

theorem part_lt (b : Bool) (dims : List ℕ) (keep : List Bool) (hlen : dims.length = keep.length) (x : ℕ)
    (hx : x < prodDims dims) : part b dims keep x < prodSel b dims keep := by
  induction dims generalizing keep x with
  | nil => cases keep <;> simp [part, prodSel]
  | cons d ds ih =>
    cases keep with
    | nil => simp at hlen
    | cons k ks =>
      have hl : ds.length = ks.length := by simpa using hlen
      simp only [prodDims] at hx
      have hpos : 0 < prodDims ds := Nat.pos_of_ne_zero (by rintro h; simp [h] at hx)
      have h1 := ih ks hl (x % prodDims ds) (Nat.mod_lt _ hpos)
      have hq : x / prodDims ds < d := (Nat.div_lt_iff_lt_mul hpos).2 hx
      by_cases h : k = b
      · simp only [part, prodSel, h, if_true]
        exact mul_add_lt hq h1
      · simp only [part, prodSel, h, if_false, one_mul]
        exact h1

theorem part_ptIndex (dims : List ℕ) (keep : List Bool) (hlen : dims.length = keep.length) (a t : ℕ)
    (ha : a < prodSel true dims keep) (ht : t < prodSel false dims keep) :
    part true dims keep (ptIndex dims keep a t) = a ∧ part false dims keep (ptIndex dims keep a t) = t := by
  induction dims generalizing keep a t with
  | nil =>
    cases keep <;> simp [prodSel] at ha ht <;> simp [part, ha, ht]
  | cons d ds ih =>
    cases keep with
    | nil => simp at hlen
    | cons k ks =>
      have hl : ds.length = ks.length := by simpa using hlen
      cases k
      · simp only [prodSel, Bool.false_eq_true, if_false, if_true, one_mul] at ha ht
        have hpos : 0 < prodSel false ds ks := Nat.pos_of_ne_zero (by rintro h; simp [h] at ht)
        have hlt := ptIndex_lt ds ks hl a (t % prodSel false ds ks) ha (Nat.mod_lt _ hpos)
        obtain ⟨h1, h2⟩ := ih ks hl a (t % prodSel false ds ks) ha (Nat.mod_lt _ hpos)
        simp only [ptIndex, part, Bool.false_eq_true, if_false, if_true, div_of_lt hlt, mod_of_lt hlt, h1, h2]
        exact ⟨trivial, Nat.div_add_mod' _ _⟩
      · simp only [prodSel, Bool.true_eq_false, if_false, if_true, one_mul] at ha ht
        have hpos : 0 < prodSel true ds ks := Nat.pos_of_ne_zero (by rintro h; simp [h] at ha)
        have hlt := ptIndex_lt ds ks hl (a % prodSel true ds ks) t (Nat.mod_lt _ hpos) ht
        obtain ⟨h1, h2⟩ := ih ks hl (a % prodSel true ds ks) t (Nat.mod_lt _ hpos) ht
        simp only [ptIndex, part, Bool.true_eq_false, if_false, if_true, div_of_lt hlt, mod_of_lt hlt, h1, h2]
        exact ⟨Nat.div_add_mod' _ _, trivial⟩

theorem ptIndex_part (dims : List ℕ) (keep : List Bool) (hlen : dims.length = keep.length) (x : ℕ)
    (hx : x < prodDims dims) :
    ptIndex dims keep (part true dims keep x) (part false dims keep x) = x := by
  induction dims generalizing keep x with
  | nil =>
    cases keep <;> simp [prodDims] at hx <;> simp [ptIndex, hx]
  | cons d ds ih =>
    cases keep with
    | nil => simp at hlen
    | cons k ks =>
      have hl : ds.length = ks.length := by simpa using hlen
      simp only [prodDims] at hx
      have hpos : 0 < prodDims ds := Nat.pos_of_ne_zero (by rintro h; simp [h] at hx)
      have hr := Nat.mod_lt x hpos
      have h1 := ih ks hl (x % prodDims ds) hr
      have hpt := part_lt true ds ks hl _ hr
      have hpf := part_lt false ds ks hl _ hr
      cases k
      · simp only [ptIndex, part, Bool.false_eq_true, Bool.true_eq_false, if_false, if_true,
          div_of_lt hpf, mod_of_lt hpf, h1]
        exact Nat.div_add_mod' _ _
      · simp only [ptIndex, part, Bool.false_eq_true, Bool.true_eq_false, if_false, if_true,
          div_of_lt hpt, mod_of_lt hpt, h1]
        exact Nat.div_add_mod' _ _

/-- `(a, t) ↦ ptIndex a t` enumerates every flat index exactly once -/
theorem sum_ptIndex {M : Type*} [AddCommMonoid M] (dims : List ℕ) (keep : List Bool)
    (hlen : dims.length = keep.length) (f : ℕ → M) :
    ∑ a ∈ range (prodSel true dims keep), ∑ t ∈ range (prodSel false dims keep), f (ptIndex dims keep a t)
      = ∑ x ∈ range (prodDims dims), f x := by
  induction dims generalizing keep f with
  | nil => cases keep <;> simp [prodSel, prodDims, ptIndex]
  | cons d ds ih =>
    cases keep with
    | nil => simp at hlen
    | cons k ks =>
      have hl : ds.length = ks.length := by simpa using hlen
      cases k
      · simp only [prodSel, prodDims, Bool.false_eq_true, Bool.true_eq_false, if_false, if_true, one_mul]
        rw [sum_range_mul d (prodDims ds)]
        have : ∀ a ∈ range (prodSel true ds ks),
            ∑ t ∈ range (d * prodSel false ds ks), f (ptIndex (d :: ds) (false :: ks) a t)
            = ∑ q ∈ range d, ∑ r ∈ range (prodSel false ds ks), f (q * prodDims ds + ptIndex ds ks a r) := by
          intro a _
          rw [sum_range_mul]
          refine sum_congr rfl fun q _ => sum_congr rfl fun r hr => ?_
          have hr' := mem_range.1 hr
          simp only [ptIndex, Bool.false_eq_true, if_false, div_of_lt hr', mod_of_lt hr']
        rw [sum_congr rfl this, sum_comm]
        refine sum_congr rfl fun q _ => ?_
        exact ih ks hl (fun x => f (q * prodDims ds + x))
      · simp only [prodSel, prodDims, Bool.false_eq_true, Bool.true_eq_false, if_false, if_true, one_mul]
        rw [sum_range_mul d (prodDims ds), sum_range_mul d (prodSel true ds ks)]
        refine sum_congr rfl fun q _ => ?_
        rw [← ih ks hl (fun x => f (q * prodDims ds + x))]
        refine sum_congr rfl fun r hr => sum_congr rfl fun t _ => ?_
        have hr' := mem_range.1 hr
        simp only [ptIndex, if_true, div_of_lt hr', mod_of_lt hr']

/-- the kept (traced) part of `x` has exactly the digits of `x` on the kept (traced) axes -/
theorem unravel_part (b : Bool) (dims : List ℕ) (keep : List Bool) (hlen : dims.length = keep.length) (x : ℕ)
    (hx : x < prodDims dims) :
    unravel (sel b dims keep) (part b dims keep x) = sel b (unravel dims x) keep := by
  induction dims generalizing keep x with
  | nil => cases keep <;> simp [sel, unravel]
  | cons d ds ih =>
    cases keep with
    | nil => simp [sel, unravel]
    | cons k ks =>
      have hl : ds.length = ks.length := by simpa using hlen
      simp only [prodDims] at hx
      have hpos : 0 < prodDims ds := Nat.pos_of_ne_zero (by rintro h; simp [h] at hx)
      have hr := Nat.mod_lt x hpos
      have h1 := ih ks hl (x % prodDims ds) hr
      have hp := part_lt b ds ks hl _ hr
      rw [prodSel_eq_prodDims_sel] at hp
      by_cases h : k = b
      · simp only [sel, part, unravel, h, if_true, prodSel_eq_prodDims_sel, div_of_lt hp, mod_of_lt hp, h1]
      · simp only [sel, part, unravel, h, if_false, h1]

end PT
end Numqi
