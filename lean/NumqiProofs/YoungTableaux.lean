/-
C14 helper (tableaux, part 2): shapes, the tableau predicate, structural facts of standard tableaux
(minimum in the corner, the counting bound behind `upper_bound`).
-/
import NumqiProofs.YoungComb

namespace Numqi.Young

/-! ### shapes -/

/-- `check_young_diagram`: non-empty, positive, non-increasing -/
def ValidShape (shape : List Nat) : Prop := shape ≠ [] ∧ (∀ a ∈ shape, 0 < a) ∧ shape.Pairwise (· ≥ ·)

theorem validShape_of_check : ∀ {shape : List Nat}, checkShape shape = true → ValidShape shape
  | [], h => by simp [checkShape] at h
  | [a], h => by
    simp only [checkShape, decide_eq_true_eq] at h
    exact ⟨by simp, by simpa using h, List.pairwise_singleton _ _⟩
  | a :: b :: rest, h => by
    simp only [checkShape, Bool.and_eq_true, decide_eq_true_eq] at h
    obtain ⟨_, hp, hs⟩ := validShape_of_check h.2
    refine ⟨by simp, ?_, ?_⟩
    · intro x hx
      rcases List.mem_cons.1 hx with rfl | hx
      · have := hp b List.mem_cons_self; omega
      · exact hp x hx
    · rw [List.pairwise_cons]
      refine ⟨?_, hs⟩
      intro x hx
      rcases List.mem_cons.1 hx with rfl | hx
      · exact h.1
      · have := (List.pairwise_cons.1 hs).1 x hx; omega

theorem ValidShape.tail {a b : Nat} {rest : List Nat} (h : ValidShape (a :: b :: rest)) : ValidShape (b :: rest) :=
  ⟨by simp, fun x hx => h.2.1 x (List.mem_cons_of_mem _ hx), (List.pairwise_cons.1 h.2.2).2⟩

theorem ValidShape.le_head {a : Nat} {rest : List Nat} (h : ValidShape (a :: rest)) : ∀ x ∈ a :: rest, x ≤ a := by
  intro x hx
  rcases List.mem_cons.1 hx with rfl | hx
  · exact le_refl _
  · exact (List.pairwise_cons.1 h.2.2).1 x hx

/-- number of cells in the columns `≥ c` -/
def colsFrom (shape : List Nat) (c : Nat) : Nat := (shape.map (· - c)).sum

theorem sum_ite_range' (a : Nat) : ∀ (k c : Nat),
    ((List.range' c k).map fun c' => if c' < a then 1 else 0).sum = min a (c + k) - c := by
  intro k
  induction k with
  | zero => intro c; simp
  | succ k ih =>
    intro c
    rw [List.range'_succ, List.map_cons, List.sum_cons, ih (c + 1)]
    by_cases h : c < a
    · simp only [h, if_true]; omega
    · simp only [h, if_false]; omega

theorem sum_filter_range' (r : Nat) : ∀ (s : List Nat) (c : Nat), (∀ a ∈ s, a ≤ r) →
    ((List.range' c (r - c)).map fun c' => (s.filter (· > c')).length).sum = (s.map (· - c)).sum := by
  intro s
  induction s with
  | nil => intro c _; simp
  | cons a s ih =>
    intro c hs
    have ha : a ≤ r := hs a List.mem_cons_self
    have hsplit : ∀ c', ((a :: s).filter (· > c')).length = (if c' < a then 1 else 0) + (s.filter (· > c')).length := by
      intro c'
      by_cases h : c' < a
      · simp [h]; omega
      · simp [h]
    simp only [hsplit, List.sum_map_add, List.map_cons, List.sum_cons]
    rw [ih c (fun x hx => hs x (List.mem_cons_of_mem _ hx)), sum_ite_range']
    omega

/-- **`(youngT[c:]).sum()` is the number of cells in the columns `≥ c`** -/
theorem transpose_drop_sum {shape : List Nat} (hv : ValidShape shape) (c : Nat) :
    ((transpose shape).drop c).sum = colsFrom shape c := by
  obtain ⟨a, rest, rfl⟩ := List.exists_cons_of_ne_nil hv.1
  unfold transpose colsFrom
  simp only [List.headD_cons]
  rw [← List.map_drop, List.range_eq_range', List.drop_range']
  simp only [zero_add, mul_one]
  exact sum_filter_range' a (a :: rest) c hv.le_head

theorem colsFrom_zero (shape : List Nat) : colsFrom shape 0 = shape.sum := by simp [colsFrom]

theorem colsFrom_cons (a : Nat) (rest : List Nat) (c : Nat) : colsFrom (a :: rest) c = (a - c) + colsFrom rest c := by
  simp [colsFrom]

theorem colsFrom_le (shape : List Nat) (c : Nat) : colsFrom shape c ≤ shape.sum := by
  induction shape with
  | nil => simp [colsFrom]
  | cons a s ih => rw [colsFrom_cons, List.sum_cons]; omega

/-- the exclusive upper bound the code puts on the position of the entry in row 0, column `i+1` -/
def upB (shape : List Nat) (i : Nat) : Nat := shape.sum - colsFrom shape (i + 1)

/-! ### tableaux -/

/-- entries of `b` are above the entries of `a` in the same column -/
def colLt (a b : List Nat) : Prop := ∀ j, j < a.length → j < b.length → a.getD j 0 < b.getD j 0

def ColChain : List (List Nat) → Prop
  | [] => True
  | [_] => True
  | a :: b :: rest => colLt a b ∧ ColChain (b :: rest)

/-- `t` is a filling of `shape` with the numbers `idx`, increasing along rows and down columns -/
structure IsTab (shape idx : List Nat) (t : List (List Nat)) : Prop where
  rows : t.map List.length = shape
  perm : t.flatten.Perm idx
  rowInc : ∀ row ∈ t, SInc row
  colInc : ColChain t

theorem colChain_head_lt : ∀ (a : List Nat) (rest : List (List Nat)), ColChain (a :: rest) →
    ((a :: rest).map List.length).Pairwise (· ≥ ·) →
    ∀ b ∈ rest, ∀ j, j < b.length → a.getD j 0 < b.getD j 0 := by
  intro a rest
  induction rest generalizing a with
  | nil => intro _ _ b hb; simp at hb
  | cons b rest ih =>
    intro hc hl b' hb' j hj
    obtain ⟨hab, hc'⟩ := hc
    simp only [List.map_cons, List.pairwise_cons] at hl
    have hba : b.length ≤ a.length := hl.1 b.length (by simp)
    rcases List.mem_cons.1 hb' with rfl | hb'
    · exact hab j (by omega) hj
    · have h1 := ih b hc' (by simpa [List.pairwise_cons] using hl.2) b' hb' j hj
      have hb'b : b'.length ≤ b.length := hl.2.1 b'.length (List.mem_map.2 ⟨b', hb', rfl⟩)
      have h2 := hab j (by omega) (by omega)
      omega

theorem sinc_head_le {x : Nat} {row : List Nat} (h : SInc (x :: row)) : ∀ e ∈ x :: row, x ≤ e := by
  intro e he
  rcases List.mem_cons.1 he with rfl | he
  · exact le_refl _
  · exact le_of_lt ((sinc_cons.1 h).1 e he)

theorem getD_mem {l : List Nat} {j : Nat} (h : j < l.length) : l.getD j 0 ∈ l := by
  rw [getD_eq_getElem' _ h]; exact List.getElem_mem _

theorem sinc_getD_le {l : List Nat} (h : SInc l) {i j : Nat} (hij : i ≤ j) (hj : j < l.length) :
    l.getD i 0 ≤ l.getD j 0 := by
  rw [getD_eq_getElem' _ hj, getD_eq_getElem' _ (by omega : i < l.length)]
  rcases Nat.lt_or_ge i j with h1 | h1
  · exact le_of_lt (sinc_getElem_lt h h1 hj)
  · have : i = j := by omega
    subst this; exact le_refl _

section corner
variable {r : Nat} {srest idx np0 R0 : List Nat} {i0 : Nat} {rest : List (List Nat)}

theorem tab_lengths (hv : ValidShape (r :: srest)) (ht : IsTab (r :: srest) idx (R0 :: rest)) :
    R0.length = r ∧ ((R0 :: rest).map List.length).Pairwise (· ≥ ·) := by
  have := ht.rows
  refine ⟨by simpa using (List.cons.inj (by simpa using this)).1, ?_⟩
  rw [this]; exact hv.2.2

/-- **the smallest number sits in the corner** -/
theorem tab_corner (hv : ValidShape (r :: srest)) (hidx : SInc (i0 :: np0))
    (ht : IsTab (r :: srest) (i0 :: np0) (R0 :: rest)) : ∃ row, R0 = i0 :: row := by
  obtain ⟨hlen, hpw⟩ := tab_lengths hv ht
  have hr : 0 < r := hv.2.1 r List.mem_cons_self
  cases R0 with
  | nil => simp at hlen; omega
  | cons x row =>
    refine ⟨row, ?_⟩
    congr 1
    have hR0 : SInc (x :: row) := ht.rowInc _ List.mem_cons_self
    -- x is one of the numbers, so i0 ≤ x
    have hx : x ∈ i0 :: np0 := ht.perm.mem_iff.1 (by simp)
    have h1 : i0 ≤ x := sinc_head_le hidx x hx
    -- i0 is somewhere in the tableau, and everything in the tableau is ≥ x
    have hi0 : i0 ∈ ((x :: row) :: rest).flatten := ht.perm.mem_iff.2 List.mem_cons_self
    obtain ⟨row', hrow', hi0'⟩ := List.mem_flatten.1 hi0
    have h2 : x ≤ i0 := by
      rcases List.mem_cons.1 hrow' with rfl | hr'
      · exact sinc_head_le hR0 i0 hi0'
      · obtain ⟨j, hj, rfl⟩ := List.getElem_of_mem hi0'
        have hlt := colChain_head_lt (x :: row) rest ht.colInc hpw row' hr' j hj
        have hle : row'.length ≤ (x :: row).length := by
          have := hpw
          simp only [List.map_cons, List.pairwise_cons] at this
          exact this.1 row'.length (List.mem_map.2 ⟨row', hr', rfl⟩)
        have h0 := sinc_getD_le hR0 (Nat.zero_le j) (by omega)
        rw [getD_eq_getElem' _ hj] at hlt
        simp only [List.getD_cons_zero] at h0
        omega
    omega

/-- **the counting bound behind `upper_bound`**: the entry in row 0, column `c ≥ 1` has at most
`N − 1 − #cells in columns ≥ c` smaller numbers among `idx[1:]` -/
theorem tab_upper (hv : ValidShape (r :: srest)) (hidx : SInc (i0 :: np0)) (hN : (i0 :: np0).length = (r :: srest).sum)
    (ht : IsTab (r :: srest) (i0 :: np0) (R0 :: rest)) {c : Nat} (hc1 : 1 ≤ c) (hc : c < r) :
    cntLt np0 (R0.getD c 0) + 1 + colsFrom (r :: srest) c ≤ (r :: srest).sum := by
  obtain ⟨hlen, hpw⟩ := tab_lengths hv ht
  obtain ⟨row, rfl⟩ := tab_corner hv hidx ht
  set v := (i0 :: row).getD c 0 with hvdef
  have hR0 : SInc (i0 :: row) := ht.rowInc _ List.mem_cons_self
  have hcl : c < (i0 :: row).length := by omega
  -- every entry in a column ≥ c is ≥ v
  have hge : ∀ row' ∈ (i0 :: row) :: rest, ∀ e ∈ row'.drop c, v ≤ e := by
    intro row' hrow' e he
    obtain ⟨k, hk, rfl⟩ := List.getElem_of_mem he
    have hk' : c + k < row'.length := by simp at hk; omega
    rw [List.getElem_drop]
    rcases List.mem_cons.1 hrow' with rfl | hr'
    · have := sinc_getD_le hR0 (Nat.le_add_right c k) hk'
      rwa [getD_eq_getElem' _ hk'] at this
    · have hlt := colChain_head_lt (i0 :: row) rest ht.colInc hpw row' hr' (c + k) hk'
      have hle : row'.length ≤ (i0 :: row).length := by
        have := hpw
        simp only [List.map_cons, List.pairwise_cons] at this
        exact this.1 row'.length (List.mem_map.2 ⟨row', hr', rfl⟩)
      have h0 := sinc_getD_le hR0 (Nat.le_add_right c k) (by omega : c + k < (i0 :: row).length)
      rw [getD_eq_getElem' _ hk'] at hlt
      omega
  -- count them
  have hcount : colsFrom (r :: srest) c ≤ ((i0 :: row) :: rest).flatten.countP (fun e => decide (v ≤ e)) := by
    rw [List.countP_flatten]
    have : colsFrom (r :: srest) c = ((((i0 :: row) :: rest).map List.length).map (· - c)).sum := by rw [ht.rows]; rfl
    rw [this, List.map_map]
    apply List.sum_le_sum
    intro row' hrow'
    simp only [Function.comp_apply]
    calc row'.length - c = (row'.drop c).length := by simp
      _ = (row'.drop c).countP (fun e => decide (v ≤ e)) := by
          rw [List.countP_eq_length.2]; intro e he; simpa using hge row' hrow' e he
      _ ≤ row'.countP (fun e => decide (v ≤ e)) := (List.drop_sublist c row').countP_le
  rw [ht.perm.countP_eq] at hcount
  have hsplit := List.length_eq_countP_add_countP (fun e => decide (e < v)) (l := i0 :: np0)
  have hneg : (i0 :: np0).countP (fun a => decide ¬decide (a < v) = true) = (i0 :: np0).countP (fun e => decide (v ≤ e)) := by
    apply List.countP_congr; intro e _; simp
  have hi0v : i0 < v := by
    have := sinc_getElem_lt hR0 (show 0 < c by omega) hcl
    rw [hvdef, getD_eq_getElem' _ hcl]; simpa using this
  have hcnt : (i0 :: np0).countP (fun e => decide (e < v)) = cntLt np0 v + 1 := by
    have := cntLt_cons i0 np0 v
    simp only [hi0v, if_true] at this
    exact this
  have hNN : (i0 :: np0).length = (r :: srest).sum := hN
  omega

end corner


end Numqi.Young
