/-
Helper lemmas for C15: the pair type `Cx R` is a commutative ring, evaluation lemmas for the explicit
3×3 / 2×2 matrices of the model.
-/
import NumqiModel.Lie
import Mathlib.Tactic
import Mathlib.Data.Matrix.Mul
import Mathlib.LinearAlgebra.Matrix.Determinant.Basic

set_option linter.unusedSectionVars false

namespace Numqi.Lie

variable {R : Type} [CommRing R]

namespace Cx

@[ext] theorem ext' {α : Type} {a b : Cx α} (h1 : a.re = b.re) (h2 : a.im = b.im) : a = b := by
  cases a; cases b; simp_all

@[simp] theorem add_re (a b : Cx R) : (a + b).re = a.re + b.re := rfl
@[simp] theorem add_im (a b : Cx R) : (a + b).im = a.im + b.im := rfl
@[simp] theorem sub_re (a b : Cx R) : (a - b).re = a.re - b.re := rfl
@[simp] theorem sub_im (a b : Cx R) : (a - b).im = a.im - b.im := rfl
@[simp] theorem neg_re (a : Cx R) : (-a).re = -a.re := rfl
@[simp] theorem neg_im (a : Cx R) : (-a).im = -a.im := rfl
@[simp] theorem mul_re (a b : Cx R) : (a * b).re = a.re * b.re - a.im * b.im := rfl
@[simp] theorem mul_im (a b : Cx R) : (a * b).im = a.re * b.im + a.im * b.re := rfl
@[simp] theorem zero_re : (0 : Cx R).re = 0 := rfl
@[simp] theorem zero_im : (0 : Cx R).im = 0 := rfl
@[simp] theorem one_re : (1 : Cx R).re = 1 := rfl
@[simp] theorem one_im : (1 : Cx R).im = 0 := rfl
@[simp] theorem conj_re (a : Cx R) : a.conj.re = a.re := rfl
@[simp] theorem conj_im (a : Cx R) : a.conj.im = -a.im := rfl
@[simp] theorem smul_re (x : R) (a : Cx R) : (smul x a).re = x * a.re := rfl
@[simp] theorem smul_im (x : R) (a : Cx R) : (smul x a).im = x * a.im := rfl
@[simp] theorem imag_re (x : R) : (imag x).re = 0 := rfl
@[simp] theorem imag_im (x : R) : (imag x).im = x := rfl
@[simp] theorem ofReal_re (x : R) : (ofReal x).re = x := rfl
@[simp] theorem ofReal_im (x : R) : (ofReal x).im = 0 := rfl
@[simp] theorem mk_re (x y : R) : (Cx.mk x y).re = x := rfl
@[simp] theorem mk_im (x y : R) : (Cx.mk x y).im = y := rfl

/-- `Cx R` with the model's own `+ - * 0 1` is a commutative ring (for `R = ℝ` it is `ℂ`). -/
instance instCommRing : CommRing (Cx R) where
  add := (· + ·)
  mul := (· * ·)
  neg := Neg.neg
  sub := (· - ·)
  zero := 0
  one := 1
  add_assoc a b c := by ext <;> simp [add_assoc]
  zero_add a := by ext <;> simp
  add_zero a := by ext <;> simp
  add_comm a b := by ext <;> simp [add_comm]
  neg_add_cancel a := by ext <;> simp
  sub_eq_add_neg a b := by ext <;> simp [sub_eq_add_neg]
  mul_assoc a b c := by ext <;> simp <;> ring
  one_mul a := by ext <;> simp
  mul_one a := by ext <;> simp
  left_distrib a b c := by ext <;> simp <;> ring
  right_distrib a b c := by ext <;> simp <;> ring
  mul_comm a b := by ext <;> simp <;> ring
  zero_mul a := by ext <;> simp
  mul_zero a := by ext <;> simp
  nsmul := nsmulRec
  zsmul := zsmulRec

end Cx

/-! ### explicit small matrices -/

@[simp] theorem mk3_00 (a b c d e f g h i : R) : mk3 a b c d e f g h i 0 0 = a := rfl
@[simp] theorem mk3_01 (a b c d e f g h i : R) : mk3 a b c d e f g h i 0 1 = b := rfl
@[simp] theorem mk3_02 (a b c d e f g h i : R) : mk3 a b c d e f g h i 0 2 = c := rfl
@[simp] theorem mk3_10 (a b c d e f g h i : R) : mk3 a b c d e f g h i 1 0 = d := rfl
@[simp] theorem mk3_11 (a b c d e f g h i : R) : mk3 a b c d e f g h i 1 1 = e := rfl
@[simp] theorem mk3_12 (a b c d e f g h i : R) : mk3 a b c d e f g h i 1 2 = f := rfl
@[simp] theorem mk3_20 (a b c d e f g h i : R) : mk3 a b c d e f g h i 2 0 = g := rfl
@[simp] theorem mk3_21 (a b c d e f g h i : R) : mk3 a b c d e f g h i 2 1 = h := rfl
@[simp] theorem mk3_22 (a b c d e f g h i : R) : mk3 a b c d e f g h i 2 2 = i := rfl

@[simp] theorem mk2_00 {S : Type} (a b c d : S) : mk2 a b c d 0 0 = a := rfl
@[simp] theorem mk2_01 {S : Type} (a b c d : S) : mk2 a b c d 0 1 = b := rfl
@[simp] theorem mk2_10 {S : Type} (a b c d : S) : mk2 a b c d 1 0 = c := rfl
@[simp] theorem mk2_11 {S : Type} (a b c d : S) : mk2 a b c d 1 1 = d := rfl

/-- view a model matrix as a Mathlib matrix (definitionally the same function) -/
abbrev M3 (m : Mat3 R) : Matrix (Fin 3) (Fin 3) R := m
abbrev M2 {S : Type} (m : Fin 2 → Fin 2 → S) : Matrix (Fin 2) (Fin 2) S := m

theorem mat3_ext {A B : Matrix (Fin 3) (Fin 3) R}
    (h00 : A 0 0 = B 0 0) (h01 : A 0 1 = B 0 1) (h02 : A 0 2 = B 0 2)
    (h10 : A 1 0 = B 1 0) (h11 : A 1 1 = B 1 1) (h12 : A 1 2 = B 1 2)
    (h20 : A 2 0 = B 2 0) (h21 : A 2 1 = B 2 1) (h22 : A 2 2 = B 2 2) : A = B := by
  ext i j; fin_cases i <;> fin_cases j <;> assumption

theorem mat2_ext {S : Type} {A B : Matrix (Fin 2) (Fin 2) S}
    (h00 : A 0 0 = B 0 0) (h01 : A 0 1 = B 0 1) (h10 : A 1 0 = B 1 0) (h11 : A 1 1 = B 1 1) : A = B := by
  ext i j; fin_cases i <;> fin_cases j <;> assumption

theorem mul3_apply (A B : Matrix (Fin 3) (Fin 3) R) (i j : Fin 3) :
    (A * B) i j = A i 0 * B 0 j + A i 1 * B 1 j + A i 2 * B 2 j := by
  rw [Matrix.mul_apply, Fin.sum_univ_three]

theorem mul2_apply {S : Type} [CommRing S] (A B : Matrix (Fin 2) (Fin 2) S) (i j : Fin 2) :
    (A * B) i j = A i 0 * B 0 j + A i 1 * B 1 j := by
  rw [Matrix.mul_apply, Fin.sum_univ_two]

/-- the model's explicit product is the matrix product -/
theorem mul3_eq (A B : Mat3 R) : mul3 A B = M3 A * M3 B := by
  funext i j; rw [mul3_apply]; rfl

end Numqi.Lie
