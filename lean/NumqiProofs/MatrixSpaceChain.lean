/-
The two remaining links of the soundness chain of the hierarchical rank certificates (C20):
(i) the linear relation among the vectors is non-trivial (the grouped coefficient of the multi-index `(i,…,i)` is `c_i^n`);
(ii) a non-zero kernel vector of the Gram matrix forces its smallest eigenvalue (eigvalsh contract) to be 0.
-/
import NumqiProofs.MatrixSpaceMinors
import NumqiProofs.MatrixSpaceTripartite
import Mathlib.LinearAlgebra.Matrix.PosDef
import Mathlib.Analysis.Complex.Order

namespace Numqi.MatrixSpace
open Finset Matrix

section grouped
variable {R : Type} [CommRing R] {n N : ℕ}

/-- coefficient of the vector `v_α` after grouping the tuples `t` by their sorted multi-index: `Σ_{t : α(t) = α} ∏_m c_{t m}`
(`= multinomial(α)·c^α`) -/
def groupedCoef (c : Fin N → R) (α : List ℕ) : R :=
  ∑ t ∈ (univ : Finset (Fin n → Fin N)).filter (fun t => sortedIndex t = α), ∏ m, c (t m)

/-- the relation over all tuples, grouped by multi-index -/
theorem relation_grouped (c : Fin N → R) (g : List ℕ → R) :
    ∑ t : Fin n → Fin N, (∏ m, c (t m)) * g (sortedIndex t)
      = ∑ α ∈ (univ : Finset (Fin n → Fin N)).image sortedIndex, groupedCoef (n := n) c α * g α := by
  rw [← Finset.sum_fiberwise_of_maps_to (s := univ) (t := univ.image sortedIndex) (g := sortedIndex)
    (fun t _ => Finset.mem_image_of_mem _ (Finset.mem_univ t))]
  refine Finset.sum_congr rfl fun α _ => ?_
  unfold groupedCoef
  rw [Finset.sum_mul]
  refine Finset.sum_congr rfl fun t ht => ?_
  rw [(Finset.mem_filter.1 ht).2]

theorem sortedIndex_eq_replicate_iff (t : Fin n → Fin N) (i : Fin N) :
    sortedIndex t = List.replicate n i.val ↔ t = fun _ => i := by
  constructor
  · intro h
    funext m
    have hm := sortedIndex_getD t ((Tuple.sort t).symm m)
    rw [h, Equiv.apply_symm_apply] at hm
    have : (List.replicate n i.val).getD ((Tuple.sort t).symm m).val 0 = i.val := by
      simp [List.getD_eq_getElem?_getD, List.getElem?_replicate]
    rw [this] at hm
    exact (Fin.ext hm).symm
  · intro h
    subst h
    unfold sortedIndex
    simp [List.ofFn_const]

/-- **the relation is non-trivial**: the grouped coefficient of `v_{(i,…,i)}` is `c_i^n` -/
theorem groupedCoef_const (c : Fin N → R) (i : Fin N) :
    groupedCoef (n := n) c (List.replicate n i.val) = c i ^ n := by
  unfold groupedCoef
  have : (univ : Finset (Fin n → Fin N)).filter (fun t => sortedIndex t = List.replicate n i.val) = {fun _ => i} := by
    ext t
    simp only [Finset.mem_filter, Finset.mem_univ, true_and, Finset.mem_singleton]
    exact sortedIndex_eq_replicate_iff t i
  rw [this, Finset.sum_singleton, Finset.prod_const, Finset.card_univ, Fintype.card_fin]

theorem replicate_mem_image (i : Fin N) :
    List.replicate n i.val ∈ (univ : Finset (Fin n → Fin N)).image sortedIndex :=
  Finset.mem_image.2 ⟨fun _ => i, Finset.mem_univ _, (sortedIndex_eq_replicate_iff _ i).2 rfl⟩

end grouped

section gram
variable {ι κ : Type} [Fintype ι] [Fintype κ] [DecidableEq ι]
open scoped ComplexOrder

/-- the Gram matrix `G[α,β] = Σ_x v_α[x]·conj v_β[x]` (`matAAT`, `TAlphaBeta`) -/
def gramOf (v : ι → κ → ℂ) : Matrix ι ι ℂ := Matrix.of fun α β => ∑ x, v α x * star (v β x)

theorem gramOf_eq (v : ι → κ → ℂ) : gramOf v = (Matrix.of v) * (Matrix.of v)ᴴ := by
  ext α β; simp [gramOf, Matrix.mul_apply]

theorem gramOf_posSemidef (v : ι → κ → ℂ) : (gramOf v).PosSemidef := by
  rw [gramOf_eq]; exact posSemidef_self_mul_conjTranspose _

/-- the conjugate of the relation's coefficient vector is annihilated by the Gram matrix -/
theorem gramOf_mulVec_kernel (v : ι → κ → ℂ) (d : ι → ℂ) (hrel : ∀ x, ∑ α, d α * v α x = 0) :
    star (star d) ⬝ᵥ (gramOf v *ᵥ star d) = 0 := by
  simp only [dotProduct, mulVec, gramOf, Matrix.of_apply, star_star, Pi.star_apply]
  have h : ∀ β, ∑ α, d α * ∑ x, v α x * star (v β x) = 0 := fun β => gram_kernel_of_relation v d hrel β
  calc ∑ α, d α * ∑ β, (∑ x, v α x * star (v β x)) * star (d β)
      = ∑ α, ∑ β, star (d β) * (d α * ∑ x, v α x * star (v β x)) := by
        refine Finset.sum_congr rfl fun α _ => ?_
        rw [Finset.mul_sum]; exact Finset.sum_congr rfl fun β _ => by ring
    _ = ∑ β, ∑ α, star (d β) * (d α * ∑ x, v α x * star (v β x)) := Finset.sum_comm
    _ = ∑ β, star (d β) * ∑ α, d α * ∑ x, v α x * star (v β x) :=
        Finset.sum_congr rfl fun β _ => by rw [Finset.mul_sum]
    _ = 0 := Finset.sum_eq_zero fun β _ => by rw [h β, mul_zero]

/-- **a non-trivial relation forces the smallest eigenvalue to be 0** (`eigvalsh` contract: `lam` is an attained Rayleigh lower
bound of the Gram matrix) -/
theorem gram_lambda_min_zero (v : ι → κ → ℂ) (d : ι → ℂ) (hrel : ∀ x, ∑ α, d α * v α x = 0) (hd : d ≠ 0) (lam : ℝ)
    (hmin : ∀ y : ι → ℂ, lam * (star y ⬝ᵥ y).re ≤ (star y ⬝ᵥ (gramOf v *ᵥ y)).re)
    (hatt : ∃ y : ι → ℂ, star y ⬝ᵥ (gramOf v *ᵥ y) = (lam : ℂ)) : lam = 0 := by
  apply le_antisymm
  · have h1 := hmin (star d)
    rw [gramOf_mulVec_kernel v d hrel] at h1
    have hs : 0 < (star (star d) ⬝ᵥ star d).re := by
      obtain ⟨α, hα⟩ : ∃ α, d α ≠ 0 := by
        by_contra hcon; exact hd (funext fun α => not_not.1 fun h => hcon ⟨α, h⟩)
      simp only [dotProduct, star_star, Pi.star_apply, Complex.re_sum]
      have hterm : ∀ β, 0 ≤ (d β * star (d β)).re := fun β => by
        rw [Complex.star_def, Complex.mul_conj]; exact_mod_cast Complex.normSq_nonneg _
      refine lt_of_lt_of_le ?_ (Finset.single_le_sum (fun β _ => hterm β) (Finset.mem_univ α))
      rw [Complex.star_def, Complex.mul_conj]
      exact_mod_cast Complex.normSq_pos.2 hα
    simp only [Complex.zero_re] at h1
    by_contra hpos
    have hpos' : 0 < lam := not_le.1 hpos
    nlinarith
  · obtain ⟨y, hy⟩ := hatt
    have := (gramOf_posSemidef v).dotProduct_mulVec_nonneg y
    rw [hy] at this
    exact_mod_cast this

end gram

end Numqi.MatrixSpace
