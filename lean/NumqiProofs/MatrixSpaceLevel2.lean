/-
Hierarchy level `k = 2` (C20): one symmetric slot next to the polarised minor.

`polW A I J x y = Σ_m polMinor(A without slot m)[I,J] · A_m[x,y]` is the full (not coset-reduced) form of the entry that
`has_rank_hierarchical_method(·, rank = q, hierarchy_k = 2)` builds for the generators `A_0 … A_q`.
-/
import NumqiProofs.MatrixSpaceMinors
import Mathlib.Data.Fin.Tuple.Basic
import Mathlib.Data.Fin.SuccPred

namespace Numqi.MatrixSpace
open Equiv Finset

section
variable {R : Type} [CommRing R] {q : ℕ}

/-- level-2 entry: every slot in turn is the symmetric factor, the others are antisymmetrised -/
def polW (A : Fin (q + 1) → ℕ → ℕ → R) (I J : Fin q → ℕ) (x y : ℕ) : R :=
  ∑ m : Fin (q + 1), polMinor (fun j => A (m.succAbove j)) I J * A m x y

theorem polW_diag (M : ℕ → ℕ → R) (I J : Fin q → ℕ) (x y : ℕ) :
    polW (fun _ => M) I J x y = ((q + 1 : ℕ) : R) * ((q.factorial : R) * (subMat M I J).det * M x y) := by
  unfold polW
  simp only [polMinor_diag]
  rw [Finset.sum_const, Finset.card_univ, Fintype.card_fin, nsmul_eq_mul]

/-- multilinear expansion over all `q+1` slots -/
theorem polW_expand {N : ℕ} (c : Fin N → R) (S : Fin N → ℕ → ℕ → R) (I J : Fin q → ℕ) (x y : ℕ) :
    polW (fun _ => fun r s => ∑ i, c i * S i r s) I J x y
      = ∑ t : Fin (q + 1) → Fin N, (∏ m, c (t m)) * polW (fun m => S (t m)) I J x y := by
  unfold polW
  have hR : ∑ t : Fin (q + 1) → Fin N, (∏ m, c (t m)) *
        ∑ m : Fin (q + 1), polMinor (fun j => S (t (m.succAbove j))) I J * S (t m) x y
      = ∑ m : Fin (q + 1), ∑ t : Fin (q + 1) → Fin N,
          (∏ m', c (t m')) * (polMinor (fun j => S (t (m.succAbove j))) I J * S (t m) x y) := by
    simp only [Finset.mul_sum]; exact Finset.sum_comm
  rw [hR]
  refine Finset.sum_congr rfl fun m _ => ?_
  rw [polMinor_expand, ← (Fin.insertNthEquiv (fun _ => Fin N) m).sum_comp, Fintype.sum_prod_type, Finset.sum_mul_sum]
  refine Finset.sum_comm.trans ?_
  refine Finset.sum_congr rfl fun i _ => Finset.sum_congr rfl fun t' _ => ?_
  simp only [Fin.insertNthEquiv_apply, Fin.insertNth_apply_same, Fin.insertNth_apply_succAbove]
  rw [Fin.prod_univ_succAbove _ m]
  simp only [Fin.insertNth_apply_same, Fin.insertNth_apply_succAbove]
  ring

/-- a permutation of the `q+1` slots induces, for every removed slot, a permutation of the remaining `q` -/
theorem exists_perm_succAbove (π : Perm (Fin (q + 1))) (m : Fin (q + 1)) :
    ∃ π' : Perm (Fin q), ∀ j, π (m.succAbove j) = (π m).succAbove (π' j) := by
  have hne : ∀ j, π (m.succAbove j) ≠ π m := fun j h => Fin.succAbove_ne m j (π.injective h)
  choose g hg using fun j => Fin.exists_succAbove_eq (hne j)
  have hinj : Function.Injective g := by
    intro a b hab
    have : π (m.succAbove a) = π (m.succAbove b) := by rw [← hg a, ← hg b, hab]
    exact Fin.succAbove_right_injective (π.injective this)
  exact ⟨Equiv.ofBijective g (Finite.injective_iff_bijective.1 hinj), fun j => (hg j).symm⟩

/-- **symmetry**: the level-2 entry does not depend on the order of the generators -/
theorem polW_perm (A : Fin (q + 1) → ℕ → ℕ → R) (I J : Fin q → ℕ) (x y : ℕ) (π : Perm (Fin (q + 1))) :
    polW (fun m => A (π m)) I J x y = polW A I J x y := by
  unfold polW
  rw [← Equiv.sum_comp π (fun m => polMinor (fun j => A (m.succAbove j)) I J * A m x y)]
  refine Finset.sum_congr rfl fun m _ => ?_
  obtain ⟨π', hπ'⟩ := exists_perm_succAbove π m
  have : (fun j => A (π (m.succAbove j))) = fun j => (fun j' => A ((π m).succAbove j')) (π' j) := by
    funext j; rw [hπ' j]
  rw [this]
  exact congrArg (fun z => z * A (π m) x y) (polMinor_perm (fun j' => A ((π m).succAbove j')) I J π')

/-- **level-2 relation**: if the minor of `M = Σ c_i S_i` on `(I,J)` vanishes, the level-2 entries satisfy the linear relation
with the monomial coefficients -/
theorem polW_dependence {N : ℕ} (c : Fin N → R) (S : Fin N → ℕ → ℕ → R) (I J : Fin q → ℕ) (x y : ℕ)
    (hminor : (subMat (fun r s => ∑ i, c i * S i r s) I J).det = 0) :
    ∑ t : Fin (q + 1) → Fin N, (∏ m, c (t m)) * polW (fun m => S (t m)) I J x y = 0 := by
  rw [← polW_expand, polW_diag, hminor]; ring

end

/-! ### the model's sub-tuple enumeration at level 2 -/

/-- `combinations(range(q+1), q)` with the complementary position: each position is left out exactly once (decidable;
evaluated by the kernel for `q ≤ 5`) -/
def SubsetsOK (q : ℕ) : Prop :=
  ((combos (List.range (q + 1)) q).map fun sub => (sub, (List.range (q + 1)).filter fun x => !sub.contains x)).Perm
    ((List.finRange (q + 1)).map fun m => ((List.finRange q).map fun j => (m.succAbove j).val, [m.val]))

instance (q : ℕ) : Decidable (SubsetsOK q) := by unfold SubsetsOK; infer_instance

theorem subsetsOK_le_five (q : ℕ) (h1 : 1 ≤ q) (h5 : q ≤ 5) : SubsetsOK q := by
  interval_cases q <;> decide

theorem antisymFactorTable_singleton (x : ℕ) : antisymFactorTable [x] = [([0], 1)] := by
  have h := antisymFactorTable_map (fun y => y + x) (fun a b hab => by simpa using hab) [0]
  simp only [List.map_cons, List.map_nil, zero_add] at h
  rw [h]; decide


theorem getD_eq_getElem' (l : List ℕ) {a : ℕ} (h : a < l.length) : l.getD a 0 = l[a] := by
  simp [List.getD_eq_getElem?_getD, h]

theorem getD_le_of_pairwise {l : List ℕ} (h : l.Pairwise (· ≤ ·)) {a b : ℕ} (hab : a ≤ b) (hb : b < l.length) :
    l.getD a 0 ≤ l.getD b 0 := by
  rcases Nat.eq_or_lt_of_le hab with rfl | hlt
  · exact le_rfl
  · have ha : a < l.length := lt_trans hlt hb
    rw [getD_eq_getElem' _ ha, getD_eq_getElem' _ hb]
    exact (List.pairwise_iff_getElem.1 h) a b ha hb hlt

/-- **the model's level-2 entry is `polW`** for every sorted multi-index of length `q+1` -/
theorem hierVecEntry_level2 {R : Type} [CommRing R] {q N : ℕ} (hT : TablesOK q) (hS : SubsetsOK q) (hq : 0 < q)
    (mats : ℕ → ℕ → ℕ → R) (dB : ℕ) (INDEX rows cols : List ℕ) (K : ℕ)
    (hlen : INDEX.length = q + 1) (hs : INDEX.Pairwise (· ≤ ·)) (hlt : ∀ i ∈ INDEX, i < N) :
    hierVecEntry mats dB N q INDEX rows cols [K]
      = polW (fun m : Fin (q + 1) => mats (INDEX.getD m.val 0)) (fun i => rows.getD i.val 0) (fun i => cols.getD i.val 0)
          (K / dB) (K % dB) := by
  unfold hierVecEntry polW
  simp only [hlen]
  -- the summand as a function of the pair (sub-tuple, complementary positions)
  set G : List ℕ × List ℕ → R := fun sr =>
    polMinorScaled mats (sr.1.map fun x => INDEX.getD x 0) (antisymFactorTable (sr.1.map fun x => INDEX.getD x 0))
        (antisymFactorTableInt q) rows cols
      * (if sr.2.isEmpty then 1 else symPartEntry mats dB N (sr.2.map fun x => INDEX.getD x 0) [K]) with hG
  have h1 : (combos (List.range (q + 1)) q).map (fun sub =>
        polMinorScaled mats (sub.map fun x => INDEX.getD x 0) (antisymFactorTable (sub.map fun x => INDEX.getD x 0))
            (antisymFactorTableInt q) rows cols
          * (if ((List.range (q + 1)).filter fun x => !sub.contains x).isEmpty then 1
              else symPartEntry mats dB N (((List.range (q + 1)).filter fun x => !sub.contains x).map fun x => INDEX.getD x 0) [K]))
      = ((combos (List.range (q + 1)) q).map fun sub => (sub, (List.range (q + 1)).filter fun x => !sub.contains x)).map G := by
    rw [List.map_map]; rfl
  rw [h1, listSum_eq, (hS.map G).sum_eq, List.map_map, ← Fin.sum_univ_def]
  refine Finset.sum_congr rfl fun m _ => ?_
  simp only [Function.comp, hG, List.map_map, List.isEmpty_cons, Bool.false_eq_true, if_false, List.map_cons, List.map_nil]
  -- antisymmetric factor
  have hidx : ((List.finRange q).map fun j => INDEX.getD (m.succAbove j).val 0) = List.ofFn fun j : Fin q => INDEX.getD (m.succAbove j).val 0 := by
    rw [List.ofFn_eq_map]
  have hsorted : (List.ofFn fun j : Fin q => INDEX.getD (m.succAbove j).val 0).Pairwise (· ≤ ·) := by
    rw [List.pairwise_ofFn]
    intro i j hij
    refine getD_le_of_pairwise hs ?_ (by rw [hlen]; exact (m.succAbove j).isLt)
    exact Fin.le_def.1 ((Fin.strictMono_succAbove m).monotone hij.le)
  have hA := polMinorScaled_sorted hT mats (List.ofFn fun j : Fin q => INDEX.getD (m.succAbove j).val 0) rows cols
    (by simp) hq hsorted
  have hget : (fun j : Fin q => mats ((List.ofFn fun j : Fin q => INDEX.getD (m.succAbove j).val 0).getD j.val 0))
      = fun j : Fin q => mats (INDEX.getD (m.succAbove j).val 0) := by
    funext j; simp [List.getD_eq_getElem?_getD]
  rw [hget] at hA
  have hcomp : (List.map ((fun x => INDEX.getD x 0) ∘ fun j : Fin q => (m.succAbove j).val) (List.finRange q))
      = List.ofFn fun j : Fin q => INDEX.getD (m.succAbove j).val 0 := by
    rw [List.ofFn_eq_map]; rfl
  rw [hcomp, hA]
  congr 1
  -- symmetric factor: a single slot
  unfold symPartEntry
  by_cases hN : N = 1
  · have : INDEX.getD m.val 0 = 0 := by
      have hm : m.val < INDEX.length := by rw [hlen]; exact m.isLt
      have := hlt (INDEX.getD m.val 0) (by rw [getD_eq_getElem' _ hm]; exact List.getElem_mem hm)
      omega
    rw [List.getD_eq_getElem?_getD] at this
    simp [hN, flatEntry, this]
  · simp [hN, antisymFactorTable_singleton, listSum, listProd, nsmulN, flatEntry]

end Numqi.MatrixSpace
