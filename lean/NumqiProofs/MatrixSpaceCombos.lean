/-
Membership characterisation of `itertools.combinations_with_replacement` (C20): the multi-indices of the hierarchy are
exactly the sorted tuples of generator labels.
-/
import NumqiProofs.MatrixSpaceLemmas
namespace Numqi.MatrixSpace

theorem mem_combosRepAux (fuel : Nat) (l : List Nat) (k : Nat) (hf : l.length + k ≤ fuel) (hl : l.Pairwise (· < ·))
    (x : List Nat) :
    x ∈ combosRepAux fuel l k ↔ x.length = k ∧ x.Pairwise (· ≤ ·) ∧ ∀ i ∈ x, i ∈ l := by
  induction fuel generalizing l k x with
  | zero =>
    have h1 : l = [] := by cases l with | nil => rfl | cons _ _ => simp at hf
    have h2 : k = 0 := by omega
    subst h1; subst h2
    simp only [combosRepAux, List.mem_singleton]
    constructor
    · rintro rfl; simp
    · rintro ⟨h, -, -⟩; exact List.length_eq_zero_iff.1 h
  | succ fuel ih =>
    cases k with
    | zero =>
      have : combosRepAux (fuel + 1) l 0 = [[]] := by cases l <;> rfl
      rw [this, List.mem_singleton]
      constructor
      · rintro rfl; simp
      · rintro ⟨h, -, -⟩; exact List.length_eq_zero_iff.1 h
    | succ k =>
      cases l with
      | nil =>
        simp only [combosRepAux, List.not_mem_nil, false_iff, not_and]
        intro h1 _ h3
        cases x with
        | nil => simp at h1
        | cons a as => exact absurd (h3 a (by simp)) (by simp)
      | cons a as =>
        have hl' : as.Pairwise (· < ·) := (List.pairwise_cons.1 hl).2
        have ha : ∀ b ∈ as, a < b := (List.pairwise_cons.1 hl).1
        simp only [combosRepAux, List.mem_append, List.mem_map]
        rw [ih as (k + 1) (by simp at hf ⊢; omega) hl' x]
        constructor
        · rintro (⟨y, hy, rfl⟩ | ⟨h1, h2, h3⟩)
          · rw [ih (a :: as) k (by simp at hf ⊢; omega) hl y] at hy
            obtain ⟨h1, h2, h3⟩ := hy
            refine ⟨by simp [h1], List.pairwise_cons.2 ⟨?_, h2⟩, ?_⟩
            · intro b hb
              rcases List.mem_cons.1 (h3 b hb) with rfl | hb'
              · exact le_rfl
              · exact (ha b hb').le
            · intro i hi
              rcases List.mem_cons.1 hi with rfl | hi'
              · simp
              · exact h3 i hi'
          · exact ⟨h1, h2, fun i hi => List.mem_cons_of_mem _ (h3 i hi)⟩
        · rintro ⟨h1, h2, h3⟩
          cases x with
          | nil => simp at h1
          | cons h t =>
            by_cases hh : h = a
            · subst hh
              left
              refine ⟨t, ?_, rfl⟩
              rw [ih (h :: as) k (by simp at hf ⊢; omega) hl t]
              exact ⟨by simpa using h1, (List.pairwise_cons.1 h2).2, fun i hi => h3 i (List.mem_cons_of_mem _ hi)⟩
            · right
              have hmem : h ∈ as := by
                rcases List.mem_cons.1 (h3 h (by simp)) with e | e
                · exact absurd e hh
                · exact e
              refine ⟨h1, h2, ?_⟩
              intro i hi
              rcases List.mem_cons.1 (h3 i hi) with e0 | e
              · -- i = a, but a < h ≤ i
                exfalso
                have h1' : a < h := ha h hmem
                rcases List.mem_cons.1 hi with e1 | hi'
                · omega
                · have := (List.pairwise_cons.1 h2).1 i hi'
                  omega
              · exact e

theorem mem_combosRep_range (N k : Nat) (x : List Nat) :
    x ∈ combosRep (List.range N) k ↔ x.length = k ∧ x.Pairwise (· ≤ ·) ∧ ∀ i ∈ x, i < N := by
  unfold combosRep
  rw [mem_combosRepAux _ _ _ le_rfl List.pairwise_lt_range]
  simp [List.mem_range]

end Numqi.MatrixSpace
