/-
C09: the closed-form inverse `Λ Sᵀ Λ` (`np.roll(mat.T, n, axis=(0,1))`) is a two-sided inverse of a
symplectic matrix.  `S · inverse S = 1` is the row condition `S Λ Sᵀ = Λ` read entry-wise; the other
order follows from it because a one-sided inverse of a square matrix over a field is two-sided
(Mathlib `mul_eq_one_comm` for matrices over `ZMod 2`).
-/
import NumqiProofs.SpF2Index
import Mathlib.Data.Matrix.Mul
import Mathlib.Data.ZMod.Basic
import Mathlib.Algebra.BigOperators.Fin

namespace Numqi.SpF2

/-- xor of `f 0 … f (k-1)` -/
def xorUpTo (f : Nat → Bool) : Nat → Bool
  | 0 => false
  | k + 1 => xorUpTo f k ^^ f k

theorem testBit_vecMul (a : Nat) (B : List Nat) (k j : Nat) :
    (vecMul a B k).testBit j = xorUpTo (fun t => a.testBit t && (B.getD t 0).testBit j) k := by
  induction k with
  | zero => simp [vecMul, xorUpTo]
  | succ k ih =>
    rw [vecMul, Nat.testBit_xor, ih, xorUpTo]
    cases a.testBit k <;> simp

theorem xorUpTo_xor (f g : Nat → Bool) (k : Nat) :
    xorUpTo (fun t => f t ^^ g t) k = (xorUpTo f k ^^ xorUpTo g k) := by
  induction k with
  | zero => rfl
  | succ k ih =>
    simp only [xorUpTo, ih]
    cases xorUpTo f k <;> cases xorUpTo g k <;> cases f k <;> cases g k <;> rfl

theorem xorUpTo_add (f : Nat → Bool) (a b : Nat) :
    xorUpTo f (a + b) = (xorUpTo f a ^^ xorUpTo (fun t => f (t + a)) b) := by
  induction b with
  | zero => simp [xorUpTo]
  | succ b ih =>
    rw [← Nat.add_assoc, xorUpTo, ih, xorUpTo, Nat.add_comm b a]
    cases xorUpTo f a <;> cases xorUpTo (fun t => f (t + a)) b <;> cases f (a + b) <;> rfl

theorem xorUpTo_congr {f g : Nat → Bool} {k : Nat} (h : ∀ t, t < k → f t = g t) : xorUpTo f k = xorUpTo g k := by
  induction k with
  | zero => rfl
  | succ k ih => rw [xorUpTo, xorUpTo, ih (fun t ht => h t (by omega)), h k (by omega)]

theorem xorUpTo_false (k : Nat) : xorUpTo (fun _ => false) k = false := by
  induction k with
  | zero => rfl
  | succ k ih => simp [xorUpTo, ih]

theorem ipUpTo_eq (n v w k : Nat) :
    ipUpTo n v w k = (xorUpTo (fun t => v.testBit t && w.testBit (t + n)) k ^^
      xorUpTo (fun t => v.testBit (t + n) && w.testBit t) k) := by
  induction k with
  | zero => rfl
  | succ k ih =>
    simp only [ipUpTo, xorUpTo, ih, ipTerm]
    cases xorUpTo (fun t => v.testBit t && w.testBit (t + n)) k <;>
      cases xorUpTo (fun t => v.testBit (t + n) && w.testBit t) k <;>
      cases (v.testBit k && w.testBit (k + n)) <;> cases (v.testBit (k + n) && w.testBit k) <;> rfl

/-- the symplectic product as one sum over all `2n` positions -/
theorem ip_eq_xorUpTo (n v w : Nat) :
    ip n v w = xorUpTo (fun t => v.testBit t && w.testBit ((t + n) % (2 * n))) (2 * n) := by
  unfold ip
  rw [ipUpTo_eq, two_mul, xorUpTo_add]
  congr 1
  · apply xorUpTo_congr; intro t ht
    rw [Nat.mod_eq_of_lt (by omega)]
  · apply xorUpTo_congr; intro t ht
    have : (t + n + n) % (n + n) = t := by
      rw [Nat.add_assoc, Nat.add_mod_right, Nat.mod_eq_of_lt (by omega)]
    simp only [this]

theorem inverse_getD {n : Nat} (M : List Nat) {i : Nat} (hi : i < 2 * n) :
    (inverse n M).getD i 0 = ofFn (2 * n) fun j => (M.getD ((j + n) % (2 * n)) 0).testBit ((i + n) % (2 * n)) := by
  unfold inverse; rw [getD_map_range _ _ _ hi]

theorem idMat_getD {m i : Nat} (hi : i < m) : (idMat m).getD i 0 = 2 ^ i := by
  unfold idMat; rw [getD_map_range _ _ _ hi]

/-- `S · inverse(S) = 1`, entry by entry, is the row condition -/
theorem matMul_inverse {n : Nat} (M : List Nat) (hsp : RowsSp n M) : matMul (2 * n) M (inverse n M) = idMat (2 * n) := by
  apply List.ext_getElem
  · simp [matMul, idMat]
  intro i h1 h2
  have hi : i < 2 * n := by simpa [matMul] using h1
  simp only [matMul, idMat, List.getElem_map, List.getElem_range]
  apply Nat.eq_of_testBit_eq; intro j
  rw [testBit_vecMul, Nat.testBit_two_pow]
  by_cases hj : j < 2 * n
  · have hjn : (j + n) % (2 * n) < 2 * n := Nat.mod_lt _ (by omega)
    have e : xorUpTo (fun t => (M.getD i 0).testBit t && ((inverse n M).getD t 0).testBit j) (2 * n)
        = ip n (M.getD i 0) (M.getD ((j + n) % (2 * n)) 0) := by
      rw [ip_eq_xorUpTo]
      apply xorUpTo_congr; intro t ht
      rw [inverse_getD M ht, testBit_ofFn]; simp [hj]
    rw [e, hsp i _ hi hjn, Bool.eq_iff_iff, lam_iff]
    simp only [decide_eq_true_eq]
    by_cases hjl : j < n
    · rw [Nat.mod_eq_of_lt (by omega)]; omega
    · have : (j + n) % (2 * n) = j - n := by
        have : j + n = (j - n) + 2 * n := by omega
        rw [this, Nat.add_mod_right, Nat.mod_eq_of_lt (by omega)]
      rw [this]; omega
  · have e : xorUpTo (fun t => (M.getD i 0).testBit t && ((inverse n M).getD t 0).testBit j) (2 * n) = false := by
      have : ∀ t, t < 2 * n → ((M.getD i 0).testBit t && ((inverse n M).getD t 0).testBit j) = (fun _ => false) t := by
        intro t ht; rw [inverse_getD M ht, testBit_ofFn]; simp [hj]
      rw [xorUpTo_congr this]
      exact xorUpTo_false _
    rw [e]; symm; simp; omega

/-! ### the other order, through Mathlib matrices over `ZMod 2` -/

def b2z (b : Bool) : ZMod 2 := if b then 1 else 0

theorem b2z_xor (a b : Bool) : b2z (a ^^ b) = b2z a + b2z b := by cases a <;> cases b <;> decide
theorem b2z_and (a b : Bool) : b2z (a && b) = b2z a * b2z b := by cases a <;> cases b <;> decide
theorem b2z_inj {a b : Bool} (h : b2z a = b2z b) : a = b := by
  revert h; cases a <;> cases b <;> decide

def toMat (m : Nat) (M : List Nat) : Matrix (Fin m) (Fin m) (ZMod 2) :=
  fun i j => b2z ((M.getD i.val 0).testBit j.val)

theorem b2z_xorUpTo (f : Nat → Bool) (k : Nat) : b2z (xorUpTo f k) = ∑ t ∈ Finset.range k, b2z (f t) := by
  induction k with
  | zero => rfl
  | succ k ih => rw [xorUpTo, b2z_xor, ih, Finset.sum_range_succ]

theorem matMul_getD {m i : Nat} (A B : List Nat) (hi : i < m) : (matMul m A B).getD i 0 = vecMul (A.getD i 0) B m := by
  unfold matMul; rw [getD_map_range _ _ _ hi]

theorem toMat_matMul (m : Nat) (A B : List Nat) : toMat m (matMul m A B) = toMat m A * toMat m B := by
  ext i j
  rw [Matrix.mul_apply]
  simp only [toMat]
  rw [matMul_getD A B i.isLt, testBit_vecMul, b2z_xorUpTo, Finset.sum_range]
  exact Finset.sum_congr rfl (fun t _ => b2z_and _ _)

theorem toMat_idMat (m : Nat) : toMat m (idMat m) = 1 := by
  ext i j
  simp only [toMat, idMat_getD i.isLt, Nat.testBit_two_pow, Matrix.one_apply, Fin.ext_iff]
  by_cases h : i.val = j.val <;> simp [h, b2z]

theorem vecMul_lt {a m : Nat} (B : List Nat) (hB : ∀ t, t < m → B.getD t 0 < 2 ^ m) (k : Nat) (hk : k ≤ m) :
    vecMul a B k < 2 ^ m := by
  induction k with
  | zero => simp [vecMul]
  | succ k ih =>
    rw [vecMul]
    refine xor_lt (ih (by omega)) ?_
    split
    · exact hB k (by omega)
    · positivity

/-- two well-formed matrices with the same `ZMod 2` matrix are equal -/
theorem eq_of_toMat_eq {m : Nat} {A B : List Nat} (hA : A.length = m) (hB : B.length = m)
    (hAl : ∀ t, t < m → A.getD t 0 < 2 ^ m) (hBl : ∀ t, t < m → B.getD t 0 < 2 ^ m)
    (h : toMat m A = toMat m B) : A = B := by
  apply List.ext_getElem (by rw [hA, hB])
  intro i h1 h2
  have hi : i < m := by rw [hA] at h1; exact h1
  rw [← getD_eq_getElem' A i h1, ← getD_eq_getElem' B i h2]
  apply Nat.eq_of_testBit_eq; intro j
  by_cases hj : j < m
  · have := congrFun (congrFun h ⟨i, hi⟩) ⟨j, hj⟩
    exact b2z_inj this
  · rw [testBit_eq_false_of_lt (hAl i hi) (by omega), testBit_eq_false_of_lt (hBl i hi) (by omega)]

theorem inverse_lt {n : Nat} (M : List Nat) (t : Nat) (ht : t < 2 * n) : (inverse n M).getD t 0 < 2 ^ (2 * n) := by
  rw [inverse_getD M ht]; exact ofFn_lt _ _

/-- `inverse(S) · S = 1` -/
theorem inverse_matMul {n : Nat} (M : List Nat) (hwf : WF n M) (hsp : RowsSp n M) :
    matMul (2 * n) (inverse n M) M = idMat (2 * n) := by
  have h1 := congrArg (toMat (2 * n)) (matMul_inverse M hsp)
  rw [toMat_matMul, toMat_idMat] at h1
  have h2 := mul_eq_one_comm.mp h1
  rw [← toMat_matMul, ← toMat_idMat] at h2
  have hM : ∀ t, t < 2 * n → M.getD t 0 < 2 ^ (2 * n) := by
    intro t ht; rw [← four_pow]; exact hwf.2 t ht
  refine eq_of_toMat_eq (by simp [matMul]) (by simp [idMat]) ?_ ?_ h2
  · intro t ht; rw [matMul_getD _ _ ht]; exact vecMul_lt M hM _ le_rfl
  · intro t ht; rw [idMat_getD ht]; exact Nat.pow_lt_pow_right (by norm_num) ht

/-! ### `get_number` -/

theorem order_succ (n : Nat) : order (n + 1) = order n * (4 ^ (n + 1) - 1) * (4 ^ (n + 1) / 2) := by
  simp [order, basePairs, List.foldl_append]

theorem order_eq_prod (n : Nat) :
    order n = ∏ i ∈ Finset.range n, ((4 ^ (i + 1) - 1) * 2 ^ (2 * (i + 1) - 1)) := by
  induction n with
  | zero => rfl
  | succ n ih =>
    rw [order_succ, Finset.prod_range_succ, ← ih, Nat.mul_assoc]
    congr 2
    rw [four_pow]
    have : 2 * (n + 1) = (2 * (n + 1) - 1) + 1 := by omega
    conv_lhs => rw [this, pow_succ]
    omega

theorem cosetNumbers_prod (n : Nat) : (cosetNumbers n).prod = order n := by
  induction n with
  | zero => rfl
  | succ n ih =>
    rw [order_succ, ← ih]
    simp [cosetNumbers, basePairs, Nat.mul_assoc]

theorem allTuples_length (n : Nat) : (allTuples n).length = order n := by
  induction n with
  | zero => rfl
  | succ n ih =>
    rw [order_succ, ← ih, allTuples]
    simp [List.length_flatMap, Nat.mul_assoc]

end Numqi.SpF2
