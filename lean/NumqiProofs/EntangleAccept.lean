/-
C05 — end-to-end acceptance: separable ⇒ (mathematics, `NumqiProps/C05.lean`) the exact quantity a criterion tests is on the
accepting side ⇒ (verdict layer, `NumqiProofs/DecisionC05.lean`, constants regenerated from the source) the modelled verdict
function the driver executes answers `true`, provided the rounding of the external routine stays below the slack.

The external routines enter through precise contracts:
* `IsLeastEig M λ`   — what Cholesky / `eigvalsh` see of `M`: `λ` is a lower Rayleigh bound that is attained by a unit vector;
* `IsNucNorm M ν`    — what `np.linalg.norm(ord='nuc')` returns: the dual-form bound `NucLe M ν` that is attained by a contraction.
Listed in `THEOREM_FILES` of `harness/c05.py`.
-/
import NumqiProps.C05
import NumqiProofs.DecisionC05

namespace Numqi.C05
open Numqi Numqi.Ent Numqi.Ent.Thresholds
open scoped ComplexOrder
open Matrix

/-- **contract of the smallest eigenvalue** (`eigvalsh(M)[0]`; the pivot test of Cholesky on `M + shift`): a lower bound of the
Rayleigh quotient that is attained -/
def IsLeastEig {n : Type} [Fintype n] (M : Matrix n n ℂ) (lam : ℝ) : Prop :=
  (∀ x : n → ℂ, (lam : ℂ) * (star x ⬝ᵥ x) ≤ star x ⬝ᵥ (M *ᵥ x)) ∧
    ∃ x : n → ℂ, star x ⬝ᵥ x = 1 ∧ star x ⬝ᵥ (M *ᵥ x) = (lam : ℂ)

/-- **contract of the nuclear norm**: the dual-form bound, attained by some contraction -/
def IsNucNorm {m n : Type} [Fintype m] [Fintype n] [DecidableEq n] (M : Matrix m n ℂ) (ν : ℝ) : Prop :=
  NucLe M ν ∧ ∃ W : Matrix m n ℂ, (1 - Wᴴ * W).PosSemidef ∧ ‖(Wᴴ * M).trace‖ = ν

/-- a positive semidefinite matrix has a non-negative smallest eigenvalue -/
theorem leastEig_nonneg_of_posSemidef {n : Type} [Fintype n] {M : Matrix n n ℂ} (hM : M.PosSemidef) {lam : ℝ}
    (h : IsLeastEig M lam) : 0 ≤ lam := by
  obtain ⟨x, _, hx⟩ := h.2
  have := hM.dotProduct_mulVec_nonneg x
  rw [hx] at this
  exact_mod_cast this

/-- a matrix of dual-form nuclear norm at most `c` has nuclear norm at most `c` -/
theorem nucNorm_le_of_nucLe {m n : Type} [Fintype m] [Fintype n] [DecidableEq n] {M : Matrix m n ℂ} {c ν : ℝ}
    (hM : NucLe M c) (h : IsNucNorm M ν) : ν ≤ c := by
  obtain ⟨W, hW, hν⟩ := h.2
  rw [← hν]; exact hM W hW

variable {K : Type} [Fintype K]

/-- **`is_ppt` accepts every separable state**: for every dimension list and every party, if `lamExact` is the smallest
eigenvalue of the matrix `is_ppt` hands to the PSD test (contract `IsLeastEig`) and the value `lam` effectively tested by Cholesky
differs from it by at most `δ < 1e-7` (the regenerated slack), the modelled verdict at the regenerated default `eps` is `true`. -/
theorem is_ppt_accepts_separable (dim : List Nat) (i : Nat) (hi : i < dim.length) (p : K → ℝ) (hp : ∀ k, 0 ≤ p k)
    (w : K → Nat → Nat → ℂ) (lamExact lam δ : ℝ)
    (hE : IsLeastEig (Matrix.of fun r c : Fin (prodL dim) => pptMatrix dim i (mixture p fun k => prodVec dim (w k)) r c) lamExact)
    (hδ : |lam - lamExact| ≤ δ) (hs : δ < (pptSlack : ℝ)) :
    isPptAccept ((isPptEpsDefault : ℚ) : ℝ) lam = true :=
  isPpt_robust_accept lamExact lam δ (leastEig_nonneg_of_posSemidef (sep_ppt_full dim i hi p hp w) hE) hδ hs

/-- **`check_reduction_witness` accepts every separable state** (same shape) -/
theorem check_reduction_witness_accepts_separable (dim : List Nat) (i : Nat) (hi : i < dim.length) (p : K → ℝ) (hp : ∀ k, 0 ≤ p k)
    (w : K → Nat → Nat → ℂ) (lamExact lam δ : ℝ)
    (hE : IsLeastEig (Matrix.of fun r c : Fin (prodL dim) => reductionMatrix dim i (mixture p fun k => prodVec dim (w k)) r c) lamExact)
    (hδ : |lam - lamExact| ≤ δ) (hs : δ < (reductionSlack : ℝ)) :
    reductionAccept ((reductionEpsDefault : ℚ) : ℝ) lam = true :=
  reduction_robust_accept lamExact lam δ (leastEig_nonneg_of_posSemidef (sep_reduction_full dim i hi p hp w) hE) hδ hs

/-- **`check_swap_witness` accepts every separable `d×d` state**: the exact value is the real part of the model's `swapValue` -/
theorem check_swap_witness_accepts_separable (d : Nat) (p : K → ℝ) (hp : ∀ k, 0 ≤ p k) (w : K → Nat → Nat → ℂ) (v δ : ℝ)
    (hδ : |v - (swapValue d (mixture p fun k => prodVec [d, d] (w k))).re| ≤ δ) (hs : δ < (swapSlack : ℝ)) :
    swapAccept ((swapEpsDefault : ℚ) : ℝ) v = true :=
  swap_robust_accept _ v δ (Complex.nonneg_iff.1 (sep_swap d p hp w)).1 hδ hs

/-- **`is_generalized_ppt` accepts every separable state**: for every dimension list and every entry `(d0,d1)` of
`_is_generalized_ppt_dim_list`, if `nucExact` is the nuclear norm of the matrix handed to `np.linalg.norm` (contract `IsNucNorm`) and
the computed value differs by at most `δ ≤ 1e-10` (the regenerated threshold), the modelled verdict is `true`; by
`gppt_break_iff_reject` the early-exit path then does not fire either. -/
theorem is_generalized_ppt_accepts_separable (dim : List Nat) (hn : 1 ≤ dim.length) (d : List Nat × List Nat)
    (hd : d ∈ gpptDimList dim.length) (p : K → ℝ) (hp : ∀ k, 0 ≤ p k) (hsum : ∑ k, p k = 1) (w : K → Nat → Nat → ℂ)
    (hw : ∀ k j, j < dim.length → ∑ v ∈ Finset.range (dim.getD j 1), ‖w k j v‖ ^ 2 = 1) (nucExact nuc δ : ℝ)
    (hE : IsNucNorm (Matrix.of fun (r : Fin (gpptRows dim d.1)) (c : Fin (prodL (permShape (dim ++ dim) d.2))) =>
      gpptMatrix dim d.1 d.2 (mixture p fun k => prodVec dim (w k)) r c) nucExact)
    (hδ : |nuc - nucExact| ≤ δ) (hs : δ ≤ (gpptSlack : ℝ)) :
    gpptAccept ((gpptThresholdDefault : ℚ) : ℝ) nuc = true ∧ gpptBreak ((gpptThresholdDefault : ℚ) : ℝ) nuc = false := by
  have hperm : (d.1 ++ d.2).Perm (List.range (dim ++ dim).length) := by
    have := gpptDimList_perm hn hd
    rwa [List.length_append, ← two_mul]
  have hacc := gppt_robust_accept nucExact nuc δ
    (nucNorm_le_of_nucLe (sep_realign_nuc dim d.1 d.2 hperm p hp hsum w hw) hE) hδ hs
  exact ⟨hacc, by rw [gppt_break_iff_reject, hacc]; rfl⟩

/-! ### the contracts are satisfiable, the statements are not vacuous -/

/-- the 1×1 matrix `[t]` has least eigenvalue `t` -/
example (t : ℝ) : IsLeastEig (Matrix.of fun _ _ : Fin 1 => (t : ℂ)) t := by
  refine ⟨fun x => ?_, fun _ => 1, by simp [dotProduct], by simp [dotProduct, mulVec]⟩
  simp [dotProduct, mulVec, mul_comm, mul_assoc]

/-- the 1×1 matrix `[1]` has nuclear norm 1 (attained by `W = 1`) -/
example : IsNucNorm (1 : Matrix (Fin 1) (Fin 1) ℂ) 1 := by
  refine ⟨fun W hW => ?_, 1, by simp [PosSemidef.zero], by simp⟩
  have h := hW.diag_nonneg (i := 0)
  simp only [Matrix.sub_apply, Matrix.one_apply_eq, Matrix.mul_apply, conjTranspose_apply, Fin.sum_univ_one,
    Fin.isValue] at h
  have e : star (W 0 0) * W 0 0 = ((‖W 0 0‖ ^ 2 : ℝ) : ℂ) := by
    rw [Complex.star_def, mul_comm, Complex.mul_conj']; push_cast; rfl
  rw [e, ← Complex.ofReal_one, ← Complex.ofReal_sub, Complex.zero_le_real] at h
  simp only [Matrix.mul_one, Matrix.trace, Matrix.diag, Fin.sum_univ_one, conjTranspose_apply, norm_star]
  nlinarith [norm_nonneg (W 0 0)]

/-- the end-to-end statement at a concrete instance: the product state `|00⟩⟨00|` of two qubits, party 1, exact arithmetic -/
example (lamExact : ℝ)
    (hE : IsLeastEig (Matrix.of fun r c : Fin (prodL [2, 2]) =>
      pptMatrix [2, 2] 1 (mixture (fun _ : Unit => 1) fun _ => prodVec [2, 2] fun _ v => if v = 0 then 1 else 0) r c) lamExact) :
    isPptAccept ((isPptEpsDefault : ℚ) : ℝ) lamExact = true :=
  is_ppt_accepts_separable [2, 2] 1 (by decide) _ (fun _ => zero_le_one) _ lamExact lamExact 0 hE (by simp)
    (by exact_mod_cast ppt_slack_pos)

end Numqi.C05
