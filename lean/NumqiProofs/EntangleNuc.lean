/-
Nuclear norm in dual (sup) form, product row/column vectors of a realigned separable state and their norms.
Helper lemmas for `sep_realign_nuc` in `NumqiProps/C05.lean`.
-/
import NumqiProofs.EntangleSep
import Mathlib.Analysis.Complex.Norm

namespace Numqi.Ent
open scoped ComplexOrder Kronecker
open Matrix

/-- the factor attached to tensor axis `m` of `ρ.reshape(dim+dim)` for a product vector with local vectors `w`:
row axes (`m < n`) carry `w_m`, column axes (`m ≥ n`) carry the conjugate of `w_{m-n}` -/
def axisVec (n : Nat) (w : Nat → Nat → ℂ) (m v : Nat) : ℂ := if m < n then w m v else star (w (m - n) v)

/-- product of the axis factors along `axes` at the multi-index `o` -/
def rowVec (n : Nat) (w : Nat → Nat → ℂ) (axes o : List Nat) : ℂ := (List.zipWith (axisVec n w) axes o).prod

theorem inShape_of_getD {l s : List Nat} (hl : l.length = s.length) (h : ∀ i < s.length, l.getD i 0 < s.getD i 1) : InShape l s := by
  induction s generalizing l with
  | nil => cases l <;> simp_all
  | cons a s ih =>
    cases l with
    | nil => simp at hl
    | cons b l =>
      refine List.Forall₂.cons (by simpa using h 0 (by simp)) (ih (by simpa using hl) fun i hi => ?_)
      simpa using h (i + 1) (by simpa using hi)

theorem map_transposeIn {perm o : List Nat} (hnd : perm.Nodup) (hlt : ∀ p ∈ perm, p < perm.length) (ho : o.length = perm.length) :
    perm.map ((transposeIn perm o).getD · 0) = o := by
  apply List.ext_getElem
  · simp [ho]
  · intro m h1 h2
    have hm : m < perm.length := by simpa using h1
    simp only [List.getElem_map]
    rw [transposeIn_getD perm o hnd m hm (hlt _ (List.getElem_mem hm)), ← List.getElem_eq_getD (h := h2)]

theorem transposeIn_inShape {shape perm o : List Nat} (hp : perm.Perm (List.range shape.length))
    (ho : InShape o (permShape shape perm)) : InShape (transposeIn perm o) shape := by
  have hlen : perm.length = shape.length := by simpa using hp.length_eq
  apply inShape_of_getD
  · simp [transposeIn, hlen]
  · intro ax hax
    have hmem : ax ∈ perm := hp.mem_iff.2 (List.mem_range.2 hax)
    have hidx : perm.idxOf ax < perm.length := List.idxOf_lt_length_of_mem hmem
    have h1 := ho.getD_lt (perm.idxOf ax) (by simpa [permShape] using hidx)
    have h2 : (permShape shape perm).getD (perm.idxOf ax) 1 = shape.getD ax 1 := by
      simp [permShape, List.getD_eq_getElem?_getD, List.getElem?_map, List.getElem?_eq_getElem hidx, List.getElem_idxOf]
    rw [h2] at h1
    have h3 : (transposeIn perm o).getD ax 0 = o.getD (perm.idxOf ax) 0 := by
      simp [transposeIn, List.getD_eq_getElem?_getD, List.getElem?_map, List.getElem?_range (hlen ▸ hax)]
    rw [h3]; exact h1

theorem zipWith_map_self {α β γ : Type} (f : α → β → γ) (g : α → β) (l : List α) : List.zipWith f l (l.map g) = l.map fun a => f a (g a) := by
  induction l with
  | nil => rfl
  | cons a l ih => simp [ih]


/-- nuclear norm `≤ c`, in the dual (sup) form `sup { |tr(Wᴴ M)| : WᴴW ≤ 1 }` (Mathlib has no Schatten norms; the
identification of this sup with the sum of singular values is the contract of `np.linalg.norm(ord='nuc')`) -/
def NucLe {m n : Type} [Fintype m] [Fintype n] [DecidableEq n] (M : Matrix m n ℂ) (c : ℝ) : Prop :=
  ∀ W : Matrix m n ℂ, (1 - Wᴴ * W).PosSemidef → ‖(Wᴴ * M).trace‖ ≤ c

theorem sum_star_mul_self_eq {m : Type} [Fintype m] (x : m → ℂ) : star x ⬝ᵥ x = ((∑ i, ‖x i‖ ^ 2 : ℝ) : ℂ) := by
  push_cast
  simp only [dotProduct, Pi.star_apply]
  refine Finset.sum_congr rfl fun i _ => ?_
  rw [Complex.star_def, mul_comm, Complex.mul_conj']

theorem norm_dotProduct_sq_le {m : Type} [Fintype m] (u x : m → ℂ) :
    ‖star u ⬝ᵥ x‖ ^ 2 ≤ (∑ i, ‖u i‖ ^ 2) * (∑ i, ‖x i‖ ^ 2) := by
  calc ‖star u ⬝ᵥ x‖ ^ 2 ≤ (∑ i, ‖u i‖ * ‖x i‖) ^ 2 := by
        gcongr
        simp only [dotProduct, Pi.star_apply]
        refine (norm_sum_le _ _).trans (le_of_eq ?_)
        refine Finset.sum_congr rfl fun i _ => ?_
        rw [norm_mul, norm_star]
    _ ≤ (∑ i, ‖u i‖ ^ 2) * (∑ i, ‖x i‖ ^ 2) := Finset.sum_mul_sq_le_sq_mul_sq _ _ _

/-- a contraction does not increase the Euclidean norm -/
theorem sum_norm_sq_mulVec_le {m n : Type} [Fintype m] [Fintype n] [DecidableEq n] (W : Matrix m n ℂ)
    (hW : (1 - Wᴴ * W).PosSemidef) (v : n → ℂ) : ∑ r, ‖(W *ᵥ v) r‖ ^ 2 ≤ ∑ j, ‖v j‖ ^ 2 := by
  have h := hW.dotProduct_mulVec_nonneg v
  rw [sub_mulVec, dotProduct_sub, one_mulVec, sub_nonneg] at h
  have e : star v ⬝ᵥ ((Wᴴ * W) *ᵥ v) = star (W *ᵥ v) ⬝ᵥ (W *ᵥ v) := by
    rw [← mulVec_mulVec, star_mulVec, dotProduct_mulVec]
  rw [e, sum_star_mul_self_eq, sum_star_mul_self_eq] at h
  exact_mod_cast h

theorem nucLe_rankOne {m n : Type} [Fintype m] [Fintype n] [DecidableEq n] (u : m → ℂ) (v : n → ℂ)
    (hu : ∑ i, ‖u i‖ ^ 2 ≤ 1) (hv : ∑ j, ‖v j‖ ^ 2 ≤ 1) : NucLe (vecMulVec u (star v)) 1 := by
  intro W hW
  have htr : (Wᴴ * vecMulVec u (star v)).trace = star (star u ⬝ᵥ (W *ᵥ v)) := by
    simp only [Matrix.trace, Matrix.diag, Matrix.mul_apply, vecMulVec_apply, conjTranspose_apply, dotProduct, mulVec,
      Pi.star_apply, star_sum, star_mul', star_star, Finset.mul_sum]
    rw [Finset.sum_comm]
    refine Finset.sum_congr rfl fun r _ => Finset.sum_congr rfl fun c _ => by ring
  rw [htr, norm_star]
  have h1 := norm_dotProduct_sq_le u (W *ᵥ v)
  have h2 := sum_norm_sq_mulVec_le W hW v
  have h3 : 0 ≤ ∑ i, ‖u i‖ ^ 2 := Finset.sum_nonneg fun _ _ => by positivity
  have h4 : 0 ≤ ∑ r, ‖(W *ᵥ v) r‖ ^ 2 := Finset.sum_nonneg fun _ _ => by positivity
  have : ‖star u ⬝ᵥ (W *ᵥ v)‖ ^ 2 ≤ 1 := by
    calc ‖star u ⬝ᵥ (W *ᵥ v)‖ ^ 2 ≤ (∑ i, ‖u i‖ ^ 2) * (∑ r, ‖(W *ᵥ v) r‖ ^ 2) := h1
      _ ≤ 1 * 1 := by gcongr; exact h2.trans hv
      _ = 1 := by norm_num
  have hn := norm_nonneg (star u ⬝ᵥ (W *ᵥ v))
  nlinarith

theorem nucLe_mixture {m n K : Type} [Fintype m] [Fintype n] [DecidableEq n] [Fintype K] (p : K → ℝ) (hp : ∀ k, 0 ≤ p k)
    (hsum : ∑ k, p k = 1) (M : K → Matrix m n ℂ) (hM : ∀ k, NucLe (M k) 1) : NucLe (∑ k, (p k : ℂ) • M k) 1 := by
  intro W hW
  rw [Matrix.mul_sum, Matrix.trace_sum]
  calc ‖∑ k, (Wᴴ * ((p k : ℂ) • M k)).trace‖ ≤ ∑ k, ‖(Wᴴ * ((p k : ℂ) • M k)).trace‖ := norm_sum_le _ _
    _ = ∑ k, p k * ‖(Wᴴ * M k).trace‖ := by
        refine Finset.sum_congr rfl fun k _ => ?_
        rw [Matrix.mul_smul, Matrix.trace_smul, smul_eq_mul, norm_mul, Complex.norm_real, Real.norm_of_nonneg (hp k)]
    _ ≤ ∑ k, p k * 1 := Finset.sum_le_sum fun k _ => mul_le_mul_of_nonneg_left (hM k W hW) (hp k)
    _ = 1 := by simp [hsum]

theorem sum_range_mul_divmod {M : Type} [AddCommMonoid M] (a P : Nat) (F : Nat → Nat → M) :
    ∑ r ∈ Finset.range (a * P), F (r / P) (r % P) = ∑ i ∈ Finset.range a, ∑ j ∈ Finset.range P, F i j := by
  rcases Nat.eq_zero_or_pos P with rfl | hP
  · simp
  induction a with
  | zero => simp
  | succ a ih =>
    rw [Nat.succ_mul, Finset.sum_range_add, ih, Finset.sum_range_succ]
    congr 1
    refine Finset.sum_congr rfl fun j hj => ?_
    have hj' := Finset.mem_range.1 hj
    have h1 : (a * P + j) / P = a := by
      rw [Nat.add_comm, Nat.add_mul_div_right _ _ hP, Nat.div_eq_of_lt hj', Nat.zero_add]
    have h2 : (a * P + j) % P = j := by
      rw [Nat.add_comm, Nat.add_mul_mod_self_right, Nat.mod_eq_of_lt hj']
    rw [h1, h2]

theorem sum_rowVec_sq (n : Nat) (w : Nat → Nat → ℂ) (shape axes : List Nat) :
    ∑ r ∈ Finset.range (prodL (permShape shape axes)), ‖rowVec n w axes (unflat (permShape shape axes) r)‖ ^ 2
      = (axes.map fun m => ∑ v ∈ Finset.range (shape.getD m 1), ‖axisVec n w m v‖ ^ 2).prod := by
  induction axes with
  | nil => simp [permShape, prodL, rowVec, unflat]
  | cons m rest ih =>
    have hps : permShape shape (m :: rest) = shape.getD m 1 :: permShape shape rest := rfl
    rw [hps]
    simp only [prodL, unflat, rowVec, List.zipWith_cons_cons, List.prod_cons, norm_mul, mul_pow, List.map_cons]
    rw [sum_range_mul_divmod (shape.getD m 1) (prodL (permShape shape rest))
      (fun i j => ‖axisVec n w m i‖ ^ 2 * ‖(List.zipWith (axisVec n w) rest (unflat (permShape shape rest) j)).prod‖ ^ 2)]
    rw [← ih, Finset.sum_mul_sum]
    rfl


theorem axis_norm_one {dim : List Nat} (w : Nat → Nat → ℂ) (hw : ∀ j, j < dim.length → ∑ v ∈ Finset.range (dim.getD j 1), ‖w j v‖ ^ 2 = 1)
    {m : Nat} (hm : m < (dim ++ dim).length) :
    ∑ v ∈ Finset.range ((dim ++ dim).getD m 1), ‖axisVec dim.length w m v‖ ^ 2 = 1 := by
  by_cases h : m < dim.length
  · have e : (dim ++ dim).getD m 1 = dim.getD m 1 := by
      simp [List.getD_eq_getElem?_getD, List.getElem?_append_left h]
    simp only [axisVec, h, if_true, e]
    exact hw m h
  · have h' : m - dim.length < dim.length := by simp at hm; omega
    have e : (dim ++ dim).getD m 1 = dim.getD (m - dim.length) 1 := by
      simp [List.getD_eq_getElem?_getD, List.getElem?_append_right (not_lt.1 h)]
    simp only [axisVec, h, if_false, e, norm_star]
    exact hw _ h'

theorem sum_rowVec_eq_one {dim : List Nat} (w : Nat → Nat → ℂ) (hw : ∀ j, j < dim.length → ∑ v ∈ Finset.range (dim.getD j 1), ‖w j v‖ ^ 2 = 1)
    (axes : List Nat) (hax : ∀ m ∈ axes, m < (dim ++ dim).length) :
    ∑ r : Fin (prodL (permShape (dim ++ dim) axes)), ‖rowVec dim.length w axes (unflat (permShape (dim ++ dim) axes) r)‖ ^ 2 = 1 := by
  rw [Fin.sum_univ_eq_sum_range (fun r => ‖rowVec dim.length w axes (unflat (permShape (dim ++ dim) axes) r)‖ ^ 2), sum_rowVec_sq]
  apply List.prod_eq_one
  intro x hx
  obtain ⟨m, hm, rfl⟩ := List.mem_map.1 hx
  exact axis_norm_one w hw (hax m hm)


/-- `List.foldl` with a product over `List.range` (the spelling of the executable models) is the `Finset` product -/
theorem foldl_range_mul {R : Type} [CommSemiring R] (n : ℕ) (h : ℕ → R) :
    (List.range n).foldl (fun acc x => acc * h x) 1 = ∏ x ∈ Finset.range n, h x := by
  induction n with
  | zero => simp
  | succ n ih => rw [List.range_succ, List.foldl_append, ih, Finset.prod_range_succ]; rfl

/-- **the sum over all multi-indices of a product over the axes is the product of the sums over each axis** (`np.unravel_index` order) -/
theorem sum_prod_unflat {R : Type} [CommSemiring R] (dims : List ℕ) (g : ℕ → ℕ → R) :
    ∑ k ∈ Finset.range (prodL dims), ∏ x ∈ Finset.range dims.length, g x ((unflat dims k).getD x 0)
      = ∏ x ∈ Finset.range dims.length, ∑ i ∈ Finset.range (dims.getD x 1), g x i := by
  induction dims generalizing g with
  | nil => simp [prodL]
  | cons d ds ih =>
    simp only [prodL, List.length_cons]
    rw [Finset.prod_range_succ']
    have h1 : ∀ k, ∏ x ∈ Finset.range (ds.length + 1), g x ((unflat (d :: ds) k).getD x 0)
        = (∏ x ∈ Finset.range ds.length, g (x + 1) ((unflat ds (k % prodL ds)).getD x 0)) * g 0 (k / prodL ds) := by
      intro k
      rw [Finset.prod_range_succ']
      simp [unflat]
    simp only [h1]
    rw [sum_range_mul_divmod d (prodL ds) (fun a r => (∏ x ∈ Finset.range ds.length, g (x + 1) ((unflat ds r).getD x 0)) * g 0 a)]
    simp only [List.getD_cons_succ, List.getD_cons_zero]
    rw [← ih (fun x i => g (x + 1) i), Finset.sum_comm, ← Finset.sum_mul_sum]

end Numqi.Ent
