/-
C19 ↔ C08: the Pauli action `pauliAct` on position-indexed vectors is multiplication by C08's matrix
`mat I p` (`NumqiProps/C08.lean`), under the identification basis state `b : Bits n` ↦ position `Σ b_i 2^i`.
-/
import NumqiProofs.QecPauliAct
import NumqiProps.C08

namespace Numqi.Qec
open Numqi Numqi.Pauli

variable {R : Type} [CommRing R]

/-- position of a basis state: qubit `i` = bit `i` -/
def posOf : {n : Nat} → Bits n → Nat
  | 0, _ => 0
  | n + 1, b => posOf (fun i : Fin n => b i.castSucc) + (b (Fin.last n)).toNat * 2 ^ n

theorem posOf_lt : ∀ {n : Nat} (b : Bits n), posOf b < 2 ^ n
  | 0, _ => by simp [posOf]
  | n + 1, b => by
    have := posOf_lt (fun i : Fin n => b i.castSucc)
    rw [posOf, pow_succ]
    cases b (Fin.last n) <;> simp <;> omega

theorem testBit_posOf : ∀ {n : Nat} (b : Bits n) (j : Nat), (posOf b).testBit j = if h : j < n then b ⟨j, h⟩ else false
  | 0, _, j => by simp [posOf]
  | n + 1, b, j => by
    have hlt := posOf_lt (fun i : Fin n => b i.castSucc)
    have e : posOf b = 2 ^ n * (b (Fin.last n)).toNat + posOf (fun i : Fin n => b i.castSucc) := by
      rw [posOf]; ring
    rw [e, Nat.testBit_two_pow_mul_add _ hlt]
    by_cases hj : j < n
    · have hj' : j < n + 1 := by omega
      simp only [hj, hj', if_true, dite_true]
      rw [testBit_posOf (fun i : Fin n => b i.castSucc) j]
      simp [hj]
    · simp only [hj, if_false]
      by_cases hj2 : j = n
      · subst hj2
        have : (⟨j, by omega⟩ : Fin (j + 1)) = Fin.last j := rfl
        simp only [Nat.sub_self, Nat.lt_succ_self, dite_true, this]
        cases b (Fin.last j) <;> simp
      · have hj3 : ¬ j < n + 1 := by omega
        simp only [hj3, dite_false]
        have : 1 ≤ j - n := by omega
        cases b (Fin.last n) <;> simp
        · have : (1 : Nat) < 2 ^ (j - n) := Nat.one_lt_two_pow (by omega)
          exact Nat.testBit_lt_two_pow this

/-- the mask operator as an element of C08's `Pauli n` (`i^(2 s0 + s1) X^x Z^z`) -/
def toPauli (n : Nat) (p : MP) : Pauli n :=
  ⟨p.k % 4 / 2 == 1, p.k % 2 == 1, fun i => p.x.testBit i, fun i => p.z.testBit i⟩

theorem toPauli_phase (n : Nat) (p : MP) : (toPauli n p).phaseExp = p.k % 4 := by
  simp only [toPauli, Pauli.phaseExp]
  have h4 : p.k % 4 < 4 := Nat.mod_lt _ (by norm_num)
  have e2 : p.k % 2 = p.k % 4 % 2 := by omega
  rw [e2]
  generalize p.k % 4 = r at *
  interval_cases r <;> rfl

theorem posOf_xor {n : Nat} (b : Bits n) (x : Nat) (hx : x < 2 ^ n) :
    posOf (Bits.xor b (fun i => x.testBit i)) = posOf b ^^^ x := by
  apply Nat.eq_of_testBit_eq
  intro j
  rw [testBit_posOf, Nat.testBit_xor, testBit_posOf]
  by_cases hj : j < n
  · simp [hj, Bits.xor]
  · have : x.testBit j = false :=
      Nat.testBit_lt_two_pow (lt_of_lt_of_le hx (Nat.pow_le_pow_right (by norm_num) (by omega)))
    simp [hj, this]

/-- xor of the low `n` bits = parity of their sum -/
theorem xorBits_eq_sum (n m : Nat) : (xorBits n m).toNat = (∑ i : Fin n, (m.testBit i).toNat) % 2 := by
  induction n with
  | zero => simp [xorBits_zero]
  | succ n ih =>
    rw [xorBits_succ, Fin.sum_univ_castSucc]
    simp only [Fin.val_castSucc, Fin.val_last]
    have := ih
    revert this
    generalize (∑ i : Fin n, (m.testBit i).toNat) = S
    intro h
    cases hx : xorBits n m <;> cases hb : m.testBit n <;> simp [hx] at h ⊢ <;> omega

theorem xorBits_of_lt {n m : Nat} (hm : m < 2 ^ n) (N : Nat) (hN : n ≤ N) : xorBits N m = xorBits n m := by
  obtain ⟨t, rfl⟩ := Nat.exists_eq_add_of_le hN
  rw [xorBits_add]
  have : m >>> n = 0 := by rw [Nat.shiftRight_eq_div_pow]; exact Nat.div_eq_of_lt hm
  rw [this]
  have : ∀ t, xorBits t 0 = false := by
    intro t; induction t with
    | zero => rfl
    | succ t ih => rw [xorBits_succ, ih]; simp
  rw [this]; simp

/-- `z · b (mod 2)` on bit vectors = parity of the masked position -/
theorem dotN_parity {n : Nat} (hn : n ≤ 32) (z : Nat) (b : Bits n) :
    Bits.dotN (fun i : Fin n => z.testBit i) b % 2 = (par (z &&& posOf b)).toNat := by
  have hlt : z &&& posOf b < 2 ^ n := lt_of_le_of_lt Nat.and_le_right (posOf_lt b)
  rw [par_eq, xorBits_of_lt hlt 32 hn, xorBits_eq_sum, Bits.dotN_eq_sum]
  congr 1
  apply Finset.sum_congr rfl
  intro i _
  rw [Nat.testBit_and, testBit_posOf]
  simp [i.isLt]

/-- **`pauliAct` is multiplication by C08's matrix.**  For masks below `2^n` (`n ≤ 32`), every vector `v` and
every basis state `b'`: `(pauliAct I p v)(pos b') = Σ_b mat I (toPauli p) b' b · v(pos b)`, where
`C08.mat I P` is the matrix of `i^k X^x Z^z` proved faithful (product, inverse, commutation) in C08. -/
theorem pauliAct_eq_mat {I : R} (hI : I * I = -1) {n : Nat} (hn : n ≤ 32) (p : MP) (hx : p.x < 2 ^ n)
    (v : Nat → R) (b' : Bits n) :
    pauliAct I p v (posOf b') = (Matrix.mulVec (C08.mat I (toPauli n p)) (fun b => v (posOf b))) b' := by
  rw [Matrix.mulVec, dotProduct]
  rw [Finset.sum_eq_single (Bits.xor b' (toPauli n p).x)]
  · rw [C08.mat_apply hI]
    have hxx : b' = Bits.xor (Bits.xor b' (toPauli n p).x) (toPauli n p).x := by
      funext i; simp [Bits.xor]
    rw [if_pos hxx]
    have hpos : posOf (Bits.xor b' (toPauli n p).x) = posOf b' ^^^ p.x := posOf_xor b' p.x hx
    simp only [pauliAct]
    rw [hpos, ipow_eq]
    congr 1
    apply Numqi.ipow_congr hI
    rw [toPauli_phase]
    have hd := dotN_parity hn p.z (Bits.xor b' (toPauli n p).x)
    rw [hpos] at hd
    have : (toPauli n p).z = fun i : Fin n => p.z.testBit i := rfl
    rw [this]
    omega
  · intro b _ hb
    rw [C08.mat_apply hI]
    have : ¬ (b' = Bits.xor b (toPauli n p).x) := by
      intro e; apply hb
      rw [e]; funext i; simp [Bits.xor]
    rw [if_neg this, zero_mul]
  · intro h; exact absurd (Finset.mem_univ _) h

end Numqi.Qec
