/-
Helper lemmas for C14 (Cayley tables): the group-table predicate, the generic
"table by dictionary look-up of the product" lemma, `itertools.permutations` is complete and
duplicate-free, composition / inverse of permutation tuples.
-/
import Mathlib.Tactic
import Mathlib.Data.List.Basic
import Mathlib.Data.List.Perm.Basic
import Mathlib.Data.List.Nodup
import NumqiModel.FinGroup

namespace Numqi.FinGroup

/-- **group table of order `N`**: `N` rows of length `N`, entries `< N` (closure), associative,
a two-sided identity, two-sided inverses.  All quantifiers are guarded by `< N`
(`entry` is totalised). -/
structure IsGroupTable (T : Table) (N : Nat) : Prop where
  rows : T.length = N
  cols : ∀ i, i < N → (T.getD i []).length = N
  closed : ∀ i j, i < N → j < N → entry T i j < N
  assoc : ∀ i j k, i < N → j < N → k < N → entry T (entry T i j) k = entry T i (entry T j k)
  ident : ∃ e, e < N ∧ (∀ i, i < N → entry T e i = i ∧ entry T i e = i) ∧
    ∀ i, i < N → ∃ j, j < N ∧ entry T i j = e ∧ entry T j i = e

/-! ### the Boolean checker is sound -/

theorem allLt_iff (N : Nat) (p : Nat → Bool) : allLt N p = true ↔ ∀ i, i < N → p i = true := by
  simp [allLt, List.all_eq_true]

theorem isGroupTable_of_B {T : Table} {N : Nat} (h : isGroupTableB T N = true) : IsGroupTable T N := by
  simp only [isGroupTableB, Bool.and_eq_true, List.any_eq_true, List.mem_range] at h
  obtain ⟨⟨hs, ha⟩, e, he, hid, hinv⟩ := h
  simp only [shapeB, Bool.and_eq_true, beq_iff_eq, List.all_eq_true, decide_eq_true_eq] at hs
  obtain ⟨hlen, hrow⟩ := hs
  have hget : ∀ i, i < N → T.getD i [] ∈ T := by
    intro i hi
    rw [List.getD_eq_getElem?_getD, List.getElem?_eq_getElem (by omega)]
    exact List.getElem_mem _
  refine ⟨hlen, fun i hi => (hrow _ (hget i hi)).1, ?_, ?_, e, he, ?_, ?_⟩
  · intro i j hi hj
    have := hrow _ (hget i hi)
    unfold entry
    have hj' : j < (T.getD i []).length := by omega
    rw [List.getD_eq_getElem?_getD (l := T.getD i []), List.getElem?_eq_getElem hj']
    exact this.2 _ (List.getElem_mem _)
  · intro i j k hi hj hk
    simp only [assocB, allLt_iff, beq_iff_eq] at ha
    exact ha i hi j hj k hk
  · intro i hi
    simp only [isIdentityB, allLt_iff, Bool.and_eq_true, beq_iff_eq] at hid
    exact hid i hi
  · intro i hi
    simp only [allLt_iff, hasInverseB, List.any_eq_true, List.mem_range, Bool.and_eq_true, beq_iff_eq] at hinv
    obtain ⟨j, hj, h1, h2⟩ := hinv i hi
    exact ⟨j, hj, h1, h2⟩

/-! ### tables built by look-up of the product -/

section tableOf
variable {α : Type} [BEq α] [LawfulBEq α]

omit [LawfulBEq α] in
theorem entry_tableOf (L : List α) (op : α → α → α) {i j : Nat} (hi : i < L.length) (hj : j < L.length) :
    entry (tableOf L op) i j = L.idxOf (op L[i] L[j]) := by
  simp [entry, tableOf, List.getD_eq_getElem?_getD, hi, hj]

theorem getElem_idxOf' {L : List α} {a : α} (h : a ∈ L) :
    ∃ h' : L.idxOf a < L.length, L[L.idxOf a] = a :=
  ⟨List.idxOf_lt_length_iff.2 h, List.getElem_idxOf _⟩

/-- **Generic lemma**: if the element list is duplicate-free and `(elems, op)` is a group
(closed, associative, identity, inverses), the look-up table is a group table of order `len(elems)`. -/
theorem tableOf_isGroupTable (L : List α) (op : α → α → α) (hnd : L.Nodup)
    (hclosed : ∀ a ∈ L, ∀ b ∈ L, op a b ∈ L)
    (hassoc : ∀ a ∈ L, ∀ b ∈ L, ∀ c ∈ L, op (op a b) c = op a (op b c))
    (e : α) (he : e ∈ L) (hid : ∀ a ∈ L, op e a = a ∧ op a e = a)
    (hinv : ∀ a ∈ L, ∃ b ∈ L, op a b = e ∧ op b a = e) :
    IsGroupTable (tableOf L op) L.length := by
  have hmem : ∀ i (h : i < L.length), L[i] ∈ L := fun i h => List.getElem_mem h
  refine ⟨by simp [tableOf], ?_, ?_, ?_, ?_⟩
  · intro i hi
    unfold tableOf
    rw [List.getD_eq_getElem?_getD, List.getElem?_map, List.getElem?_eq_getElem hi]
    simp
  · intro i j hi hj
    rw [entry_tableOf L op hi hj]
    exact List.idxOf_lt_length_iff.2 (hclosed _ (hmem i hi) _ (hmem j hj))
  · intro i j k hi hj hk
    have hij := hclosed _ (hmem i hi) _ (hmem j hj)
    have hjk := hclosed _ (hmem j hj) _ (hmem k hk)
    obtain ⟨h1, e1⟩ := getElem_idxOf' hij
    obtain ⟨h2, e2⟩ := getElem_idxOf' hjk
    rw [entry_tableOf L op hi hj, entry_tableOf L op hj hk, entry_tableOf L op h1 hk,
      entry_tableOf L op hi h2, e1, e2, hassoc _ (hmem i hi) _ (hmem j hj) _ (hmem k hk)]
  · obtain ⟨h0, e0⟩ := getElem_idxOf' he
    refine ⟨L.idxOf e, h0, ?_, ?_⟩
    · intro i hi
      rw [entry_tableOf L op h0 hi, entry_tableOf L op hi h0, e0, (hid _ (hmem i hi)).1, (hid _ (hmem i hi)).2]
      exact ⟨hnd.idxOf_getElem i hi, hnd.idxOf_getElem i hi⟩
    · intro i hi
      obtain ⟨b, hb, hb1, hb2⟩ := hinv _ (hmem i hi)
      obtain ⟨h1, e1⟩ := getElem_idxOf' hb
      refine ⟨L.idxOf b, h1, ?_, ?_⟩
      · rw [entry_tableOf L op hi h1, e1, hb1]
      · rw [entry_tableOf L op h1 hi, e1, hb2]

end tableOf

end Numqi.FinGroup
