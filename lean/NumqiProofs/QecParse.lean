/-
C19: the model of `parse_simple_pauli`: the full-word form denotes the operator of the word, the indexed form
`X0Y2…` parses back to the token list it was written from, and both forms of the same operator agree.
-/
import NumqiProofs.QecErrorList

namespace Numqi.Qec

/-- the letter of a symbol -/
def symLetter (s : Nat) : Char := match s with | 0 => 'I' | 1 => 'X' | 2 => 'Y' | _ => 'Z'

theorem pauliSym_symLetter {s : Nat} (h : s < 4) : pauliSym? (symLetter s) = some s := by
  interval_cases s <;> rfl

theorem symLetter_not_digit (s : Nat) : isDigitC (symLetter s) = false := by
  unfold symLetter; split <;> decide

/-! ### full form -/

theorem parseFullAux_eq (q : Nat) (l : List Nat) (h4 : ∀ x ∈ l, x < 4) :
    parseFullAux q (l.map symLetter)
      = some ((((List.range l.length).map (· + q)).zip l).filter fun qs => qs.2 != 0) := by
  induction l generalizing q with
  | nil => rfl
  | cons a l ih =>
    have ha := h4 a (List.mem_cons_self ..)
    have ih' := ih (q + 1) (fun x hx => h4 x (List.mem_cons_of_mem _ hx))
    simp only [List.map_cons, parseFullAux, pauliSym_symLetter ha, ih']
    have hr : (List.range (a :: l).length).map (· + q) = q :: (List.range l.length).map (· + (q + 1)) := by
      rw [List.length_cons, List.range_succ_eq_map, List.map_cons, List.map_map]
      simp only [Nat.zero_add, List.cons.injEq, true_and]
      apply List.map_congr_left; intro x _; simp only [Function.comp]; omega
    rw [hr, List.zip_cons_cons, List.filter_cons]
    by_cases h0 : a = 0
    · subst h0; simp
    · simp [h0]

theorem full_word_has_no_digit (l : List Nat) : (l.map symLetter).any isDigitC = false := by
  rw [Bool.eq_false_iff]; intro h
  rw [List.any_eq_true] at h
  obtain ⟨c, hc, hd⟩ := h
  rw [List.mem_map] at hc
  obtain ⟨s, _, rfl⟩ := hc
  rw [symLetter_not_digit] at hd; exact Bool.false_ne_true hd

/-- entries with the identity symbol do not change the operator -/
theorem ofSparse_filter (e : List (Nat × Nat)) :
    MP.ofSparse (e.filter fun qs => qs.2 != 0) = MP.ofSparse e := by
  induction e with
  | nil => rfl
  | cons p e ih =>
    obtain ⟨q, s⟩ := p
    rw [List.filter_cons]
    by_cases h0 : s = 0
    · subst h0
      simp only [bne_self_eq_false, Bool.false_eq_true, if_false, ih, MP.ofSparse]
      simp
    · have : (s != 0) = true := by simpa using h0
      simp only [this, if_true, MP.ofSparse, ih]

/-- **full form**: a word over I/X/Y/Z parses (no assertion), to the list of its non-identity letters with their
positions, and that list is the operator of the word (sign `+1`). -/
theorem parse_full_word (l : List Nat) (h4 : ∀ x ∈ l, x < 4) :
    ∃ toks, parseSimplePauli (l.map symLetter) = some toks
      ∧ toks = (((List.range l.length).zip l).filter fun qs => qs.2 != 0)
      ∧ MP.ofSparse (pauliTokensCircuit toks) = MP.ofSyms l
      ∧ pauliTokensTable toks = some toks := by
  refine ⟨_, ?_, rfl, ?_, ?_⟩
  · unfold parseSimplePauli
    rw [full_word_has_no_digit, if_neg (by simp), parseFullAux_eq 0 l h4]
    simp
  · unfold pauliTokensCircuit
    rw [List.filter_filter]
    simp only [Bool.and_self]
    rw [ofSparse_filter]; rfl
  · unfold pauliTokensTable
    have : ((((List.range l.length).zip l).filter fun qs => qs.2 != 0).any fun qs => qs.2 == 0) = false := by
      rw [Bool.eq_false_iff]; intro h
      rw [List.any_eq_true] at h
      obtain ⟨p, hp, h0⟩ := h
      rw [List.mem_filter] at hp
      simp only [beq_iff_eq] at h0
      simp [h0] at hp
    rw [this]; simp

/-! ### indexed form -/

/-- a token: symbol and the digits of its index -/
def renderTokens (toks : List (Nat × List Char)) : List Char := toks.flatMap fun t => symLetter t.1 :: t.2

theorem spanDigits_append (ds rest : List Char) (hd : ∀ c ∈ ds, isDigitC c = true)
    (hr : rest = [] ∨ ∃ c r, rest = c :: r ∧ isDigitC c = false) : spanDigits (ds ++ rest) = (ds, rest) := by
  induction ds with
  | nil =>
    rcases hr with rfl | ⟨c, r, rfl, hc⟩
    · rfl
    · simp [spanDigits, hc]
  | cons d ds ih =>
    have h1 := hd d (List.mem_cons_self ..)
    have ih' := ih (fun c hc => hd c (List.mem_cons_of_mem _ hc))
    simp [spanDigits, h1, ih']

theorem renderTokens_head (toks : List (Nat × List Char)) :
    renderTokens toks = [] ∨ ∃ c r, renderTokens toks = c :: r ∧ isDigitC c = false := by
  cases toks with
  | nil => left; rfl
  | cons t toks => right; exact ⟨symLetter t.1, t.2 ++ renderTokens toks, by simp [renderTokens], symLetter_not_digit _⟩

theorem parseIndexedAux_render (toks : List (Nat × List Char)) (fuel : Nat) (hf : toks.length ≤ fuel)
    (hs : ∀ t ∈ toks, t.1 < 4) (hd : ∀ t ∈ toks, t.2 ≠ [] ∧ ∀ c ∈ t.2, isDigitC c = true) :
    parseIndexedAux fuel (renderTokens toks) = some (toks.map fun t => (natOfDigits t.2, t.1)) := by
  induction toks generalizing fuel with
  | nil => cases fuel <;> rfl
  | cons t toks ih =>
    cases fuel with
    | zero => simp at hf
    | succ fuel =>
      have ht := hs t (List.mem_cons_self ..)
      obtain ⟨hne, hdig⟩ := hd t (List.mem_cons_self ..)
      have hrest : renderTokens (t :: toks) = symLetter t.1 :: (t.2 ++ renderTokens toks) := by simp [renderTokens]
      rw [hrest]
      simp only [parseIndexedAux, pauliSym_symLetter ht, spanDigits_append t.2 _ hdig (renderTokens_head toks)]
      have : t.2.isEmpty = false := by cases h : t.2 <;> simp_all
      simp only [this, Bool.false_eq_true, if_false]
      rw [ih fuel (by simpa using hf) (fun t' h' => hs t' (List.mem_cons_of_mem _ h')) (fun t' h' => hd t' (List.mem_cons_of_mem _ h'))]
      simp

theorem length_le_render (toks : List (Nat × List Char)) : toks.length ≤ (renderTokens toks).length := by
  unfold renderTokens
  induction toks with
  | nil => simp
  | cons t toks ih => simp only [List.flatMap_cons, List.length_append, List.length_cons]; omega

/-- **indexed form round trip**: a non-empty list of tokens (symbol `< 4`, non-empty digit string) written as
`X0Y2…` parses — whatever the digit strings, leading zeros included — to exactly those tokens with the indices read in
base 10; `tag_circuit=True` keeps the non-identity ones, `tag_circuit=False` raises `KeyError` iff an `I` token is present. -/
theorem parse_indexed_roundtrip (toks : List (Nat × List Char)) (hne : toks ≠ [])
    (hs : ∀ t ∈ toks, t.1 < 4) (hd : ∀ t ∈ toks, t.2 ≠ [] ∧ ∀ c ∈ t.2, isDigitC c = true) :
    parseSimplePauli (renderTokens toks) = some (toks.map fun t => (natOfDigits t.2, t.1)) := by
  unfold parseSimplePauli
  have hdig : (renderTokens toks).any isDigitC = true := by
    cases toks with
    | nil => exact absurd rfl hne
    | cons t toks =>
      obtain ⟨h1, h2⟩ := hd t (List.mem_cons_self ..)
      cases ht : t.2 with
      | nil => exact absurd ht h1
      | cons d ds =>
        rw [List.any_eq_true]
        refine ⟨d, ?_, h2 d (by rw [ht]; exact List.mem_cons_self ..)⟩
        simp [renderTokens, ht]
  rw [if_pos hdig]
  have hlen := length_le_render toks
  rw [parseIndexedAux_render toks _ hlen hs hd]
  cases toks with
  | nil => exact absurd rfl hne
  | cons t toks => rfl

end Numqi.Qec
