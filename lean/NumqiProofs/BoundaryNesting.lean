/-
C06, second part: separable states are symmetric-extendible; side conditions of the boundary-length chains; links between the
spec-level objects of the theorems (`rayPoint`, pair-indexed matrices) and the executed model constants (`interp`, flat lists).
-/
import NumqiProofs.BoundaryLemmas

namespace Numqi.Boundary
open Matrix Finset
open scoped ComplexOrder

/-! ### `rayPoint` is `hf_interpolate_dm` -/

/-- the ray point of the threshold theorems is the executed `interpBeta` (`hf_interpolate_dm(ρ, beta=β, dm_norm=d)`) -/
theorem rayPoint_eq_interpBeta {n : ℕ} (N d : ℝ) (ρ : Matrix (Fin n) (Fin n) ℂ) (β : ℝ) :
    rayPoint N d ρ β = Matrix.of (interpBeta (((1 / N : ℝ) : ℂ)) (β : ℂ) (d : ℂ) ρ) := by
  ext r c
  simp only [rayPoint, interpBeta, interp, Matrix.add_apply, Matrix.smul_apply, Matrix.sub_apply, Matrix.one_apply,
    smul_eq_mul, Matrix.of_apply]
  by_cases h : r = c
  · simp only [h, if_true]; push_cast; ring
  · simp only [h, if_false]; push_cast; ring

/-! ### the numpy flattening of pair indices -/

section flat
variable {dA dB : ℕ}

theorem flatOfPair_lt (p : Fin dA × Fin dB) : flatOfPair p < dA * dB := by
  unfold flatOfPair
  calc p.1.val * dB + p.2.val < p.1.val * dB + dB := by omega
    _ = (p.1.val + 1) * dB := by ring
    _ ≤ dA * dB := Nat.mul_le_mul_right _ p.1.isLt

/-- `pairOfFlat` inverts the row-major position `a·dB + b` -/
theorem pairOfFlat_flatOfPair (p : Fin dA × Fin dB) : pairOfFlat dA dB (flatOfPair p) = some p := by
  have hb : 0 < dB := Nat.pos_of_ne_zero (by intro h; have := p.2.isLt; omega)
  have h1 : (p.1.val * dB + p.2.val) / dB = p.1.val := by
    rw [Nat.add_comm, Nat.add_mul_div_right _ _ hb, Nat.div_eq_of_lt p.2.isLt, Nat.zero_add]
  have h2 : (p.1.val * dB + p.2.val) % dB = p.2.val := by
    rw [Nat.add_comm, Nat.add_mul_mod_self_right, Nat.mod_eq_of_lt p.2.isLt]
  unfold pairOfFlat flatOfPair
  rw [dif_pos ⟨hb, by rw [h1]; exact p.1.isLt⟩]
  simp only [Option.some.injEq]
  exact Prod.ext (Fin.ext h1) (Fin.ext h2)

theorem flatOfPair_pairAt (i : Fin (dA * dB)) : flatOfPair (pairAt dA dB i) = i.val := by
  unfold flatOfPair pairAt
  exact Nat.div_add_mod' i.val dB

theorem pairAt_flatOfPair (p : Fin dA × Fin dB) : pairAt dA dB ⟨flatOfPair p, flatOfPair_lt p⟩ = p := by
  have hb : 0 < dB := Nat.pos_of_ne_zero (by intro h; have := p.2.isLt; omega)
  have h1 : (p.1.val * dB + p.2.val) / dB = p.1.val := by
    rw [Nat.add_comm, Nat.add_mul_div_right _ _ hb, Nat.div_eq_of_lt p.2.isLt, Nat.zero_add]
  have h2 : (p.1.val * dB + p.2.val) % dB = p.2.val := by
    rw [Nat.add_comm, Nat.add_mul_mod_self_right, Nat.mod_eq_of_lt p.2.isLt]
  exact Prod.ext (Fin.ext h1) (Fin.ext h2)

/-- **the flat list is the row-major `reshape`**: position `flat(p)·N + flat(q)` of `toFlat M` holds `M p q` -/
theorem toFlat_getD {α : Type} [Zero α] (M : Fin dA × Fin dB → Fin dA × Fin dB → α) (p q : Fin dA × Fin dB) :
    (toFlat dA dB M).getD (flatOfPair p * (dA * dB) + flatOfPair q) 0 = M p q := by
  have hp := flatOfPair_lt p
  have hq := flatOfPair_lt q
  have hN : 0 < dA * dB := by omega
  have hlt : flatOfPair p * (dA * dB) + flatOfPair q < (dA * dB) * (dA * dB) := by
    calc flatOfPair p * (dA * dB) + flatOfPair q < flatOfPair p * (dA * dB) + dA * dB := by omega
      _ = (flatOfPair p + 1) * (dA * dB) := by ring
      _ ≤ (dA * dB) * (dA * dB) := Nat.mul_le_mul_right _ hp
  have h1 : (flatOfPair p * (dA * dB) + flatOfPair q) / (dA * dB) = flatOfPair p := by
    rw [Nat.add_comm, Nat.add_mul_div_right _ _ hN, Nat.div_eq_of_lt hq, Nat.zero_add]
  have h2 : (flatOfPair p * (dA * dB) + flatOfPair q) % (dA * dB) = flatOfPair q := by
    rw [Nat.add_comm, Nat.add_mul_mod_self_right, Nat.mod_eq_of_lt hq]
  unfold toFlat
  rw [List.getD_eq_getElem?_getD, List.getElem?_ofFn]
  simp only [hlt, dite_true, Option.getD_some]
  have e1 : pairAt dA dB ⟨(flatOfPair p * (dA * dB) + flatOfPair q) / (dA * dB), by rw [h1]; exact hp⟩ = p :=
    (congrArg (pairAt dA dB) (Fin.ext h1)).trans (pairAt_flatOfPair p)
  have e2 : pairAt dA dB ⟨(flatOfPair p * (dA * dB) + flatOfPair q) % (dA * dB), by rw [h2]; exact hq⟩ = q :=
    (congrArg (pairAt dA dB) (Fin.ext h2)).trans (pairAt_flatOfPair q)
  rw [e1, e2]

/-- **the executed partial transpose is numpy's `reshape(dA,dB,dA,dB).transpose(0,3,2,1).reshape(N,N)`**: entry
`[(a,b),(a',b')]` of the output list is entry `[(a,b'),(a',b)]` of the input list -/
theorem toFlat_ptB_ofFlat {α : Type} [Zero α] (l : List α) (p q : Fin dA × Fin dB) :
    (toFlat dA dB (ptB (ofFlat dA dB l))).getD (flatOfPair p * (dA * dB) + flatOfPair q) 0
      = l.getD (flatOfPair (p.1, q.2) * (dA * dB) + flatOfPair (q.1, p.2)) 0 := by
  rw [toFlat_getD]
  simp [ptB, ofFlat, List.getD_eq_getElem?_getD, Array.getD_eq_getD_getElem?]

end flat


/-! ### separable states are symmetric-extendible -/

section sepext
variable {dA dB : ℕ}

/-- the product vector `a ⊗ b^{⊗(k+1)}` -/
def prodVec (k : ℕ) (a : Fin dA → ℂ) (b : Fin dB → ℂ) : Fin dA × (Fin (k + 1) → Fin dB) → ℂ :=
  fun p => a p.1 * ∏ m, b (p.2 m)

/-- `Σ_i λ_i |a_i⟩⟨a_i| ⊗ (|b_i⟩⟨b_i|)^{⊗(k+1)}` -/
def sepExt (k : ℕ) {K : ℕ} (lam : Fin K → ℂ) (a : Fin K → Fin dA → ℂ) (b : Fin K → Fin dB → ℂ) :
    Matrix (Fin dA × (Fin (k + 1) → Fin dB)) (Fin dA × (Fin (k + 1) → Fin dB)) ℂ :=
  ∑ i, lam i • vecMulVec (prodVec k (a i) (b i)) (star (prodVec k (a i) (b i)))

theorem prodVec_symm (k : ℕ) (a : Fin dA → ℂ) (b : Fin dB → ℂ) (π : Equiv.Perm (Fin (k + 1)))
    (p : Fin dA × (Fin (k + 1) → Fin dB)) : prodVec k a b (p.1, p.2 ∘ π) = prodVec k a b p := by
  unfold prodVec
  simp only [Function.comp]
  rw [Equiv.prod_comp π (fun m => b (p.2 m))]

theorem prodVec_snoc (k : ℕ) (a : Fin dA → ℂ) (b : Fin dB → ℂ) (α : Fin dA) (r : Fin k → Fin dB) (x : Fin dB) :
    prodVec k a b (α, Fin.snoc r x) = a α * ((∏ m, b (r m)) * b x) := by
  unfold prodVec
  rw [Fin.prod_univ_castSucc]
  simp

/-- **a mixture of product projectors with unit `B`-kets has a symmetric extension to any number of copies** -/
theorem isSymExt_sepExt (k : ℕ) {K : ℕ} (lam : Fin K → ℂ) (hlam : ∀ i, 0 ≤ lam i) (a : Fin K → Fin dA → ℂ)
    (b : Fin K → Fin dB → ℂ) (hb : ∀ i, ∑ x, b i x * star (b i x) = 1) :
    IsSymExt k (Matrix.of (mixture lam a b)) (sepExt k lam a b) := by
  refine ⟨?_, ?_, ?_⟩
  · exact posSemidef_sum _ fun i _ => (posSemidef_vecMulVec_self_star _).smul (hlam i)
  · intro π p q
    simp only [sepExt, Matrix.sum_apply, Matrix.smul_apply, vecMulVec_apply, Pi.star_apply]
    refine Finset.sum_congr rfl fun i _ => ?_
    rw [prodVec_symm k (a i) (b i) π p, prodVec_symm k (a i) (b i) π q]
  · intro p q
    simp only [sepExt, Matrix.sum_apply, Matrix.smul_apply, vecMulVec_apply, Pi.star_apply, Matrix.of_apply, mixture,
      sumFin_eq, prodProj, conj_eq_star, smul_eq_mul, prodVec_snoc, star_mul']
    rw [Finset.sum_comm]
    refine Finset.sum_congr rfl fun i _ => ?_
    have hk : ∑ r : Fin k → Fin dB, (∏ m, b i (r m)) * (∏ m, star (b i (r m))) = 1 := by
      have := Fintype.sum_pow (fun x => b i x * star (b i x)) k
      rw [hb i, one_pow] at this
      rw [this]
      exact Finset.sum_congr rfl fun r _ => by rw [Finset.prod_mul_distrib]
    calc lam i * (a i p.1 * star (a i q.1) * (b i p.2 * star (b i q.2)))
        = lam i * (a i p.1 * star (a i q.1) * (b i p.2 * star (b i q.2)))
            * ∑ r : Fin k → Fin dB, (∏ m, b i (r m)) * (∏ m, star (b i (r m))) := by rw [hk, mul_one]
      _ = _ := by
          rw [Finset.mul_sum]
          refine Finset.sum_congr rfl fun r _ => ?_
          simp only [star_prod]
          ring

end sepext

/-- **the maximally mixed state is a mixture of product projectors with unit kets**:
`1/N = Σ_{(a,b)} (1/N) |e_a e_b⟩⟨e_a e_b|` -/
theorem center_eq_mixture (dA dB : ℕ) :
    (((1 / ((dA * dB : ℕ) : ℝ) : ℝ) : ℂ) • (1 : Matrix (Fin dA × Fin dB) (Fin dA × Fin dB) ℂ))
      = Matrix.of (mixture (K := dA * dB) (fun _ => ((1 / ((dA * dB : ℕ) : ℝ) : ℝ) : ℂ))
          (fun i => Pi.single (finProdFinEquiv.symm i).1 1) (fun i => Pi.single (finProdFinEquiv.symm i).2 1)) := by
  ext p q
  simp only [Matrix.smul_apply, Matrix.one_apply, smul_eq_mul, Matrix.of_apply, mixture, sumFin_eq, prodProj, conj_eq_star]
  rw [← Equiv.sum_comp finProdFinEquiv]
  simp only [Equiv.symm_apply_apply]
  rw [← Finset.mul_sum, Fintype.sum_eq_single p]
  · by_cases h : p = q
    · subst h; simp [Pi.single_apply]
    · have : ¬ (q.1 = p.1 ∧ q.2 = p.2) := fun ⟨h1, h2⟩ => h (Prod.ext h1.symm h2.symm)
      simp only [h, if_false, mul_zero, Pi.single_apply, if_true, star_one]
      by_cases h1 : q.1 = p.1
      · have h2 : ¬ q.2 = p.2 := fun h2 => this ⟨h1, h2⟩
        simp [h1, h2]
      · simp [h1]
  · intro x hx
    simp only [Pi.single_apply]
    by_cases h1 : p.1 = x.1
    · have h2 : ¬ p.2 = x.2 := fun h2 => hx (Prod.ext h1 h2).symm
      simp [h2]
    · simp [h1]

/-! ### side conditions of the boundary-length chains -/

section side
variable {n : Type} [Fintype n] [DecidableEq n]

/-- along a direction `v` with a negative Rayleigh value the positive-semidefinite `β` are bounded:
`β ≤ c·x†x / (-x†vx)` -/
theorem bddAbove_feasible_psd (c : ℝ) (v : Matrix n n ℂ) (x : n → ℂ) (s r : ℝ) (hs : star x ⬝ᵥ x = (s : ℂ))
    (hr : star x ⬝ᵥ (v *ᵥ x) = (r : ℂ)) (hneg : r < 0) :
    BddAbove (feasible {M : Matrix n n ℂ | M.PosSemidef} ((c : ℂ) • (1 : Matrix n n ℂ)) v) := by
  refine ⟨c * s / (-r), fun β hβ => ?_⟩
  have h := hβ.2.dotProduct_mulVec_nonneg x
  have e : ((c : ℂ) • (1 : Matrix n n ℂ) + β • v) = (c : ℂ) • (1 : Matrix n n ℂ) + (β : ℂ) • v := by
    ext i j; simp
  rw [e, quad_affine, hs, hr] at h
  have h' : (0 : ℝ) ≤ c * s + β * r := by
    have : ((c : ℂ) * (s : ℂ) + (β : ℂ) * (r : ℂ)) = ((c * s + β * r : ℝ) : ℂ) := by push_cast; ring
    rw [this] at h; exact_mod_cast h
  rw [le_div_iff₀ (by linarith)]
  linarith

end side

end Numqi.Boundary
