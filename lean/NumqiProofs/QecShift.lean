/-
C19: `Circuit.shift_qubit_index_` moves a circuit onto the upper qubits of a larger register, and
`VarQEC.get_code()` (shifted encoder on the logical ⊗ physical register) returns the code words of `generate_code_np`.
-/
import NumqiProofs.QecKL

namespace Numqi.Qec
variable {R : Type} [CommRing R]

/-- the part of a vector on `k + n` qubits with the first `k` qubits fixed to the position `lo` -/
def slice (k lo : Nat) (w : Nat → R) : Nat → R := fun hi => w (lo + 2 ^ k * hi)

theorem testBit_lo_hi (k lo hi q : Nat) (hlo : lo < 2 ^ k) : (lo + 2 ^ k * hi).testBit (q + k) = hi.testBit q := by
  rw [Nat.add_comm lo, Nat.testBit_two_pow_mul_add _ hlo]
  have : ¬ (q + k < k) := by omega
  simp [this]

theorem fl_lo_hi (k lo hi q : Nat) (hlo : lo < 2 ^ k) : fl (lo + 2 ^ k * hi) (q + k) = lo + 2 ^ k * fl hi q := by
  unfold fl
  apply Nat.eq_of_testBit_eq
  intro j
  rw [Nat.testBit_xor, testBit_bit, Nat.add_comm lo, Nat.testBit_two_pow_mul_add _ hlo,
    Nat.add_comm lo, Nat.testBit_two_pow_mul_add _ hlo]
  by_cases hj : j < k
  · have : ¬ (q + k = j) := by omega
    simp [hj, this]
  · simp only [hj, if_false, Nat.testBit_xor, testBit_bit]
    congr 1
    have : (q + k = j) ↔ (q = j - k) := by omega
    simp [this]

/-- **one shifted gate acts on the slices** -/
theorem applyGate_shift (I : R) (k lo : Nat) (hlo : lo < 2 ^ k) (g : Gate) (w : Nat → R) :
    slice k lo (applyGate I (g.shift k) w) = applyGate I g (slice k lo w) := by
  funext hi
  cases g <;>
    simp only [slice, Gate.shift, applyGate, tb, testBit_lo_hi k lo hi _ hlo, fl_lo_hi k lo hi _ hlo]

/-- **`shift_qubit_index_(k)` puts the circuit on the qubits `k, k+1, …`**: running the shifted gate list on a
vector of the larger register is running the original list on every slice with the first `k` qubits fixed. -/
theorem run_shift (I : R) (k lo : Nat) (hlo : lo < 2 ^ k) (gs : List Gate) (w : Nat → R) :
    slice k lo (run I (gs.map (Gate.shift k)) w) = run I gs (slice k lo w) := by
  induction gs generalizing w with
  | nil => rfl
  | cons g gs ih =>
    simp only [List.map_cons, run]
    rw [ih, applyGate_shift I k lo hlo]

/-- a gate that fits on `n` qubits, shifted by `k`, fits on `n + k` qubits -/
theorem gateOk_shift (n k : Nat) (g : Gate) (h : gateOk n g = true) : gateOk (n + k) (g.shift k) = true := by
  cases g <;> simp only [gateOk, Gate.shift, Bool.and_eq_true, decide_eq_true_eq, bne_iff_ne, ne_eq] at h ⊢
  all_goals omega

theorem allOk_shift (n k : Nat) (gs : List Gate) (h : gs.all (gateOk n) = true) :
    (gs.map (Gate.shift k)).all (gateOk (n + k)) = true := by
  rw [List.all_eq_true] at h ⊢
  intro g hg
  obtain ⟨g0, hg0, rfl⟩ := List.mem_map.1 hg
  exact gateOk_shift n k g0 (h g0 hg0)

/-- shifting back: `Gate.shift` is injective, index by index -/
theorem shift_zero (g : Gate) : g.shift 0 = g := by cases g <;> rfl

theorem shift_add (a b : Nat) (g : Gate) : (g.shift a).shift b = g.shift (a + b) := by
  cases g <;> simp [Gate.shift, Nat.add_assoc]

theorem le_two_pow_ceilLog2 (K : Nat) : K ≤ 2 ^ ceilLog2 K := by
  unfold ceilLog2
  split
  · simp; omega
  · have := Nat.lt_log2_self (n := K - 1)
    omega

/-- **`VarQEC.get_code()` is `generate_code_np`**: row `a < K` of the model of `get_code` (shifted encoder applied to
`Σ_a |a⟩⊗|a⟩`, sliced at the logical value `a`) is the code word `a`, for every `K` (power of two or not). -/
theorem varqecCode_eq_codeword (I : R) (c : Code) (K a : Nat) (ha : a < K) :
    varqecCode I c K a = codeword I c a := by
  have hK := le_two_pow_ceilLog2 K
  set kl := ceilLog2 K with hkl
  have hlo : posOfIdx kl a < 2 ^ kl := posOfIdx_lt kl a (by omega)
  have h1 := run_shift I kl (posOfIdx kl a) hlo c.encode (varqecInit c.n kl K)
  have hfun : varqecCode I c K a = slice kl (posOfIdx kl a) (run I (c.encode.map (Gate.shift kl)) (varqecInit c.n kl K)) := by
    funext hi; simp only [varqecCode, slice, ← hkl]
  rw [hfun, h1]
  unfold codeword
  congr 1
  funext hi
  simp only [slice, varqecInit, basisVec]
  by_cases h : hi = posOfIdx c.n a
  · subst h
    have : (List.range K).any (fun a' => posOfIdx kl a + 2 ^ kl * posOfIdx c.n a == posOfIdx kl a' + 2 ^ kl * posOfIdx c.n a') = true := by
      rw [List.any_eq_true]; exact ⟨a, List.mem_range.2 ha, by simp⟩
    simp [this]
  · have : (List.range K).any (fun a' => posOfIdx kl a + 2 ^ kl * hi == posOfIdx kl a' + 2 ^ kl * posOfIdx c.n a') = false := by
      rw [Bool.eq_false_iff]; intro hc
      rw [List.any_eq_true] at hc
      obtain ⟨a', ha', he⟩ := hc
      rw [List.mem_range] at ha'
      simp only [beq_iff_eq] at he
      have hlo' : posOfIdx kl a' < 2 ^ kl := posOfIdx_lt kl a' (by omega)
      have e1 : posOfIdx kl a = posOfIdx kl a' := by
        have := congrArg (· % 2 ^ kl) he
        simpa [Nat.add_mul_mod_self_left, Nat.mod_eq_of_lt hlo, Nat.mod_eq_of_lt hlo'] using this
      have e2 : hi = posOfIdx c.n a' := by
        rw [e1] at he
        have := Nat.add_left_cancel he
        exact Nat.eq_of_mul_eq_mul_left (by positivity) this
      have e3 : a = a' := posOfIdx_inj kl a a' (by omega) (by omega) e1
      exact h (by rw [e2, e3])
    simp [this, h]

end Numqi.Qec
