/-
Helper lemmas for C18: the quadratic forms of the explicit 8×8 / 9×9 catalogue matrices and of their partial transposes,
evaluated entry by entry.
-/
import NumqiProofs.Catalogue

set_option linter.unusedSectionVars false

namespace Numqi.Catalogue
open Finset

variable {K : Type} [Field K] [LinearOrder K] [IsStrictOrderedRing K]

/-- the catalogue matrices on `Fin 8` / `Fin 9` with the constants of the source -/
def h24M (b rt : K) (r c : Fin 8) : K := horodecki2x4 7 14 2 b rt r c
def h33M (a rt : K) (r c : Fin 9) : K := horodecki3x3 8 16 2 a rt r c
def antoineM (q : K) (r c : Fin 9) : K := antoine (5/2) 21 2 q r c
/-- partial transposes (second factor) -/
def h24PT (b rt : K) (r c : Fin 8) : K := ptB 4 (horodecki2x4 7 14 2 b rt) r c
def h33PT (a rt : K) (r c : Fin 9) : K := ptB 3 (horodecki3x3 8 16 2 a rt) r c
def antoinePT (q : K) (r c : Fin 9) : K := ptB 3 (antoine (5/2) 21 2 q) r c

theorem h33_qform (a rt : K) (ha : 0 ≤ a) (x : Fin 9 → K) : qform (h33M a rt) x =
    (2 * a * (x 1 * x 1 + x 2 * x 2 + x 3 * x 3 + x 5 * x 5 + x 7 * x 7) + 2 * a * ((x 0 + x 4 + x 8) * (x 0 + x 4 + x 8))
    + ((1 + a) * (x 6 * x 6) + (1 - a) * (x 8 * x 8) + 2 * rt * (x 6 * x 8))) / (16 * a + 2) := by
  have h1 : (8 * a + 1) ≠ 0 := by positivity
  have h2 : (16 * a + 2) ≠ 0 := by positivity
  simp [qform, h33M, horodecki3x3, Fin.sum_univ_succ]
  field_simp
  ring

theorem h33PT_qform (a rt : K) (ha : 0 ≤ a) (x : Fin 9 → K) : qform (h33PT a rt) x =
    (2 * a * (x 0 * x 0 + x 4 * x 4) + 2 * a * ((x 1 + x 3) * (x 1 + x 3)) + 2 * a * ((x 5 + x 7) * (x 5 + x 7))
      + 2 * a * ((x 2 + x 6) * (x 2 + x 6))
      + ((1 - a) * (x 6 * x 6) + (1 + a) * (x 8 * x 8) + 2 * rt * (x 6 * x 8))) / (16 * a + 2) := by
  have h1 : (8 * a + 1) ≠ 0 := by positivity
  have h2 : (16 * a + 2) ≠ 0 := by positivity
  simp [qform, h33PT, ptB, horodecki3x3, Fin.sum_univ_succ]
  field_simp
  ring

theorem h24_qform (b rt : K) (hb : 0 ≤ b) (x : Fin 8 → K) : qform (h24M b rt) x =
    (2 * b * ((x 0 + x 5) * (x 0 + x 5)) + 2 * b * ((x 1 + x 6) * (x 1 + x 6)) + 2 * b * (x 3 * x 3)
      + 2 * b * ((x 2 + x 7) * (x 2 + x 7))
      + ((1 + b) * (x 4 * x 4) + (1 - b) * (x 7 * x 7) + 2 * rt * (x 4 * x 7))) / (14 * b + 2) := by
  have h1 : (7 * b + 1) ≠ 0 := by positivity
  have h2 : (14 * b + 2) ≠ 0 := by positivity
  simp [qform, h24M, horodecki2x4, Fin.sum_univ_succ]
  field_simp
  ring

theorem h24PT_qform (b rt : K) (hb : 0 ≤ b) (x : Fin 8 → K) : qform (h24PT b rt) x =
    (2 * b * (x 0 * x 0) + 2 * b * ((x 2 + x 5) * (x 2 + x 5)) + 2 * b * ((x 3 + x 6) * (x 3 + x 6))
      + 2 * b * ((x 1 + x 4) * (x 1 + x 4))
      + ((1 - b) * (x 4 * x 4) + (1 + b) * (x 7 * x 7) + 2 * rt * (x 4 * x 7))) / (14 * b + 2) := by
  have h1 : (7 * b + 1) ≠ 0 := by positivity
  have h2 : (14 * b + 2) ≠ 0 := by positivity
  simp [qform, h24PT, ptB, horodecki2x4, Fin.sum_univ_succ]
  field_simp
  ring

theorem antoine_qform (q : K) (x : Fin 9 → K) : qform (antoineM q) x =
    (2 * ((x 0 + x 4 + x 8) * (x 0 + x 4 + x 8)) + (5/2 - q) * (x 1 * x 1 + x 5 * x 5 + x 6 * x 6)
      + (5/2 + q) * (x 2 * x 2 + x 3 * x 3 + x 7 * x 7)) / 21 := by
  simp [qform, antoineM, antoine, Fin.sum_univ_succ]
  field_simp
  ring

theorem antoinePT_qform (q : K) (x : Fin 9 → K) : qform (antoinePT q) x =
    (2 * (x 0 * x 0 + x 4 * x 4 + x 8 * x 8)
      + ((5/2 - q) * (x 1 * x 1) + (5/2 + q) * (x 3 * x 3) + 4 * (x 1 * x 3))
      + ((5/2 + q) * (x 2 * x 2) + (5/2 - q) * (x 6 * x 6) + 4 * (x 2 * x 6))
      + ((5/2 - q) * (x 5 * x 5) + (5/2 + q) * (x 7 * x 7) + 4 * (x 5 * x 7))) / 21 := by
  simp [qform, antoinePT, ptB, antoine, Fin.sum_univ_succ]
  field_simp
  ring

/-- `(1+c) u² + (1-c) v² + 2 r u v ≥ 0` when `r² = 1 - c²`, `0 ≤ c` -/
theorem block2_nonneg {c r : K} (hc : 0 ≤ c) (hr : r * r = 1 - c * c) (u v : K) :
    0 ≤ (1 + c) * (u * u) + (1 - c) * (v * v) + 2 * r * (u * v) := by
  have key : 2 * (1 + c) * ((1 + c) * (u * u) + (1 - c) * (v * v) + 2 * r * (u * v))
      = 2 * (((1 + c) * u + r * v) * ((1 + c) * u + r * v)) := by
    linear_combination (-2 * (v * v)) * hr
  have hp : (0 : K) < 2 * (1 + c) := by positivity
  have : 0 ≤ 2 * (1 + c) * ((1 + c) * (u * u) + (1 - c) * (v * v) + 2 * r * (u * v)) := by
    rw [key]; exact mul_nonneg (by norm_num) (mul_self_nonneg _)
  exact nonneg_of_mul_nonneg_right this hp

/-- `p u² + m v² + 4 u v ≥ 0` when `p, m ≥ 0` and `p m ≥ 4` -/
theorem block2_nonneg' {p m : K} (hp : 0 < p) (hpm : 4 ≤ p * m) (u v : K) :
    0 ≤ p * (u * u) + m * (v * v) + 4 * (u * v) := by
  have key : p * (p * (u * u) + m * (v * v) + 4 * (u * v)) = (p * u + 2 * v) * (p * u + 2 * v) + (p * m - 4) * (v * v) := by ring
  have : 0 ≤ p * (p * (u * u) + m * (v * v) + 4 * (u * v)) := by
    rw [key]; exact add_nonneg (mul_self_nonneg _) (mul_nonneg (by linarith) (mul_self_nonneg _))
  exact nonneg_of_mul_nonneg_right this hp

end Numqi.Catalogue
