/- C01: the contracts of the external routines (cholesky, inverse square root, qr) are satisfiable — used by the non-vacuity examples. -/
import NumqiProofs.ManifoldMaps
import Mathlib.Analysis.Matrix.Order

namespace Numqi.Manifold
open Matrix
open scoped ComplexOrder MatrixOrder

/-- a Mathlib matrix as a data matrix -/
noncomputable def ofM {m n : Nat} (A : Matrix (Fin m) (Fin n) ℂ) : NMat ℂ :=
  NMat.ofFn m n fun i j => if h : i < m ∧ j < n then A ⟨i, h.1⟩ ⟨j, h.2⟩ else 0

theorem toM_ofM {m n : Nat} (A : Matrix (Fin m) (Fin n) ℂ) : toM m n (ofM A) = A := by
  ext i j; simp [toM, ofM, NMat.get_ofFn_fin]

variable {r : Nat}

theorem sqrt_facts (G : Matrix (Fin r) (Fin r) ℂ) (hG : G.PosDef) :
    (CFC.sqrt G)ᴴ = CFC.sqrt G ∧ CFC.sqrt G * CFC.sqrt G = G ∧ IsUnit (CFC.sqrt G).det := by
  have h0 : (0 : Matrix (Fin r) (Fin r) ℂ) ≤ G := Matrix.nonneg_iff_posSemidef.2 hG.posSemidef
  have hs : CFC.sqrt G * CFC.sqrt G = G := CFC.sqrt_mul_sqrt_self G h0
  have hh : (CFC.sqrt G)ᴴ = CFC.sqrt G := (Matrix.nonneg_iff_posSemidef.1 (CFC.sqrt_nonneg G)).1
  refine ⟨hh, hs, ?_⟩
  have hu : IsUnit G.det := (Matrix.isUnit_iff_isUnit_det _).1 (Matrix.PosDef.isUnit hG)
  rw [← hs, det_mul] at hu
  exact isUnit_of_mul_isUnit_left hu

/-- the contract of `cholesky` used in `stiefelCholL_orthonormal` is satisfiable -/
theorem exists_chol : ∃ chol : NMat ℂ → NMat ℂ,
    ∀ G, (toM r r G).PosDef → toM r r (chol G) * (toM r r (chol G))ᴴ = toM r r G := by
  refine ⟨fun G => ofM (CFC.sqrt (toM r r G)), fun G hG => ?_⟩
  obtain ⟨h1, h2, _⟩ := sqrt_facts _ hG
  rw [toM_ofM, h1, h2]

/-- the contract of the inverse square root used in `stiefelPolar_orthonormal` is satisfiable -/
theorem exists_invSqrt : ∃ invSqrt : NMat ℂ → NMat ℂ, ∀ G, (toM r r G).PosDef →
    (toM r r (invSqrt G))ᴴ = toM r r (invSqrt G) ∧ toM r r (invSqrt G) * toM r r G * toM r r (invSqrt G) = 1 := by
  refine ⟨fun G => ofM (CFC.sqrt (toM r r G))⁻¹, fun G hG => ?_⟩
  obtain ⟨h1, h2, h3⟩ := sqrt_facts _ hG
  rw [toM_ofM]
  constructor
  · rw [conjTranspose_nonsing_inv, h1]
  · set S := CFC.sqrt (toM r r G)
    calc S⁻¹ * toM r r G * S⁻¹ = S⁻¹ * (S * S) * S⁻¹ := by rw [h2]
      _ = (S⁻¹ * S) * (S * S⁻¹) := by simp only [Matrix.mul_assoc]
      _ = 1 := by rw [Matrix.nonsing_inv_mul _ h3, Matrix.mul_nonsing_inv _ h3, Matrix.one_mul]

/-- the contract of `qr` used in `stiefelQR_orthonormal` is satisfiable (polar factor as a witness) -/
theorem exists_qrQ {dim : Nat} : ∃ qrQ : NMat ℂ → NMat ℂ, ∀ M, Function.Injective (toM dim r M).mulVec →
    (toM dim r (qrQ M))ᴴ * toM dim r (qrQ M) = 1 := by
  refine ⟨fun M => ofM (toM dim r M * (CFC.sqrt ((toM dim r M)ᴴ * toM dim r M))⁻¹), fun M hM => ?_⟩
  have hpd : ((toM dim r M)ᴴ * toM dim r M).PosDef := Matrix.PosDef.conjTranspose_mul_self _ hM
  obtain ⟨h1, h2, h3⟩ := sqrt_facts _ hpd
  rw [toM_ofM]
  set X := toM dim r M
  set S := CFC.sqrt (Xᴴ * X)
  have hS : (S⁻¹)ᴴ = S⁻¹ := by rw [conjTranspose_nonsing_inv, h1]
  apply stiefel_polar_contract X S⁻¹ hS
  calc S⁻¹ * (Xᴴ * X) * S⁻¹ = S⁻¹ * (S * S) * S⁻¹ := by rw [h2]
    _ = (S⁻¹ * S) * (S * S⁻¹) := by simp only [Matrix.mul_assoc]
    _ = 1 := by rw [Matrix.nonsing_inv_mul _ h3, Matrix.mul_nonsing_inv _ h3, Matrix.one_mul]

local notation "mexp" => NormedSpace.exp

/-- the contract of `expm` is satisfiable -/
theorem exists_expm (dim : Nat) : ∃ expm : NMat ℂ → NMat ℂ, ∀ A, toM dim dim (expm A) = mexp (toM dim dim A) :=
  ⟨fun A => ofM (mexp (toM dim dim A)), fun A => toM_ofM _⟩

/-- the contract of `inv` is satisfiable -/
theorem exists_inv (dim : Nat) : ∃ inv : NMat ℂ → NMat ℂ, ∀ P, IsUnit (toM dim dim P).det → toM dim dim (inv P) * toM dim dim P = 1 :=
  ⟨fun P => ofM (toM dim dim P)⁻¹, fun P hP => by rw [toM_ofM]; exact Matrix.nonsing_inv_mul _ hP⟩

end Numqi.Manifold
