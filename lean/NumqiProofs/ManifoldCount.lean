/- Counting lemmas for C02: constructor parameter counts vs manifold dimensions (all d, r). -/
import Mathlib.Tactic
import NumqiProofs.GellmannLemmas
import NumqiModel.Manifold

namespace Numqi.Manifold.Count

theorem two_tri (r : Nat) : 2 * tri r = r * (r + 1) := by
  unfold tri
  have h : Even (r * (r + 1)) := Nat.even_mul_succ_self r
  obtain ⟨k, hk⟩ := h
  rw [hk]; omega

theorem two_pred (r : Nat) : 2 * (r * (r - 1) / 2) = r * (r - 1) := by
  have h : Even (r * (r - 1)) := Nat.even_mul_pred_self r
  obtain ⟨k, hk⟩ := h
  rw [hk]; omega

/-- `N0 = r(2d-r+1)/2 = dr - r(r-1)/2` -/
theorem N0_eq (dim rank : Nat) (h : rank ≤ dim) :
    rank * (2 * dim - rank + 1) / 2 + rank * (rank - 1) / 2 = dim * rank := by
  have h1 := two_pred rank
  have h2 : rank * (2 * dim - rank + 1) + rank * (rank - 1) = 2 * (dim * rank) := by
    obtain ⟨e, rfl⟩ : ∃ e, dim = rank + e := ⟨dim - rank, by omega⟩
    cases rank with
    | zero => simp
    | succ k =>
      have : 2 * (k + 1 + e) - (k + 1) + 1 = k + 2 * e + 2 := by omega
      rw [this]; simp only [Nat.add_sub_cancel]; ring
  have h3 : Even (rank * (2 * dim - rank + 1)) := by
    have : Even (2 * (dim * rank)) := even_two_mul _
    rw [← h2] at this
    have h4 : Even (rank * (rank - 1)) := Nat.even_mul_pred_self rank
    exact (Nat.even_add.1 this).2 h4
  obtain ⟨k, hk⟩ := h3
  rw [hk] at h2 ⊢
  omega

/-- Trace1PSD, cholesky, real: one gauge direction (the global scale) -/
theorem psdParam_cholesky_real (dim rank : Nat) (h : rank ≤ dim) (hr : 1 ≤ rank) :
    psdParam dim rank true true = psdDim dim rank true + 1 := by
  have h1 := N0_eq dim rank h
  have h2 : rank * (rank - 1) / 2 + 1 ≤ dim * rank := by
    have := two_pred rank
    have : rank * (rank - 1) + 2 ≤ 2 * (dim * rank) := by
      obtain ⟨e, rfl⟩ : ∃ e, dim = rank + e := ⟨dim - rank, by omega⟩
      obtain ⟨k, rfl⟩ : ∃ k, rank = k + 1 := ⟨rank - 1, by omega⟩
      simp only [Nat.add_sub_cancel]; nlinarith
    omega
  simp only [psdParam, psdDim, if_true]
  omega

/-- Trace1PSD, cholesky, complex: `2N0 - r = (2dr - r² - 1) + 1` -/
theorem psdParam_cholesky_complex (dim rank : Nat) (h : rank ≤ dim) (hr : 1 ≤ rank) :
    psdParam dim rank false true = psdDim dim rank false + 1 := by
  have h1 := N0_eq dim rank h
  have h2 := two_pred rank
  have h3 : rank * (rank - 1) + rank = rank * rank := by
    obtain ⟨k, rfl⟩ : ∃ k, rank = k + 1 := ⟨rank - 1, by omega⟩
    simp only [Nat.add_sub_cancel]; ring
  have h4 : rank * rank + 1 ≤ 2 * dim * rank := by
    obtain ⟨e, rfl⟩ : ∃ e, dim = rank + e := ⟨dim - rank, by omega⟩
    nlinarith
  simp only [psdParam, psdDim, if_true, Bool.false_eq_true, if_false]
  have h5 : 2 * dim * rank = 2 * (dim * rank) := by ring
  omega

/-- Trace1PSD, ensemble: the number of gauge directions -/
theorem psdParam_ensemble_real (dim rank : Nat) (h : rank ≤ dim) (hr : 1 ≤ rank) :
    psdParam dim rank true false = psdDim dim rank true + (rank + rank * (rank - 1) / 2 + 1) := by
  have h2 : rank * (rank - 1) / 2 + 1 ≤ dim * rank := by
    have := two_pred rank
    have : rank * (rank - 1) + 2 ≤ 2 * (dim * rank) := by
      obtain ⟨e, rfl⟩ : ∃ e, dim = rank + e := ⟨dim - rank, by omega⟩
      obtain ⟨k, rfl⟩ : ∃ k, rank = k + 1 := ⟨rank - 1, by omega⟩
      simp only [Nat.add_sub_cancel]; nlinarith
    omega
  simp only [psdParam, psdDim, if_true, Bool.false_eq_true, if_false]
  omega

theorem psdParam_ensemble_complex (dim rank : Nat) (h : rank ≤ dim) (hr : 1 ≤ rank) :
    psdParam dim rank false false = psdDim dim rank false + (rank + rank * rank + 1) := by
  have h4 : rank * rank + 1 ≤ 2 * dim * rank := by
    obtain ⟨e, rfl⟩ : ∃ e, dim = rank + e := ⟨dim - rank, by omega⟩
    nlinarith
  simp only [psdParam, psdDim, Bool.false_eq_true, if_false]
  omega

/-- Sphere: quotient has one gauge direction (the radius), coordinate none -/
theorem sphereParam_quotient (dim : Nat) (hd : 1 ≤ dim) (isReal : Bool) :
    sphereParam dim isReal true = sphereDim dim isReal + 1 := by
  cases isReal <;> simp [sphereParam, sphereDim] <;> omega

theorem sphereParam_coordinate (dim : Nat) (isReal : Bool) : sphereParam dim isReal false = sphereDim dim isReal := by
  cases isReal <;> simp [sphereParam, sphereDim]

theorem probParam_eq (dim : Nat) (hd : 1 ≤ dim) : probParam dim = simplexDim dim + 1 := by
  simp [probParam, simplexDim]; omega

/-- the SO/SU charts have exactly as many parameters as the Lie algebra has Gell-Mann generators:
`d(d-1)/2 = #{i<j}` and `d²-1 = 2·#{i<j} + (d-1)` -/
theorem soParam_eq (dim : Nat) (hd : 1 ≤ dim) (isReal : Bool) : soParam dim isReal = soDim dim isReal := by
  have h1 := Gellmann.length_pairs (d := dim)
  have h2 := Gellmann.length_diagIdx (d := dim)
  obtain ⟨n, rfl⟩ : ∃ n, dim = n + 1 := ⟨dim - 1, by omega⟩
  simp only [Nat.add_sub_cancel] at h1 h2
  have h3 : (n + 1) * (n + 1) = (n + 1) * n + n + 1 := by ring
  cases isReal <;> simp only [soParam, soDim, if_true, Bool.false_eq_true, if_false, Nat.add_sub_cancel, h2] <;> omega

theorem length_triuPairs (dim : Nat) : 2 * (triuPairs dim).length = dim * (dim + 1) := by
  have h1 : (triuPairs dim).length = ∑ r ∈ Finset.range dim, (dim - r) := by
    unfold triuPairs
    rw [List.length_flatMap]
    simp only [List.length_map, List.length_range']
    rw [← List.sum_toFinset _ List.nodup_range, List.toFinset_range]
  have h2 : ∑ r ∈ Finset.range dim, (dim - r) = ∑ r ∈ Finset.range dim, (r + 1) := by
    rw [← Finset.sum_range_reflect]
    refine Finset.sum_congr rfl (fun r hr => ?_)
    have := Finset.mem_range.1 hr; omega
  have h3 := Finset.sum_range_id_mul_two dim
  rw [h1, h2, Finset.sum_add_distrib]
  simp only [Finset.sum_const, Finset.card_range, smul_eq_mul, mul_one]
  cases dim with
  | zero => simp
  | succ k => simp only [Nat.add_sub_cancel] at h3; nlinarith [h3]

/-- SymmetricMatrix: the parameter count is the number of independent real entries (`#{i ≤ j}` resp. `d²`), minus one if traceless -/
theorem symParam_eq (dim : Nat) (isReal isTrace0 : Bool) : symParam dim isReal isTrace0 = symEntries dim isReal isTrace0 := by
  have h := length_triuPairs dim
  cases isReal <;> simp only [symParam, symEntries, if_true, Bool.false_eq_true, if_false] <;> omega

/-- Stiefel qr / polar: `dr = (dr - r(r+1)/2) + r(r+1)/2`, `2dr = (2dr - r²) + r²` -/
theorem stiefelParam_polar (dim rank : Nat) (h : rank ≤ dim) (isReal : Bool) :
    stiefelParam dim rank isReal .polar false = stiefelDim dim rank isReal + (if isReal then rank * (rank + 1) / 2 else rank * rank)
    ∧ stiefelParam dim rank isReal .qr false = stiefelDim dim rank isReal + (if isReal then rank * (rank + 1) / 2 else rank * rank) := by
  have h1 := two_tri rank
  unfold tri at h1
  have h2 : rank * (rank + 1) ≤ 2 * (dim * rank) := by
    obtain ⟨e, rfl⟩ : ∃ e, dim = rank + e := ⟨dim - rank, by omega⟩
    nlinarith [Nat.le_mul_self rank]
  have h3 : rank * rank ≤ 2 * dim * rank := by
    obtain ⟨e, rfl⟩ : ∃ e, dim = rank + e := ⟨dim - rank, by omega⟩
    nlinarith
  cases isReal <;> simp [stiefelParam, stiefelDim] <;> omega

/-- choleskyL: minimal in the real case, `r` short of the manifold dimension in the complex case -/
theorem stiefelParam_choleskyL (dim rank : Nat) (h : rank ≤ dim) :
    stiefelParam dim rank true .choleskyL false = stiefelDim dim rank true
    ∧ stiefelParam dim rank false .choleskyL false + rank = stiefelDim dim rank false := by
  have h1 := two_tri rank
  unfold tri at h1
  have h2 : rank * (rank + 1) ≤ 2 * (dim * rank) := by
    obtain ⟨e, rfl⟩ : ∃ e, dim = rank + e := ⟨dim - rank, by omega⟩
    nlinarith [Nat.le_mul_self rank]
  have h3 : rank * (rank + 1) = rank * rank + rank := by ring
  have h4 : 2 * dim * rank = 2 * (dim * rank) := by ring
  constructor
  · simp [stiefelParam, stiefelDim]
  · simp only [stiefelParam, stiefelDim, Bool.false_eq_true, if_false]
    omega

/-- euler: minimal in the real case; complex with phase = manifold dimension; without phase `r` short -/
theorem stiefelParam_euler (dim rank : Nat) (h : rank ≤ dim) :
    stiefelParam dim rank true .euler false = stiefelDim dim rank true
    ∧ stiefelParam dim rank false .euler true = stiefelDim dim rank false
    ∧ stiefelParam dim rank false .euler false + rank = stiefelDim dim rank false := by
  have h3 : rank * (rank + 1) = rank * rank + rank := by ring
  have h5 : rank * rank + rank ≤ 2 * dim * rank := by
    obtain ⟨e, rfl⟩ : ∃ e, dim = rank + e := ⟨dim - rank, by omega⟩
    nlinarith
  refine ⟨by simp [stiefelParam, stiefelDim], by simp [stiefelParam, stiefelDim], ?_⟩
  simp only [stiefelParam, stiefelDim, Bool.false_eq_true, if_false]
  omega

/-- the claimed rank never exceeds the number of parameters -/
theorem stiefelRank_le_param (dim rank : Nat) (h : rank ≤ dim) (hr : 1 ≤ rank) (isReal : Bool) (m : StMethod) (ph : Bool) :
    stiefelRank dim rank isReal m ph ≤ stiefelParam dim rank isReal m ph := by
  have h1 := two_tri rank
  unfold tri at h1
  have h2 := two_pred dim
  obtain ⟨e, rfl⟩ : ∃ e, dim = rank + e := ⟨dim - rank, by omega⟩
  have h3 : (rank + e) * rank = rank * rank + e * rank := by ring
  have h4 : (rank + e) * (rank + e) = rank * rank + 2 * (e * rank) + e * e := by ring
  have h5 : 2 * (rank + e) * rank = 2 * (rank * rank) + 2 * (e * rank) := by ring
  have h6 : rank * (rank + 1) = rank * rank + rank := by ring
  have h7 : (rank + e) * (rank + e - 1) = rank * rank + 2 * (e * rank) + e * e - (rank + e) := by
    obtain ⟨k, hk⟩ : ∃ k, rank + e = k + 1 := ⟨rank + e - 1, by omega⟩
    rw [← h4, hk]; simp only [Nat.add_sub_cancel]
    have : (k + 1) * (k + 1) = (k + 1) * k + (k + 1) := by ring
    omega
  have h8 : e ≤ e * e ∨ e = 0 := by
    rcases Nat.eq_zero_or_pos e with he | he
    · exact Or.inr he
    · exact Or.inl (by nlinarith)
  have h9 : rank ≤ rank * rank := by nlinarith
  cases m <;> cases isReal <;> simp only [stiefelRank, stiefelParam, stiefelDim, le_refl, Bool.not_true, Bool.not_false, Bool.false_and, Bool.true_and,
    decide_eq_true_eq, Bool.false_eq_true, if_false, if_true] <;> (try split_ifs) <;> (try omega)

end Numqi.Manifold.Count
