/-
Dense (anti)symmetric bases `get_antisymmetric_basis`, `get_symmetric_basis` (C20, `_hierarchy.py:73-110`) in the signed-square
encoding of `NumqiModel/MatrixSpace.lean`: rows of unit norm with pairwise disjoint supports, evaluated by the kernel for small sizes.
-/
import NumqiModel.MatrixSpace
import Mathlib.Tactic
namespace Numqi.MatrixSpace

/-- rows of unit norm with pairwise disjoint supports, in the signed-square encoding -/
def AntisymDenseOK (d r : ℕ) : Prop :=
  (∀ row ∈ antisymBasisDense d r, row.length = d ^ r ∧ (row.map fun x => x * x).sum = (r.factorial : ℤ) ∧ ∀ x ∈ row, x = 0 ∨ x = 1 ∨ x = -1) ∧
  (antisymBasisDense d r).Pairwise fun u v => ∀ p ∈ List.zipWith (· * ·) u v, p = 0

def SymDenseOK (d r : ℕ) : Prop :=
  (∀ row ∈ symBasisDense d r, row.length = d ^ r ∧ row.sum = r.factorial) ∧
  (symBasisDense d r).Pairwise fun u v => ∀ p ∈ List.zipWith (· * ·) u v, p = 0

instance (d r : ℕ) : Decidable (AntisymDenseOK d r) := by unfold AntisymDenseOK; infer_instance
instance (d r : ℕ) : Decidable (SymDenseOK d r) := by unfold SymDenseOK; infer_instance

set_option maxRecDepth 100000 in
theorem antisymDense_small : ∀ d ∈ List.range 6, ∀ r ∈ List.range 4, 0 < r → r ≤ d → AntisymDenseOK d r := by decide +kernel
set_option maxRecDepth 100000 in
theorem symDense_small : ∀ d ∈ List.range 5, ∀ r ∈ List.range 4, 0 < r → 0 < d → SymDenseOK d r := by decide +kernel
theorem antisymBasisDense_length (d r : ℕ) : (antisymBasisDense d r).length = (antisymIndex d r).length := by
  simp [antisymBasisDense]
theorem symBasisDense_length (d r : ℕ) : (symBasisDense d r).length = (symIndex d r).length := by
  simp [symBasisDense]
end Numqi.MatrixSpace
