/-
Gell-Mann model, part 2: synthesis is the explicit basis expansion; analysis is injective.
-/
import NumqiProofs.GellmannLemmas
namespace Numqi.Gellmann
open Matrix
variable {R : Type} [CommRing R] {d : Nat}

theorem pairs_sum_single (f : Fin d × Fin d → R) (x : Fin d × Fin d) :
    ((pairs d).map fun p => if p = x then f p else 0).sum = if x.1 < x.2 then f x else 0 := by
  rw [← List.sum_toFinset _ nodup_pairs, Finset.sum_ite_eq']
  simp [mem_pairs]

theorem pairs_sum_zero (f : Fin d × Fin d → R) (h : ∀ p ∈ pairs d, f p = 0) : ((pairs d).map f).sum = 0 := by
  rw [List.map_congr_left h]; simp

theorem half_pairs : d * (d - 1) / 2 = (pairs d).length := by
  have := length_pairs (d := d); omega

theorem synthesis_entry_lt (S : Scalars R) (hd : 1 ≤ d) (v : Nat → R) {r c : Fin d} (h : r < c) :
    (∑ a ∈ Finset.range (d * d), v a • basis S d a) r c = v ((pairs d).idxOf (r, c)) - S.I * v ((pairs d).length + (pairs d).idxOf (r, c)) := by
  rw [Matrix.sum_apply]
  simp only [Matrix.smul_apply, smul_eq_mul]
  rw [sum_basis S hd (fun a X => v a * X r c)]
  have hne : r ≠ c := ne_of_lt h
  have e1 : ((pairs d).map fun p => v (Kind.sym p).pos * ((Kind.sym p).mat S) r c)
      = (pairs d).map fun p => if p = (r, c) then v ((pairs d).idxOf p) else 0 := by
    refine List.map_congr_left (fun p hp => ?_)
    have hp' := mem_pairs.1 hp
    obtain ⟨i, j⟩ := p
    simp only [Kind.pos, Kind.mat, G_sym S hp', Matrix.add_apply, Matrix.single_apply, Prod.mk.injEq]
    have : ¬ (j = r ∧ i = c) := fun e => by
      rw [Fin.lt_def] at h hp'; simp only [e.1, e.2] at hp'; omega
    simp only [this, if_false, add_zero]
    split_ifs <;> simp
  have e2 : ((pairs d).map fun p => v (Kind.asym p).pos * ((Kind.asym p).mat S) r c)
      = (pairs d).map fun p => if p = (r, c) then (-S.I * v ((pairs d).length + (pairs d).idxOf p)) else 0 := by
    refine List.map_congr_left (fun p hp => ?_)
    have hp' := mem_pairs.1 hp
    obtain ⟨i, j⟩ := p
    simp only [Kind.pos, Kind.mat, G_asym S hp', Matrix.add_apply, Matrix.single_apply, Prod.mk.injEq]
    have : ¬ (j = r ∧ i = c) := fun e => by
      rw [Fin.lt_def] at h hp'; simp only [e.1, e.2] at hp'; omega
    simp only [this, if_false, zero_add]
    split_ifs <;> ring
  have e3 : ((diagIdx d).map fun k => v (Kind.diag k).pos * ((Kind.diag k).mat S) r c) = (diagIdx d).map fun _ => 0 := by
    refine List.map_congr_left (fun k hk => ?_)
    simp [Kind.mat, G_diag S (mem_diagIdx.1 hk), diagonal_apply, hne]
  rw [e1, e2, e3, pairs_sum_single, pairs_sum_single]
  simp [Kind.mat, G_ident, diagonal_apply, hne, h]
  ring

theorem synthesis_entry_gt (S : Scalars R) (hd : 1 ≤ d) (v : Nat → R) {r c : Fin d} (h : c < r) :
    (∑ a ∈ Finset.range (d * d), v a • basis S d a) r c = v ((pairs d).idxOf (c, r)) + S.I * v ((pairs d).length + (pairs d).idxOf (c, r)) := by
  rw [Matrix.sum_apply]
  simp only [Matrix.smul_apply, smul_eq_mul]
  rw [sum_basis S hd (fun a X => v a * X r c)]
  have hne : r ≠ c := ne_of_gt h
  have e1 : ((pairs d).map fun p => v (Kind.sym p).pos * ((Kind.sym p).mat S) r c)
      = (pairs d).map fun p => if p = (c, r) then v ((pairs d).idxOf p) else 0 := by
    refine List.map_congr_left (fun p hp => ?_)
    have hp' := mem_pairs.1 hp
    obtain ⟨i, j⟩ := p
    simp only [Kind.pos, Kind.mat, G_sym S hp', Matrix.add_apply, Matrix.single_apply, Prod.mk.injEq]
    have : ¬ (i = r ∧ j = c) := fun e => by
      rw [Fin.lt_def] at h hp'; simp only [e.1, e.2] at hp'; omega
    simp only [this, if_false, zero_add]
    by_cases e : i = c ∧ j = r
    · simp [e.1, e.2]
    · have : ¬ (j = r ∧ i = c) := fun e' => e ⟨e'.2, e'.1⟩
      simp [e, this]
  have e2 : ((pairs d).map fun p => v (Kind.asym p).pos * ((Kind.asym p).mat S) r c)
      = (pairs d).map fun p => if p = (c, r) then (S.I * v ((pairs d).length + (pairs d).idxOf p)) else 0 := by
    refine List.map_congr_left (fun p hp => ?_)
    have hp' := mem_pairs.1 hp
    obtain ⟨i, j⟩ := p
    simp only [Kind.pos, Kind.mat, G_asym S hp', Matrix.add_apply, Matrix.single_apply, Prod.mk.injEq]
    have : ¬ (i = r ∧ j = c) := fun e => by
      rw [Fin.lt_def] at h hp'; simp only [e.1, e.2] at hp'; omega
    simp only [this, if_false, add_zero]
    by_cases e : i = c ∧ j = r
    · simp [e.1, e.2]; ring
    · have : ¬ (j = r ∧ i = c) := fun e' => e ⟨e'.2, e'.1⟩
      simp [e, this]
  have e3 : ((diagIdx d).map fun k => v (Kind.diag k).pos * ((Kind.diag k).mat S) r c) = (diagIdx d).map fun _ => 0 := by
    refine List.map_congr_left (fun k hk => ?_)
    simp [Kind.mat, G_diag S (mem_diagIdx.1 hk), diagonal_apply, hne]
  rw [e1, e2, e3, pairs_sum_single, pairs_sum_single]
  simp [Kind.mat, G_ident, diagonal_apply, hne, h]

theorem synthesis_entry_diag (S : Scalars R) (n : Nat) (v : Nat → R) (r : Fin (n + 1)) :
    (∑ a ∈ Finset.range ((n + 1) * (n + 1)), v a • basis S (n + 1) a) r r
      = (∑ q : Fin n, v ((n + 1) * n + q.val) * wD S (q.val + 1) r) + v ((n + 1) * (n + 1) - 1) * S.cI := by
  rw [Matrix.sum_apply]
  simp only [Matrix.smul_apply, smul_eq_mul]
  rw [sum_basis S (by omega) (fun a X => v a * X r r)]
  have e1 : ((pairs (n + 1)).map fun p => v (Kind.sym p).pos * ((Kind.sym p).mat S) r r) = (pairs (n + 1)).map fun _ => 0 := by
    refine List.map_congr_left (fun p hp => ?_)
    have hp' := mem_pairs.1 hp
    obtain ⟨i, j⟩ := p
    have h1 : ¬ (i = r ∧ j = r) := fun e => by simp only [e.1, e.2] at hp'; exact lt_irrefl _ hp'
    have h2 : ¬ (j = r ∧ i = r) := fun e => h1 ⟨e.2, e.1⟩
    simp [Kind.mat, G_sym S hp', Matrix.single_apply, h1, h2]
  have e2 : ((pairs (n + 1)).map fun p => v (Kind.asym p).pos * ((Kind.asym p).mat S) r r) = (pairs (n + 1)).map fun _ => 0 := by
    refine List.map_congr_left (fun p hp => ?_)
    have hp' := mem_pairs.1 hp
    obtain ⟨i, j⟩ := p
    have h1 : ¬ (i = r ∧ j = r) := fun e => by simp only [e.1, e.2] at hp'; exact lt_irrefl _ hp'
    have h2 : ¬ (j = r ∧ i = r) := fun e => h1 ⟨e.2, e.1⟩
    simp [Kind.mat, G_asym S hp', Matrix.single_apply, h1, h2]
  have hL : (pairs (n + 1)).length + (pairs (n + 1)).length = (n + 1) * n := by
    have := length_pairs (d := n + 1); simp only [Nat.add_sub_cancel] at this; omega
  rw [e1, e2, diagIdx_eq, List.map_map]
  simp only [List.map_const', List.sum_replicate, smul_zero, zero_add, Function.comp_def]
  rw [← Fin.sum_univ_def]
  congr 1
  · refine Finset.sum_congr rfl (fun q _ => ?_)
    simp only [Kind.pos, Kind.mat, Fin.val_succ, Nat.add_sub_cancel, hL]
    rw [G_diag S (Nat.succ_pos _), diagonal_apply_eq]
  · simp only [Kind.pos, Kind.mat, G_ident, diagonal_apply_eq, hL, Nat.add_sub_cancel]
    congr 2

/-- **synthesis = explicit expansion in the basis** -/
theorem synthesis_eq_sum' (S : Scalars R) (hd : 1 ≤ d) (v : Nat → R) :
    Matrix.of (synthesis S d v) = ∑ a ∈ Finset.range (d * d), v a • basis S d a := by
  ext r c
  rcases lt_trichotomy r c with h | h | h
  · rw [synthesis_entry_lt S hd v h]
    simp only [Matrix.of_apply, synthesis, h, if_true, half_pairs]
  · subst h
    obtain ⟨n, rfl⟩ : ∃ n, d = n + 1 := ⟨d - 1, by omega⟩
    rw [synthesis_entry_diag]
    simp only [Matrix.of_apply, synthesis, lt_irrefl, if_false, sumFin_eq]
    rw [Fin.sum_univ_castSucc]
    congr 1
    · refine Finset.sum_congr rfl (fun q _ => ?_)
      have hq : q.val + 1 < n + 1 := by omega
      simp only [Fin.val_castSucc, hq, if_true, Nat.add_sub_cancel, wD]
      by_cases h1 : r.val ≤ q.val
      · have h2 : r.val < q.val + 1 := by omega
        have h3 : r.val ≠ q.val + 1 := by omega
        simp [h1, h2, h3]; ring
      · by_cases h3 : r.val = q.val + 1
        · have h2 : ¬ r.val < q.val + 1 := by omega
          simp [h1, h2, h3]; ring
        · have h2 : ¬ r.val < q.val + 1 := by omega
          simp [h1, h2, h3]
    · have h1 : r.val ≤ n := by omega
      have h2 : r.val ≠ n + 1 := by omega
      simp [h1, h2]
  · rw [synthesis_entry_gt S hd v h]
    have h' : ¬ r < c := not_lt_of_gt h
    simp only [Matrix.of_apply, synthesis, h, h', if_true, if_false, half_pairs]
