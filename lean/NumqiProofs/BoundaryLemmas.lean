/-
Helper lemmas for the boundary model (C06).
-/
import Mathlib.Tactic
import Mathlib.Algebra.BigOperators.Fin
import Mathlib.LinearAlgebra.Matrix.PosDef
import Mathlib.Analysis.Matrix.Order
import Mathlib.Data.Complex.Basic
import Mathlib.Analysis.Complex.Order
import Mathlib.Order.ConditionallyCompleteLattice.Basic
import Mathlib.GroupTheory.Perm.Fin
import Mathlib.Data.Fin.Tuple.Basic
import NumqiModel.Boundary

namespace Numqi.Boundary
open Matrix
open scoped ComplexOrder

/-- in theorem files the model's conjugation is `star` -/
scoped instance starConj {R : Type} [Star R] : Conj R := ⟨star⟩

theorem conj_eq_star {R : Type} [Star R] (a : R) : conj a = star a := rfl

theorem sumFin_eq {M : Type} [AddCommMonoid M] {n : ℕ} (f : Fin n → M) : sumFin f = ∑ i, f i := by
  unfold sumFin
  have h : ((List.finRange n).map f).foldr (· + ·) 0 = ((List.finRange n).map f).sum := rfl
  rw [h, Fin.sum_univ_def]

/-! ### the threshold lemma for one Hermitian direction -/

section threshold
variable {n : Type} [Fintype n] [DecidableEq n]

/-- `x†((c·1 + β·v))x = c·x†x + β·x†vx` -/
theorem quad_affine (c β : ℂ) (v : Matrix n n ℂ) (x : n → ℂ) :
    star x ⬝ᵥ ((c • (1 : Matrix n n ℂ) + β • v) *ᵥ x) = c * (star x ⬝ᵥ x) + β * (star x ⬝ᵥ (v *ᵥ x)) := by
  rw [add_mulVec, dotProduct_add, smul_mulVec, smul_mulVec, one_mulVec, dotProduct_smul, dotProduct_smul]
  simp [smul_eq_mul]

/-- **threshold lemma**: `v` with extreme Rayleigh values `lmin < 0 < lmax` (both attained on unit vectors);
`c·1 + β·v ⪰ 0` iff `-c/lmax ≤ β ≤ -c/lmin`. -/
theorem psd_affine_iff (c : ℝ) (v : Matrix n n ℂ) (lmin lmax : ℝ) (hneg : lmin < 0) (hpos : 0 < lmax)
    (hlo : (v - (lmin : ℂ) • (1 : Matrix n n ℂ)).PosSemidef) (hhi : ((lmax : ℂ) • (1 : Matrix n n ℂ) - v).PosSemidef)
    (xlo xhi : n → ℂ) (hxlo : star xlo ⬝ᵥ xlo = 1) (halo : star xlo ⬝ᵥ (v *ᵥ xlo) = (lmin : ℂ))
    (hxhi : star xhi ⬝ᵥ xhi = 1) (hahi : star xhi ⬝ᵥ (v *ᵥ xhi) = (lmax : ℂ)) (β : ℝ) :
    ((c : ℂ) • (1 : Matrix n n ℂ) + (β : ℂ) • v).PosSemidef ↔ -c / lmax ≤ β ∧ β ≤ -c / lmin := by
  constructor
  · intro h
    have h1 := h.dotProduct_mulVec_nonneg xlo
    have h2 := h.dotProduct_mulVec_nonneg xhi
    rw [quad_affine, hxlo, halo] at h1
    rw [quad_affine, hxhi, hahi] at h2
    have h1' : (0 : ℝ) ≤ c + β * lmin := by
      have : ((c : ℂ) * 1 + (β : ℂ) * (lmin : ℂ)) = ((c + β * lmin : ℝ) : ℂ) := by push_cast; ring
      rw [this] at h1; exact_mod_cast h1
    have h2' : (0 : ℝ) ≤ c + β * lmax := by
      have : ((c : ℂ) * 1 + (β : ℂ) * (lmax : ℂ)) = ((c + β * lmax : ℝ) : ℂ) := by push_cast; ring
      rw [this] at h2; exact_mod_cast h2
    constructor
    · rw [div_le_iff₀ hpos]; linarith
    · rw [le_div_iff_of_neg hneg]; linarith
  · rintro ⟨hl, hu⟩
    rw [div_le_iff₀ hpos] at hl
    rw [le_div_iff_of_neg hneg] at hu
    rcases le_total 0 β with hb | hb
    · -- β ≥ 0 : c·1 + β v = β (v - lmin 1) + (c + β lmin) 1
      have e : (c : ℂ) • (1 : Matrix n n ℂ) + (β : ℂ) • v
          = (β : ℂ) • (v - (lmin : ℂ) • (1 : Matrix n n ℂ)) + ((c + β * lmin : ℝ) : ℂ) • (1 : Matrix n n ℂ) := by
        ext i j; simp [Matrix.one_apply]; split_ifs <;> ring
      rw [e]
      refine (hlo.smul (by exact_mod_cast hb)).add (PosSemidef.one.smul ?_)
      have : (0 : ℝ) ≤ c + β * lmin := by linarith
      exact_mod_cast this
    · have e : (c : ℂ) • (1 : Matrix n n ℂ) + (β : ℂ) • v
          = ((-β : ℝ) : ℂ) • ((lmax : ℂ) • (1 : Matrix n n ℂ) - v) + ((c + β * lmax : ℝ) : ℂ) • (1 : Matrix n n ℂ) := by
        ext i j; simp [Matrix.one_apply]; split_ifs <;> ring
      rw [e]
      refine (hhi.smul ?_).add (PosSemidef.one.smul ?_)
      · have : (0 : ℝ) ≤ -β := by linarith
        exact_mod_cast this
      · have : (0 : ℝ) ≤ c + β * lmax := by linarith
        exact_mod_cast this

end threshold

/-! ### the ray from the maximally mixed state -/

section ray
variable {n : Type} [Fintype n] [DecidableEq n]

/-- `1/N + β·v̂`, `v̂ = (ρ - 1/N)/d`: the point at Gell-Mann distance `β` on the ray of `ρ` (`d = dm_norm`) -/
noncomputable def rayPoint (N d : ℝ) (ρ : Matrix n n ℂ) (β : ℝ) : Matrix n n ℂ :=
  ((1 / N : ℝ) : ℂ) • (1 : Matrix n n ℂ) + (β : ℂ) • (((1 / d : ℝ) : ℂ) • (ρ - ((1 / N : ℝ) : ℂ) • (1 : Matrix n n ℂ)))

/-- **the numbers returned by `get_density_matrix_boundary` are the exact thresholds of positivity along the ray**.
`eigvalsh` contract: `μmin`, `μmax` are attained Rayleigh bounds of `ρ`. -/
theorem rayPoint_psd_iff (N d : ℝ) (hN : 0 < N) (hd : 0 < d) (ρ : Matrix n n ℂ) (μmin μmax : ℝ)
    (hmin : μmin < 1 / N) (hmax : 1 / N < μmax)
    (hlo : (ρ - (μmin : ℂ) • (1 : Matrix n n ℂ)).PosSemidef) (hhi : ((μmax : ℂ) • (1 : Matrix n n ℂ) - ρ).PosSemidef)
    (xlo xhi : n → ℂ) (hxlo : star xlo ⬝ᵥ xlo = 1) (halo : star xlo ⬝ᵥ (ρ *ᵥ xlo) = (μmin : ℂ))
    (hxhi : star xhi ⬝ᵥ xhi = 1) (hahi : star xhi ⬝ᵥ (ρ *ᵥ xhi) = (μmax : ℂ)) (β : ℝ) :
    (rayPoint N d ρ β).PosSemidef ↔ (dmBoundary N μmin μmax d).1 ≤ β ∧ β ≤ (dmBoundary N μmin μmax d).2 := by
  have hd' : (0 : ℝ) ≤ 1 / d := by positivity
  have key := psd_affine_iff (1 / N) (((1 / d : ℝ) : ℂ) • (ρ - ((1 / N : ℝ) : ℂ) • (1 : Matrix n n ℂ)))
    ((μmin - 1 / N) / d) ((μmax - 1 / N) / d)
    (div_neg_of_neg_of_pos (by linarith) hd) (div_pos (by linarith) hd)
    (by
      have e : ((1 / d : ℝ) : ℂ) • (ρ - ((1 / N : ℝ) : ℂ) • (1 : Matrix n n ℂ)) - (((μmin - 1 / N) / d : ℝ) : ℂ) • (1 : Matrix n n ℂ)
          = ((1 / d : ℝ) : ℂ) • (ρ - (μmin : ℂ) • (1 : Matrix n n ℂ)) := by
        ext i j; simp [Matrix.one_apply]; split_ifs <;> ring
      rw [e]; exact hlo.smul (by exact_mod_cast hd'))
    (by
      have e : (((μmax - 1 / N) / d : ℝ) : ℂ) • (1 : Matrix n n ℂ) - ((1 / d : ℝ) : ℂ) • (ρ - ((1 / N : ℝ) : ℂ) • (1 : Matrix n n ℂ))
          = ((1 / d : ℝ) : ℂ) • ((μmax : ℂ) • (1 : Matrix n n ℂ) - ρ) := by
        ext i j; simp [Matrix.one_apply]; split_ifs <;> ring
      rw [e]; exact hhi.smul (by exact_mod_cast hd'))
    xlo xhi hxlo
    (by rw [smul_mulVec, sub_mulVec, smul_mulVec, one_mulVec, dotProduct_smul, dotProduct_sub, dotProduct_smul, halo, hxlo]
        simp only [smul_eq_mul]; push_cast; ring)
    hxhi
    (by rw [smul_mulVec, sub_mulVec, smul_mulVec, one_mulVec, dotProduct_smul, dotProduct_sub, dotProduct_smul, hahi, hxhi]
        simp only [smul_eq_mul]; push_cast; ring)
    β
  unfold rayPoint
  rw [key]
  have h1 : μmax - 1 / N ≠ 0 := by linarith
  have h2 : μmin - 1 / N ≠ 0 := by linarith
  have e1 : -(1 / N) / ((μmax - 1 / N) / d) = (dmBoundary N μmin μmax d).1 := by
    simp only [dmBoundary]; field_simp
  have e2 : -(1 / N) / ((μmin - 1 / N) / d) = (dmBoundary N μmin μmax d).2 := by
    simp only [dmBoundary]; field_simp
  rw [e1, e2]

end ray

/-! ### partial transpose -/

section pt
variable {dA dB : ℕ}

theorem ptB_add (M N : Matrix (Fin dA × Fin dB) (Fin dA × Fin dB) ℂ) :
    (ptB (M + N) : Matrix (Fin dA × Fin dB) (Fin dA × Fin dB) ℂ) = ptB M + ptB N := by
  ext p q; simp [ptB]

theorem ptB_sub (M N : Matrix (Fin dA × Fin dB) (Fin dA × Fin dB) ℂ) :
    (ptB (M - N) : Matrix (Fin dA × Fin dB) (Fin dA × Fin dB) ℂ) = ptB M - ptB N := by
  ext p q; simp [ptB]

theorem ptB_smul (c : ℂ) (M : Matrix (Fin dA × Fin dB) (Fin dA × Fin dB) ℂ) :
    (ptB (c • M) : Matrix (Fin dA × Fin dB) (Fin dA × Fin dB) ℂ) = c • ptB M := by
  ext p q; simp [ptB]

theorem ptB_one : (ptB (1 : Matrix (Fin dA × Fin dB) (Fin dA × Fin dB) ℂ) : Matrix (Fin dA × Fin dB) (Fin dA × Fin dB) ℂ) = (1 : Matrix (Fin dA × Fin dB) (Fin dA × Fin dB) ℂ) := by
  ext p q
  simp only [ptB, Matrix.one_apply, Prod.mk.injEq]
  by_cases h : p = q
  · subst h; simp
  · have : ¬ (p.1 = q.1 ∧ q.2 = p.2) := fun ⟨h1, h2⟩ => h (Prod.ext h1 h2.symm)
    rw [if_neg this]; exact (Matrix.one_apply_ne h).symm

theorem ptB_ptB (M : Matrix (Fin dA × Fin dB) (Fin dA × Fin dB) ℂ) : ptB (ptB M) = M := by
  funext p q; simp [ptB]

/-- the model's `ptB`, typed as a `Matrix` (reducible: it *is* `ptB`) -/
abbrev ptM (M : Matrix (Fin dA × Fin dB) (Fin dA × Fin dB) ℂ) : Matrix (Fin dA × Fin dB) (Fin dA × Fin dB) ℂ := ptB M

end pt

/-- the partial transpose commutes with the ray: `(1/N + β v̂)^Γ = 1/N + β (v̂)^Γ` -/
theorem ptB_rayPoint {dA dB : ℕ} (N d : ℝ) (ρ : Matrix (Fin dA × Fin dB) (Fin dA × Fin dB) ℂ) (β : ℝ) :
    (ptB (rayPoint N d ρ β) : Matrix (Fin dA × Fin dB) (Fin dA × Fin dB) ℂ) = rayPoint N d (ptB ρ) β := by
  unfold rayPoint
  rw [ptB_add, ptB_smul, ptB_smul, ptB_smul, ptB_sub, ptB_smul, ptB_one]
  rfl

/-! ### Gell-Mann norm and interpolation -/

section interp
variable {R : Type} [CommRing R] [StarRing R] {n : ℕ}

theorem interp_sub_center (invN α : R) (ρ : Fin n → Fin n → R) (r c : Fin n) :
    interp invN α ρ r c - (if r = c then invN else 0) = α * (ρ r c - (if r = c then invN else 0)) := by
  unfold interp; split_ifs <;> ring

/-- the traceless part of the interpolated matrix is `α` times the traceless part of `ρ` (no trace condition needed) -/
theorem gmNorm2_interp (invN half α : R) (hN : (n : R) * invN = 1) (hα : star α = α) (ρ : Fin n → Fin n → R) :
    gmNorm2 invN half (interp invN α ρ) = α * α * gmNorm2 invN half ρ := by
  unfold gmNorm2
  simp only [sumFin_eq, conj_eq_star]
  have htr : (∑ l : Fin n, interp invN α ρ l l) * invN = α * ((∑ l : Fin n, ρ l l) * invN) + (1 - α) * invN := by
    simp only [interp, if_true, Finset.sum_add_distrib, ← Finset.mul_sum, Finset.sum_const, Finset.card_univ,
      Fintype.card_fin, nsmul_eq_mul]
    linear_combination ((1 - α) * invN) * hN
  have hX : ∀ r c : Fin n, interp invN α ρ r c - (if r = c then (∑ l : Fin n, interp invN α ρ l l) * invN else 0)
      = α * (ρ r c - (if r = c then (∑ l : Fin n, ρ l l) * invN else 0)) := by
    intro r c
    rw [htr]; unfold interp; split_ifs <;> ring
  simp only [hX, star_mul', hα]
  rw [← mul_assoc, Finset.mul_sum]
  congr 1
  refine Finset.sum_congr rfl fun r _ => ?_
  rw [Finset.mul_sum]
  exact Finset.sum_congr rfl fun c _ => by ring

end interp

/-! ### product projectors and their mixtures -/

section sep
variable {dA dB : ℕ}

theorem prodProj_eq_vecMulVec (a : Fin dA → ℂ) (b : Fin dB → ℂ) :
    (prodProj a b : Matrix (Fin dA × Fin dB) (Fin dA × Fin dB) ℂ)
      = vecMulVec (fun p : Fin dA × Fin dB => a p.1 * b p.2) (star fun p : Fin dA × Fin dB => a p.1 * b p.2) := by
  ext p q
  simp only [prodProj, conj_eq_star, vecMulVec_apply, Pi.star_apply, star_mul']
  ring

theorem prodProj_posSemidef (a : Fin dA → ℂ) (b : Fin dB → ℂ) :
    Matrix.PosSemidef (Matrix.of (prodProj a b) : Matrix (Fin dA × Fin dB) (Fin dA × Fin dB) ℂ) := by
  have : (Matrix.of (prodProj a b) : Matrix (Fin dA × Fin dB) (Fin dA × Fin dB) ℂ)
      = vecMulVec (fun p : Fin dA × Fin dB => a p.1 * b p.2) (star fun p : Fin dA × Fin dB => a p.1 * b p.2) :=
    prodProj_eq_vecMulVec a b
  rw [this]; exact posSemidef_vecMulVec_self_star _

/-- the partial transpose of a product projector is the product projector with `b` conjugated -/
theorem ptB_prodProj (a : Fin dA → ℂ) (b : Fin dB → ℂ) :
    ptB (prodProj a b) = prodProj a (fun j => star (b j)) := by
  funext p q
  simp only [ptB, prodProj, conj_eq_star, star_star]
  ring

theorem mixture_eq_sum {K : ℕ} (lam : Fin K → ℂ) (a : Fin K → Fin dA → ℂ) (b : Fin K → Fin dB → ℂ) :
    (Matrix.of (mixture lam a b) : Matrix (Fin dA × Fin dB) (Fin dA × Fin dB) ℂ)
      = ∑ i, lam i • (Matrix.of (prodProj (a i) (b i)) : Matrix (Fin dA × Fin dB) (Fin dA × Fin dB) ℂ) := by
  ext p q
  simp only [mixture, sumFin_eq, Matrix.sum_apply, Matrix.smul_apply, smul_eq_mul, Matrix.of_apply]

theorem ptB_mixture {K : ℕ} (lam : Fin K → ℂ) (a : Fin K → Fin dA → ℂ) (b : Fin K → Fin dB → ℂ) :
    ptB (mixture lam a b) = mixture lam a (fun i j => star (b i j)) := by
  funext p q
  simp only [ptB, mixture]
  congr 1
  funext i
  have := congrFun (congrFun (ptB_prodProj (a i) (b i)) p) q
  simp only [ptB] at this
  rw [this]

theorem mixture_posSemidef {K : ℕ} (lam : Fin K → ℂ) (hlam : ∀ i, 0 ≤ lam i) (a : Fin K → Fin dA → ℂ) (b : Fin K → Fin dB → ℂ) :
    Matrix.PosSemidef (Matrix.of (mixture lam a b) : Matrix (Fin dA × Fin dB) (Fin dA × Fin dB) ℂ) := by
  rw [mixture_eq_sum]
  exact posSemidef_sum _ fun i _ => (prodProj_posSemidef (a i) (b i)).smul (hlam i)

end sep

/-! ### symmetric extensions: tracing out one copy -/

section ext
variable {dA dB : ℕ}

/-- `σ` on `A ⊗ B^{⊗k}` is a symmetric `k`-extension of `ρ` (positive, invariant under permutations of the copies,
reducing to `ρ` on `A` and the last copy) -/
def IsSymExt (k : ℕ) (ρ : Matrix (Fin dA × Fin dB) (Fin dA × Fin dB) ℂ)
    (σ : Matrix (Fin dA × (Fin (k + 1) → Fin dB)) (Fin dA × (Fin (k + 1) → Fin dB)) ℂ) : Prop :=
  σ.PosSemidef ∧ (∀ π : Equiv.Perm (Fin (k + 1)), ∀ p q, σ (p.1, p.2 ∘ π) (q.1, q.2 ∘ π) = σ p q) ∧
    ∀ p q, ρ p q = ∑ r : Fin k → Fin dB, σ (p.1, Fin.snoc r p.2) (q.1, Fin.snoc r q.2)

/-- the partial trace over the first copy -/
def traceFirst {k : ℕ} (σ : Matrix (Fin dA × (Fin (k + 2) → Fin dB)) (Fin dA × (Fin (k + 2) → Fin dB)) ℂ) :
    Matrix (Fin dA × (Fin (k + 1) → Fin dB)) (Fin dA × (Fin (k + 1) → Fin dB)) ℂ :=
  fun p q => ∑ x : Fin dB, σ (p.1, Fin.cons x p.2) (q.1, Fin.cons x q.2)

theorem traceFirst_posSemidef {k : ℕ} (σ : Matrix (Fin dA × (Fin (k + 2) → Fin dB)) (Fin dA × (Fin (k + 2) → Fin dB)) ℂ)
    (h : σ.PosSemidef) : (traceFirst σ).PosSemidef := by
  have e : traceFirst σ = ∑ x : Fin dB,
      σ.submatrix (fun p : Fin dA × (Fin (k + 1) → Fin dB) => (p.1, (Fin.cons x p.2 : Fin (k + 2) → Fin dB)))
        (fun p : Fin dA × (Fin (k + 1) → Fin dB) => (p.1, (Fin.cons x p.2 : Fin (k + 2) → Fin dB))) := by
    ext p q
    simp only [traceFirst, Matrix.sum_apply, Matrix.submatrix_apply]
  rw [e]
  exact posSemidef_sum _ fun x _ => h.submatrix _

/-- **a `(k+1)`-extension traced over one copy is a `k`-extension** -/
theorem isSymExt_traceFirst {k : ℕ} (ρ : Matrix (Fin dA × Fin dB) (Fin dA × Fin dB) ℂ)
    (σ : Matrix (Fin dA × (Fin (k + 2) → Fin dB)) (Fin dA × (Fin (k + 2) → Fin dB)) ℂ) (h : IsSymExt (k + 1) ρ σ) :
    IsSymExt k ρ (traceFirst σ) := by
  obtain ⟨hpsd, hsym, hred⟩ := h
  refine ⟨traceFirst_posSemidef σ hpsd, ?_, ?_⟩
  · intro π p q
    simp only [traceFirst]
    refine Finset.sum_congr rfl fun x _ => ?_
    -- extend π to the (k+2) copies, fixing the first
    have key : ∀ f : Fin (k + 1) → Fin dB,
        (Fin.cons x (f ∘ π) : Fin (k + 2) → Fin dB) = (Fin.cons x f : Fin (k + 2) → Fin dB) ∘ (Equiv.Perm.decomposeFin.symm (0, π)) := by
      intro f
      funext i
      refine Fin.cases ?_ (fun j => ?_) i
      · simp [Equiv.Perm.decomposeFin_symm_apply_zero]
      · simp [Equiv.Perm.decomposeFin_symm_apply_succ]
    rw [key p.2, key q.2]
    exact hsym (Equiv.Perm.decomposeFin.symm (0, π)) (p.1, Fin.cons x p.2) (q.1, Fin.cons x q.2)
  · intro p q
    rw [hred p q]
    simp only [traceFirst]
    rw [Finset.sum_comm]
    rw [← (Fin.consEquiv (fun _ : Fin (k + 1) => Fin dB)).sum_comp, Fintype.sum_prod_type]
    refine Finset.sum_congr rfl fun x _ => Finset.sum_congr rfl fun r _ => ?_
    show σ (p.1, Fin.snoc (Fin.cons x r) p.2) (q.1, Fin.snoc (Fin.cons x r) q.2) = σ (p.1, Fin.cons x (Fin.snoc r p.2)) (q.1, Fin.cons x (Fin.snoc r q.2))
    rw [Fin.cons_snoc_eq_snoc_cons, Fin.cons_snoc_eq_snoc_cons]

/-- the reduction of an operator on `A ⊗ B^{⊗(k+1)}` to `A` and the last copy -/
def reduceLast {k : ℕ} (σ : Matrix (Fin dA × (Fin (k + 1) → Fin dB)) (Fin dA × (Fin (k + 1) → Fin dB)) ℂ) :
    Matrix (Fin dA × Fin dB) (Fin dA × Fin dB) ℂ :=
  fun p q => ∑ r : Fin k → Fin dB, σ (p.1, Fin.snoc r p.2) (q.1, Fin.snoc r q.2)

theorem reduceLast_posSemidef {k : ℕ} (σ : Matrix (Fin dA × (Fin (k + 1) → Fin dB)) (Fin dA × (Fin (k + 1) → Fin dB)) ℂ)
    (h : σ.PosSemidef) : (reduceLast σ).PosSemidef := by
  have e : reduceLast σ = ∑ r : Fin k → Fin dB,
      σ.submatrix (fun p : Fin dA × Fin dB => (p.1, (Fin.snoc r p.2 : Fin (k + 1) → Fin dB)))
        (fun p : Fin dA × Fin dB => (p.1, (Fin.snoc r p.2 : Fin (k + 1) → Fin dB))) := by
    ext p q
    simp only [reduceLast, Matrix.sum_apply, Matrix.submatrix_apply]
  rw [e]
  exact posSemidef_sum _ fun r _ => h.submatrix _

theorem isSymExt_posSemidef {k : ℕ} (ρ : Matrix (Fin dA × Fin dB) (Fin dA × Fin dB) ℂ)
    (σ : Matrix (Fin dA × (Fin (k + 1) → Fin dB)) (Fin dA × (Fin (k + 1) → Fin dB)) ℂ) (h : IsSymExt k ρ σ) :
    ρ.PosSemidef := by
  have : ρ = reduceLast σ := by ext p q; exact h.2.2 p q
  rw [this]; exact reduceLast_posSemidef σ h.1

end ext

/-! ### star-shaped sets and boundary lengths -/

section star
variable {E : Type} [AddCommGroup E] [Module ℝ E]

/-- the values `β ≥ 0` for which `c + β·v` lies in `S` -/
def feasible (S : Set E) (c v : E) : Set ℝ := {β | 0 ≤ β ∧ c + β • v ∈ S}

/-- `S` is star-shaped about `c` -/
def StarShaped (S : Set E) (c : E) : Prop := ∀ x ∈ S, ∀ t : ℝ, 0 ≤ t → t ≤ 1 → c + t • (x - c) ∈ S

theorem feasible_mono {A B : Set E} (h : A ⊆ B) (c v : E) : feasible A c v ⊆ feasible B c v :=
  fun _ hβ => ⟨hβ.1, h hβ.2⟩

theorem feasible_interval {S : Set E} {c : E} (hS : StarShaped S c) (v : E) {β β' : ℝ}
    (hβ : β ∈ feasible S c v) (h0 : 0 ≤ β') (hle : β' ≤ β) : β' ∈ feasible S c v := by
  refine ⟨h0, ?_⟩
  rcases eq_or_lt_of_le hβ.1 with h | h
  · have : β' = β := le_antisymm hle (by rw [← h]; exact h0)
    rw [this]; exact hβ.2
  · have := hS _ hβ.2 (β' / β) (div_nonneg h0 h.le) ((div_le_one h).2 hle)
    have e : c + (β' / β) • (c + β • v - c) = c + β' • v := by
      rw [add_sub_cancel_left, smul_smul, div_mul_cancel₀ _ h.ne']
    rwa [e] at this

end star

end Numqi.Boundary
