/-
C19: algebra of the Pauli action `pauliAct` on state vectors (product law, (anti)commutation,
unitarity), the inner product, isometry of the gates, basis vectors and the flat-index ↔ position map.
-/
import NumqiProofs.QecClifford
import Mathlib.Algebra.Star.Basic
import Mathlib.Algebra.BigOperators.Group.Finset.Basic

namespace Numqi.Qec
variable {R : Type} [CommRing R]

/-- an operator differs from the one with phase exponent 0 by the scalar `I^k` -/
theorem pauliAct_phase {I : R} (p : MP) (v : Nat → R) (i : Nat) :
    pauliAct I p v i = ipow I p.k * pauliAct I ⟨0, p.x, p.z⟩ v i := by
  simp only [pauliAct, ipow_add, Nat.zero_add, mul_assoc]

theorem pauliAct_one {I : R} (v : Nat → R) : pauliAct I MP.one v = v := by
  funext i; simp [pauliAct, MP.one, ipow]

section act
variable {I : R} (hI : I * I = -1)
include hI

/-- **product law**: `(a·b) v = a (b v)` for the product `MP.mul` on the masks, phase included -/
theorem pauliAct_mul (a b : MP) (v : Nat → R) :
    pauliAct I (MP.mul a b) v = pauliAct I a (pauliAct I b v) := by
  funext i
  simp only [pauliAct, MP.mul, Nat.and_xor_distrib_left, Nat.and_xor_distrib_right, par_xor, ← Nat.xor_assoc]
  rw [← mul_assoc, ← ipow_add]
  congr 1
  apply ipow_congr hI
  cases par (a.z &&& i) <;> cases par (a.z &&& a.x) <;> cases par (a.z &&& b.x) <;> cases par (b.z &&& i) <;>
    cases par (b.z &&& a.x) <;> cases par (b.z &&& b.x) <;> simp <;> omega

/-- **commutation test**: the operators commute or anticommute according to `MP.acomm` -/
theorem pauliAct_comm (a b : MP) (v : Nat → R) :
    pauliAct I a (pauliAct I b v)
      = fun i => (if MP.acomm a b then -1 else 1) * pauliAct I b (pauliAct I a v) i := by
  rw [← pauliAct_mul hI, ← pauliAct_mul hI]
  funext i
  rw [pauliAct_phase (MP.mul a b), pauliAct_phase (MP.mul b a)]
  have hx : (MP.mul a b).x = (MP.mul b a).x := by simp [MP.mul, Nat.xor_comm]
  have hz : (MP.mul a b).z = (MP.mul b a).z := by simp [MP.mul, Nat.xor_comm]
  rw [hx, hz, ← mul_assoc]
  congr 1
  simp only [MP.mul, MP.acomm, par_xor, Nat.and_comm a.x b.z]
  cases h1 : par (a.z &&& b.x) <;> cases h2 : par (b.z &&& a.x) <;>
    simp [ipow_mod hI, ipow_add, ipow_two hI, mul_comm]

end act

/-! ### inner product on the first `2^n` positions -/

variable [StarRing R]

/-- `⟨u|v⟩ = Σ_{i < 2^n} conj(u_i) v_i` -/
def ip (n : Nat) (u v : Nat → R) : R := ∑ i ∈ Finset.range (2 ^ n), star (u i) * v i

theorem ip_congr {n : Nat} {u u' v v' : Nat → R} (hu : ∀ i < 2 ^ n, u i = u' i) (hv : ∀ i < 2 ^ n, v i = v' i) :
    ip n u v = ip n u' v' := by
  unfold ip
  apply Finset.sum_congr rfl
  intro i hi
  rw [Finset.mem_range] at hi
  rw [hu i hi, hv i hi]

theorem ip_smul_right (n : Nat) (c : R) (u v : Nat → R) : ip n u (fun i => c * v i) = c * ip n u v := by
  unfold ip; rw [Finset.mul_sum]; apply Finset.sum_congr rfl; intro i _; ring

theorem ip_neg_right (n : Nat) (u v : Nat → R) : ip n u (fun i => -(v i)) = - ip n u v := by
  unfold ip; rw [← Finset.sum_neg_distrib]; apply Finset.sum_congr rfl; intro i _; ring

omit [StarRing R] in
/-- reindexing the sum by `i ↦ i ⊕ x` -/
theorem sum_xor {n : Nat} (x : Nat) (hx : x < 2 ^ n) (f : Nat → R) :
    ∑ i ∈ Finset.range (2 ^ n), f (i ^^^ x) = ∑ i ∈ Finset.range (2 ^ n), f i := by
  apply Finset.sum_nbij' (fun i => i ^^^ x) (fun i => i ^^^ x)
  · intro i hi; rw [Finset.mem_range] at *; exact Nat.xor_lt_two_pow hi hx
  · intro i hi; rw [Finset.mem_range] at *; exact Nat.xor_lt_two_pow hi hx
  · intro i _; rw [Nat.xor_assoc, Nat.xor_self, Nat.xor_zero]
  · intro i _; rw [Nat.xor_assoc, Nat.xor_self, Nat.xor_zero]
  · intro i _; rfl

section unitary
variable {I : R} (hI : I * I = -1) (hs : star I = -I)
include hI hs

theorem star_ipow_mul (k : Nat) : star (ipow I k) * ipow I k = 1 := by
  induction k with
  | zero => simp [ipow]
  | succ k ih =>
    rw [ipow, star_mul, hs]
    calc -I * star (ipow I k) * (ipow I k * I) = (star (ipow I k) * ipow I k) * (-(I * I)) := by ring
      _ = 1 := by rw [ih, hI]; ring

/-- **Pauli operators are unitary** -/
theorem ip_pauliAct {n : Nat} (p : MP) (hx : p.x < 2 ^ n) (u v : Nat → R) :
    ip n (pauliAct I p u) (pauliAct I p v) = ip n u v := by
  unfold ip
  rw [← sum_xor p.x hx (fun i => star (u i) * v i)]
  apply Finset.sum_congr rfl
  intro i _
  simp only [pauliAct, star_mul]
  calc star (u (i ^^^ p.x)) * star (ipow I (p.k + 2 * (par (p.z &&& (i ^^^ p.x))).toNat))
        * (ipow I (p.k + 2 * (par (p.z &&& (i ^^^ p.x))).toNat) * v (i ^^^ p.x))
      = (star (ipow I (p.k + 2 * (par (p.z &&& (i ^^^ p.x))).toNat)) * ipow I (p.k + 2 * (par (p.z &&& (i ^^^ p.x))).toNat))
        * (star (u (i ^^^ p.x)) * v (i ^^^ p.x)) := by ring
    _ = _ := by rw [star_ipow_mul hI hs]; ring

end unitary

/-! ### the gates are isometries (`H` up to the factor 2 of its scaling) -/

theorem bit_lt {q n : Nat} (h : q < n) : bit q < 2 ^ n := by
  rw [bit, Nat.one_shiftLeft]; exact Nat.pow_lt_pow_right (by norm_num) h

/-- the permutation `i ↦ i ⊕ [i_c] e_t` of a controlled gate -/
def ctlFlip (c t i : Nat) : Nat := if tb i c then i ^^^ bit t else i

omit [StarRing R] in
theorem sum_ctlFlip {n c t : Nat} (hc : c < n) (ht : t < n) (hct : c ≠ t) (f : Nat → R) :
    ∑ i ∈ Finset.range (2 ^ n), f (ctlFlip c t i) = ∑ i ∈ Finset.range (2 ^ n), f i := by
  have hinv : ∀ i, ctlFlip c t (ctlFlip c t i) = i := by
    intro i
    unfold ctlFlip tb
    by_cases h : i.testBit c
    · have htc : ¬ (t = c) := fun e => hct e.symm
      have : (i ^^^ bit t).testBit c = true := by rw [testBit_fl]; simp [h, htc]
      simp [h, this, xor_bit_cancel]
    · simp [h]
  have hlt : ∀ i, i < 2 ^ n → ctlFlip c t i < 2 ^ n := by
    intro i hi; unfold ctlFlip; split
    · exact Nat.xor_lt_two_pow hi (bit_lt ht)
    · exact hi
  apply Finset.sum_nbij' (ctlFlip c t) (ctlFlip c t)
  · intro i hi; rw [Finset.mem_range] at *; exact hlt i hi
  · intro i hi; rw [Finset.mem_range] at *; exact hlt i hi
  · intro i _; exact hinv i
  · intro i _; exact hinv i
  · intro i _; rfl

section iso
variable {I : R} (hI : I * I = -1) (hs : star I = -I)
include hI hs

theorem star_I_mul (a b : R) : star (I * a) * (I * b) = star a * b := by
  rw [star_mul, hs]
  calc star a * -I * (I * b) = -(I * I) * (star a * b) := by ring
    _ = _ := by rw [hI]; ring

/-- every gate except `H` preserves the inner product; `H` (stored as `√2·H`) doubles it -/
theorem ip_applyGate {n : Nat} (h2 : ∀ a b : R, 2 * a = 2 * b → a = b) (g : Gate) (hg : gateOk n g = true) (u v : Nat → R) :
    ip n (applyGate I g u) (applyGate I g v) = (match g with | .h _ => 2 | _ => 1) * ip n u v := by
  have hII := star_I_mul hI hs
  cases g with
  | x q =>
    simp only [gateOk, decide_eq_true_eq] at hg
    simp only [one_mul, ip, applyGate, fl]
    exact sum_xor (bit q) (bit_lt hg) (fun i => star (u i) * v i)
  | z q =>
    simp only [one_mul, ip, applyGate]
    apply Finset.sum_congr rfl; intro i _
    split <;> simp
  | s q =>
    simp only [one_mul, ip, applyGate]
    apply Finset.sum_congr rfl; intro i _
    split
    · exact hII _ _
    · rfl
  | cz c t =>
    simp only [one_mul, ip, applyGate]
    apply Finset.sum_congr rfl; intro i _
    split <;> simp
  | y q =>
    simp only [gateOk, decide_eq_true_eq] at hg
    simp only [one_mul, ip, applyGate, fl]
    rw [← sum_xor (bit q) (bit_lt hg) (fun i => star (u i) * v i)]
    apply Finset.sum_congr rfl; intro i _
    split
    · exact hII _ _
    · rw [star_neg, neg_mul_neg]; exact hII _ _
  | cx c t =>
    simp only [gateOk, Bool.and_eq_true, decide_eq_true_eq, bne_iff_ne, ne_eq] at hg
    simp only [one_mul, ip, applyGate, fl]
    rw [← sum_ctlFlip hg.1.1 hg.1.2 hg.2 (fun i => star (u i) * v i)]
    apply Finset.sum_congr rfl; intro i _
    unfold ctlFlip
    split <;> rfl
  | cy c t =>
    simp only [gateOk, Bool.and_eq_true, decide_eq_true_eq, bne_iff_ne, ne_eq] at hg
    simp only [one_mul, ip, applyGate, fl]
    rw [← sum_ctlFlip hg.1.1 hg.1.2 hg.2 (fun i => star (u i) * v i)]
    apply Finset.sum_congr rfl; intro i _
    unfold ctlFlip
    by_cases h1 : tb i c = true
    · simp only [h1, if_true]
      split
      · exact hII _ _
      · rw [star_neg, neg_mul_neg]; exact hII _ _
    · simp only [h1, if_false]; rfl
  | h q =>
    simp only [gateOk, decide_eq_true_eq] at hg
    apply h2
    -- 2 ΣG = ΣG + ΣG∘fl = 2 (Σg + Σg∘fl) = 4 Σg
    have hpair : ∀ i, star (applyGate I (.h q) u i) * applyGate I (.h q) v i
        + star (applyGate I (.h q) u (i ^^^ bit q)) * applyGate I (.h q) v (i ^^^ bit q)
        = 2 * (star (u i) * v i + star (u (i ^^^ bit q)) * v (i ^^^ bit q)) := by
      intro i
      have hb : tb (i ^^^ bit q) q = !tb i q := by
        unfold tb; rw [testBit_fl]; simp
      simp only [applyGate, fl, hb, xor_bit_cancel]
      rcases Bool.eq_false_or_eq_true (tb i q) with h1 | h1
      · simp only [h1, Bool.not_true, if_true, Bool.false_eq_true, if_false, star_add, star_sub]; ring
      · simp only [h1, Bool.not_false, if_true, Bool.false_eq_true, if_false, star_add, star_sub]; ring
    have e1 := sum_xor (bit q) (bit_lt hg) (fun i => star (applyGate I (.h q) u i) * applyGate I (.h q) v i)
    have e2 := sum_xor (bit q) (bit_lt hg) (fun i => star (u i) * v i)
    have e3 := Finset.sum_congr (s₁ := Finset.range (2 ^ n)) rfl (fun i _ => hpair i)
    rw [Finset.sum_add_distrib, ← Finset.mul_sum, Finset.sum_add_distrib] at e3
    simp only [e1, e2] at e3
    unfold ip
    calc 2 * ∑ i ∈ Finset.range (2 ^ n), star (applyGate I (.h q) u i) * applyGate I (.h q) v i
        = ∑ i ∈ Finset.range (2 ^ n), star (applyGate I (.h q) u i) * applyGate I (.h q) v i
          + ∑ i ∈ Finset.range (2 ^ n), star (applyGate I (.h q) u i) * applyGate I (.h q) v i := by ring
      _ = 2 * (∑ i ∈ Finset.range (2 ^ n), star (u i) * v i + ∑ i ∈ Finset.range (2 ^ n), star (u i) * v i) := e3
      _ = _ := by ring
  | unknown => simp [gateOk] at hg

/-- a circuit with `h` Hadamards multiplies inner products by `2^h` -/
theorem ip_run {n : Nat} (h2 : ∀ a b : R, 2 * a = 2 * b → a = b) (gs : List Gate) (hg : gs.all (gateOk n) = true) (u v : Nat → R) :
    ip n (run I gs u) (run I gs v) = 2 ^ countH gs * ip n u v := by
  induction gs generalizing u v with
  | nil => simp [run, countH]
  | cons g gs ih =>
    simp only [List.all_cons, Bool.and_eq_true] at hg
    simp only [run]
    rw [ih hg.2, ip_applyGate hI hs h2 g hg.1]
    cases g <;> simp [countH, pow_succ] <;> ring

end iso
end Numqi.Qec
