/-
C14 supporting algebra (NOT counted as property obligations: these statements are about arbitrary Mathlib matrices, not about
a constant the driver executes; there is no model of the numerical `reduce_group_representation`).  They explain what the probe's
measurements on the returned blocks mean: characters of any representation of a group table are class functions; the Fourier matrix
`F[(i,a,b), g] = c_i ρ_i(g)[a,b]` intertwines the left regular representation with `⊕_i ρ_i ⊗ 1_{d_i}` (homomorphism law only); and
`Σ d_i² = |G|` follows from residuals of `F Fᴴ − 1` and `Fᴴ F − 1` that are entrywise below `1/(2·size)` (Gershgorin), in particular
from exact two-sided unitarity.
-/
import NumqiProps.C14
import Mathlib.LinearAlgebra.Matrix.Trace
import Mathlib.Data.Matrix.Block
import Mathlib.LinearAlgebra.Matrix.Kronecker
import Mathlib.LinearAlgebra.Matrix.Gershgorin
import Mathlib.LinearAlgebra.Matrix.Rank
import Mathlib.Data.Complex.Basic

namespace Numqi.C14
open Numqi Numqi.FinGroup

section irreps
open Matrix
variable {R : Type*} [CommRing R] {T : Table} {N : Nat}

/-- a matrix representation of the group given by the table: `ρ(g·k) = ρ(g) ρ(k)` -/
def IsRep (h : IsGroupTable T N) {d : Type*} [Fintype d] [DecidableEq d] (ρ : Fin N → Matrix d d R) : Prop :=
  ∀ g k : Fin N, ρ (mulFin h g k) = ρ g * ρ k

/-- **characters are class functions**: `χ(x g x⁻¹) = χ(g)` for every representation of the table's group
(`y` is the inverse of `x`: `y·x = e`) -/
theorem character_class_function (h : IsGroupTable T N) {d : Type*} [Fintype d] [DecidableEq d]
    (ρ : Fin N → Matrix d d R) (hρ : IsRep h ρ) (e : Fin N) (he : ∀ i, i < N → entry T e.val i = i)
    (g x y : Fin N) (hyx : mulFin h y x = e) :
    trace (ρ (mulFin h (mulFin h x g) y)) = trace (ρ g) := by
  have heg : mulFin h e g = g := Fin.ext (he g.val g.isLt)
  rw [hρ, hρ, Matrix.trace_mul_cycle, ← hρ, hyx, ← hρ, heg]

variable {ι : Type*} [Fintype ι] [DecidableEq ι] {d : ι → Type*} [∀ i, Fintype (d i)] [∀ i, DecidableEq (d i)]

/-- the "Fourier" matrix built from a family of representations: row `(i,a,b)`, column `g`, entry `c_i · ρ_i(g)[a,b]` -/
def fourier (c : ι → R) (ρ : ∀ i, Fin N → Matrix (d i) (d i) R) : Matrix (Σ i, d i × d i) (Fin N) R :=
  fun x g => c x.1 * ρ x.1 g x.2.1 x.2.2

/-- `⊕_i ρ_i(h) ⊗ 1_{d_i}`: every block repeated `d_i` times -/
def blockRep (ρ : ∀ i, Fin N → Matrix (d i) (d i) R) (k : Fin N) : Matrix (Σ i, d i × d i) (Σ i, d i × d i) R :=
  Matrix.blockDiagonal' fun i => Matrix.kroneckerMap (· * ·) (ρ i k) (1 : Matrix (d i) (d i) R)

/-- **the Fourier matrix intertwines the left regular representation with `⊕ ρ_i ⊗ 1`** — from the homomorphism law
alone: `F · L(k) = (⊕_i ρ_i(k) ⊗ 1_{d_i}) · F` for every `k` -/
theorem fourier_intertwines (h : IsGroupTable T N) (c : ι → R) (ρ : ∀ i, Fin N → Matrix (d i) (d i) R)
    (hρ : ∀ i, IsRep h (ρ i)) (k : Fin N) :
    fourier c ρ * leftReg R T N k = blockRep ρ k * fourier c ρ := by
  ext ⟨i, a, b⟩ g
  rw [Matrix.mul_apply, Finset.sum_eq_single (mulFin h k g)]
  · rw [leftReg_apply]
    simp only [mulFin, if_true, mul_one]
    rw [Matrix.mul_apply, Fintype.sum_sigma, Finset.sum_eq_single i]
    · simp only [blockRep, Matrix.blockDiagonal'_apply_eq, fourier, Fintype.sum_prod_type, Matrix.kroneckerMap_apply,
        Matrix.one_apply]
      have := congrFun (congrFun (hρ i k g) a) b
      simp only [mulFin] at this
      rw [this, Matrix.mul_apply, Finset.mul_sum]
      refine Finset.sum_congr rfl fun a' _ => ?_
      rw [Finset.sum_eq_single b]
      · simp; ring
      · intro b' _ hb'; simp [Ne.symm hb']
      · intro hb; exact absurd (Finset.mem_univ _) hb
    · intro j _ hj
      simp [blockRep, Matrix.blockDiagonal'_apply_ne _ _ _ (Ne.symm hj)]
    · intro hi; exact absurd (Finset.mem_univ _) hi
  · intro x _ hx
    rw [leftReg_apply]
    have : ¬ x.val = entry T k.val g.val := fun e => hx (Fin.ext e)
    simp [this]
  · intro hne; exact absurd (Finset.mem_univ _) hne

/-- a rectangular matrix that is unitary on both sides is square (trace argument) -/
theorem card_eq_of_unitary {K : Type*} [Fintype K] [DecidableEq K] (F : Matrix K (Fin N) ℂ)
    (h1 : F * Fᴴ = 1) (h2 : Fᴴ * F = 1) : Fintype.card K = N := by
  have e1 : trace (F * Fᴴ) = (Fintype.card K : ℂ) := by rw [h1, Matrix.trace_one]
  have e2 : trace (Fᴴ * F) = (N : ℂ) := by rw [h2, Matrix.trace_one]; simp
  rw [Matrix.trace_mul_comm, e2] at e1
  exact_mod_cast e1.symm

/-- **`Σ d_i² = |G|`** from the two measured hypotheses `F F† = 1` (Schur orthogonality of the blocks) and `F† F = 1`
(completeness): together with `fourier_intertwines`, `F` is then a unitary equivalence between the left regular
representation and the direct sum in which block `i` occurs `d_i` times; comparing traces at the identity gives the count. -/
theorem sum_sq_dims_eq_order (F : Matrix (Σ i, d i × d i) (Fin N) ℂ)
    (h1 : F * Fᴴ = 1) (h2 : Fᴴ * F = 1) : ∑ i, Fintype.card (d i) ^ 2 = N := by
  rw [← card_eq_of_unitary F h1 h2, Fintype.card_sigma]
  exact Finset.sum_congr rfl fun i _ => by rw [Fintype.card_prod, sq]

end irreps


section perturbation
open Matrix

/-- a square complex matrix whose entries are within `1/(2n)` of the identity is invertible (strict diagonal dominance) -/
theorem det_ne_zero_of_near_one {n : Type*} [Fintype n] [DecidableEq n] (A : Matrix n n ℂ)
    (h : ∀ i j : n, ‖(A - 1 : Matrix n n ℂ) i j‖ < 1 / (2 * (Fintype.card n : ℝ))) : A.det ≠ 0 := by
  rcases isEmpty_or_nonempty n with he | hne
  · simp [Matrix.det_isEmpty]
  have hc : (0 : ℝ) < Fintype.card n := by exact_mod_cast Fintype.card_pos
  apply det_ne_zero_of_sum_row_lt_diag
  intro k
  have hoff : ∀ j ∈ Finset.univ.erase k, ‖A k j‖ ≤ 1 / (2 * (Fintype.card n : ℝ)) := by
    intro j hj
    have hjk : k ≠ j := fun e => (Finset.mem_erase.1 hj).1 e.symm
    have := h k j
    simp only [Matrix.sub_apply, Matrix.one_apply, hjk, if_false, sub_zero] at this
    exact this.le
  have hdiag : 1 - 1 / (2 * (Fintype.card n : ℝ)) < ‖A k k‖ := by
    have := h k k
    simp only [Matrix.sub_apply, Matrix.one_apply, if_true] at this
    have h2 : ‖(1 : ℂ)‖ - ‖A k k - 1‖ ≤ ‖A k k‖ := by
      have := norm_sub_norm_le (1 : ℂ) (1 - A k k)
      have e : (1 : ℂ) - (1 - A k k) = A k k := by ring
      rw [e, ← norm_neg (1 - A k k), neg_sub] at this
      exact this
    rw [norm_one] at h2
    linarith
  calc ∑ j ∈ Finset.univ.erase k, ‖A k j‖ ≤ ∑ _j ∈ Finset.univ.erase k, 1 / (2 * (Fintype.card n : ℝ)) := Finset.sum_le_sum hoff
    _ = ((Fintype.card n : ℝ) - 1) * (1 / (2 * (Fintype.card n : ℝ))) := by
        rw [Finset.sum_const, Finset.card_erase_of_mem (Finset.mem_univ k), Finset.card_univ, nsmul_eq_mul]
        congr 1
        have : 1 ≤ Fintype.card n := Fintype.card_pos
        push_cast [Nat.cast_sub this]; ring
    _ < 1 - 1 / (2 * (Fintype.card n : ℝ)) := by
        have : (0:ℝ) < 1 / (2 * (Fintype.card n : ℝ)) := by positivity
        have h3 : (Fintype.card n : ℝ) * (1 / (2 * (Fintype.card n : ℝ))) = 1 / 2 := by field_simp
        nlinarith
    _ < ‖A k k‖ := hdiag

/-- **`Σ d_i² = |G|` from measured residuals**: if `F Fᴴ` and `Fᴴ F` are entrywise within `1/(2·size)` of the identity, `F` is square -/
theorem card_eq_of_near_unitary {K : Type*} [Fintype K] [DecidableEq K] {N : Nat} (F : Matrix K (Fin N) ℂ)
    (h1 : ∀ i j : K, ‖(F * Fᴴ - 1 : Matrix K K ℂ) i j‖ < 1 / (2 * (Fintype.card K : ℝ)))
    (h2 : ∀ i j : Fin N, ‖(Fᴴ * F - 1 : Matrix (Fin N) (Fin N) ℂ) i j‖ < 1 / (2 * (N : ℝ))) : Fintype.card K = N := by
  have d1 := det_ne_zero_of_near_one (F * Fᴴ) h1
  have d2 := det_ne_zero_of_near_one (Fᴴ * F) (by simpa using h2)
  have r1 : (F * Fᴴ).rank = Fintype.card K :=
    Matrix.rank_of_isUnit _ ((Matrix.isUnit_iff_isUnit_det _).2 (isUnit_iff_ne_zero.2 d1))
  have r2 : (Fᴴ * F).rank = N := by
    simpa using Matrix.rank_of_isUnit _ ((Matrix.isUnit_iff_isUnit_det _).2 (isUnit_iff_ne_zero.2 d2))
  have e1 : Fintype.card K ≤ N := by
    rw [← r1]; exact (Matrix.rank_mul_le_left F Fᴴ).trans (by simpa using Matrix.rank_le_card_width F)
  have e2 : N ≤ Fintype.card K := by
    rw [← r2]; exact (Matrix.rank_mul_le_left Fᴴ F).trans (Matrix.rank_le_card_width Fᴴ)
  omega

end perturbation

/-- the representation hypothesis is satisfiable: the trivial representation of any group table -/
example {T : Table} {N : Nat} (h : IsGroupTable T N) : IsRep (R := ℂ) h (fun _ : Fin N => (1 : Matrix (Fin 1) (Fin 1) ℂ)) := by
  intro g k; simp

end Numqi.C14
