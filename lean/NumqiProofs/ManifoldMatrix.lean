/- Matrix-algebra lemmas behind the manifold maps (C01): exp / Cayley of skew-Hermitian matrices, Stiefel contracts. -/
import NumqiProofs.ManifoldLemmas
import Mathlib.Analysis.Normed.Algebra.MatrixExponential
import Mathlib.LinearAlgebra.Matrix.PosDef
import Mathlib.LinearAlgebra.Matrix.NonsingularInverse
import Mathlib.LinearAlgebra.UnitaryGroup

namespace Numqi.Manifold
open Matrix
open scoped ComplexOrder
local notation "mexp" => NormedSpace.exp

variable {n : Type} [Fintype n] [DecidableEq n]

/-- `exp` of a skew-Hermitian matrix is unitary -/
theorem exp_unitary_of_skew (A : Matrix n n ℂ) (hA : Aᴴ = -A) : (mexp A)ᴴ * mexp A = 1 := by
  rw [← Matrix.exp_conjTranspose, hA, Matrix.exp_neg]
  exact Matrix.nonsing_inv_mul _ ((Matrix.isUnit_iff_isUnit_det _).1 (Matrix.isUnit_exp A))

/-- `det (mexp A) = 1` when `Aᵀ = -A` (real antisymmetric generators) -/
theorem det_exp_of_transpose_neg (A : Matrix n n ℂ) (hA : Aᵀ = -A) : det (mexp A) = 1 := by
  set B : Matrix n n ℂ := (1 / 2 : ℂ) • A with hB
  have h2 : A = (2 : ℕ) • B := by rw [hB]; ext i j; simp
  have hBt : Bᵀ = -B := by rw [hB, transpose_smul, hA, smul_neg]
  have hO : (mexp B)ᵀ * mexp B = 1 := by
    rw [← Matrix.exp_transpose, hBt, Matrix.exp_neg]
    exact Matrix.nonsing_inv_mul _ ((Matrix.isUnit_iff_isUnit_det _).1 (Matrix.isUnit_exp B))
  have hd : det (mexp B) * det (mexp B) = 1 := by
    have := congrArg det hO
    rwa [det_mul, det_transpose, det_one] at this
  rw [h2, Matrix.exp_nsmul, det_pow, pow_two, hd]

/-- `1 + A` is invertible for skew-Hermitian `A` -/
theorem isUnit_one_add_of_skew (A : Matrix n n ℂ) (hA : Aᴴ = -A) : IsUnit (1 + A).det := by
  have hpd : ((1 + A)ᴴ * (1 + A)).PosDef := by
    have h1 : (1 + A)ᴴ * (1 + A) = 1 + Aᴴ * A := by
      rw [conjTranspose_add, conjTranspose_one, hA]; noncomm_ring
    rw [h1]
    exact Matrix.PosDef.one.add_posSemidef (Matrix.posSemidef_conjTranspose_mul_self A)
  have hu : IsUnit ((1 + A)ᴴ * (1 + A)).det := (Matrix.isUnit_iff_isUnit_det _).1 (Matrix.PosDef.isUnit hpd)
  rw [det_mul] at hu
  exact isUnit_of_mul_isUnit_right hu

/-- **Cayley transform**: for skew-Hermitian `A` and any left inverse `Pinv` of `1 + A`, `Pinv (1 - A)` is unitary. -/
theorem cayley_unitary (A Pinv : Matrix n n ℂ) (hA : Aᴴ = -A) (hinv : Pinv * (1 + A) = 1) :
    (Pinv * (1 - A))ᴴ * (Pinv * (1 - A)) = 1 := by
  have hu := isUnit_one_add_of_skew A hA
  have hP : Pinv = (1 + A)⁻¹ := (Matrix.inv_eq_left_inv hinv).symm
  have huQ : IsUnit (1 - A).det := by
    have := isUnit_one_add_of_skew (-A) (by rw [conjTranspose_neg, hA])
    rwa [← sub_eq_add_neg] at this
  have hPH : (1 + A)ᴴ = 1 - A := by rw [conjTranspose_add, conjTranspose_one, hA, sub_eq_add_neg]
  have hQH : (1 - A)ᴴ = 1 + A := by rw [conjTranspose_sub, conjTranspose_one, hA, sub_neg_eq_add]
  have hcomm : (1 + A) * (1 - A) = (1 - A) * (1 + A) := by noncomm_ring
  rw [hP, conjTranspose_mul, conjTranspose_nonsing_inv, hPH, hQH]
  have h1 : (1 - A)⁻¹ * (1 + A)⁻¹ = (1 + A)⁻¹ * (1 - A)⁻¹ := by
    rw [← Matrix.mul_inv_rev, ← Matrix.mul_inv_rev, hcomm]
  calc (1 + A) * (1 - A)⁻¹ * ((1 + A)⁻¹ * (1 - A))
      = (1 + A) * ((1 - A)⁻¹ * (1 + A)⁻¹) * (1 - A) := by simp only [Matrix.mul_assoc]
    _ = (1 + A) * ((1 + A)⁻¹ * (1 - A)⁻¹) * (1 - A) := by rw [h1]
    _ = ((1 + A) * (1 + A)⁻¹) * ((1 - A)⁻¹ * (1 - A)) := by simp only [Matrix.mul_assoc]
    _ = 1 := by rw [Matrix.mul_nonsing_inv _ hu, Matrix.nonsing_inv_mul _ huQ, Matrix.one_mul]

/-- powers of a unitary matrix are unitary -/
theorem pow_unitary (T : Matrix n n ℂ) (hT : Tᴴ * T = 1) (k : Nat) : (T ^ k)ᴴ * T ^ k = 1 := by
  induction k with
  | zero => simp
  | succ k ih =>
    rw [pow_succ, conjTranspose_mul]
    calc Tᴴ * (T ^ k)ᴴ * (T ^ k * T) = Tᴴ * ((T ^ k)ᴴ * T ^ k) * T := by simp only [Matrix.mul_assoc]
      _ = 1 := by rw [ih, Matrix.mul_one, hT]

/-- real case: `det = 1` for the Cayley transform of a matrix with `Aᵀ = -A` -/
theorem cayley_det_one (A Pinv : Matrix n n ℂ) (hA : Aᵀ = -A) (hinv : Pinv * (1 + A) = 1) :
    (Pinv * (1 - A)).det = 1 := by
  have h1 : (1 - A).det = (1 + A).det := by
    rw [← det_transpose, transpose_sub, transpose_one, hA, sub_neg_eq_add]
  have := congrArg det hinv
  rw [det_mul, det_one] at this
  rw [det_mul, h1, this]

section rect
variable {m r : Type} [Fintype m] [DecidableEq m] [Fintype r] [DecidableEq r]

/-- `to_stiefel_choleskyL`: with the contracts `C Cᴴ = LᴴL` (`cholesky`) and `Rinv Cᴴ = 1` (`inv`), `L Rinv` has orthonormal columns -/
theorem stiefel_cholL_contract (L : Matrix m r ℂ) (C Rinv : Matrix r r ℂ) (hC : C * Cᴴ = Lᴴ * L) (hR : Rinv * Cᴴ = 1) :
    (L * Rinv)ᴴ * (L * Rinv) = 1 := by
  have hR' : Cᴴ * Rinv = 1 := mul_eq_one_comm.1 hR
  have hR'' : Rinvᴴ * C = 1 := by
    have := congrArg conjTranspose hR'
    rwa [conjTranspose_mul, conjTranspose_conjTranspose, conjTranspose_one] at this
  calc (L * Rinv)ᴴ * (L * Rinv) = Rinvᴴ * (Lᴴ * L) * Rinv := by rw [conjTranspose_mul]; simp only [Matrix.mul_assoc]
    _ = (Rinvᴴ * C) * (Cᴴ * Rinv) := by rw [← hC]; simp only [Matrix.mul_assoc]
    _ = 1 := by rw [hR'', hR', Matrix.one_mul]

/-- `to_stiefel_polar`: with the contract `Sᴴ = S`, `S (MᴴM) S = 1` (inverse square root), `M S` has orthonormal columns -/
theorem stiefel_polar_contract (M : Matrix m r ℂ) (S : Matrix r r ℂ) (hS : Sᴴ = S) (hSS : S * (Mᴴ * M) * S = 1) :
    (M * S)ᴴ * (M * S) = 1 := by
  rw [conjTranspose_mul, hS, ← hSS]; simp only [Matrix.mul_assoc]

theorem trace_mul_conjTranspose_self (L : Matrix m r ℂ) :
    trace (L * Lᴴ) = ∑ i, ∑ j, ((Complex.normSq (L i j) : ℝ) : ℂ) := by
  simp only [trace, diag_apply, Matrix.mul_apply, conjTranspose_apply]
  refine Finset.sum_congr rfl (fun i _ => Finset.sum_congr rfl (fun j _ => ?_))
  rw [Complex.star_def, Complex.mul_conj]

end rect

end Numqi.Manifold
