/-
Helper lemmas for C18: the tetrahedron POVM resolves the identity for every number of qubits (Kronecker induction).
-/
import NumqiProofs.Catalogue

set_option linter.unusedSectionVars false

namespace Numqi.Catalogue
open Finset

variable {K : Type} [CommRing K]

theorem cmul_add_right (x y z : K × K) : cmul x (y + z) = cmul x y + cmul x z := by
  ext <;> simp [cmul] <;> ring

theorem cmul_sum_left {ι : Type} (s : Finset ι) (A : ι → K × K) (y : K × K) :
    cmul (∑ i ∈ s, A i) y = ∑ i ∈ s, cmul (A i) y := by
  classical
  induction s using Finset.induction_on with
  | empty => ext <;> simp [cmul]
  | insert i s hi ih =>
    rw [Finset.sum_insert hi, Finset.sum_insert hi, ← ih]
    ext <;> simp [cmul] <;> ring

theorem sum_range_mul4 {M : Type} [AddCommMonoid M] (f : ℕ → M) (m : ℕ) :
    ∑ k ∈ Finset.range (m * 4), f k = ∑ q ∈ Finset.range m, (f (4 * q) + f (4 * q + 1) + f (4 * q + 2) + f (4 * q + 3)) := by
  induction m with
  | zero => simp
  | succ m ih =>
    have : (m + 1) * 4 = m * 4 + 1 + 1 + 1 + 1 := by ring
    rw [this, Finset.sum_range_succ, Finset.sum_range_succ, Finset.sum_range_succ, Finset.sum_range_succ, ih,
      Finset.sum_range_succ]
    have e : m * 4 = 4 * m := by ring
    simp only [e, add_assoc]

/-- one qubit: `Σ_k M_k = 1` (needs only `4·quarter = 1`, `two = 2`, `3·third = 1`; the values of `a`, `b` do not matter) -/
theorem tetra1_sum (a b third quarter two : K) (h4 : 4 * quarter = 1) (h2 : two = 2) (h3 : 3 * third = 1)
    (r c : ℕ) (hr : r < 2) (hc : c < 2) :
    tetra1 a b third quarter two 0 r c + tetra1 a b third quarter two 1 r c + tetra1 a b third quarter two 2 r c
      + tetra1 a b third quarter two 3 r c = (if r = c then 1 else 0, 0) := by
  subst h2
  interval_cases r <;> interval_cases c <;> ext <;> simp [tetra1, tetraVec] <;>
    first | linear_combination h4 | linear_combination (quarter) * h3 | linear_combination (-quarter) * h3
          | linear_combination h4 + quarter * h3 | linear_combination h4 - quarter * h3 | ring

/-- **`get_tetrahedron_POVM(n)` resolves the identity for every `n`** -/
theorem tetraN_sum (a b third quarter two : K) (h4 : 4 * quarter = 1) (h2 : two = 2) (h3 : 3 * third = 1) :
    ∀ (n r c : ℕ), r < 2 ^ n → c < 2 ^ n →
      ∑ k ∈ Finset.range (4 ^ n), tetraN a b third quarter two n k r c = (if r = c then 1 else 0, 0) := by
  intro n
  induction n with
  | zero =>
    intro r c hr hc
    have : r = c := by simp at hr hc; omega
    simp [tetraN, this]
  | succ n ih =>
    intro r c hr hc
    rw [pow_succ, sum_range_mul4]
    have hr2 : r / 2 < 2 ^ n := by rw [pow_succ] at hr; omega
    have hc2 : c / 2 < 2 ^ n := by rw [pow_succ] at hc; omega
    have d0 : ∀ q, (4 * q) / 4 = q ∧ (4 * q) % 4 = 0 := fun q => by omega
    have d1 : ∀ q, (4 * q + 1) / 4 = q ∧ (4 * q + 1) % 4 = 1 := fun q => by omega
    have d2 : ∀ q, (4 * q + 2) / 4 = q ∧ (4 * q + 2) % 4 = 2 := fun q => by omega
    have d3 : ∀ q, (4 * q + 3) / 4 = q ∧ (4 * q + 3) % 4 = 3 := fun q => by omega
    simp only [tetraN, (d0 _).1, (d0 _).2, (d1 _).1, (d1 _).2, (d2 _).1, (d2 _).2, (d3 _).1, (d3 _).2]
    simp only [← cmul_add_right]
    rw [tetra1_sum a b third quarter two h4 h2 h3 (r % 2) (c % 2) (Nat.mod_lt _ (by norm_num)) (Nat.mod_lt _ (by norm_num)),
      ← cmul_sum_left, ih (r / 2) (c / 2) hr2 hc2]
    by_cases hrc : r = c
    · subst hrc; simp [cmul]
    · have : ¬ (r / 2 = c / 2 ∧ r % 2 = c % 2) := by omega
      by_cases h1 : r / 2 = c / 2
      · have h2' : ¬ (r % 2 = c % 2) := fun e => this ⟨h1, e⟩
        simp [cmul, hrc, h1, h2']
      · simp [cmul, hrc, h1]

end Numqi.Catalogue
