/-
Helper lemmas for C18: the complement projector of an orthonormal set of (product) vectors — idempotent, Hermitian,
trace `D - m`, positive semidefinite; its partial transpose is the complement projector of the vectors `u ⊗ conj v`.
-/
import NumqiProofs.Catalogue
import Mathlib.Data.Complex.Basic
import Mathlib.Data.Complex.BigOperators
import Mathlib.Data.List.GetD

set_option linter.unusedSectionVars false

namespace Numqi.Catalogue
open Finset

/-- complex conjugation for the model's `Conj` class -/
noncomputable instance instConjComplex : Numqi.Conj ℂ := ⟨starRingEnd ℂ⟩

theorem conj_def (z : ℂ) : Numqi.conj z = starRingEnd ℂ z := rfl

theorem sumRange_eq {M : Type} [AddCommMonoid M] (m : ℕ) (f : ℕ → M) : sumRange m f = ∑ a ∈ Finset.range m, f a := by
  unfold sumRange
  induction m with
  | zero => simp
  | succ m ih => rw [List.range_succ, List.foldl_append, ih, Finset.sum_range_succ]; rfl

/-- Hermitian inner product on `range D` -/
noncomputable def inner (D : ℕ) (x y : ℕ → ℂ) : ℂ := ∑ t ∈ Finset.range D, starRingEnd ℂ (x t) * y t

/-- orthonormality of the `m` vectors `w a` in dimension `D` -/
def Orthonormal (m D : ℕ) (w : ℕ → ℕ → ℂ) : Prop :=
  ∀ a < m, ∀ b < m, inner D (w a) (w b) = if a = b then 1 else 0

theorem upbProj_eq (m : ℕ) (w : ℕ → ℕ → ℂ) (r c : ℕ) :
    upbProj m w r c = ∑ a ∈ Finset.range m, w a r * starRingEnd ℂ (w a c) := by
  unfold upbProj; rw [sumRange_eq]; rfl

theorem upbProj_conj (m : ℕ) (w : ℕ → ℕ → ℂ) (r c : ℕ) :
    starRingEnd ℂ (upbProj m w r c) = upbProj m w c r := by
  rw [upbProj_eq, upbProj_eq, map_sum]
  refine Finset.sum_congr rfl fun a _ => ?_
  rw [map_mul, Complex.conj_conj]; ring

/-- `P² = P` -/
theorem upbProj_idem (m D : ℕ) (w : ℕ → ℕ → ℂ) (h : Orthonormal m D w) (r c : ℕ) :
    ∑ y ∈ Finset.range D, upbProj m w r y * upbProj m w y c = upbProj m w r c := by
  simp only [upbProj_eq]
  have : ∀ y, (∑ a ∈ Finset.range m, w a r * starRingEnd ℂ (w a y)) * (∑ b ∈ Finset.range m, w b y * starRingEnd ℂ (w b c))
      = ∑ a ∈ Finset.range m, ∑ b ∈ Finset.range m, w a r * starRingEnd ℂ (w b c) * (starRingEnd ℂ (w a y) * w b y) := by
    intro y
    rw [Finset.sum_mul_sum]
    refine Finset.sum_congr rfl fun a _ => Finset.sum_congr rfl fun b _ => by ring
  simp only [this]
  rw [Finset.sum_comm]
  refine Finset.sum_congr rfl fun a ha => ?_
  rw [Finset.sum_comm]
  have hb : ∀ b ∈ Finset.range m, ∑ y ∈ Finset.range D, w a r * starRingEnd ℂ (w b c) * (starRingEnd ℂ (w a y) * w b y)
      = w a r * starRingEnd ℂ (w b c) * (if a = b then 1 else 0) := by
    intro b hb
    rw [← Finset.mul_sum]
    congr 1
    exact h a (Finset.mem_range.mp ha) b (Finset.mem_range.mp hb)
  rw [Finset.sum_congr rfl hb]
  simp [Finset.mem_range.mp ha]

/-- `C² = C` for `C = 1 - P` (indices below `D`) -/
theorem upbCompl_idem (m D : ℕ) (w : ℕ → ℕ → ℂ) (h : Orthonormal m D w) (r c : ℕ) (hr : r < D) (hc : c < D) :
    ∑ y ∈ Finset.range D, upbCompl m w r y * upbCompl m w y c = upbCompl m w r c := by
  unfold upbCompl
  have e : ∀ y, ((if r = y then (1 : ℂ) else 0) - upbProj m w r y) * ((if y = c then (1 : ℂ) else 0) - upbProj m w y c)
      = (if r = y then (if y = c then (1 : ℂ) else 0) else 0) - (if r = y then upbProj m w y c else 0)
        - (if y = c then upbProj m w r y else 0) + upbProj m w r y * upbProj m w y c := by
    intro y; split_ifs <;> ring
  simp only [e, Finset.sum_add_distrib, Finset.sum_sub_distrib, upbProj_idem m D w h]
  simp [hr, hc]

theorem upbCompl_conj (m : ℕ) (w : ℕ → ℕ → ℂ) (r c : ℕ) :
    starRingEnd ℂ (upbCompl m w r c) = upbCompl m w c r := by
  unfold upbCompl
  rw [map_sub, upbProj_conj]
  congr 1
  split_ifs with h1 h2 h2 <;> simp_all

/-- trace of the complement projector: `D - m` -/
theorem upbCompl_trace (m D : ℕ) (w : ℕ → ℕ → ℂ) (h : Orthonormal m D w) :
    ∑ r ∈ Finset.range D, upbCompl m w r r = (D : ℂ) - (m : ℂ) := by
  unfold upbCompl
  simp only [if_true, Finset.sum_sub_distrib, Finset.sum_const, Finset.card_range, upbProj_eq]
  rw [Finset.sum_comm]
  have : ∀ a ∈ Finset.range m, ∑ r ∈ Finset.range D, w a r * starRingEnd ℂ (w a r) = 1 := by
    intro a ha
    have := h a (Finset.mem_range.mp ha) a (Finset.mem_range.mp ha)
    rw [if_pos rfl] at this
    rw [← this]; unfold inner
    refine Finset.sum_congr rfl fun r _ => by ring
  rw [Finset.sum_congr rfl this]
  simp

/-- quadratic (Hermitian) form on `range D` -/
noncomputable def hform (D : ℕ) (M : ℕ → ℕ → ℂ) (x : ℕ → ℂ) : ℂ :=
  ∑ r ∈ Finset.range D, ∑ c ∈ Finset.range D, starRingEnd ℂ (x r) * M r c * x c

/-- a Hermitian idempotent is positive semidefinite: `x† C x = Σ_y |Σ_c C_yc x_c|²` -/
theorem hform_of_idem (D : ℕ) (C : ℕ → ℕ → ℂ)
    (hid : ∀ r < D, ∀ c < D, ∑ y ∈ Finset.range D, C r y * C y c = C r c)
    (hherm : ∀ r c, starRingEnd ℂ (C r c) = C c r) (x : ℕ → ℂ) :
    hform D C x = ∑ y ∈ Finset.range D, ((Complex.normSq (∑ c ∈ Finset.range D, C y c * x c) : ℝ) : ℂ) := by
  unfold hform
  have e1 : ∀ y, ((Complex.normSq (∑ c ∈ Finset.range D, C y c * x c) : ℝ) : ℂ)
      = ∑ r ∈ Finset.range D, ∑ c ∈ Finset.range D, starRingEnd ℂ (x r) * (C r y * C y c) * x c := by
    intro y
    rw [Complex.normSq_eq_conj_mul_self, map_sum, Finset.sum_mul_sum]
    refine Finset.sum_congr rfl fun r _ => Finset.sum_congr rfl fun c _ => ?_
    rw [map_mul, hherm]; ring
  symm
  simp only [e1]
  rw [Finset.sum_comm]
  refine Finset.sum_congr rfl fun r hr => ?_
  rw [Finset.sum_comm]
  refine Finset.sum_congr rfl fun c hc => ?_
  rw [← hid r (Finset.mem_range.mp hr) c (Finset.mem_range.mp hc), Finset.mul_sum, Finset.sum_mul]

theorem hform_nonneg_of_idem (D : ℕ) (C : ℕ → ℕ → ℂ)
    (hid : ∀ r < D, ∀ c < D, ∑ y ∈ Finset.range D, C r y * C y c = C r c)
    (hherm : ∀ r c, starRingEnd ℂ (C r c) = C c r) (x : ℕ → ℂ) :
    0 ≤ (hform D C x).re ∧ (hform D C x).im = 0 := by
  rw [hform_of_idem D C hid hherm x]
  constructor
  · rw [Complex.re_sum]
    exact Finset.sum_nonneg fun y _ => by rw [Complex.ofReal_re]; exact Complex.normSq_nonneg _
  · rw [Complex.im_sum]
    exact Finset.sum_eq_zero fun y _ => Complex.ofReal_im _

/-! ### product vectors and the partial transpose -/

theorem sum_range_mul (dA dB : ℕ) (f : ℕ → ℂ) :
    ∑ x ∈ Finset.range (dA * dB), f x = ∑ i ∈ Finset.range dA, ∑ j ∈ Finset.range dB, f (i * dB + j) := by
  induction dA with
  | zero => simp
  | succ n ih => rw [Nat.succ_mul, Finset.sum_range_add, ih, Finset.sum_range_succ]

/-- the inner product of product vectors factorises -/
theorem inner_prodVec (dA dB : ℕ) (hB : 0 < dB) (u v : ℕ → ℕ → ℂ) (a b : ℕ) :
    inner (dA * dB) (prodVec dB u v a) (prodVec dB u v b) = inner dA (u a) (u b) * inner dB (v a) (v b) := by
  unfold inner
  rw [sum_range_mul, Finset.sum_mul_sum]
  refine Finset.sum_congr rfl fun i _ => Finset.sum_congr rfl fun j hj => ?_
  have hj' := Finset.mem_range.mp hj
  have h1 : (i * dB + j) / dB = i := by
    rw [Nat.add_comm, Nat.add_mul_div_right _ _ hB, Nat.div_eq_of_lt hj', Nat.zero_add]
  have h2 : (i * dB + j) % dB = j := by
    rw [Nat.add_comm, Nat.add_mul_mod_self_right, Nat.mod_eq_of_lt hj']
  simp only [prodVec, h1, h2, map_mul]; ring

theorem inner_conj (D : ℕ) (x y : ℕ → ℂ) :
    inner D (fun t => starRingEnd ℂ (x t)) (fun t => starRingEnd ℂ (y t)) = starRingEnd ℂ (inner D x y) := by
  unfold inner; rw [map_sum]
  refine Finset.sum_congr rfl fun t _ => by rw [map_mul]

theorem inner_self_conj (D : ℕ) (x : ℕ → ℂ) : starRingEnd ℂ (inner D x x) = inner D x x := by
  unfold inner; rw [map_sum]
  refine Finset.sum_congr rfl fun t _ => by rw [map_mul, Complex.conj_conj]; ring

/-- orthonormal product vectors stay orthonormal when the second factors are conjugated -/
theorem orthonormal_conj_right (m dA dB : ℕ) (hB : 0 < dB) (u v : ℕ → ℕ → ℂ)
    (h : Orthonormal m (dA * dB) (prodVec dB u v)) :
    Orthonormal m (dA * dB) (prodVec dB u (fun a t => starRingEnd ℂ (v a t))) := by
  intro a ha b hb
  have hab := h a ha b hb
  rw [inner_prodVec dA dB hB] at hab
  rw [inner_prodVec dA dB hB, inner_conj]
  by_cases e : a = b
  · subst e
    rw [inner_self_conj]; exact hab
  · rw [if_neg e] at hab ⊢
    rcases mul_eq_zero.mp hab with h0 | h0
    · rw [h0, zero_mul]
    · rw [h0, map_zero, mul_zero]

/-- **the partial transpose of the complement projector is the complement projector of `u ⊗ conj v`** -/
theorem ptB_upbCompl (m dB : ℕ) (hB : 0 < dB) (u v : ℕ → ℕ → ℂ) (r c : ℕ) :
    ptB dB (upbCompl m (prodVec dB u v)) r c = upbCompl m (prodVec dB u (fun a t => starRingEnd ℂ (v a t))) r c := by
  have hr1 : (r / dB * dB + c % dB) / dB = r / dB := by
    rw [Nat.add_comm, Nat.add_mul_div_right _ _ hB, Nat.div_eq_of_lt (Nat.mod_lt _ hB), Nat.zero_add]
  have hr2 : (r / dB * dB + c % dB) % dB = c % dB := by
    rw [Nat.add_comm, Nat.add_mul_mod_self_right, Nat.mod_mod]
  have hc1 : (c / dB * dB + r % dB) / dB = c / dB := by
    rw [Nat.add_comm, Nat.add_mul_div_right _ _ hB, Nat.div_eq_of_lt (Nat.mod_lt _ hB), Nat.zero_add]
  have hc2 : (c / dB * dB + r % dB) % dB = r % dB := by
    rw [Nat.add_comm, Nat.add_mul_mod_self_right, Nat.mod_mod]
  unfold ptB upbCompl
  congr 1
  · have : (r / dB * dB + c % dB = c / dB * dB + r % dB) ↔ r = c := by
      constructor
      · intro e
        have e1 := congrArg (· / dB) e
        have e2 := congrArg (· % dB) e
        simp only [hr1, hc1, hr2, hc2] at e1 e2
        rw [← Nat.div_add_mod r dB, ← Nat.div_add_mod c dB, e1, e2]
      · intro e; subst e; rfl
    by_cases e : r = c
    · rw [if_pos e, if_pos (this.mpr e)]
    · rw [if_neg e, if_neg (fun h => e (this.mp h))]
  · rw [upbProj_eq, upbProj_eq]
    refine Finset.sum_congr rfl fun a _ => ?_
    simp only [prodVec, hr1, hr2, hc1, hc2, map_mul, Complex.conj_conj]
    ring

/-! ### `get_upb_product` (`upbProductRow`, what the driver runs) is `prodVec` -/

theorem flatMap_map_getD {M : Type} [Mul M] [Zero M] (l v : List M) (hn : 0 < v.length) (i : ℕ)
    (hi : i < l.length * v.length) :
    (l.flatMap fun x => v.map fun y => x * y).getD i 0 = l.getD (i / v.length) 0 * v.getD (i % v.length) 0 := by
  induction l generalizing i with
  | nil => simp at hi
  | cons x l ih =>
    rw [List.flatMap_cons]
    by_cases h : i < v.length
    · rw [List.getD_append _ _ _ _ (by simpa using h), Nat.div_eq_of_lt h, Nat.mod_eq_of_lt h]
      simp [List.getD_eq_getElem?_getD, h]
    · have h' : v.length ≤ i := not_lt.mp h
      rw [List.getD_append_right _ _ _ _ (by simpa using h')]
      simp only [List.length_map]
      have hi' : i - v.length < l.length * v.length := by
        rw [List.length_cons, Nat.succ_mul] at hi; omega
      rw [ih (i - v.length) hi']
      have e1 : i / v.length = (i - v.length) / v.length + 1 := by
        rw [← Nat.sub_add_cancel h', Nat.add_div_right _ hn]; simp
      have e2 : i % v.length = (i - v.length) % v.length := by
        conv_lhs => rw [← Nat.sub_add_cancel h', Nat.add_mod_right]
      rw [e1, e2, List.getD_cons_succ]

/-- appending a party multiplies in a new last (fastest) index -/
theorem upbProductRow_append {M : Type} [Mul M] [One M] (rows : List (List M)) (v : List M) :
    upbProductRow (rows ++ [v]) = (upbProductRow rows).flatMap fun x => v.map fun y => x * y := by
  unfold upbProductRow; rw [List.foldl_append]; rfl

theorem upbProductRow_length {M : Type} [Mul M] [One M] (rows : List (List M)) :
    (upbProductRow rows).length = (rows.map List.length).foldl (· * ·) 1 := by
  induction rows using List.reverseRecOn with
  | nil => rfl
  | append_singleton rows v ih =>
    rw [upbProductRow_append, List.length_flatMap]
    simp only [List.length_map, List.map_const', List.sum_replicate, smul_eq_mul, List.map_append, List.map_cons, List.map_nil,
      List.foldl_append, List.foldl_cons, List.foldl_nil, ih]

/-- **bridge**: the entries of the driver's product vector of two parties are those of `prodVec` -/
theorem upbProductRow_two {M : Type} [MonoidWithZero M] (u v : List M) (hv : 0 < v.length) (x : ℕ) (hx : x < u.length * v.length) :
    (upbProductRow [u, v]).getD x 0 = prodVec v.length (fun _ t => u.getD t 0) (fun _ t => v.getD t 0) 0 x := by
  have e : upbProductRow [u, v] = u.flatMap fun a => v.map fun y => a * y := by
    have := upbProductRow_append [u] v
    simp only [List.singleton_append] at this
    rw [this]
    have h1 : upbProductRow [u] = u := by simp [upbProductRow]
    rw [h1]
  rw [e, flatMap_map_getD u v hv x hx]; rfl

/-- … and for any number of parties, one party at a time: the last party carries the fastest index -/
theorem upbProductRow_step {M : Type} [MonoidWithZero M] (rows : List (List M)) (v : List M) (hv : 0 < v.length) (x : ℕ)
    (hx : x < (upbProductRow rows).length * v.length) :
    (upbProductRow (rows ++ [v])).getD x 0
      = prodVec v.length (fun _ t => (upbProductRow rows).getD t 0) (fun _ t => v.getD t 0) 0 x := by
  rw [upbProductRow_append, flatMap_map_getD _ v hv x hx]; rfl

end Numqi.Catalogue
