/- C02: the real Cayley chart of SO(d) has full rank at every theta (linear placement + Cayley differential everywhere). -/
import NumqiProofs.ManifoldPlacement
import NumqiProofs.ManifoldDiff
import Mathlib.Analysis.Matrix.Normed
namespace Numqi.Manifold
open Matrix
open Numqi.Gellmann (Scalars synthesis)
open scoped Matrix.Norms.Operator

variable {dim : Nat}

/-- a finite parameter vector extended by zero -/
def extZero {n : Nat} (t : Fin n → ℝ) : Nat → ℝ := fun p => if h : p < n then t ⟨p, h⟩ else 0

theorem genVecR_add (θ θ' : Nat → ℝ) (p : Nat) : genVecR dim (fun q => θ q + θ' q) p = genVecR dim θ p + genVecR dim θ' p := by
  unfold genVecR; split_ifs <;> simp

theorem genVecR_smul (c : ℝ) (θ : Nat → ℝ) (p : Nat) : genVecR dim (fun q => c * θ q) p = (c : ℂ) * genVecR dim θ p := by
  unfold genVecR; split_ifs <;> simp

theorem synthesis_add (S : Scalars ℂ) (hd : 1 ≤ dim) (v w : Nat → ℂ) :
    synthesis S dim (fun p => v p + w p) = fun r c => synthesis S dim v r c + synthesis S dim w r c := by
  have h := Gellmann.synthesis_eq_sum' S hd (fun p => v p + w p)
  have hv := Gellmann.synthesis_eq_sum' S hd v
  have hw := Gellmann.synthesis_eq_sum' S hd w
  have : Matrix.of (synthesis S dim fun p => v p + w p) = Matrix.of (synthesis S dim v) + Matrix.of (synthesis S dim w) := by
    rw [h, hv, hw, ← Finset.sum_add_distrib]; exact Finset.sum_congr rfl (fun a _ => add_smul _ _ _)
  funext r c
  exact congrFun (congrFun this r) c

theorem synthesis_smul (S : Scalars ℂ) (hd : 1 ≤ dim) (k : ℂ) (v : Nat → ℂ) :
    synthesis S dim (fun p => k * v p) = fun r c => k * synthesis S dim v r c := by
  have h := Gellmann.synthesis_eq_sum' S hd (fun p => k * v p)
  have hv := Gellmann.synthesis_eq_sum' S hd v
  have : Matrix.of (synthesis S dim fun p => k * v p) = k • Matrix.of (synthesis S dim v) := by
    rw [h, hv, Finset.smul_sum]; exact Finset.sum_congr rfl (fun a _ => by rw [smul_smul])
  funext r c
  exact congrFun (congrFun this r) c

/-- the real placement `θ ↦ generator` as an `ℝ`-linear map on `ℝ^n`, `n = d(d-1)/2` -/
noncomputable def genLin (S : Scalars ℂ) (hd : 1 ≤ dim) : (Fin (dim * (dim - 1) / 2) → ℝ) →ₗ[ℝ] Matrix (Fin dim) (Fin dim) ℂ where
  toFun t := toM dim dim (soGenerator S dim true (extZero t))
  map_add' t t' := by
    rw [toM_soGenerator_real, toM_soGenerator_real, toM_soGenerator_real]
    have e : (extZero (t + t')) = fun q => extZero t q + extZero t' q := by
      funext q; unfold extZero; split_ifs <;> simp
    have e2 : genVecR dim (extZero (t + t')) = fun p => genVecR dim (extZero t) p + genVecR dim (extZero t') p := by
      funext p; rw [e]; exact genVecR_add _ _ p
    ext r c
    simp only [Matrix.of_apply, Matrix.add_apply, e2, synthesis_add S hd]
    simp
  map_smul' k t := by
    rw [toM_soGenerator_real, toM_soGenerator_real]
    have e : (extZero (k • t)) = fun q => k * extZero t q := by
      funext q; unfold extZero; split_ifs <;> simp
    have e2 : genVecR dim (extZero (k • t)) = fun p => (k : ℂ) * genVecR dim (extZero t) p := by
      funext p; rw [e]; exact genVecR_smul k _ p
    ext r c
    simp only [Matrix.of_apply, Matrix.smul_apply, e2, synthesis_smul S hd, RingHom.id_apply]
    simp

theorem genLin_injective (S : Scalars ℂ) (hS : S.Valid dim) (hd : 1 ≤ dim) : Function.Injective (genLin S hd) := by
  intro t t' h
  funext p
  have := soGenerator_real_injective S hS hd (extZero t) (extZero t') h p.val p.isLt
  simpa [extZero, p.isLt] using this

/-- **the real Cayley chart of SO(d) (order 1) has full rank `d(d-1)/2` at EVERY θ**: `θ ↦ cayley(generator θ)` is differentiable on all of
`ℝ^{d(d-1)/2}` with injective differential `δ ↦ -2 (1+A)⁻¹ gen(δ) (1+A)⁻¹` -/
theorem soCayley_real_full_rank' (S : Scalars ℂ) (hS : S.Valid dim) (hd : 1 ≤ dim) (θ : Fin (dim * (dim - 1) / 2) → ℝ) :
    ∃ D : (Fin (dim * (dim - 1) / 2) → ℝ) →L[ℝ] Matrix (Fin dim) (Fin dim) ℂ,
      HasFDerivAt (fun t => cayleyMap (LinearMap.toContinuousLinearMap (genLin S hd) t)) D θ ∧ Function.Injective D := by
  set P := LinearMap.toContinuousLinearMap (genLin S hd) with hP
  have hPinj : Function.Injective P := genLin_injective S hS hd
  have hsk : (P θ)ᴴ = -(P θ) := soGenerator_skew S hS hd true (extZero θ)
  have hunit : IsUnit (1 + P θ) := (Matrix.isUnit_iff_isUnit_det _).2 (isUnit_one_add_of_skew _ hsk)
  obtain ⟨u, hu⟩ := hunit
  obtain ⟨h1, h2⟩ := cayley_chart_full_rank P hPinj θ u hu
  exact ⟨_, h1, h2⟩

end Numqi.Manifold
