/-
C09: the enumeration `allTuples n` (the `itertools.product(*[range(b) for b in base])` loop used by
`get_pauli_subset_equivalent` / `get_pauli_subset_stabilizer`) lists exactly the in-range tuples of length `n`.
-/
import NumqiProofs.SpF2Index

namespace Numqi.SpF2

theorem inRange_append (t : List (Nat × Nat)) (a b : Nat) :
    inRange (t ++ [(a, b)]) = true ↔
      (a < 4 ^ (t.length + 1) - 1 ∧ b < 4 ^ (t.length + 1) / 2) ∧ inRange t = true := by
  simp only [inRange, List.reverse_append, List.reverse_singleton, List.singleton_append, inRangeRev,
    List.length_reverse, Bool.and_eq_true, decide_eq_true_eq]

theorem mem_allTuples_iff (n : Nat) (t : List (Nat × Nat)) :
    t ∈ allTuples n ↔ t.length = n ∧ inRange t = true := by
  induction n generalizing t with
  | zero =>
    simp only [allTuples, List.mem_singleton]
    constructor
    · rintro rfl; exact ⟨rfl, rfl⟩
    · rintro ⟨h, _⟩; exact List.length_eq_zero_iff.1 h
  | succ n ih =>
    simp only [allTuples, List.mem_flatMap, List.mem_map, List.mem_range]
    constructor
    · rintro ⟨t', ht', a, ha, b, hb, rfl⟩
      obtain ⟨h1, h2⟩ := (ih t').1 ht'
      refine ⟨by simp [h1], ?_⟩
      rw [inRange_append, h1]
      exact ⟨⟨ha, hb⟩, h2⟩
    · rintro ⟨hlen, hr⟩
      rcases List.eq_nil_or_concat t with rfl | ⟨t', p, rfl⟩
      · simp at hlen
      · obtain ⟨a, b⟩ := p
        have hlen' : t'.length = n := by simpa using hlen
        rw [List.concat_eq_append, inRange_append, hlen'] at hr
        exact ⟨t', (ih t').2 ⟨hlen', hr.2⟩, a, hr.1.1, b, hr.1.2, by rw [List.concat_eq_append]⟩

end Numqi.SpF2
