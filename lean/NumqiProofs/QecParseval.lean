/-
C19: the Pauli operators `X^x Z^z` (`x, z < 2^n`) form an orthogonal operator basis — the Parseval
identity behind the weight-enumerator sum rules.
-/
import NumqiProofs.QecPauliAct

namespace Numqi.Qec
variable {R : Type} [CommRing R]

/-- `(-1)^b` -/
def sg (b : Bool) : R := if b then -1 else 1

theorem sg_mul (a b : Bool) : (sg a : R) * sg b = sg (a ^^ b) := by
  cases a <;> cases b <;> simp [sg]

theorem sum_range_const_one (N : Nat) : (∑ _i ∈ Finset.range N, (1 : R)) = N := by simp

/-- character sum: `Σ_{z<2^n} (-1)^{z·m} = 2^n [m = 0]` -/
theorem char_sum (h2 : ∀ a b : R, 2 * a = 2 * b → a = b) (n m : Nat) (hm : m < 2 ^ n) (hn : n ≤ 32) :
    ∑ z ∈ Finset.range (2 ^ n), (sg (par (z &&& m)) : R) = if m = 0 then 2 ^ n else 0 := by
  by_cases h0 : m = 0
  · subst h0; simp [sg]
  · simp only [h0, if_false]
    -- some bit q < n of m is set
    obtain ⟨q, hq⟩ : ∃ q, m.testBit q = true := by
      by_contra hc
      simp only [not_exists, Bool.not_eq_true] at hc
      apply h0
      apply Nat.eq_of_testBit_eq
      intro i; simp [hc i]
    have hqn : q < n := by
      by_contra hc
      have : m < 2 ^ q := lt_of_lt_of_le hm (Nat.pow_le_pow_right (by norm_num) (by omega))
      rw [Nat.testBit_lt_two_pow this] at hq; exact Bool.false_ne_true hq
    have hflip := sum_xor (R := R) (bit q) (bit_lt hqn) (fun z => sg (par (z &&& m)))
    have : ∀ z, (sg (par ((z ^^^ bit q) &&& m)) : R) = - sg (par (z &&& m)) := by
      intro z
      rw [par_fl_and _ _ (by omega : q < 32), hq]
      cases par (z &&& m) <;> simp [sg]
    simp only [this, Finset.sum_neg_distrib] at hflip
    apply h2
    rw [mul_zero, two_mul]
    nth_rewrite 1 [← hflip]
    ring

variable [StarRing R]

theorem star_sg (b : Bool) : star (sg b : R) = sg b := by cases b <;> simp [sg]

/-- matrix element of `X^x Z^z` between two vectors, spelled out -/
theorem ip_pauliAct_zero {I : R} (hI : I * I = -1) (n x z : Nat) (u v : Nat → R) :
    ip n u (pauliAct I ⟨0, x, z⟩ v)
      = ∑ i ∈ Finset.range (2 ^ n), star (u i) * (sg (par (z &&& (i ^^^ x))) * v (i ^^^ x)) := by
  unfold ip
  apply Finset.sum_congr rfl
  intro i _
  simp only [pauliAct, Nat.zero_add]
  congr 2
  cases par (z &&& (i ^^^ x)) <;> simp [sg, ipow, hI]

/-- **Parseval identity for the Pauli basis**:
`Σ_{x,z<2^n} conj⟨u|X^xZ^z|v⟩ · ⟨w|X^xZ^z|y⟩ = 2^n ⟨w|u⟩ ⟨v|y⟩`. -/
theorem pauli_parseval {I : R} (hI : I * I = -1) (h2 : ∀ a b : R, 2 * a = 2 * b → a = b) (n : Nat) (hn : n ≤ 32)
    (u v w y : Nat → R) :
    ∑ x ∈ Finset.range (2 ^ n), ∑ z ∈ Finset.range (2 ^ n),
        star (ip n u (pauliAct I ⟨0, x, z⟩ v)) * ip n w (pauliAct I ⟨0, x, z⟩ y)
      = 2 ^ n * (ip n w u * ip n v y) := by
  have hterm : ∀ x ∈ Finset.range (2 ^ n),
      ∑ z ∈ Finset.range (2 ^ n), star (ip n u (pauliAct I ⟨0, x, z⟩ v)) * ip n w (pauliAct I ⟨0, x, z⟩ y)
        = 2 ^ n * ∑ i ∈ Finset.range (2 ^ n), (star (w i) * u i) * (star (v (i ^^^ x)) * y (i ^^^ x)) := by
    intro x hx
    rw [Finset.mem_range] at hx
    -- expand both matrix elements, exchange the sums, do the z-sum first
    have e1 : ∀ z, star (ip n u (pauliAct I ⟨0, x, z⟩ v)) * ip n w (pauliAct I ⟨0, x, z⟩ y)
        = ∑ i ∈ Finset.range (2 ^ n), ∑ j ∈ Finset.range (2 ^ n),
            (u i * star (v (i ^^^ x)) * (star (w j) * y (j ^^^ x))) * sg (par (z &&& (i ^^^ j))) := by
      intro z
      rw [ip_pauliAct_zero hI, ip_pauliAct_zero hI, star_sum, Finset.sum_mul_sum]
      apply Finset.sum_congr rfl; intro i _
      apply Finset.sum_congr rfl; intro j _
      simp only [star_mul, star_star, star_sg]
      have hx' : (i ^^^ x) ^^^ (j ^^^ x) = i ^^^ j := by
        apply Nat.eq_of_testBit_eq; intro k; simp only [Nat.testBit_xor]
        cases i.testBit k <;> cases j.testBit k <;> cases x.testBit k <;> rfl
      have hs : (sg (par (z &&& (i ^^^ x))) : R) * sg (par (z &&& (j ^^^ x))) = sg (par (z &&& (i ^^^ j))) := by
        rw [sg_mul, ← par_xor, ← Nat.and_xor_distrib_left, hx']
      rw [← hs]; ring
    simp only [e1]
    rw [Finset.sum_comm]
    have e2 : ∀ i ∈ Finset.range (2 ^ n),
        ∑ z ∈ Finset.range (2 ^ n), ∑ j ∈ Finset.range (2 ^ n),
            (u i * star (v (i ^^^ x)) * (star (w j) * y (j ^^^ x))) * sg (par (z &&& (i ^^^ j)))
          = 2 ^ n * ((star (w i) * u i) * (star (v (i ^^^ x)) * y (i ^^^ x))) := by
      intro i hi
      rw [Finset.mem_range] at hi
      rw [Finset.sum_comm]
      have e3 : ∀ j ∈ Finset.range (2 ^ n),
          ∑ z ∈ Finset.range (2 ^ n), (u i * star (v (i ^^^ x)) * (star (w j) * y (j ^^^ x))) * sg (par (z &&& (i ^^^ j)))
            = (u i * star (v (i ^^^ x)) * (star (w j) * y (j ^^^ x))) * (if i = j then 2 ^ n else 0) := by
        intro j hj
        rw [Finset.mem_range] at hj
        rw [← Finset.mul_sum, char_sum h2 n (i ^^^ j) (Nat.xor_lt_two_pow hi hj) hn]
        congr 1
        by_cases hij : i = j
        · subst hij; simp
        · have : i ^^^ j ≠ 0 := fun e => hij (Nat.eq_of_testBit_eq (fun k => by
            have := congrArg (fun m => m.testBit k) e
            simp only [Nat.testBit_xor, Nat.zero_testBit] at this
            revert this; cases i.testBit k <;> cases j.testBit k <;> simp))
          simp [hij, this]
      rw [Finset.sum_congr rfl e3, Finset.sum_eq_single i]
      · simp; ring
      · intro j _ hj; simp [Ne.symm hj]
      · intro hni; exact absurd (Finset.mem_range.2 hi) hni
    rw [Finset.sum_congr rfl e2, ← Finset.mul_sum]
  rw [Finset.sum_congr rfl hterm, ← Finset.mul_sum, Finset.sum_comm]
  congr 1
  -- Σ_i (star w_i u_i) Σ_x star(v_{i^x}) y_{i^x}
  have e4 : ∀ i ∈ Finset.range (2 ^ n),
      ∑ x ∈ Finset.range (2 ^ n), (star (w i) * u i) * (star (v (i ^^^ x)) * y (i ^^^ x))
        = (star (w i) * u i) * ip n v y := by
    intro i hi
    rw [Finset.mem_range] at hi
    rw [← Finset.mul_sum]
    congr 1
    have := sum_xor (R := R) i hi (fun k => star (v k) * y k)
    unfold ip
    rw [← this]
    apply Finset.sum_congr rfl; intro x _
    simp only [Nat.xor_comm]
  rw [Finset.sum_congr rfl e4, ← Finset.sum_mul]
  rfl

/-- **sum rules of the weight enumerators** for `K` pairwise orthogonal vectors of squared norm `N`
(sums over the whole Pauli basis `X^x Z^z`, `x,z < 2^n`, identity included):
`Σ_P |Σ_a ⟨c_a|P|c_a⟩|² = 2^n K N²` and `Σ_P Σ_ab |⟨c_a|P|c_b⟩|² = 2^n K² N²`
(with `A_j`, `B_j` normalised as in `quantum_weight_enumerator` and `N = 1`: `Σ_j A_j = 2^n/K`, `Σ_j B_j = 2^n K`). -/
theorem enumerator_sum_rules {I : R} (hI : I * I = -1) (h2 : ∀ a b : R, 2 * a = 2 * b → a = b) (n : Nat) (hn : n ≤ 32)
    (K : Nat) (N : R) (c : Nat → Nat → R)
    (horth : ∀ a < K, ∀ b < K, ip n (c a) (c b) = if a = b then N else 0) :
    (∑ x ∈ Finset.range (2 ^ n), ∑ z ∈ Finset.range (2 ^ n),
        star (∑ a ∈ Finset.range K, ip n (c a) (pauliAct I ⟨0, x, z⟩ (c a)))
          * (∑ a ∈ Finset.range K, ip n (c a) (pauliAct I ⟨0, x, z⟩ (c a)))) = 2 ^ n * (K * (N * N))
    ∧ (∑ x ∈ Finset.range (2 ^ n), ∑ z ∈ Finset.range (2 ^ n), ∑ a ∈ Finset.range K, ∑ b ∈ Finset.range K,
        star (ip n (c a) (pauliAct I ⟨0, x, z⟩ (c b))) * ip n (c a) (pauliAct I ⟨0, x, z⟩ (c b)))
        = 2 ^ n * (K * K * (N * N)) := by
  constructor
  · have e : ∀ x z, star (∑ a ∈ Finset.range K, ip n (c a) (pauliAct I ⟨0, x, z⟩ (c a)))
          * (∑ a ∈ Finset.range K, ip n (c a) (pauliAct I ⟨0, x, z⟩ (c a)))
        = ∑ a ∈ Finset.range K, ∑ b ∈ Finset.range K,
            star (ip n (c a) (pauliAct I ⟨0, x, z⟩ (c a))) * ip n (c b) (pauliAct I ⟨0, x, z⟩ (c b)) := by
      intro x z; rw [star_sum, Finset.sum_mul_sum]
    simp only [e]
    -- bring the sums over a, b outside
    have sw : ∀ (f : Nat → Nat → Nat → Nat → R),
        ∑ x ∈ Finset.range (2 ^ n), ∑ z ∈ Finset.range (2 ^ n), ∑ a ∈ Finset.range K, ∑ b ∈ Finset.range K, f x z a b
          = ∑ a ∈ Finset.range K, ∑ b ∈ Finset.range K, ∑ x ∈ Finset.range (2 ^ n), ∑ z ∈ Finset.range (2 ^ n), f x z a b := by
      intro f
      calc _ = ∑ x ∈ Finset.range (2 ^ n), ∑ a ∈ Finset.range K, ∑ z ∈ Finset.range (2 ^ n), ∑ b ∈ Finset.range K, f x z a b := by
            apply Finset.sum_congr rfl; intro x _; rw [Finset.sum_comm]
        _ = ∑ a ∈ Finset.range K, ∑ x ∈ Finset.range (2 ^ n), ∑ z ∈ Finset.range (2 ^ n), ∑ b ∈ Finset.range K, f x z a b := by
            rw [Finset.sum_comm]
        _ = ∑ a ∈ Finset.range K, ∑ x ∈ Finset.range (2 ^ n), ∑ b ∈ Finset.range K, ∑ z ∈ Finset.range (2 ^ n), f x z a b := by
            apply Finset.sum_congr rfl; intro a _; apply Finset.sum_congr rfl; intro x _; rw [Finset.sum_comm]
        _ = _ := by
            apply Finset.sum_congr rfl; intro a _; rw [Finset.sum_comm]
    rw [sw]
    have e5 : ∀ a ∈ Finset.range K, ∀ b ∈ Finset.range K,
        ∑ x ∈ Finset.range (2 ^ n), ∑ z ∈ Finset.range (2 ^ n),
          star (ip n (c a) (pauliAct I ⟨0, x, z⟩ (c a))) * ip n (c b) (pauliAct I ⟨0, x, z⟩ (c b))
        = 2 ^ n * (if a = b then N * N else 0) := by
      intro a ha b hb
      rw [Finset.mem_range] at ha hb
      rw [pauli_parseval hI h2 n hn, horth b hb a ha, horth a ha b hb]
      by_cases hab : a = b
      · subst hab; simp
      · have : ¬ (b = a) := fun e => hab e.symm
        simp [hab, this]
    rw [Finset.sum_congr rfl (fun a ha => Finset.sum_congr rfl (fun b hb => e5 a ha b hb))]
    simp only [← Finset.mul_sum, Finset.sum_ite_eq, Finset.mem_range]
    congr 1
    rw [Finset.sum_congr rfl (fun a ha => by rw [if_pos (Finset.mem_range.1 ha)])]
    simp
  · have sw : ∀ (f : Nat → Nat → Nat → Nat → R),
        ∑ x ∈ Finset.range (2 ^ n), ∑ z ∈ Finset.range (2 ^ n), ∑ a ∈ Finset.range K, ∑ b ∈ Finset.range K, f x z a b
          = ∑ a ∈ Finset.range K, ∑ b ∈ Finset.range K, ∑ x ∈ Finset.range (2 ^ n), ∑ z ∈ Finset.range (2 ^ n), f x z a b := by
      intro f
      calc _ = ∑ x ∈ Finset.range (2 ^ n), ∑ a ∈ Finset.range K, ∑ z ∈ Finset.range (2 ^ n), ∑ b ∈ Finset.range K, f x z a b := by
            apply Finset.sum_congr rfl; intro x _; rw [Finset.sum_comm]
        _ = ∑ a ∈ Finset.range K, ∑ x ∈ Finset.range (2 ^ n), ∑ z ∈ Finset.range (2 ^ n), ∑ b ∈ Finset.range K, f x z a b := by
            rw [Finset.sum_comm]
        _ = ∑ a ∈ Finset.range K, ∑ x ∈ Finset.range (2 ^ n), ∑ b ∈ Finset.range K, ∑ z ∈ Finset.range (2 ^ n), f x z a b := by
            apply Finset.sum_congr rfl; intro a _; apply Finset.sum_congr rfl; intro x _; rw [Finset.sum_comm]
        _ = _ := by
            apply Finset.sum_congr rfl; intro a _; rw [Finset.sum_comm]
    rw [sw]
    have e5 : ∀ a ∈ Finset.range K, ∀ b ∈ Finset.range K,
        ∑ x ∈ Finset.range (2 ^ n), ∑ z ∈ Finset.range (2 ^ n),
          star (ip n (c a) (pauliAct I ⟨0, x, z⟩ (c b))) * ip n (c a) (pauliAct I ⟨0, x, z⟩ (c b))
        = 2 ^ n * (N * N) := by
      intro a ha b hb
      rw [Finset.mem_range] at ha hb
      rw [pauli_parseval hI h2 n hn, horth a ha a ha, horth b hb b hb]
      simp
    rw [Finset.sum_congr rfl (fun a ha => Finset.sum_congr rfl (fun b hb => e5 a ha b hb))]
    simp only [Finset.sum_const, Finset.card_range, nsmul_eq_mul]
    ring

end Numqi.Qec
