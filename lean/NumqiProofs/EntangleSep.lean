/-
Helper lemmas and specification-side definitions for the mathematics layer of C05/C13:
digits of a flat index in a three-block shape, separable mixtures on flat indices, positive semidefiniteness of
mixtures of rank-one projectors, Cauchy–Schwarz as a matrix inequality.
-/
import NumqiProofs.EntangleIndex
import Mathlib.LinearAlgebra.Matrix.PosDef
import Mathlib.Analysis.Matrix.Order
import Mathlib.Analysis.Complex.Order

namespace Numqi.Ent
open scoped ComplexOrder Kronecker
open Matrix

/-- `j`-th digit of the flat index `r` in the three-block shape `[a,d,b]` -/
def dig (a d b r j : Nat) : Nat := (unflat [a, d, b] r).getD j 0

theorem list3_eq (l : List Nat) (h : l.length = 3) : l = [l.getD 0 0, l.getD 1 0, l.getD 2 0] := by
  match l, h with
  | [x, y, z], _ => rfl

theorem flat_dig {a d b r : Nat} (h : r < a * d * b) :
    flat [a, d, b] [dig a d b r 0, dig a d b r 1, dig a d b r 2] = r := by
  rw [← prodL3] at h
  have h1 := (unflat_inShape _ _ h).length_eq
  have h2 := flat_unflat _ _ h
  have h3 := list3_eq (unflat [a, d, b] r) (by simpa using h1)
  rw [h3] at h2
  exact h2

theorem dig_lt {a d b r : Nat} (h : r < a * d * b) :
    dig a d b r 0 < a ∧ dig a d b r 1 < d ∧ dig a d b r 2 < b := by
  rw [← prodL3] at h
  have h1 := unflat_inShape _ _ h
  have g0 := h1.getD_lt 0 (by simp)
  have g1 := h1.getD_lt 1 (by simp)
  have g2 := h1.getD_lt 2 (by simp)
  exact ⟨g0, g1, g2⟩

theorem dig_flat {a d b x0 x1 x2 : Nat} (h0 : x0 < a) (h1 : x1 < d) (h2 : x2 < b) :
    dig a d b (flat [a, d, b] [x0, x1, x2]) 0 = x0 ∧ dig a d b (flat [a, d, b] [x0, x1, x2]) 1 = x1
      ∧ dig a d b (flat [a, d, b] [x0, x1, x2]) 2 = x2 := by
  simp [dig, unflat_flat (inShape3 h0 h1 h2)]

theorem posSemidef_mixture {n K : Type} [Fintype n] [Fintype K] (p : K → ℝ) (hp : ∀ k, 0 ≤ p k) (φ : K → n → ℂ) :
    (Matrix.of fun i j => ∑ k, (p k : ℂ) * φ k i * star (φ k j)).PosSemidef := by
  have : (Matrix.of fun i j => ∑ k, (p k : ℂ) * φ k i * star (φ k j))
      = ∑ k, (p k : ℂ) • vecMulVec (φ k) (star (φ k)) := by
    ext i j
    simp [Matrix.sum_apply, vecMulVec_apply, mul_assoc]
  rw [this]
  refine posSemidef_sum _ fun k _ => ?_
  exact (posSemidef_vecMulVec_self_star (φ k)).smul (by exact_mod_cast hp k)

/-- Cauchy–Schwarz as a matrix inequality: `‖u‖²·1 − u uᴴ ⪰ 0` -/
theorem posSemidef_normSq_sub_rankOne {m : Type} [Fintype m] [DecidableEq m] (u : m → ℂ) :
    ((∑ i, u i * star (u i)) • (1 : Matrix m m ℂ) - vecMulVec u (star u)).PosSemidef := by
  have hc : (∑ i, u i * star (u i)) = ((∑ i, ‖u i‖ ^ 2 : ℝ) : ℂ) := by
    push_cast
    refine Finset.sum_congr rfl fun i _ => ?_
    rw [Complex.star_def, Complex.mul_conj']
  refine PosSemidef.of_dotProduct_mulVec_nonneg ?_ fun x => ?_
  · refine IsHermitian.sub ?_ ?_
    · rw [hc, IsHermitian, conjTranspose_smul, conjTranspose_one]
      simp
    · exact (posSemidef_vecMulVec_self_star u).1
  · have e1 : star x ⬝ᵥ (((∑ i, u i * star (u i)) • (1 : Matrix m m ℂ) - vecMulVec u (star u)) *ᵥ x)
        = (∑ i, u i * star (u i)) * (star x ⬝ᵥ x) - (star x ⬝ᵥ u) * (star u ⬝ᵥ x) := by
      rw [sub_mulVec, dotProduct_sub, smul_mulVec, one_mulVec, dotProduct_smul, smul_eq_mul,
        vecMulVec_mulVec, dotProduct_smul]
      simp [mul_comm]
    rw [e1]
    have e2 : star x ⬝ᵥ x = ((∑ i, ‖x i‖ ^ 2 : ℝ) : ℂ) := by
      push_cast
      simp only [dotProduct, Pi.star_apply]
      refine Finset.sum_congr rfl fun i _ => ?_
      rw [Complex.star_def, mul_comm, Complex.mul_conj']
    have e3 : (star x ⬝ᵥ u) * (star u ⬝ᵥ x) = ((‖star u ⬝ᵥ x‖ ^ 2 : ℝ) : ℂ) := by
      have : star x ⬝ᵥ u = star (star u ⬝ᵥ x) := by
        simp [dotProduct, star_sum, mul_comm]
      rw [this, Complex.star_def, mul_comm, Complex.mul_conj']
      push_cast; rfl
    rw [hc, e2, e3, ← Complex.ofReal_mul, ← Complex.ofReal_sub]
    rw [Complex.zero_le_real, sub_nonneg]
    calc ‖star u ⬝ᵥ x‖ ^ 2 ≤ (∑ i, ‖u i‖ * ‖x i‖) ^ 2 := by
          gcongr
          simp only [dotProduct, Pi.star_apply]
          refine (norm_sum_le _ _).trans (le_of_eq ?_)
          refine Finset.sum_congr rfl fun i _ => ?_
          rw [norm_mul, norm_star]
      _ ≤ (∑ i, ‖u i‖ ^ 2) * (∑ i, ‖x i‖ ^ 2) := Finset.sum_mul_sq_le_sq_mul_sq _ _ _

/-- the product vector `ψ[(x0,x1,x2)] = u[x0,x2]·v[x1]` on flat indices -/
def sepBlockVec (a d b : Nat) (u : Nat → Nat → ℂ) (v : Nat → ℂ) (r : Nat) : ℂ :=
  u (dig a d b r 0) (dig a d b r 2) * v (dig a d b r 1)

theorem sepBlockVec_flat {a d b : Nat} (u : Nat → Nat → ℂ) (v : Nat → ℂ) {x0 x1 x2 : Nat}
    (h0 : x0 < a) (h1 : x1 < d) (h2 : x2 < b) :
    sepBlockVec a d b u v (flat [a, d, b] [x0, x1, x2]) = u x0 x2 * v x1 := by
  obtain ⟨e0, e1, e2⟩ := dig_flat h0 h1 h2
  simp [sepBlockVec, e0, e1, e2]

/-- flat read-out of `Σ_k p_k ψ_k ψ_kᴴ` -/
def mixture {K : Type} [Fintype K] (p : K → ℝ) (ψ : K → Nat → ℂ) : Nat → Nat → ℂ :=
  fun r c => ∑ k, (p k : ℂ) * ψ k r * star (ψ k c)

def prodVec (dim : List Nat) (w : Nat → Nat → ℂ) (r : Nat) : ℂ :=
  ((List.range dim.length).map fun j => w j ((unflat dim r).getD j 0)).prod

theorem prodVec_flat {dim x : List Nat} (hx : InShape x dim) (w : Nat → Nat → ℂ) :
    prodVec dim w (flat dim x) = ((List.range dim.length).map fun j => w j (x.getD j 0)).prod := by
  simp [prodVec, unflat_flat hx]

/-- the "rest" factor of a product vector seen from party `i` -/
def restVec (dim : List Nat) (i : Nat) (w : Nat → Nat → ℂ) (x0 x2 : Nat) : ℂ :=
  ((List.range i).map fun j => w j ((unflat (dim.take i) x0).getD j 0)).prod *
  ((List.range (dim.length - (i + 1))).map fun j => w (i + 1 + j) ((unflat (dim.drop (i + 1)) x2).getD j 0)).prod

theorem unflat_length (shape : List Nat) (k : Nat) : (unflat shape k).length = shape.length := by
  induction shape generalizing k with
  | nil => rfl
  | cons s ss ih => simp [unflat, ih]

theorem getD_append_left' (l1 l2 : List Nat) (j : Nat) (h : j < l1.length) : (l1 ++ l2).getD j 0 = l1.getD j 0 := by
  simp [List.getD_eq_getElem?_getD, List.getElem?_append_left h]

theorem getD_append_right' (l1 l2 : List Nat) (j : Nat) (h : l1.length ≤ j) :
    (l1 ++ l2).getD j 0 = l2.getD (j - l1.length) 0 := by
  simp [List.getD_eq_getElem?_getD, List.getElem?_append_right h]

theorem prod_range_split (m n : Nat) (f : Nat → ℂ) :
    ((List.range (m + (1 + n))).map f).prod
      = ((List.range m).map f).prod * (f m * ((List.range n).map fun j => f (m + 1 + j)).prod) := by
  rw [List.range_add, List.map_append, List.prod_append, List.range_add, List.map_map, List.map_append,
    List.prod_append, List.map_map]
  simp [Function.comp_def, add_assoc]

theorem blocks_prod (dim : List Nat) (i : Nat) (hi : i < dim.length) :
    prodL (dim.take i) * dim.getD i 1 * prodL (dim.drop (i + 1)) = prodL dim := by
  have hd : dim = dim.take i ++ (dim.getD i 1 :: dim.drop (i + 1)) := by
    rw [← List.getElem_eq_getD (h := hi)]; simp
  conv_rhs => rw [hd]
  rw [prodL_append]; simp [prodL, Nat.mul_assoc]

theorem mixture_congr {K : Type} [Fintype K] (p : K → ℝ) {ψ ψ' : K → Nat → ℂ} {N : Nat}
    (h : ∀ k r, r < N → ψ k r = ψ' k r) : ∀ r c, r < N → c < N → mixture p ψ r c = mixture p ψ' r c := by
  intro r c hr hc
  simp only [mixture]
  exact Finset.sum_congr rfl fun k _ => by rw [h k r hr, h k c hc]


theorem prodVec_blocks (dim : List Nat) (i : Nat) (hi : i < dim.length) (w : Nat → Nat → ℂ) {x0 x1 x2 : Nat}
    (h0 : x0 < prodL (dim.take i)) (h1 : x1 < dim.getD i 1) (h2 : x2 < prodL (dim.drop (i + 1))) :
    prodVec dim w (flat [prodL (dim.take i), dim.getD i 1, prodL (dim.drop (i + 1))] [x0, x1, x2])
      = restVec dim i w x0 x2 * w i x1 := by
  set pre := dim.take i with hpre
  set post := dim.drop (i + 1) with hpost
  have hd : dim = pre ++ (dim.getD i 1 :: post) := by
    rw [← List.getElem_eq_getD (h := hi)]; simp [hpre, hpost]
  have hprelen : pre.length = i := by simp [hpre]; omega
  have hpostlen : post.length = dim.length - (i + 1) := by simp [hpost]
  let x := unflat pre x0 ++ (x1 :: unflat post x2)
  have hx : InShape x dim := by
    rw [hd]
    exact (unflat_inShape _ _ h0).append (List.Forall₂.cons h1 (unflat_inShape _ _ h2))
  have hl0 : (unflat pre x0).length = i := by rw [unflat_length, hprelen]
  have e1 : x.take i = unflat pre x0 := by simp [x, ← hl0]
  have e2 : x.drop (i + 1) = unflat post x2 := by
    simp only [x]
    rw [List.drop_append, hl0]
    simp [List.drop_eq_nil_iff.2 (le_of_eq hl0 |>.trans (Nat.le_succ i))]
  have e3 : x.getD i 0 = x1 := by
    simp only [x]
    rw [getD_append_right' _ _ _ (le_of_eq hl0), hl0]; simp
  have hflat : flat dim x = flat [prodL pre, dim.getD i 1, prodL post] [x0, x1, x2] := by
    rw [flat_blocks hx i hi, e1, e2, e3, flat_unflat _ _ h0, flat_unflat _ _ h2]
  rw [← hflat, prodVec_flat hx]
  have hlen : dim.length = i + (1 + (dim.length - (i + 1))) := by omega
  rw [hlen, prod_range_split]
  simp only [restVec]
  have p1 : ((List.range i).map fun j => w j (x.getD j 0)) = (List.range i).map fun j => w j ((unflat pre x0).getD j 0) := by
    refine List.map_congr_left fun j hj => ?_
    have hj' : j < (unflat pre x0).length := by rw [hl0]; exact List.mem_range.1 hj
    simp only [x]
    rw [getD_append_left' _ _ _ hj']
  have p3 : ((List.range (dim.length - (i + 1))).map fun j => w (i + 1 + j) (x.getD (i + 1 + j) 0))
      = (List.range (dim.length - (i + 1))).map fun j => w (i + 1 + j) ((unflat post x2).getD j 0) := by
    refine List.map_congr_left fun j _ => ?_
    simp only [x]
    rw [getD_append_right' _ _ _ (by rw [hl0]; omega), hl0]
    have : i + 1 + j - i = j + 1 := by omega
    rw [this]; simp
  rw [p1, p3, e3]
  ring

theorem prodVec_eq_sepBlockVec (dim : List Nat) (i : Nat) (hi : i < dim.length) (w : Nat → Nat → ℂ) {r : Nat}
    (hr : r < prodL (dim.take i) * dim.getD i 1 * prodL (dim.drop (i + 1))) :
    prodVec dim w r = sepBlockVec (prodL (dim.take i)) (dim.getD i 1) (prodL (dim.drop (i + 1))) (restVec dim i w) (w i) r := by
  obtain ⟨r0, r1, r2⟩ := dig_lt hr
  conv_lhs => rw [← flat_dig hr]
  rw [prodVec_blocks dim i hi w r0 r1 r2]
  rfl


end Numqi.Ent
