/-
`get_matrix_orthogonal_basis` (C20): the three claims of the property from the contracts of `svd` and `eigh`.

Every branch has the shape  coordinates `X` → `reduce_vector_space` (`V`) → `get_vector_orthogonal_basis` (`W`) → map `Φ` back to
matrices, where `Φ` is linear over the base field and multiplies inner products by a constant `κ`.
-/
import NumqiProofs.MatrixSpaceLemmas
import Mathlib.LinearAlgebra.Span.Basic
import Mathlib.Algebra.Star.Module

namespace Numqi.MatrixSpace
open Finset

section generic
variable {F : Type} [Field F] [StarRing F] {E : Type} [AddCommGroup E] [Module F E] {L : ℕ}

/-- `Σ_i conj(x_i) y_i` (`np0.conj() @ np0.T`) -/
def dotS (x y : Fin L → F) : F := ∑ i, star (x i) * y i

theorem dotS_add_right (x y z : Fin L → F) : dotS x (y + z) = dotS x y + dotS x z := by
  simp [dotS, mul_add, Finset.sum_add_distrib]

theorem dotS_smul_right (a : F) (x y : Fin L → F) : dotS x (a • y) = a * dotS x y := by
  simp only [dotS, Pi.smul_apply, smul_eq_mul, Finset.mul_sum]
  exact Finset.sum_congr rfl fun i _ => by ring

theorem dotS_zero_right (x : Fin L → F) : dotS x 0 = 0 := by simp [dotS]

theorem dotS_star (x y : Fin L → F) : star (dotS x y) = dotS y x := by
  simp only [dotS, star_sum, star_mul', star_star]
  exact Finset.sum_congr rfl fun i _ => by ring

/-- orthogonality to a family extends to its span -/
theorem dotS_span_zero {ι : Type} (V : ι → Fin L → F) (w x : Fin L → F) (hw : ∀ j, dotS w (V j) = 0)
    (hx : x ∈ Submodule.span F (Set.range V)) : dotS w x = 0 := by
  induction hx using Submodule.span_induction with
  | mem y hy => obtain ⟨j, rfl⟩ := hy; exact hw j
  | zero => exact dotS_zero_right w
  | add y z _ _ hy hz => rw [dotS_add_right, hy, hz, add_zero]
  | smul a y _ hy => rw [dotS_smul_right, hy, mul_zero]

/-- **`eigh` contract ⇒ complement ⟂ basis**: an eigenvector of `1 - VᵀV̄` for the eigenvalue 1 (what `EVC[:, N0:]` holds when the
rows of `V` are orthonormal) is orthogonal to every row of `V`. -/
theorem complement_orth_of_eigen {k : ℕ} (V : Fin k → Fin L → F)
    (hV : ∀ i j, dotS (V i) (V j) = if i = j then 1 else 0) (w : Fin L → F)
    (heig : ∀ p, w p - ∑ j, V j p * dotS (V j) w = w p) (l : Fin k) : dotS (V l) w = 0 := by
  have h0 : ∀ p, ∑ j, V j p * dotS (V j) w = 0 := fun p => by have := heig p; linear_combination -this
  have : ∑ p, star (V l p) * ∑ j, V j p * dotS (V j) w = 0 := by simp [h0]
  rw [← this]
  simp only [Finset.mul_sum]
  rw [Finset.sum_comm]
  have h2 : ∀ j, ∑ p, star (V l p) * (V j p * dotS (V j) w) = dotS (V l) (V j) * dotS (V j) w := by
    intro j; simp only [dotS, Finset.sum_mul]; exact Finset.sum_congr rfl fun p _ => by ring
  simp only [h2, hV]
  simp

/-- **the three claims of the property, for any branch**: `Φ` linear with `⟪Φx, Φy⟫ = κ·⟨x,y⟩`;
`svd` contract: the rows `V` are orthonormal and span the row space of the coordinate matrix `X`;
`eigh` contract: the rows `W` are orthogonal to the rows of `V`.  Then
(1) the returned basis `Φ V_i` is mutually orthogonal with the common squared norm `κ`;
(2) it spans exactly the span of the input `Φ X_i`;
(3) the returned complement `Φ W_i` is orthogonal to the basis and to the input. -/
theorem orth_basis_claims (ip : E → E → F) (Φ : (Fin L → F) →ₗ[F] E) (κ : F)
    (hiso : ∀ x y, ip (Φ x) (Φ y) = κ * dotS x y) {N0 k c : ℕ}
    (X : Fin N0 → Fin L → F) (V : Fin k → Fin L → F) (W : Fin c → Fin L → F)
    (hV : ∀ i j, dotS (V i) (V j) = if i = j then 1 else 0)
    (hspan : Submodule.span F (Set.range V) = Submodule.span F (Set.range X))
    (hWV : ∀ i j, dotS (W i) (V j) = 0) :
    (∀ i j, ip (Φ (V i)) (Φ (V j)) = if i = j then κ else 0)
    ∧ Submodule.span F (Set.range fun i => Φ (V i)) = Submodule.span F (Set.range fun i => Φ (X i))
    ∧ (∀ i j, ip (Φ (W i)) (Φ (V j)) = 0) ∧ (∀ i j, ip (Φ (W i)) (Φ (X j)) = 0) := by
  refine ⟨fun i j => ?_, ?_, fun i j => ?_, fun i j => ?_⟩
  · rw [hiso, hV]; split <;> simp
  · have h1 : (Set.range fun i => Φ (V i)) = Φ '' Set.range V := by rw [← Set.range_comp]; rfl
    have h2 : (Set.range fun i => Φ (X i)) = Φ '' Set.range X := by rw [← Set.range_comp]; rfl
    rw [h1, h2, ← Submodule.map_span, ← Submodule.map_span, hspan]
  · rw [hiso, hWV, mul_zero]
  · rw [hiso]
    have : X j ∈ Submodule.span F (Set.range V) := by rw [hspan]; exact Submodule.subset_span ⟨j, rfl⟩
    rw [dotS_span_zero V (W i) (X j) (hWV i) this, mul_zero]

end generic


/-! ### the maps back to matrices, branch by branch -/

section reshape
variable {F : Type} [Field F] [StarRing F] {m n : ℕ}

/-- Frobenius form `Σ conj(A_ij) B_ij = tr(AᴴB)` -/
def frob (A B : Fin m → Fin n → F) : F := ∑ i, ∑ j, star (A i j) * B i j

/-- branches `R` / `C`: `x.reshape(N1, N2)` (row-major) -/
def reshapeL (m n : ℕ) : (Fin (m * n) → F) →ₗ[F] (Fin m → Fin n → F) where
  toFun x := fun i j => x (finProdFinEquiv (i, j))
  map_add' x y := by funext i j; rfl
  map_smul' a x := by funext i j; rfl

theorem reshapeL_apply (x : Fin (m * n) → F) (i : Fin m) (j : Fin n) :
    ((reshapeL m n x) i j : F) = x ⟨j.val + n * i.val, by
      calc j.val + n * i.val < n + n * i.val := by omega
        _ = n * (i.val + 1) := by ring
        _ ≤ n * m := Nat.mul_le_mul_left _ i.isLt
        _ = m * n := Nat.mul_comm _ _⟩ := rfl

/-- the reshape keeps inner products (`κ = 1`) -/
theorem reshapeL_iso (x y : Fin (m * n) → F) : frob (reshapeL m n x) (reshapeL m n y) = 1 * dotS x y := by
  rw [one_mul]
  unfold frob dotS
  rw [← Equiv.sum_comp finProdFinEquiv (fun p => star (x p) * y p), Fintype.sum_prod_type]
  rfl

end reshape

section realify
variable {N1 N2 : ℕ}

/-- entry `p` of a coordinate row (`0` outside, as `List.getD`) -/
def gd {L : ℕ} (x : Fin L → ℝ) (p : ℕ) : ℝ := if h : p < L then x ⟨p, h⟩ else 0

theorem getD_ofFn {L : ℕ} (x : Fin L → ℝ) (p : ℕ) : (List.ofFn x).getD p 0 = gd x p := by
  unfold gd
  by_cases h : p < L
  · simp [List.getD_eq_getElem?_getD, h]
  · simp [List.getD_eq_getElem?_getD, h]

theorem gd_add {L : ℕ} (x y : Fin L → ℝ) (p : ℕ) : gd (x + y) p = gd x p + gd y p := by
  unfold gd; split <;> simp

theorem gd_smul {L : ℕ} (a : ℝ) (x : Fin L → ℝ) (p : ℕ) : gd (a • x) p = a * gd x p := by
  unfold gd; split <;> simp

/-- branch `R_c`: `x.reshape(N1, 2·N2)`, column split, `np.block([[r,-i],[i,r]])` — as a function of the coordinate row -/
def realifyFn (N1 N2 : ℕ) (x : Fin (N1 * (N2 + N2)) → ℝ) : ℕ → ℕ → ℝ :=
  blockRealify N1 N2 (rcUnflatten N1 N2 (List.ofFn x)).1 (rcUnflatten N1 N2 (List.ofFn x)).2

theorem realifyFn_eq (x : Fin (N1 * (N2 + N2)) → ℝ) :
    realifyFn N1 N2 x = blockRealify N1 N2 (fun a b => gd x (a * (2 * N2) + b)) (fun a b => gd x (a * (2 * N2) + N2 + b)) := by
  unfold realifyFn rcUnflatten
  simp only [getD_ofFn]

def realifyL (N1 N2 : ℕ) : (Fin (N1 * (N2 + N2)) → ℝ) →ₗ[ℝ] (Fin (N1 + N1) → Fin (N2 + N2) → ℝ) where
  toFun x := fun p q => realifyFn N1 N2 x p.val q.val
  map_add' x y := by
    funext p q
    simp only [realifyFn_eq, blockRealify, gd_add, Pi.add_apply]
    split_ifs <;> ring
  map_smul' a x := by
    funext p q
    simp only [realifyFn_eq, blockRealify, gd_smul, Pi.smul_apply, smul_eq_mul, RingHom.id_apply]
    split_ifs <;> ring

/-- the block form doubles inner products (`κ = 2`): the returned matrices are mutually orthogonal of common squared norm 2 -/
theorem realifyL_iso (x y : Fin (N1 * (N2 + N2)) → ℝ) :
    frob (realifyL N1 N2 x) (realifyL N1 N2 y) = 2 * dotS x y := by
  unfold frob dotS
  simp only [star_trivial]
  have hL : ∀ (f : ℕ → ℕ → ℝ), ∑ p : Fin (N1 + N1), ∑ q : Fin (N2 + N2), f p.val q.val
      = ∑ p ∈ range (N1 + N1), ∑ q ∈ range (N2 + N2), f p q := by
    intro f
    rw [Finset.sum_range]
    exact Finset.sum_congr rfl fun p _ => (Finset.sum_range _).symm
  have h1 := hL (fun p q => realifyFn N1 N2 x p q * realifyFn N1 N2 y p q)
  have e : ∑ p : Fin (N1 + N1), ∑ q : Fin (N2 + N2), (realifyL N1 N2 x) p q * (realifyL N1 N2 y) p q
      = ∑ p : Fin (N1 + N1), ∑ q : Fin (N2 + N2), realifyFn N1 N2 x p.val q.val * realifyFn N1 N2 y p.val q.val := rfl
  rw [e, h1, realifyFn_eq, realifyFn_eq, blockRealify_inner]
  congr 1
  -- Σ_a Σ_b (x[a·2N2+b] y[..] + x[a·2N2+N2+b] y[..]) = Σ_p x_p y_p
  have hrow : ∀ a, ∑ b ∈ range N2, (gd x (a * (2 * N2) + b) * gd y (a * (2 * N2) + b)
        + gd x (a * (2 * N2) + N2 + b) * gd y (a * (2 * N2) + N2 + b))
      = ∑ b ∈ range (N2 + N2), gd x (a * (2 * N2) + b) * gd y (a * (2 * N2) + b) := by
    intro a
    rw [Finset.sum_add_distrib, Finset.sum_range_add]
    congr 1
    exact Finset.sum_congr rfl fun b _ => by rw [Nat.add_assoc]
  simp only [hrow]
  rw [← Equiv.sum_comp finProdFinEquiv (fun p => x p * y p), Fintype.sum_prod_type, Finset.sum_range]
  refine Finset.sum_congr rfl fun a _ => ?_
  rw [Finset.sum_range]
  refine Finset.sum_congr rfl fun b _ => ?_
  have hlt : a.val * (2 * N2) + b.val < N1 * (N2 + N2) := by
    calc a.val * (2 * N2) + b.val < a.val * (2 * N2) + (N2 + N2) := by omega
      _ = (a.val + 1) * (N2 + N2) := by ring
      _ ≤ N1 * (N2 + N2) := Nat.mul_le_mul_right _ a.isLt
  have hidx : (finProdFinEquiv (a, b) : Fin (N1 * (N2 + N2))) = ⟨a.val * (2 * N2) + b.val, hlt⟩ := by
    apply Fin.ext
    simp only [finProdFinEquiv_apply_val]
    ring
  rw [hidx]
  simp [gd, hlt]

end realify

end Numqi.MatrixSpace
