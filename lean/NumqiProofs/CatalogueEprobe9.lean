/-
Helper lemmas for `get_element_probing_POVM('eq9', dim)` (C18): row orthonormality and completeness (column orthonormality) of the four bases for every even `dim ≥ 4`.
-/
import NumqiProofs.ScalarInstances
import NumqiModel.Catalogue
import Mathlib.Tactic

namespace Numqi.Catalogue
open Finset

theorem foldl_add_range (f : ℕ → GInt) (m : ℕ) :
    (List.range m).foldl (fun acc t => acc + f t) 0 = ∑ t ∈ Finset.range m, f t := by
  induction m with
  | zero => simp
  | succ m ih => rw [List.range_succ, List.foldl_append, List.foldl_cons, List.foldl_nil, ih, Finset.sum_range_succ]

/-- row supports -/
def e9p (b i : ℕ) : ℕ := if b % 2 = 0 then (i / 2) * 2 else (i / 2) * 2 + 1
def e9q (b dim i : ℕ) : ℕ := if b % 2 = 0 then (i / 2) * 2 + 1 else ((i / 2) * 2 + 2) % dim
def e9v (b i : ℕ) : GInt := if i % 2 = 0 then (if b < 2 then ⟨1, 0⟩ else ⟨0, 1⟩) else -(if b < 2 then ⟨1, 0⟩ else ⟨0, 1⟩)

theorem eprobe9_eq (b dim i c : ℕ) :
    eprobe9 b dim i c = if c = e9q b dim i then e9v b i else if c = e9p b i then 1 else 0 := by
  rfl

theorem e9_pq (b dim i : ℕ) (hd : 4 ≤ dim) (he : dim % 2 = 0) (hi : i < dim) :
    e9p b i ≠ e9q b dim i ∧ e9p b i < dim ∧ e9q b dim i < dim := by
  unfold e9p e9q
  split_ifs
  · omega
  · refine ⟨?_, by omega, Nat.mod_lt _ (by omega)⟩
    rcases Nat.lt_or_ge ((i / 2) * 2 + 2) dim with h | h
    · rw [Nat.mod_eq_of_lt h]; omega
    · have : (i / 2) * 2 + 2 = dim := by omega
      rw [this, Nat.mod_self]; omega

theorem e9v_norm (b i j : ℕ) (h : i / 2 = j / 2) :
    conj (e9v b i) * e9v b j = if i = j then 1 else -1 := by
  have : i = j ∨ (i % 2 ≠ j % 2) := by omega
  unfold e9v
  rcases this with rfl | hne
  · simp only [if_true]; split_ifs <;> decide
  · have hij : i ≠ j := by rintro rfl; exact hne rfl
    rw [if_neg hij]
    split_ifs <;> first | decide | omega


theorem eprobe9_row_inner (b dim i j : ℕ) (hd : 4 ≤ dim) (he : dim % 2 = 0) (hi : i < dim) (hj : j < dim) :
    ∑ c ∈ Finset.range dim, conj (eprobe9 b dim i c) * eprobe9 b dim j c = if i = j then ⟨2, 0⟩ else 0 := by
  obtain ⟨hne, hp, hq⟩ := e9_pq b dim i hd he hi
  obtain ⟨hne', hp', hq'⟩ := e9_pq b dim j hd he hj
  rw [Finset.sum_eq_add (e9p b i) (e9q b dim i) hne]
  · by_cases hk : i / 2 = j / 2
    · have e1 : e9p b j = e9p b i := by unfold e9p; rw [hk]
      have e2 : e9q b dim j = e9q b dim i := by unfold e9q; rw [hk]
      simp only [eprobe9_eq, e1, e2, if_neg hne, if_true]
      have hc1 : conj (1 : GInt) * 1 = 1 := by decide
      rw [hc1, e9v_norm b i j hk]
      split_ifs <;> decide
    · have hij : i ≠ j := by rintro rfl; exact hk rfl
      rw [if_neg hij]
      have d1 : e9p b i ≠ e9p b j := by unfold e9p; split_ifs <;> omega
      have d2 : e9p b i ≠ e9q b dim j := by
        unfold e9p e9q; split_ifs
        · omega
        · rcases Nat.lt_or_ge ((j / 2) * 2 + 2) dim with h | h
          · rw [Nat.mod_eq_of_lt h]; omega
          · have : (j / 2) * 2 + 2 = dim := by omega
            rw [this, Nat.mod_self]; omega
      have d3 : e9q b dim i ≠ e9p b j := by
        unfold e9p e9q; split_ifs
        · omega
        · rcases Nat.lt_or_ge ((i / 2) * 2 + 2) dim with h | h
          · rw [Nat.mod_eq_of_lt h]; omega
          · have : (i / 2) * 2 + 2 = dim := by omega
            rw [this, Nat.mod_self]; omega
      have d4 : e9q b dim i ≠ e9q b dim j := by
        unfold e9q; split_ifs
        · omega
        · rcases Nat.lt_or_ge ((i / 2) * 2 + 2) dim with h | h <;>
            rcases Nat.lt_or_ge ((j / 2) * 2 + 2) dim with h' | h'
          · rw [Nat.mod_eq_of_lt h, Nat.mod_eq_of_lt h']; omega
          · have : (j / 2) * 2 + 2 = dim := by omega
            rw [Nat.mod_eq_of_lt h, this, Nat.mod_self]; omega
          · have : (i / 2) * 2 + 2 = dim := by omega
            rw [Nat.mod_eq_of_lt h', this, Nat.mod_self]; omega
          · omega
      simp only [eprobe9_eq, if_neg d1, if_neg d2, if_neg d3, if_neg d4]
      simp
  · intro c _ hc
    rw [eprobe9_eq b dim i c, if_neg hc.2, if_neg hc.1]
    have : conj (0 : GInt) = 0 := by decide
    rw [this, zero_mul]
  · intro h; exact absurd (Finset.mem_range.2 hp) h
  · intro h; exact absurd (Finset.mem_range.2 hq) h


theorem eprobe9RowsOK_all (b dim : ℕ) (hd : 4 ≤ dim) (he : dim % 2 = 0) : eprobe9RowsOK b dim = true := by
  simp only [eprobe9RowsOK, List.all_eq_true, List.mem_range, beq_iff_eq]
  intro i hi j hj
  have h := foldl_add_range (fun c => conj (eprobe9 b dim i c) * eprobe9 b dim j c) dim
  rw [h]
  exact eprobe9_row_inner b dim i j hd he hi hj

/-! ### columns: rows `2k, 2k+1` contribute `2·[c = c' ∈ {P_k, Q_k}]`, and the pairs `{P_k, Q_k}` partition the columns -/

theorem sum_range_two_mul (f : ℕ → GInt) (m : ℕ) :
    ∑ i ∈ Finset.range (2 * m), f i = ∑ k ∈ Finset.range m, (f (2 * k) + f (2 * k + 1)) := by
  induction m with
  | zero => simp
  | succ m ih =>
    rw [show 2 * (m + 1) = 2 * m + 1 + 1 by ring, Finset.sum_range_succ, Finset.sum_range_succ, ih, Finset.sum_range_succ]
    abel

/-- pair supports -/
def e9P (b k : ℕ) : ℕ := if b % 2 = 0 then 2 * k else 2 * k + 1
def e9Q (b dim k : ℕ) : ℕ := if b % 2 = 0 then 2 * k + 1 else (if 2 * k + 2 = dim then 0 else 2 * k + 2)
def e9u (b : ℕ) : GInt := if b < 2 then ⟨1, 0⟩ else ⟨0, 1⟩

theorem eprobe9_even (b dim k c : ℕ) (hk : 2 * k + 2 ≤ dim) :
    eprobe9 b dim (2 * k) c = if c = e9Q b dim k then e9u b else if c = e9P b k then 1 else 0 := by
  rw [eprobe9_eq]
  have h1 : e9q b dim (2 * k) = e9Q b dim k := by
    unfold e9q e9Q
    have : 2 * k / 2 * 2 = 2 * k := by omega
    rw [this]
    split_ifs with h0 h1
    · rfl
    · rw [h1, Nat.mod_self]
    · exact Nat.mod_eq_of_lt (by omega)
  have h2 : e9p b (2 * k) = e9P b k := by
    unfold e9p e9P
    have : 2 * k / 2 * 2 = 2 * k := by omega
    rw [this]
  have h3 : e9v b (2 * k) = e9u b := by
    unfold e9v e9u
    rw [if_pos (by omega)]
  rw [h1, h2, h3]

theorem eprobe9_odd (b dim k c : ℕ) (hk : 2 * k + 2 ≤ dim) :
    eprobe9 b dim (2 * k + 1) c = if c = e9Q b dim k then -e9u b else if c = e9P b k then 1 else 0 := by
  rw [eprobe9_eq]
  have h1 : e9q b dim (2 * k + 1) = e9Q b dim k := by
    unfold e9q e9Q
    have : (2 * k + 1) / 2 * 2 = 2 * k := by omega
    rw [this]
    split_ifs with h0 h1
    · rfl
    · rw [h1, Nat.mod_self]
    · exact Nat.mod_eq_of_lt (by omega)
  have h2 : e9p b (2 * k + 1) = e9P b k := by
    unfold e9p e9P
    have : (2 * k + 1) / 2 * 2 = 2 * k := by omega
    rw [this]
  have h3 : e9v b (2 * k + 1) = -e9u b := by
    unfold e9v e9u
    rw [if_neg (by omega)]
  rw [h1, h2, h3]

theorem e9PQ_ne (b dim k : ℕ) : e9P b k ≠ e9Q b dim k := by
  unfold e9P e9Q; split_ifs <;> omega

theorem e9_pair (b dim k c c' : ℕ) (hk : 2 * k + 2 ≤ dim) :
    eprobe9 b dim (2 * k) c * conj (eprobe9 b dim (2 * k) c') + eprobe9 b dim (2 * k + 1) c * conj (eprobe9 b dim (2 * k + 1) c')
      = if (c = e9P b k ∨ c = e9Q b dim k) ∧ c = c' then ⟨2, 0⟩ else 0 := by
  rw [eprobe9_even b dim k c hk, eprobe9_even b dim k c' hk, eprobe9_odd b dim k c hk, eprobe9_odd b dim k c' hk]
  have hne := e9PQ_ne b dim k
  have hu : e9u b = ⟨1, 0⟩ ∨ e9u b = ⟨0, 1⟩ := by unfold e9u; split_ifs <;> simp
  by_cases h1 : c = e9Q b dim k <;> by_cases h2 : c' = e9Q b dim k <;> by_cases h3 : c = e9P b k <;> by_cases h4 : c' = e9P b k <;>
    (try (exfalso; omega)) <;>
    (rcases hu with hu | hu <;> simp only [h1, h2, h3, h4, hu, if_true, if_false, hne, hne.symm, or_true, or_false, true_and, and_true, and_false, false_and] <;>
      first | decide | (split_ifs <;> first | decide | (exfalso; omega)))


theorem eprobe9_col_inner (b dim c c' : ℕ) (hd : 4 ≤ dim) (he : dim % 2 = 0) (hc : c < dim) (hc' : c' < dim) :
    ∑ i ∈ Finset.range dim, eprobe9 b dim i c * conj (eprobe9 b dim i c') = if c = c' then ⟨2, 0⟩ else 0 := by
  obtain ⟨m, rfl⟩ : ∃ m, dim = 2 * m := ⟨dim / 2, by omega⟩
  rw [sum_range_two_mul]
  rw [Finset.sum_congr rfl (fun k hk => e9_pair b (2 * m) k c c' (by have := Finset.mem_range.1 hk; omega))]
  by_cases hcc : c = c'
  · subst hcc
    rw [if_pos rfl]
    set k0 : ℕ := if b % 2 = 0 then c / 2 else (if c = 0 then m - 1 else (c - 1) / 2) with hk0
    rw [Finset.sum_eq_single k0]
    · rw [if_pos]
      refine ⟨?_, rfl⟩
      rw [hk0]; unfold e9P e9Q; split_ifs <;> omega
    · intro k hk hne
      have hk' := Finset.mem_range.1 hk
      rw [if_neg]
      rintro ⟨h, -⟩
      rw [hk0] at hne
      revert h hne; unfold e9P e9Q; split_ifs <;> omega
    · intro h
      exfalso; apply h; rw [Finset.mem_range, hk0]; split_ifs <;> omega
  · rw [if_neg hcc]
    exact Finset.sum_eq_zero (fun k _ => if_neg (fun h => hcc h.2))

theorem eprobe9ColsOK_all (b dim : ℕ) (hd : 4 ≤ dim) (he : dim % 2 = 0) : eprobe9ColsOK b dim = true := by
  simp only [eprobe9ColsOK, List.all_eq_true, List.mem_range, beq_iff_eq]
  intro c hc c' hc'
  have h := foldl_add_range (fun i => eprobe9 b dim i c * conj (eprobe9 b dim i c')) dim
  rw [h]
  exact eprobe9_col_inner b dim c c' hd he hc hc'

end Numqi.Catalogue
