/-
Helper lemmas for `get_element_probing_POVM('eq9', dim)` (C18): row orthonormality of the four bases for every even `dim ≥ 4`.
-/
import NumqiProofs.ScalarInstances
import NumqiModel.Catalogue
import Mathlib.Tactic

namespace Numqi.Catalogue
open Finset

theorem foldl_add_range (f : ℕ → GInt) (m : ℕ) :
    (List.range m).foldl (fun acc t => acc + f t) 0 = ∑ t ∈ Finset.range m, f t := by
  induction m with
  | zero => simp
  | succ m ih => rw [List.range_succ, List.foldl_append, List.foldl_cons, List.foldl_nil, ih, Finset.sum_range_succ]

/-- row supports -/
def e9p (b i : ℕ) : ℕ := if b % 2 = 0 then (i / 2) * 2 else (i / 2) * 2 + 1
def e9q (b dim i : ℕ) : ℕ := if b % 2 = 0 then (i / 2) * 2 + 1 else ((i / 2) * 2 + 2) % dim
def e9v (b i : ℕ) : GInt := if i % 2 = 0 then (if b < 2 then ⟨1, 0⟩ else ⟨0, 1⟩) else -(if b < 2 then ⟨1, 0⟩ else ⟨0, 1⟩)

theorem eprobe9_eq (b dim i c : ℕ) :
    eprobe9 b dim i c = if c = e9q b dim i then e9v b i else if c = e9p b i then 1 else 0 := by
  rfl

theorem e9_pq (b dim i : ℕ) (hd : 4 ≤ dim) (he : dim % 2 = 0) (hi : i < dim) :
    e9p b i ≠ e9q b dim i ∧ e9p b i < dim ∧ e9q b dim i < dim := by
  unfold e9p e9q
  split_ifs
  · omega
  · refine ⟨?_, by omega, Nat.mod_lt _ (by omega)⟩
    rcases Nat.lt_or_ge ((i / 2) * 2 + 2) dim with h | h
    · rw [Nat.mod_eq_of_lt h]; omega
    · have : (i / 2) * 2 + 2 = dim := by omega
      rw [this, Nat.mod_self]; omega

theorem e9v_norm (b i j : ℕ) (h : i / 2 = j / 2) :
    conj (e9v b i) * e9v b j = if i = j then 1 else -1 := by
  have : i = j ∨ (i % 2 ≠ j % 2) := by omega
  unfold e9v
  rcases this with rfl | hne
  · simp only [if_true]; split_ifs <;> decide
  · have hij : i ≠ j := by rintro rfl; exact hne rfl
    rw [if_neg hij]
    split_ifs <;> first | decide | omega


theorem eprobe9_row_inner (b dim i j : ℕ) (hd : 4 ≤ dim) (he : dim % 2 = 0) (hi : i < dim) (hj : j < dim) :
    ∑ c ∈ Finset.range dim, conj (eprobe9 b dim i c) * eprobe9 b dim j c = if i = j then ⟨2, 0⟩ else 0 := by
  obtain ⟨hne, hp, hq⟩ := e9_pq b dim i hd he hi
  obtain ⟨hne', hp', hq'⟩ := e9_pq b dim j hd he hj
  rw [Finset.sum_eq_add (e9p b i) (e9q b dim i) hne]
  · by_cases hk : i / 2 = j / 2
    · have e1 : e9p b j = e9p b i := by unfold e9p; rw [hk]
      have e2 : e9q b dim j = e9q b dim i := by unfold e9q; rw [hk]
      simp only [eprobe9_eq, e1, e2, if_neg hne, if_true]
      have hc1 : conj (1 : GInt) * 1 = 1 := by decide
      rw [hc1, e9v_norm b i j hk]
      split_ifs <;> decide
    · have hij : i ≠ j := by rintro rfl; exact hk rfl
      rw [if_neg hij]
      have d1 : e9p b i ≠ e9p b j := by unfold e9p; split_ifs <;> omega
      have d2 : e9p b i ≠ e9q b dim j := by
        unfold e9p e9q; split_ifs
        · omega
        · rcases Nat.lt_or_ge ((j / 2) * 2 + 2) dim with h | h
          · rw [Nat.mod_eq_of_lt h]; omega
          · have : (j / 2) * 2 + 2 = dim := by omega
            rw [this, Nat.mod_self]; omega
      have d3 : e9q b dim i ≠ e9p b j := by
        unfold e9p e9q; split_ifs
        · omega
        · rcases Nat.lt_or_ge ((i / 2) * 2 + 2) dim with h | h
          · rw [Nat.mod_eq_of_lt h]; omega
          · have : (i / 2) * 2 + 2 = dim := by omega
            rw [this, Nat.mod_self]; omega
      have d4 : e9q b dim i ≠ e9q b dim j := by
        unfold e9q; split_ifs
        · omega
        · rcases Nat.lt_or_ge ((i / 2) * 2 + 2) dim with h | h <;>
            rcases Nat.lt_or_ge ((j / 2) * 2 + 2) dim with h' | h'
          · rw [Nat.mod_eq_of_lt h, Nat.mod_eq_of_lt h']; omega
          · have : (j / 2) * 2 + 2 = dim := by omega
            rw [Nat.mod_eq_of_lt h, this, Nat.mod_self]; omega
          · have : (i / 2) * 2 + 2 = dim := by omega
            rw [Nat.mod_eq_of_lt h', this, Nat.mod_self]; omega
          · omega
      simp only [eprobe9_eq, if_neg d1, if_neg d2, if_neg d3, if_neg d4]
      simp
  · intro c _ hc
    rw [eprobe9_eq b dim i c, if_neg hc.2, if_neg hc.1]
    have : conj (0 : GInt) = 0 := by decide
    rw [this, zero_mul]
  · intro h; exact absurd (Finset.mem_range.2 hp) h
  · intro h; exact absurd (Finset.mem_range.2 hq) h


theorem eprobe9RowsOK_all (b dim : ℕ) (hd : 4 ≤ dim) (he : dim % 2 = 0) : eprobe9RowsOK b dim = true := by
  simp only [eprobe9RowsOK, List.all_eq_true, List.mem_range, beq_iff_eq]
  intro i hi j hj
  have h := foldl_add_range (fun c => conj (eprobe9 b dim i c) * eprobe9 b dim j c) dim
  rw [h]
  exact eprobe9_row_inner b dim i j hd he hi hj

end Numqi.Catalogue
