/- C02: differentials of the two charts at the base point. -/
import Mathlib.Analysis.SpecialFunctions.Exponential
import Mathlib.Analysis.Calculus.FDeriv.Mul
import Mathlib.Analysis.Calculus.FDeriv.Add

namespace Numqi.Manifold
open NormedSpace

/-- the Cayley transform `A ↦ (1+A)⁻¹ (1-A)` in any ring (`Ring.inverse` is the inverse on units) -/
noncomputable def cayleyMap {𝔸 : Type*} [Ring 𝔸] (A : 𝔸) : 𝔸 := Ring.inverse (1 + A) * (1 - A)

variable {𝔸 : Type*} [NormedRing 𝔸] [NormedAlgebra ℝ 𝔸] [CompleteSpace 𝔸]

/-- the differential of `exp` at `0` is the identity (Mathlib), hence injective on the generator space -/
theorem hasFDerivAt_exp_zero' : HasFDerivAt (NormedSpace.exp : 𝔸 → 𝔸) (1 : 𝔸 →L[ℝ] 𝔸) 0 :=
  hasFDerivAt_exp_zero

/-- **the differential of the Cayley transform at `0` is `-2·id`** -/
theorem hasFDerivAt_cayley_zero : HasFDerivAt (cayleyMap : 𝔸 → 𝔸) ((-2 : ℝ) • ContinuousLinearMap.id ℝ 𝔸) 0 := by
  have h1 : HasFDerivAt (fun A : 𝔸 => 1 + A) (ContinuousLinearMap.id ℝ 𝔸) 0 := (hasFDerivAt_id (0 : 𝔸)).const_add 1
  have hinv : HasFDerivAt (Ring.inverse : 𝔸 → 𝔸) (-ContinuousLinearMap.mulLeftRight ℝ 𝔸 ↑(1 : 𝔸ˣ)⁻¹ ↑(1 : 𝔸ˣ)⁻¹) ((fun A : 𝔸 => 1 + A) 0) := by
    have := hasFDerivAt_ringInverse (𝕜 := ℝ) (1 : 𝔸ˣ)
    simpa using this
  have hg : HasFDerivAt (fun A : 𝔸 => Ring.inverse (1 + A)) ((-ContinuousLinearMap.mulLeftRight ℝ 𝔸 ↑(1 : 𝔸ˣ)⁻¹ ↑(1 : 𝔸ˣ)⁻¹).comp (ContinuousLinearMap.id ℝ 𝔸)) 0 :=
    hinv.comp 0 h1
  have hh : HasFDerivAt (fun A : 𝔸 => 1 - A) (-ContinuousLinearMap.id ℝ 𝔸) 0 := (hasFDerivAt_id (0 : 𝔸)).const_sub 1
  have := hg.mul' hh
  refine this.congr_fderiv ?_
  ext x
  simp [ContinuousLinearMap.mulLeftRight_apply, two_smul]

end Numqi.Manifold
