/- C02: differentials of the two charts at the base point. -/
import Mathlib.Analysis.SpecialFunctions.Exponential
import Mathlib.Analysis.Calculus.FDeriv.Mul
import Mathlib.Analysis.Calculus.FDeriv.Add

namespace Numqi.Manifold
open NormedSpace

/-- the Cayley transform `A ↦ (1+A)⁻¹ (1-A)` in any ring (`Ring.inverse` is the inverse on units) -/
noncomputable def cayleyMap {𝔸 : Type*} [Ring 𝔸] (A : 𝔸) : 𝔸 := Ring.inverse (1 + A) * (1 - A)

variable {𝔸 : Type*} [NormedRing 𝔸] [NormedAlgebra ℝ 𝔸] [CompleteSpace 𝔸]

/-- the differential of `exp` at `0` is the identity (Mathlib), hence injective on the generator space -/
theorem hasFDerivAt_exp_zero' : HasFDerivAt (NormedSpace.exp : 𝔸 → 𝔸) (1 : 𝔸 →L[ℝ] 𝔸) 0 :=
  hasFDerivAt_exp_zero

/-- **the differential of the Cayley transform at `0` is `-2·id`** -/
theorem hasFDerivAt_cayley_zero : HasFDerivAt (cayleyMap : 𝔸 → 𝔸) ((-2 : ℝ) • ContinuousLinearMap.id ℝ 𝔸) 0 := by
  have h1 : HasFDerivAt (fun A : 𝔸 => 1 + A) (ContinuousLinearMap.id ℝ 𝔸) 0 := (hasFDerivAt_id (0 : 𝔸)).const_add 1
  have hinv : HasFDerivAt (Ring.inverse : 𝔸 → 𝔸) (-ContinuousLinearMap.mulLeftRight ℝ 𝔸 ↑(1 : 𝔸ˣ)⁻¹ ↑(1 : 𝔸ˣ)⁻¹) ((fun A : 𝔸 => 1 + A) 0) := by
    have := hasFDerivAt_ringInverse (𝕜 := ℝ) (1 : 𝔸ˣ)
    simpa using this
  have hg : HasFDerivAt (fun A : 𝔸 => Ring.inverse (1 + A)) ((-ContinuousLinearMap.mulLeftRight ℝ 𝔸 ↑(1 : 𝔸ˣ)⁻¹ ↑(1 : 𝔸ˣ)⁻¹).comp (ContinuousLinearMap.id ℝ 𝔸)) 0 :=
    hinv.comp 0 h1
  have hh : HasFDerivAt (fun A : 𝔸 => 1 - A) (-ContinuousLinearMap.id ℝ 𝔸) 0 := (hasFDerivAt_id (0 : 𝔸)).const_sub 1
  have := hg.mul' hh
  refine this.congr_fderiv ?_
  ext x
  simp [ContinuousLinearMap.mulLeftRight_apply, two_smul]


/-- the differential of the Cayley transform at `A` (`u = 1 + A` invertible): `δ ↦ -2 u⁻¹ δ u⁻¹` -/
noncomputable def cayleyD (u : 𝔸ˣ) : 𝔸 →L[ℝ] 𝔸 := (-2 : ℝ) • ContinuousLinearMap.mulLeftRight ℝ 𝔸 ↑u⁻¹ ↑u⁻¹

theorem cayleyD_apply (u : 𝔸ˣ) (δ : 𝔸) : cayleyD u δ = (-2 : ℝ) • ((↑u⁻¹ : 𝔸) * δ * ↑u⁻¹) := by
  simp [cayleyD, ContinuousLinearMap.mulLeftRight_apply]

/-- **the Cayley transform is differentiable at every `A` with `1 + A` invertible, with differential `δ ↦ -2 (1+A)⁻¹ δ (1+A)⁻¹`** -/
theorem hasFDerivAt_cayley (A : 𝔸) (u : 𝔸ˣ) (hu : (↑u : 𝔸) = 1 + A) : HasFDerivAt (cayleyMap : 𝔸 → 𝔸) (cayleyD u) A := by
  have h1 : HasFDerivAt (fun B : 𝔸 => 1 + B) (ContinuousLinearMap.id ℝ 𝔸) A := (hasFDerivAt_id A).const_add 1
  have hinv : HasFDerivAt (Ring.inverse : 𝔸 → 𝔸) (-ContinuousLinearMap.mulLeftRight ℝ 𝔸 ↑u⁻¹ ↑u⁻¹) ((fun B : 𝔸 => 1 + B) A) := by
    have := hasFDerivAt_ringInverse (𝕜 := ℝ) u
    rwa [hu] at this
  have hg : HasFDerivAt (fun B : 𝔸 => Ring.inverse (1 + B)) ((-ContinuousLinearMap.mulLeftRight ℝ 𝔸 ↑u⁻¹ ↑u⁻¹).comp (ContinuousLinearMap.id ℝ 𝔸)) A :=
    hinv.comp A h1
  have hh : HasFDerivAt (fun B : 𝔸 => 1 - B) (-ContinuousLinearMap.id ℝ 𝔸) A := (hasFDerivAt_id A).const_sub 1
  have := hg.mul' hh
  refine this.congr_fderiv ?_
  ext δ
  have hri : Ring.inverse (1 + A) = (↑u⁻¹ : 𝔸) := by rw [← hu, Ring.inverse_unit]
  have h1A : (1 : 𝔸) - A = 2 - ↑u := by
    rw [hu, show (2 : 𝔸) = 1 + 1 by norm_num]; abel
  simp only [cayleyD_apply, ContinuousLinearMap.add_apply, ContinuousLinearMap.smul_apply, ContinuousLinearMap.neg_apply,
    ContinuousLinearMap.id_apply, ContinuousLinearMap.comp_apply, ContinuousLinearMap.mulLeftRight_apply, hri, h1A]
  simp only [smul_eq_mul, MulOpposite.smul_eq_mul_unop, MulOpposite.unop_op]
  have e : (↑u⁻¹ : 𝔸) * δ * ↑u⁻¹ * ↑u = ↑u⁻¹ * δ := by rw [mul_assoc, Units.inv_mul, mul_one]
  have key : (↑u⁻¹ : 𝔸) * -δ + -((↑u⁻¹ : 𝔸) * δ * ↑u⁻¹) * (2 - ↑u) = -(((↑u⁻¹ : 𝔸) * δ * ↑u⁻¹) * 2) := by
    rw [neg_mul, mul_sub, e]; noncomm_ring
  rw [key, neg_smul, two_smul, mul_two]

theorem cayleyD_injective (u : 𝔸ˣ) : Function.Injective (cayleyD u : 𝔸 → 𝔸) := by
  rw [injective_iff_map_eq_zero]
  intro δ h
  rw [cayleyD_apply] at h
  have h2 : (↑u⁻¹ : 𝔸) * δ * ↑u⁻¹ = 0 := by
    rcases smul_eq_zero.1 h with h | h
    · norm_num at h
    · exact h
  have := congrArg (fun x => (↑u : 𝔸) * x * ↑u) h2
  simp only [mul_zero, zero_mul] at this
  rw [← this]
  simp [mul_assoc]

/-- **chart level**: for an injective continuous linear placement `P` of the parameters (e.g. `θ ↦ generator`), the chart `θ ↦ cayley(P θ)`
has injective differential — full rank — at every θ where `1 + P θ` is invertible (always, for skew generators) -/
theorem cayley_chart_full_rank {E : Type*} [NormedAddCommGroup E] [NormedSpace ℝ E] (P : E →L[ℝ] 𝔸) (hP : Function.Injective P)
    (θ : E) (u : 𝔸ˣ) (hu : (↑u : 𝔸) = 1 + P θ) :
    HasFDerivAt (fun t => cayleyMap (P t)) ((cayleyD u).comp P) θ ∧ Function.Injective ((cayleyD u).comp P) := by
  refine ⟨(hasFDerivAt_cayley (P θ) u hu).comp θ P.hasFDerivAt, ?_⟩
  intro a b h
  exact hP (cayleyD_injective u h)

/-- order 2 (`C²`): differential `δ ↦ δC·C + C·δC` with `δC = -2u⁻¹δu⁻¹`; injective wherever the Sylvester operator `X ↦ X C + C X`
is injective (i.e. `C` has no pair of eigenvalues `λ, -λ`) -/
theorem cayley_sq_chart {E : Type*} [NormedAddCommGroup E] [NormedSpace ℝ E] (P : E →L[ℝ] 𝔸) (hP : Function.Injective P)
    (θ : E) (u : 𝔸ˣ) (hu : (↑u : 𝔸) = 1 + P θ)
    (hSyl : ∀ X : 𝔸, X * cayleyMap (P θ) + cayleyMap (P θ) * X = 0 → X = 0) :
    ∃ D : E →L[ℝ] 𝔸, HasFDerivAt (fun t => cayleyMap (P t) * cayleyMap (P t)) D θ ∧ Function.Injective D
      ∧ ∀ δ, D δ = cayleyD u (P δ) * cayleyMap (P θ) + cayleyMap (P θ) * cayleyD u (P δ) := by
  obtain ⟨h1, h2⟩ := cayley_chart_full_rank P hP θ u hu
  have hm := h1.mul' h1
  refine ⟨_, hm, ?_, ?_⟩
  · rw [injective_iff_map_eq_zero]
    intro δ hδ
    have : cayleyD u (P δ) * cayleyMap (P θ) + cayleyMap (P θ) * cayleyD u (P δ) = 0 := by
      simpa [add_comm] using hδ
    have h0 := hSyl _ this
    exact (injective_iff_map_eq_zero _).1 h2 δ h0
  · intro δ; simp [add_comm]

end Numqi.Manifold
