/- C01: det (exp A) = 1 for traceless skew-Hermitian A, by the spectral theorem (SU(d) exp chart). -/
import NumqiProofs.ManifoldMaps
import Mathlib.Analysis.Matrix.Spectrum
import Mathlib.Analysis.SpecialFunctions.Exponential

namespace Numqi.Manifold
open Matrix
local notation "mexp" => NormedSpace.exp

variable {n : Type} [Fintype n] [DecidableEq n]

/-- `det (exp A) = 1` for traceless skew-Hermitian `A` — by unitary diagonalisation of `H = -iA`
(`det ∘ exp = exp ∘ tr` is not in Mathlib in general, the spectral theorem gives it for normal matrices). -/
theorem det_exp_of_skew_traceless (A : Matrix n n ℂ) (hA : Aᴴ = -A) (ht : trace A = 0) : det (mexp A) = 1 := by
  set H : Matrix n n ℂ := (-Complex.I) • A with hH
  have hHh : H.IsHermitian := by
    show Hᴴ = H
    rw [hH, conjTranspose_smul, hA]; simp
  have hAH : A = Complex.I • H := by rw [hH, smul_smul]; simp
  set U : Matrix n n ℂ := (hHh.eigenvectorUnitary : Matrix n n ℂ) with hU
  set D : Matrix n n ℂ := diagonal (RCLike.ofReal ∘ hHh.eigenvalues) with hD
  have hspec : H = U * D * star U := by
    have := hHh.spectral_theorem
    rwa [Unitary.conjStarAlgAut_apply] at this
  have hUU : U * star U = 1 := Unitary.coe_mul_star_self hHh.eigenvectorUnitary
  have hUinv : U⁻¹ = star U := Matrix.inv_eq_right_inv hUU
  have hUunit : IsUnit U := (Matrix.isUnit_iff_isUnit_det _).2 ((Matrix.isUnit_det_of_right_inverse hUU))
  have hA2 : A = U * (Complex.I • D) * U⁻¹ := by
    rw [hAH, hspec, hUinv]; simp
  rw [hA2, Matrix.exp_conj _ _ hUunit, Matrix.det_conj hUunit]
  have hID : Complex.I • D = diagonal (fun k => Complex.I * ((hHh.eigenvalues k : ℝ) : ℂ)) := by
    rw [hD]; ext i j; simp [diagonal_apply]
  rw [hID, Matrix.exp_diagonal, det_diagonal]
  simp only [Pi.coe_exp, ← Complex.exp_eq_exp_ℂ]
  rw [← Complex.exp_sum, ← Finset.mul_sum]
  have htr : ∑ k, ((hHh.eigenvalues k : ℝ) : ℂ) = 0 := by
    have h1 := hHh.trace_eq_sum_eigenvalues (𝕜 := ℂ)
    have h0 : H.trace = 0 := by rw [hH, trace_smul, ht, smul_zero]
    rw [h0] at h1
    simpa using h1.symm
  rw [htr, mul_zero, Complex.exp_zero]

open Numqi.Gellmann (Scalars) in
/-- complex branch of `to_special_orthogonal_exp`: determinant one -/
theorem soExp_complex_det' {dim : Nat} (expm : NMat ℂ → NMat ℂ) (hexp : ∀ A, toM dim dim (expm A) = mexp (toM dim dim A))
    (S : Scalars ℂ) (hS : S.Valid dim) (hd : 1 ≤ dim) (θ : Nat → ℝ) :
    (toM dim dim (soExp expm S dim false θ)).det = 1 := by
  unfold soExp; rw [hexp]
  exact det_exp_of_skew_traceless _ (soGenerator_skew S hS hd false θ) (soGenerator_complex_trace S hd θ)

end Numqi.Manifold
