/-
The executed export `exportRawG` (ℤ[i], `NumqiModel/Clifford.lean`) is the ring-generic `exportRaw` at `R = ℤ[i]`, `I = i`, `h = 1`;
the random-gate methods are ordinary method calls.
-/
import NumqiProofs.CliffordCircuit
import NumqiProofs.ScalarInstances

namespace Numqi.Clifford
open Numqi

theorem gint_intCast (n : ℤ) : ((n : ℤ) : GInt) = ⟨n, 0⟩ := rfl

theorem gintTo_GInt (z : GInt) : gintTo GInt.I z = z := by
  unfold gintTo
  rw [gint_intCast, gint_intCast]
  apply GInt.ext' <;> simp [GInt.I]

theorem gateMat1_GInt (key : GateKey) : gateMat1 GInt.I key = gateMat1G key := by
  funext a b; exact gintTo_GInt _

/-- **the executed export is the ring-generic one at ℤ[i]** (`I = i`, `h = 1`, i.e. the `H` array unnormalised) -/
theorem exportRaw_GInt (g : Gate) : exportRaw GInt.I (1 : GInt) g = exportRawG g := by
  obtain ⟨key, idx⟩ := g
  rcases idx with _ | ⟨q, _ | ⟨q1, _ | ⟨q2, r⟩⟩⟩
  · rfl
  · simp only [exportRaw, exportRawG, ite_self, one_smul]
    simp only [gateMat1_GInt]
  · simp only [exportRaw, exportRawG]
    simp only [gateMat1_GInt]
  · rfl

/-! ### random gates -/

theorem randomOneOp_cases (k : Nat) (q : Int) :
    randomOneOp k q = .gateI ∨ ∃ key : GateKey, key.arity = 1 ∧ randomOneOp k q = .append key [q] := by
  unfold randomOneOp
  cases h : singleGateList.getD k none with
  | none => exact Or.inl rfl
  | some key =>
    refine Or.inr ⟨key, ?_, rfl⟩
    have hm : some key ∈ singleGateList := by
      by_cases hk : k < singleGateList.length
      · rw [List.getD_eq_getElem?_getD, List.getElem?_eq_getElem hk] at h
        simp only [Option.getD_some] at h
        rw [← h]; exact List.getElem_mem hk
      · rw [List.getD_eq_getElem?_getD, List.getElem?_eq_none (by omega)] at h
        cases h
    simp only [singleGateList, List.mem_cons, List.not_mem_nil, or_false, Option.some.injEq, reduceCtorEq, false_or] at hm
    rcases hm with h | h | h | h | h <;> subst h <;> rfl

theorem randomTwoOp_is_append (k : Nat) (a b : Int) :
    ∃ key : GateKey, key.arity = 2 ∧ randomTwoOp k a b = .append key [a, b] := by
  refine ⟨twoGateList.getD k .CX, ?_, rfl⟩
  by_cases hk : k < twoGateList.length
  · have : k = 0 ∨ k = 1 ∨ k = 2 := by simp [twoGateList] at hk; omega
    rcases this with h | h | h <;> subst h <;> rfl
  · rw [List.getD_eq_getElem?_getD, List.getElem?_eq_none (by omega)]; rfl

/-- the early `assert index0 != index1` of `random_two_qubit_gate` and the recorder's own assert give the same outcome -/
theorem randomTwoOp_equal_indices (st : St) (k : Nat) (a : Int) : step st (randomTwoOp k a a) = (st, .err .assert) := by
  obtain ⟨key, hk, e⟩ := randomTwoOp_is_append k a a
  rw [e]
  have : checkArgs key [a, a] = none := by
    unfold checkArgs
    simp only [List.length_cons, List.length_nil, hk]
    split
    · rfl
    · split
      · rfl
      · simp
  simp only [step, this]

/-- a successful random one-qubit draw (`k ≥ 1`) records `list[k]` on the qubit and drops the cache -/
theorem randomOneOp_records (st : St) (k : Nat) (hk1 : 1 ≤ k) (hk : k < 6) (q : Nat) :
    ∃ key, singleGateList.getD k none = some key ∧
      step st (randomOneOp k (q : Int)) = ({ gates := st.gates ++ [⟨key, [q]⟩], cache := none }, .unit) := by
  have : k = 1 ∨ k = 2 ∨ k = 3 ∨ k = 4 ∨ k = 5 := by omega
  have hq : ¬ ((q : Int) < 0) := by omega
  rcases this with h | h | h | h | h <;> subst h <;>
    exact ⟨_, rfl, by simp [randomOneOp, singleGateList, step, checkArgs, GateKey.arity, hq]⟩

/-- a successful random two-qubit draw (`k < 3`, distinct non-negative indices) records `list[k]` on `(a, b)` — in this order — and
drops the cache -/
theorem randomTwoOp_records (st : St) (k : Nat) (hk : k < 3) (a b : Nat) (hab : a ≠ b) :
    ∃ key, twoGateList[k]? = some key ∧
      step st (randomTwoOp k (a : Int) (b : Int)) = ({ gates := st.gates ++ [⟨key, [a, b]⟩], cache := none }, .unit) := by
  have : k = 0 ∨ k = 1 ∨ k = 2 := by omega
  have ha : ¬ ((a : Int) < 0) := by omega
  have hb : ¬ ((b : Int) < 0) := by omega
  have hne : ¬ ((a : Int) = (b : Int)) := by omega
  rcases this with h | h | h <;> subst h <;>
    exact ⟨_, rfl, by simp [randomTwoOp, twoGateList, step, checkArgs, GateKey.arity, ha, hb, hne]⟩

theorem randomTwoDraws_spec (a b : Int) : randomTwoDraws a a = 0 ∧ (a ≠ b → randomTwoDraws a b = 1) := by
  unfold randomTwoDraws
  exact ⟨by simp, fun h => by simp [h]⟩

end Numqi.Clifford
